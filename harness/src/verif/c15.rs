//! C15 — proof requests are well-formed and sample enough: correspondence of
//! `build_prove_request_content(_from_genesis)` / `sampling::*` with the `Sampling` Lean layer
//! (the implementation's random draws are validated by the model: choice-as-input) and an
//! independent property oracle, including an exact (float-free) recomputation of the FlyClient
//! sample-count bound by interval arithmetic.

use ckb_network::PeerIndex;
use ckb_types::{core::HeaderView, packed, prelude::*, U256};
use numext_fixed_uint::U512;

use super::env::{header, verifiable, Env};
use super::{catch, fnv, run_model, Options, Report, Rng};
use crate::protocols::light_client::verif_exports::{
    estimate_k, estimate_samples_count, multiply,
};
use crate::protocols::light_client::{LastState, ProveRequest, ProveState};

const C_FRACTION: f64 = 0.5;
const LAMBDA: u32 = 50;
const SCALE: u32 = 1_000_000_000;

fn dec(v: &U256) -> String {
    format!("{}", v)
}

// ---------------------------------------------------------------------------------------------
// exact FlyClient bound (no floats): certified bounds of log2 by interval arithmetic

const F: u32 = 200; // fractional bits of the mantissa

fn u512(v: u128) -> U512 {
    let hi = (v >> 64) as u64;
    let lo = v as u64;
    (U512::from(hi) << 64u32) | U512::from(lo)
}

/// (lo, hi) bounds of log2(a/b) in Q?.64 fixed point, for a > b > 0
fn log2_bounds(a: &U512, b: &U512) -> (u128, u128) {
    // integer part
    let mut e: u32 = 0;
    while &(b << (e + 1)) <= a {
        e += 1;
    }
    let den = b << e;
    let one = U512::one() << F;
    let two = U512::one() << (F + 1);
    let y_lo0 = (a << F) / &den;
    let y_hi0 = &y_lo0 + &U512::one();
    let run = |mut y: U512, up: bool| -> u128 {
        let mut frac: u128 = 0;
        for _ in 0..64 {
            let sq = &y * &y;
            y = sq.clone() >> F;
            if up && (&y << F) != sq {
                y = &y + &U512::one();
            }
            frac <<= 1;
            if y >= two {
                frac |= 1;
                let half = y.clone() >> 1u32;
                y = if up && (&half << 1u32) != y {
                    &half + &U512::one()
                } else {
                    half
                };
            }
        }
        let _ = &one;
        frac
    };
    let lo = ((e as u128) << 64) | run(y_lo0, false);
    let hi = (((e as u128) << 64) | run(y_hi0, true)) + 1;
    (lo, hi)
}

/// certified bounds (m_lo, m_hi) of `ceil(lambda / log_{1/2}(1 - 1/k))`, `k = log2(n/l)`;
/// `None` when `k <= 1` cannot be excluded (then a single sample catches the adversary).
pub fn flyclient_m_bounds(n: u64, l: u64, lambda: u32) -> Option<(u128, u128)> {
    if n <= l || l == 0 {
        return None;
    }
    let (k_lo, k_hi) = log2_bounds(&U512::from(n), &U512::from(l));
    let one: u128 = 1u128 << 64;
    if k_lo <= one {
        return None;
    }
    // L = log2(k / (k - 1)) is decreasing in k
    let (_l_lo_lo, l_hi) = log2_bounds(&u512(k_lo), &u512(k_lo - one));
    let (l_lo, _l_lo_hi) = log2_bounds(&u512(k_hi), &u512(k_hi - one));
    if l_lo == 0 {
        return None;
    }
    let num = u512(lambda as u128) << 64u32;
    // ceil(num / l_hi) <= m_exact <= ceil(num / l_lo)
    let ceil_div = |a: &U512, b: u128| -> u128 {
        let b = u512(b);
        let q = a / &b;
        let q = if &q * &b == *a { q } else { &q + &U512::one() };
        if q > u512(u128::MAX >> 1) {
            u128::MAX >> 1
        } else {
            ((q.0[1] as u128) << 64) | q.0[0] as u128
        }
    };
    Some((ceil_div(&num, l_hi), ceil_div(&num, l_lo)))
}

// ---------------------------------------------------------------------------------------------

#[derive(Clone, Debug)]
pub struct Cfg {
    pub last_n: u64,
    pub with_prove_state: bool,
    pub from_genesis: bool,
    pub start_number: u64,
    pub start_td: U256,
    pub last_number: u64,
    pub last_td: U256,
    /// numbers of the stored last-N headers, in stored order
    pub stored_last_n: Vec<u64>,
}

fn mk_header(number: u64, salt: u64) -> HeaderView {
    // compact target 0 => block difficulty 0, so total_difficulty() == the parent root's
    header(number, 0, 0, &packed::Byte32::zero(), salt)
}

pub fn gen_cfg(rng: &mut Rng) -> Cfg {
    let last_n = *rng.pick(&[1u64, 2, 3, 5, 100, 100, 100]);
    let big = rng.chance(1, 8);
    let start_number = if big {
        *rng.pick(&[u64::MAX - 300, 1 << 63, (1 << 32) - 1, u64::MAX / 3])
    } else {
        rng.below(5000)
    };
    let gap = match rng.below(12) {
        0 => 0,
        1 => 1,
        2 => last_n.saturating_sub(1).max(1),
        3 => last_n,
        4 => last_n + 1,
        5 => last_n + 2,
        6 => 2 * last_n,
        7 => 2 * last_n + 1,
        8 => rng.range(1, 3 * last_n + 3),
        9 => rng.range(1, 100_000),
        10 => rng.range(1, 1 << 40),
        _ => rng.range(last_n + 1, 40 * last_n + 50),
    };
    let (last_number, start_number) = if rng.chance(1, 30) {
        // inverted / equal numbers
        (start_number.saturating_sub(rng.below(3)), start_number)
    } else {
        match start_number.checked_add(gap) {
            Some(l) => (l, start_number),
            None => (u64::MAX, start_number),
        }
    };
    let bits = *rng.pick(&[1u32, 8, 20, 64, 128, 200, 255]);
    let start_td = {
        let mut v = U256::zero();
        for i in 0..4 {
            v.0[i] = rng.next();
        }
        if rng.chance(1, 25) {
            U256::max_value() - U256::from(rng.below(3))
        } else {
            v >> (256 - bits)
        }
    };
    let per_block_bits = *rng.pick(&[0u32, 1, 4, 16, 64, 150]);
    let delta_td = match rng.below(10) {
        0 => U256::zero(),
        1 => U256::one(),
        2 => U256::from(2u32),
        3 => U256::from(last_number.saturating_sub(start_number)), // difficulty 1 per block
        _ => {
            let mut v = U256::zero();
            for i in 0..4 {
                v.0[i] = rng.next();
            }
            let per = (v >> (255 - per_block_bits.min(190))) | U256::one();
            per.checked_mul(&U256::from(last_number.saturating_sub(start_number).max(1)))
                .unwrap_or_else(|| U256::from(u64::MAX))
        }
    };
    let last_td = if rng.chance(1, 40) {
        start_td.checked_sub(&U256::one()).unwrap_or_else(U256::zero)
    } else {
        start_td.checked_add(&delta_td).unwrap_or_else(U256::max_value)
    };
    // stored last-N headers: the `count` blocks before the stored tip (= start), possibly fewer
    let count = match rng.below(4) {
        0 => 0,
        1 => last_n.min(start_number),
        2 => rng.below(last_n + 1).min(start_number),
        _ => last_n.min(start_number),
    };
    let mut stored_last_n: Vec<u64> = (0..count).map(|i| start_number - count + i).collect();
    if rng.chance(1, 10) {
        stored_last_n.reverse();
    }
    let mut c = Cfg {
        last_n,
        with_prove_state: rng.chance(1, 2),
        from_genesis: rng.chance(1, 8),
        start_number,
        start_td,
        last_number,
        last_td,
        stored_last_n,
    };
    // a peer whose proved header lags behind the store (another peer has moved the stored tip
    // and the remembered headers on): the remembered headers lie partly or wholly ABOVE the
    // start of this peer's request.  Decided from the configuration, not drawn (the random
    // stream of the configurations stays what it was).
    let h = fnv(&format!("{} {} {} {}", c.last_n, c.start_number, c.last_number, c.stored_last_n.len()));
    if c.with_prove_state && !c.from_genesis && h % 4 == 0 {
        let shift = 1 + (h / 4) % (2 * c.last_n + 3);
        for n in c.stored_last_n.iter_mut() {
            *n += shift;
        }
    }
    c
}

fn parse_cfg(line: &str) -> Option<Cfg> {
    // "cfg lastN prove genesis sn std ln ltd | h1 h2 ..."
    let t: Vec<&str> = line.split_whitespace().collect();
    if t.first() != Some(&"cfg") || t.len() < 9 {
        return None;
    }
    let p = |s: &str| s.parse::<u64>().unwrap();
    let u = |s: &str| U256::from_dec_str(s).unwrap();
    Some(Cfg {
        last_n: p(t[1]),
        with_prove_state: p(t[2]) == 1,
        from_genesis: p(t[3]) == 1,
        start_number: p(t[4]),
        start_td: u(t[5]),
        last_number: p(t[6]),
        last_td: u(t[7]),
        stored_last_n: t[9..].iter().map(|s| p(s)).collect(),
    })
}

fn cfg_line(c: &Cfg) -> String {
    format!(
        "cfg {} {} {} {} {} {} {} | {}",
        c.last_n,
        c.with_prove_state as u8,
        c.from_genesis as u8,
        c.start_number,
        dec(&c.start_td),
        c.last_number,
        dec(&c.last_td),
        c.stored_last_n
            .iter()
            .map(|n| n.to_string())
            .collect::<Vec<_>>()
            .join(" ")
    )
}

pub fn run(opts: &Options) -> Report {
    let mut rep = Report::default();
    rep.rule = "configurations (last-N in {1,2,3,5,100}; start = peer's proven header or stored tip; \
        gaps 0,1,lastN-1,lastN,lastN+1,2lastN(+1), random up to 2^40, numbers up to 2^64-1; total \
        difficulties 1..255 bits incl. equal/decreasing; stored last-N headers full/partial/none) x \
        repeated calls of build_prove_request_content(_from_genesis) (each call draws fresh random \
        samples), plus direct multiply / estimate_samples_count calls and the exhaustive (l, n) table \
        for the exact FlyClient bound; non-trivial = the call returned a request; distinct = distinct \
        configuration line"
        .into();
    let mut rng = Rng::new(opts.seed);
    super::seed_client_randomness(opts.seed);
    let n_cfg = if opts.thorough() { 40_000 } else { 3_000 };
    let calls_per_cfg = if opts.thorough() { 40 } else { 12 };

    let mut cfgs: Vec<Cfg> = Vec::new();
    if let Some(p) = &opts.replay {
        for l in std::fs::read_to_string(p).expect("replay").lines() {
            if let Some(c) = parse_cfg(l) {
                cfgs.push(c);
            }
        }
    } else {
        if let Ok(rd) = std::fs::read_dir("/verif/corpus/C15") {
            for e in rd.flatten() {
                for l in std::fs::read_to_string(e.path()).unwrap_or_default().lines() {
                    if let Some(c) = parse_cfg(l) {
                        cfgs.push(c);
                    }
                }
            }
        }
        for _ in 0..n_cfg {
            cfgs.push(gen_cfg(&mut rng));
        }
    }

    let env = Env::new(1, 2000);
    let peer: PeerIndex = PeerIndex::new(1);
    let mut lines: Vec<String> = Vec::new();
    let mut impls: Vec<String> = Vec::new();
    let mut origin: Vec<usize> = Vec::new(); // index of the configuration of each line

    for (ci, c) in cfgs.iter().enumerate() {
        let mut protocol = env.protocol();
        protocol.verif_set_last_n_blocks(c.last_n);
        // storage: tip = start block, last-N headers as configured
        let start_header = mk_header(c.start_number, 1);
        let stored: Vec<HeaderView> = c
            .stored_last_n
            .iter()
            .map(|n| mk_header(*n, 1000 + *n % 977))
            .collect();
        env.storage
            .update_last_state(&c.start_td, &start_header.data(), &stored);
        // peer state
        env.peers.remove_peer(peer);
        env.peers.add_peer(peer);
        let last_vh = verifiable(mk_header(c.last_number, 2), &c.last_td);
        let start_vh = verifiable(start_header.clone(), &c.start_td);
        env.peers.request_last_state(peer).unwrap();
        if c.with_prove_state {
            let ls = LastState::new(start_vh.clone());
            env.peers.update_last_state(peer, ls.clone()).unwrap();
            let req = ProveRequest::new(ls, Default::default());
            env.peers.update_prove_request(peer, req.clone()).unwrap();
            let ps = ProveState::new_from_request(req, vec![], vec![]);
            env.peers.update_prove_state(peer, ps).unwrap();
        }
        env.peers
            .update_last_state(peer, LastState::new(last_vh.clone()))
            .unwrap();
        let peer_state = env.peers.get_state(&peer).unwrap();

        // the float-derived inputs of the model, recomputed with the implementation's own helpers
        let (sn, std_) = if c.from_genesis {
            (0u64, U256::zero())
        } else {
            (c.start_number, c.start_td.clone())
        };
        let blocks_count = c.last_number.saturating_sub(sn);
        let (nb, count, k) = if blocks_count > c.last_n {
            let k = estimate_k(c.last_n, blocks_count, C_FRACTION);
            let delta = C_FRACTION.powf(k);
            let nb = ((1.0 - delta) * f64::from(SCALE)) as u32;
            let count = estimate_samples_count(blocks_count, c.last_n, k, LAMBDA);
            (nb as u64, count, k)
        } else {
            (0, 0, 0.0)
        };

        let hs = c
            .stored_last_n
            .iter()
            .map(|n| n.to_string())
            .collect::<Vec<_>>()
            .join(" ");
        let mut any_request = false;
        for call in 0..calls_per_cfg {
            rep.evaluations += 1;
            let res = catch(|| {
                if c.from_genesis {
                    protocol.build_prove_request_content_from_genesis(&last_vh)
                } else {
                    protocol.build_prove_request_content(&peer_state, &last_vh)
                }
            });
            let (imp, ds_txt) = match &res {
                Err(p) => (format!("panic {}", super::c14::panic_class(p)), String::new()),
                Ok(None) => ("none".to_string(), String::new()),
                Ok(Some(content)) => {
                    any_request = true;
                    let start_hash = content.start_hash();
                    let start_number: u64 = content.start_number().unpack();
                    let boundary: U256 = content.difficulty_boundary().unpack();
                    let ds: Vec<U256> = content
                        .difficulties()
                        .into_iter()
                        .map(|d| d.unpack())
                        .collect();
                    let sel = if c.from_genesis {
                        if start_hash == env.storage.get_genesis_block().calc_header_hash() {
                            "own".to_string()
                        } else {
                            "other".to_string()
                        }
                    } else if start_hash == start_header.hash() {
                        "own".to_string()
                    } else if let Some(i) = stored.iter().position(|h| h.hash() == start_hash) {
                        format!("stored {}", i)
                    } else {
                        "other".to_string()
                    };
                    // ---- property oracle (independent of the model)
                    let replay = vec![
                        cfg_line(c),
                        format!(
                            "# request: start={} ({}) boundary={} difficulties={:?}",
                            start_number,
                            sel,
                            dec(&boundary),
                            ds.iter().map(dec).collect::<Vec<_>>()
                        ),
                    ];
                    if start_number >= c.last_number {
                        rep.violate(
                            "C15|start-not-below-last",
                            "request start number is not below the last number",
                            replay.clone(),
                        );
                    }
                    if std_ > c.last_td {
                        rep.violate(
                            "C15|start-td-above-last",
                            "request built although start difficulty is above the last one",
                            replay.clone(),
                        );
                    }
                    let last_n_u: u64 = content.last_n_blocks().unpack();
                    if last_n_u != c.last_n {
                        rep.violate("C15|last-n", "wrong last_n_blocks in request", replay.clone());
                    }
                    if blocks_count <= c.last_n {
                        if !ds.is_empty() {
                            rep.violate(
                                "C15|samples-when-all-requested",
                                "samples requested although at most last-N blocks are missing",
                                replay.clone(),
                            );
                        }
                        if boundary != std_ {
                            rep.violate(
                                "C15|boundary-not-start",
                                "boundary differs from the start difficulty in the last-N branch",
                                replay.clone(),
                            );
                        }
                        if start_number > sn
                            || c.last_number - start_number > c.last_n && start_number != sn
                        {
                            rep.violate(
                                "C15|rebase-out-of-range",
                                "rebased start does not cover the missing blocks within last-N",
                                replay.clone(),
                            );
                        }
                    } else {
                        if !(std_ < boundary && boundary <= c.last_td) {
                            rep.violate(
                                if std_ == c.last_td {
                                    "C15|boundary-outside|equal-difficulty"
                                } else {
                                    "C15|boundary-outside"
                                },
                                "difficulty boundary is not within (start, last]",
                                replay.clone(),
                            );
                        }
                        for w in ds.windows(2) {
                            if w[0] >= w[1] {
                                rep.violate(
                                    "C15|samples-not-increasing",
                                    "sampled difficulties are not strictly increasing",
                                    replay.clone(),
                                );
                            }
                        }
                        for d in &ds {
                            if !(std_ < *d && *d < boundary) {
                                let sig = if *d == std_ && boundary == &std_ + &U256::one() {
                                    "C15|sample-equals-start|boundary=start+1"
                                } else {
                                    "C15|sample-outside"
                                };
                                rep.violate(
                                    sig,
                                    "a sampled difficulty is not inside (start, boundary)",
                                    replay.clone(),
                                );
                            }
                        }
                        if ds.is_empty() {
                            // (independent of the implementation's own count)
                            rep.violate(
                                "C15|no-sample|more-than-last-n-missing",
                                "more than last-N blocks are missing, only the last N are requested and none of the others is sampled",
                                replay.clone(),
                            );
                        }
                        if ds.len() as u64 > count || (count > 0 && ds.is_empty()) {
                            rep.violate(
                                "C15|sample-count-structure",
                                "number of distinct samples is not within [1, draws]",
                                replay.clone(),
                            );
                        }
                    }
                    let ds_txt = ds.iter().map(dec).collect::<Vec<_>>().join(" ");
                    (
                        format!("req {} {} {} {} 1", sel, start_number, dec(&boundary), ds.len()),
                        ds_txt,
                    )
                }
            };
            if let Some(p) = imp.strip_prefix("panic ") {
                rep.violate(
                    &format!("C15|abort|{}", p),
                    "building a proof request aborts",
                    vec![cfg_line(c)],
                );
            }
            let line = if c.from_genesis {
                format!(
                    "gen {} {} {} {} {} | {}",
                    c.last_n,
                    c.last_number,
                    dec(&c.last_td),
                    nb,
                    count,
                    ds_txt
                )
            } else {
                format!(
                    "req {} {} {} {} {} {} {} | {} | {}",
                    c.last_n,
                    c.start_number,
                    dec(&c.start_td),
                    c.last_number,
                    dec(&c.last_td),
                    nb,
                    count,
                    hs,
                    ds_txt
                )
            };
            rep.count_op(if c.from_genesis { "gen" } else { "req" });
            rep.count_class(imp.split(' ').next().unwrap_or(""));
            if call == 0 && ci % 400 == 0 {
                rep.sample(&format!("{} => {}", cfg_line(c), imp));
            }
            lines.push(line);
            impls.push(imp.clone());
            origin.push(ci);
            if imp == "none" || imp.starts_with("panic") || blocks_count <= c.last_n {
                break; // deterministic: one call is enough
            }
        }
        if any_request {
            rep.nontrivial.insert(fnv(&cfg_line(c)));
        }

        // multiply cross-check (the boundary numerator) and the sample-count bound
        if blocks_count > c.last_n && c.last_td >= std_ {
            let delta = C_FRACTION.powf(k);
            let range = &c.last_td - &std_;
            let m_impl = multiply(&range, 1.0 - delta);
            lines.push(format!("mul {} {}", dec(&range), nb));
            impls.push(dec(&m_impl));
            origin.push(ci);
            rep.count_op("mul");
            // estimate_samples_count branch structure as a function of the float m
            let m_f = (f64::from(LAMBDA) / ((1.0 - 1.0 / k).log(0.5))).ceil() as u64;
            lines.push(format!("esc {} {} {}", blocks_count, c.last_n, m_f));
            impls.push(count.to_string());
            origin.push(ci);
            rep.count_op("esc");
            // exact bound
            check_bound(&mut rep, blocks_count, c.last_n, count);
        }
    }

    // exhaustive (l, n) table for the sample-count bound
    if opts.replay.is_none() {
        let ls: Vec<u64> = if opts.thorough() {
            (1..=128).chain([1000u64]).collect()
        } else {
            vec![1, 2, 3, 5, 10, 50, 100, 128, 1000]
        };
        let mut table = 0u64;
        for l in ls {
            let mut ns: Vec<u64> = (l + 1..=4 * l + 2).collect();
            for j in 1..64u32 {
                let p = 1u64 << j;
                ns.extend([p - 1, p, p + 1]);
            }
            ns.push(u64::MAX);
            for n in ns {
                if n <= l {
                    continue;
                }
                let k = estimate_k(l, n, C_FRACTION);
                let count = estimate_samples_count(n, l, k, LAMBDA);
                check_bound(&mut rep, n, l, count);
                table += 1;
            }
        }
        rep.notes.push(format!("sample-count bound table entries: {}", table));
        rep.evaluations += table;
    }

    let answers = run_model(opts, "sampling", &lines);
    for (i, a) in answers.iter().enumerate() {
        let a = super::c14::model_class(a);
        if *a == impls[i] {
            rep.traces_validated += 1;
        } else {
            rep.disagree(&format!("{}   [{}]", lines[i], cfg_line(&cfgs[origin[i]])), &impls[i], &a);
        }
    }
    rep
}

/// the number of draws must be at least the exact FlyClient requirement minus the fully
/// checked last-N blocks (capped by the number of blocks that can be sampled at all)
fn check_bound(rep: &mut Report, n: u64, l: u64, count: u64) {
    let required: u128 = match flyclient_m_bounds(n, l, LAMBDA) {
        None => 0,
        Some((m_lo, _)) => m_lo.saturating_sub(l as u128).min((n - l) as u128),
    };
    rep.count_class(if required == 0 { "bound:trivial" } else { "bound:checked" });
    if (count as u128) < required {
        rep.violate(
            "C15|too-few-samples",
            "fewer samples than the FlyClient bound requires",
            vec![
                format!("# estimate_samples_count(blocks_count={}, last_n={}, k=estimate_k(..), 50) = {}", n, l, count),
                format!("# certified lower bound of the exact requirement (after discounting last-N) = {}", required),
                format!("bound {} {}", n, l),
            ],
        );
    }
}

//! An honest full node answering the light client's requests from a `SimChain`: a
//! re-implementation of ckb v0.113 `util/light-client-protocol-server` (RFC 44), of the block
//! filter server in `sync/src/filter` (RFC 45) and of `GetBlocks` of the sync protocol.
//!
//! Every function is pure over `&SimChain` and returns the CONTENT of the response message;
//! `Err(String)` stands for "a real server replies nothing / bans the client" (malformed
//! request, or a request which makes ckb fail internally) - honest clients never cause it.
//! `handle` decodes a raw request as captured by `MockContext` and returns the raw replies.

use std::collections::{BTreeMap, HashSet};

use ckb_network::{bytes::Bytes, ProtocolId, SupportProtocols};
use ckb_types::{
    packed::{self, Byte32},
    prelude::*,
    utilities::CBMT,
    U256,
};

use super::simchain::SimChain;

/// ckb `light-client-protocol-server/src/constant.rs`
pub const GET_LAST_STATE_PROOF_LIMIT: usize = 1000;
pub const GET_BLOCKS_PROOF_LIMIT: usize = 1000;
pub const GET_TRANSACTIONS_PROOF_LIMIT: usize = 1000;
/// ckb `sync/src/filter`: batch sizes of the three filter responses
pub const BLOCK_FILTERS_BATCH: u64 = 1000;
pub const BLOCK_FILTER_HASHES_BATCH: u64 = 2000;
pub const BLOCK_FILTER_CHECK_POINTS_BATCH: u64 = 2000;
/// ckb `sync/src/synchronizer/get_blocks_process.rs`: `INIT_BLOCKS_IN_TRANSIT_PER_PEER`
pub const GET_BLOCKS_LIMIT: usize = 16;

#[derive(Clone, Debug)]
pub struct ServerOpts {
    /// answer `GetBlocksProof` / `GetTransactionsProof` with the V1 tables (what a ckb2023 node
    /// does): uncles hash and extension per proved block
    pub v1: bool,
    /// distance of two filter check points
    pub check_point_interval: u64,
    /// enforce the request limits of ckb (`Err` when exceeded)
    pub enforce_limits: bool,
    /// filters per `BlockFilters` answer (ckb: at most 1000, fewer when the message gets large)
    pub filters_batch: u64,
}

impl Default for ServerOpts {
    fn default() -> Self {
        ServerOpts {
            v1: false,
            check_point_interval: crate::protocols::CHECK_POINT_INTERVAL,
            enforce_limits: true,
            filters_batch: BLOCK_FILTERS_BATCH,
        }
    }
}

// ---------------------------------------------------------------------------------------------
// light client protocol

pub fn send_last_state(chain: &SimChain) -> packed::SendLastState {
    packed::SendLastState::new_builder()
        .last_header(chain.verifiable_header(chain.tip_number()))
        .build()
}

/// first block number in `[start, end)` whose total difficulty is not less than `difficulty`
fn first_block_not_less_than(
    chain: &SimChain,
    start: u64,
    end: u64,
    difficulty: &U256,
) -> Option<u64> {
    if start >= end {
        return None;
    }
    let slice = &chain.total_difficulties[start as usize..end as usize];
    // total difficulties are non-decreasing
    let offset = slice.partition_point(|td| td < difficulty);
    if offset < slice.len() {
        Some(start + offset as u64)
    } else {
        None
    }
}

/// The block numbers (reorg, sampled, last-n) an honest server proves for the request, or
/// `Ok(None)` if `last_hash` is not on this chain ("tip state" is sent).
#[allow(clippy::type_complexity)]
pub fn last_state_proof_numbers(
    chain: &SimChain,
    req: &packed::GetLastStateProof,
    opts: &ServerOpts,
) -> Result<Option<(u64, Vec<u64>, Vec<u64>, Vec<u64>)>, String> {
    let last_n_blocks: u64 = req.last_n_blocks().unpack();
    if opts.enforce_limits
        && req.difficulties().len() + (last_n_blocks as usize) * 2 > GET_LAST_STATE_PROOF_LIMIT
    {
        return Err("too many samples".into());
    }
    let last = match chain.number_of_hash(&req.last_hash()) {
        Some(n) => n,
        None => return Ok(None),
    };
    let start_hash = req.start_hash();
    let start_number: u64 = req.start_number().unpack();
    let difficulty_boundary: U256 = req.difficulty_boundary().unpack();
    let mut difficulties: Vec<U256> = req
        .difficulties()
        .into_iter()
        .map(|d| Unpack::<U256>::unpack(&d))
        .collect();
    if start_number > last {
        return Err(format!("start number {} is after last {}", start_number, last));
    }

    let reorg: Vec<u64> = if start_number == 0 || chain.header(start_number).hash() == start_hash
    {
        Vec::new()
    } else {
        // genesis has no chain root
        let min = start_number - std::cmp::min(start_number - 1, last_n_blocks);
        (min..start_number).collect()
    };

    // check the request
    if difficulties.windows(2).any(|d| d[0] >= d[1]) {
        return Err("the difficulties should be monotonically increasing".into());
    }
    if difficulties
        .last()
        .map(|d| *d >= difficulty_boundary)
        .unwrap_or(false)
    {
        return Err("the difficulty boundary should be greater than all difficulties".into());
    }
    if let Some(first) = difficulties.first() {
        if start_number > 0 && chain.total_difficulty(start_number - 1) >= first {
            return Err(format!(
                "the start difficulty {:#x} is too less than the previous block #{} of the start block",
                first,
                start_number - 1
            ));
        }
    }

    let (sampled, last_n): (Vec<u64>, Vec<u64>) = if last - start_number <= last_n_blocks {
        // not enough blocks: take all of them, no samples
        (Vec::new(), (start_number..last).collect())
    } else {
        let mut boundary_block =
            first_block_not_less_than(chain, start_number, last, &difficulty_boundary).ok_or_else(
                || {
                    format!(
                        "the difficulty boundary ({:#x}) is not in the block range [{}, {})",
                        difficulty_boundary, start_number, last
                    )
                },
            )?;
        if last - boundary_block < last_n_blocks {
            // not enough blocks after the boundary: take more
            boundary_block = last - last_n_blocks;
        }
        let last_n: Vec<u64> = (boundary_block..last).collect();
        if boundary_block > 0 {
            let total = chain.total_difficulty(boundary_block - 1).clone();
            difficulties = difficulties
                .into_iter()
                .take_while(|d| *d <= total)
                .collect();
            let mut sampled = Vec::new();
            let mut from = start_number;
            let mut current = U256::zero();
            for d in &difficulties {
                if current >= *d {
                    // same block as the previous sample
                    continue;
                }
                let n = first_block_not_less_than(chain, from, boundary_block, d).ok_or_else(
                    || {
                        format!(
                            "the difficulty ({:#x}) is not in the block range [{}, {})",
                            d, from, boundary_block
                        )
                    },
                )?;
                if n > from {
                    from = n - 1;
                }
                sampled.push(n);
                current = chain.total_difficulty(n).clone();
            }
            (sampled, last_n)
        } else {
            (Vec::new(), last_n)
        }
    };
    Ok(Some((last, reorg, sampled, last_n)))
}

/// ckb v0.113 `light-client-protocol-server/src/components/get_last_state_proof.rs`
pub fn get_last_state_proof(
    chain: &SimChain,
    req: &packed::GetLastStateProof,
    opts: &ServerOpts,
) -> Result<packed::SendLastStateProof, String> {
    match last_state_proof_numbers(chain, req, opts)? {
        None => Ok(packed::SendLastStateProof::new_builder()
            .last_header(chain.verifiable_header(chain.tip_number()))
            .build()),
        Some((last, reorg, sampled, last_n)) => {
            let numbers: Vec<u64> = reorg
                .into_iter()
                .chain(sampled.into_iter())
                .chain(last_n.into_iter())
                .collect();
            if last == 0 {
                return Err("the genesis block has no parent chain root".into());
            }
            let proof = chain.try_mmr_proof(last, &numbers)?;
            let headers = packed::VerifiableHeaderVec::new_builder()
                .set(
                    numbers
                        .iter()
                        .map(|n| chain.verifiable_header(*n))
                        .collect(),
                )
                .build();
            Ok(packed::SendLastStateProof::new_builder()
                .last_header(chain.verifiable_header(last))
                .proof(proof)
                .headers(headers)
                .build())
        }
    }
}

/// The parts of a `SendBlocksProof(V1)`; `proved == None` is the "tip state".
pub struct BlocksProof {
    pub last_header: packed::VerifiableHeader,
    pub proof: packed::HeaderDigestVec,
    pub headers: Vec<packed::Header>,
    pub uncles_hashes: Vec<Byte32>,
    pub extensions: Vec<packed::BytesOpt>,
    pub missing: Vec<Byte32>,
}

fn bytes_opt_vec(items: Vec<packed::BytesOpt>) -> packed::BytesOptVec {
    packed::BytesOptVec::new_builder().set(items).build()
}

impl BlocksProof {
    pub fn v0(&self) -> packed::SendBlocksProof {
        packed::SendBlocksProof::new_builder()
            .last_header(self.last_header.clone())
            .proof(self.proof.clone())
            .headers(self.headers.clone().pack())
            .missing_block_hashes(self.missing.clone().pack())
            .build()
    }
    pub fn v1(&self) -> packed::SendBlocksProofV1 {
        packed::SendBlocksProofV1::new_builder()
            .last_header(self.last_header.clone())
            .proof(self.proof.clone())
            .headers(self.headers.clone().pack())
            .missing_block_hashes(self.missing.clone().pack())
            .blocks_uncles_hash(self.uncles_hashes.clone().pack())
            .blocks_extension(bytes_opt_vec(self.extensions.clone()))
            .build()
    }
}

/// ckb v0.113 `get_blocks_proof.rs`
pub fn get_blocks_proof(
    chain: &SimChain,
    req: &packed::GetBlocksProof,
    opts: &ServerOpts,
) -> Result<BlocksProof, String> {
    if req.block_hashes().is_empty() {
        return Err("no block".into());
    }
    if opts.enforce_limits && req.block_hashes().len() > GET_BLOCKS_PROOF_LIMIT {
        return Err("too many blocks".into());
    }
    let last_hash = req.last_hash();
    let last = match chain.number_of_hash(&last_hash) {
        Some(n) => n,
        None => {
            return Ok(BlocksProof {
                last_header: chain.verifiable_header(chain.tip_number()),
                proof: Default::default(),
                headers: Vec::new(),
                uncles_hashes: Vec::new(),
                extensions: Vec::new(),
                missing: Vec::new(),
            })
        }
    };
    let block_hashes: Vec<Byte32> = req.block_hashes().into_iter().collect();
    let mut uniq = HashSet::new();
    if !block_hashes
        .iter()
        .chain([last_hash].iter())
        .all(|hash| uniq.insert(hash.clone()))
    {
        return Err("duplicate block hash exists".into());
    }
    let (found, missing): (Vec<Byte32>, Vec<Byte32>) = block_hashes
        .into_iter()
        .partition(|hash| chain.number_of_hash(hash).is_some());
    let numbers: Vec<u64> = found
        .iter()
        .map(|hash| chain.number_of_hash(hash).expect("found"))
        .collect();
    if last == 0 {
        return Err("the genesis block has no parent chain root".into());
    }
    let proof = chain.try_mmr_proof(last, &numbers)?;
    Ok(BlocksProof {
        last_header: chain.verifiable_header(last),
        proof,
        headers: numbers
            .iter()
            .map(|n| chain.block(*n).data().header())
            .collect(),
        uncles_hashes: numbers
            .iter()
            .map(|n| chain.block(*n).calc_uncles_hash())
            .collect(),
        extensions: numbers
            .iter()
            .map(|n| Pack::pack(&chain.block(*n).extension()))
            .collect(),
        missing,
    })
}

/// The parts of a `SendTransactionsProof(V1)`.
pub struct TransactionsProof {
    pub last_header: packed::VerifiableHeader,
    pub proof: packed::HeaderDigestVec,
    pub filtered_blocks: Vec<packed::FilteredBlock>,
    pub uncles_hashes: Vec<Byte32>,
    pub extensions: Vec<packed::BytesOpt>,
    pub missing: Vec<Byte32>,
}

impl TransactionsProof {
    fn filtered_block_vec(&self) -> packed::FilteredBlockVec {
        packed::FilteredBlockVec::new_builder()
            .set(self.filtered_blocks.clone())
            .build()
    }
    pub fn v0(&self) -> packed::SendTransactionsProof {
        packed::SendTransactionsProof::new_builder()
            .last_header(self.last_header.clone())
            .proof(self.proof.clone())
            .filtered_blocks(self.filtered_block_vec())
            .missing_tx_hashes(self.missing.clone().pack())
            .build()
    }
    pub fn v1(&self) -> packed::SendTransactionsProofV1 {
        packed::SendTransactionsProofV1::new_builder()
            .last_header(self.last_header.clone())
            .proof(self.proof.clone())
            .filtered_blocks(self.filtered_block_vec())
            .missing_tx_hashes(self.missing.clone().pack())
            .blocks_uncles_hash(self.uncles_hashes.clone().pack())
            .blocks_extension(bytes_opt_vec(self.extensions.clone()))
            .build()
    }
}

/// ckb v0.113 `get_transactions_proof.rs` (filtered blocks in ascending block order, ckb's
/// order is the one of a hash map)
pub fn get_transactions_proof(
    chain: &SimChain,
    req: &packed::GetTransactionsProof,
    opts: &ServerOpts,
) -> Result<TransactionsProof, String> {
    if req.tx_hashes().is_empty() {
        return Err("no transaction".into());
    }
    if opts.enforce_limits && req.tx_hashes().len() > GET_TRANSACTIONS_PROOF_LIMIT {
        return Err("too many transactions".into());
    }
    let last = match chain.number_of_hash(&req.last_hash()) {
        Some(n) => n,
        None => {
            return Ok(TransactionsProof {
                last_header: chain.verifiable_header(chain.tip_number()),
                proof: Default::default(),
                filtered_blocks: Vec::new(),
                uncles_hashes: Vec::new(),
                extensions: Vec::new(),
                missing: Vec::new(),
            })
        }
    };
    let tx_hashes: Vec<Byte32> = req.tx_hashes().into_iter().collect();
    let mut uniq = HashSet::new();
    if !tx_hashes.iter().all(|hash| uniq.insert(hash.clone())) {
        return Err("duplicate tx hash exists".into());
    }
    let (found, missing): (Vec<Byte32>, Vec<Byte32>) = tx_hashes
        .into_iter()
        .partition(|hash| chain.tx_location(hash).is_some());
    let mut txs_in_blocks: BTreeMap<u64, Vec<usize>> = BTreeMap::new();
    for hash in &found {
        let (number, index) = chain.tx_location(hash).expect("found");
        txs_in_blocks.entry(number).or_default().push(index);
    }
    let mut numbers = Vec::new();
    let mut filtered_blocks = Vec::new();
    let mut uncles_hashes = Vec::new();
    let mut extensions = Vec::new();
    for (number, indices) in txs_in_blocks {
        let block = chain.block(number);
        let merkle_proof = CBMT::build_merkle_proof(
            &block
                .transactions()
                .iter()
                .map(|tx| tx.hash())
                .collect::<Vec<_>>(),
            &indices.iter().map(|i| *i as u32).collect::<Vec<_>>(),
        )
        .ok_or_else(|| "build proof with verified inputs should be OK".to_string())?;
        let txs: Vec<packed::Transaction> = indices
            .iter()
            .map(|i| block.transaction(*i).expect("indexed").data())
            .collect();
        let filtered_block = packed::FilteredBlock::new_builder()
            .header(block.data().header())
            .witnesses_root(block.calc_witnesses_root())
            .transactions(txs.pack())
            .proof(
                packed::MerkleProof::new_builder()
                    .indices(merkle_proof.indices().to_owned().pack())
                    .lemmas(merkle_proof.lemmas().to_owned().pack())
                    .build(),
            )
            .build();
        numbers.push(number);
        filtered_blocks.push(filtered_block);
        uncles_hashes.push(block.calc_uncles_hash());
        extensions.push(Pack::pack(&block.extension()));
    }
    if last == 0 {
        return Err("the genesis block has no parent chain root".into());
    }
    let proof = chain.try_mmr_proof(last, &numbers)?;
    Ok(TransactionsProof {
        last_header: chain.verifiable_header(last),
        proof,
        filtered_blocks,
        uncles_hashes,
        extensions,
        missing,
    })
}

/// Wraps a content (also the V1 tables: they travel under the union item of the v0 table, the
/// receiver detects the two extra fields) into a `LightClientMessage`.
pub fn light_client_message<T: Into<packed::LightClientMessageUnion>>(content: T) -> Bytes {
    packed::LightClientMessage::new_builder()
        .set(content)
        .build()
        .as_bytes()
}

/// The byte surgery equivalent of `light_client_message` for a V1 table: the 4-byte LE item id
/// of the v0 union item followed by the V1 table.
pub fn wrap_under_item_id(item_id: u32, table: &[u8]) -> Bytes {
    let mut v = item_id.to_le_bytes().to_vec();
    v.extend_from_slice(table);
    Bytes::from(v)
}

// ---------------------------------------------------------------------------------------------
// sync protocol

/// `GetBlocks` -> one `SendBlock` per known hash (the first `GET_BLOCKS_LIMIT` hashes only)
pub fn get_blocks(chain: &SimChain, req: &packed::GetBlocks) -> Vec<packed::SendBlock> {
    req.block_hashes()
        .into_iter()
        .take(GET_BLOCKS_LIMIT)
        .filter_map(|hash| chain.number_of_hash(&hash))
        .map(|n| {
            packed::SendBlock::new_builder()
                .block(chain.block(n).data())
                .build()
        })
        .collect()
}

// ---------------------------------------------------------------------------------------------
// block filter protocol

/// `None`: nothing is sent (the start block is not built yet)
pub fn get_block_filters(
    chain: &SimChain,
    req: &packed::GetBlockFilters,
) -> Option<packed::BlockFilters> {
    get_block_filters_batch(chain, req, BLOCK_FILTERS_BATCH)
}

pub fn get_block_filters_batch(
    chain: &SimChain,
    req: &packed::GetBlockFilters,
    batch: u64,
) -> Option<packed::BlockFilters> {
    let start_number: u64 = req.start_number().unpack();
    let tip = chain.tip_number();
    if tip < start_number {
        return None;
    }
    let end = std::cmp::min(tip, start_number.saturating_add(batch.max(1) - 1));
    let block_hashes: Vec<Byte32> = (start_number..=end)
        .map(|n| chain.block(n).hash())
        .collect();
    let filters: Vec<packed::Bytes> = (start_number..=end)
        .map(|n| chain.filters[n as usize].clone())
        .collect();
    Some(
        packed::BlockFilters::new_builder()
            .start_number(start_number.pack())
            .block_hashes(block_hashes.pack())
            .filters(filters.pack())
            .build(),
    )
}

pub fn get_block_filter_hashes(
    chain: &SimChain,
    req: &packed::GetBlockFilterHashes,
) -> Option<packed::BlockFilterHashes> {
    let start_number: u64 = req.start_number().unpack();
    let tip = chain.tip_number();
    if tip < start_number {
        return None;
    }
    let parent = if start_number > 0 {
        chain.filter_hashes[start_number as usize - 1].clone()
    } else {
        Byte32::zero()
    };
    let end = std::cmp::min(
        tip,
        start_number.saturating_add(BLOCK_FILTER_HASHES_BATCH - 1),
    );
    let hashes: Vec<Byte32> = (start_number..=end)
        .map(|n| chain.filter_hashes[n as usize].clone())
        .collect();
    Some(
        packed::BlockFilterHashes::new_builder()
            .start_number(start_number.pack())
            .parent_block_filter_hash(parent)
            .block_filter_hashes(hashes.pack())
            .build(),
    )
}

pub fn get_block_filter_check_points(
    chain: &SimChain,
    req: &packed::GetBlockFilterCheckPoints,
    interval: u64,
) -> Option<packed::BlockFilterCheckPoints> {
    let start_number: u64 = req.start_number().unpack();
    let tip = chain.tip_number();
    if tip < start_number {
        return None;
    }
    let mut hashes = Vec::new();
    let mut n = start_number;
    while n <= tip && (hashes.len() as u64) < BLOCK_FILTER_CHECK_POINTS_BATCH {
        hashes.push(chain.filter_hashes[n as usize].clone());
        n = match n.checked_add(interval) {
            Some(n) => n,
            None => break,
        };
    }
    Some(
        packed::BlockFilterCheckPoints::new_builder()
            .start_number(start_number.pack())
            .block_filter_hashes(hashes.pack())
            .build(),
    )
}

fn filter_message<T: Into<packed::BlockFilterMessageUnion>>(content: T) -> Bytes {
    packed::BlockFilterMessage::new_builder()
        .set(content)
        .build()
        .as_bytes()
}

// ---------------------------------------------------------------------------------------------
// dispatcher

/// Decodes a request the client sent on `protocol` and returns the replies `(protocol, bytes)`
/// of an honest node having `chain`.  Messages which are not requests (e.g. `InIBD`) are
/// ignored (`Ok(empty)`); malformed bytes and invalid requests are `Err`.
pub fn handle(
    chain: &SimChain,
    opts: &ServerOpts,
    protocol: ProtocolId,
    data: &[u8],
) -> Result<Vec<(ProtocolId, Bytes)>, String> {
    let lc = SupportProtocols::LightClient.protocol_id();
    let filter = SupportProtocols::Filter.protocol_id();
    let sync = SupportProtocols::Sync.protocol_id();
    if protocol == lc {
        let msg = packed::LightClientMessageReader::from_compatible_slice(data)
            .map_err(|e| format!("malformed LightClientMessage: {}", e))?
            .to_enum();
        let reply = match msg {
            packed::LightClientMessageUnionReader::GetLastState(_) => {
                Some(light_client_message(send_last_state(chain)))
            }
            packed::LightClientMessageUnionReader::GetLastStateProof(r) => Some(
                light_client_message(get_last_state_proof(chain, &r.to_entity(), opts)?),
            ),
            packed::LightClientMessageUnionReader::GetBlocksProof(r) => {
                let parts = get_blocks_proof(chain, &r.to_entity(), opts)?;
                Some(if opts.v1 {
                    light_client_message(parts.v1())
                } else {
                    light_client_message(parts.v0())
                })
            }
            packed::LightClientMessageUnionReader::GetTransactionsProof(r) => {
                let parts = get_transactions_proof(chain, &r.to_entity(), opts)?;
                Some(if opts.v1 {
                    light_client_message(parts.v1())
                } else {
                    light_client_message(parts.v0())
                })
            }
            _ => None,
        };
        Ok(reply.into_iter().map(|b| (lc, b)).collect())
    } else if protocol == filter {
        let msg = packed::BlockFilterMessageReader::from_compatible_slice(data)
            .map_err(|e| format!("malformed BlockFilterMessage: {}", e))?
            .to_enum();
        let reply = match msg {
            packed::BlockFilterMessageUnionReader::GetBlockFilters(r) => {
                get_block_filters_batch(chain, &r.to_entity(), opts.filters_batch).map(filter_message)
            }
            packed::BlockFilterMessageUnionReader::GetBlockFilterHashes(r) => {
                get_block_filter_hashes(chain, &r.to_entity()).map(filter_message)
            }
            packed::BlockFilterMessageUnionReader::GetBlockFilterCheckPoints(r) => {
                get_block_filter_check_points(chain, &r.to_entity(), opts.check_point_interval)
                    .map(filter_message)
            }
            _ => None,
        };
        Ok(reply.into_iter().map(|b| (filter, b)).collect())
    } else if protocol == sync {
        let msg = packed::SyncMessageReader::from_compatible_slice(data)
            .map_err(|e| format!("malformed SyncMessage: {}", e))?
            .to_enum();
        match msg {
            packed::SyncMessageUnionReader::GetBlocks(r) => Ok(get_blocks(chain, &r.to_entity())
                .into_iter()
                .map(|content| {
                    (
                        sync,
                        packed::SyncMessage::new_builder()
                            .set(content)
                            .build()
                            .as_bytes(),
                    )
                })
                .collect()),
            _ => Ok(Vec::new()),
        }
    } else {
        Err(format!("unexpected protocol {}", protocol))
    }
}

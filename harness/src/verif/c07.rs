//! C07 — check points are finalized only by quorum agreement and never change afterwards:
//! operation-sequence correspondence of `Peers::add_check_points` +
//! `LightClientProtocol::finalize_check_points` with the `Quorum` Lean layer, and an
//! independent oracle (immutability, quorum, ban of contradicting peers, minority harmless).

use std::collections::{BTreeMap, BTreeSet};

use ckb_network::{PeerIndex, SupportProtocols};
use ckb_types::{packed, prelude::*, U256};

use super::env::{header, verifiable, Env, MockContext};
use super::{catch, fnv, run_model, Options, Report, Rng};
use crate::protocols::light_client::{LastState, ProveRequest, ProveState};
use crate::protocols::StatusCode;

fn id_to_hash(id: u64, cp0: &packed::Byte32) -> packed::Byte32 {
    if id == 0 {
        return cp0.clone();
    }
    let mut b = [0u8; 32];
    b[..8].copy_from_slice(&id.to_le_bytes());
    b[31] = 0xAA;
    b.pack()
}

fn hash_to_id(h: &packed::Byte32, cp0: &packed::Byte32) -> u64 {
    if h == cp0 {
        return 0;
    }
    let s = h.as_slice();
    let mut b = [0u8; 8];
    b.copy_from_slice(&s[..8]);
    u64::from_le_bytes(b)
}

#[derive(Clone, Debug)]
enum Op {
    Peer { pid: u64, proved: bool },
    Del { pid: u64 },
    AddCp { pid: u64, last_proved: u64, start_number: u64, cps: Vec<u64> },
    Fin,
    /// a finalization that dies in front of its second store write (the check points are
    /// written, the final index is not): what a crash leaves behind; invisible to the model,
    /// whose store is the list of FINAL check points
    FinCrash,
}

/// the honest value of check point `index` (0 = the stored genesis check point)
fn honest(index: u64) -> u64 {
    if index == 0 {
        0
    } else {
        1000 + index
    }
}

struct Sim {
    env: Env,
    nc: std::sync::Arc<MockContext>,
    cp0: packed::Byte32,
    interval: u64,
}

impl Sim {
    fn new(max_outbound: u32, interval: u64) -> Sim {
        let env = Env::new(max_outbound, interval);
        let cp0 = env.storage.get_last_check_point().1;
        Sim {
            env,
            nc: MockContext::new(SupportProtocols::LightClient),
            cp0,
            interval,
        }
    }

    fn finals(&self) -> Vec<u64> {
        let max = self.env.storage.get_max_check_point_index();
        self.env
            .storage
            .get_check_points(0, max as usize + 1)
            .iter()
            .map(|h| hash_to_id(h, &self.cp0))
            .collect()
    }

    /// proven peers' vectors: pid -> (start, ids)
    fn vectors(&self) -> BTreeMap<u64, (u64, Vec<u64>)> {
        self.env
            .peers
            .get_all_proved_check_points()
            .into_iter()
            .map(|(p, (start, cps))| {
                (
                    p.value() as u64,
                    (
                        start as u64,
                        cps.iter().map(|h| hash_to_id(h, &self.cp0)).collect(),
                    ),
                )
            })
            .collect()
    }

    fn dump(&self) -> String {
        let peers = self
            .vectors()
            .iter()
            .map(|(pid, (start, cps))| {
                format!(
                    "[{} 1 {} [{}]]",
                    pid,
                    start,
                    cps.iter().map(|c| c.to_string()).collect::<Vec<_>>().join(", ")
                )
            })
            .collect::<Vec<_>>()
            .join(" ");
        format!(
            "final [{}] peers {}",
            self.finals()
                .iter()
                .map(|c| c.to_string())
                .collect::<Vec<_>>()
                .join(", "),
            peers
        )
    }
}

fn gen_ops(rng: &mut Rng, interval: u64, len: usize, n_peers: u64) -> Vec<Op> {
    // the generator keeps a rough shadow of each peer's vector end to produce mostly-valid
    // continuations; the authoritative state is the implementation's
    let mut ops = Vec::new();
    let mut ends: BTreeMap<u64, u64> = BTreeMap::new(); // pid -> index of last check point
    let mut liar: BTreeMap<u64, u64> = BTreeMap::new(); // pid -> index from which it deviates
    for pid in 1..=n_peers {
        ops.push(Op::Peer {
            pid,
            proved: !rng.chance(1, 8),
        });
        ends.insert(pid, 0);
        if rng.chance(1, 3) {
            liar.insert(pid, rng.range(1, 6));
        }
    }
    for _ in 0..len {
        match rng.below(10) {
            0 => {
                let pid = rng.range(1, n_peers + 1);
                if ends.contains_key(&pid) && rng.chance(1, 2) {
                    ops.push(Op::Del { pid });
                    ends.remove(&pid);
                } else {
                    ops.push(Op::Peer {
                        pid,
                        proved: !rng.chance(1, 8),
                    });
                    ends.insert(pid, 0);
                }
            }
            1 | 2 | 3 => ops.push(if rng.chance(1, 10) { Op::FinCrash } else { Op::Fin }),
            _ => {
                let pid = rng.range(1, n_peers);
                let end = *ends.get(&pid).unwrap_or(&0);
                let count = *rng.pick(&[0u64, 1, 2, 2, 3, 3, 4, 6]);
                let start_idx = match rng.below(12) {
                    0 => end + 1,
                    1 => end.saturating_sub(1),
                    _ => end,
                };
                let start_number = if rng.chance(1, 15) {
                    start_idx * interval + 1
                } else {
                    start_idx * interval
                };
                let dev_from = liar.get(&pid).cloned().unwrap_or(u64::MAX);
                let cps: Vec<u64> = (0..count)
                    .map(|i| {
                        let idx = start_idx + i;
                        if idx >= dev_from {
                            2000 + idx + pid % 2 * 1000
                        } else if rng.chance(1, 40) {
                            5000 + idx
                        } else {
                            honest(idx)
                        }
                    })
                    .collect();
                let reach = (start_idx + count) * interval;
                let last_proved = match rng.below(5) {
                    0 => reach.saturating_sub(1),
                    1 => reach,
                    2 => reach + 1,
                    3 => reach + 2 * interval + rng.below(3 * interval),
                    _ => rng.below(reach + 3 * interval + 1),
                };
                if start_idx == end && start_number % interval == 0 && count >= 2 {
                    // valid continuation: how far the vector grows depends on last_proved
                    let new_end = if start_number + interval * count <= last_proved {
                        end + count - 1
                    } else if count > 2 {
                        end + count - 2
                    } else {
                        end
                    };
                    ends.insert(pid, new_end);
                }
                ops.push(Op::AddCp {
                    pid,
                    last_proved,
                    start_number,
                    cps,
                });
            }
        }
    }
    ops.push(Op::Fin);
    ops
}

fn op_text(op: &Op) -> String {
    match op {
        Op::Peer { pid, proved } => format!("peer {} {}", pid, *proved as u8),
        Op::Del { pid } => format!("del {}", pid),
        Op::AddCp {
            pid,
            last_proved,
            start_number,
            cps,
        } => format!(
            "addcp {} {} {} | {}",
            pid,
            last_proved,
            start_number,
            cps.iter().map(|c| c.to_string()).collect::<Vec<_>>().join(" ")
        ),
        Op::Fin => "fin".into(),
        Op::FinCrash => "fincrash".into(),
    }
}

fn parse_ops(text: &str) -> Vec<(u32, u64, Vec<Op>)> {
    // "history maxOutbound interval" then op lines until "end"
    let mut out = Vec::new();
    let mut cur: Option<(u32, u64, Vec<Op>)> = None;
    for l in text.lines() {
        let t: Vec<&str> = l.split_whitespace().collect();
        match t.first().cloned() {
            Some("history") => {
                cur = Some((t[1].parse().unwrap(), t[2].parse().unwrap(), Vec::new()))
            }
            Some("end") => {
                if let Some(c) = cur.take() {
                    out.push(c)
                }
            }
            Some("peer") => cur.as_mut().unwrap().2.push(Op::Peer {
                pid: t[1].parse().unwrap(),
                proved: t[2] == "1",
            }),
            Some("del") => cur.as_mut().unwrap().2.push(Op::Del {
                pid: t[1].parse().unwrap(),
            }),
            Some("fin") => cur.as_mut().unwrap().2.push(Op::Fin),
            Some("fincrash") => cur.as_mut().unwrap().2.push(Op::FinCrash),
            Some("addcp") => {
                let bar = t.iter().position(|x| *x == "|").unwrap_or(t.len());
                cur.as_mut().unwrap().2.push(Op::AddCp {
                    pid: t[1].parse().unwrap(),
                    last_proved: t[2].parse().unwrap(),
                    start_number: t[3].parse().unwrap(),
                    cps: t[bar + 1..].iter().map(|x| x.parse().unwrap()).collect(),
                })
            }
            _ => {}
        }
    }
    out
}

thread_local! {
    /// the `meta` model stream (start-up entries: the writes of every finalization and the final
    /// check points afterwards): (lines, implementation answers)
    static META: std::cell::RefCell<(Vec<String>, Vec<String>)> = Default::default();
}

fn meta_push(line: String, imp: String) {
    META.with(|m| {
        let mut m = m.borrow_mut();
        m.0.push(line);
        m.1.push(imp);
    });
}

/// runs one history on the implementation; returns (model lines, implementation answers)
fn run_history(
    rep: &mut Report,
    max_outbound: u32,
    interval: u64,
    ops: &[Op],
) -> (Vec<String>, Vec<String>) {
    let sim = Sim::new(max_outbound, interval);
    let mut protocol = sim.env.protocol();
    let mut lines = vec![format!("init {} {} 0", max_outbound, interval)];
    let mut impls = vec!["ok".to_string()];
    let required = ((max_outbound + 1) / 2) as usize;
    meta_push("reset".into(), "ok".into());
    meta_push("init 1 0".into(), String::new());
    meta_push("cpdump".into(), format!("max {} cps {:?}", sim.finals().len() - 1, sim.finals()));
    let history_text = || -> Vec<String> {
        let mut v = vec![format!("history {} {}", max_outbound, interval)];
        v.extend(ops.iter().map(op_text));
        v.push("end".into());
        v
    };
    for op in ops {
        rep.evaluations += 1;
        match op {
            Op::Peer { pid, proved } => {
                let p = PeerIndex::new(*pid as usize);
                sim.env.peers.remove_peer(p);
                sim.env.peers.add_peer(p);
                if *proved {
                    let vh = verifiable(
                        header(10, 0, 0, &packed::Byte32::zero(), *pid),
                        &U256::from(1u32),
                    );
                    let ls = LastState::new(vh);
                    sim.env.peers.request_last_state(p).unwrap();
                    sim.env.peers.update_last_state(p, ls.clone()).unwrap();
                    let req = ProveRequest::new(ls, Default::default());
                    sim.env.peers.update_prove_request(p, req.clone()).unwrap();
                    sim.env
                        .peers
                        .update_prove_state(p, ProveState::new_from_request(req, vec![], vec![]))
                        .unwrap();
                }
                // `Peers::add_peer` starts every peer from the check point fixed at start-up
                lines.push(format!("peer {} {} 0 0", pid, *proved as u8));
                impls.push("ok".into());
                rep.count_op("peer");
            }
            Op::Del { pid } => {
                sim.env.peers.remove_peer(PeerIndex::new(*pid as usize));
                lines.push(format!("del {}", pid));
                impls.push("ok".into());
                rep.count_op("del");
            }
            Op::AddCp {
                pid,
                last_proved,
                start_number,
                cps,
            } => {
                let hashes: Vec<packed::Byte32> =
                    cps.iter().map(|c| id_to_hash(*c, &sim.cp0)).collect();
                let r = catch(|| {
                    sim.env.peers.add_check_points(
                        PeerIndex::new(*pid as usize),
                        *last_proved,
                        *start_number,
                        &hashes,
                    )
                });
                let imp = match r {
                    Err(p) => format!("panic {}", super::c14::panic_class(&p)),
                    Ok(Ok(Some(n))) => format!("ok some {}", n),
                    Ok(Ok(None)) => "ok none".into(),
                    Ok(Err(st)) => match st.code() {
                        StatusCode::CheckPointsIsEmpty => "err empty".into(),
                        StatusCode::CheckPointsIsUnaligned => "err unaligned".into(),
                        StatusCode::CheckPointsIsUnexpected => "err unexpected".into(),
                        StatusCode::PeerIsNotFound => "err peer-not-found".into(),
                        c => format!("err {:?}", c),
                    },
                };
                if imp.starts_with("panic") {
                    rep.violate(
                        &format!("C07|abort|add_check_points|{}", imp),
                        "add_check_points aborts",
                        history_text(),
                    );
                }
                rep.count_class(&format!("addcp:{}", imp.split(' ').take(2).collect::<Vec<_>>().join(" ")));
                lines.push(op_text(op));
                impls.push(imp);
                rep.count_op("addcp");
            }
            Op::FinCrash => {
                let before_final = sim.finals();
                let n = std::rc::Rc::new(std::cell::Cell::new(0u32));
                let c = n.clone();
                let fin_sites: std::rc::Rc<std::cell::RefCell<Vec<&'static str>>> = Default::default();
                let fs = fin_sites.clone();
                crate::verif_hooks::set_before_write(Some(Box::new(move |_site| {
                    fs.borrow_mut().push(_site);
                    c.set(c.get() + 1);
                    if c.get() == 2 {
                        panic!("simulated crash at the second store write of the finalization");
                    }
                })));
                sim.nc.take();
                let r = catch(|| protocol.verif_finalize_check_points(sim.nc.as_ref()));
                crate::verif_hooks::set_before_write(None);
                let rec = sim.nc.take();
                rep.count_class(&format!("fincrash:{}", if n.get() >= 2 { "crashed" } else { "nothing-to-write" }));
                if n.get() >= 2 {
                    // the batch of check points reached the store, the index did not
                    let written: Vec<String> = sim
                        .env
                        .storage
                        .get_check_points(before_final.len() as u32, 64)
                        .iter()
                        .map(|h| hash_to_id(h, &sim.cp0).to_string())
                        .collect();
                    meta_push(format!("fin {} @ 1", written.join(" ")), format!("writes {}", fin_sites.borrow().join(" ")));
                    meta_push("cpdump".into(), format!("max {} cps {:?}", sim.finals().len() - 1, sim.finals()));
                } else {
                    meta_push("fin".into(), format!("writes {}", fin_sites.borrow().join(" ")));
                }
                // what every start reads unconditionally (subcmds.rs: Peers::new(.., storage.get_last_check_point()))
                // must be readable after the crash
                let storage = sim.env.storage.clone();
                if let Err(e) = catch(move || {
                    let (idx, _cp) = storage.get_last_check_point();
                    let max = storage.get_max_check_point_index();
                    assert_eq!(idx, max, "last check point index");
                    let _ = storage.get_check_points(max, 1);
                }) {
                    rep.violate(
                        "C08|store-unusable-after-crash|check-point-finalization",
                        "after a crash between the store writes of a check point finalization the last check point cannot be read: the client aborts at every start",
                        {
                            let mut h = history_text();
                            h.push(format!("# start-up read panics: {}", e.chars().take(160).collect::<String>()));
                            h
                        },
                    );
                }
                if n.get() < 2 {
                    // nothing was finalized: the operation was an ordinary (empty) finalization
                }
                if sim.finals() != before_final && n.get() >= 2 {
                    rep.violate("C07|final-changed-by-interrupted-finalization", "the final check points changed although the final index was not written", history_text());
                }
                rep.count_op("fincrash");
                if n.get() < 2 {
                    // it completed (no agreement / nothing new to write): an ordinary finalization
                    let mut banned: Vec<u64> = rec.banned.iter().map(|(p, _, _)| p.value() as u64).collect();
                    banned.sort();
                    lines.push("fin".into());
                    impls.push(match r {
                        Err(p) => format!("panic {}", super::c14::panic_class(&p)),
                        Ok(()) => format!("ok banned [{}]", banned.iter().map(|b| b.to_string()).collect::<Vec<_>>().join(", ")),
                    });
                }
            }
            Op::Fin => {
                let before_final = sim.finals();
                let before_vec = sim.vectors();
                sim.nc.take();
                let fin_sites: std::rc::Rc<std::cell::RefCell<Vec<&'static str>>> = Default::default();
                {
                    let fs = fin_sites.clone();
                    crate::verif_hooks::set_before_write(Some(Box::new(move |site| fs.borrow_mut().push(site))));
                }
                let r = catch(|| protocol.verif_finalize_check_points(sim.nc.as_ref()));
                crate::verif_hooks::set_before_write(None);
                {
                    let after = sim.finals();
                    let new_vals: Vec<String> = after.iter().skip(before_final.len()).map(|v| v.to_string()).collect();
                    meta_push(format!("fin {}", new_vals.join(" ")), format!("writes {}", fin_sites.borrow().join(" ")));
                    meta_push("cpdump".into(), format!("max {} cps {:?}", after.len() - 1, after));
                }
                let rec = sim.nc.take();
                let mut banned: Vec<u64> =
                    rec.banned.iter().map(|(p, _, _)| p.value() as u64).collect();
                banned.sort();
                let after_final = sim.finals();
                let imp = match r {
                    Err(p) => format!("panic {}", super::c14::panic_class(&p)),
                    Ok(()) => format!(
                        "ok banned [{}]",
                        banned.iter().map(|b| b.to_string()).collect::<Vec<_>>().join(", ")
                    ),
                };
                // ---------------- oracle (implementation only)
                let old_max = before_final.len() - 1;
                if after_final.len() < before_final.len()
                    || after_final[..before_final.len()] != before_final[..]
                {
                    rep.violate(
                        "C07|final-rewritten",
                        "a final check point was rewritten or the final index decreased",
                        history_text(),
                    );
                }
                let reports = |v: &(u64, Vec<u64>), idx: usize, val: u64| -> bool {
                    let (start, cps) = v;
                    idx as u64 >= *start
                        && ((idx as u64 - *start) as usize) < cps.len()
                        && cps[(idx as u64 - *start) as usize] == val
                };
                for i in before_final.len()..after_final.len() {
                    let supporters = before_vec
                        .values()
                        .filter(|v| (old_max..=i).all(|j| reports(v, j, after_final[j])))
                        .count();
                    if supporters < required {
                        rep.violate(
                            "C07|finalized-without-quorum",
                            &format!(
                                "check point {} finalized with {} supporting proven peers, quorum is {}",
                                i, supporters, required
                            ),
                            history_text(),
                        );
                    }
                }
                if before_vec.len() >= required {
                    for (pid, v) in &before_vec {
                        let (start, cps) = v;
                        let covers = old_max as u64 >= *start
                            && ((old_max as u64 - *start) as usize) < cps.len();
                        if covers && !reports(v, old_max, before_final[old_max]) && !banned.contains(pid) {
                            rep.violate(
                                "C07|contradicting-peer-not-banned",
                                "a proven peer contradicting the final check point was not banned",
                                history_text(),
                            );
                        }
                        if banned.contains(pid) && reports(v, old_max, before_final[old_max]) {
                            rep.violate(
                                "C07|agreeing-peer-banned",
                                "a peer agreeing with the final check point was banned",
                                history_text(),
                            );
                        }
                    }
                    // minority harmless
                    let usable: Vec<&(u64, Vec<u64>)> = before_vec
                        .values()
                        .filter(|v| reports(v, old_max, before_final[old_max]))
                        .collect();
                    let honest_vecs: Vec<&&(u64, Vec<u64>)> = usable
                        .iter()
                        .filter(|v| {
                            let (start, cps) = **v;
                            cps.iter()
                                .enumerate()
                                .all(|(k, c)| (start + k as u64) < old_max as u64 || *c == honest(start + k as u64))
                        })
                        .collect();
                    let all_final_honest = before_final
                        .iter()
                        .enumerate()
                        .all(|(k, c)| *c == honest(k as u64));
                    if all_final_honest
                        && honest_vecs.len() >= required
                        && usable.len() - honest_vecs.len() < required
                    {
                        let l = honest_vecs
                            .iter()
                            .map(|v| (v.0 + v.1.len() as u64) as usize - old_max)
                            .min()
                            .unwrap();
                        let advanced = after_final.len() - before_final.len();
                        if advanced + 1 < l {
                            rep.violate(
                                "C07|minority-blocks-agreement",
                                "fewer deviating peers than the quorum blocked agreement among the rest",
                                history_text(),
                            );
                        }
                        if !after_final.iter().enumerate().all(|(k, c)| *c == honest(k as u64)) {
                            rep.violate(
                                "C07|minority-finalized-wrong-value",
                                "fewer deviating peers than the quorum finalized a wrong value",
                                history_text(),
                            );
                        }
                        rep.count_class("fin:minority-case");
                    }
                }
                if imp.starts_with("panic") {
                    rep.violate(
                        &format!("C07|abort|finalize|{}", imp),
                        "finalize_check_points aborts",
                        history_text(),
                    );
                }
                rep.count_class(if after_final.len() > before_final.len() {
                    "fin:advanced"
                } else {
                    "fin:no-advance"
                });
                if !banned.is_empty() {
                    rep.count_class("fin:banned");
                }
                // choices for the model = the values the implementation finalized
                let choices = after_final[before_final.len().min(after_final.len())..]
                    .iter()
                    .map(|c| c.to_string())
                    .collect::<Vec<_>>()
                    .join(" ");
                lines.push(format!("fin | {}", choices));
                impls.push(imp);
                rep.count_op("fin");
                lines.push("dump".into());
                impls.push(sim.dump());
            }
        }
    }
    (lines, impls)
}

pub fn run(opts: &Options) -> Report {
    let mut rep = Report::default();
    rep.rule = "operation histories over 1..6 peers (proven/unproven, honest or deviating from a \
        random index, re-connects), max_outbound 1..8, check point interval 8: add_check_points with \
        valid continuations and misaligned / non-contiguous / unanchored / short batches and \
        last_proved around the batch end, finalize at random moments; every finalize is followed by a \
        full state dump comparison; non-trivial = history in which at least one check point was \
        finalized; distinct = distinct op sequence"
        .into();
    let mut rng = Rng::new(opts.seed);
    let mut histories: Vec<(u32, u64, Vec<Op>)> = Vec::new();
    if let Some(p) = &opts.replay {
        histories = parse_ops(&std::fs::read_to_string(p).expect("replay"));
    } else {
        if let Ok(rd) = std::fs::read_dir("/verif/corpus/C07") {
            for e in rd.flatten() {
                histories.extend(parse_ops(&std::fs::read_to_string(e.path()).unwrap_or_default()));
            }
        }
        // an interrupted finalization whose written-but-not-final check points a LATER quorum does
        // not confirm: two agreeing liars reach the quorum, the finalization dies before the final
        // index is written, the liars leave, honest peers finalize
        for k in 0..(if opts.thorough() { 40 } else { 8 }) {
            let interval = 8u64;
            let count = 3 + (k % 3) as u64;
            let lie: Vec<u64> = (0..=count).map(|i| if i == 0 { honest(0) } else { 3000 + i }).collect();
            let truth: Vec<u64> = (0..=count + (k % 2) as u64).map(honest).collect();
            let far = 40 * interval;
            let mut ops = vec![
                Op::Peer { pid: 1, proved: true },
                Op::Peer { pid: 3, proved: true },
                Op::AddCp { pid: 1, last_proved: far, start_number: 0, cps: lie.clone() },
                Op::AddCp { pid: 3, last_proved: far, start_number: 0, cps: lie.clone() },
                Op::FinCrash,
                Op::Del { pid: 1 },
                Op::Del { pid: 3 },
                Op::Peer { pid: 2, proved: true },
                Op::Peer { pid: 4, proved: true },
                Op::AddCp { pid: 2, last_proved: far, start_number: 0, cps: truth.clone() },
                Op::AddCp { pid: 4, last_proved: far, start_number: 0, cps: truth.clone() },
                Op::Fin,
            ];
            ops.extend(gen_ops(&mut rng, interval, 6, 4));
            histories.push((3 + (k % 2) as u32, interval, ops));
        }
        let n = if opts.thorough() { 6000 } else { 500 };
        for _ in 0..n {
            let max_outbound = rng.range(1, 8) as u32;
            let n_peers = rng.range(1, 6);
            let len = rng.range(5, if opts.thorough() { 60 } else { 35 }) as usize;
            histories.push((max_outbound, 8, gen_ops(&mut rng, 8, len, n_peers)));
        }
    }
    let mut all_lines = Vec::new();
    let mut all_impls = Vec::new();
    let mut owner = Vec::new();
    for (hi, (mo, iv, ops)) in histories.iter().enumerate() {
        let before = rep.classes.get("fin:advanced").cloned().unwrap_or(0);
        let (lines, impls) = run_history(&mut rep, *mo, *iv, ops);
        if rep.classes.get("fin:advanced").cloned().unwrap_or(0) > before {
            rep.nontrivial
                .insert(fnv(&ops.iter().map(op_text).collect::<Vec<_>>().join(";")));
        }
        if hi % 97 == 0 {
            rep.sample(&format!(
                "history max_outbound={} interval={}: {}",
                mo,
                iv,
                ops.iter().map(op_text).collect::<Vec<_>>().join("; ")
            ));
        }
        for _ in 0..lines.len() {
            owner.push(hi);
        }
        all_lines.extend(lines);
        all_impls.extend(impls);
    }
    {
        let (ml, mi) = META.with(|m| std::mem::take(&mut *m.borrow_mut()));
        let ans = run_model(opts, "meta", &ml);
        let mut reported = false;
        for (i, a) in ans.iter().enumerate() {
            if mi[i].is_empty() || *a == mi[i] {
                rep.traces_validated += 1;
            } else if !reported {
                reported = true;
                rep.disagree(&format!("meta: {} (after `{}`)", ml[i], ml[i.saturating_sub(1)]), &mi[i], a);
            }
        }
    }
    let answers = run_model(opts, "quorum", &all_lines);
    let mut bad_histories = BTreeSet::new();
    for (i, a) in answers.iter().enumerate() {
        if *a == all_impls[i] {
            rep.traces_validated += 1;
        } else if bad_histories.insert(owner[i]) {
            let (mo, iv, ops) = &histories[owner[i]];
            rep.disagree(
                &format!(
                    "{}   [history {} {}: {}]",
                    all_lines[i],
                    mo,
                    iv,
                    ops.iter().map(op_text).collect::<Vec<_>>().join("; ")
                ),
                &all_impls[i],
                a,
            );
        }
    }
    rep
}

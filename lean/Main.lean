import LcModel.Difficulty.Model
import LcModel.Sampling.Model
import LcModel.Quorum.Model
import LcModel.Kv.Model
import LcModel.Pool.Model
import LcModel.Prove.Model
import LcModel.Index.Model
import LcModel.Sync.Model
import LcModel.Filter.Model
import LcModel.Proofs.Model
import LcModel.Mmr.Model
import LcModel.Cbmt.Model
import LcModel.Meta.Model

/-- `lcmodel <layer>`: one operation per stdin line, one answer per stdout line. -/
partial def loop (h : IO.FS.Stream) (out : IO.FS.Stream) (f : String → String) : IO Unit := do
  let line ← h.getLine
  if line.isEmpty then return ()
  out.putStrLn (f line)
  out.flush
  loop h out f

/-- stateful layers: the state is threaded through the lines -/
partial def loopSt {σ : Type} (h : IO.FS.Stream) (out : IO.FS.Stream) (f : σ → String → σ × String)
    (s : σ) : IO Unit := do
  let line ← h.getLine
  if line.isEmpty then return ()
  let (s', ans) := f s line
  out.putStrLn ans
  out.flush
  loopSt h out f s'

def main (args : List String) : IO UInt32 := do
  let stdin ← IO.getStdin
  let stdout ← IO.getStdout
  match args with
  | ["difficulty"] => loop stdin stdout Difficulty.step; return 0
  | ["sampling"] => loop stdin stdout Sampling.step; return 0
  | ["kv"] => loopSt stdin stdout Kv.step {}; return 0
  | ["pool"] => loopSt stdin stdout Pool.stepLine ⟨64, [], [], []⟩; return 0
  | ["prove"] => loopSt stdin stdout Prove.stepLine Prove.initSt; return 0
  | ["index"] => loopSt stdin stdout Index.stepLine ⟨[], [], [], [], [], []⟩; return 0
  | ["sync"] => loopSt stdin stdout Sync.stepLine ⟨[], 0, [], []⟩; return 0
  | ["filter"] => loopSt stdin stdout Filter.stepLine Filter.initD; return 0
  | ["proofs"] => loopSt stdin stdout Proofs.stepLine Proofs.initD; return 0
  | ["cbmt"] => loop stdin stdout Cbmt.stepLine; return 0
  | ["mmr"] => loopSt stdin stdout Mmr.stepLine []; return 0
  | ["meta"] => loopSt stdin stdout Meta.stepLine Meta.empty; return 0
  | ["quorum"] => loopSt stdin stdout Quorum.step ⟨1, 1, [0], []⟩; return 0
  | _ => IO.eprintln "usage: lcmodel <layer>"; return 2

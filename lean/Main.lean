import LcModel.Difficulty.Model
import LcModel.Sampling.Model

/-- `lcmodel <layer>`: one operation per stdin line, one answer per stdout line. -/
partial def loop (h : IO.FS.Stream) (out : IO.FS.Stream) (f : String → String) : IO Unit := do
  let line ← h.getLine
  if line.isEmpty then return ()
  out.putStrLn (f line)
  out.flush
  loop h out f

def main (args : List String) : IO UInt32 := do
  let stdin ← IO.getStdin
  let stdout ← IO.getStdout
  match args with
  | ["difficulty"] => loop stdin stdout Difficulty.step; return 0
  | ["sampling"] => loop stdin stdout Sampling.step; return 0
  | _ => IO.eprintln "usage: lcmodel <layer>"; return 2

import LcModel.Prelude
import LcModel.Difficulty.Model
import LcModel.Props.C14

import LcModel.Prelude
import LcModel.Difficulty.Model
import LcModel.Props.C14
import LcModel.Sampling.Model
import LcModel.Sampling.Lemmas
import LcModel.Props.C15

/-!
# Prelude — machine arithmetic of the Rust code as an `Except` monad

Every model function that mirrors Rust arithmetic on peer- or user-supplied numbers lives in
`M α := Except Panic α`: an operation that panics in Rust (overflow-checks are on in both
profiles; `numext` `+ - *` panic on overflow; slice indexing; `expect`) returns
`.error (Panic.… site)`.  Core Lean only: this file is linked into the `lcmodel` driver.
-/

inductive Panic where
  | overflow (site : Nat)
  | index (site : Nat)
  | expect (site : Nat)
  | deliberate (site : Nat)      -- the documented `panic!("long fork detected")`
  deriving Repr, DecidableEq

abbrev M := Except Panic

def U16_MAX : Nat := 2^16 - 1
def U32_MAX : Nat := 2^32 - 1
def U64_MAX : Nat := 2^64 - 1
def U256_MAX : Nat := 2^256 - 1

@[inline] def addU64 (site a b : Nat) : M Nat :=
  if a + b ≤ U64_MAX then .ok (a + b) else .error (.overflow site)
@[inline] def subU64 (site a b : Nat) : M Nat :=
  if b ≤ a then .ok (a - b) else .error (.overflow site)
@[inline] def mulU64 (site a b : Nat) : M Nat :=
  if a * b ≤ U64_MAX then .ok (a * b) else .error (.overflow site)
@[inline] def addU256 (site a b : Nat) : M Nat :=
  if a + b ≤ U256_MAX then .ok (a + b) else .error (.overflow site)
@[inline] def subU256 (site a b : Nat) : M Nat :=
  if b ≤ a then .ok (a - b) else .error (.overflow site)
@[inline] def mulU256 (site a b : Nat) : M Nat :=
  if a * b ≤ U256_MAX then .ok (a * b) else .error (.overflow site)
@[inline] def satMulU256 (a b : Nat) : Nat := min (a * b) U256_MAX
@[inline] def satSub (a b : Nat) : Nat := a - b

def M.isOk {α} : M α → Bool
  | .ok _ => true
  | .error _ => false

/-! ## inversion lemmas (proof style fixed in DESIGN.md 2.1) -/

@[simp] theorem M.bind_eq_ok {α β} (x : M α) (f : α → M β) (b : β) :
    (x >>= f) = .ok b ↔ ∃ a, x = .ok a ∧ f a = .ok b := by
  cases x <;> simp [bind, Except.bind]

@[simp] theorem M.pure_eq_ok {α} (a b : α) : (pure a : M α) = .ok b ↔ a = b := by
  simp [pure, Except.pure]

@[simp] theorem addU64_eq_ok (site a b r : Nat) :
    addU64 site a b = .ok r ↔ a + b ≤ U64_MAX ∧ r = a + b := by
  unfold addU64; split <;> simp_all <;> omega
@[simp] theorem subU64_eq_ok (site a b r : Nat) :
    subU64 site a b = .ok r ↔ b ≤ a ∧ r = a - b := by
  unfold subU64; split <;> simp_all <;> omega
@[simp] theorem mulU64_eq_ok (site a b r : Nat) :
    mulU64 site a b = .ok r ↔ a * b ≤ U64_MAX ∧ r = a * b := by
  unfold mulU64; split <;> simp_all <;> omega
@[simp] theorem addU256_eq_ok (site a b r : Nat) :
    addU256 site a b = .ok r ↔ a + b ≤ U256_MAX ∧ r = a + b := by
  unfold addU256; split <;> simp_all <;> omega
@[simp] theorem subU256_eq_ok (site a b r : Nat) :
    subU256 site a b = .ok r ↔ b ≤ a ∧ r = a - b := by
  unfold subU256; split <;> simp_all <;> omega
@[simp] theorem mulU256_eq_ok (site a b r : Nat) :
    mulU256 site a b = .ok r ↔ a * b ≤ U256_MAX ∧ r = a * b := by
  unfold mulU256; split <;> simp_all <;> omega

theorem satMulU256_le (a b : Nat) : satMulU256 a b ≤ U256_MAX := Nat.min_le_right _ _

/-! ## driver helpers (parsing one line of the correspondence protocol) -/

def tokens (line : String) : List String :=
  (line.trimAscii.toString.splitOn " ").filter (· ≠ "")

def natsOf (ts : List String) : Option (List Nat) :=
  ts.mapM (·.toNat?)

def showPanic : Panic → String
  | .overflow s => s!"panic overflow {s}"
  | .index s => s!"panic index {s}"
  | .expect s => s!"panic expect {s}"
  | .deliberate s => s!"panic deliberate {s}"

def showBool (b : Bool) : String := if b then "1" else "0"

import LcModel.Meta.Model
/-! # Meta layer — the start-up entries survive every write boundary -/
namespace Meta

/-- every check point up to the stored maximum index is present -/
def Dense (s : S) : Prop := ∀ m, s.maxCp = some m → ∀ i, i ≤ m → (cpAt s i).isSome = true

/-- **what every start reads unconditionally is there**: `init_genesis_block` finds its genesis
entry (and writes nothing), `get_last_check_point` its index and the check point at it,
`get_last_state` / `get_last_n_headers` / `get_min_filtered_block_number` their entries -/
structure Openable (s : S) : Prop where
  genesis : s.genesis.isSome = true
  lastState : s.lastState.isSome = true
  lastN : s.lastN.isSome = true
  minF : s.minF.isSome = true
  maxCp : s.maxCp.isSome = true
  dense : Dense s

theorem find_append_isSome {α : Type} (p : α → Bool) (l1 l2 : List α)
    (h : (l2.find? p).isSome = true) : ((l1 ++ l2).find? p).isSome = true := by
  rw [List.find?_append]
  cases h1 : l1.find? p with
  | none => simpa using h
  | some _ => rfl

theorem find_append_left_isSome {α : Type} (p : α → Bool) (l1 l2 : List α)
    (h : (l1.find? p).isSome = true) : ((l1 ++ l2).find? p).isSome = true := by
  rw [List.find?_append]
  cases h1 : l1.find? p with
  | none => rw [h1] at h; cases h
  | some _ => rfl

theorem cpEntries_find (vals : List Nat) : ∀ (start i : Nat), start ≤ i → i < start + vals.length →
    ((cpEntries start vals).find? (fun e => decide (e.1 = i))).isSome = true := by
  induction vals with
  | nil => intro start i h1 h2; simp at h2; omega
  | cons v vs ih =>
    intro start i h1 h2
    unfold cpEntries
    by_cases he : start = i
    · subst he; simp [List.find?_cons]
    · rw [List.find?_cons]
      have : decide ((start, v).1 = i) = false := by simpa using he
      rw [this]
      exact ih (start + 1) i (by omega) (by simp at h2; omega)

theorem cpAt_mono (s : S) (es : List (Nat × Nat)) (i : Nat) (h : (cpAt s i).isSome = true) :
    (cpAt { s with cps := es ++ s.cps } i).isSome = true := by
  unfold cpAt at h ⊢
  simp only [Option.isSome_map] at h ⊢
  exact find_append_isSome _ es s.cps h

theorem cpAt_new (s : S) (start : Nat) (vals : List Nat) (i : Nat) (h1 : start ≤ i)
    (h2 : i < start + vals.length) :
    (cpAt { s with cps := cpEntries start vals ++ s.cps } i).isSome = true := by
  unfold cpAt
  simp only [Option.isSome_map]
  exact find_append_left_isSome _ _ _ (cpEntries_find vals start i h1 h2)

theorem openable_putLastState {s : S} (h : Openable s) (td t : Nat) :
    Openable (applyW s (.putLastState td t)) :=
  ⟨h.genesis, rfl, h.lastN, h.minF, h.maxCp, h.dense⟩

theorem openable_putLastN {s : S} (h : Openable s) (l : List Nat) :
    Openable (applyW s (.putLastN l)) :=
  ⟨h.genesis, h.lastState, rfl, h.minF, h.maxCp, h.dense⟩

theorem openable_putCps {s : S} (h : Openable s) (start : Nat) (vals : List Nat) :
    Openable (applyW s (.putCps start vals)) :=
  ⟨h.genesis, h.lastState, h.lastN, h.minF, h.maxCp,
   fun m hm i hi => cpAt_mono s _ i (h.dense m hm i hi)⟩

theorem openable_fin {s : S} (h : Openable s) (m : Nat) (hm : s.maxCp = some m) (vals : List Nat) :
    Openable (applyW (applyW s (.putCps (m + 1) vals)) (.putMaxCp (m + vals.length))) := by
  refine ⟨h.genesis, h.lastState, h.lastN, h.minF, rfl, ?_⟩
  intro m' hm' i hi
  have hm'' : m' = m + vals.length := by
    have : some (m + vals.length) = some m' := hm'
    exact (Option.some.inj this).symm
  subst hm''
  by_cases hle : i ≤ m
  · exact cpAt_mono s _ i (h.dense m hm i hle)
  · exact cpAt_new s (m + 1) vals i (by omega) (by omega)

theorem openable_initBatch (s : S) (g c : Nat) : Openable (applyW s (.initBatch g c)) := by
  refine ⟨rfl, rfl, rfl, rfl, rfl, ?_⟩
  intro m hm i hi
  have : m = 0 := by
    have : some 0 = some m := hm
    exact (Option.some.inj this).symm
  subst this
  have hi0 : i = 0 := by omega
  subst hi0
  simp [cpAt, applyW]

/-- **the start-up entries are there after every prefix of the writes of every operation** -/
theorem openable_step {s : S} (h : Openable s) (op : Op) (j : Nat) : Openable (step s op j) := by
  unfold step
  cases op with
  | init g c =>
    have : opWrites s (.init g c) = [] := by simp [opWrites, h.genesis]
    rw [this]; simpa [applyWs] using h
  | tip td t l =>
    match j with
    | 0 => simpa [applyWs, opWrites] using h
    | 1 => simpa [applyWs, opWrites] using openable_putLastState h td t
    | j + 2 =>
      simpa [applyWs, opWrites] using openable_putLastN (openable_putLastState h td t) l
  | fin vals =>
    cases hm : s.maxCp with
    | none => simpa [applyWs, opWrites, hm] using h
    | some m =>
      by_cases hv : vals.isEmpty = true
      · simpa [applyWs, opWrites, hm, hv] using h
      · have hv' : vals.isEmpty = false := by simpa using hv
        match j with
        | 0 => simpa [applyWs, opWrites, hm, hv'] using h
        | 1 => simpa [applyWs, opWrites, hm, hv'] using openable_putCps h (m + 1) vals
        | j + 2 => simpa [applyWs, opWrites, hm, hv'] using openable_fin h m hm vals

theorem openable_full {s : S} (h : Openable s) (op : Op) : Openable (applyWs s (opWrites s op)) := by
  have := openable_step h op (opWrites s op).length
  unfold step at this
  rwa [List.take_length] at this

/-- every history of tip updates, finalizations and restarts, cut anywhere -/
theorem openable_run : ∀ (hist : List (Op × Option Nat)) (s : S), Openable s → Openable (run s hist)
  | [], _, h => h
  | (op, some j) :: rest, s, h => openable_run rest (step s op j) (openable_step h op j)
  | (op, none) :: rest, s, h => openable_run rest _ (openable_full h op)

/-- the first start: whatever write it dies in front of, the store is still empty (the next start
initialises it) or complete -/
theorem first_start (g c j : Nat) : step empty (.init g c) j = empty ∨ Openable (step empty (.init g c) j) := by
  match j with
  | 0 => left; rfl
  | j + 1 =>
    right
    have : step empty (.init g c) (j + 1) = applyW empty (.initBatch g c) := by
      simp [step, opWrites, empty, applyWs]
    rw [this]
    exact openable_initBatch empty g c

end Meta

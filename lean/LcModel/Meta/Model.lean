import LcModel.Prelude
/-!
# Meta layer — the entries every start reads unconditionally, and the writes that touch them

`LAST_STATE` (total difficulty and tip header), `LAST_N_HEADERS`, `MAX_CHECK_POINT_INDEX`, the
check points `CheckPointIndex(i)`, `GENESIS_BLOCK` and `MIN_FILTERED_BLOCK_NUMBER` of
`src/storage.rs`.  At start-up (`subcmds.rs`) the client calls `init_genesis_block`, then
`get_last_check_point` (`MAX_CHECK_POINT_INDEX`, then the check point at that index),
`get_last_state`, `get_last_n_headers`: each of them `expect`s its entry.

Write-level model of the three operations that touch these entries, each a list of atomic writes
in the order the code issues them (a crash keeps a prefix):
* `init_genesis_block`: ONE batch (since 0751088), and nothing at all when the genesis entry exists;
* `update_last_state`: `put LAST_STATE`, then `put LAST_N_HEADERS`;
* the end of `finalize_check_points`: `update_check_points` (one batch with the new check points
  `m+1 …`), then `update_max_check_point_index`.
Header hashes, difficulties and filter hashes are numbers.
-/
namespace Meta

structure S where
  genesis : Option Nat
  lastState : Option (Nat × Nat)      -- (total difficulty, tip)
  lastN : Option (List Nat)
  maxCp : Option Nat
  cps : List (Nat × Nat)              -- check point index ↦ filter hash (first match wins)
  minF : Option Nat
  deriving Repr, DecidableEq

def empty : S := ⟨none, none, none, none, [], none⟩

def cpAt (s : S) (i : Nat) : Option Nat := (s.cps.find? (·.1 = i)).map (·.2)

/-- the entries of a batch of consecutive check points starting at `start` -/
def cpEntries (start : Nat) : List Nat → List (Nat × Nat)
  | [] => []
  | v :: vs => (start, v) :: cpEntries (start + 1) vs

inductive W where
  /-- the batch of `init_genesis_block`: genesis, last state (difficulty 0, the genesis header),
  empty last-N, max check point index 0, check point 0, min filtered number 0 -/
  | initBatch (genesis cp0 : Nat)
  | putLastState (td tip : Nat)
  | putLastN (l : List Nat)
  /-- the batch of `update_check_points` -/
  | putCps (start : Nat) (vals : List Nat)
  | putMaxCp (i : Nat)
  /-- the genesis entry alone (not issued any more: the first write of the initialisation before
  0751088) -/
  | putGenesis (g : Nat)
  deriving Repr, DecidableEq

def applyW (s : S) : W → S
  | .initBatch g cp0 =>
    { genesis := some g, lastState := some (0, g), lastN := some [], maxCp := some 0,
      cps := (0, cp0) :: s.cps, minF := some 0 }
  | .putLastState td tip => { s with lastState := some (td, tip) }
  | .putLastN l => { s with lastN := some l }
  | .putCps start vals => { s with cps := cpEntries start vals ++ s.cps }
  | .putMaxCp i => { s with maxCp := some i }
  | .putGenesis g => { s with genesis := some g }

def applyWs (s : S) (ws : List W) : S := ws.foldl applyW s

inductive Op where
  /-- `init_genesis_block(block)` at start-up -/
  | init (genesis cp0 : Nat)
  /-- `update_last_state(td, tip, last_n)` -/
  | tip (td tip : Nat) (lastN : List Nat)
  /-- the storage part of a finalization that found `vals` new final check points -/
  | fin (vals : List Nat)

def opWrites (s : S) : Op → List W
  | .init g cp0 => if s.genesis.isSome then [] else [.initBatch g cp0]
  | .tip td t l => [.putLastState td t, .putLastN l]
  | .fin vals =>
    match s.maxCp with
    | some m => if vals.isEmpty then [] else [.putCps (m + 1) vals, .putMaxCp (m + vals.length)]
    | none => []

/-- the state after the first `j` writes of `op` reached the store -/
def step (s : S) (op : Op) (j : Nat) : S := applyWs s ((opWrites s op).take j)

/-- a history: operations with the number of writes that reached the store (`none` = all) -/
def run (s : S) : List (Op × Option Nat) → S
  | [] => s
  | (op, some j) :: rest => run (step s op j) rest
  | (op, none) :: rest => run (applyWs s (opWrites s op)) rest

/-! ### driver -/

def siteOf : W → String
  | .initBatch _ _ => "commit_batch"
  | .putLastState _ _ => "put_last_state"
  | .putLastN _ => "put_last_n_headers"
  | .putCps _ _ => "commit_batch"
  | .putMaxCp _ => "put_max_check_point_index"
  | .putGenesis _ => "commit_batch"

def showS (s : S) : String :=
  s!"genesis {s.genesis} last {s.lastState} lastN {s.lastN} max {s.maxCp} cps {(s.maxCp.map (fun m => (List.range (m + 1)).map (cpAt s))).getD []} minF {s.minF}"

def splitAt (sep : String) (ts : List String) : List String × List String :=
  (ts.takeWhile (· ≠ sep), (ts.dropWhile (· ≠ sep)).drop 1)

/-- ops: `reset` · `init g cp0` · `tip td t | n…` · `fin v…` · `dump`; a trailing ` @ j` keeps the
first `j` writes only (a crash) -/
def stepLine (s : S) (line : String) : S × String :=
  let (main, crash) := splitAt "@" (tokens line)
  let cut (ws : List W) : List W := match crash with
    | [j] => (match j.toNat? with | some j => ws.take j | none => ws)
    | _ => ws
  let answer (ws : List W) : S × String :=
    (applyWs s (cut ws), "writes " ++ " ".intercalate (ws.map siteOf))
  match main with
  | ["reset"] => (empty, "ok")
  | ["dump"] => (s, showS s)
  | ["cpdump"] =>
    (s, match s.maxCp with
      | some m => s!"max {m} cps {(List.range (m + 1)).map (fun i => (cpAt s i).getD 0)}"
      | none => "max none")
  | ["init", g, c] => (match g.toNat?, c.toNat? with
      | some g, some c => answer (opWrites s (.init g c))
      | _, _ => (s, "bad-op"))
  | "tip" :: td :: t :: rest =>
    (match td.toNat?, t.toNat?, natsOf ((splitAt "|" rest).2) with
      | some td, some t, some l => answer (opWrites s (.tip td t l))
      | _, _, _ => (s, "bad-op"))
  | "fin" :: vals => (match natsOf vals with
      | some vals => answer (opWrites s (.fin vals))
      | none => (s, "bad-op"))
  | _ => (s, "bad-op")

end Meta

import LcModel.Prelude
/-!
# Difficulty layer — model of
`src/protocols/light_client/components/send_last_state_proof.rs`:
`EpochDifficultyTrend::{new, check_tau, calculate_tau_exponent, split_epochs,
check_total_difficulty_limit}`, `remove_last_epoch`, `verify_tau`, `verify_total_difficulty`
and of `ckb_types::utilities::compact_to_difficulty`.

Every `site` number names the Rust expression that would panic (see `siteName`).
-/
namespace Difficulty

/-- `compact_to_target`: (target, overflow). `<<=` on U256 drops bits above 2^256. -/
def compactToTarget (compact : Nat) : Nat × Bool :=
  let exponent := compact / 2^24
  let mantissa := compact % 2^24
  if exponent ≤ 3 then
    (mantissa / 2^(8 * (3 - exponent)), false)
  else
    ((mantissa * 2^(8 * (exponent - 3))) % 2^256, mantissa ≠ 0 && exponent > 32)

/-- `compact_to_difficulty` -/
def compactToDifficulty (compact : Nat) : Nat :=
  let (target, overflow) := compactToTarget compact
  if target = 0 || overflow then 0
  else if target = 1 then U256_MAX
  else 2^256 / target

/-- `EpochNumberWithFraction` as its three accessors. -/
structure Epoch where
  number : Nat
  index : Nat
  length : Nat
  deriving Repr, DecidableEq

inductive Trend where
  | unchanged
  | increased (s e : Nat)
  | decreased (s e : Nat)
  deriving Repr, DecidableEq

def Trend.new (s e : Nat) : Trend :=
  if s = e then .unchanged else if s < e then .increased s e else .decreased s e

/-- iterate `x ↦ x / tau` n times (`end_min /= tau` loop) -/
def divIter (tau : Nat) : Nat → Nat → Nat
  | 0, x => x
  | n+1, x => divIter tau n (x / tau)

/-- iterate saturating multiplication (`saturating_mul` loop) -/
def mulIter (tau : Nat) : Nat → Nat → Nat
  | 0, x => x
  | n+1, x => mulIter tau n (satMulU256 x tau)

/-- `check_tau` -/
def Trend.checkTau (t : Trend) (tau switches : Nat) : Bool :=
  match t with
  | .unchanged => true
  | .increased s e => e ≤ mulIter tau switches s
  | .decreased s e => divIter tau switches s ≤ e

/-- the `for k in 0..limit` loop of `calculate_tau_exponent`, increased arm;
    `fuel` = remaining iterations, `k` = current loop variable -/
def tauExpInc (tau e : Nat) : Nat → Nat → Nat → Option Nat
  | 0, _, _ => none
  | fuel+1, k, tmp =>
    let tmp' := satMulU256 tmp tau
    if e ≤ tmp' then some k else tauExpInc tau e fuel (k+1) tmp'

def tauExpDec (tau e : Nat) : Nat → Nat → Nat → Option Nat
  | 0, _, _ => none
  | fuel+1, k, tmp =>
    let tmp' := tmp / tau
    if tmp' ≤ e then some k else tauExpDec tau e fuel (k+1) tmp'

/-- `calculate_tau_exponent` -/
def Trend.tauExponent (t : Trend) (tau limit : Nat) : Option Nat :=
  match t with
  | .unchanged => some 0
  | .increased s e => tauExpInc tau e limit 0 s
  | .decreased s e => tauExpDec tau e limit 0 s

inductive Limit where | min | max deriving Repr, DecidableEq

/-- `split_epochs`: (increased, decreased); u64 subtraction `n - k` is checked -/
def splitEpochs (t : Trend) (l : Limit) (n k : Nat) : M (Nat × Nat) :=
  match l, t with
  | .min, .unchanged => let d := (n+1)/2; pure (n - d, d)
  | .max, .unchanged => let i := (n+1)/2; pure (i, n - i)
  | .min, .increased _ _ => do
      let nk ← subU64 30 n k
      let d := (nk + 1)/2
      let i ← subU64 31 n d
      pure (i, d)
  | .max, .increased _ _ => do
      let nk ← subU64 30 n k
      let i := (nk + 1)/2 + k
      let d ← subU64 31 n i
      pure (i, d)
  | .min, .decreased _ _ => do
      let nk ← subU64 30 n k
      let d := (nk + 1)/2 + k
      let i ← subU64 31 n d
      pure (i, d)
  | .max, .decreased _ _ => do
      let nk ← subU64 30 n k
      let i := (nk + 1)/2
      let d ← subU64 31 n i
      pure (i, d)

@[inline] def satAddU256 (a b : Nat) : Nat := min (a + b) U256_MAX

/-- one `Decreased(c)` group: (short-circuited?, curr, total); `total` saturates -/
def accDec (tau actual : Nat) : Nat → Nat → Nat → Bool × Nat × Nat
  | 0, curr, total => (false, curr, total)
  | c+1, curr, total =>
    let curr' := curr / tau
    let total' := satAddU256 total curr'
    if actual ≤ total' then (true, curr', total') else accDec tau actual c curr' total'

/-- one `Increased(c)` group -/
def accInc (tau actual : Nat) : Nat → Nat → Nat → Bool × Nat × Nat
  | 0, curr, total => (false, curr, total)
  | c+1, curr, total =>
    let curr' := satMulU256 curr tau
    let total' := satAddU256 total curr'
    if actual ≤ total' then (true, curr', total') else accInc tau actual c curr' total'

/-- `check_total_difficulty_limit`: `ok true` = `Ok(())`, `ok false` = `Err(..)`.
The only remaining panics are the `u64` subtractions of `split_epochs` / `remove_last_epoch`
(`k > n`, `n = 0`), which `verify_total_difficulty` never reaches. -/
def checkLimit (t : Trend) (l : Limit) (n k actual start tau unaligned : Nat) : M Bool := do
  let (inc, dec) ← splitEpochs t l n k
  match l with
  | .min =>
    -- details.start = Decreased(dec), details.end = Increased(inc); remove_last_epoch
    let (dec', inc') ← (if inc = 0 then do let d ← subU64 32 dec 1; pure (d, inc)
                        else pure (dec, inc - 1) : M (Nat × Nat))
    let (sc, curr, total) := accDec tau actual dec' start 0
    if sc then return false
    let (sc, _, total) := accInc tau actual inc' curr total
    if sc then return false
    -- `total.checked_add(unaligned)`: an overflowed lower limit is above any actual total
    return (total + unaligned ≤ U256_MAX && total + unaligned ≤ actual)
  | .max =>
    let (inc', dec') ← (if dec = 0 then do let i ← subU64 32 inc 1; pure (i, dec)
                        else pure (inc, dec - 1) : M (Nat × Nat))
    let (sc, curr, total) := accInc tau actual inc' start 0
    if sc then return true
    let (sc, _, total) := accDec tau actual dec' curr total
    if sc then return true
    return (total + unaligned > U256_MAX || actual ≤ total + unaligned)

inductive TauResult where
  | pass | fail | invalidCompactTarget
  deriving Repr, DecidableEq

/-- `verify_tau` -/
def verifyTau (se : Epoch) (sc : Nat) (ee : Epoch) (ec : Nat) (tau : Nat) : TauResult :=
  if se.number = ee.number then
    if sc ≠ ec then .invalidCompactTarget else .pass
  else
    let sb := compactToDifficulty sc
    let eb := compactToDifficulty ec
    -- checked_mul / checked_sub: any overflow is answered with `InvalidCompactTarget`
    if sb * se.length > U256_MAX || eb * ee.length > U256_MAX || ee.number < se.number then
      .invalidCompactTarget
    else
      let switches := ee.number - se.number
      if (Trend.new (sb * se.length) (eb * ee.length)).checkTau tau switches then .pass else .fail

/-- outcome classes of `verify_total_difficulty` (the `Err` strings, classified) -/
inductive TdResult where
  | ok
  | decreased          -- "total difficulty is decreased"
  | sameEpochMismatch  -- "but the calculated is" (same epoch)
  | tooFast            -- "changed too fast"
  | oneSwitchMismatch  -- "but the calculated is" (one switch)
  | belowLower         -- "less than the lower limit"
  | aboveUpper         -- "greater than the upper limit"
  | overflow           -- "are overflow": checked arithmetic on the peer's numbers failed
  deriving Repr, DecidableEq

/-- the exponents handed to the two limit estimations: the limit on the side the difficulty
moves to is estimated with the far end of the band -/
def limitExponents (t : Trend) (k : Nat) : Nat × Nat :=
  match t with
  | .unchanged => (k, k)
  | .increased _ _ => (k, k + 1)
  | .decreased _ _ => (k + 1, k)

/-- `verify_total_difficulty` -/
def verifyTotalDifficulty (se : Epoch) (sc st : Nat) (ee : Epoch) (ec et : Nat) (tau : Nat) :
    M TdResult :=
  if et < st then pure .decreased else
  let total := et - st
  let sb := compactToDifficulty sc
  if se.number = ee.number then
    if ee.index < se.index then pure .overflow
    else if sb * (ee.index - se.index) > U256_MAX then pure .overflow
    else pure (if total ≠ sb * (ee.index - se.index) then .sameEpochMismatch else .ok)
  else
    let eb := compactToDifficulty ec
    if sb * se.length > U256_MAX then pure .overflow else
    if eb * ee.length > U256_MAX then pure .overflow else
    if ee.number < se.number then pure .overflow else
    let sd := sb * se.length
    let ed := eb * ee.length
    let switches := ee.number - se.number
    let trend := Trend.new sd ed
    match trend.tauExponent tau switches with
    | none => pure .tooFast
    | some k =>
      if se.length < se.index + 1 then pure .overflow else
      let sCnt := se.length - (se.index + 1)
      let eCnt := ee.index + 1
      if sb * sCnt > U256_MAX || eb * eCnt > U256_MAX || sb * sCnt + eb * eCnt > U256_MAX then
        pure .overflow
      else
      let unaligned := sb * sCnt + eb * eCnt
      if switches = 1 then
        pure (if total ≠ unaligned then .oneSwitchMismatch else .ok)
      else do
        let (kMin, kMax) := limitExponents trend k
        let okMin ← checkLimit trend .min switches kMin total sd tau unaligned
        if !okMin then pure .belowLower else do
        let okMax ← checkLimit trend .max switches kMax total sd tau unaligned
        if !okMax then pure .aboveUpper else pure .ok

def showTau : TauResult → String
  | .pass => "pass" | .fail => "fail" | .invalidCompactTarget => "err-compact"

def showTd : TdResult → String
  | .ok => "ok" | .decreased => "decreased" | .sameEpochMismatch => "same-epoch-mismatch"
  | .tooFast => "too-fast" | .oneSwitchMismatch => "one-switch-mismatch"
  | .belowLower => "below-lower" | .aboveUpper => "above-upper" | .overflow => "overflow"

/-- one line of the correspondence protocol -/
def step (line : String) : String :=
  match tokens line with
  | "c2d" :: [c] => match c.toNat? with
      | some c => toString (compactToDifficulty c)
      | none => "bad-op"
  | "tau" :: rest => match natsOf rest with
      | some [sn, si, sl, sc, en, ei, el, ec, tau] =>
        showTau (verifyTau ⟨sn, si, sl⟩ sc ⟨en, ei, el⟩ ec tau)
      | _ => "bad-op"
  | "td" :: rest => match natsOf rest with
      | some [sn, si, sl, sc, st, en, ei, el, ec, et, tau] =>
        (match verifyTotalDifficulty ⟨sn, si, sl⟩ sc st ⟨en, ei, el⟩ ec et tau with
         | .ok r => showTd r | .error p => showPanic p)
      | _ => "bad-op"
  | "exp" :: rest => match natsOf rest with
      | some [s, e, tau, limit] =>
        (match (Trend.new s e).tauExponent tau limit with
         | some k => s!"some {k}" | none => "none")
      | _ => "bad-op"
  | "lim" :: rest => match natsOf rest with
      | some [s, e, isMax, n, k, actual, start, tau, unaligned] =>
        (match checkLimit (Trend.new s e) (if isMax = 1 then .max else .min) n k actual start tau unaligned with
         | .ok r => showBool r | .error p => showPanic p)
      | _ => "bad-op"
  | _ => "bad-op"

end Difficulty

import LcModel.Difficulty.Model
/-! helper lemmas for the Difficulty layer (proof files may import single Mathlib modules) -/
namespace Difficulty

/-! ## basic arithmetic -/

theorem satMul_le_mul (a b : Nat) : satMulU256 a b ≤ a * b := Nat.min_le_left _ _

theorem le_satMul {a x tau : Nat} (h1 : a ≤ x * tau) (h2 : a ≤ U256_MAX) : a ≤ satMulU256 x tau := by
  unfold satMulU256; omega

theorem self_le_satMul {x tau : Nat} (htau : 1 ≤ tau) (hx : x ≤ U256_MAX) : x ≤ satMulU256 x tau :=
  le_satMul (Nat.le_mul_of_pos_right x htau) hx

/-! ## divIter -/

theorem divIter_eq_div (tau j x : Nat) : divIter tau j x = x / tau ^ j := by
  induction j generalizing x with
  | zero => simp [divIter]
  | succ j ih => simp only [divIter]; rw [ih, Nat.div_div_eq_div_mul, Nat.pow_succ']

theorem divIter_add (tau a b x : Nat) : divIter tau (a + b) x = divIter tau b (divIter tau a x) := by
  simp only [divIter_eq_div, Nat.pow_add, Nat.div_div_eq_div_mul]

theorem divIter_mono (tau j : Nat) {x y : Nat} (h : x ≤ y) : divIter tau j x ≤ divIter tau j y := by
  simp only [divIter_eq_div]; exact Nat.div_le_div_right h

theorem divIter_le_self (tau j x : Nat) : divIter tau j x ≤ x := by
  simp only [divIter_eq_div]; exact Nat.div_le_self _ _

theorem divIter_anti {tau a b : Nat} (x : Nat) (h : a ≤ b) : divIter tau b x ≤ divIter tau a x := by
  obtain ⟨c, rfl⟩ := Nat.exists_eq_add_of_le h
  rw [divIter_add]; exact divIter_le_self _ _ _

theorem divIter_mul_pow_le (tau j x : Nat) : divIter tau j x * tau ^ j ≤ x := by
  rw [divIter_eq_div]; exact Nat.div_mul_le_self _ _

/-- `x / tau^d * tau^i ≤ x * tau^(i - d)` -/
theorem divIter_mul_pow_le' {tau : Nat} (htau : 1 ≤ tau) (d i x : Nat) :
    divIter tau d x * tau ^ i ≤ x * tau ^ (i - d) := by
  by_cases h : i ≤ d
  · have h0 : i - d = 0 := by omega
    rw [h0, Nat.pow_zero, Nat.mul_one]
    calc divIter tau d x * tau ^ i ≤ divIter tau d x * tau ^ d :=
          Nat.mul_le_mul_left _ (Nat.pow_le_pow_right htau h)
      _ ≤ x := divIter_mul_pow_le _ _ _
  · have hi : i = d + (i - d) := by omega
    calc divIter tau d x * tau ^ i = divIter tau d x * tau ^ d * tau ^ (i - d) := by
          rw [Nat.mul_assoc, ← Nat.pow_add, ← hi]
      _ ≤ x * tau ^ (i - d) := Nat.mul_le_mul_right _ (divIter_mul_pow_le _ _ _)

/-! ## mulIter -/

theorem mulIter_le (tau j x : Nat) : mulIter tau j x ≤ x * tau ^ j := by
  induction j generalizing x with
  | zero => simp [mulIter]
  | succ j ih =>
    simp only [mulIter]
    calc mulIter tau j (satMulU256 x tau) ≤ satMulU256 x tau * tau ^ j := ih _
      _ ≤ x * tau * tau ^ j := Nat.mul_le_mul_right _ (satMul_le_mul _ _)
      _ = x * tau ^ (j + 1) := by rw [Nat.pow_succ', Nat.mul_assoc]

theorem mulIter_eq {tau : Nat} (htau : 1 ≤ tau) (j : Nat) {x : Nat} (hx : x ≤ U256_MAX) :
    mulIter tau j x = min (x * tau ^ j) U256_MAX := by
  induction j generalizing x with
  | zero => simp [mulIter]; omega
  | succ j ih =>
    simp only [mulIter]
    rw [ih (satMulU256_le _ _), Nat.pow_succ', ← Nat.mul_assoc]
    have hp : 0 < tau ^ j := Nat.pow_pos htau
    unfold satMulU256
    by_cases h : x * tau ≤ U256_MAX
    · rw [Nat.min_eq_left h]
    · have h1 : U256_MAX ≤ U256_MAX * tau ^ j := Nat.le_mul_of_pos_right _ hp
      have h2 : x * tau ≤ x * tau * tau ^ j := Nat.le_mul_of_pos_right _ hp
      rw [Nat.min_eq_right (by omega : U256_MAX ≤ x * tau)]
      omega

/-! ## path sums -/

/-- `Σ_{i=1..c} ⌊x / tau^i⌋` -/
def dSum (tau : Nat) : Nat → Nat → Nat
  | 0, _ => 0
  | c+1, x => x / tau + dSum tau c (x / tau)

/-- `Σ_{i=1..c} x * tau^i` -/
def mSum (tau : Nat) : Nat → Nat → Nat
  | 0, _ => 0
  | c+1, x => x * tau + mSum tau c (x * tau)

/-- the saturating ascent actually computed by `accInc` -/
def sSum (tau : Nat) : Nat → Nat → Nat
  | 0, _ => 0
  | c+1, x => satMulU256 x tau + sSum tau c (satMulU256 x tau)

theorem dSum_mono (tau c : Nat) {x y : Nat} (h : x ≤ y) : dSum tau c x ≤ dSum tau c y := by
  induction c generalizing x y with
  | zero => simp [dSum]
  | succ c ih =>
    simp only [dSum]
    have h1 : x / tau ≤ y / tau := Nat.div_le_div_right h
    have := ih h1
    omega

theorem dSum_add (tau a b x : Nat) :
    dSum tau (a + b) x = dSum tau a x + dSum tau b (divIter tau a x) := by
  induction a generalizing x with
  | zero => simp [dSum, divIter]
  | succ a ih =>
    rw [show a + 1 + b = (a + b) + 1 by omega]
    simp only [dSum, divIter, ih]; omega

theorem mSum_add (tau a b x : Nat) :
    mSum tau (a + b) x = mSum tau a x + mSum tau b (x * tau ^ a) := by
  induction a generalizing x with
  | zero => simp [mSum]
  | succ a ih =>
    rw [show a + 1 + b = (a + b) + 1 by omega]
    simp only [mSum, ih, Nat.pow_succ', Nat.mul_assoc]; omega

theorem dSum_le_sSum {tau : Nat} (htau : 1 ≤ tau) (c : Nat) {y z : Nat} (h : y ≤ z)
    (hz : z ≤ U256_MAX) : dSum tau c y ≤ sSum tau c z := by
  induction c generalizing y z with
  | zero => simp [dSum]
  | succ c ih =>
    simp only [dSum, sSum]
    have h1 : y / tau ≤ y := Nat.div_le_self _ _
    have h2 : z ≤ satMulU256 z tau := self_le_satMul htau hz
    have := ih (by omega : y / tau ≤ satMulU256 z tau) (satMulU256_le _ _)
    omega

theorem sSum_le_mSum (tau c : Nat) {x z : Nat} (h : x ≤ z) : sSum tau c x ≤ mSum tau c z := by
  induction c generalizing x z with
  | zero => simp [sSum]
  | succ c ih =>
    simp only [sSum, mSum]
    have h1 : satMulU256 x tau ≤ z * tau :=
      Nat.le_trans (satMul_le_mul _ _) (Nat.mul_le_mul_right _ h)
    have := ih h1
    omega

theorem dSum_le_mSum {tau : Nat} (htau : 1 ≤ tau) (c : Nat) {y z : Nat} (h : y ≤ z) :
    dSum tau c y ≤ mSum tau c z := by
  induction c generalizing y z with
  | zero => simp [dSum]
  | succ c ih =>
    simp only [dSum, mSum]
    have h1 : y / tau ≤ y := Nat.div_le_self _ _
    have h2 : z ≤ z * tau := Nat.le_mul_of_pos_right _ htau
    have := ih (by omega : y / tau ≤ z * tau)
    omega

theorem mSum_le_add (tau a b x : Nat) : mSum tau a x ≤ mSum tau (a + b) x := by
  rw [mSum_add]; omega

theorem mulIter_le_sSum (tau : Nat) {c : Nat} (hc : 1 ≤ c) (x : Nat) :
    mulIter tau c x ≤ sSum tau c x := by
  induction c generalizing x with
  | zero => omega
  | succ c ih =>
    simp only [mulIter, sSum]
    cases c with
    | zero => simp [mulIter, sSum]
    | succ c => have := ih (by omega) (satMulU256 x tau); omega

/-! ## the accumulation loops -/

theorem accDec_spec {actual : Nat} (hA : actual ≤ U256_MAX) (tau c curr total : Nat) :
    ((accDec tau actual c curr total).1 = true ∧ actual ≤ total + dSum tau c curr) ∨
    (accDec tau actual c curr total = (false, divIter tau c curr, total + dSum tau c curr) ∧
      (c = 0 ∨ total + dSum tau c curr < actual)) := by
  induction c generalizing curr total with
  | zero => right; simp [accDec, divIter, dSum]
  | succ c ih =>
    simp only [accDec, divIter, dSum]
    by_cases h : actual ≤ satAddU256 total (curr / tau)
    · left; rw [if_pos h]; refine ⟨rfl, ?_⟩; unfold satAddU256 at h; omega
    · rw [if_neg h]
      have hs : satAddU256 total (curr / tau) = total + curr / tau := by
        unfold satAddU256 at h ⊢; omega
      rw [hs] at h ⊢
      rcases ih (curr / tau) (total + curr / tau) with ⟨h1, h2⟩ | ⟨h1, h2⟩
      · left; exact ⟨h1, by omega⟩
      · right; refine ⟨by rw [h1, Nat.add_assoc], ?_⟩
        right
        rcases h2 with rfl | h2
        · simp [dSum]; omega
        · omega

theorem accInc_spec {actual : Nat} (hA : actual ≤ U256_MAX) (tau c curr total : Nat) :
    ((accInc tau actual c curr total).1 = true ∧ actual ≤ total + sSum tau c curr) ∨
    (accInc tau actual c curr total = (false, mulIter tau c curr, total + sSum tau c curr) ∧
      (c = 0 ∨ total + sSum tau c curr < actual)) := by
  induction c generalizing curr total with
  | zero => right; simp [accInc, mulIter, sSum]
  | succ c ih =>
    simp only [accInc, mulIter, sSum]
    by_cases h : actual ≤ satAddU256 total (satMulU256 curr tau)
    · left; rw [if_pos h]; refine ⟨rfl, ?_⟩; unfold satAddU256 at h; omega
    · rw [if_neg h]
      have hs : satAddU256 total (satMulU256 curr tau) = total + satMulU256 curr tau := by
        unfold satAddU256 at h ⊢; omega
      rw [hs] at h ⊢
      rcases ih (satMulU256 curr tau) (total + satMulU256 curr tau) with ⟨h1, h2⟩ | ⟨h1, h2⟩
      · left; exact ⟨h1, by omega⟩
      · right; refine ⟨by rw [h1, Nat.add_assoc], ?_⟩
        right
        rcases h2 with rfl | h2
        · simp [sSum]; omega
        · omega

/-! ## the exponent search loops -/

theorem tauExpInc_some {tau e fuel k0 tmp k : Nat} (h : tauExpInc tau e fuel k0 tmp = some k) :
    k0 ≤ k ∧ k < k0 + fuel ∧ e ≤ mulIter tau (k - k0 + 1) tmp ∧
      (k0 < k → ¬ e ≤ mulIter tau (k - k0) tmp) := by
  induction fuel generalizing k0 tmp with
  | zero => simp [tauExpInc] at h
  | succ fuel ih =>
    simp only [tauExpInc] at h
    split at h
    · rename_i hc
      cases h
      simp [mulIter, hc]
    · rename_i hc
      obtain ⟨h1, h2, h3, h4⟩ := ih h
      refine ⟨by omega, by omega, ?_, ?_⟩
      · rw [show k - k0 + 1 = (k - (k0 + 1) + 1) + 1 by omega]; simpa only [mulIter] using h3
      · intro _
        by_cases hk : k = k0 + 1
        · subst hk; rw [show k0 + 1 - k0 = 0 + 1 by omega]; simpa only [mulIter] using hc
        · rw [show k - k0 = (k - (k0 + 1)) + 1 by omega]
          simpa only [mulIter] using h4 (by omega)

theorem tauExpInc_none {tau e fuel k0 tmp : Nat} (h : tauExpInc tau e fuel k0 tmp = none) :
    fuel = 0 ∨ ¬ e ≤ mulIter tau fuel tmp := by
  induction fuel generalizing k0 tmp with
  | zero => left; rfl
  | succ fuel ih =>
    right
    simp only [tauExpInc] at h
    split at h
    · cases h
    · rename_i hc
      rcases ih h with rfl | h'
      · simpa only [mulIter] using hc
      · simpa only [mulIter] using h'

theorem tauExpDec_some {tau e fuel k0 tmp k : Nat} (h : tauExpDec tau e fuel k0 tmp = some k) :
    k0 ≤ k ∧ k < k0 + fuel ∧ divIter tau (k - k0 + 1) tmp ≤ e ∧
      (k0 < k → ¬ divIter tau (k - k0) tmp ≤ e) := by
  induction fuel generalizing k0 tmp with
  | zero => simp [tauExpDec] at h
  | succ fuel ih =>
    simp only [tauExpDec] at h
    split at h
    · rename_i hc
      cases h
      simp [divIter, hc]
    · rename_i hc
      obtain ⟨h1, h2, h3, h4⟩ := ih h
      refine ⟨by omega, by omega, ?_, ?_⟩
      · rw [show k - k0 + 1 = (k - (k0 + 1) + 1) + 1 by omega]; simpa only [divIter] using h3
      · intro _
        by_cases hk : k = k0 + 1
        · subst hk; rw [show k0 + 1 - k0 = 0 + 1 by omega]; simpa only [divIter] using hc
        · rw [show k - k0 = (k - (k0 + 1)) + 1 by omega]
          simpa only [divIter] using h4 (by omega)

theorem tauExpDec_none {tau e fuel k0 tmp : Nat} (h : tauExpDec tau e fuel k0 tmp = none) :
    fuel = 0 ∨ ¬ divIter tau fuel tmp ≤ e := by
  induction fuel generalizing k0 tmp with
  | zero => left; rfl
  | succ fuel ih =>
    right
    simp only [tauExpDec] at h
    split at h
    · cases h
    · rename_i hc
      rcases ih h with rfl | h'
      · simpa only [divIter] using hc
      · simpa only [divIter] using h'

/-! ## trend and exponent -/

theorem Trend.new_self (s : Nat) : Trend.new s s = .unchanged := by simp [Trend.new]
theorem Trend.new_lt {s e : Nat} (h : s < e) : Trend.new s e = .increased s e := by
  simp [Trend.new, h, Nat.ne_of_lt h]
theorem Trend.new_gt {s e : Nat} (h : e < s) : Trend.new s e = .decreased s e := by
  have h1 : ¬ s = e := by omega
  have h2 : ¬ s < e := by omega
  simp [Trend.new, h1, h2]

theorem tauExpInc_some0 {tau e n s k : Nat} (h : tauExpInc tau e n 0 s = some k) :
    k < n ∧ e ≤ mulIter tau (k + 1) s ∧ (0 < k → ¬ e ≤ mulIter tau k s) := by
  obtain ⟨_, h2, h3, h4⟩ := tauExpInc_some h
  exact ⟨by omega, by simpa using h3, by simpa using h4⟩

theorem tauExpDec_some0 {tau e n s k : Nat} (h : tauExpDec tau e n 0 s = some k) :
    k < n ∧ divIter tau (k + 1) s ≤ e ∧ (0 < k → ¬ divIter tau k s ≤ e) := by
  obtain ⟨_, h2, h3, h4⟩ := tauExpDec_some h
  exact ⟨by omega, by simpa using h3, by simpa using h4⟩

/-! ## splitEpochs / checkLimit -/

def splitVal (t : Trend) (l : Limit) (n k inc dec : Nat) : Prop :=
  match l, t with
  | .min, .unchanged => dec = (n + 1) / 2
  | .min, .increased _ _ => dec = (n - k + 1) / 2
  | .min, .decreased _ _ => dec = (n - k + 1) / 2 + k
  | .max, .unchanged => inc = (n + 1) / 2
  | .max, .increased _ _ => inc = (n - k + 1) / 2 + k
  | .max, .decreased _ _ => inc = (n - k + 1) / 2

theorem splitEpochs_ok (t : Trend) (l : Limit) {n k : Nat} (hk : k ≤ n) :
    ∃ inc dec, splitEpochs t l n k = .ok (inc, dec) ∧ inc + dec = n ∧ splitVal t l n k inc dec := by
  have h1 : (n - k + 1) / 2 ≤ n := by omega
  have h2 : (n - k + 1) / 2 + k ≤ n := by omega
  have h3 : (n + 1) / 2 ≤ n := by omega
  cases t <;> cases l
  · exact ⟨n - (n + 1) / 2, (n + 1) / 2, rfl, by omega, rfl⟩
  · exact ⟨(n + 1) / 2, n - (n + 1) / 2, rfl, by omega, rfl⟩
  · refine ⟨n - (n - k + 1) / 2, (n - k + 1) / 2, ?_, by omega, rfl⟩
    simp [splitEpochs, subU64, hk, h1, bind, Except.bind, pure, Except.pure]
  · refine ⟨(n - k + 1) / 2 + k, n - ((n - k + 1) / 2 + k), ?_, by omega, rfl⟩
    simp [splitEpochs, subU64, hk, h2, bind, Except.bind, pure, Except.pure]
  · refine ⟨n - ((n - k + 1) / 2 + k), (n - k + 1) / 2 + k, ?_, by omega, rfl⟩
    simp [splitEpochs, subU64, hk, h2, bind, Except.bind, pure, Except.pure]
  · refine ⟨(n - k + 1) / 2, n - (n - k + 1) / 2, ?_, by omega, rfl⟩
    simp [splitEpochs, subU64, hk, h1, bind, Except.bind, pure, Except.pure]

/-- the lower-limit decision after `split_epochs` / `remove_last_epoch` -/
def minCheck (tau actual dec' inc' start un : Nat) : Bool :=
  let r1 := accDec tau actual dec' start 0
  if r1.1 then false else
  let r2 := accInc tau actual inc' r1.2.1 r1.2.2
  if r2.1 then false else
  (decide (r2.2.2 + un ≤ U256_MAX) && decide (r2.2.2 + un ≤ actual))

/-- the upper-limit decision after `split_epochs` / `remove_last_epoch` -/
def maxCheck (tau actual inc' dec' start un : Nat) : Bool :=
  let r1 := accInc tau actual inc' start 0
  if r1.1 then true else
  let r2 := accDec tau actual dec' r1.2.1 r1.2.2
  if r2.1 then true else
  (decide (r2.2.2 + un > U256_MAX) || decide (actual ≤ r2.2.2 + un))

theorem checkLimit_min_eq {t : Trend} {n k inc dec : Nat} (actual start tau un : Nat)
    (hs : splitEpochs t .min n k = .ok (inc, dec)) (h1 : inc = 0 → 1 ≤ dec) :
    checkLimit t .min n k actual start tau un =
      .ok (minCheck tau actual (if inc = 0 then dec - 1 else dec) (inc - 1) start un) := by
  unfold checkLimit minCheck
  rw [hs]
  by_cases hi : inc = 0
  · subst hi
    have := h1 rfl
    simp [subU64, this, bind, Except.bind, pure, Except.pure]
    split
    · simp_all
    · split <;> simp_all
  · simp [hi, bind, Except.bind, pure, Except.pure]
    split
    · simp_all
    · split <;> simp_all

theorem checkLimit_max_eq {t : Trend} {n k inc dec : Nat} (actual start tau un : Nat)
    (hs : splitEpochs t .max n k = .ok (inc, dec)) (h1 : dec = 0 → 1 ≤ inc) :
    checkLimit t .max n k actual start tau un =
      .ok (maxCheck tau actual (if dec = 0 then inc - 1 else inc) (dec - 1) start un) := by
  unfold checkLimit maxCheck
  rw [hs]
  by_cases hi : dec = 0
  · subst hi
    have := h1 rfl
    simp [subU64, this, bind, Except.bind, pure, Except.pure]
    split
    · simp_all
    · split <;> simp_all
  · simp [hi, bind, Except.bind, pure, Except.pure]
    split
    · simp_all
    · split <;> simp_all

/-! ## what an accepted limit check implies -/

theorem minCheck_sound {tau actual dec' inc' start un : Nat} (htau : 1 ≤ tau)
    (hA : actual ≤ U256_MAX) (hs : start ≤ U256_MAX)
    (h : minCheck tau actual dec' inc' start un = true) :
    un ≤ actual ∧ dSum tau (dec' + inc') start ≤ actual - un := by
  unfold minCheck at h
  rcases accDec_spec hA tau dec' start 0 with ⟨h1, _⟩ | ⟨h1, _⟩
  · simp [h1] at h
  · rw [Nat.zero_add] at h1
    rw [h1] at h
    simp only [Bool.false_eq_true, ↓reduceIte] at h
    rcases accInc_spec hA tau inc' (divIter tau dec' start) (dSum tau dec' start)
      with ⟨h2, _⟩ | ⟨h2, _⟩
    · simp [h2] at h
    · rw [h2] at h
      simp at h
      have e1 := dSum_add tau dec' inc' start
      have e2 : dSum tau inc' (divIter tau dec' start) ≤ sSum tau inc' (divIter tau dec' start) :=
        dSum_le_sSum htau inc' (Nat.le_refl _) (Nat.le_trans (divIter_le_self _ _ _) hs)
      omega

theorem path_le_mSum {tau : Nat} (htau : 1 ≤ tau) (a b x : Nat) :
    sSum tau a x + dSum tau b (mulIter tau a x) ≤ mSum tau (a + b) x := by
  rw [mSum_add]
  have e1 := sSum_le_mSum tau a (Nat.le_refl x)
  have e2 := dSum_le_mSum htau b (mulIter_le tau a x)
  omega

theorem maxCheck_sound {tau actual inc' dec' start un : Nat} (htau : 1 ≤ tau)
    (hA : actual ≤ U256_MAX)
    (h : maxCheck tau actual inc' dec' start un = true) :
    actual - un ≤ mSum tau (inc' + dec') start := by
  unfold maxCheck at h
  have hB := path_le_mSum htau inc' dec' start
  have hC := sSum_le_mSum tau inc' (Nat.le_refl start)
  have hD := mSum_le_add tau inc' dec' start
  rcases accInc_spec hA tau inc' start 0 with ⟨_, h1⟩ | ⟨h1, _⟩
  · omega
  · rw [Nat.zero_add] at h1
    rw [h1] at h
    simp only [Bool.false_eq_true, ↓reduceIte] at h
    rcases accDec_spec hA tau dec' (mulIter tau inc' start) (sSum tau inc' start)
      with ⟨_, h2⟩ | ⟨h2, _⟩
    · omega
    · rw [h2] at h
      simp at h
      omega

/-! ## legal difficulty histories -/

/-- same as `C14.Legal` (which lives with the property statements) -/
def Leg (tau : Nat) : List Nat → Prop
  | a :: b :: rest => a ≤ tau * b ∧ b ≤ tau * a ∧ Leg tau (b :: rest)
  | _ => True

theorem Leg_tail {tau a : Nat} {l : List Nat} (h : Leg tau (a :: l)) : Leg tau l := by
  cases l with
  | nil => trivial
  | cons b l => exact h.2.2

theorem Leg_append_right {tau : Nat} (l1 : List Nat) {l2 : List Nat} (h : Leg tau (l1 ++ l2)) :
    Leg tau l2 := by
  induction l1 with
  | nil => exact h
  | cons a l1 ih => exact ih (Leg_tail h)

/-- the last element is at most `first * tau^steps` -/
theorem Leg_chain_up {tau : Nat} (l : List Nat) {a e : Nat} (h : Leg tau (a :: (l ++ [e]))) :
    e ≤ a * tau ^ (l.length + 1) := by
  induction l generalizing a with
  | nil => have := h.2.1; simp only [List.length_nil, Nat.zero_add, Nat.pow_one]; rw [Nat.mul_comm]; exact this
  | cons b l ih =>
    have h1 : b ≤ tau * a := h.2.1
    have h2 := ih (Leg_tail h)
    calc e ≤ b * tau ^ (l.length + 1) := h2
      _ ≤ tau * a * tau ^ (l.length + 1) := Nat.mul_le_mul_right _ h1
      _ = a * tau ^ ((b :: l).length + 1) := by
          rw [List.length_cons, Nat.pow_succ' (n := l.length + 1), Nat.mul_comm tau a, Nat.mul_assoc]

/-- the first element is at most `last * tau^steps` -/
theorem Leg_chain_down {tau : Nat} (l : List Nat) {a e : Nat} (h : Leg tau (a :: (l ++ [e]))) :
    a ≤ e * tau ^ (l.length + 1) := by
  induction l generalizing a with
  | nil => have := h.1; simp only [List.length_nil, Nat.zero_add, Nat.pow_one]; rw [Nat.mul_comm]; exact this
  | cons b l ih =>
    have h1 : a ≤ tau * b := h.1
    have h2 : b ≤ e * tau ^ (l.length + 1) := ih (Leg_tail h)
    calc a ≤ tau * b := h1
      _ ≤ tau * (e * tau ^ (l.length + 1)) := Nat.mul_le_mul_left _ h2
      _ = e * tau ^ ((b :: l).length + 1) := by
          rw [List.length_cons, Nat.pow_succ' (n := l.length + 1), Nat.mul_left_comm]

theorem mem_le_sum {a : Nat} {l : List Nat} (h : a ∈ l) : a ≤ l.sum := by
  induction l with
  | nil => cases h
  | cons b l ih =>
    rw [List.sum_cons]
    rcases List.mem_cons.mp h with rfl | h
    · omega
    · have := ih h; omega

/-- steepest descent stays below a legal history -/
theorem Leg_dSum_le {tau : Nat} (m rest : List Nat) {x : Nat}
    (h : Leg tau (x :: (m ++ rest))) : dSum tau m.length x ≤ m.sum := by
  induction m generalizing x with
  | nil => simp [dSum]
  | cons a m ih =>
    have h1 : x ≤ tau * a := h.1
    have h2 : x / tau ≤ a := Nat.div_le_of_le_mul h1
    have h3 := ih (Leg_tail h)
    have h4 := dSum_mono tau m.length h2
    simp only [List.length_cons, dSum, List.sum_cons]
    omega

/-- an ascent that still reaches below the end stays below a legal history -/
theorem Leg_sSum_le {tau : Nat} (htau : 1 ≤ tau) (m : List Nat) {e y : Nat}
    (h : Leg tau (m ++ [e])) (hy : y * tau ^ (m.length + 1) ≤ e) :
    sSum tau m.length y ≤ m.sum := by
  induction m generalizing y with
  | nil => simp [sSum]
  | cons a m ih =>
    have hp : 0 < tau ^ (m.length + 1) := Nat.pow_pos htau
    have h1 : e ≤ a * tau ^ (m.length + 1) := Leg_chain_up m h
    have hy' : y * tau * tau ^ (m.length + 1) ≤ e := by
      rw [Nat.mul_assoc, ← Nat.pow_succ']; exact hy
    have h2 : y * tau ≤ a := Nat.le_of_mul_le_mul_right (Nat.le_trans hy' h1) hp
    have h3 : satMulU256 y tau ≤ a := Nat.le_trans (satMul_le_mul _ _) h2
    have h4 : satMulU256 y tau * tau ^ (m.length + 1) ≤ e :=
      Nat.le_trans (Nat.mul_le_mul_right _ (satMul_le_mul _ _)) hy'
    have h5 := ih (Leg_tail h) h4
    simp only [List.length_cons, sSum, List.sum_cons]
    omega

/-- steepest (saturating) ascent stays above a legal history of machine numbers -/
theorem Leg_le_sSum {tau : Nat} (m rest : List Nat) {x y : Nat}
    (h : Leg tau (x :: (m ++ rest))) (hxy : x ≤ y) (hm : ∀ a ∈ m, a ≤ U256_MAX) :
    m.sum ≤ sSum tau m.length y := by
  induction m generalizing x y with
  | nil => simp [sSum]
  | cons a m ih =>
    have h1 : a ≤ tau * x := h.2.1
    have h2 : a ≤ y * tau := by
      rw [Nat.mul_comm]; exact Nat.le_trans h1 (Nat.mul_le_mul_left _ hxy)
    have h3 : a ≤ satMulU256 y tau := le_satMul h2 (hm a (List.mem_cons_self))
    have h4 := ih (Leg_tail h) h3 (fun b hb => hm b (List.mem_cons_of_mem _ hb))
    simp only [List.length_cons, sSum, List.sum_cons]
    omega

/-- a descent from high enough above the end stays above a legal history -/
theorem Leg_le_dSum {tau : Nat} (htau : 1 ≤ tau) (m : List Nat) {e y : Nat}
    (h : Leg tau (m ++ [e])) (hy : e * tau ^ (m.length + 1) ≤ y) :
    m.sum ≤ dSum tau m.length y := by
  induction m generalizing y with
  | nil => simp [dSum]
  | cons a m ih =>
    have h1 : a ≤ e * tau ^ (m.length + 1) := Leg_chain_down m h
    have hy' : e * tau ^ (m.length + 1) * tau ≤ y := by
      rw [Nat.mul_assoc, ← Nat.pow_succ]; exact hy
    have h2 : a ≤ y / tau :=
      (Nat.le_div_iff_mul_le htau).mpr (Nat.le_trans (Nat.mul_le_mul_right _ h1) hy')
    have h3 : e * tau ^ (m.length + 1) ≤ y / tau := (Nat.le_div_iff_mul_le htau).mpr hy'
    have h4 := ih (Leg_tail h) h3
    simp only [List.length_cons, dSum, List.sum_cons]
    omega

/-! ## a legal history passes both limit checks -/

theorem minCheck_complete {tau : Nat} (htau : 1 ≤ tau) (m1 m2 : List Nat)
    {ds de un actual : Nat} (hleg : Leg tau (ds :: (m1 ++ (m2 ++ [de]))))
    (hkey : m2 ≠ [] → divIter tau m1.length ds * tau ^ (m2.length + 1) ≤ de)
    (hact : actual = un + (m1.sum + m2.sum)) (hA : actual ≤ U256_MAX) (hpos : 0 < un) :
    minCheck tau actual m1.length m2.length ds un = true := by
  have S1 : dSum tau m1.length ds ≤ m1.sum := Leg_dSum_le m1 _ hleg
  have S2 : sSum tau m2.length (divIter tau m1.length ds) ≤ m2.sum := by
    cases m2 with
    | nil => simp [sSum]
    | cons a m2 =>
      exact Leg_sSum_le htau _ (Leg_append_right (ds :: m1) hleg) (hkey (by simp))
  unfold minCheck
  rcases accDec_spec hA tau m1.length ds 0 with ⟨_, h1⟩ | ⟨h1, _⟩
  · omega
  · rw [Nat.zero_add] at h1
    rw [h1]
    simp only [Bool.false_eq_true, ↓reduceIte]
    rcases accInc_spec hA tau m2.length (divIter tau m1.length ds) (dSum tau m1.length ds)
      with ⟨_, h2⟩ | ⟨h2, _⟩
    · omega
    · rw [h2]
      simp
      omega

theorem maxCheck_complete {tau : Nat} (htau : 1 ≤ tau) (m1 m2 : List Nat)
    {ds de un actual : Nat} (hleg : Leg tau (ds :: (m1 ++ (m2 ++ [de]))))
    (hds : ds ≤ U256_MAX)
    (hkey : m2 ≠ [] → de * tau ^ (m2.length + 1) ≤ ds * tau ^ m1.length)
    (hact : actual = un + (m1.sum + m2.sum)) (hA : actual ≤ U256_MAX) :
    maxCheck tau actual m1.length m2.length ds un = true := by
  have S1 : m1.sum ≤ sSum tau m1.length ds :=
    Leg_le_sSum m1 _ hleg (Nat.le_refl _) (fun a ha => by have := mem_le_sum ha; omega)
  unfold maxCheck
  rcases accInc_spec hA tau m1.length ds 0 with ⟨h1, _⟩ | ⟨h1, hlt⟩
  · simp [h1]
  · rw [Nat.zero_add] at h1 hlt
    rw [h1]
    simp only [Bool.false_eq_true, ↓reduceIte]
    have S2 : m2.sum ≤ dSum tau m2.length (mulIter tau m1.length ds) := by
      cases m2 with
      | nil => simp [dSum]
      | cons a m2 =>
        refine Leg_le_dSum htau _ (Leg_append_right (ds :: m1) hleg) ?_
        have hk := hkey (by simp)
        have hY := mulIter_eq htau m1.length hds
        by_cases h0 : m1.length = 0
        · rw [h0] at hk ⊢; simpa [mulIter] using hk
        · have := mulIter_le_sSum tau (by omega : 1 ≤ m1.length) ds
          have hlt : sSum tau m1.length ds < actual := by omega
          generalize ds * tau ^ m1.length = P at hk hY
          generalize de * tau ^ ((a :: m2).length + 1) = Q at hk ⊢
          omega
    rcases accDec_spec hA tau m2.length (mulIter tau m1.length ds) (sSum tau m1.length ds)
      with ⟨h2, _⟩ | ⟨h2, _⟩
    · simp [h2]
    · rw [h2]
      simp
      omega

/-! ## checkLimit on a legal history, given the "key inequality" of the split -/

theorem checkLimit_min_of_key {tau : Nat} (htau : 1 ≤ tau) (t : Trend) (mids : List Nat)
    {ds de un actual n kk : Nat} (hkk : kk ≤ n) (hn : n = mids.length + 1)
    (hleg : Leg tau (ds :: (mids ++ [de])))
    (hkey : ∀ inc dec, inc + dec = n → splitVal t .min n kk inc dec → inc ≠ 0 →
      divIter tau dec ds * tau ^ inc ≤ de)
    (hact : actual = un + mids.sum) (hA : actual ≤ U256_MAX) (hpos : 0 < un) :
    checkLimit t .min n kk actual ds tau un = .ok true := by
  obtain ⟨inc, dec, hs, hsum, hv⟩ := splitEpochs_ok t .min hkk
  rw [checkLimit_min_eq actual ds tau un hs (by omega)]
  congr 1
  generalize hd : (if inc = 0 then dec - 1 else dec) = dec'
  have hlen : mids.length = dec' + (inc - 1) := by
    by_cases hi : inc = 0
    · rw [if_pos hi] at hd; omega
    · rw [if_neg hi] at hd; omega
  have hm : mids = mids.take dec' ++ mids.drop dec' := (List.take_append_drop _ _).symm
  have l1 : (mids.take dec').length = dec' := by rw [List.length_take]; omega
  have l2 : (mids.drop dec').length = inc - 1 := by rw [List.length_drop]; omega
  have hleg' : Leg tau (ds :: (mids.take dec' ++ (mids.drop dec' ++ [de]))) := by
    rw [← List.append_assoc, ← hm]; exact hleg
  have := minCheck_complete htau (mids.take dec') (mids.drop dec') (ds := ds) (de := de)
    (un := un) (actual := actual) hleg' ?_ ?_ hA hpos
  · rw [l1, l2] at this; exact this
  · intro hne
    have hi : inc - 1 ≠ 0 := by
      intro h0; rw [h0] at l2; exact hne (List.length_eq_zero_iff.mp l2)
    have hi' : inc ≠ 0 := by omega
    rw [if_neg hi'] at hd
    rw [l1, l2, ← hd, show inc - 1 + 1 = inc by omega]
    exact hkey inc dec hsum hv hi'
  · rw [← List.sum_append, ← hm]; exact hact

theorem checkLimit_max_of_key {tau : Nat} (htau : 1 ≤ tau) (t : Trend) (mids : List Nat)
    {ds de un actual n kk : Nat} (hkk : kk ≤ n) (hn : n = mids.length + 1)
    (hleg : Leg tau (ds :: (mids ++ [de]))) (hds : ds ≤ U256_MAX)
    (hkey : ∀ inc dec, inc + dec = n → splitVal t .max n kk inc dec → dec ≠ 0 →
      de * tau ^ dec ≤ ds * tau ^ inc)
    (hact : actual = un + mids.sum) (hA : actual ≤ U256_MAX) :
    checkLimit t .max n kk actual ds tau un = .ok true := by
  obtain ⟨inc, dec, hs, hsum, hv⟩ := splitEpochs_ok t .max hkk
  rw [checkLimit_max_eq actual ds tau un hs (by omega)]
  congr 1
  generalize hd : (if dec = 0 then inc - 1 else inc) = inc'
  have hlen : mids.length = inc' + (dec - 1) := by
    by_cases hi : dec = 0
    · rw [if_pos hi] at hd; omega
    · rw [if_neg hi] at hd; omega
  have hm : mids = mids.take inc' ++ mids.drop inc' := (List.take_append_drop _ _).symm
  have l1 : (mids.take inc').length = inc' := by rw [List.length_take]; omega
  have l2 : (mids.drop inc').length = dec - 1 := by rw [List.length_drop]; omega
  have hleg' : Leg tau (ds :: (mids.take inc' ++ (mids.drop inc' ++ [de]))) := by
    rw [← List.append_assoc, ← hm]; exact hleg
  have := maxCheck_complete htau (mids.take inc') (mids.drop inc') (ds := ds) (de := de)
    (un := un) (actual := actual) hleg' hds ?_ ?_ hA
  · rw [l1, l2] at this; exact this
  · intro hne
    have hi : dec - 1 ≠ 0 := by
      intro h0; rw [h0] at l2; exact hne (List.length_eq_zero_iff.mp l2)
    have hi' : dec ≠ 0 := by omega
    rw [if_neg hi'] at hd
    rw [l1, l2, ← hd, show dec - 1 + 1 = dec by omega]
    exact hkey inc dec hsum hv hi'
  · rw [← List.sum_append, ← hm]; exact hact

/-! ## the key inequalities, per trend -/

theorem mul_pow_le_of_not_mulIter_le {tau : Nat} (htau : 1 ≤ tau) {ds de k : Nat}
    (hds : ds ≤ U256_MAX) (hde : de ≤ U256_MAX) (hlt : ds < de)
    (h : 0 < k → ¬ de ≤ mulIter tau k ds) : ds * tau ^ k ≤ de := by
  by_cases hk : k = 0
  · subst hk; simp; omega
  · have h1 := h (by omega)
    have h2 := mulIter_eq htau k hds
    generalize ds * tau ^ k = P at h2 ⊢
    omega

theorem mul_pow_le_of_not_divIter_le {tau : Nat} (htau : 1 ≤ tau) {ds de k : Nat}
    (hlt : de < ds) (h : 0 < k → ¬ divIter tau k ds ≤ de) : de * tau ^ k ≤ ds := by
  by_cases hk : k = 0
  · subst hk; simp; omega
  · have h1 := h (by omega)
    rw [divIter_eq_div] at h1
    have hp : 0 < tau ^ k := Nat.pow_pos htau
    have h2 : (de + 1) * tau ^ k ≤ ds := (Nat.le_div_iff_mul_le hp).mp (by omega)
    exact Nat.le_trans (Nat.mul_le_mul_right _ (Nat.le_succ de)) h2

/-- facts delivered by `calculate_tau_exponent`, by trend -/
theorem tauExponent_cases {ds de tau n k : Nat}
    (hk : (Trend.new ds de).tauExponent tau n = some k) :
    (ds = de ∧ k = 0 ∧ Trend.new ds de = .unchanged) ∨
    (ds < de ∧ Trend.new ds de = .increased ds de ∧ k < n ∧ de ≤ mulIter tau (k + 1) ds ∧
      (0 < k → ¬ de ≤ mulIter tau k ds)) ∨
    (de < ds ∧ Trend.new ds de = .decreased ds de ∧ k < n ∧ divIter tau (k + 1) ds ≤ de ∧
      (0 < k → ¬ divIter tau k ds ≤ de)) := by
  rcases Nat.lt_trichotomy ds de with h | h | h
  · right; left
    rw [Trend.new_lt h] at hk ⊢
    exact ⟨h, rfl, tauExpInc_some0 hk⟩
  · left
    subst h
    rw [Trend.new_self] at hk ⊢
    simp only [Trend.tauExponent, Option.some.injEq] at hk
    exact ⟨rfl, hk.symm, rfl⟩
  · right; right
    rw [Trend.new_gt h] at hk ⊢
    exact ⟨h, rfl, tauExpDec_some0 hk⟩

theorem keyMin {tau : Nat} (htau : 1 ≤ tau) {ds de n k : Nat}
    (hds : ds ≤ U256_MAX) (hde : de ≤ U256_MAX)
    (hk : (Trend.new ds de).tauExponent tau n = some k) (inc dec : Nat) (hsum : inc + dec = n)
    (hv : splitVal (Trend.new ds de) .min n (limitExponents (Trend.new ds de) k).1 inc dec) :
    divIter tau dec ds * tau ^ inc ≤ de := by
  rcases tauExponent_cases hk with ⟨h, hk0, ht⟩ | ⟨h, ht, hkn, _, h2⟩ | ⟨h, ht, hkn, h1, _⟩
  · subst h
    rw [ht] at hv
    simp only [splitVal] at hv
    have := divIter_mul_pow_le' htau dec inc ds
    rw [show inc - dec = 0 by omega] at this
    simpa using this
  · rw [ht] at hv
    simp only [limitExponents, splitVal] at hv
    have a1 := divIter_mul_pow_le' htau dec inc ds
    have a2 : ds * tau ^ (inc - dec) ≤ ds * tau ^ k :=
      Nat.mul_le_mul_left _ (Nat.pow_le_pow_right htau (by omega))
    have a3 := mul_pow_le_of_not_mulIter_le htau hds hde h h2
    exact Nat.le_trans a1 (Nat.le_trans a2 a3)
  · rw [ht] at hv
    simp only [limitExponents, splitVal] at hv
    obtain ⟨j, hj⟩ : ∃ j, dec = (k + 1) + j := ⟨dec - (k + 1), by omega⟩
    have a1 : divIter tau dec ds ≤ divIter tau j de := by
      rw [hj, divIter_add]; exact divIter_mono _ _ h1
    have a2 := divIter_mul_pow_le' htau j inc de
    rw [show inc - j = 0 by omega] at a2
    calc divIter tau dec ds * tau ^ inc ≤ divIter tau j de * tau ^ inc :=
          Nat.mul_le_mul_right _ a1
      _ ≤ de := by simpa using a2

theorem keyMax {tau : Nat} (htau : 1 ≤ tau) {ds de n k : Nat}
    (hk : (Trend.new ds de).tauExponent tau n = some k) (inc dec : Nat) (hsum : inc + dec = n)
    (hv : splitVal (Trend.new ds de) .max n (limitExponents (Trend.new ds de) k).2 inc dec) :
    de * tau ^ dec ≤ ds * tau ^ inc := by
  rcases tauExponent_cases hk with ⟨h, hk0, ht⟩ | ⟨h, ht, hkn, h1, _⟩ | ⟨h, ht, hkn, _, h2⟩
  · subst h
    rw [ht] at hv
    simp only [splitVal] at hv
    exact Nat.mul_le_mul_left _ (Nat.pow_le_pow_right htau (by omega))
  · rw [ht] at hv
    simp only [limitExponents, splitVal] at hv
    have a1 : de ≤ ds * tau ^ (k + 1) := Nat.le_trans h1 (mulIter_le _ _ _)
    calc de * tau ^ dec ≤ ds * tau ^ (k + 1) * tau ^ dec := Nat.mul_le_mul_right _ a1
      _ = ds * tau ^ (k + 1 + dec) := by rw [Nat.mul_assoc, ← Nat.pow_add]
      _ ≤ ds * tau ^ inc := Nat.mul_le_mul_left _ (Nat.pow_le_pow_right htau (by omega))
  · rw [ht] at hv
    simp only [limitExponents, splitVal] at hv
    have a1 := mul_pow_le_of_not_divIter_le htau h h2
    calc de * tau ^ dec ≤ de * tau ^ (k + inc) :=
          Nat.mul_le_mul_left _ (Nat.pow_le_pow_right htau (by omega))
      _ = de * tau ^ k * tau ^ inc := by rw [Nat.pow_add, Nat.mul_assoc]
      _ ≤ ds * tau ^ inc := Nat.mul_le_mul_right _ a1

theorem limitExponents_le {ds de tau n k : Nat} (hn : 1 ≤ n)
    (hk : (Trend.new ds de).tauExponent tau n = some k) :
    (limitExponents (Trend.new ds de) k).1 ≤ n ∧ (limitExponents (Trend.new ds de) k).2 ≤ n := by
  rcases tauExponent_cases hk with ⟨_, hk0, ht⟩ | ⟨_, ht, hkn, _, _⟩ | ⟨_, ht, hkn, _, _⟩ <;>
    rw [ht] <;> simp only [limitExponents] <;> omega

/-- a legal history is never "too fast" -/
theorem tauExponent_complete {tau : Nat} (htau : 1 ≤ tau) (mids : List Nat) {ds de : Nat}
    (hleg : Leg tau (ds :: (mids ++ [de]))) (hds : ds ≤ U256_MAX) (hde : de ≤ U256_MAX) :
    ∃ k, (Trend.new ds de).tauExponent tau (mids.length + 1) = some k := by
  rcases Nat.lt_trichotomy ds de with h | h | h
  · rw [Trend.new_lt h]
    simp only [Trend.tauExponent]
    cases hx : tauExpInc tau de (mids.length + 1) 0 ds with
    | some k => exact ⟨k, rfl⟩
    | none =>
      exfalso
      rcases tauExpInc_none hx with h0 | h0
      · omega
      · apply h0
        rw [mulIter_eq htau _ hds]
        have := Leg_chain_up mids hleg
        omega
  · subst h; exact ⟨0, by rw [Trend.new_self]; rfl⟩
  · rw [Trend.new_gt h]
    simp only [Trend.tauExponent]
    cases hx : tauExpDec tau de (mids.length + 1) 0 ds with
    | some k => exact ⟨k, rfl⟩
    | none =>
      exfalso
      rcases tauExpDec_none hx with h0 | h0
      · omega
      · apply h0
        rw [divIter_eq_div]
        apply Nat.div_le_of_le_mul
        rw [Nat.mul_comm]
        exact Leg_chain_down mids hleg

/-! ## trend check -/

theorem checkTau_sound {tau : Nat} (htau : 1 ≤ tau) {ds de n : Nat}
    (h : (Trend.new ds de).checkTau tau n = true) :
    divIter tau n ds ≤ de ∧ de ≤ ds * tau ^ n := by
  have hp : 0 < tau ^ n := Nat.pow_pos htau
  have h0 : ds ≤ ds * tau ^ n := Nat.le_mul_of_pos_right _ hp
  have h1 := divIter_le_self tau n ds
  rcases Nat.lt_trichotomy ds de with hlt | heq | hgt
  · rw [Trend.new_lt hlt] at h
    simp only [Trend.checkTau, decide_eq_true_eq] at h
    have := mulIter_le tau n ds
    omega
  · omega
  · rw [Trend.new_gt hgt] at h
    simp only [Trend.checkTau, decide_eq_true_eq] at h
    omega

theorem checkTau_complete {tau : Nat} (htau : 1 ≤ tau) (mids : List Nat) {ds de : Nat}
    (hleg : Leg tau (ds :: (mids ++ [de]))) (hds : ds ≤ U256_MAX) (hde : de ≤ U256_MAX) :
    (Trend.new ds de).checkTau tau (mids.length + 1) = true := by
  rcases Nat.lt_trichotomy ds de with h | h | h
  · rw [Trend.new_lt h]
    simp only [Trend.checkTau, decide_eq_true_eq]
    rw [mulIter_eq htau _ hds]
    have := Leg_chain_up mids hleg
    omega
  · subst h; rw [Trend.new_self]; rfl
  · rw [Trend.new_gt h]
    simp only [Trend.checkTau, decide_eq_true_eq]
    rw [divIter_eq_div]
    apply Nat.div_le_of_le_mul
    rw [Nat.mul_comm]
    exact Leg_chain_down mids hleg

/-! ## `verifyTotalDifficulty`: the multi-epoch block, inversion, totality -/

/-- the two limit checks at the end of `verify_total_difficulty` -/
def multiBlock (t : Trend) (n k total sd tau un : Nat) : M TdResult := do
  let okMin ← checkLimit t .min n (limitExponents t k).1 total sd tau un
  if !okMin then pure .belowLower else do
  let okMax ← checkLimit t .max n (limitExponents t k).2 total sd tau un
  if !okMax then pure .aboveUpper else pure .ok

theorem multiBlock_eq_ok {t : Trend} {n k total sd tau un : Nat} :
    multiBlock t n k total sd tau un = .ok .ok ↔
      checkLimit t .min n (limitExponents t k).1 total sd tau un = .ok true ∧
      checkLimit t .max n (limitExponents t k).2 total sd tau un = .ok true := by
  unfold multiBlock
  constructor
  · intro h
    simp only [M.bind_eq_ok] at h
    obtain ⟨okMin, hmin, h⟩ := h
    cases okMin
    · cases h
    simp only [Bool.not_true, Bool.false_eq_true, if_false, M.bind_eq_ok] at h
    obtain ⟨okMax, hmax, h⟩ := h
    cases okMax
    · cases h
    exact ⟨hmin, hmax⟩
  · rintro ⟨h1, h2⟩
    rw [h1]
    simp only [bind, Except.bind, Bool.not_true, Bool.false_eq_true, if_false]
    rw [h2]
    rfl

theorem checkLimit_total (t : Trend) (l : Limit) {n k : Nat} (hk : k ≤ n) (hn : 1 ≤ n)
    (actual start tau un : Nat) : ∃ b, checkLimit t l n k actual start tau un = .ok b := by
  obtain ⟨inc, dec, hs, hsum, _⟩ := splitEpochs_ok t l hk
  cases l
  · exact ⟨_, checkLimit_min_eq actual start tau un hs (by omega)⟩
  · exact ⟨_, checkLimit_max_eq actual start tau un hs (by omega)⟩

theorem multiBlock_total {ds de n k tau : Nat} (hn : 1 ≤ n)
    (hk : (Trend.new ds de).tauExponent tau n = some k) (total sd un : Nat) :
    ∃ r, multiBlock (Trend.new ds de) n k total sd tau un = .ok r := by
  obtain ⟨l1, l2⟩ := limitExponents_le hn hk
  obtain ⟨b1, h1⟩ := checkLimit_total (Trend.new ds de) .min l1 hn total sd tau un
  obtain ⟨b2, h2⟩ := checkLimit_total (Trend.new ds de) .max l2 hn total sd tau un
  unfold multiBlock
  rw [h1]
  simp only [bind, Except.bind]
  cases b1
  · exact ⟨_, rfl⟩
  · simp only [Bool.not_true, Bool.false_eq_true, if_false]
    rw [h2]
    cases b2 <;> exact ⟨_, rfl⟩

theorem verify_multi_eq {se ee : Epoch} {sc st ec et tau k : Nat}
    (h1 : st ≤ et) (h2 : se.number < ee.number)
    (h3 : compactToDifficulty sc * se.length ≤ U256_MAX)
    (h4 : compactToDifficulty ec * ee.length ≤ U256_MAX)
    (hk : (Trend.new (compactToDifficulty sc * se.length)
      (compactToDifficulty ec * ee.length)).tauExponent tau (ee.number - se.number) = some k)
    (h6 : se.index < se.length)
    (h7 : compactToDifficulty sc * (se.length - (se.index + 1)) +
      compactToDifficulty ec * (ee.index + 1) ≤ U256_MAX) :
    verifyTotalDifficulty se sc st ee ec et tau =
      if ee.number - se.number = 1 then
        pure (if et - st ≠ compactToDifficulty sc * (se.length - (se.index + 1)) +
          compactToDifficulty ec * (ee.index + 1) then .oneSwitchMismatch else .ok)
      else
        multiBlock (Trend.new (compactToDifficulty sc * se.length)
          (compactToDifficulty ec * ee.length)) (ee.number - se.number) k (et - st)
          (compactToDifficulty sc * se.length) tau
          (compactToDifficulty sc * (se.length - (se.index + 1)) +
            compactToDifficulty ec * (ee.index + 1)) := by
  unfold verifyTotalDifficulty
  rw [if_neg (by omega : ¬ et < st)]
  dsimp only
  rw [if_neg (by omega : ¬ se.number = ee.number), if_neg (by omega), if_neg (by omega),
    if_neg (by omega : ¬ ee.number < se.number), hk]
  dsimp only
  rw [if_neg (by omega : ¬ se.length < se.index + 1)]
  rw [if_neg (by simp only [Bool.or_eq_true, decide_eq_true_eq]; omega)]
  rfl

/-- what an accepting run went through -/
theorem verify_ok_inv {se ee : Epoch} {sc st ec et tau : Nat}
    (h : verifyTotalDifficulty se sc st ee ec et tau = .ok .ok) :
    st ≤ et ∧
    ((se.number = ee.number ∧ se.index ≤ ee.index ∧
        et - st = compactToDifficulty sc * (ee.index - se.index)) ∨
     (se.number < ee.number ∧
      compactToDifficulty sc * se.length ≤ U256_MAX ∧
      compactToDifficulty ec * ee.length ≤ U256_MAX ∧
      se.index < se.length ∧
      compactToDifficulty sc * (se.length - (se.index + 1)) +
        compactToDifficulty ec * (ee.index + 1) ≤ U256_MAX ∧
      ∃ k, (Trend.new (compactToDifficulty sc * se.length)
        (compactToDifficulty ec * ee.length)).tauExponent tau (ee.number - se.number) = some k ∧
        ((ee.number - se.number = 1 ∧
          et - st = compactToDifficulty sc * (se.length - (se.index + 1)) +
            compactToDifficulty ec * (ee.index + 1)) ∨
         (ee.number - se.number ≠ 1 ∧
          multiBlock (Trend.new (compactToDifficulty sc * se.length)
            (compactToDifficulty ec * ee.length)) (ee.number - se.number) k (et - st)
            (compactToDifficulty sc * se.length) tau
            (compactToDifficulty sc * (se.length - (se.index + 1)) +
              compactToDifficulty ec * (ee.index + 1)) = .ok .ok)))) := by
  unfold verifyTotalDifficulty at h
  by_cases h1 : et < st
  · rw [if_pos h1] at h; cases h
  rw [if_neg h1] at h
  dsimp only at h
  refine ⟨by omega, ?_⟩
  by_cases h2 : se.number = ee.number
  · rw [if_pos h2] at h
    left
    by_cases h3 : ee.index < se.index
    · rw [if_pos h3] at h; cases h
    rw [if_neg h3] at h
    by_cases h4 : compactToDifficulty sc * (ee.index - se.index) > U256_MAX
    · rw [if_pos h4] at h; cases h
    rw [if_neg h4] at h
    by_cases h5 : et - st ≠ compactToDifficulty sc * (ee.index - se.index)
    · rw [if_pos h5] at h; cases h
    exact ⟨h2, by omega, by omega⟩
  rw [if_neg h2] at h
  right
  by_cases h3 : compactToDifficulty sc * se.length > U256_MAX
  · rw [if_pos h3] at h; cases h
  rw [if_neg h3] at h
  by_cases h4 : compactToDifficulty ec * ee.length > U256_MAX
  · rw [if_pos h4] at h; cases h
  rw [if_neg h4] at h
  by_cases h5 : ee.number < se.number
  · rw [if_pos h5] at h; cases h
  rw [if_neg h5] at h
  cases hk : (Trend.new (compactToDifficulty sc * se.length)
      (compactToDifficulty ec * ee.length)).tauExponent tau (ee.number - se.number) with
  | none => rw [hk] at h; cases h
  | some k =>
    rw [hk] at h
    dsimp only at h
    by_cases h6 : se.length < se.index + 1
    · rw [if_pos h6] at h; cases h
    rw [if_neg h6] at h
    split at h
    · cases h
    rename_i h7
    simp only [Bool.or_eq_true, decide_eq_true_eq, not_or, Nat.not_lt] at h7
    refine ⟨by omega, by omega, by omega, by omega, h7.2, k, rfl, ?_⟩
    by_cases h8 : ee.number - se.number = 1
    · rw [if_pos h8] at h
      left
      by_cases h9 : et - st ≠ compactToDifficulty sc * (se.length - (se.index + 1)) +
          compactToDifficulty ec * (ee.index + 1)
      · rw [if_pos h9] at h; cases h
      exact ⟨h8, by omega⟩
    rw [if_neg h8] at h
    right
    exact ⟨h8, h⟩

theorem verify_total (se ee : Epoch) (sc st ec et tau : Nat) :
    ∃ r, verifyTotalDifficulty se sc st ee ec et tau = .ok r := by
  by_cases h1 : et < st
  · exact ⟨_, by unfold verifyTotalDifficulty; rw [if_pos h1]; rfl⟩
  by_cases h2 : se.number = ee.number
  · unfold verifyTotalDifficulty
    rw [if_neg h1]; dsimp only; rw [if_pos h2]
    by_cases h3 : ee.index < se.index
    · rw [if_pos h3]; exact ⟨_, rfl⟩
    rw [if_neg h3]
    by_cases h4 : compactToDifficulty sc * (ee.index - se.index) > U256_MAX
    · rw [if_pos h4]; exact ⟨_, rfl⟩
    rw [if_neg h4]; exact ⟨_, rfl⟩
  by_cases h3 : compactToDifficulty sc * se.length > U256_MAX
  · unfold verifyTotalDifficulty
    rw [if_neg h1]; dsimp only; rw [if_neg h2, if_pos h3]; exact ⟨_, rfl⟩
  by_cases h4 : compactToDifficulty ec * ee.length > U256_MAX
  · unfold verifyTotalDifficulty
    rw [if_neg h1]; dsimp only; rw [if_neg h2, if_neg h3, if_pos h4]; exact ⟨_, rfl⟩
  by_cases h5 : ee.number < se.number
  · unfold verifyTotalDifficulty
    rw [if_neg h1]; dsimp only; rw [if_neg h2, if_neg h3, if_neg h4, if_pos h5]; exact ⟨_, rfl⟩
  cases hk : (Trend.new (compactToDifficulty sc * se.length)
      (compactToDifficulty ec * ee.length)).tauExponent tau (ee.number - se.number) with
  | none =>
    unfold verifyTotalDifficulty
    rw [if_neg h1]; dsimp only; rw [if_neg h2, if_neg h3, if_neg h4, if_neg h5, hk]; exact ⟨_, rfl⟩
  | some k =>
    by_cases h6 : se.length < se.index + 1
    · unfold verifyTotalDifficulty
      rw [if_neg h1]; dsimp only; rw [if_neg h2, if_neg h3, if_neg h4, if_neg h5, hk]
      dsimp only; rw [if_pos h6]; exact ⟨_, rfl⟩
    by_cases h7 : compactToDifficulty sc * (se.length - (se.index + 1)) +
        compactToDifficulty ec * (ee.index + 1) ≤ U256_MAX
    · rw [verify_multi_eq (by omega) (by omega) (by omega) (by omega) hk (by omega) h7]
      by_cases h8 : ee.number - se.number = 1
      · rw [if_pos h8]; exact ⟨_, rfl⟩
      · rw [if_neg h8]; exact multiBlock_total (by omega) hk _ _ _
    · unfold verifyTotalDifficulty
      rw [if_neg h1]; dsimp only; rw [if_neg h2, if_neg h3, if_neg h4, if_neg h5, hk]
      dsimp only; rw [if_neg h6]
      rw [if_pos (by simp only [Bool.or_eq_true, decide_eq_true_eq]; omega)]
      exact ⟨_, rfl⟩

/-! ## soundness of the limit checks and of the exponent -/

theorem checkLimit_min_sound {t : Trend} {n kk actual start tau un : Nat} (htau : 1 ≤ tau)
    (hA : actual ≤ U256_MAX) (hs : start ≤ U256_MAX) (hkk : kk ≤ n) (hn : 1 ≤ n)
    (h : checkLimit t .min n kk actual start tau un = .ok true) :
    un ≤ actual ∧ dSum tau (n - 1) start ≤ actual - un := by
  obtain ⟨inc, dec, hsp, hsum, _⟩ := splitEpochs_ok t .min hkk
  rw [checkLimit_min_eq actual start tau un hsp (by omega)] at h
  have h' := minCheck_sound htau hA hs (Except.ok.inj h)
  have e : (if inc = 0 then dec - 1 else dec) + (inc - 1) = n - 1 := by
    by_cases hi : inc = 0
    · rw [if_pos hi]; omega
    · rw [if_neg hi]; omega
  rw [e] at h'
  exact h'

theorem checkLimit_max_sound {t : Trend} {n kk actual start tau un : Nat} (htau : 1 ≤ tau)
    (hA : actual ≤ U256_MAX) (hkk : kk ≤ n) (hn : 1 ≤ n)
    (h : checkLimit t .max n kk actual start tau un = .ok true) :
    actual - un ≤ mSum tau (n - 1) start := by
  obtain ⟨inc, dec, hsp, hsum, _⟩ := splitEpochs_ok t .max hkk
  rw [checkLimit_max_eq actual start tau un hsp (by omega)] at h
  have h' := maxCheck_sound htau hA (Except.ok.inj h)
  have e : (if dec = 0 then inc - 1 else inc) + (dec - 1) = n - 1 := by
    by_cases hi : dec = 0
    · rw [if_pos hi]; omega
    · rw [if_neg hi]; omega
  rw [e] at h'
  exact h'

theorem tauExponent_sound {tau : Nat} (htau : 1 ≤ tau) {ds de n k : Nat}
    (hk : (Trend.new ds de).tauExponent tau n = some k) :
    divIter tau n ds ≤ de ∧ de ≤ ds * tau ^ n := by
  have hp : 0 < tau ^ n := Nat.pow_pos htau
  have h0 : ds ≤ ds * tau ^ n := Nat.le_mul_of_pos_right _ hp
  have h1 := divIter_le_self tau n ds
  rcases tauExponent_cases hk with ⟨h, _, _⟩ | ⟨h, _, hkn, h2, _⟩ | ⟨h, _, hkn, h2, _⟩
  · omega
  · have a1 : de ≤ ds * tau ^ (k + 1) := Nat.le_trans h2 (mulIter_le _ _ _)
    have a2 : ds * tau ^ (k + 1) ≤ ds * tau ^ n :=
      Nat.mul_le_mul_left _ (Nat.pow_le_pow_right htau (by omega))
    omega
  · have a1 : divIter tau n ds ≤ divIter tau (k + 1) ds := divIter_anti ds (by omega)
    omega

end Difficulty

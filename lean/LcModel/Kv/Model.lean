import LcModel.Prelude
/-!
# Kv layer — queries over the ordered byte-keyed index
Model of `build_query_options`, `build_filter_options`, `get_cells`, `get_transactions` (both
modes) and `get_cells_capacity` (`src/service.rs`) over an ordered byte-string store (RocksDB:
`IteratorMode::From(key, Forward)` starts at the first key `≥ key`, `Reverse` at the last key
`≤ key`; reads go through one snapshot).

Bytes are `List Nat` (each `< 256`); the store is a list of entries in strictly increasing key
order (an invariant stated separately, `Kv.StrictSorted`).
-/
namespace Kv

abbrev Bytes := List Nat

/-- lexicographic `<` on byte strings (RocksDB's default comparator) -/
def bytesLt : Bytes → Bytes → Bool
  | [], [] => false
  | [], _ :: _ => true
  | _ :: _, [] => false
  | a :: as, b :: bs => a < b || (a = b && bytesLt as bs)

def startsWith (pre : Bytes) (k : Bytes) : Bool :=
  match pre, k with
  | [], _ => true
  | _ :: _, [] => false
  | p :: ps, x :: xs => p = x && startsWith ps xs

/-- big-endian number of a byte slice -/
def beNat (bs : Bytes) : Nat := bs.foldl (fun acc b => acc * 256 + b) 0

/-- what `get_cells` reads for an entry of a `Cell*Script` keyspace: the key, the transaction
hash stored as value and the referenced output (resolved through the `TxHash` keyspace) -/
structure CellEntry where
  key : Bytes
  txHash : Bytes
  lock : Bytes              -- `extract_raw_data(output.lock())`
  type_ : Option Bytes      -- `extract_raw_data(output.type_())`
  dataLen : Nat
  capacity : Nat
  deriving Repr, DecidableEq

/-- an entry of a `Tx*Script` keyspace -/
structure TxEntry where
  key : Bytes
  txHash : Bytes
  deriving Repr, DecidableEq

inductive Order where | asc | desc deriving Repr, DecidableEq

structure Range where
  lo : Nat
  hi : Nat
  deriving Repr, DecidableEq

/-- `SearchKeyFilter` after `build_filter_options` -/
structure CellFilter where
  script : Option Bytes := none       -- raw data prefix of the *other* script
  scriptLen : Option Range := none    -- closed range
  dataLen : Option Range := none      -- half-open
  capacity : Option Range := none     -- half-open
  block : Option Range := none        -- half-open
  deriving Repr, DecidableEq

def MAX_PREFIX_SEARCH_SIZE : Nat := 65535
/-- bytes after the script in a `Cell*Script` key: block number, tx index, output index -/
def CELL_KEY_SUFFIX_LEN : Nat := 16
/-- … in a `Tx*Script` key: block number, tx index, io index, io type -/
def TX_KEY_SUFFIX_LEN : Nat := 17

/-- a key whose script is shorter than the searched one starts with the prefix only because
its block-number bytes continue it; such entries are skipped -/
def longEnough (pre : Bytes) (suffixLen : Nat) (k : Bytes) : Bool := pre.length + suffixLen ≤ k.length

/-- `build_query_options`: (from_key, skip); `prefix` is `[keyspace byte] ++ raw script` -/
def queryStart (pre : Bytes) (argsLen : Nat) (order : Order) (after : Option Bytes) : Bytes × Nat :=
  match order, after with
  | .asc, none => (pre, 0)
  | .desc, none => (pre ++ List.replicate (MAX_PREFIX_SEARCH_SIZE - argsLen) 255, 0)
  | _, some c => (c, 1)

/-- `IteratorMode::From(from, dir)` -/
def seek {α} (key : α → Bytes) (store : List α) (from_ : Bytes) : Order → List α
  | .asc => store.dropWhile (fun e => bytesLt (key e) from_)
  | .desc => store.reverse.dropWhile (fun e => bytesLt from_ (key e))

/-- iterator `.skip(skip)` then `.take_while(starts_with(prefix))` -/
def scan {α} (key : α → Bytes) (store : List α) (pre : Bytes) (from_ : Bytes) (order : Order)
    (skip : Nat) : List α :=
  ((seek key store from_ order).drop skip).takeWhile (fun e => startsWith pre (key e))

/-- block number / tx index / output index of a `Cell*Script` key (its last 16 bytes) -/
def cellBlockNumber (k : Bytes) : Nat := beNat ((k.drop (k.length - 16)).take 8)
/-- block number of a `Tx*Script` key (bytes `len-17 .. len-9`) -/
def txBlockNumber (k : Bytes) : Nat := beNat ((k.drop (k.length - 17)).take 8)
def txTxIndex (k : Bytes) : Nat := beNat ((k.drop (k.length - 9)).take 4)

def inHalfOpen (r : Option Range) (v : Nat) : Bool :=
  match r with | none => true | some r => r.lo ≤ v && v < r.hi
def inClosed (r : Option Range) (v : Nat) : Bool :=
  match r with | none => true | some r => r.lo ≤ v && v ≤ r.hi

/-- the per-entry filters of `get_cells` / `get_cells_capacity`; `filterOnType` says whether the
filter script is matched against the type script (search by lock) or the lock script -/
def cellPasses (f : CellFilter) (filterOnType : Bool) (e : CellEntry) : Bool :=
  let other : Option Bytes := if filterOnType then e.type_ else some e.lock
  (match f.script with
   | none => true
   | some p => match other with
     | none => false
     | some raw => startsWith p raw) &&
  inClosed f.scriptLen ((other.map List.length).getD 0) &&
  inHalfOpen f.dataLen e.dataLen &&
  inHalfOpen f.capacity e.capacity &&
  inHalfOpen f.block (cellBlockNumber e.key)

structure Page (α : Type) where
  objects : List α
  lastCursor : Bytes

/-- `get_cells` (limit ≥ 1 is checked by the caller) -/
def getCells (store : List CellEntry) (pre : Bytes) (argsLen : Nat) (order : Order) (limit : Nat)
    (after : Option Bytes) (f : CellFilter) (filterOnType : Bool) : Page CellEntry :=
  let (from_, skip) := queryStart pre argsLen order after
  let objs := ((scan (·.key) store pre from_ order skip).filter
    (fun e => longEnough pre CELL_KEY_SUFFIX_LEN e.key && cellPasses f filterOnType e)).take limit
  ⟨objs, (objs.getLast?.map (·.key)).getD []⟩

/-- `get_cells_capacity`: the sum over the whole (ascending, unpaged) scan -/
def getCellsCapacity (store : List CellEntry) (pre : Bytes) (argsLen : Nat) (f : CellFilter)
    (filterOnType : Bool) : Nat :=
  let (from_, skip) := queryStart pre argsLen .asc none
  (((scan (·.key) store pre from_ .asc skip).filter
    (fun e => longEnough pre CELL_KEY_SUFFIX_LEN e.key && cellPasses f filterOnType e)).map (·.capacity)).sum

/-- the filters of `get_transactions`: `hasKey` answers whether the `Tx*Script` key of the filter
script with the same (block, tx index, io index, io type) suffix exists -/
structure TxFilter where
  script : Option Bytes := none      -- `[other keyspace byte] ++ raw filter script`
  block : Option Range := none
  deriving Repr, DecidableEq

def txPasses (allKeys : List Bytes) (f : TxFilter) (e : TxEntry) : Bool :=
  (match f.script with
   | none => true
   | some p => allKeys.contains (p ++ e.key.drop (e.key.length - 17))) &&
  inHalfOpen f.block (txBlockNumber e.key)

/-- `get_transactions`, ungrouped -/
def getTxs (store : List TxEntry) (allKeys : List Bytes) (pre : Bytes) (argsLen : Nat)
    (order : Order) (limit : Nat) (after : Option Bytes) (f : TxFilter) : Page TxEntry :=
  let (from_, skip) := queryStart pre argsLen order after
  let objs := ((scan (·.key) store pre from_ order skip).filter
    (fun e => longEnough pre TX_KEY_SUFFIX_LEN e.key && txPasses allKeys f e)).take limit
  ⟨objs, (objs.getLast?.map (·.key)).getD []⟩

/-- the grouped loop: `groups` are built in reverse (head = current group, each group's entries
in reverse); returns (groups, last_key) -/
def groupLoop (allKeys : List Bytes) (f : TxFilter) (pre : Bytes) (limit : Nat) :
    List TxEntry → List (List TxEntry) → Bytes → List (List TxEntry) × Bytes
  | [], groups, last => (groups, last)
  | e :: rest, groups, last =>
    if !longEnough pre TX_KEY_SUFFIX_LEN e.key then groupLoop allKeys f pre limit rest groups last else
    let sameAsLast : Bool := match groups with
      | (g :: _) :: _ => g.txHash = e.txHash
      | _ => false
    if groups.length = limit && !sameAsLast then (groups, last)
    else
      let last' := e.key
      if !txPasses allKeys f e then groupLoop allKeys f pre limit rest groups last'
      else if sameAsLast then
        match groups with
        | g :: gs => groupLoop allKeys f pre limit rest ((e :: g) :: gs) last'
        | [] => groupLoop allKeys f pre limit rest [[e]] last'
      else groupLoop allKeys f pre limit rest ([e] :: groups) last'

/-- `get_transactions` with `group_by_transaction` -/
def getTxsGrouped (store : List TxEntry) (allKeys : List Bytes) (pre : Bytes) (argsLen : Nat)
    (order : Order) (limit : Nat) (after : Option Bytes) (f : TxFilter) : Page (List TxEntry) :=
  let (from_, skip) := queryStart pre argsLen order after
  let (groups, last) := groupLoop allKeys f pre limit (scan (·.key) store pre from_ order skip) [] []
  ⟨(groups.map List.reverse).reverse, last⟩

/-! ### driver -/

def hexDigit (c : Char) : Option Nat :=
  if '0' ≤ c ∧ c ≤ '9' then some (c.toNat - '0'.toNat)
  else if 'a' ≤ c ∧ c ≤ 'f' then some (c.toNat - 'a'.toNat + 10)
  else none

def hexToBytes (s : String) : Option Bytes :=
  let rec go : List Char → Option Bytes
    | [] => some []
    | a :: b :: rest => do
      let x ← hexDigit a; let y ← hexDigit b; let r ← go rest; pure ((x * 16 + y) :: r)
    | _ => none
  if s = "-" then some [] else go s.toList

def toHexDigit (n : Nat) : Char := if n < 10 then Char.ofNat (48 + n) else Char.ofNat (87 + n)
def bytesToHex (b : Bytes) : String :=
  if b.isEmpty then "-" else String.ofList (b.flatMap (fun x => [toHexDigit (x / 16), toHexDigit (x % 16)]))

structure DriverSt where
  cells : List CellEntry := []
  txs : List TxEntry := []
  deriving Inhabited

def insertBy {α} (key : α → Bytes) (x : α) : List α → List α
  | [] => [x]
  | y :: ys => if bytesLt (key x) (key y) then x :: y :: ys
               else if key x = key y then x :: ys else y :: insertBy key x ys

def optRange (a b : String) : Option (Option Range) :=
  if a = "-" then some none else do
    let lo ← a.toNat?; let hi ← b.toNat?; pure (some ⟨lo, hi⟩)

def optBytes (s : String) : Option (Option Bytes) :=
  if s = "-" then some none else (hexToBytes s).map some

/-- ops:
 `reset`
 `cell key value lock type|- dataLen capacity`
 `tx key value`
 `get_cells pre argsLen order limit after|- fscript|- sl0 sl1 dl0 dl1 c0 c1 b0 b1 filterOnType`
 `capacity  pre argsLen fscript|- sl0 sl1 dl0 dl1 c0 c1 b0 b1 filterOnType`
 `get_txs pre argsLen order limit after|- fscriptWithPrefixByte|- b0 b1 grouped` -/
def step (s : DriverSt) (line : String) : DriverSt × String :=
  match tokens line with
  | ["reset"] => ({}, "ok")
  | ["cell", k, v, lock, ty, dl, cap] =>
    (match hexToBytes k, hexToBytes v, hexToBytes lock, optBytes ty, dl.toNat?, cap.toNat? with
     | some k, some v, some lock, some ty, some dl, some cap =>
       ({ s with cells := insertBy (·.key) ⟨k, v, lock, ty, dl, cap⟩ s.cells }, "ok")
     | _, _, _, _, _, _ => (s, "bad-op"))
  | ["tx", k, v] =>
    (match hexToBytes k, hexToBytes v with
     | some k, some v => ({ s with txs := insertBy (·.key) ⟨k, v⟩ s.txs }, "ok")
     | _, _ => (s, "bad-op"))
  | ["get_cells", pre, al, ord, lim, after, fs, sl0, sl1, dl0, dl1, c0, c1, b0, b1, fot] =>
    (match hexToBytes pre, al.toNat?, ord.toNat?, lim.toNat?, optBytes after, optBytes fs,
           optRange sl0 sl1, optRange dl0 dl1, optRange c0 c1, optRange b0 b1, fot.toNat? with
     | some pre, some al, some ord, some lim, some after, some fs, some sl, some dl, some c, some b, some fot =>
       let p := getCells s.cells pre al (if ord = 1 then .desc else .asc) lim after
                  ⟨fs, sl, dl, c, b⟩ (fot = 1)
       (s, s!"{p.objects.length} {bytesToHex p.lastCursor} | {" ".intercalate (p.objects.map (bytesToHex ·.key))}")
     | _, _, _, _, _, _, _, _, _, _, _ => (s, "bad-op"))
  | ["capacity", pre, al, fs, sl0, sl1, dl0, dl1, c0, c1, b0, b1, fot] =>
    (match hexToBytes pre, al.toNat?, optBytes fs,
           optRange sl0 sl1, optRange dl0 dl1, optRange c0 c1, optRange b0 b1, fot.toNat? with
     | some pre, some al, some fs, some sl, some dl, some c, some b, some fot =>
       (s, toString (getCellsCapacity s.cells pre al ⟨fs, sl, dl, c, b⟩ (fot = 1)))
     | _, _, _, _, _, _, _, _ => (s, "bad-op"))
  | ["get_txs", pre, al, ord, lim, after, fs, b0, b1, grouped] =>
    (match hexToBytes pre, al.toNat?, ord.toNat?, lim.toNat?, optBytes after, optBytes fs,
           optRange b0 b1, grouped.toNat? with
     | some pre, some al, some ord, some lim, some after, some fs, some b, some grouped =>
       let order := if ord = 1 then Order.desc else Order.asc
       let allKeys := s.txs.map (·.key)
       if grouped = 1 then
         let p := getTxsGrouped s.txs allKeys pre al order lim after ⟨fs, b⟩
         (s, s!"{p.objects.length} {bytesToHex p.lastCursor} | {" ".intercalate (p.objects.map (fun g => "[" ++ ",".intercalate (g.map (bytesToHex ·.key)) ++ "]"))}")
       else
         let p := getTxs s.txs allKeys pre al order lim after ⟨fs, b⟩
         (s, s!"{p.objects.length} {bytesToHex p.lastCursor} | {" ".intercalate (p.objects.map (bytesToHex ·.key))}")
     | _, _, _, _, _, _, _, _ => (s, "bad-op"))
  | _ => (s, "bad-op")

end Kv

import LcModel.Kv.Model
/-! helper lemmas for the Kv layer -/
namespace Kv

/-! ### `bytesLt` is a strict total order -/

theorem bytesLt_irrefl (a : Bytes) : bytesLt a a = false := by
  induction a with
  | nil => rfl
  | cons x xs ih => simp [bytesLt, ih]

theorem bytesLt_trans {a b c : Bytes} :
    bytesLt a b = true → bytesLt b c = true → bytesLt a c = true := by
  induction a generalizing b c with
  | nil => cases b <;> cases c <;> simp [bytesLt]
  | cons x xs ih =>
    cases b with
    | nil => simp [bytesLt]
    | cons y ys =>
      cases c with
      | nil => simp [bytesLt]
      | cons z zs =>
        simp only [bytesLt, Bool.or_eq_true, Bool.and_eq_true, decide_eq_true_eq]
        rintro (h1 | ⟨h1, h1'⟩) (h2 | ⟨h2, h2'⟩)
        · left; omega
        · left; omega
        · left; omega
        · right; exact ⟨by omega, ih h1' h2'⟩

theorem bytesLt_total (a b : Bytes) : bytesLt a b = true ∨ a = b ∨ bytesLt b a = true := by
  induction a generalizing b with
  | nil => cases b <;> simp [bytesLt]
  | cons x xs ih =>
    cases b with
    | nil => simp [bytesLt]
    | cons y ys =>
      simp only [bytesLt, Bool.or_eq_true, Bool.and_eq_true, decide_eq_true_eq, List.cons.injEq]
      rcases Nat.lt_trichotomy x y with h | h | h
      · left; left; exact h
      · rcases ih ys with h' | h' | h'
        · left; right; exact ⟨h, h'⟩
        · right; left; exact ⟨h, h'⟩
        · right; right; right; exact ⟨h.symm, h'⟩
      · right; right; left; exact h

theorem bytesLt_asymm {a b : Bytes} (h : bytesLt a b = true) : bytesLt b a = false := by
  cases h' : bytesLt b a with
  | false => rfl
  | true => have := bytesLt_trans h h'; rw [bytesLt_irrefl] at this; cases this

theorem bytesLt_ne {a b : Bytes} (h : bytesLt a b = true) : a ≠ b := by
  rintro rfl; rw [bytesLt_irrefl] at h; cases h

/-- `a ≤ b` (as `¬ b < a`) and `b < c` give `a < c` -/
theorem bytesLt_of_le_of_lt {a b c : Bytes} (h1 : bytesLt b a = false) (h2 : bytesLt b c = true) :
    bytesLt a c = true := by
  rcases bytesLt_total a b with h | h | h
  · exact bytesLt_trans h h2
  · subst h; exact h2
  · rw [h] at h1; cases h1

theorem bytesLt_of_lt_of_le {a b c : Bytes} (h1 : bytesLt a b = true) (h2 : bytesLt c b = false) :
    bytesLt a c = true := by
  rcases bytesLt_total b c with h | h | h
  · exact bytesLt_trans h1 h
  · subst h; exact h1
  · rw [h] at h2; cases h2

/-! ### prefixes -/

theorem startsWith_append (pre rest : Bytes) : startsWith pre (pre ++ rest) = true := by
  induction pre with
  | nil => simp [startsWith]
  | cons p ps ih => simp [startsWith, ih]

theorem startsWith_refl (pre : Bytes) : startsWith pre pre = true := by
  have := startsWith_append pre []; simpa using this

theorem startsWith_iff {pre k : Bytes} : startsWith pre k = true ↔ ∃ rest, k = pre ++ rest := by
  constructor
  · induction pre generalizing k with
    | nil => intro _; exact ⟨k, rfl⟩
    | cons p ps ih =>
      cases k with
      | nil => simp [startsWith]
      | cons x xs =>
        simp only [startsWith, Bool.and_eq_true, decide_eq_true_eq]
        rintro ⟨rfl, h⟩
        obtain ⟨r, rfl⟩ := ih h
        exact ⟨r, rfl⟩
  · rintro ⟨r, rfl⟩; exact startsWith_append pre r

theorem startsWith_length {pre k : Bytes} (h : startsWith pre k = true) : pre.length ≤ k.length := by
  obtain ⟨r, rfl⟩ := startsWith_iff.1 h; simp

/-- a key with the prefix is `≥` the prefix -/
theorem startsWith_not_lt {pre k : Bytes} (h : startsWith pre k = true) : bytesLt k pre = false := by
  induction pre generalizing k with
  | nil => cases k <;> rfl
  | cons p ps ih =>
    cases k with
    | nil => simp [startsWith] at h
    | cons x xs =>
      simp only [startsWith, Bool.and_eq_true, decide_eq_true_eq] at h
      obtain ⟨rfl, h⟩ := h
      simp [bytesLt, ih h]

/-- contiguity: between two keys with the prefix every key has the prefix -/
theorem startsWith_between_strict {pre a b c : Bytes} (hab : bytesLt a b = true)
    (hbc : bytesLt b c = true) (ha : startsWith pre a = true) (hc : startsWith pre c = true) :
    startsWith pre b = true := by
  induction pre generalizing a b c with
  | nil => rfl
  | cons p ps ih =>
    cases a with
    | nil => simp [startsWith] at ha
    | cons x xs =>
      cases c with
      | nil => simp [startsWith] at hc
      | cons z zs =>
        cases b with
        | nil => simp [bytesLt] at hab
        | cons y ys =>
          simp only [startsWith, Bool.and_eq_true, decide_eq_true_eq] at ha hc ⊢
          obtain ⟨rfl, ha⟩ := ha
          obtain ⟨rfl, hc⟩ := hc
          simp only [bytesLt, Bool.or_eq_true, Bool.and_eq_true, decide_eq_true_eq] at hab hbc
          have hy : p = y := by omega
          subst hy
          refine ⟨rfl, ih ?_ ?_ ha hc⟩
          · rcases hab with h | h
            · omega
            · exact h.2
          · rcases hbc with h | h
            · omega
            · exact h.2

/-- contiguity, non-strict: `a ≤ b ≤ c` -/
theorem startsWith_between {pre a b c : Bytes} (hab : bytesLt b a = false)
    (hbc : bytesLt c b = false) (ha : startsWith pre a = true) (hc : startsWith pre c = true) :
    startsWith pre b = true := by
  rcases bytesLt_total a b with h | h | h
  · rcases bytesLt_total b c with h' | h' | h'
    · exact startsWith_between_strict h h' ha hc
    · subst h'; exact hc
    · rw [h'] at hbc; cases hbc
  · subst h; exact ha
  · rw [h] at hab; cases hab

theorem bytesLt_append_left (pre a b : Bytes) : bytesLt (pre ++ a) (pre ++ b) = bytesLt a b := by
  induction pre with
  | nil => rfl
  | cons p ps ih => simp [bytesLt, ih]

theorem replicate_255_not_lt (n : Nat) (rest : Bytes) (hlen : rest.length ≤ n)
    (hb : ∀ b ∈ rest, b < 256) : bytesLt (List.replicate n 255) rest = false := by
  induction rest generalizing n with
  | nil => cases n <;> rfl
  | cons x xs ih =>
    cases n with
    | zero => simp at hlen
    | succ n =>
      have hx : x < 256 := hb x (by simp)
      have := ih n (by simpa using hlen) (fun b hb' => hb b (by simp [hb']))
      simp only [List.replicate_succ, bytesLt, this, Bool.and_false, Bool.or_false,
        decide_eq_false_iff_not]
      omega

/-- every well-formed key with the prefix that fits is `≤` the descending start key -/
theorem descStart_not_lt {pre k : Bytes} {n : Nat} (h : startsWith pre k = true)
    (hlen : k.length ≤ pre.length + n) (hb : ∀ b ∈ k, b < 256) :
    bytesLt (pre ++ List.replicate n 255) k = false := by
  obtain ⟨r, rfl⟩ := startsWith_iff.1 h
  rw [bytesLt_append_left]
  apply replicate_255_not_lt
  · simpa using hlen
  · intro b hb'; exact hb b (by simp [hb'])

/-! ### `takeWhile` / `dropWhile` over ordered lists -/

theorem takeWhile_eq_filter_of_pairwise {α} {R : α → α → Prop} {p : α → Bool} {l : List α}
    (hR : l.Pairwise R) (hp : ∀ a ∈ l, ∀ b ∈ l, R a b → p b = true → p a = true) :
    l.takeWhile p = l.filter p := by
  induction l with
  | nil => rfl
  | cons a l ih =>
    rw [List.pairwise_cons] at hR
    have ih' := ih hR.2 (fun x hx y hy => hp x (by simp [hx]) y (by simp [hy]))
    cases hpa : p a with
    | true => simp [hpa, ih']
    | false =>
      simp only [List.takeWhile_cons, List.filter_cons, hpa]
      symm
      simp only [Bool.false_eq_true, ↓reduceIte, List.filter_eq_nil_iff]
      intro b hb hpb
      have := hp a (by simp) b (by simp [hb]) (hR.1 b hb) hpb
      rw [hpa] at this; cases this

theorem dropWhile_eq_filter_of_pairwise {α} {R : α → α → Prop} {p : α → Bool} {l : List α}
    (hR : l.Pairwise R) (hp : ∀ a ∈ l, ∀ b ∈ l, R a b → p b = true → p a = true) :
    l.dropWhile p = l.filter (fun x => !p x) := by
  induction l with
  | nil => rfl
  | cons a l ih =>
    rw [List.pairwise_cons] at hR
    have ih' := ih hR.2 (fun x hx y hy => hp x (by simp [hx]) y (by simp [hy]))
    cases hpa : p a with
    | true => simp [hpa, ih']
    | false =>
      simp only [List.dropWhile_cons, List.filter_cons, hpa]
      simp only [Bool.false_eq_true, ↓reduceIte, Bool.not_false, List.cons.injEq, true_and]
      symm
      rw [List.filter_eq_self]
      intro b hb
      cases hpb : p b with
      | false => rfl
      | true =>
        have := hp a (by simp) b (by simp [hb]) (hR.1 b hb) hpb
        rw [hpa] at this; cases this

/-! ### the store in iteration order -/

/-- keys of the store strictly increasing -/
def SortedBy {α} (key : α → Bytes) (store : List α) : Prop :=
  store.Pairwise (fun a b => bytesLt (key a) (key b) = true)

/-- `<` in iteration direction -/
def olt : Order → Bytes → Bytes → Bool
  | .asc, a, b => bytesLt a b
  | .desc, a, b => bytesLt b a

/-- the store in iteration direction -/
def dir {α} : Order → List α → List α
  | .asc, l => l
  | .desc, l => l.reverse

theorem dir_length {α} (o : Order) (l : List α) : (dir o l).length = l.length := by
  cases o <;> simp [dir]

theorem mem_dir {α} {o : Order} {l : List α} {x : α} : x ∈ dir o l ↔ x ∈ l := by
  cases o <;> simp [dir]

theorem filter_dir {α} (o : Order) (p : α → Bool) (l : List α) :
    (dir o l).filter p = dir o (l.filter p) := by
  cases o <;> simp [dir, List.filter_reverse]

theorem seek_eq_dir {α} (key : α → Bytes) (store : List α) (c : Bytes) (o : Order) :
    seek key store c o = (dir o store).dropWhile (fun x => olt o (key x) c) := by
  cases o <;> rfl

theorem sorted_dir {α} {key : α → Bytes} {store : List α} (hs : SortedBy key store) (o : Order) :
    (dir o store).Pairwise (fun a b => olt o (key a) (key b) = true) := by
  cases o
  · exact hs
  · simpa [dir, olt, List.pairwise_reverse, SortedBy] using hs

theorem olt_irrefl (o : Order) (a : Bytes) : olt o a a = false := by
  cases o <;> exact bytesLt_irrefl a

theorem olt_trans {o : Order} {a b c : Bytes} (h1 : olt o a b = true) (h2 : olt o b c = true) :
    olt o a c = true := by
  cases o
  · exact bytesLt_trans h1 h2
  · exact bytesLt_trans h2 h1

theorem olt_between {o : Order} {pre a b c : Bytes} (hab : olt o a b = true)
    (hbc : olt o b c = true) (ha : startsWith pre a = true) (hc : startsWith pre c = true) :
    startsWith pre b = true := by
  cases o
  · exact startsWith_between_strict hab hbc ha hc
  · exact startsWith_between_strict hbc hab hc ha

/-! ### scans -/

/-- seeking to the key of a stored entry lands on that entry -/
theorem dropWhile_cursor {α} {key : α → Bytes} {o : Order} {L R : List α} {e : α}
    (hs : (L ++ e :: R).Pairwise (fun a b => olt o (key a) (key b) = true)) :
    (L ++ e :: R).dropWhile (fun x => olt o (key x) (key e)) = e :: R := by
  rw [List.pairwise_append] at hs
  rw [List.dropWhile_append_of_pos]
  · simp [olt_irrefl]
  · intro a ha; exact hs.2.2 a ha e (by simp)

/-- a scan that continues after a returned entry `e` yields the rest of the prefix block -/
theorem scan_cursor {α} {key : α → Bytes} {store : List α} {pre : Bytes} {o : Order}
    (hs : SortedBy key store) {L R : List α} {e : α} (hD : dir o store = L ++ e :: R)
    (he : startsWith pre (key e) = true) :
    scan key store pre (key e) o 1 = R.filter (fun x => startsWith pre (key x)) := by
  have hp := sorted_dir hs o
  rw [hD] at hp
  unfold scan
  rw [seek_eq_dir, hD, dropWhile_cursor hp]
  simp only [List.drop_succ_cons, List.drop_zero]
  rw [List.pairwise_append] at hp
  have hR := hp.2.1
  rw [List.pairwise_cons] at hR
  exact takeWhile_eq_filter_of_pairwise hR.2
    (fun a ha b _ hab hb => olt_between (hR.1 a ha) hab he hb)

/-- ascending scan from the prefix: exactly the entries with the prefix -/
theorem scan_asc_none {α} {key : α → Bytes} {store : List α} {pre : Bytes}
    (hs : SortedBy key store) :
    scan key store pre pre .asc 0 = store.filter (fun x => startsWith pre (key x)) := by
  unfold scan seek
  simp only [List.drop_zero]
  rw [dropWhile_eq_filter_of_pairwise hs (fun a _ b _ hab hb => bytesLt_trans hab hb)]
  rw [takeWhile_eq_filter_of_pairwise (hs.sublist List.filter_sublist)]
  · rw [List.filter_filter]
    apply List.filter_congr
    intro x _
    cases hx : startsWith pre (key x) with
    | false => rfl
    | true => simp [startsWith_not_lt hx]
  · intro a ha b _ hab hb
    simp only [List.mem_filter, Bool.not_eq_eq_eq_not, Bool.not_true] at ha
    exact startsWith_between ha.2 (bytesLt_asymm hab) (startsWith_refl pre) hb

/-- descending scan from a start key that has the prefix and is `≥` every stored key with the
prefix: exactly the entries with the prefix, reversed -/
theorem scan_desc_none {α} {key : α → Bytes} {store : List α} {pre fill : Bytes}
    (hs : SortedBy key store)
    (hfit : ∀ x ∈ store, startsWith pre (key x) = true → bytesLt (pre ++ fill) (key x) = false) :
    scan key store pre (pre ++ fill) .desc 0 =
      (store.filter (fun x => startsWith pre (key x))).reverse := by
  have hp : store.reverse.Pairwise (fun a b => bytesLt (key b) (key a) = true) := by
    rw [List.pairwise_reverse]; exact hs
  unfold scan seek
  simp only [List.drop_zero]
  rw [dropWhile_eq_filter_of_pairwise hp (fun a _ b _ hab hb => bytesLt_trans hb hab)]
  rw [takeWhile_eq_filter_of_pairwise (hp.sublist List.filter_sublist)]
  · rw [List.filter_filter, ← List.filter_reverse]
    apply List.filter_congr
    intro x hx
    cases hq : startsWith pre (key x) with
    | false => rfl
    | true => simp [hfit x (by simpa using hx) hq]
  · intro a ha b _ hab hb
    simp only [List.mem_filter, Bool.not_eq_eq_eq_not, Bool.not_true] at ha
    exact startsWith_between (bytesLt_asymm hab) ha.2 hb (startsWith_append pre fill)

/-! ### paging -/

/-- the objects of a page (`get_cells` / `get_transactions` have this shape) -/
def pageObjs {α} (key : α → Bytes) (store : List α) (pre : Bytes) (argsLen : Nat) (order : Order)
    (limit : Nat) (after : Option Bytes) (P : α → Bool) : List α :=
  ((scan key store pre (queryStart pre argsLen order after).1 order
      (queryStart pre argsLen order after).2).filter P).take limit

/-- following the cursor page by page until an empty page -/
def walk {α} (key : α → Bytes) (store : List α) (pre : Bytes) (argsLen : Nat) (order : Order)
    (limit : Nat) (P : α → Bool) : Nat → Option Bytes → List α
  | 0, _ => []
  | fuel+1, after =>
    let objs := pageObjs key store pre argsLen order limit after P
    if objs.isEmpty then []
    else objs ++ walk key store pre argsLen order limit P fuel (some ((objs.getLast?.map key).getD []))

theorem queryStart_some (pre : Bytes) (argsLen : Nat) (o : Order) (c : Bytes) :
    queryStart pre argsLen o (some c) = (c, 1) := by
  cases o <;> rfl

/-- a non-empty `take` of a `filter` is the filter of an initial segment ending in its last
element -/
theorem take_filter_split {α} (p : α → Bool) (T : List α) (n : Nat)
    (hne : (T.filter p).take n ≠ []) :
    ∃ X e Y, T = X ++ e :: Y ∧ (T.filter p).take n = X.filter p ++ [e] ∧ p e = true := by
  induction T generalizing n with
  | nil => simp at hne
  | cons a T ih =>
    cases hpa : p a with
    | false =>
      simp only [List.filter_cons, hpa] at hne ⊢
      obtain ⟨X, e, Y, h1, h2, h3⟩ := ih n hne
      refine ⟨a :: X, e, Y, by simp [h1], ?_, h3⟩
      simpa [List.filter_cons, hpa] using h2
    | true =>
      cases n with
      | zero => simp at hne
      | succ n =>
        by_cases hrest : (T.filter p).take n = []
        · refine ⟨[], a, T, rfl, ?_, hpa⟩
          simp [hpa, hrest]
        · obtain ⟨X, e, Y, h1, h2, h3⟩ := ih n hrest
          refine ⟨a :: X, e, Y, by simp [h1], ?_, h3⟩
          simp [hpa, h2]

/-- the walk from a state whose scan is the `pre`-filter of a suffix `T` of the (directed) store
returns the matching entries of `T` -/
theorem walk_suffix {α} {key : α → Bytes} {store : List α} {pre : Bytes} {argsLen : Nat}
    {o : Order} {limit : Nat} {P : α → Bool} (hs : SortedBy key store) (hl : 1 ≤ limit) :
    ∀ (fuel : Nat) (L T : List α) (after : Option Bytes), dir o store = L ++ T →
      scan key store pre (queryStart pre argsLen o after).1 o (queryStart pre argsLen o after).2
        = T.filter (fun x => startsWith pre (key x)) →
      T.length + 1 ≤ fuel →
      walk key store pre argsLen o limit P fuel after
        = T.filter (fun x => P x && startsWith pre (key x)) := by
  intro fuel
  induction fuel with
  | zero => intro L T after _ _ h; omega
  | succ fuel ih =>
    intro L T after hD hscan hfuel
    unfold walk
    simp only [pageObjs, hscan, List.filter_filter]
    generalize hF : (fun x => P x && startsWith pre (key x)) = F
    by_cases hne : (T.filter F).take limit = []
    · have : T.filter F = [] := by
        cases hT : T.filter F with
        | nil => rfl
        | cons a t =>
          rw [hT] at hne
          cases limit with
          | zero => omega
          | succ n => simp at hne
      simp [this]
    · obtain ⟨X, e, Y, hT, hpage, hFe⟩ := take_filter_split F T limit hne
      have hQe : startsWith pre (key e) = true := by
        rw [← hF] at hFe; simp only [Bool.and_eq_true] at hFe; exact hFe.2
      have hlast : (((T.filter F).take limit).getLast?.map key).getD [] = key e := by
        rw [hpage]; simp
      have hne' : ((T.filter F).take limit).isEmpty = false := by
        cases h : (T.filter F).take limit with
        | nil => exact absurd h hne
        | cons _ _ => rfl
      simp only [hne', Bool.false_eq_true, ↓reduceIte, hlast]
      have hD' : dir o store = (L ++ X) ++ e :: Y := by rw [hD, hT]; simp
      have := ih (L ++ X ++ [e]) Y (some (key e)) (by rw [hD']; simp)
        (by rw [queryStart_some]; exact scan_cursor hs hD' hQe)
        (by rw [hT] at hfuel; simp at hfuel; omega)
      rw [this, hF, hpage]
      conv => rhs; rw [hT]
      simp [List.filter_append, hFe]

theorem walk_asc {α} {key : α → Bytes} {store : List α} {pre : Bytes} {argsLen : Nat}
    {limit : Nat} {P : α → Bool} {fuel : Nat} (hs : SortedBy key store) (hl : 1 ≤ limit)
    (hfuel : store.length + 1 ≤ fuel) :
    walk key store pre argsLen .asc limit P fuel none
      = store.filter (fun x => P x && startsWith pre (key x)) :=
  walk_suffix (o := .asc) hs hl fuel [] store none rfl (scan_asc_none hs) hfuel

theorem walk_desc {α} {key : α → Bytes} {store : List α} {pre : Bytes} {argsLen : Nat}
    {limit : Nat} {P : α → Bool} {fuel : Nat} (hs : SortedBy key store) (hl : 1 ≤ limit)
    (hfuel : store.length + 1 ≤ fuel)
    (hfit : ∀ x ∈ store, startsWith pre (key x) = true →
      bytesLt (pre ++ List.replicate (MAX_PREFIX_SEARCH_SIZE - argsLen) 255) (key x) = false) :
    walk key store pre argsLen .desc limit P fuel none
      = (store.filter (fun x => P x && startsWith pre (key x))).reverse := by
  rw [← List.filter_reverse]
  refine walk_suffix (o := .desc) hs hl fuel [] store.reverse none rfl ?_ (by simpa using hfuel)
  rw [List.filter_reverse]
  exact scan_desc_none hs hfit

/-! ### prefix search against the script -/

theorem startsWith_append_right {want script : Bytes} (suffix : Bytes)
    (h : want.length ≤ script.length) :
    startsWith want (script ++ suffix) = startsWith want script := by
  induction want generalizing script with
  | nil => simp [startsWith]
  | cons w ws ih =>
    cases script with
    | nil => simp at h
    | cons x xs =>
      have := ih (script := xs) (by simpa using h)
      simp [startsWith, this]

/-! ### the grouping loop -/

/-- the loop's `same_as_last` test -/
def sameHead (groups : List (List TxEntry)) (e : TxEntry) : Bool :=
  match groups with
  | (g :: _) :: _ => g.txHash = e.txHash
  | _ => false

/-- append to the current group -/
def pushSame (e : TxEntry) (groups : List (List TxEntry)) : List (List TxEntry) :=
  match groups with
  | g :: gs => (e :: g) :: gs
  | [] => [[e]]

theorem groupLoop_cons (allKeys : List Bytes) (f : TxFilter) (pre : Bytes) (limit : Nat)
    (e : TxEntry) (rest : List TxEntry) (groups : List (List TxEntry)) (last : Bytes) :
    groupLoop allKeys f pre limit (e :: rest) groups last =
      if !longEnough pre TX_KEY_SUFFIX_LEN e.key then groupLoop allKeys f pre limit rest groups last
      else if groups.length = limit && !sameHead groups e then (groups, last)
      else if !txPasses allKeys f e then groupLoop allKeys f pre limit rest groups e.key
      else if sameHead groups e then groupLoop allKeys f pre limit rest (pushSame e groups) e.key
      else groupLoop allKeys f pre limit rest ([e] :: groups) e.key := by
  rw [groupLoop.eq_def]
  rcases groups with _ | ⟨_ | ⟨g, t⟩, gs⟩ <;> rfl

theorem sameHead_true {groups : List (List TxEntry)} {e : TxEntry} (h : sameHead groups e = true) :
    ∃ g0 g' gs, groups = (g0 :: g') :: gs ∧ g0.txHash = e.txHash := by
  match groups, h with
  | (g0 :: g') :: gs, h => exact ⟨g0, g', gs, rfl, by simpa [sameHead] using h⟩

/-- the page's objects as a flat list -/
def flat (groups : List (List TxEntry)) : List TxEntry :=
  ((groups.map List.reverse).reverse).flatten

def GroupsOk (groups : List (List TxEntry)) : Prop :=
  ∀ g ∈ groups, g ≠ [] ∧ ∀ a ∈ g, ∀ b ∈ g, a.txHash = b.txHash

theorem flat_new (e : TxEntry) (groups : List (List TxEntry)) :
    flat ([e] :: groups) = flat groups ++ [e] := by
  simp [flat]

theorem flat_same (e : TxEntry) (g : List TxEntry) (gs : List (List TxEntry)) :
    flat ((e :: g) :: gs) = flat (g :: gs) ++ [e] := by
  simp [flat]

/-- what the loop's result `out` has to satisfy, started at `groups` over the list `l` -/
def GroupRes (P : TxEntry → Bool) (limit : Nat) (l : List TxEntry)
    (groups out : List (List TxEntry)) : Prop :=
  out.length ≤ limit ∧ GroupsOk out ∧
    ∃ X, flat out = flat groups ++ X ∧ X <+: l.filter P ∧ (out.length < limit → X = l.filter P)

theorem groupRes_skip {P : TxEntry → Bool} {limit : Nat} {e : TxEntry} {rest : List TxEntry}
    {groups out : List (List TxEntry)} (he : P e = false) (h : GroupRes P limit rest groups out) :
    GroupRes P limit (e :: rest) groups out := by
  simpa [GroupRes, List.filter_cons, he] using h

theorem groupRes_push {P : TxEntry → Bool} {limit : Nat} {e : TxEntry} {rest : List TxEntry}
    {groups groups' out : List (List TxEntry)} (he : P e = true)
    (hflat : flat groups' = flat groups ++ [e]) (h : GroupRes P limit rest groups' out) :
    GroupRes P limit (e :: rest) groups out := by
  obtain ⟨h1, h2, X, h3, h4, h5⟩ := h
  refine ⟨h1, h2, e :: X, ?_, ?_, ?_⟩
  · rw [h3, hflat]; simp
  · simp only [List.filter_cons, he, ↓reduceIte]
    exact (List.prefix_cons_inj e).2 h4
  · intro hlt; simp only [List.filter_cons, he, ↓reduceIte]; rw [h5 hlt]

theorem groupLoop_inv (allKeys : List Bytes) (f : TxFilter) (pre : Bytes) (limit : Nat)
    (l : List TxEntry) : ∀ (groups : List (List TxEntry)) (last : Bytes),
    groups.length ≤ limit → GroupsOk groups →
    GroupRes (fun e => longEnough pre TX_KEY_SUFFIX_LEN e.key && txPasses allKeys f e) limit l
      groups (groupLoop allKeys f pre limit l groups last).1 := by
  induction l with
  | nil =>
    intro groups last hlen hok
    rw [groupLoop]
    exact ⟨hlen, hok, [], by simp, by simp, fun _ => by simp⟩
  | cons e rest ih =>
    intro groups last hlen hok
    rw [groupLoop_cons]
    cases hle : longEnough pre TX_KEY_SUFFIX_LEN e.key with
    | false => exact groupRes_skip (by simp [hle]) (by simpa using ih groups last hlen hok)
    | true =>
      simp only [Bool.not_true, Bool.false_eq_true, ↓reduceIte]
      cases hsame : sameHead groups e with
      | false =>
        simp only [Bool.not_false, Bool.and_true, decide_eq_true_eq, Bool.false_eq_true, ↓reduceIte]
        by_cases hfull : groups.length = limit
        · simp only [hfull, ↓reduceIte]
          exact ⟨by omega, hok, [], by simp, List.nil_prefix, fun h => by omega⟩
        · simp only [hfull, ↓reduceIte]
          cases htp : txPasses allKeys f e with
          | false => exact groupRes_skip (by simp [htp]) (by simpa using ih groups _ hlen hok)
          | true =>
            simp only [Bool.not_true, Bool.false_eq_true, ↓reduceIte]
            refine groupRes_push (by simp [hle, htp]) (flat_new e groups)
              (ih ([e] :: groups) _ (by simp; omega) ?_)
            intro g hg
            rcases List.mem_cons.1 hg with rfl | hg
            · refine ⟨by simp, ?_⟩
              intro a ha b hb
              simp only [List.mem_singleton] at ha hb
              rw [ha, hb]
            · exact hok g hg
      | true =>
        simp only [Bool.not_true, Bool.and_false, Bool.false_eq_true, ↓reduceIte]
        cases htp : txPasses allKeys f e with
        | false => exact groupRes_skip (by simp [htp]) (by simpa using ih groups _ hlen hok)
        | true =>
          simp only [Bool.not_true, Bool.false_eq_true, ↓reduceIte]
          obtain ⟨g0, g', gs, rfl, hh⟩ := sameHead_true hsame
          refine groupRes_push (by simp [hle, htp]) (flat_same e (g0 :: g') gs)
            (ih _ _ (by simpa [pushSame] using hlen) ?_)
          intro g hg
          rcases List.mem_cons.1 hg with rfl | hg
          · refine ⟨by simp, ?_⟩
            have hg0 := (hok (g0 :: g') (by simp)).2
            have key : ∀ a ∈ e :: g0 :: g', a.txHash = e.txHash := by
              intro a ha
              rcases List.mem_cons.1 ha with rfl | ha
              · rfl
              · rw [← hh]; exact hg0 a ha g0 (by simp)
            intro a ha b hb
            rw [key a ha, key b hb]
          · exact hok g (by simp [hg])

end Kv

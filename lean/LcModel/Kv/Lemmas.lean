import LcModel.Kv.Model
/-! helper lemmas for the Kv layer -/
namespace Kv
end Kv

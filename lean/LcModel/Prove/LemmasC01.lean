import LcModel.Prove.Defs
namespace Prove
open Difficulty

/-! ### peer-state transitions and the proved state -/
namespace PeerState

theorem receiveLastState_proveState {s s' : PeerState} {n : LastState}
    (h : s.receiveLastState n = .ok s') : s'.proveState? = s.proveState? := by
  cases s <;> simp [receiveLastState] at h <;> subst h <;> rfl

theorem receiveLastState_proveRequest {s s' : PeerState} {n : LastState}
    (h : s.receiveLastState n = .ok s') : s'.proveRequest? = s.proveRequest? := by
  cases s <;> simp [receiveLastState] at h <;> subst h <;> rfl

theorem receiveLastState_lastState {s s' : PeerState} {n : LastState}
    (h : s.receiveLastState n = .ok s') : s'.lastState? = some n := by
  cases s <;> simp [receiveLastState] at h <;> subst h <;> rfl

theorem requestLastStateProof_proveState {s s' : PeerState} {r : ProveRequest} {now : Nat}
    (h : s.requestLastStateProof r now = .ok s') : s'.proveState? = s.proveState? := by
  cases s <;> simp [requestLastStateProof] at h <;> subst h <;> rfl

theorem receiveLastStateProof_proveState {s s' : PeerState} {ps : ProveState}
    (h : s.receiveLastStateProof ps = .ok s') : s'.proveState? = some ps := by
  cases s <;> simp [receiveLastStateProof] at h <;> subst h <;> rfl

theorem receiveLastStateProof_ok_of_request {s : PeerState} {r : ProveRequest} (ps : ProveState)
    (h : s.proveRequest? = some r) : ∃ s', s.receiveLastStateProof ps = .ok s' := by
  cases s <;> simp [proveRequest?] at h <;> exact ⟨_, rfl⟩

theorem requestLastStateProof_ok_of_request {s : PeerState} {r : ProveRequest} (r' : ProveRequest)
    (now : Nat) (h : s.proveRequest? = some r) : ∃ s', s.requestLastStateProof r' now = .ok s' := by
  cases s <;> simp [proveRequest?] at h <;> exact ⟨_, rfl⟩

end PeerState

/-! ### `getPeer` / `setPeer` / `Trusted` -/

theorem setPeer_ids (s : St) (p : Nat) (x : PeerState) :
    (setPeer s p x).peers.map (·.1) = s.peers.map (·.1) := by
  simp only [setPeer, List.map_map]
  apply List.map_congr_left
  intro e _
  by_cases he : e.1 = p <;> simp [he]

@[simp] theorem setPeer_stored (s : St) (p : Nat) (x : PeerState) :
    (setPeer s p x).stored = s.stored := rfl

@[simp] theorem setPeer_lastNBlocks (s : St) (p : Nat) (x : PeerState) :
    (setPeer s p x).lastNBlocks = s.lastNBlocks := rfl

theorem getPeer_setPeer_self {s : St} {p : Nat} {pst : PeerState} (x : PeerState)
    (h : getPeer s p = some pst) : getPeer (setPeer s p x) p = some x := by
  have key : ∀ l : List (Nat × PeerState), (l.find? (·.1 = p)).map (·.2) = some pst →
      ((l.map (fun e => if e.1 = p then (p, x) else e)).find? (·.1 = p)).map (·.2) = some x := by
    intro l
    induction l with
    | nil => simp
    | cons e t ih =>
      intro h
      by_cases he : e.1 = p
      · simp [he]
      · simp only [List.map_cons, he, if_false, List.find?, decide_false] at h ⊢
        exact ih h
  exact key _ h

theorem getPeer_mem {s : St} {p : Nat} {pst : PeerState} (h : getPeer s p = some pst) :
    (p, pst) ∈ s.peers := by
  unfold getPeer at h
  cases hf : s.peers.find? (·.1 = p) with
  | none => simp [hf] at h
  | some e =>
    simp only [hf, Option.map_some, Option.some.injEq] at h
    have h1 := List.find?_some hf
    have h2 := List.mem_of_find?_eq_some hf
    simp only [decide_eq_true_eq] at h1
    cases e; simp_all

theorem getPeer_of_mem_nodup {s : St} {e : Nat × PeerState} (hnd : (s.peers.map (·.1)).Nodup)
    (he : e ∈ s.peers) : getPeer s e.1 = some e.2 := by
  have key : ∀ l : List (Nat × PeerState), (l.map (·.1)).Nodup → e ∈ l →
      (l.find? (·.1 = e.1)).map (·.2) = some e.2 := by
    intro l
    induction l with
    | nil => simp
    | cons a t ih =>
      intro hnd he
      simp only [List.map_cons, List.nodup_cons] at hnd
      rcases List.mem_cons.1 he with rfl | het
      · simp [List.find?]
      · have hne : a.1 ≠ e.1 := by
          intro heq; apply hnd.1; rw [heq]; exact List.mem_map_of_mem het
        simp only [List.find?, hne, decide_false]
        exact ih hnd.2 het
  exact key _ hnd he

/-- replacing a peer's state by one with the same proved state does not change the trusted view
(peer ids are unique) -/
theorem Trusted_setPeer {s : St} {p : Nat} {pst pst' : PeerState}
    (hnd : (s.peers.map (·.1)).Nodup) (hp : getPeer s p = some pst)
    (hps : pst'.proveState? = pst.proveState?) : Trusted (setPeer s p pst') = Trusted s := by
  unfold Trusted setPeer
  simp only [List.map_map, Prod.mk.injEq, true_and]
  apply List.map_congr_left
  intro e he
  by_cases hep : e.1 = p
  · have := getPeer_of_mem_nodup hnd he
    rw [hep, hp] at this
    simp at this
    simp [hep, hps, this]
  · simp [hep]

theorem trustedOf_setPeer_self {s : St} {p : Nat} {pst : PeerState} (x : PeerState)
    (h : getPeer s p = some pst) : trustedOf (setPeer s p x) p = x.proveState? := by
  simp [trustedOf, getPeer_setPeer_self x h]


/-! ### `findProved`, `getLastStateProof` -/

theorem findProved_some {s : St} {hd : VH} {ps : ProveState} (h : findProved s hd = some ps) :
    ∃ e ∈ s.peers, e.2.proveState? = some ps ∧ ps.last.vid = hd.vid := by
  unfold findProved at h
  obtain ⟨e, he, hf⟩ := List.exists_of_findSome?_eq_some h
  refine ⟨e, he, ?_⟩
  split at hf
  · rename_i ps' hps'
    split at hf
    · simp only [Option.some.injEq] at hf; subst hf; exact ⟨hps', by assumption⟩
    · simp at hf
  · simp at hf

theorem getLastStateProof_inv {s : St} {p now b : Nat} {ds : List Nat} {s2 : St} {sent : List Sent}
    (h : getLastStateProof s p now b ds = .ok (.ok (s2, sent))) :
    ∃ pst, getPeer s p = some pst ∧
      (s2 = s ∨
       (∃ r pst', pst.requestLastStateProof r now = .ok pst' ∧ s2 = setPeer s p pst') ∨
       (∃ ls ps pst', pst.lastState? = some ls ∧ findProved s ls.h = some ps ∧
          pst.receiveLastStateProof ps = .ok pst' ∧ s2 = setPeer s p pst')) := by
  unfold getLastStateProof at h
  split at h
  · simp at h
  · rename_i pst hp
    refine ⟨pst, hp, ?_⟩
    split at h
    · simp [pure, Except.pure] at h; exact .inl h.1.symm
    · rename_i ls hls
      simp only [] at h
      split at h
      · simp only [M.pure_eq_ok, Except.ok.injEq, Prod.mk.injEq] at h; exact .inl h.1.symm
      split at h
      · simp only [M.pure_eq_ok, Except.ok.injEq, Prod.mk.injEq] at h; exact .inl h.1.symm
      split at h
      · rename_i ps hfp
        split at h
        · rename_i pst' hrcv
          simp only [M.pure_eq_ok, Except.ok.injEq, Prod.mk.injEq] at h
          exact .inr (.inr ⟨ls, ps, pst', hls, hfp, hrcv, h.1.symm⟩)
        · simp at h
      · simp only [M.bind_eq_ok] at h
        obtain ⟨lastTd, -, oc, -, h⟩ := h
        split at h
        · simp only [M.pure_eq_ok, Except.ok.injEq, Prod.mk.injEq] at h; exact .inl h.1.symm
        · split at h
          · rename_i pst' hrq
            simp only [M.pure_eq_ok, Except.ok.injEq, Prod.mk.injEq] at h
            exact .inr (.inl ⟨_, pst', hrq, h.1.symm⟩)
          · simp at h


theorem getLastStateProof_err {s : St} {p now b : Nat} {ds : List Nat} {c : Nat}
    (h : getLastStateProof s p now b ds = .ok (.error c)) :
    ∃ pst, getPeer s p = some pst ∧
      ((∃ ps, pst.receiveLastStateProof ps = .error c) ∨
       (∃ r, pst.requestLastStateProof r now = .error c)) := by
  unfold getLastStateProof at h
  split at h
  · simp at h
  · rename_i pst hp
    refine ⟨pst, hp, ?_⟩
    split at h
    · simp at h
    · simp only [] at h
      split at h
      · simp at h
      split at h
      · simp at h
      split at h
      · rename_i ps hfp
        split at h
        · simp at h
        · rename_i c' hrcv
          simp only [M.pure_eq_ok, Except.error.injEq] at h
          subst h
          exact .inl ⟨ps, hrcv⟩
      · simp only [M.bind_eq_ok] at h
        obtain ⟨lastTd, -, oc, -, h⟩ := h
        split at h
        · simp at h
        · split at h
          · simp at h
          · rename_i c' hrq
            simp only [M.pure_eq_ok, Except.error.injEq] at h
            subst h
            exact .inr ⟨_, hrq⟩

/-! ### `commitProveState` -/

theorem getPeer_congr {s s0 : St} (h : s0.peers = s.peers) (p : Nat) : getPeer s0 p = getPeer s p := by
  unfold getPeer; rw [h]

theorem commitProveState_inv {s : St} {p : Nat} {nps : ProveState} {s1 : St} {b : Bool}
    (h : commitProveState s p nps = .ok (.ok (s1, b))) :
    (b = false ∧ s1 = s) ∨
    (b = true ∧ ∃ s0, s0.peers = s.peers ∧
      ((getPeer s p = none ∧ s1 = s0) ∨
       ∃ pst pst', getPeer s p = some pst ∧ pst.receiveLastStateProof nps = .ok pst' ∧
         s1 = setPeer s0 p pst')) := by
  have tail : ∀ s0 : St, s0.peers = s.peers →
      (match getPeer s0 p with
        | none => (pure (Except.ok (s0, true)) : M (Except Nat (St × Bool)))
        | some pst =>
          match pst.receiveLastStateProof nps with
          | Except.ok pst' => pure (Except.ok (setPeer s0 p pst', true))
          | Except.error c => pure (Except.error c)) = .ok (.ok (s1, b)) →
      (b = true ∧ ∃ s0, s0.peers = s.peers ∧
      ((getPeer s p = none ∧ s1 = s0) ∨
       ∃ pst pst', getPeer s p = some pst ∧ pst.receiveLastStateProof nps = .ok pst' ∧
         s1 = setPeer s0 p pst')) := by
    intro s0 hs0 h
    rw [getPeer_congr hs0] at h
    split at h
    · rename_i hp
      simp only [M.pure_eq_ok, Except.ok.injEq, Prod.mk.injEq] at h
      exact ⟨h.2.symm, s0, hs0, .inl ⟨hp, h.1.symm⟩⟩
    · rename_i pst hp
      split at h
      · rename_i pst' hr
        simp only [M.pure_eq_ok, Except.ok.injEq, Prod.mk.injEq] at h
        exact ⟨h.2.symm, s0, hs0, .inr ⟨pst, pst', hp, hr, h.1.symm⟩⟩
      · simp at h
  unfold commitProveState at h
  simp only [M.bind_eq_ok] at h
  obtain ⟨newTd, -, h⟩ := h
  split at h
  · split at h
    · split at h
      · exact .inr (tail _ (by rfl) h)
      · exact .inr (tail _ (by rfl) h)
    · exact .inr (tail _ (by rfl) h)
    · simp only [M.pure_eq_ok, Except.ok.injEq, Prod.mk.injEq] at h
      exact .inl ⟨h.2.symm, h.1.symm⟩
  · exact .inr (tail _ (by rfl) h)

theorem getLastStateProof_ne_err {s : St} {p now b : Nat} {ds : List Nat} {c : Nat} {pst : PeerState}
    {req : ProveRequest} (hp : getPeer s p = some pst) (hr : pst.proveRequest? = some req) :
    getLastStateProof s p now b ds ≠ .ok (.error c) := by
  intro herr
  obtain ⟨pst', hp', hcase⟩ := getLastStateProof_err herr
  rw [hp] at hp'
  simp only [Option.some.injEq] at hp'
  subst hp'
  rcases hcase with ⟨ps, he⟩ | ⟨rq, he⟩
  · obtain ⟨x, hx⟩ := PeerState.receiveLastStateProof_ok_of_request ps hr
    rw [hx] at he; cases he
  · obtain ⟨x, hx⟩ := PeerState.requestLastStateProof_ok_of_request rq now hr
    rw [hx] at he; cases he

theorem getLastStateProof_ids {s : St} {p now b : Nat} {ds : List Nat} {s2 : St} {sent : List Sent}
    (h : getLastStateProof s p now b ds = .ok (.ok (s2, sent))) :
    s2.peers.map (·.1) = s.peers.map (·.1) := by
  obtain ⟨pst, -, h1 | ⟨_, _, _, h1⟩ | ⟨_, _, _, _, _, _, h1⟩⟩ := getLastStateProof_inv h
  · rw [h1]
  · rw [h1, setPeer_ids]
  · rw [h1, setPeer_ids]

theorem commitProveState_ids {s : St} {p : Nat} {nps : ProveState} {s1 : St} {b : Bool}
    (h : commitProveState s p nps = .ok (.ok (s1, b))) :
    s1.peers.map (·.1) = s.peers.map (·.1) := by
  rcases commitProveState_inv h with ⟨-, h1⟩ | ⟨-, s0, hs0, ⟨-, h1⟩ | ⟨_, _, _, _, h1⟩⟩
  · rw [h1]
  · rw [h1, hs0]
  · rw [h1, setPeer_ids, hs0]

/-! ### `onProof` in blocks -/

/-- final block of `onProof`: tau recheck or assemble + commit -/
def proofFinish (s : St) (p : Nat) (pst : PeerState) (req : ProveRequest) (m : ProofMsg) (now : Nat)
    (boundary : Nat) (samples : List Nat) (boundaryG : Nat) (samplesG : List Nat)
    (reorg sampled lastNCount : Nat) (tauFailed : Bool) : M Out := do
          if tauFailed then
            let lastTd ← m.last.td
            match ← buildContent s pst.proveState? m.last lastTd boundary samples with
            | some content =>
              match pst.requestLastStateProof ⟨m.last, content, true, false⟩ now with
              | .ok pst' => return ⟨setPeer s p pst', .recheck, [.getLastStateProof p content]⟩
              | .error c => return ⟨s, .ban c, []⟩
            | none => return ⟨s, .ok, []⟩
          else
            match ← assembleLastHeaders s.lastNBlocks pst m.headers reorg sampled lastNCount with
            | none => return ⟨s, .ban 452, []⟩
            | some lastHeaders =>
              let nps : ProveState := ⟨req.last, m.headers.take reorg, lastHeaders⟩
              if req.longFork then .error (.deliberate 70)
              match ← commitProveState s p nps with
              | .error c => return ⟨s, .ban c, []⟩
              | .ok (s1, true) => return ⟨s1, .ok, []⟩
              | .ok (s1, false) =>
                -- long fork: ask again from genesis
                let lastTd ← nps.last.td
                match buildContentFromGenesis s nps.last lastTd boundaryG samplesG with
                | none => return ⟨s1, .ok, []⟩
                | some content =>
                  match pst.requestLastStateProof ⟨nps.last, content, false, true⟩ now with
                  | .ok pst' => return ⟨setPeer s1 p pst', .recheck, [.getLastStateProof p content]⟩
                  | .error c => return ⟨s1, .ban c, []⟩

def proofTd (s : St) (p : Nat) (pst : PeerState) (req : ProveRequest) (m : ProofMsg) (now : Nat)
    (boundary : Nat) (samples : List Nat) (boundaryG : Nat) (samplesG : List Nat)
    (reorg sampled lastNCount : Nat) (tauFailed : Bool) : M Out := do
          if !m.last.root then return ⟨s, .ban 439, []⟩
          if !(mmrStructOk m.last m.headers && m.mmrOk) then return ⟨s, .ban 439, []⟩
          -- total difficulty against the previous proof
          if sampled ≠ 0 then
            if let some ps := pst.proveState? then
              let t0 ← ps.last.td
              let t1 ← m.last.td
              match ← verifyTotalDifficulty ps.last.epoch ps.last.compact t0
                      m.last.epoch m.last.compact t1 s.tau with
              | .ok => pure ()
              | _ => return ⟨s, .ban 434, []⟩
          proofFinish s p pst req m now boundary samples boundaryG samplesG reorg sampled lastNCount tauFailed

def proofCont (s : St) (p : Nat) (pst : PeerState) (req : ProveRequest) (m : ProofMsg) (now : Nat)
    (boundary : Nat) (samples : List Nat) (boundaryG : Nat) (samplesG : List Nat)
    (reorg sampled lastNCount : Nat) (tauFailed : Bool) : M Out := do
          if reorg ≠ 0 then
            if let some c ← checkContinuous (m.headers.take reorg) then return ⟨s, .ban c, []⟩
          if let some c ← checkContinuous (m.headers.drop (reorg + sampled)) then
            return ⟨s, .ban c, []⟩
          proofTd s p pst req m now boundary samples boundaryG samplesG reorg sampled lastNCount tauFailed

/-- the TAU start index is `reorg` or, when `reorg` is before the end index, `reorg + 1` -/
theorem tauStartIdx_cases (headers : List VH) (reorg endIdx : Nat) :
    tauStartIdx headers reorg endIdx = reorg ∨
      (reorg < endIdx ∧ tauStartIdx headers reorg endIdx = reorg + 1) := by
  unfold tauStartIdx
  split
  · split
    · rename_i hc
      simp only [Bool.and_eq_true, decide_eq_true_eq] at hc
      exact .inr ⟨hc.2, rfl⟩
    · exact .inl rfl
  · exact .inl rfl

/-- the TAU start index stays inside `[reorg, max reorg endIdx]` -/
theorem tauStartIdx_lt {headers : List VH} {reorg endIdx n : Nat} (hr : reorg < n)
    (he : endIdx < n) : tauStartIdx headers reorg endIdx < n := by
  rcases tauStartIdx_cases headers reorg endIdx with h | ⟨h1, h⟩ <;> omega

def proofChecks (s : St) (p : Nat) (pst : PeerState) (req : ProveRequest) (m : ProofMsg) (now : Nat)
    (boundary : Nat) (samples : List Nat) (boundaryG : Nat) (samplesG : List Nat)
    (reorg sampled lastNCount : Nat) : M Out := do
          if !m.headers.all (·.root) then return ⟨s, .ban 431, []⟩
          if !m.headers.all (·.pow) then return ⟨s, .ban 432, []⟩
          -- tau
          let tauFailed ← (if req.skipTau then pure false
            else if sampled ≠ 0 then
              match m.headers[tauStartIdx m.headers reorg (reorg + sampled + lastNCount - 1)]?,
                  m.headers[reorg + sampled + lastNCount - 1]? with
              | some sh, some eh =>
                match verifyTau sh.epoch sh.compact eh.epoch eh.compact s.tau with
                | .pass => pure false
                | .fail => pure true
                | .invalidCompactTarget => pure true   -- handled below (ban 433)
              | _, _ => .error (.index 69)
            else pure false : M Bool)
          if !req.skipTau && sampled ≠ 0 then
            match m.headers[tauStartIdx m.headers reorg (reorg + sampled + lastNCount - 1)]?,
                  m.headers[reorg + sampled + lastNCount - 1]? with
            | some sh, some eh =>
              if verifyTau sh.epoch sh.compact eh.epoch eh.compact s.tau = .invalidCompactTarget then
                return ⟨s, .ban 433, []⟩
            | _, _ => pure ()
          proofCont s p pst req m now boundary samples boundaryG samplesG reorg sampled lastNCount tauFailed

theorem onProof_eq (s : St) (p : Nat) (m : ProofMsg) (now : Nat) (boundary : Nat) (samples : List Nat)
    (boundaryG : Nat) (samplesG : List Nat) :
  onProof s p m now boundary samples boundaryG samplesG = (do
  match getPeer s p with
  | none => return ⟨s, .ban 411, []⟩
  | some pst =>
    match pst.proveRequest? with
    | none => return ⟨s, .ok, []⟩
    | some req =>
      if !m.last.tdOk then return ⟨s, .ban 434, []⟩
      if req.last.vid ≠ m.last.vid then
        if m.proofEmpty then
          -- `process_last_state` + `get_last_state_proof`
          if let some c := checkVerifiable m.last then return ⟨s, .ban c, []⟩
          match pst.receiveLastState ⟨m.last, now⟩ with
          | .error c => return ⟨s, .ban c, []⟩
          | .ok pst1 =>
            let s1 := setPeer s p pst1
            match ← getLastStateProof s1 p now boundary samples with
            | .ok (s2, sent) => return ⟨s2, .ok, sent⟩
            | .error c => return ⟨s1, .ban c, []⟩
        else return ⟨s, .ok, []⟩
      else
        if !m.headers.all (·.tdOk) then return ⟨s, .ban 434, []⟩
        match ← checkMatched s.lastNBlocks req.content m.headers m.last with
        | .error c => return ⟨s, .ban c, []⟩
        | .ok (reorg, sampled, lastNCount) =>
          proofChecks s p pst req m now boundary samples boundaryG samplesG reorg sampled lastNCount) := by
  rfl

section
variable {s : St} {p : Nat} {pst : PeerState} {req : ProveRequest} {m : ProofMsg} {now b : Nat}
  {ds : List Nat} {bG : Nat} {dsG : List Nat} {r sc ln : Nat} {tf : Bool} {out : Out}

/-- the ways the final block ends: state untouched; a new request replaces the outstanding one;
the new proved state is committed -/
theorem proofFinish_inv (h : proofFinish s p pst req m now b ds bG dsG r sc ln tf = .ok out) :
    out.st = s ∨
    (∃ rq pst', pst.requestLastStateProof rq now = .ok pst' ∧ out.st = setPeer s p pst' ∧
      out.outcome = .recheck) ∨
    (∃ lh, commitProveState s p ⟨req.last, m.headers.take r, lh⟩ = .ok (.ok (out.st, true)) ∧
      out.outcome = .ok) := by
  unfold proofFinish at h
  split at h
  · simp only [M.bind_eq_ok] at h
    obtain ⟨lastTd, -, oc, -, h⟩ := h
    split at h
    · split at h
      · rename_i pst' hrq
        simp only [M.pure_eq_ok] at h; subst h
        exact .inr (.inl ⟨_, pst', hrq, rfl, rfl⟩)
      · simp only [M.pure_eq_ok] at h; subst h; exact .inl rfl
    · simp only [M.pure_eq_ok] at h; subst h; exact .inl rfl
  · simp only [M.bind_eq_ok] at h
    obtain ⟨olh, -, h⟩ := h
    split at h
    · simp only [M.pure_eq_ok] at h; subst h; exact .inl rfl
    · rename_i lh
      split at h
      · simp only [M.bind_eq_ok] at h; obtain ⟨_, h0, -⟩ := h; cases h0
      · simp only [M.bind_eq_ok] at h
        obtain ⟨cr, hcr, h⟩ := h
        split at h
        · simp only [M.pure_eq_ok] at h; subst h; exact .inl rfl
        · simp only [M.pure_eq_ok] at h; subst h
          exact .inr (.inr ⟨lh, hcr, rfl⟩)
        · rename_i s1
          have hs1 : s1 = s := by
            rcases commitProveState_inv hcr with ⟨-, h1⟩ | ⟨h1, -⟩
            · exact h1
            · cases h1
          subst hs1
          simp only [M.bind_eq_ok] at h
          obtain ⟨lastTd, -, h⟩ := h
          split at h
          · simp only [M.pure_eq_ok] at h; subst h; exact .inl rfl
          · split at h
            · rename_i pst' hrq
              simp only [M.pure_eq_ok] at h; subst h
              exact .inr (.inl ⟨_, pst', hrq, rfl, rfl⟩)
            · simp only [M.pure_eq_ok] at h; subst h; exact .inl rfl

theorem proofTd_inv (h : proofTd s p pst req m now b ds bG dsG r sc ln tf = .ok out) :
    out.st = s ∨
    (m.last.root = true ∧ (mmrStructOk m.last m.headers = true ∧ m.mmrOk = true) ∧
      proofFinish s p pst req m now b ds bG dsG r sc ln tf = .ok out) := by
  unfold proofTd at h
  split at h
  · simp only [M.pure_eq_ok] at h; subst h; exact .inl rfl
  rename_i h1
  split at h
  · simp only [M.pure_eq_ok] at h; subst h; exact .inl rfl
  rename_i h2
  simp only [Bool.not_eq_true, Bool.not_eq_false', Bool.and_eq_true] at h1 h2
  split at h
  · split at h
    · simp only [M.bind_eq_ok] at h
      obtain ⟨t0, -, t1, -, res, -, h⟩ := h
      split at h
      · exact .inr ⟨h1, h2, h⟩
      · simp only [M.pure_eq_ok] at h; subst h; exact .inl rfl
    · exact .inr ⟨h1, h2, h⟩
  · exact .inr ⟨h1, h2, h⟩

theorem proofCont_inv (h : proofCont s p pst req m now b ds bG dsG r sc ln tf = .ok out) :
    out.st = s ∨
    ((r ≠ 0 → checkContinuous (m.headers.take r) = .ok none) ∧
      checkContinuous (m.headers.drop (r + sc)) = .ok none ∧
      proofTd s p pst req m now b ds bG dsG r sc ln tf = .ok out) := by
  unfold proofCont at h
  have tail : ∀ {x : M Out}, x = .ok out →
      (x = (do
        let __do_lift ← checkContinuous (List.drop (r + sc) m.headers)
        match __do_lift with
          | some c => pure { st := s, outcome := Outcome.ban c }
          | _ => proofTd s p pst req m now b ds bG dsG r sc ln tf)) →
      out.st = s ∨ (checkContinuous (m.headers.drop (r + sc)) = .ok none ∧
        proofTd s p pst req m now b ds bG dsG r sc ln tf = .ok out) := by
    intro x hx hdef
    subst hdef
    simp only [M.bind_eq_ok] at hx
    obtain ⟨oc, hoc, hx⟩ := hx
    split at hx
    · simp only [M.pure_eq_ok] at hx; subst hx; exact .inl rfl
    · rename_i hnot
      cases oc with
      | some c => exact absurd rfl (hnot c)
      | none => exact .inr ⟨hoc, hx⟩
  split at h
  · rename_i hr
    simp only [M.bind_eq_ok] at h
    obtain ⟨oc, hoc, h⟩ := h
    split at h
    · simp only [M.pure_eq_ok] at h; subst h; exact .inl rfl
    · rename_i hnot
      cases oc with
      | some c => exact absurd rfl (hnot c)
      | none =>
        rcases tail h rfl with h' | ⟨h1, h2⟩
        · exact .inl h'
        · exact .inr ⟨fun _ => hoc, h1, h2⟩
  · rename_i hr
    rcases tail h rfl with h' | ⟨h1, h2⟩
    · exact .inl h'
    · exact .inr ⟨fun hne => absurd hne hr, h1, h2⟩

theorem proofChecks_inv (h : proofChecks s p pst req m now b ds bG dsG r sc ln = .ok out) :
    out.st = s ∨
    ((∀ x ∈ m.headers, x.pow = true ∧ x.root = true) ∧
      ∃ tf, proofCont s p pst req m now b ds bG dsG r sc ln tf = .ok out) := by
  unfold proofChecks at h
  split at h
  · simp only [M.pure_eq_ok] at h; subst h; exact .inl rfl
  rename_i h1
  split at h
  · simp only [M.pure_eq_ok] at h; subst h; exact .inl rfl
  rename_i h2
  simp only [Bool.not_eq_true, Bool.not_eq_false', List.all_eq_true] at h1 h2
  simp only [M.bind_eq_ok] at h
  obtain ⟨tf, -, h⟩ := h
  have hall : ∀ x ∈ m.headers, x.pow = true ∧ x.root = true := fun x hx => ⟨h2 x hx, h1 x hx⟩
  split at h
  · split at h
    · split at h
      · simp only [M.pure_eq_ok] at h; subst h; exact .inl rfl
      · exact .inr ⟨hall, tf, h⟩
    · exact .inr ⟨hall, tf, h⟩
  · exact .inr ⟨hall, tf, h⟩

theorem checkContinuous_linked : ∀ l : List VH, checkContinuous l = .ok none → Linked l
  | [], _ => trivial
  | [_], _ => trivial
  | a :: b :: rest, h => by
    unfold checkContinuous at h
    simp only [M.bind_eq_ok] at h
    obtain ⟨v, hv, h⟩ := h
    cases v with
    | false => simp at h
    | true =>
      simp only [if_true] at h
      exact ⟨hv, checkContinuous_linked (b :: rest) h⟩

/-- **inversion of `onProof`** for a peer with an outstanding request -/
theorem onProof_inv (h : onProof s p m now b ds bG dsG = .ok out) (hp : getPeer s p = some pst)
    (hr : pst.proveRequest? = some req) :
    out.st = s ∨
    (∃ rq pst', pst.requestLastStateProof rq now = .ok pst' ∧ out.st = setPeer s p pst' ∧
      out.outcome = .recheck) ∨
    (req.last.vid ≠ m.last.vid ∧ m.proofEmpty = true ∧
      ∃ pst1, pst.receiveLastState ⟨m.last, now⟩ = .ok pst1 ∧
        ∃ sent, getLastStateProof (setPeer s p pst1) p now b ds = .ok (.ok (out.st, sent)) ∧
          out.outcome = .ok) ∨
    (req.last.vid = m.last.vid ∧ (∀ x ∈ m.headers, x.pow = true ∧ x.root = true) ∧
      m.last.root = true ∧ m.mmrOk = true ∧
      ∃ r sc ln lh, checkMatched s.lastNBlocks req.content m.headers m.last = .ok (.ok (r, sc, ln)) ∧
        Linked (m.headers.take r) ∧ Linked (m.headers.drop (r + sc)) ∧
        commitProveState s p ⟨req.last, m.headers.take r, lh⟩ = .ok (.ok (out.st, true)) ∧
        out.outcome = .ok) := by
  rw [onProof_eq] at h
  simp only [hp, hr] at h
  split at h
  · simp only [M.pure_eq_ok] at h; subst h; exact .inl rfl
  split at h
  · rename_i hne
    split at h
    · rename_i hpe
      split at h
      · simp only [M.pure_eq_ok] at h; subst h; exact .inl rfl
      · split at h
        · simp only [M.pure_eq_ok] at h; subst h; exact .inl rfl
        · rename_i pst1 hrcv
          simp only [M.bind_eq_ok] at h
          obtain ⟨res, hres, h⟩ := h
          refine .inr (.inr (.inl ⟨hne, hpe, pst1, hrcv, ?_⟩))
          split at h
          · simp only [M.pure_eq_ok] at h; subst h
            exact ⟨_, hres, rfl⟩
          · exfalso
            have hr1 : pst1.proveRequest? = some req := by
              rw [PeerState.receiveLastState_proveRequest hrcv, hr]
            exact getLastStateProof_ne_err (getPeer_setPeer_self pst1 hp) hr1 hres
    · simp only [M.pure_eq_ok] at h; subst h; exact .inl rfl
  · rename_i heq
    simp only [ne_eq, Decidable.not_not] at heq
    split at h
    · simp only [M.pure_eq_ok] at h; subst h; exact .inl rfl
    simp only [M.bind_eq_ok] at h
    obtain ⟨res, hres, h⟩ := h
    split at h
    · simp only [M.pure_eq_ok] at h; subst h; exact .inl rfl
    · rename_i r sc ln
      rcases proofChecks_inv h with h' | ⟨hall, tf, h⟩
      · exact .inl h'
      rcases proofCont_inv h with h' | ⟨hc1, hc2, h⟩
      · exact .inl h'
      rcases proofTd_inv h with h' | ⟨hroot, ⟨-, hmmr⟩, h⟩
      · exact .inl h'
      rcases proofFinish_inv h with h' | h' | ⟨lh, hcommit, hout⟩
      · exact .inl h'
      · exact .inr (.inl h')
      · refine .inr (.inr (.inr ⟨heq, hall, hroot, hmmr, r, sc, ln, lh, hres, ?_,
          checkContinuous_linked _ hc2, hcommit, hout⟩))
        by_cases hr0 : r = 0
        · subst hr0; exact trivial
        · exact checkContinuous_linked _ (hc1 hr0)

/-- `onProof` keeps the list of peer ids -/
theorem onProof_ids (h : onProof s p m now b ds bG dsG = .ok out) :
    out.st.peers.map (·.1) = s.peers.map (·.1) := by
  cases hp : getPeer s p with
  | none =>
    unfold onProof at h
    simp only [hp, M.pure_eq_ok] at h
    subst h; rfl
  | some pst =>
    cases hr : pst.proveRequest? with
    | none =>
      unfold onProof at h
      simp only [hp, hr, M.pure_eq_ok] at h
      subst h; rfl
    | some req =>
      rcases onProof_inv h hp hr with h' | ⟨_, _, _, h', _⟩ | ⟨_, _, _, _, _, h', _⟩ |
        ⟨_, _, _, _, _, _, _, _, _, _, _, h', _⟩
      · rw [h']
      · rw [h', setPeer_ids]
      · rw [getLastStateProof_ids h', setPeer_ids]
      · exact commitProveState_ids h'
end

/-! ### the peer ids stay unique -/

/-- `onLastState` keeps the list of peer ids -/
theorem onLastState_ids {s : St} {p : Nat} {hd : VH} {now b : Nat} {ds : List Nat} {out : Out}
    (h : onLastState s p hd now b ds = .ok out) :
    out.st.peers.map (·.1) = s.peers.map (·.1) := by
  unfold onLastState at h
  split at h
  · simp only [M.pure_eq_ok] at h; subst h; rfl
  split at h
  · simp only [M.pure_eq_ok] at h; subst h; rfl
  split at h
  · simp only [M.pure_eq_ok] at h; subst h; rfl
  simp only [] at h
  split at h
  · split at h
    · simp only [M.pure_eq_ok] at h; subst h; rfl
    split at h
    · simp only [M.pure_eq_ok] at h; subst h; rfl
    · simp only [M.bind_eq_ok] at h
      obtain ⟨prevTd, -, newTd, -, h⟩ := h
      split at h
      · split at h
        · simp only [M.bind_eq_ok] at h
          obtain ⟨provedTd, -, h⟩ := h
          have hs2 : ∀ (c : Prop) [Decidable c] (l : List VH),
              (if c then storeLastState (setPeer s p ‹PeerState›) newTd hd l
                else setPeer s p ‹PeerState›).peers.map (·.1) = s.peers.map (·.1) := by
            intro c _ l
            split
            · exact setPeer_ids ..
            · exact setPeer_ids ..
          split at h
          · simp only [M.bind_eq_ok] at h
            obtain ⟨a, -, h⟩ := h
            split at h
            · split at h
              · simp only [M.pure_eq_ok] at h; subst h
                rw [setPeer_ids]; exact hs2 ..
              · simp only [M.pure_eq_ok] at h; subst h
                exact hs2 ..
            · simp only [M.pure_eq_ok] at h; subst h; exact setPeer_ids ..
          · simp only [M.pure_eq_ok] at h; subst h; exact setPeer_ids ..
        · simp only [M.pure_eq_ok] at h; subst h; exact setPeer_ids ..
      · simp only [M.pure_eq_ok] at h; subst h; exact setPeer_ids ..
  · split at h
    · simp only [M.pure_eq_ok] at h; subst h; rfl
    · simp only [M.bind_eq_ok] at h
      obtain ⟨res, hres, h⟩ := h
      split at h
      · simp only [M.pure_eq_ok] at h; subst h
        rw [getLastStateProof_ids hres, setPeer_ids]
      · simp only [M.pure_eq_ok] at h; subst h; exact setPeer_ids ..

/-- `onDisconnect` keeps the peer ids unique -/
theorem onDisconnect_nodup {s : St} (p : Nat) (hnd : (s.peers.map (·.1)).Nodup) :
    ((onDisconnect s p).peers.map (·.1)).Nodup := by
  unfold onDisconnect
  exact hnd.sublist (List.Sublist.map _ List.filter_sublist)

/-- `onConnect` keeps the peer ids unique (a previous entry of the same id is replaced) -/
theorem onConnect_nodup {s : St} (p now : Nat) (hnd : (s.peers.map (·.1)).Nodup) :
    (((onConnect s p now).1).peers.map (·.1)).Nodup := by
  have hins : ((insertPeer s.peers p .initialized).map (·.1)).Nodup := by
    unfold insertPeer
    simp only [List.map_append, List.map_cons, List.map_nil]
    have h1 : ((s.peers.filter (·.1 < p)).map (·.1)).Nodup :=
      hnd.sublist (List.Sublist.map _ List.filter_sublist)
    have h2 : ((s.peers.filter (fun e => p < e.1)).map (·.1)).Nodup :=
      hnd.sublist (List.Sublist.map _ List.filter_sublist)
    rw [List.nodup_append, List.nodup_append]
    refine ⟨⟨h1, by simp, ?_⟩, h2, ?_⟩
    · intro a ha b hb
      simp only [List.mem_map, List.mem_filter, decide_eq_true_eq] at ha
      obtain ⟨e, ⟨-, he⟩, rfl⟩ := ha
      simp only [List.mem_singleton] at hb
      omega
    · intro a ha b hb
      simp only [List.mem_map, List.mem_filter, decide_eq_true_eq] at hb
      obtain ⟨e, ⟨-, he⟩, rfl⟩ := hb
      simp only [List.mem_append, List.mem_map, List.mem_filter, decide_eq_true_eq,
        List.mem_singleton] at ha
      rcases ha with ⟨e', ⟨-, he'⟩, rfl⟩ | rfl <;> omega
  unfold onConnect
  simp only []
  split
  · simp only [setPeer_ids]; exact hins
  · exact hins


theorem onProof_nodup {s : St} {p : Nat} {m : ProofMsg} {now b : Nat} {ds : List Nat} {bG : Nat}
    {dsG : List Nat} {out : Out} (h : onProof s p m now b ds bG dsG = .ok out)
    (hnd : (s.peers.map (·.1)).Nodup) : (out.st.peers.map (·.1)).Nodup := by
  rw [onProof_ids h]; exact hnd

theorem onLastState_nodup {s : St} {p : Nat} {hd : VH} {now b : Nat} {ds : List Nat} {out : Out}
    (h : onLastState s p hd now b ds = .ok out)
    (hnd : (s.peers.map (·.1)).Nodup) : (out.st.peers.map (·.1)).Nodup := by
  rw [onLastState_ids h]; exact hnd

/-! ### `checkMatched` in blocks -/

/-- the section counts `(sampled, lastNCount)` of `checkMatched` -/
def cmShape (lastN : Nat) (c : ReqContent) (headers : List VH) (reorg : Nat) :
    M (Except Nat (Nat × Nat)) :=
  let total := headers.length
  (if total - reorg > lastN then do
      let before ← checkMatched.countBefore c headers
      if before < reorg then pure (.error 452)
      else
        let lnc := total - before
        if lastN < lnc then
          -- `before_boundary_count - reorg_count`: checked `usize` subtraction
          let sc ← subU64 64 before reorg
          pure (.ok (sc, lnc))
        else pure (.ok (total - reorg - lastN, lastN))
    else pure (.ok (0, total - reorg)) : M (Except Nat (Nat × Nat)))

/-- `checkMatched` after the boundary check of the first last-N header -/
def cmTail (lastN : Nat) (c : ReqContent) (headers : List VH) (last : VH)
    (reorg sampled lastNCount : Nat) : M (Except Nat (Nat × Nat × Nat)) := do
  if lastNCount = 0 && decide (c.startNumber < last.number) then
    return .error 400
  if 0 < lastNCount && (headers.getLast?.map (fun l => decide (l.number + 1 = last.number))) ≠ some true then
    return .error 400
  if sampled = 0 then
    if 0 < lastNCount then
      match headers[reorg]?, headers.getLast? with
      | some f, some l =>
        let l1 ← addU64 65 l.number 1
        if f.number ≠ c.startNumber || l1 ≠ last.number then
          if let some code := checkNoSampled lastN c f last.number lastNCount then
            return .error code
      | _, _ => .error (.index 66)
    return .ok (reorg, sampled, lastNCount)
  else
    match headers[reorg + sampled]? with
    | none => .error (.index 67)
    | some firstLastN =>
      let firstLastNTd ← firstLastN.td
      let diffs := c.difficulties.takeWhile (· < firstLastNTd)
      match ← checkMatched.matchLoop ((headers.drop reorg).take sampled) diffs with
      | none => return .error 451
      | some remaining =>
        match remaining with
        | [] => return .ok (reorg, sampled, lastNCount)
        | next :: _ =>
          if next ≤ firstLastN.ptd then return .error 451
          else return .ok (reorg, sampled, lastNCount)

/-- `checkMatched` after the reorg-section checks -/
def cmMid (lastN : Nat) (c : ReqContent) (headers : List VH) (last : VH) (reorg : Nat) :
    M (Except Nat (Nat × Nat × Nat)) := do
  let total := headers.length
  let shape ← cmShape lastN c headers reorg
  match shape with
  | .error c => return .error c
  | .ok (sampled, lastNCount) =>
  if sampled ≠ 0 then
    match headers[total - lastNCount]? with
    | none => .error (.index 72)
    | some f => if c.boundary ≤ f.ptd then return .error 400
  cmTail lastN c headers last reorg sampled lastNCount

theorem checkMatched_eq (lastN : Nat) (c : ReqContent) (headers : List VH) (last : VH) :
    checkMatched lastN c headers last = (do
  if headers.isEmpty then return .error 400
  if !checkMatched.sorted headers then return .error 400
  let reorg := (headers.takeWhile (fun h => h.number < c.startNumber)).length
  if reorg ≠ 0 then
    if reorg ≠ lastN then
      if (headers.head?.map (·.number)) ≠ some 1 then return .error 452
    match headers[reorg - 1]? with
    | none => .error (.index 63)
    | some lr =>
      if lr.number ≠ c.startNumber - 1 then return .error 452
  cmMid lastN c headers last reorg) := by
  rfl

theorem sorted_increasing : ∀ l : List VH, checkMatched.sorted l = true →
    StrictlyIncreasing (l.map (·.number))
  | [], _ => trivial
  | [_], _ => trivial
  | a :: b :: rest, h => by
    unfold checkMatched.sorted at h
    simp only [Bool.and_eq_true, decide_eq_true_eq] at h
    exact ⟨h.1, sorted_increasing (b :: rest) h.2⟩

theorem countBefore_le (c : ReqContent) : ∀ (l : List VH) (n : Nat),
    checkMatched.countBefore c l = .ok n → n ≤ l.length
  | [], n, h => by
    unfold checkMatched.countBefore at h
    simp only [M.pure_eq_ok] at h; subst h; simp
  | a :: rest, n, h => by
    unfold checkMatched.countBefore at h
    simp only [M.bind_eq_ok] at h
    obtain ⟨t, -, h⟩ := h
    split at h
    · simp only [M.bind_eq_ok, M.pure_eq_ok] at h
      obtain ⟨k, hk, rfl⟩ := h
      have := countBefore_le c rest k hk
      simp only [List.length_cons]; omega
    · simp only [M.pure_eq_ok] at h; subst h; simp

theorem take_length_takeWhile {α} (P : α → Bool) : ∀ l : List α,
    l.take (l.takeWhile P).length = l.takeWhile P
  | [] => rfl
  | a :: t => by
    by_cases h : P a
    · simp [h, take_length_takeWhile P t]
    · simp [h]

theorem length_takeWhile_le' {α} (P : α → Bool) : ∀ l : List α, (l.takeWhile P).length ≤ l.length
  | [] => Nat.le_refl _
  | a :: t => by
    by_cases h : P a
    · simp [h, length_takeWhile_le' P t]
    · simp [h]

theorem of_mem_takeWhile {α} (P : α → Bool) : ∀ (l : List α) (x : α), x ∈ l.takeWhile P → P x = true
  | [], _, h => by simp at h
  | a :: t, x, h => by
    by_cases ha : P a
    · simp only [List.takeWhile_cons, ha, if_true, List.mem_cons] at h
      rcases h with rfl | h
      · exact ha
      · exact of_mem_takeWhile P t x h
    · simp [ha] at h

theorem cmShape_sum {lastN : Nat} {c : ReqContent} {headers : List VH} {reorg sc ln : Nat}
    (h : cmShape lastN c headers reorg = .ok (.ok (sc, ln))) (hr : reorg ≤ headers.length) :
    headers.length = reorg + sc + ln := by
  unfold cmShape at h
  simp only [] at h
  split at h
  · rename_i hgt
    simp only [M.bind_eq_ok] at h
    obtain ⟨before, hb, h⟩ := h
    have hble := countBefore_le c _ _ hb
    split at h
    · simp at h
    split at h
    · simp only [M.bind_eq_ok, subU64_eq_ok, M.pure_eq_ok, Except.ok.injEq, Prod.mk.injEq] at h
      obtain ⟨x, ⟨hle, rfl⟩, rfl, rfl⟩ := h
      omega
    · simp only [M.pure_eq_ok, Except.ok.injEq, Prod.mk.injEq] at h
      obtain ⟨rfl, rfl⟩ := h
      omega
  · simp only [M.pure_eq_ok, Except.ok.injEq, Prod.mk.injEq] at h
    obtain ⟨rfl, rfl⟩ := h
    omega

/-- where `countBefore` stops inside the list, the header reaches the boundary -/
theorem countBefore_stop (c : ReqContent) : ∀ (l : List VH) (n : Nat),
    checkMatched.countBefore c l = .ok n → n < l.length →
    ∃ f ftd, l[n]? = some f ∧ f.td = .ok ftd ∧ c.boundary ≤ ftd
  | [], n, _, hlt => by simp at hlt
  | a :: rest, n, h, hlt => by
    unfold checkMatched.countBefore at h
    simp only [M.bind_eq_ok] at h
    obtain ⟨t, ht, h⟩ := h
    split at h
    · simp only [M.bind_eq_ok, M.pure_eq_ok] at h
      obtain ⟨k, hk, rfl⟩ := h
      simp only [List.length_cons] at hlt
      obtain ⟨f, ftd, hf, hftd, hb⟩ := countBefore_stop c rest k hk (by omega)
      exact ⟨f, ftd, by simpa using hf, hftd, hb⟩
    · rename_i hnlt
      simp only [M.pure_eq_ok] at h; subst h
      exact ⟨a, t, rfl, ht, by omega⟩

/-- a section without sampled headers that is longer than last-N begins at the first header that
reaches the boundary: when `cmShape` answers `(0, ln)` with `lastN < ln`, the header after the
reorg section is where the count of the headers below the boundary stopped -/
theorem cmShape_long_no_sampled {lastN : Nat} {c : ReqContent} {headers : List VH} {reorg ln : Nat}
    (h : cmShape lastN c headers reorg = .ok (.ok (0, ln))) (hlt : lastN < ln) :
    ∃ f ftd, headers[reorg]? = some f ∧ f.td = .ok ftd ∧ c.boundary ≤ ftd := by
  unfold cmShape at h
  simp only [] at h
  split at h
  · simp only [M.bind_eq_ok] at h
    obtain ⟨before, hb, h⟩ := h
    split at h
    · simp at h
    rename_i hge
    split at h
    · rename_i hlnc
      simp only [M.bind_eq_ok, subU64_eq_ok, M.pure_eq_ok, Except.ok.injEq, Prod.mk.injEq] at h
      obtain ⟨x, ⟨hle, hx⟩, rfl, rfl⟩ := h
      have hbr : before = reorg := by omega
      subst hbr
      exact countBefore_stop c headers before hb (by omega)
    · simp only [M.pure_eq_ok, Except.ok.injEq, Prod.mk.injEq] at h
      omega
  · simp only [M.pure_eq_ok, Except.ok.injEq, Prod.mk.injEq] at h
    omega

/-- what passing `checkNoSampled` means: more than last-N blocks are missing, the last-N section
is complete (at least last-N headers; it is longer when more than last-N blocks follow the block
that reaches the boundary), no earlier block reaches the boundary, and the first requested
difficulty (if any) lies inside the section -/
theorem checkNoSampled_eq_none {lastN : Nat} {c : ReqContent} {f : VH} {n ln : Nat} :
    checkNoSampled lastN c f n ln = none ↔
      lastN < n - c.startNumber ∧ lastN ≤ ln ∧ f.ptd < c.boundary ∧
        ∀ d ∈ c.difficulties.head?, f.ptd < d := by
  unfold checkNoSampled
  cases c.difficulties with
  | nil =>
    by_cases h1 : lastN < n - c.startNumber <;> by_cases h2 : ln < lastN <;>
      by_cases h3 : c.boundary ≤ f.ptd <;> simp [h1, h2, h3] <;> omega
  | cons d t =>
    by_cases h1 : lastN < n - c.startNumber <;> by_cases h2 : ln < lastN <;>
      by_cases h3 : c.boundary ≤ f.ptd <;> by_cases h4 : d ≤ f.ptd <;>
      simp [h1, h2, h3, h4] <;> omega

theorem cmTail_inv {lastN : Nat} {c : ReqContent} {headers : List VH} {last : VH}
    {reorg sampled lnc r sc ln : Nat}
    (h : cmTail lastN c headers last reorg sampled lnc = .ok (.ok (r, sc, ln))) :
    r = reorg ∧ sc = sampled ∧ ln = lnc ∧
    (0 < ln → (headers.getLast?.map (fun l => l.number + 1)) = some last.number) ∧
    (sc = 0 → 0 < ln → (headers[r]?.map (·.number)) = some c.startNumber ∨
      ∃ f, headers[r]? = some f ∧ checkNoSampled lastN c f last.number ln = none) ∧
    (sc ≠ 0 → ∃ f ftd rem, headers[r + sc]? = some f ∧ f.td = .ok ftd ∧
      checkMatched.matchLoop ((headers.drop r).take sc) (c.difficulties.takeWhile (· < ftd))
        = .ok (some rem) ∧
      ∀ next tl, rem = next :: tl → f.ptd < next) := by
  unfold cmTail at h
  split at h
  · simp at h
  split at h
  · simp at h
  rename_i hlast
  have hlast' : 0 < lnc → (headers.getLast?.map (fun l => l.number + 1)) = some last.number := by
    intro hpos
    simp only [Bool.and_eq_true, decide_eq_true_eq, not_and, hpos, true_implies, ne_eq,
      Decidable.not_not] at hlast
    cases hg : headers.getLast? with
    | none => simp [hg] at hlast
    | some l => simpa [hg] using hlast
  split at h
  · rename_i hs0
    subst hs0
    split at h
    · rename_i hpos
      split at h
      · rename_i f l hf hl
        simp only [M.bind_eq_ok, addU64_eq_ok] at h
        obtain ⟨l1, ⟨-, rfl⟩, h⟩ := h
        split at h
        · rename_i hcond
          split at h
          · simp at h
          · rename_i hns
            have hnone : checkNoSampled lastN c f last.number lnc = none := by
              cases hc : checkNoSampled lastN c f last.number lnc with
              | none => rfl
              | some code => exact absurd hc (hns code)
            simp only [M.pure_eq_ok, Except.ok.injEq, Prod.mk.injEq] at h
            obtain ⟨rfl, rfl, rfl⟩ := h
            exact ⟨rfl, rfl, rfl, hlast', fun _ _ => .inr ⟨f, hf, hnone⟩, fun h => absurd rfl h⟩
        · rename_i hcond
          simp only [M.pure_eq_ok, Except.ok.injEq, Prod.mk.injEq] at h
          obtain ⟨rfl, rfl, rfl⟩ := h
          refine ⟨rfl, rfl, rfl, hlast', ?_, fun h => absurd rfl h⟩
          intro _ _
          simp only [Bool.or_eq_true, decide_eq_true_eq, not_or, ne_eq, Decidable.not_not] at hcond
          left
          simp [hf, hcond.1]
      · simp [bind, Except.bind] at h
    · rename_i hpos
      simp only [M.pure_eq_ok, Except.ok.injEq, Prod.mk.injEq] at h
      obtain ⟨rfl, rfl, rfl⟩ := h
      exact ⟨rfl, rfl, rfl, hlast', fun _ h => absurd h hpos, fun h => absurd rfl h⟩
  · rename_i hs0
    split at h
    · simp at h
    · rename_i f hf
      simp only [M.bind_eq_ok] at h
      obtain ⟨ftd, hftd, res, hres, h⟩ := h
      split at h
      · simp at h
      · rename_i rem
        split at h
        · simp only [M.pure_eq_ok, Except.ok.injEq, Prod.mk.injEq] at h
          obtain ⟨rfl, rfl, rfl⟩ := h
          exact ⟨rfl, rfl, rfl, hlast', fun h => absurd h hs0,
            fun _ => ⟨f, ftd, [], hf, hftd, hres, fun _ _ h => by cases h⟩⟩
        · rename_i next tl
          split at h
          · simp at h
          · rename_i hnext
            simp only [M.pure_eq_ok, Except.ok.injEq, Prod.mk.injEq] at h
            obtain ⟨rfl, rfl, rfl⟩ := h
            refine ⟨rfl, rfl, rfl, hlast', fun h => absurd h hs0,
              fun _ => ⟨f, ftd, next :: tl, hf, hftd, hres, ?_⟩⟩
            intro n t hnt
            cases hnt
            omega

/-- an accepted response has a non-empty last-N section when there are blocks since the start
block (the check added by the repair of `check_if_response_is_matched`) -/
theorem cmTail_nonempty {lastN : Nat} {c : ReqContent} {headers : List VH} {last : VH}
    {reorg sampled lnc : Nat} {res : Nat × Nat × Nat}
    (h : cmTail lastN c headers last reorg sampled lnc = .ok (.ok res))
    (hlt : c.startNumber < last.number) : 0 < lnc := by
  unfold cmTail at h
  split at h
  · simp at h
  rename_i hne
  simp only [Bool.and_eq_true, decide_eq_true_eq, hlt, and_true] at hne
  omega

theorem cmMid_inv {lastN : Nat} {c : ReqContent} {headers : List VH} {last : VH} {reorg r sc ln : Nat}
    (h : cmMid lastN c headers last reorg = .ok (.ok (r, sc, ln))) :
    cmShape lastN c headers reorg = .ok (.ok (sc, ln)) ∧
    (sc ≠ 0 → ∃ f, headers[headers.length - ln]? = some f ∧ f.ptd < c.boundary) ∧
    cmTail lastN c headers last reorg sc ln = .ok (.ok (r, sc, ln)) := by
  unfold cmMid at h
  simp only [M.bind_eq_ok] at h
  obtain ⟨shape, hshape, h⟩ := h
  split at h
  · simp at h
  rename_i sampled lnc
  split at h
  · rename_i hs0
    split at h
    · simp [bind, Except.bind] at h
    · rename_i f hf
      split at h
      · simp at h
      · rename_i hb
        obtain ⟨-, rfl, rfl, -⟩ := cmTail_inv h
        exact ⟨hshape, fun _ => ⟨f, hf, by omega⟩, h⟩
  · rename_i hs0
    obtain ⟨-, rfl, rfl, -⟩ := cmTail_inv h
    exact ⟨hshape, fun h => absurd h hs0, h⟩

/-- **inversion of `checkMatched`** -/
theorem checkMatched_inv {lastN : Nat} {c : ReqContent} {headers : List VH} {last : VH} {r sc ln : Nat}
    (h : checkMatched lastN c headers last = .ok (.ok (r, sc, ln))) :
    checkMatched.sorted headers = true ∧
    r = (headers.takeWhile (fun h => h.number < c.startNumber)).length ∧
    (r ≠ 0 → (r = lastN ∨ (headers.head?.map (·.number)) = some 1) ∧
             (headers[r - 1]?.map (·.number)) = some (c.startNumber - 1)) ∧
    cmMid lastN c headers last r = .ok (.ok (r, sc, ln)) := by
  rw [checkMatched_eq] at h
  split at h
  · simp at h
  split at h
  · simp at h
  rename_i hsorted
  simp only [Bool.not_eq_true, Bool.not_eq_false'] at hsorted
  simp only [] at h
  split at h
  · rename_i hr0
    split at h
    · rename_i hrl
      split at h
      · simp at h
      · rename_i hhead
        split at h
        · simp [bind, Except.bind] at h
        · rename_i lr hlr
          split at h
          · simp at h
          · rename_i hnum
            have hr : r = (headers.takeWhile (fun h => h.number < c.startNumber)).length :=
              (cmTail_inv (cmMid_inv h).2.2).1
            rw [← hr] at h hlr
            simp only [ne_eq, Decidable.not_not] at hhead hnum
            exact ⟨hsorted, hr, fun _ => ⟨.inr hhead, by simp [hlr, hnum]⟩, h⟩
    · rename_i hrl
      simp only [ne_eq, Decidable.not_not] at hrl
      split at h
      · simp [bind, Except.bind] at h
      · rename_i lr hlr
        split at h
        · simp at h
        · rename_i hnum
          have hr : r = (headers.takeWhile (fun h => h.number < c.startNumber)).length :=
            (cmTail_inv (cmMid_inv h).2.2).1
          rw [← hr] at h hlr hrl
          simp only [ne_eq, Decidable.not_not] at hnum
          exact ⟨hsorted, hr, fun _ => ⟨.inl hrl, by simp [hlr, hnum]⟩, h⟩
  · rename_i hr0
    simp only [ne_eq, Decidable.not_not] at hr0
    have hr : r = (headers.takeWhile (fun h => h.number < c.startNumber)).length :=
      (cmTail_inv (cmMid_inv h).2.2).1
    rw [← hr] at h hr0
    exact ⟨hsorted, hr, fun h => absurd hr0 h, h⟩

/-! ### the sample-matching loop -/

theorem strictlyIncreasing_iff_pairwise : ∀ l : List Nat, StrictlyIncreasing l ↔ l.Pairwise (· < ·)
  | [] => by simp [StrictlyIncreasing]
  | [_] => by simp [StrictlyIncreasing]
  | a :: b :: rest => by
    have ih := strictlyIncreasing_iff_pairwise (b :: rest)
    unfold StrictlyIncreasing
    rw [ih, List.pairwise_cons (a := a)]
    constructor
    · rintro ⟨hab, hp⟩
      refine ⟨?_, hp⟩
      intro x hx
      rcases List.mem_cons.1 hx with rfl | hx
      · exact hab
      · exact Nat.lt_trans hab ((List.pairwise_cons.1 hp).1 x hx)
    · rintro ⟨hall, hp⟩
      exact ⟨hall b (List.mem_cons_self ..), hp⟩

theorem mem_takeWhile_lt_of_pairwise (bound : Nat) : ∀ (l : List Nat), l.Pairwise (· < ·) →
    ∀ d ∈ l, d < bound → d ∈ l.takeWhile (· < bound)
  | [], _, d, hd, _ => by simp at hd
  | a :: t, hp, d, hd, hlt => by
    rw [List.pairwise_cons] at hp
    have ha : a < bound := by
      rcases List.mem_cons.1 hd with rfl | hd
      · exact hlt
      · exact Nat.lt_trans (hp.1 d hd) hlt
    simp only [List.takeWhile_cons, ha, decide_true, if_true, List.mem_cons]
    rcases List.mem_cons.1 hd with rfl | hd
    · exact .inl rfl
    · exact .inr (mem_takeWhile_lt_of_pairwise bound t hp.2 d hd hlt)

/-- specification of the sample-matching loop on strictly increasing difficulties -/
theorem matchLoop_spec : ∀ (hs : List VH) (ds rem : List Nat),
    checkMatched.matchLoop hs ds = .ok (some rem) → ds.Pairwise (· < ·) →
    (∀ x ∈ hs, ∃ xtd, x.td = .ok xtd ∧ ∃ d ∈ ds, x.ptd < d ∧ d ≤ xtd) ∧
    ∃ pre, ds = pre ++ rem ∧
      ∀ d ∈ pre, ∃ x ∈ hs, ∃ xtd, x.td = .ok xtd ∧ x.ptd < d ∧ d ≤ xtd
  | [], ds, rem, h, _ => by
    unfold checkMatched.matchLoop at h
    simp only [M.pure_eq_ok, Option.some.injEq] at h
    subst h
    exact ⟨by simp, [], rfl, by simp⟩
  | x :: rest, ds, rem, h, hp => by
    unfold checkMatched.matchLoop at h
    simp only [M.bind_eq_ok] at h
    obtain ⟨cur, hcur, h⟩ := h
    split at h
    · simp at h
    · rename_i d ds'
      split at h
      · rename_i hcond
        simp only [Bool.and_eq_true, decide_eq_true_eq] at hcond
        rw [List.pairwise_cons] at hp
        have hsplit : ds' = ds'.takeWhile (· ≤ cur) ++ ds'.dropWhile (· ≤ cur) :=
          (List.takeWhile_append_dropWhile).symm
        have hp'' : (ds'.dropWhile (· ≤ cur)).Pairwise (· < ·) :=
          hp.2.sublist (List.dropWhile_sublist _)
        obtain ⟨h1, pre', hpre', h2⟩ := matchLoop_spec rest _ rem h hp''
        refine ⟨?_, (d :: ds'.takeWhile (· ≤ cur)) ++ pre', ?_, ?_⟩
        · intro y hy
          rcases List.mem_cons.1 hy with rfl | hy
          · exact ⟨cur, hcur, d, List.mem_cons_self .., hcond.1, hcond.2⟩
          · obtain ⟨ytd, hytd, d', hd', hlt⟩ := h1 y hy
            exact ⟨ytd, hytd, d', List.mem_cons_of_mem _ ((List.dropWhile_sublist _).subset hd'), hlt⟩
        · rw [List.append_assoc, ← hpre', List.cons_append, ← hsplit]
        · intro d0 hd0
          rcases List.mem_append.1 hd0 with hd0 | hd0
          · refine ⟨x, List.mem_cons_self .., cur, hcur, ?_⟩
            rcases List.mem_cons.1 hd0 with rfl | hd0
            · exact hcond
            · have hle := of_mem_takeWhile _ _ _ hd0
              simp only [decide_eq_true_eq] at hle
              have := hp.1 d0 ((List.takeWhile_sublist _).subset hd0)
              exact ⟨by omega, hle⟩
          · obtain ⟨y, hy, rest'⟩ := h2 d0 hd0
            exact ⟨y, List.mem_cons_of_mem _ hy, rest'⟩
      · simp at h

end Prove

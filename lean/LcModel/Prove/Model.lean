import LcModel.Difficulty.Model
/-!
# Prove layer — the light-client protocol core
Model of
* `PeerState` and its four transition functions, `Peers::{request_last_state, update_last_state,
  update_prove_request, update_prove_state, remove_peer, get_peers_which_*}` (`peers.rs`),
* `SendLastStateProcess::execute` (`send_last_state.rs`),
* `SendLastStateProofProcess::execute`, `check_if_response_is_matched`,
  `check_continuous_headers` (`send_last_state_proof.rs`),
* `LightClientProtocol::{get_last_state, get_last_state_proof, process_last_state,
  update_prove_state_to_child, commit_prove_state, refresh_all_peers}` (`light_client/mod.rs`),
* `Storage::{get_last_state, update_last_state, get_last_n_headers}` (the three trusted values).

Headers are abstract tokens produced by the harness' abstraction function: hashes are ids; the
PoW verdict, the chain-root commitment (`patched_is_valid`), the tip-age check and the MMR
verification verdict are *inputs* (assumptions `powValid`, `MmrSound` of DESIGN.md section 3).
Everything else — shapes, continuity, difficulties, state machine, storage — is computed.
-/
namespace Prove
open Difficulty

/-- abstract `VerifiableHeader` -/
structure VH where
  vid : Nat          -- identity under `if_verifiable_headers_are_same`
  hid : Nat          -- header hash
  number : Nat
  parent : Nat       -- parent hash
  ptd : Nat          -- total difficulty of the parent chain root
  pend : Nat         -- end block number of the parent chain root
  epoch : Epoch
  compact : Nat
  pow : Bool         -- PoW engine verdict
  root : Bool        -- `patched_is_valid` (extension commits to the parent chain root, extra hash)
  recent : Bool      -- `check_last_state` (not in IBD)
  deriving Repr, DecidableEq

/-- `VerifiableHeader::total_difficulty`: parent total difficulty + block difficulty (U256 `+`) -/
def VH.td (h : VH) : M Nat := addU256 60 h.ptd (compactToDifficulty h.compact)

/-- `VerifiableHeaderPatch::checked_total_difficulty().is_some()`: the total difficulty fits into
256 bits (so `VH.td`, the aborting `total_difficulty()`, succeeds) -/
def VH.tdOk (h : VH) : Bool := decide (h.ptd + compactToDifficulty h.compact ≤ U256_MAX)

/-- `is_successor_of` on epochs -/
def epochSucc (self pred : Epoch) : Bool :=
  if pred.index + 1 = pred.length then self.number = pred.number + 1 && self.index = 0
  else self.number = pred.number && self.index = pred.index + 1 && self.length = pred.length

/-- `HeaderUtils::is_parent_of` (`self.number() + 1` is a checked `u64` addition) -/
def isParentOf (a b : VH) : M Bool := do
  let n ← addU64 61 a.number 1
  pure (n = b.number && (a.number = 0 || epochSucc b.epoch a.epoch) && a.hid = b.parent)

/-- `GetLastStateProof` content -/
structure ReqContent where
  lastHash : Nat
  startHash : Nat
  startNumber : Nat
  lastN : Nat
  boundary : Nat
  difficulties : List Nat
  deriving Repr, DecidableEq

structure ProveRequest where
  last : VH
  content : ReqContent
  skipTau : Bool
  longFork : Bool
  deriving Repr, DecidableEq

structure ProveState where
  last : VH
  reorgLast : List VH
  lastHeaders : List VH
  deriving Repr, DecidableEq

structure LastState where
  h : VH
  updateTs : Nat
  deriving Repr, DecidableEq

inductive PeerState where
  | initialized
  | requestFirstLastState (whenSent : Nat)
  | onlyHasLastState (ls : LastState)
  | requestFirstLastStateProof (ls : LastState) (req : ProveRequest) (whenSent : Nat)
  | ready (ls : LastState) (ps : ProveState)
  | requestNewLastState (ls : LastState) (ps : ProveState) (whenSent : Nat)
  | requestNewLastStateProof (ls : LastState) (ps : ProveState) (req : ProveRequest) (whenSent : Nat)
  deriving Repr, DecidableEq

/-- what a handler returns: the `Status` class -/
inductive Outcome where
  | ok                -- 200
  | recheck           -- 201 RequireRecheck
  | ban (code : Nat)  -- 4xx
  | warn (code : Nat) -- 5xx
  deriving Repr, DecidableEq

namespace PeerState

def lastState? : PeerState → Option LastState
  | initialized | requestFirstLastState _ => none
  | onlyHasLastState ls | requestFirstLastStateProof ls _ _ | ready ls _
  | requestNewLastState ls _ _ | requestNewLastStateProof ls _ _ _ => some ls

def proveRequest? : PeerState → Option ProveRequest
  | requestFirstLastStateProof _ r _ | requestNewLastStateProof _ _ r _ => some r
  | _ => none

def proveState? : PeerState → Option ProveState
  | ready _ ps | requestNewLastState _ ps _ | requestNewLastStateProof _ ps _ _ => some ps
  | _ => none

def whenSent? : PeerState → Option Nat
  | requestFirstLastState w | requestFirstLastStateProof _ _ w
  | requestNewLastState _ _ w | requestNewLastStateProof _ _ _ w => some w
  | _ => none

/-- 413 `IncorrectLastState` on the transitions the diagram does not have -/
def requestLastState (s : PeerState) (now : Nat) : Except Nat PeerState :=
  match s with
  | initialized => .ok (requestFirstLastState now)
  | onlyHasLastState ls => .ok (onlyHasLastState ls)
  | ready ls ps => .ok (requestNewLastState ls ps now)
  | _ => .error 413

def receiveLastState (s : PeerState) (n : LastState) : Except Nat PeerState :=
  match s with
  | requestFirstLastState _ => .ok (onlyHasLastState n)
  | requestNewLastState _ ps _ => .ok (ready n ps)
  | onlyHasLastState _ => .ok (onlyHasLastState n)
  | requestFirstLastStateProof _ r w => .ok (requestFirstLastStateProof n r w)
  | ready _ ps => .ok (ready n ps)
  | requestNewLastStateProof _ ps r w => .ok (requestNewLastStateProof n ps r w)
  | initialized => .error 413

def requestLastStateProof (s : PeerState) (r : ProveRequest) (now : Nat) : Except Nat PeerState :=
  match s with
  | onlyHasLastState ls => .ok (requestFirstLastStateProof ls r now)
  | ready ls ps => .ok (requestNewLastStateProof ls ps r now)
  | requestFirstLastStateProof ls _ _ => .ok (requestFirstLastStateProof ls r now)
  | requestNewLastStateProof ls ps _ _ => .ok (requestNewLastStateProof ls ps r now)
  | _ => .error 413

def receiveLastStateProof (s : PeerState) (ps : ProveState) : Except Nat PeerState :=
  match s with
  | onlyHasLastState ls | requestFirstLastStateProof ls _ _ | ready ls _
  | requestNewLastStateProof ls _ _ _ => .ok (ready ls ps)
  | _ => .error 413

def requireNewLastState (s : PeerState) (beforeTs : Nat) : Bool :=
  match s with
  | initialized => true
  | onlyHasLastState ls | ready ls _ => ls.updateTs < beforeTs
  | _ => false

def requireNewProof (s : PeerState) : Bool :=
  match s with
  | ready ls ps => ps.last.vid ≠ ls.h.vid
  | onlyHasLastState _ => true
  | _ => false

end PeerState

/-- the three trusted values in the store -/
structure Stored where
  td : Nat
  tip : VH               -- only `hid`, `number` are meaningful for a tip restored from disk
  lastN : List (Nat × Nat)  -- (number, hash)
  deriving Repr, DecidableEq

structure St where
  lastNBlocks : Nat
  timeout : Nat            -- MESSAGE_TIMEOUT
  refreshPeriod : Nat      -- REFRESH_PEERS_DURATION (ms)
  tau : Nat
  peers : List (Nat × PeerState)    -- by peer id, ascending
  stored : Stored
  /-- `rollback_to_block` calls issued by fork handling (for C04), most recent last -/
  rollbacks : List Nat
  deriving Repr, DecidableEq

def getPeer (s : St) (p : Nat) : Option PeerState := (s.peers.find? (·.1 = p)).map (·.2)

def setPeer (s : St) (p : Nat) (ps : PeerState) : St :=
  { s with peers := s.peers.map (fun e => if e.1 = p then (p, ps) else e) }

def insertPeer (peers : List (Nat × PeerState)) (p : Nat) (ps : PeerState) : List (Nat × PeerState) :=
  (peers.filter (·.1 < p)) ++ [(p, ps)] ++ (peers.filter (fun e => p < e.1))

/-- messages the client sends -/
inductive Sent where
  | getLastState (peer : Nat)
  | getLastStateProof (peer : Nat) (content : ReqContent)
  deriving Repr, DecidableEq

structure Out where
  st : St
  outcome : Outcome
  sent : List Sent := []
  deriving Repr

/-! ### building requests (the random part enters as `samples`) -/

/-- `build_prove_request_content` with the sampled difficulties and the boundary as inputs
(`Sampling` layer proves what they satisfy); `none` when no request can be built -/
def buildContent (s : St) (ps? : Option ProveState) (last : VH) (lastTd : Nat)
    (boundary : Nat) (samples : List Nat) : M (Option ReqContent) := do
  let (startHash, startNumber, startTd) ← (match ps? with
    | some ps => do let t ← ps.last.td; pure (ps.last.hid, ps.last.number, t)
    | none => pure (s.stored.tip.hid, s.stored.tip.number, s.stored.td) : M (Nat × Nat × Nat))
  if lastTd < startTd || last.number ≤ startNumber then return none
  if last.number - startNumber ≤ s.lastNBlocks then
    let rec find : List (Nat × Nat) → M (Option (Nat × Nat))
      | [] => pure none
      | (num, hash) :: rest =>
        if num < startNumber then do
          let lim ← addU64 44 num s.lastNBlocks
          if last.number ≤ lim then pure (some (num, hash)) else find rest
        else find rest
    let (rn, rh) := (← find s.stored.lastN).getD (startNumber, startHash)
    return some ⟨last.hid, rh, rn, s.lastNBlocks, startTd, []⟩
  else if startTd = lastTd then return none
  else return some ⟨last.hid, startHash, startNumber, s.lastNBlocks, boundary, samples⟩

/-- `build_prove_request_content_from_genesis` (start = genesis: hash id 0 by convention of the
abstraction, number 0, total difficulty 0) -/
def buildContentFromGenesis (s : St) (last : VH) (lastTd : Nat) (boundary : Nat)
    (samples : List Nat) : Option ReqContent :=
  if last.number ≤ 0 then none
  else if last.number ≤ s.lastNBlocks then some ⟨last.hid, 0, 0, s.lastNBlocks, 0, []⟩
  else if lastTd = 0 then none
  else some ⟨last.hid, 0, 0, s.lastNBlocks, boundary, samples⟩

/-- `find_if_a_header_is_proved`: first peer (in id order — the implementation iterates a
`DashMap`; which peer is found does not matter since all candidates hold the same header) -/
def findProved (s : St) (h : VH) : Option ProveState :=
  s.peers.findSome? (fun e => match e.2.proveState? with
    | some ps => if ps.last.vid = h.vid then some ps else none
    | none => none)

/-- `get_last_state_proof`; `Except Nat` carries a 4xx/5xx status from a failed state transition -/
def getLastStateProof (s : St) (p : Nat) (now : Nat) (boundary : Nat) (samples : List Nat) :
    M (Except Nat (St × List Sent)) := do
  match getPeer s p with
  | none => .error (.expect 62)       -- `expect("checked: should have state")`
  | some pst =>
    match pst.lastState? with
    | none => return .ok (s, [])
    | some ls =>
      let isProved : Bool := (pst.proveState?.map (fun x => decide (x.last.vid = ls.h.vid))).getD false
      if isProved then return .ok (s, [])
      let isRequested : Bool := (pst.proveRequest?.map (fun x => decide (x.last.vid = ls.h.vid))).getD false
      if isRequested then return .ok (s, [])
      match findProved s ls.h with
      | some ps =>
        (match pst.receiveLastStateProof ps with
         | .ok pst' => return .ok (setPeer s p pst', [])
         | .error c => return .error c)
      | none =>
        let lastTd ← ls.h.td
        match ← buildContent s pst.proveState? ls.h lastTd boundary samples with
        | none => return .ok (s, [])
        | some content =>
          match pst.requestLastStateProof ⟨ls.h, content, false, false⟩ now with
          | .ok pst' => return .ok (setPeer s p pst', [.getLastStateProof p content])
          | .error c => return .error c

/-! ### `SendLastState` -/

/-- `check_verifiable_header`: 434 InvalidTotalDifficulty (`check_total_difficulty_for_headers`:
the total difficulty does not fit into 256 bits), 432 InvalidNonce, 431 InvalidChainRoot -/
def checkVerifiable (h : VH) : Option Nat :=
  if !h.tdOk then some 434 else if !h.pow then some 432 else if !h.root then some 431 else none

/-- `ProveState::new_child` -/
def newChild (ps : ProveState) (child : VH) (lastN : Nat) : ProveState :=
  let lh := if lastN ≤ ps.lastHeaders.length then ps.lastHeaders.drop 1 else ps.lastHeaders
  ⟨child, ps.reorgLast, lh ++ [ps.last]⟩

def storeLastState (s : St) (td : Nat) (tip : VH) (lastHeaders : List VH) : St :=
  { s with stored := ⟨td, tip, lastHeaders.map (fun h => (h.number, h.hid))⟩ }

/-- `SendLastStateProcess::execute` -/
def onLastState (s : St) (p : Nat) (h : VH) (now : Nat) (boundary : Nat) (samples : List Nat) :
    M Out := do
  match getPeer s p with
  | none => return ⟨s, .ban 411, []⟩
  | some pst =>
    if let some c := checkVerifiable h then return ⟨s, .ban c, []⟩
    if !h.recent then return ⟨s, .ban 414, []⟩
    let ls : LastState := ⟨h, now⟩
    match pst.lastState? with
    | some prev =>
      if prev.h.vid = h.vid then return ⟨s, .ok, []⟩
      match pst.receiveLastState ls with
      | .error c => return ⟨s, .ban c, []⟩
      | .ok pst1 =>
        let s1 := setPeer s p pst1
        let prevTd ← prev.h.td
        let newTd ← h.td
        if prevTd < newTd then
          match pst.proveState? with
          | some ps =>
            -- the chain root committed by the child has to be the proved parent's
            let provedTd ← ps.last.td
            let rootMatched := decide (h.ptd = provedTd) && decide (h.pend = ps.last.number)
            -- `is_chain_root_matched && prove_state.is_parent_of(..)`: `&&` short-circuits
            if rootMatched then
              if ← isParentOf ps.last h then
                -- `update_prove_state_to_child`
                let child := newChild ps h s.lastNBlocks
                let s2 := if s1.stored.td < newTd then storeLastState s1 newTd h child.lastHeaders else s1
                match pst1.receiveLastStateProof child with
                | .ok pst2 => return ⟨setPeer s2 p pst2, .ok, []⟩
                | .error c => return ⟨s2, .ban c, []⟩
              else return ⟨s1, .ok, []⟩
            else return ⟨s1, .ok, []⟩
          | none => return ⟨s1, .ok, []⟩
        else return ⟨s1, .ok, []⟩
    | none =>
      match pst.receiveLastState ls with
      | .error c => return ⟨s, .ban c, []⟩
      | .ok pst1 =>
        let s1 := setPeer s p pst1
        match ← getLastStateProof s1 p now boundary samples with
        | .ok (s2, sent) => return ⟨s2, .ok, sent⟩
        | .error c => return ⟨s1, .ban c, []⟩

/-! ### `SendLastStateProof` -/

/-- `check_if_response_is_matched`, the branch "no sampled header, and the last-N headers are not
all blocks `[start, last)`" (`!has_all_blocks`); `f` is the first last-N header, `none` = accepted.
When at most last-N blocks are missing (`last_number.saturating_sub(start_number) <= last_n_blocks`)
all of them have to be there: 400.  Otherwise the server has dropped every requested difficulty:
the last-N section has to be complete (more than last-N headers when more than last-N blocks
follow the block that reaches the boundary) and no earlier block may reach the boundary (400), and no
requested difficulty may lie before the section (451; the requested difficulties are increasing,
the implementation looks at the first one). -/
def checkNoSampled (lastN : Nat) (c : ReqContent) (f : VH) (lastNumber lastNCount : Nat) :
    Option Nat :=
  if ¬ lastN < lastNumber - c.startNumber then some 400
  else if decide (lastNCount < lastN) || c.boundary ≤ f.ptd then some 400
  else match c.difficulties with
    | d :: _ => if d ≤ f.ptd then some 451 else none
    | [] => none

/-- `check_if_response_is_matched`: `(reorg_count, sampled_count, last_n_count)` or a status
code (400 malformed, 452 invalid reorg headers, 451 invalid samples).  The caller has checked that
the total difficulty of every header fits into 256 bits.  (`last_last_n_header_number + 1` of the
branch without sampled headers cannot overflow after the `checked_sub` test before it; the model
evaluates it although the implementation's `&&` may skip it.) -/
def checkMatched (lastN : Nat) (c : ReqContent) (headers : List VH) (last : VH) :
    M (Except Nat (Nat × Nat × Nat)) := do
  if headers.isEmpty then return .error 400
  -- sorted (monotonic increasing)
  let rec sorted : List VH → Bool
    | a :: b :: rest => a.number < b.number && sorted (b :: rest)
    | _ => true
  if !sorted headers then return .error 400
  let total := headers.length
  let reorg := (headers.takeWhile (fun h => h.number < c.startNumber)).length
  if reorg ≠ 0 then
    if reorg ≠ lastN then
      if (headers.head?.map (·.number)) ≠ some 1 then return .error 452
    match headers[reorg - 1]? with
    | none => .error (.index 63)
    | some lr =>
      -- `start_number - 1`: start_number > lr.number ≥ 0, cannot underflow
      if lr.number ≠ c.startNumber - 1 then return .error 452
  -- total difficulties of all headers are evaluated lazily by the implementation; the count
  -- below evaluates them front to back until the first one at or above the boundary
  let shape ← (if total - reorg > lastN then do
      let rec countBefore : List VH → M Nat
        | [] => pure 0
        | h :: rest => do
          let t ← h.td
          if t < c.boundary then do let n ← countBefore rest; pure (n + 1) else pure 0
      let before ← countBefore headers
      -- a reorg header reaches the boundary: 452 InvalidReorgHeaders
      if before < reorg then pure (.error 452)
      else
        let lnc := total - before
        if lastN < lnc then
          -- `before_boundary_count - reorg_count`: checked `usize` subtraction
          let sc ← subU64 64 before reorg
          pure (.ok (sc, lnc))
        else pure (.ok (total - reorg - lastN, lastN))
    else pure (.ok (0, total - reorg)) : M (Except Nat (Nat × Nat)))
  match shape with
  | .error c => return .error c
  | .ok (sampled, lastNCount) =>
  -- every block since the first one reaching the boundary has to be in the last-N section
  if sampled ≠ 0 then
    match headers[total - lastNCount]? with
    | none => .error (.index 72)
    | some f => if c.boundary ≤ f.ptd then return .error 400
  -- the last-N section is not empty when there are blocks since the start block ...
  if lastNCount = 0 && decide (c.startNumber < last.number) then
    return .error 400
  -- ... and has to end at the parent of the last header
  if 0 < lastNCount && (headers.getLast?.map (fun l => decide (l.number + 1 = last.number))) ≠ some true then
    return .error 400
  if sampled = 0 then
    if 0 < lastNCount then
      match headers[reorg]?, headers.getLast? with
      | some f, some l =>
        let l1 ← addU64 65 l.number 1
        -- `!has_all_blocks`: the last-N headers are not all blocks `[start, last)`
        if f.number ≠ c.startNumber || l1 ≠ last.number then
          if let some code := checkNoSampled lastN c f last.number lastNCount then
            return .error code
      | _, _ => .error (.index 66)
    return .ok (reorg, sampled, lastNCount)
  else
    match headers[reorg + sampled]? with
    | none => .error (.index 67)
    | some firstLastN =>
      let firstLastNTd ← firstLastN.td
      let diffs := c.difficulties.takeWhile (· < firstLastNTd)
      -- the matching loop over the sampled headers
      let rec matchLoop : List VH → List Nat → M (Option (List Nat))
        | [], ds => pure (some ds)
        | h :: rest, ds => do
          let cur ← h.td
          -- first difficulty must fall into (parent, current]
          match ds with
          | [] => pure none
          | d :: ds' =>
            if h.ptd < d && d ≤ cur then
              -- skip further difficulties inside the same block
              let ds'' := ds'.dropWhile (· ≤ cur)
              matchLoop rest ds''
            else pure none
      match ← matchLoop ((headers.drop reorg).take sampled) diffs with
      | none => return .error 451
      | some remaining =>
        match remaining with
        | [] => return .ok (reorg, sampled, lastNCount)
        | next :: _ =>
          if next ≤ firstLastN.ptd then return .error 451
          else return .ok (reorg, sampled, lastNCount)

/-- `check_continuous_headers`: 435 on the first broken link -/
def checkContinuous : List VH → M (Option Nat)
  | a :: b :: rest => do
    if ← isParentOf a b then checkContinuous (b :: rest) else pure (some 435)
  | _ => pure none

/-- the remembered hash at a block number: the stored tip, else a stored last-N header -/
def remembered (s : St) (n : Nat) : Option Nat :=
  if n = s.stored.tip.number then some s.stored.tip.hid
  else (s.stored.lastN.reverse.find? (·.1 = n)).map (·.2)  -- collected into a HashMap: the last entry of a number wins

/-- fork detection of `commit_prove_state`: `none` = the chain is not reorganised,
`some none` = reorganised but no remembered header is on the new chain (long fork),
`some (some n)` = reorganised after block `n`.  With reorg headers they are compared with the
stored last-N headers; without, the new last headers and the new last header are compared with
the stored last-N headers and the stored tip (a request that starts from a remembered header is
answered without reorg headers even if the chain was reorganised). -/
def forkOf (s : St) (nps : ProveState) : Option (Option Nat) :=
  if nps.reorgLast.isEmpty then
    if s.stored.tip.number = 1 then none
    else
      let new := nps.lastHeaders ++ [nps.last]
      if new.any (fun h => match remembered s h.number with
          | some hash => hash ≠ h.hid
          | none => false) then
        some (new.reverse.findSome? (fun h => match remembered s h.number with
          | some hash => if hash = h.hid then some h.number else none
          | none => none))
      else none
  else
    let fork := nps.reorgLast.reverse.findSome? (fun rh =>
      match s.stored.lastN.reverse.find? (·.1 = rh.number) with
      | some (_, hash) => if hash = rh.hid then some rh.number else none
      | none => none)
    -- the reorg headers belong to the peer's previous prove state; when the store has moved to
    -- the new chain already (another peer), the new last headers contain the stored tip
    if fork.isNone && (nps.lastHeaders ++ [nps.last]).any (fun h => h.hid = s.stored.tip.hid) then none
    else some fork

/-- `commit_prove_state`: `(state, committed?)`; `false` = long fork detected -/
def commitProveState (s : St) (p : Nat) (nps : ProveState) : M (Except Nat (St × Bool)) := do
  let newTd ← nps.last.td
  let mut s1 := s
  if s.stored.td < newTd then
    match forkOf s nps with
    | none =>
      if nps.reorgLast.isEmpty && s.stored.tip.number = 1 then
        s1 := { s1 with rollbacks := s1.rollbacks ++ [1] }
    | some (some toNumber) => s1 := { s1 with rollbacks := s1.rollbacks ++ [toNumber + 1] }
    | some none => return .ok (s, false)
    s1 := storeLastState s1 newTd nps.last nps.lastHeaders
  match getPeer s1 p with
  | none => return .ok (s1, true)
  | some pst =>
    match pst.receiveLastStateProof nps with
    | .ok pst' => return .ok (setPeer s1 p pst', true)
    | .error c => return .error c

/-- the numbers `verify_mmr_proof` checks before the MMR library sees them: the parent chain root
of the last header ends at its parent (`number.checked_sub(1) == Some(end_number)`), which is at
most `MAX_PROVABLE_BLOCK_NUMBER = u64::MAX / 4`, and every proved header is inside the chain root.
(The corresponding checks of the proof items — not part of the abstract message — belong to the
verdict `ProofMsg.mmrOk`; all of them fail with 439 `InvalidProof`.) -/
def mmrStructOk (last : VH) (headers : List VH) : Bool :=
  decide (1 ≤ last.number ∧ last.number - 1 = last.pend) && decide (last.pend ≤ U64_MAX / 4) &&
    headers.all (fun h => decide (h.number ≤ last.pend))

/-- a `SendLastStateProof` message, abstracted -/
structure ProofMsg where
  last : VH
  headers : List VH
  proofEmpty : Bool
  /-- verdict of `verify_mmr_proof` on (last, proof, headers); the handler and-s it with the part
  of the verdict the model computes itself (`mmrStructOk`) -/
  mmrOk : Bool
  deriving Repr

/-- the assembly of the new last-N headers (the `Ordering::{Equal,Greater,Less}` block);
`none` = the "no previous prove state but has reorg blocks" rejection (452) -/
def assembleLastHeaders (lastN : Nat) (pst : PeerState) (headers : List VH)
    (reorg sampled lastNCount : Nat) : M (Option (List VH)) := do
  let newLast := headers.drop (headers.length - lastNCount)
  if lastNCount = lastN then return some newLast
  else if lastN < lastNCount then return some (newLast.drop (lastNCount - lastN))
  else
    let required := lastN - lastNCount
    match pst.proveState? with
    | some ps =>
      let old := if reorg = 0 then ps.lastHeaders else headers.take reorg
      if old.isEmpty then return some newLast
      else return some (old.drop (old.length - required) ++ newLast)
    | none =>
      if reorg = 0 then return some newLast
      else if sampled = 0 && lastNCount ≠ 0 then
        -- `&headers[(reorg_count - 1)..=reorg_count]` (in bounds since `last_n_count != 0`)
        match headers[reorg - 1]?, headers[reorg]? with
        | some a, some b =>
          if ← isParentOf a b then
            let old := headers.take reorg
            return some (old.drop (old.length - required) ++ newLast)
          else return none
        | _, _ => .error (.index 68)
      else return none

/-- the index of the header TAU is checked from: the first header after the reorg section, or
the one after it when that is the genesis header (its epoch field has length 0, so the difficulty
of its epoch cannot be computed from it) -/
def tauStartIdx (headers : List VH) (reorg endIdx : Nat) : Nat :=
  match headers[reorg]? with
  | some h => if h.number = 0 && decide (reorg < endIdx) then reorg + 1 else reorg
  | none => reorg

/-- `SendLastStateProofProcess::execute`.  `boundary`/`samples` feed the requests built on the
recheck paths; `boundaryG`/`samplesG` the from-genesis request after a long fork. -/
def onProof (s : St) (p : Nat) (m : ProofMsg) (now : Nat) (boundary : Nat) (samples : List Nat)
    (boundaryG : Nat) (samplesG : List Nat) : M Out := do
  match getPeer s p with
  | none => return ⟨s, .ban 411, []⟩
  | some pst =>
    match pst.proveRequest? with
    | none => return ⟨s, .ok, []⟩
    | some req =>
      -- `check_total_difficulty_for_headers(last_header)`
      if !m.last.tdOk then return ⟨s, .ban 434, []⟩
      if req.last.vid ≠ m.last.vid then
        if m.proofEmpty then
          -- `process_last_state` + `get_last_state_proof`
          if let some c := checkVerifiable m.last then return ⟨s, .ban c, []⟩
          match pst.receiveLastState ⟨m.last, now⟩ with
          | .error c => return ⟨s, .ban c, []⟩
          | .ok pst1 =>
            let s1 := setPeer s p pst1
            match ← getLastStateProof s1 p now boundary samples with
            | .ok (s2, sent) => return ⟨s2, .ok, sent⟩
            | .error c => return ⟨s1, .ban c, []⟩
        else return ⟨s, .ok, []⟩
      else
        -- `check_total_difficulty_for_headers(headers)`
        if !m.headers.all (·.tdOk) then return ⟨s, .ban 434, []⟩
        match ← checkMatched s.lastNBlocks req.content m.headers m.last with
        | .error c => return ⟨s, .ban c, []⟩
        | .ok (reorg, sampled, lastNCount) =>
          if !m.headers.all (·.root) then return ⟨s, .ban 431, []⟩
          if !m.headers.all (·.pow) then return ⟨s, .ban 432, []⟩
          -- tau
          let tauFailed ← (if req.skipTau then pure false
            else if sampled ≠ 0 then
              match m.headers[tauStartIdx m.headers reorg (reorg + sampled + lastNCount - 1)]?,
                  m.headers[reorg + sampled + lastNCount - 1]? with
              | some sh, some eh =>
                match verifyTau sh.epoch sh.compact eh.epoch eh.compact s.tau with
                | .pass => pure false
                | .fail => pure true
                | .invalidCompactTarget => pure true   -- handled below (ban 433)
              | _, _ => .error (.index 69)
            else pure false : M Bool)
          if !req.skipTau && sampled ≠ 0 then
            match m.headers[tauStartIdx m.headers reorg (reorg + sampled + lastNCount - 1)]?,
                m.headers[reorg + sampled + lastNCount - 1]? with
            | some sh, some eh =>
              if verifyTau sh.epoch sh.compact eh.epoch eh.compact s.tau = .invalidCompactTarget then
                return ⟨s, .ban 433, []⟩
            | _, _ => pure ()
          -- continuity
          if reorg ≠ 0 then
            if let some c ← checkContinuous (m.headers.take reorg) then return ⟨s, .ban c, []⟩
          if let some c ← checkContinuous (m.headers.drop (reorg + sampled)) then
            return ⟨s, .ban c, []⟩
          -- MMR proof
          if !m.last.root then return ⟨s, .ban 439, []⟩
          if !(mmrStructOk m.last m.headers && m.mmrOk) then return ⟨s, .ban 439, []⟩
          -- total difficulty against the previous proof
          if sampled ≠ 0 then
            if let some ps := pst.proveState? then
              let t0 ← ps.last.td
              let t1 ← m.last.td
              match ← verifyTotalDifficulty ps.last.epoch ps.last.compact t0
                      m.last.epoch m.last.compact t1 s.tau with
              | .ok => pure ()
              | _ => return ⟨s, .ban 434, []⟩
          if tauFailed then
            let lastTd ← m.last.td
            match ← buildContent s pst.proveState? m.last lastTd boundary samples with
            | some content =>
              match pst.requestLastStateProof ⟨m.last, content, true, false⟩ now with
              | .ok pst' => return ⟨setPeer s p pst', .recheck, [.getLastStateProof p content]⟩
              | .error c => return ⟨s, .ban c, []⟩
            | none => return ⟨s, .ok, []⟩
          else
            match ← assembleLastHeaders s.lastNBlocks pst m.headers reorg sampled lastNCount with
            | none => return ⟨s, .ban 452, []⟩
            | some lastHeaders =>
              let nps : ProveState := ⟨req.last, m.headers.take reorg, lastHeaders⟩
              if req.longFork then .error (.deliberate 70)
              match ← commitProveState s p nps with
              | .error c => return ⟨s, .ban c, []⟩
              | .ok (s1, true) => return ⟨s1, .ok, []⟩
              | .ok (s1, false) =>
                -- long fork: ask again from genesis
                let lastTd ← nps.last.td
                match buildContentFromGenesis s nps.last lastTd boundaryG samplesG with
                | none => return ⟨s1, .ok, []⟩
                | some content =>
                  match pst.requestLastStateProof ⟨nps.last, content, false, true⟩ now with
                  | .ok pst' => return ⟨setPeer s1 p pst', .recheck, [.getLastStateProof p content]⟩
                  | .error c => return ⟨s1, .ban c, []⟩

/-! ### connect / disconnect / tick -/

def onConnect (s : St) (p : Nat) (now : Nat) : St × List Sent :=
  let s1 := { s with peers := insertPeer s.peers p .initialized }
  match PeerState.requestLastState .initialized now with
  | .ok pst => (setPeer s1 p pst, [.getLastState p])
  | .error _ => (s1, [])

def onDisconnect (s : St) (p : Nat) : St := { s with peers := s.peers.filter (·.1 ≠ p) }

/-- `get_peers_which_have_timeout` restricted to the prove state machine (request slots of
blocks / transactions proofs are in the `Fetch` part of the state, see `PeerSm`) -/
def timedOut (timeout now : Nat) (pst : PeerState) : Bool :=
  -- `when_sent_request().and_then(over-age?).or_else(last state over-age?)`: a fresh request
  -- does not protect a stale last state
  (match pst.whenSent? with
   | some w => decide (w + timeout < now)
   | none => false) ||
  (match pst.lastState? with
   | some ls => decide (ls.updateTs + timeout < now)
   | none => false)

end Prove

namespace Prove

/-- per-peer sampling inputs of one tick: `(peer, boundary, samples)` -/
abbrev SampleInputs := List (Nat × Nat × List Nat)

def samplesFor (si : SampleInputs) (p : Nat) : Nat × List Nat :=
  match si.find? (·.1 = p) with
  | some (_, b, ds) => (b, ds)
  | none => (0, [])

structure TickOut where
  st : St
  disconnect : List Nat
  sent : List Sent
  deriving Repr

/-- `refresh_all_peers` without `finalize_check_points` (Quorum layer): peers are visited in id
order (the implementation's `DashMap` order only permutes independent steps) -/
def onTick (s : St) (now : Nat) (si : SampleInputs) : M TickOut := do
  let timed := (s.peers.filter (fun e => timedOut s.timeout now e.2)).map (·.1)
  -- `now - REFRESH_PEERS_DURATION`: checked `u64` subtraction
  let beforeTs ← subU64 71 now s.refreshPeriod
  let needState := (s.peers.filter (fun e => e.2.requireNewLastState beforeTs)).map (·.1)
  let mut st := s
  let mut sent : List Sent := []
  for p in needState do
    match getPeer st p with
    | some pst =>
      match pst.requestLastState now with
      | .ok pst' => st := setPeer st p pst'; sent := sent ++ [.getLastState p]
      | .error _ => pure ()
    | none => pure ()
  let needProof := (st.peers.filter (fun e => e.2.requireNewProof)).map (·.1)
  for p in needProof do
    let (b, ds) := samplesFor si p
    match ← getLastStateProof st p now b ds with
    | .ok (st', snt) => st := st'; sent := sent ++ snt
    | .error _ => pure ()
  return ⟨st, timed, sent⟩

/-! ### driver -/

def showOutcome : Outcome → String
  | .ok => "ok" | .recheck => "recheck" | .ban c => s!"ban {c}" | .warn c => s!"warn {c}"

def showContent (c : ReqContent) : String :=
  s!"{c.lastHash} {c.startHash} {c.startNumber} {c.lastN} {c.boundary} {c.difficulties.length}"

def showSent : Sent → String
  | .getLastState p => s!"GLS({p})"
  | .getLastStateProof p c => s!"GLSP({p}:{showContent c})"

def kindOf : PeerState → String
  | .initialized => "Initialized"
  | .requestFirstLastState _ => "RequestFirstLastState"
  | .onlyHasLastState _ => "OnlyHasLastState"
  | .requestFirstLastStateProof .. => "RequestFirstLastStateProof"
  | .ready .. => "Ready"
  | .requestNewLastState .. => "RequestNewLastState"
  | .requestNewLastStateProof .. => "RequestNewLastStateProof"

def showOptVid (o : Option Nat) : String := match o with | some v => toString v | none => "-"

/-- canonical dump of the trusted state: per peer the state kind and the identities of its last
state / prove request / prove state (with the numbers of the remembered headers), and the store -/
def showPeer (e : Nat × PeerState) : String :=
  let ps := e.2
  let lhs := match ps.proveState? with
    | some x => s!"{x.lastHeaders.map VH.hid}/{x.reorgLast.map VH.hid}"
    | none => "-"
  let rq := match ps.proveRequest? with
    | some r => s!"{r.last.vid}:{showBool r.skipTau}{showBool r.longFork}:{showContent r.content}"
    | none => "-"
  s!"[{e.1} {kindOf ps} ls={showOptVid (ps.lastState?.map (·.h.vid))} rq={rq} ps={showOptVid (ps.proveState?.map (·.last.vid))} lh={lhs}]"

def showSt (s : St) : String :=
  s!"stored td={s.stored.td} tip={s.stored.tip.hid} lastN={s.stored.lastN} rb={s.rollbacks} peers {" ".intercalate (s.peers.map showPeer)}"

def parseVH : List Nat → Option (VH × List Nat)
  | vid :: hid :: number :: parent :: ptd :: pend :: en :: ei :: el :: compact :: pow :: root :: recent :: rest =>
    some (⟨vid, hid, number, parent, ptd, pend, ⟨en, ei, el⟩, compact, pow = 1, root = 1, recent = 1⟩, rest)
  | _ => none

def parseVHs (fuel : Nat) (l : List Nat) : Option (List VH) :=
  match fuel, l with
  | _, [] => some []
  | 0, _ => none
  | f+1, l => match parseVH l with
    | some (h, rest) => (parseVHs f rest).map (h :: ·)
    | none => none

def parsePairs : List Nat → List (Nat × Nat)
  | a :: b :: rest => (a, b) :: parsePairs rest
  | _ => []

/-- split on a separator token into groups -/
def groups (sep : String) (ts : List String) : List (List String) :=
  ts.foldr (fun t acc => if t = sep then [] :: acc else match acc with
    | g :: gs => (t :: g) :: gs
    | [] => [[t]]) [[]]

def parseSampleInputs (ts : List String) : Option SampleInputs :=
  (groups ";" ts).filter (· ≠ []) |>.mapM (fun g => match natsOf g with
    | some (p :: b :: ds) => some (p, b, ds)
    | _ => none)

/-- ops (groups separated by `|`):
 `init lastN timeout refresh tau storedTd | tip-vh | lastN (number hash)…`
 `connect p now` / `disconnect p`
 `laststate p now boundary | vh | samples…`
 `proof p now boundary boundaryG proofEmpty mmrOk | last-vh | header-vhs… | samples… | samplesG…`
 `tick now | p boundary samples… ; p boundary samples… ; …`
 `dump`
 `matched lastN lastHash startHash startNumber boundary | difficulties… | last-vh | header-vhs…` -/
def stepLine (s : St) (line : String) : St × String :=
  let gs := groups "|" (tokens line)
  match gs with
  | ("init" :: a) :: tip :: lastN :: _ =>
    (match natsOf a, natsOf tip, natsOf lastN with
     | some [ln, to, rf, tau, std], some tip, some lastN =>
       (match parseVH tip with
        | some (t, _) => (⟨ln, to, rf, tau, [], ⟨std, t, parsePairs lastN⟩, []⟩, "ok")
        | none => (s, "bad-op"))
     | _, _, _ => (s, "bad-op"))
  | ["connect", p, now] :: _ =>
    (match p.toNat?, now.toNat? with
     | some p, some now => let (s', sent) := onConnect s p now; (s', s!"sent {sent.map showSent}")
     | _, _ => (s, "bad-op"))
  | ["disconnect", p] :: _ =>
    (match p.toNat? with | some p => (onDisconnect s p, "ok") | none => (s, "bad-op"))
  | ("laststate" :: a) :: vh :: samples :: _ =>
    (match natsOf a, natsOf vh, natsOf samples with
     | some [p, now, boundary], some vh, some samples =>
       (match parseVH vh with
        | some (h, _) =>
          (match onLastState s p h now boundary samples with
           | .ok o => (o.st, s!"{showOutcome o.outcome} sent {o.sent.map showSent}")
           | .error e => (s, showPanic e))
        | none => (s, "bad-op"))
     | _, _, _ => (s, "bad-op"))
  | ("proof" :: a) :: last :: hs :: samples :: samplesG :: _ =>
    (match natsOf a, natsOf last, natsOf hs, natsOf samples, natsOf samplesG with
     | some [p, now, boundary, boundaryG, pe, mmr], some last, some hs, some samples, some samplesG =>
       (match parseVH last, parseVHs (hs.length + 1) hs with
        | some (l, _), some hs =>
          (match onProof s p ⟨l, hs, pe = 1, mmr = 1⟩ now boundary samples boundaryG samplesG with
           | .ok o => (o.st, s!"{showOutcome o.outcome} sent {o.sent.map showSent}")
           | .error e => (s, showPanic e))
        | _, _ => (s, "bad-op"))
     | _, _, _, _, _ => (s, "bad-op"))
  | ["tick", now] :: si :: _ =>
    (match now.toNat?, parseSampleInputs si with
     | some now, some si =>
       (match onTick s now si with
        | .ok o => (o.st, s!"disconnect {o.disconnect} sent {o.sent.map showSent}")
        | .error e => (s, showPanic e))
     | _, _ => (s, "bad-op"))
  | ["dump"] :: _ => ({ s with rollbacks := [] }, showSt s)
  | ("matched" :: a) :: ds :: last :: hs :: _ =>
    -- `check_if_response_is_matched` alone (stateless)
    (match natsOf a, natsOf ds, natsOf last, natsOf hs with
     | some [ln, lastHash, startHash, startNumber, boundary], some ds, some last, some hs =>
       (match parseVH last, parseVHs (hs.length + 1) hs with
        | some (l, _), some hs =>
          (match checkMatched ln ⟨lastHash, startHash, startNumber, ln, boundary, ds⟩ hs l with
           | .ok (.ok (r, sc, k)) => (s, s!"ok {r} {sc} {k}")
           | .ok (.error c) => (s, s!"err {c}")
           | .error e => (s, showPanic e))
        | _, _ => (s, "bad-op"))
     | _, _, _, _ => (s, "bad-op"))
  | _ => (s, "bad-op")

def initSt : St := ⟨100, 60000, 8000, 2, [], ⟨0, ⟨0, 0, 0, 0, 0, 0, ⟨0, 0, 0⟩, 0, true, true, true⟩, []⟩, []⟩

end Prove

import LcModel.Prove.LemmasC05
/-!
# C05 — the shape check accepts the honest answer WITH sampled headers

`checkMatched_sampled`: reorg headers, then sampled headers below the boundary, then the last-N
section, pass `check_if_response_is_matched` with the server's own split, given that the matching
loop consumes the sampled headers (`matchLoop … = some rem`).  `matchLoop_honest`: it does, for
the selection rule of the RFC (every requested difficulty selects the first block that reaches it)
over any chain with increasing total difficulties.
-/
namespace Prove

/-! ## counting the headers below the boundary -/

theorem countBefore_ok (c : ReqContent) : ∀ (l : List VH),
    (∀ x ∈ l, ∃ xtd, x.td = .ok xtd) → ∃ n, checkMatched.countBefore c l = .ok n ∧ n ≤ l.length
  | [], _ => ⟨0, by unfold checkMatched.countBefore; rfl, by simp⟩
  | a :: rest, h => by
    obtain ⟨atd, ha⟩ := h a (List.mem_cons_self ..)
    obtain ⟨n, hn, hle⟩ := countBefore_ok c rest (fun x hx => h x (List.mem_cons_of_mem _ hx))
    unfold checkMatched.countBefore
    by_cases hlt : atd < c.boundary
    · refine ⟨n + 1, ?_, by simp; omega⟩
      simp only [M.bind_eq_ok]
      exact ⟨atd, ha, by simp [hlt, hn]; rfl⟩
    · refine ⟨0, ?_, by simp⟩
      simp only [M.bind_eq_ok]
      exact ⟨atd, ha, by simp [hlt]⟩

theorem countBefore_append_below (c : ReqContent) : ∀ (pre rest : List VH) (n : Nat),
    (∀ x ∈ pre, ∃ xtd, x.td = .ok xtd ∧ xtd < c.boundary) →
    checkMatched.countBefore c rest = .ok n →
    checkMatched.countBefore c (pre ++ rest) = .ok (pre.length + n)
  | [], rest, n, _, h => by simpa using h
  | p :: pre, rest, n, hp, h => by
    obtain ⟨ptd, hptd, hlt⟩ := hp p (List.mem_cons_self ..)
    have ih := countBefore_append_below c pre rest n
      (fun x hx => hp x (List.mem_cons_of_mem _ hx)) h
    simp only [List.cons_append, List.length_cons]
    unfold checkMatched.countBefore
    simp only [M.bind_eq_ok]
    refine ⟨ptd, hptd, ?_⟩
    simp only [hlt, if_true, M.bind_eq_ok, M.pure_eq_ok]
    exact ⟨_, ih, by omega⟩

theorem countBefore_head_stop (c : ReqContent) (a : VH) (t : List VH) (atd : Nat)
    (ha : a.td = .ok atd) (hb : c.boundary ≤ atd) :
    checkMatched.countBefore c (a :: t) = .ok 0 := by
  unfold checkMatched.countBefore
  simp only [M.bind_eq_ok]
  have : ¬ atd < c.boundary := by omega
  exact ⟨atd, ha, by simp [this]⟩

/-! ## the shape with sampled headers -/

/-- after the reorg-section checks: `sc ≥ 1` sampled headers below the boundary from position
`reorg`, then `ln ≥ lastN` last headers (more than `lastN` only when the first of them reaches the
boundary) whose first one's parent does not reach the boundary, ending at the parent of the last
header, pass when the matching loop consumes the sampled headers and leaves no requested
difficulty at or below the parent total difficulty of the first last-N header -/
theorem cmMid_sampled {lastN : Nat} {c : ReqContent} {pre ss : List VH} {a : VH} {t : List VH}
    {l g : VH} {atd : Nat} {rem : List Nat}
    (hss : ss ≠ [])
    (hbelow : ∀ x ∈ pre ++ ss, ∃ xtd, x.td = .ok xtd ∧ xtd < c.boundary)
    (htds : ∀ x ∈ a :: t, ∃ xtd, x.td = .ok xtd)
    (hlen : lastN ≤ (a :: t).length)
    (hatd : a.td = .ok atd)
    (hlong : lastN < (a :: t).length → c.boundary ≤ atd)
    (hb : a.ptd < c.boundary)
    (hg : (a :: t).getLast? = some g) (hgl : g.number + 1 = l.number)
    (hmatch : checkMatched.matchLoop ss (c.difficulties.takeWhile (· < atd)) = .ok (some rem))
    (hrem : ∀ d ∈ rem.head?, a.ptd < d) :
    cmMid lastN c (pre ++ ss ++ a :: t) l pre.length =
      .ok (.ok (pre.length, ss.length, (a :: t).length)) := by
  have hsspos : 0 < ss.length := List.length_pos_iff.2 hss
  obtain ⟨k, hk, hkle⟩ := countBefore_ok c (a :: t) htds
  have hcb : checkMatched.countBefore c (pre ++ ss ++ a :: t) = .ok ((pre ++ ss).length + k) :=
    countBefore_append_below c (pre ++ ss) (a :: t) k hbelow hk
  have htotal : (pre ++ ss ++ a :: t).length = pre.length + ss.length + (a :: t).length := by
    simp only [List.length_append]
  have hk0 : lastN < (a :: t).length → k = 0 := by
    intro h
    have := countBefore_head_stop c a t atd hatd (hlong h)
    rw [this] at hk
    simp only [Except.ok.injEq] at hk
    exact hk.symm
  have hshape : cmShape lastN c (pre ++ ss ++ a :: t) pre.length
      = .ok (.ok (ss.length, (a :: t).length)) := by
    unfold cmShape
    have h1 : (pre ++ ss ++ a :: t).length - pre.length > lastN := by rw [htotal]; omega
    simp only [h1, if_true, M.bind_eq_ok]
    refine ⟨_, hcb, ?_⟩
    have h2 : ¬ (pre ++ ss).length + k < pre.length := by simp only [List.length_append]; omega
    simp only [h2, if_false]
    by_cases hl : lastN < (a :: t).length
    · have := hk0 hl
      subst this
      have h3 : lastN < (pre ++ ss ++ a :: t).length - ((pre ++ ss).length + 0) := by
        rw [htotal]; simp only [List.length_append]; omega
      simp only [h3, if_true, M.bind_eq_ok, subU64_eq_ok, M.pure_eq_ok]
      refine ⟨ss.length, ⟨by simp only [List.length_append]; omega,
        by simp only [List.length_append]; omega⟩, ?_⟩
      rw [htotal]; simp only [List.length_append]
      congr 2
      omega
    · have heq : (a :: t).length = lastN := by omega
      have h3 : ¬ lastN < (pre ++ ss ++ a :: t).length - ((pre ++ ss).length + k) := by
        rw [htotal]; simp only [List.length_append]; omega
      simp only [h3, if_false, M.pure_eq_ok]
      rw [htotal, heq]
      congr 2
      omega
  have hidx : (pre ++ ss ++ a :: t)[pre.length + ss.length]? = some a := by
    rw [List.getElem?_append_right (by simp only [List.length_append]; omega)]
    simp only [List.length_append, Nat.sub_self, List.getElem?_cons_zero]
  have hlast : (pre ++ ss ++ a :: t).getLast? = some g := by
    rw [List.getLast?_append, hg]; rfl
  have htake : ((pre ++ ss ++ a :: t).drop pre.length).take ss.length = ss := by
    rw [List.append_assoc, List.drop_left, List.take_left]
  unfold cmMid
  simp only [hshape, M.bind_eq_ok]
  refine ⟨_, rfl, ?_⟩
  have hne : ss.length ≠ 0 := by omega
  have hi2 : (pre ++ ss ++ a :: t).length - (a :: t).length = pre.length + ss.length := by
    rw [htotal]; omega
  have hnb : ¬ c.boundary ≤ a.ptd := by omega
  simp only [ne_eq, hne, not_false_eq_true, if_true, hi2, hidx, hnb, if_false]
  -- the tail
  have hlnpos : 0 < (a :: t).length := by simp
  have hln0 : (a :: t).length ≠ 0 := by omega
  unfold cmTail
  cases rem with
  | nil =>
    simp [hln0, hlast, hg, hgl, hne, hidx, hatd, htake, bind, Except.bind, hmatch, pure, Except.pure]
  | cons next rest =>
    have : ¬ next ≤ a.ptd := by
      have := hrem next (by simp)
      omega
    simp [hln0, hlast, hg, hgl, hne, hidx, hatd, htake, bind, Except.bind, hmatch, this, pure, Except.pure]

/-- **the shape check accepts an answer with sampled headers**: reorg headers `rs` (below the
start, ending at `start - 1`, `lastN` of them or beginning at block 1, none reaching the boundary),
then sampled headers `s0 :: ss` (at or above the start, none reaching the boundary), then the
last-N section `a :: t` (at least `lastN` headers, more only when `a` reaches the boundary, the
parent of `a` below the boundary, ending at the parent of the last header), the matching loop
consuming the sampled headers -/
theorem checkMatched_sampled {lastN : Nat} {c : ReqContent} {rs : List VH} {s0 : VH} {ss : List VH}
    {a : VH} {t : List VH} {l g : VH} {atd : Nat} {rem : List Nat}
    (hsorted : checkMatched.sorted (rs ++ (s0 :: ss) ++ a :: t) = true)
    (hrs : ∀ x ∈ rs, x.number < c.startNumber)
    (hreorg : rs ≠ [] → (rs.length = lastN ∨ rs.head?.map (·.number) = some 1) ∧
      rs.getLast?.map (·.number) = some (c.startNumber - 1))
    (hstart : c.startNumber ≤ s0.number)
    (hbelow : ∀ x ∈ rs ++ (s0 :: ss), ∃ xtd, x.td = .ok xtd ∧ xtd < c.boundary)
    (htds : ∀ x ∈ a :: t, ∃ xtd, x.td = .ok xtd)
    (hlen : lastN ≤ (a :: t).length)
    (hatd : a.td = .ok atd)
    (hlong : lastN < (a :: t).length → c.boundary ≤ atd)
    (hb : a.ptd < c.boundary)
    (hg : (a :: t).getLast? = some g) (hgl : g.number + 1 = l.number)
    (hmatch : checkMatched.matchLoop (s0 :: ss) (c.difficulties.takeWhile (· < atd))
      = .ok (some rem))
    (hrem : ∀ d ∈ rem.head?, a.ptd < d) :
    checkMatched lastN c (rs ++ (s0 :: ss) ++ a :: t) l =
      .ok (.ok (rs.length, (s0 :: ss).length, (a :: t).length)) := by
  have hmid := cmMid_sampled (lastN := lastN) (c := c) (pre := rs) (ss := s0 :: ss) (a := a)
    (t := t) (l := l) (g := g) (atd := atd) (rem := rem) (by simp) hbelow htds hlen hatd hlong hb
    hg hgl hmatch hrem
  have hassoc : rs ++ (s0 :: ss) ++ a :: t = rs ++ s0 :: (ss ++ a :: t) := by simp
  rw [hassoc] at hsorted hmid ⊢
  exact checkMatched_of_cmMid hsorted hrs hreorg hstart hmid

/-! ## the matching loop consumes the honest selection -/

/-- the first block in `[lo, hi)` whose total difficulty reaches `d` (`hi` if none does):
`get_first_block_total_difficulty_is_not_less_than` of the server -/
def firstReach (td : Nat → Nat) (lo hi d : Nat) : Nat :=
  ((List.range' lo (hi - lo)).find? (fun n => decide (d ≤ td n))).getD hi

theorem firstReach_spec (td : Nat → Nat) (lo hi d : Nat) (hex : ∃ m, lo ≤ m ∧ m < hi ∧ d ≤ td m) :
    lo ≤ firstReach td lo hi d ∧ firstReach td lo hi d < hi ∧ d ≤ td (firstReach td lo hi d) ∧
    ∀ m, lo ≤ m → m < firstReach td lo hi d → td m < d := by
  unfold firstReach
  cases hf : (List.range' lo (hi - lo)).find? (fun n => decide (d ≤ td n)) with
  | none =>
    obtain ⟨m, h1, h2, h3⟩ := hex
    have := List.find?_eq_none.1 hf m (by rw [List.mem_range']; exact ⟨m - lo, by omega, by omega⟩)
    simp at this
    omega
  | some n =>
    simp only [Option.getD_some]
    obtain ⟨hp, as, bs, hl, has⟩ := List.find?_eq_some_iff_append.1 hf
    simp only [decide_eq_true_eq] at hp
    have hmem : n ∈ List.range' lo (hi - lo) := by rw [hl]; simp
    rw [List.mem_range'] at hmem
    obtain ⟨i, hi1, hi2⟩ := hmem
    refine ⟨by omega, by omega, hp, ?_⟩
    intro m hm1 hm2
    -- `as` is the part of the range before `n`
    have hlen : as.length = n - lo := by
      have h1 : (List.range' lo (hi - lo))[as.length]? = some n := by
        rw [hl]; simp
      have hal : as.length < hi - lo := by
        have := congrArg List.length hl
        simp at this; omega
      rw [List.getElem?_range' hal] at h1
      simp only [Option.some.injEq] at h1; omega
    have hmas : m ∈ as := by
      have h2 : (List.range' lo (hi - lo))[m - lo]? = some m := by
        rw [List.getElem?_range' (by omega)]
        congr 1; omega
      rw [hl, List.getElem?_append_left (by omega)] at h2
      exact List.mem_of_getElem? h2
    have := has m hmas
    simp at this
    omega

/-- the blocks an honest server samples for increasing difficulties: each one selects the first
block that reaches it, the following difficulties that the same block reaches select nothing new -/
def sel (td : Nat → Nat) (lo hi : Nat) : List Nat → List Nat
  | [] => []
  | d :: rest =>
    firstReach td lo hi d ::
      sel td lo hi (rest.dropWhile (fun x => decide (x ≤ td (firstReach td lo hi d))))
termination_by ds => ds.length
decreasing_by
  have := (List.dropWhile_sublist (l := rest)
    (fun x => decide (x ≤ td (firstReach td lo hi d)))).length_le
  simp only [List.length_cons]; omega

theorem dropWhile_append_neg {α} (p : α → Bool) (l extra : List α) (h : ∀ e ∈ extra, p e = false) :
    (l ++ extra).dropWhile p = l.dropWhile p ++ extra := by
  induction l with
  | nil =>
    cases extra with
    | nil => rfl
    | cons e es => simp [List.dropWhile, h e (by simp)]
  | cons a as ih =>
    simp only [List.cons_append, List.dropWhile]
    split
    · exact ih
    · rfl

/-- header `h` is block `h.number` of a chain with the total difficulties `td` -/
structure IsBlock (td : Nat → Nat) (h : VH) : Prop where
  ptd : h.ptd = td (h.number - 1)
  tdok : h.td = .ok (td h.number)

/-- **the matching loop of `check_if_response_is_matched` consumes the honest samples**: over a
chain with total difficulties `td`, for increasing requested difficulties `ds` above the start
block's total difficulty that blocks before `hi` reach, followed by difficulties `extra` that no
block before `hi` reaches, the loop run on the headers of the selected blocks leaves exactly
`extra`. -/
theorem matchLoop_honest (td : Nat → Nat) (hdr : Nat → VH)
    (lo hi : Nat) (hhdr : ∀ n, 1 ≤ n → n < hi → IsBlock td (hdr n) ∧ (hdr n).number = n) :
    ∀ (k : Nat) (ds extra : List Nat), ds.length ≤ k →
    (∀ d ∈ ds, td lo < d ∧ ∃ m, lo ≤ m ∧ m < hi ∧ d ≤ td m) →
    (∀ e ∈ extra, ∀ m, m < hi → td m < e) →
    checkMatched.matchLoop ((sel td lo hi ds).map hdr) (ds ++ extra) = .ok (some extra)
  | _, [], extra, _, _, _ => by
    rw [sel]
    unfold checkMatched.matchLoop
    rfl
  | 0, d :: rest, _, hk, _, _ => by simp at hk
  | k + 1, d :: rest, extra, hk, hds, hex => by
    obtain ⟨hlo, hm⟩ := hds d (List.mem_cons_self ..)
    obtain ⟨f1, f2, f3, f4⟩ := firstReach_spec td lo hi d hm
    have hn : lo < firstReach td lo hi d := by
      rcases Nat.lt_or_ge lo (firstReach td lo hi d) with h | h
      · exact h
      · have : firstReach td lo hi d = lo := by omega
        rw [this] at f3; omega
    obtain ⟨hb, hnum⟩ := hhdr (firstReach td lo hi d) (by omega) f2
    have hptd : (hdr (firstReach td lo hi d)).ptd < d := by
      rw [hb.ptd, hnum]
      exact f4 _ (by omega) (by omega)
    rw [sel]
    simp only [List.map_cons, List.cons_append]
    unfold checkMatched.matchLoop
    simp only [M.bind_eq_ok]
    refine ⟨td (firstReach td lo hi d), by rw [hb.tdok, hnum], ?_⟩
    have hcond : (decide ((hdr (firstReach td lo hi d)).ptd < d) &&
        decide (d ≤ td (firstReach td lo hi d))) = true := by
      simp [hptd, f3]
    simp only [hcond, if_true]
    rw [dropWhile_append_neg _ rest extra (by
      intro e he
      have := hex e he (firstReach td lo hi d) f2
      simp; omega)]
    apply matchLoop_honest td hdr lo hi hhdr k
    · have := (List.dropWhile_sublist (l := rest)
        (fun x => decide (x ≤ td (firstReach td lo hi d)))).length_le
      simp only [List.length_cons] at hk; omega
    · intro d' hd'
      exact hds d' (List.mem_cons_of_mem _ ((List.dropWhile_sublist _).subset hd'))
    · exact hex

/-! ## the honest answer is sorted, its samples lie below the boundary block -/

theorem sorted_cons_iff (a b : VH) (rest : List VH) :
    checkMatched.sorted (a :: b :: rest) = true ↔
      a.number < b.number ∧ checkMatched.sorted (b :: rest) = true := by
  conv => lhs; unfold checkMatched.sorted
  simp

theorem sorted_append : ∀ (l1 l2 : List VH), checkMatched.sorted l1 = true →
    checkMatched.sorted l2 = true →
    (∀ a ∈ l1.getLast?, ∀ b ∈ l2.head?, a.number < b.number) →
    checkMatched.sorted (l1 ++ l2) = true
  | [], l2, _, h2, _ => by simpa using h2
  | [a], [], _, _, _ => by simp [checkMatched.sorted]
  | [a], b :: l2, _, h2, h => by
    simp only [List.cons_append, List.nil_append]
    rw [sorted_cons_iff]
    exact ⟨h a (by simp) b (by simp), h2⟩
  | a :: a' :: l1, l2, h1, h2, h => by
    rw [sorted_cons_iff] at h1
    simp only [List.cons_append]
    rw [sorted_cons_iff]
    refine ⟨h1.1, ?_⟩
    have := sorted_append (a' :: l1) l2 h1.2 h2 (by
      intro x hx b hb
      exact h x (by simpa [List.getLast?_cons_cons] using hx) b hb)
    simpa using this

theorem sorted_map_of_increasing (hdr : Nat → VH) :
    ∀ (l : List Nat), (∀ n ∈ l, (hdr n).number = n) → StrictlyIncreasing l →
    checkMatched.sorted (l.map hdr) = true
  | [], _, _ => by simp [checkMatched.sorted]
  | [_], _, _ => by simp [checkMatched.sorted]
  | a :: b :: rest, hnum, h => by
    simp only [List.map_cons]
    rw [sorted_cons_iff, hnum a (by simp), hnum b (by simp)]
    have ih := sorted_map_of_increasing hdr (b :: rest)
      (fun n hn => hnum n (List.mem_cons_of_mem _ hn)) h.2
    exact ⟨h.1, by simpa using ih⟩

theorem range'_increasing : ∀ (n s : Nat), StrictlyIncreasing (List.range' s n)
  | 0, _ => trivial
  | 1, _ => trivial
  | n + 2, s => by
    simp only [List.range'_succ]
    exact ⟨by omega, by simpa [List.range'_succ] using range'_increasing (n + 1) (s + 1)⟩

/-- behind the entries at or below `c` of an increasing list every entry lies above `c` -/
theorem dropWhile_le_above (c : Nat) : ∀ (l : List Nat), l.Pairwise (· < ·) →
    ∀ y ∈ l.dropWhile (fun x => decide (x ≤ c)), c < y
  | [], _, y, hy => by simp at hy
  | a :: t, hp, y, hy => by
    rw [List.pairwise_cons] at hp
    by_cases ha : a ≤ c
    · have : (a :: t).dropWhile (fun x => decide (x ≤ c)) = t.dropWhile (fun x => decide (x ≤ c)) := by
        simp [List.dropWhile, ha]
      rw [this] at hy
      exact dropWhile_le_above c t hp.2 y hy
    · have : (a :: t).dropWhile (fun x => decide (x ≤ c)) = a :: t := by
        simp [List.dropWhile, ha]
      rw [this] at hy
      simp only [List.mem_cons] at hy
      rcases hy with rfl | hy
      · omega
      · have := hp.1 y hy; omega

theorem pairwise_dropWhile {p : Nat → Bool} {l : List Nat} (h : l.Pairwise (· < ·)) :
    (l.dropWhile p).Pairwise (· < ·) := h.sublist (List.dropWhile_sublist p)

/-- the selected blocks lie in `(b, hi)` when the difficulties lie above `td b`, and increase -/
theorem sel_bounds (td : Nat → Nat) (hmono : ∀ m n, m ≤ n → td m ≤ td n) (lo hi : Nat) :
    ∀ (k : Nat) (ds : List Nat) (b : Nat), ds.length ≤ k → lo ≤ b → ds.Pairwise (· < ·) →
    (∀ d ∈ ds, td b < d ∧ ∃ m, lo ≤ m ∧ m < hi ∧ d ≤ td m) →
    (∀ n ∈ sel td lo hi ds, b < n ∧ n < hi) ∧
    StrictlyIncreasing (sel td lo hi ds)
  | _, [], _, _, _, _, _ => by rw [sel]; exact ⟨by simp, trivial⟩
  | 0, d :: rest, _, hk, _, _, _ => by simp at hk
  | k + 1, d :: rest, b, hk, hb, hpw, hds => by
    obtain ⟨hbd, hm⟩ := hds d (List.mem_cons_self ..)
    obtain ⟨f1, f2, f3, f4⟩ := firstReach_spec td lo hi d hm
    have hgt : b < firstReach td lo hi d := by
      rcases Nat.lt_or_ge b (firstReach td lo hi d) with h | h
      · exact h
      · have := hmono _ _ h; omega
    have hpw' := (List.pairwise_cons.1 hpw).2
    have hrest : ∀ d' ∈ rest.dropWhile (fun x => decide (x ≤ td (firstReach td lo hi d))),
        td (firstReach td lo hi d) < d' ∧ ∃ m, lo ≤ m ∧ m < hi ∧ d' ≤ td m := by
      intro d' hd'
      have hin := (List.dropWhile_sublist _).subset hd'
      exact ⟨dropWhile_le_above _ rest hpw' d' hd', (hds d' (List.mem_cons_of_mem _ hin)).2⟩
    have hlen : (rest.dropWhile (fun x => decide (x ≤ td (firstReach td lo hi d)))).length ≤ k := by
      have := (List.dropWhile_sublist (l := rest)
        (fun x => decide (x ≤ td (firstReach td lo hi d)))).length_le
      simp only [List.length_cons] at hk; omega
    have ih := sel_bounds td hmono lo hi k _ (firstReach td lo hi d) hlen (by omega)
      (pairwise_dropWhile hpw') hrest
    rw [sel]
    refine ⟨?_, ?_⟩
    · intro n hn
      simp only [List.mem_cons] at hn
      rcases hn with rfl | hn
      · exact ⟨hgt, f2⟩
      · have := ih.1 n hn
        exact ⟨by omega, this.2⟩
    · cases hs : sel td lo hi (rest.dropWhile (fun x => decide (x ≤ td (firstReach td lo hi d)))) with
      | nil => trivial
      | cons n ns =>
        rw [hs] at ih
        exact ⟨(ih.1 n (by simp)).1, ih.2⟩

/-! ## the honest answer with samples passes the shape check -/

theorem takeWhile_weaken (p q : Nat → Bool) (hpq : ∀ x, p x = true → q x = true) :
    ∀ l : List Nat, l.takeWhile q = l.takeWhile p ++ (l.dropWhile p).takeWhile q
  | [] => by simp
  | a :: t => by
    by_cases hp : p a = true
    · have hq := hpq a hp
      simp [List.takeWhile, List.dropWhile, hp, hq, takeWhile_weaken p q hpq t]
    · simp [List.takeWhile, List.dropWhile, hp]

theorem takeWhile_pred {α} (p : α → Bool) : ∀ (l : List α) (x : α), x ∈ l.takeWhile p → p x = true
  | [], _, h => by simp at h
  | a :: t, x, h => by
    by_cases hp : p a = true
    · simp only [List.takeWhile, hp, List.mem_cons] at h
      rcases h with rfl | h
      · exact hp
      · exact takeWhile_pred p t x h
    · simp [List.takeWhile, hp] at h

theorem mem_of_mem_getLast? {α} {l : List α} {x : α} (h : x ∈ l.getLast?) : x ∈ l :=
  List.mem_of_getLast? h

theorem mem_of_mem_head? {α} {l : List α} {x : α} (h : x ∈ l.head?) : x ∈ l :=
  List.mem_of_head? h

/-- **the honest answer with sampled headers passes `check_if_response_is_matched`.**  Over a
chain with strictly increasing total difficulties `td` whose block `n` has the header `hdr n`:
reorg headers `rs` as the request demands, then the headers of the blocks the server's rule selects
for the requested difficulties up to the total difficulty of the block before the boundary block
`bb` (`sel`), then the blocks `bb .. last - 1` - where the block before `bb` does not reach the
boundary, at least `lastN` blocks follow `bb - 1`, and more than `lastN` only when `bb` itself
reaches the boundary (the first block to do so) - is accepted with the server's own split. -/
theorem checkMatched_honest_sampled (td : Nat → Nat) (hstrict : ∀ m n, m < n → td m < td n)
    (hdr : Nat → VH) (lastN : Nat) (c : ReqContent) (last bb : Nat) (rs : List VH)
    (hhdr : ∀ n, 1 ≤ n → n ≤ last → IsBlock td (hdr n) ∧ (hdr n).number = n)
    (hlo : c.startNumber < bb) (hbl : bb < last)
    (hpw : c.difficulties.Pairwise (· < ·))
    (hgt : ∀ d ∈ c.difficulties, td c.startNumber < d)
    (hsome : c.difficulties.takeWhile (fun d => decide (d ≤ td (bb - 1))) ≠ [])
    (hb1 : td (bb - 1) < c.boundary)
    (hlen : lastN ≤ last - bb) (hlong : lastN < last - bb → c.boundary ≤ td bb)
    (hrsorted : checkMatched.sorted rs = true)
    (hrs : ∀ x ∈ rs, x.number < c.startNumber)
    (hreorg : rs ≠ [] → (rs.length = lastN ∨ rs.head?.map (·.number) = some 1) ∧
      rs.getLast?.map (·.number) = some (c.startNumber - 1))
    (hrtd : ∀ x ∈ rs, ∃ xtd, x.td = .ok xtd ∧ xtd < c.boundary) :
    checkMatched lastN c
      (rs ++ (sel td c.startNumber bb
          (c.difficulties.takeWhile (fun d => decide (d ≤ td (bb - 1))))).map hdr
        ++ (List.range' bb (last - bb)).map hdr) (hdr last) =
      .ok (.ok (rs.length,
        (sel td c.startNumber bb
          (c.difficulties.takeWhile (fun d => decide (d ≤ td (bb - 1))))).length,
        last - bb)) := by
  have hmono : ∀ m n, m ≤ n → td m ≤ td n := by
    intro m n h
    rcases Nat.lt_or_ge m n with h1 | h1
    · exact Nat.le_of_lt (hstrict m n h1)
    · have : m = n := by omega
      subst this; exact Nat.le_refl _
  generalize hds' : c.difficulties.takeWhile (fun d => decide (d ≤ td (bb - 1))) = ds' at hsome ⊢
  have hds'sub : ∀ d ∈ ds', d ∈ c.difficulties ∧ d ≤ td (bb - 1) := by
    intro d hd
    rw [← hds'] at hd
    exact ⟨(List.takeWhile_sublist _).subset hd, by simpa using takeWhile_pred _ _ d hd⟩
  have hds'pw : ds'.Pairwise (· < ·) := by
    rw [← hds']; exact hpw.sublist (List.takeWhile_sublist _)
  have hcond : ∀ d ∈ ds', td c.startNumber < d ∧
      ∃ m, c.startNumber ≤ m ∧ m < bb ∧ d ≤ td m := by
    intro d hd
    obtain ⟨h1, h2⟩ := hds'sub d hd
    exact ⟨hgt d h1, bb - 1, by omega, by omega, h2⟩
  obtain ⟨hselb, hselinc⟩ := sel_bounds td hmono c.startNumber bb ds'.length ds' c.startNumber
    (Nat.le_refl _) (Nat.le_refl _) hds'pw hcond
  -- the sampled section is not empty
  obtain ⟨d0, dr, hd0⟩ : ∃ d0 dr, ds' = d0 :: dr := by
    cases ds' with
    | nil => exact absurd rfl hsome
    | cons d0 dr => exact ⟨d0, dr, rfl⟩
  obtain ⟨n0, ns, hsel⟩ : ∃ n0 ns, sel td c.startNumber bb ds' = n0 :: ns := by
    rw [hd0, sel]; exact ⟨_, _, rfl⟩
  -- the last-N section
  obtain ⟨w, hw⟩ : ∃ w, last - bb = w + 1 := ⟨last - bb - 1, by omega⟩
  have hrange : (List.range' bb (last - bb)).map hdr =
      hdr bb :: (List.range' (bb + 1) w).map hdr := by
    rw [hw, List.range'_succ]; rfl
  have hln : (hdr bb :: (List.range' (bb + 1) w).map hdr).length = last - bb := by
    simp; omega
  have hA := (hhdr bb (by omega) (by omega)).1
  have hAnum := (hhdr bb (by omega) (by omega)).2
  have hsel1 : ∀ n ∈ sel td c.startNumber bb ds', 1 ≤ n ∧ n ≤ last := fun n hn => by
    have := hselb n hn; omega
  -- the difficulties the loop sees
  have hsplit : c.difficulties.takeWhile (fun d => decide (d < td bb)) =
      ds' ++ (c.difficulties.dropWhile (fun d => decide (d ≤ td (bb - 1)))).takeWhile
        (fun d => decide (d < td bb)) := by
    rw [← hds']
    apply takeWhile_weaken
    intro x hx
    have : td (bb - 1) < td bb := hstrict _ _ (by omega)
    simp only [decide_eq_true_eq] at hx ⊢
    omega
  generalize hextra : (c.difficulties.dropWhile (fun d => decide (d ≤ td (bb - 1)))).takeWhile
        (fun d => decide (d < td bb)) = extra at hsplit
  have hextra_above : ∀ e ∈ extra, td (bb - 1) < e := by
    intro e he
    rw [← hextra] at he
    exact dropWhile_le_above _ _ hpw e ((List.takeWhile_sublist _).subset he)
  have hmatch : checkMatched.matchLoop ((sel td c.startNumber bb ds').map hdr)
      (c.difficulties.takeWhile (fun d => decide (d < td bb))) = .ok (some extra) := by
    rw [hsplit]
    apply matchLoop_honest td hdr c.startNumber bb (fun n h1 h2 => hhdr n h1 (by omega))
      ds'.length ds' extra (Nat.le_refl _) hcond
    intro e he m hm
    have := hextra_above e he
    have := hmono m (bb - 1) (by omega)
    omega
  -- assemble
  have hres := checkMatched_sampled (lastN := lastN) (c := c) (rs := rs) (s0 := hdr n0)
    (ss := ns.map hdr) (a := hdr bb) (t := (List.range' (bb + 1) w).map hdr) (l := hdr last)
    (g := hdr (last - 1)) (atd := td bb) (rem := extra)
    (by
      -- sorted
      have h1 : checkMatched.sorted ((n0 :: ns).map hdr) = true :=
        sorted_map_of_increasing hdr _ (fun n hn => (hhdr n (hsel1 n (hsel ▸ hn)).1 (hsel1 n (hsel ▸ hn)).2).2) (hsel ▸ hselinc)
      have h2 : checkMatched.sorted ((List.range' bb (last - bb)).map hdr) = true :=
        sorted_map_of_increasing hdr _ (fun n hn => (hhdr n (by
          have := (List.mem_range'.1 hn); obtain ⟨i, _, hi⟩ := this; omega) (by
          have := (List.mem_range'.1 hn); obtain ⟨i, _, hi⟩ := this; omega)).2) (range'_increasing _ _)
      rw [hrange] at h2
      have h12 := sorted_append _ _ h1 h2 (by
        intro x hx y hy
        have hxm := mem_of_mem_getLast? hx
        obtain ⟨n, hn, rfl⟩ := List.mem_map.1 hxm
        have := (hselb n (hsel ▸ hn)).2
        simp only [List.head?_cons, Option.mem_def, Option.some.injEq] at hy
        subst hy
        rw [(hhdr n (hsel1 n (hsel ▸ hn)).1 (hsel1 n (hsel ▸ hn)).2).2, hAnum]; exact this)
      have := sorted_append rs _ hrsorted h12 (by
        intro x hx y hy
        have hxm := mem_of_mem_getLast? hx
        simp only [List.map_cons, List.cons_append, List.head?_cons, Option.mem_def,
          Option.some.injEq] at hy
        subst hy
        have := hrs x hxm
        have := (hselb n0 (hsel ▸ List.mem_cons_self ..)).1
        rw [(hhdr n0 (hsel1 n0 (hsel ▸ List.mem_cons_self ..)).1 (hsel1 n0 (hsel ▸ List.mem_cons_self ..)).2).2]; omega)
      simpa [List.append_assoc] using this)
    hrs hreorg
    (by rw [(hhdr n0 (hsel1 n0 (hsel ▸ List.mem_cons_self ..)).1 (hsel1 n0 (hsel ▸ List.mem_cons_self ..)).2).2]
        exact Nat.le_of_lt (hselb n0 (hsel ▸ List.mem_cons_self ..)).1)
    (by
      intro x hx
      simp only [List.mem_append] at hx
      rcases hx with hx | hx
      · exact hrtd x hx
      · have hx' : x ∈ (n0 :: ns).map hdr := by simpa using hx
        obtain ⟨n, hn, rfl⟩ := List.mem_map.1 hx'
        have hlt := (hselb n (hsel ▸ hn)).2
        have := hmono n (bb - 1) (by omega)
        have h1 := hsel1 n (hsel ▸ hn)
        exact ⟨td n, by rw [(hhdr n h1.1 h1.2).1.tdok, (hhdr n h1.1 h1.2).2], by omega⟩)
    (by
      intro x hx
      have hx' : x ∈ (List.range' bb (last - bb)).map hdr := by rw [hrange]; exact hx
      obtain ⟨n, hn, rfl⟩ := List.mem_map.1 hx'
      have h1 : 1 ≤ n ∧ n ≤ last := by
        obtain ⟨i, _, hi⟩ := List.mem_range'.1 hn; omega
      exact ⟨td n, by rw [(hhdr n h1.1 h1.2).1.tdok, (hhdr n h1.1 h1.2).2]⟩)
    (by rw [hln]; exact hlen)
    (by rw [hA.tdok, hAnum])
    (by rw [hln]; exact hlong)
    (by rw [hA.ptd, hAnum]; exact hb1)
    (by
      rw [← hrange]
      have : (List.range' bb (last - bb)).getLast? = some (last - 1) := by
        rw [hw, List.getLast?_range']
        simp; omega
      rw [List.getLast?_map, this]; rfl)
    (by rw [(hhdr (last - 1) (by omega) (by omega)).2, (hhdr last (by omega) (by omega)).2]; omega)
    (by rw [← List.map_cons, ← hsel]; exact hmatch)
    (by
      intro d hd
      rw [hA.ptd, hAnum]
      exact hextra_above d (mem_of_mem_head? hd))
  rw [hsel, hrange]
  rw [show (n0 :: ns).map hdr = hdr n0 :: ns.map hdr from rfl]
  rw [hres, hln]
  simp

end Prove

import LcModel.Prove.LemmasC01
/-! helper lemmas for the Prove layer -/
namespace Prove

/-! ### paths -/

theorem Path.single {a b : Kind} (e : Edge a b) : Path a b := .cons e (.nil b)

theorem Path.trans {a b c : Kind} (h1 : Path a b) (h2 : Path b c) : Path a c := by
  induction h1 with
  | nil k => exact h2
  | cons e _ ih => exact .cons e (ih h2)

/-! ### the four transition functions -/

namespace PeerState

theorem requestLastState_ok {a a' : PeerState} {now : Nat} (h : a.requestLastState now = .ok a') :
    Edge (kind a) (kind a') ∧ a'.proveState? = a.proveState? := by
  cases a <;> simp [requestLastState] at h <;> subst h <;>
    first
      | exact ⟨.e12, rfl⟩
      | exact ⟨.self _, rfl⟩
      | exact ⟨.e56, rfl⟩

theorem receiveLastState_ok {a a' : PeerState} {n : LastState} (h : a.receiveLastState n = .ok a') :
    Edge (kind a) (kind a') ∧ a'.proveState? = a.proveState? ∧
    a'.proveRequest? = a.proveRequest? ∧ a'.lastState? = some n := by
  cases a <;> simp [receiveLastState] at h <;> subst h <;>
    first
      | exact ⟨.e23, rfl, rfl, rfl⟩
      | exact ⟨.self _, rfl, rfl, rfl⟩
      | exact ⟨.e65, rfl, rfl, rfl⟩

theorem requestLastStateProof_ok {a a' : PeerState} {r : ProveRequest} {now : Nat}
    (h : a.requestLastStateProof r now = .ok a') :
    Edge (kind a) (kind a') ∧ a'.proveState? = a.proveState? := by
  cases a <;> simp [requestLastStateProof] at h <;> subst h <;>
    first
      | exact ⟨.e34, rfl⟩
      | exact ⟨.self _, rfl⟩
      | exact ⟨.e57, rfl⟩

theorem receiveLastStateProof_ok {a a' : PeerState} {ps : ProveState}
    (h : a.receiveLastStateProof ps = .ok a') :
    Edge (kind a) (kind a') ∧ a'.proveState? = some ps := by
  cases a <;> simp [receiveLastStateProof] at h <;> subst h <;>
    first
      | exact ⟨.copy, rfl⟩
      | exact ⟨.e45, rfl⟩
      | exact ⟨.self _, rfl⟩
      | exact ⟨.e75, rfl⟩

/-- a state holding a proved state and a last state accepts a new proved state -/
theorem receiveLastStateProof_isOk_of_proveState {a : PeerState} {ps0 : ProveState}
    (h0 : a.proveState? = some ps0) (hk : kind a ≠ .st6) (ps : ProveState) :
    ∃ a', a.receiveLastStateProof ps = .ok a' := by
  cases a <;> simp [proveState?, kind] at h0 hk <;> simp [receiveLastStateProof]

theorem receiveLastState_kind_ne_st6 {a a' : PeerState} {n : LastState}
    (h : a.receiveLastState n = .ok a') : kind a' ≠ .st6 := by
  cases a <;> simp [receiveLastState] at h <;> subst h <;> simp [kind]

theorem lastState_of_proveState {a : PeerState} {ps : ProveState} (h : a.proveState? = some ps) :
    ∃ ls, a.lastState? = some ls := by
  cases a <;> simp [proveState?] at h <;> simp [lastState?]

end PeerState

/-! ### `getPeer` / `setPeer` -/

theorem getPeer_setPeer (s : St) (p q : Nat) (x : PeerState) :
    getPeer (setPeer s p x) q =
      if q = p then (getPeer s p).map (fun _ => x) else getPeer s q := by
  unfold getPeer setPeer
  simp only
  induction s.peers with
  | nil => simp
  | cons e rest ih =>
    by_cases he : e.1 = p
    · by_cases hq : q = p
      · subst hq; simp [he]
      · have : ¬ p = q := fun h => hq h.symm
        have : ¬ e.1 = q := fun h => hq (h.symm.trans he)
        simp_all
    · by_cases hq : q = p
      · subst hq; simp_all
      · by_cases heq : e.1 = q <;> simp_all

theorem getPeer_setPeer_self_b {s : St} {p : Nat} {a : PeerState} (x : PeerState)
    (h : getPeer s p = some a) : getPeer (setPeer s p x) p = some x := by
  simp [getPeer_setPeer, h]

theorem getPeer_setPeer_ne (s : St) {p q : Nat} (x : PeerState) (h : q ≠ p) :
    getPeer (setPeer s p x) q = getPeer s q := by
  simp [getPeer_setPeer, h]

@[simp] theorem setPeer_stored_b (s : St) (p : Nat) (x : PeerState) :
    (setPeer s p x).stored = s.stored := rfl

@[simp] theorem setPeer_lastNBlocks_b (s : St) (p : Nat) (x : PeerState) :
    (setPeer s p x).lastNBlocks = s.lastNBlocks := rfl

theorem getPeer_congr_b {s s' : St} (h : s'.peers = s.peers) (q : Nat) : getPeer s' q = getPeer s q := by
  unfold getPeer; rw [h]

theorem trustedOf_setPeer_self_b {s : St} {p : Nat} {a : PeerState} (x : PeerState)
    (h : getPeer s p = some a) : trustedOf (setPeer s p x) p = x.proveState? := by
  simp [trustedOf, getPeer_setPeer_self_b x h]

theorem getPeer_mem_b {s : St} {q : Nat} {a : PeerState} (h : getPeer s q = some a) :
    (q, a) ∈ s.peers := by
  unfold getPeer at h
  cases hf : s.peers.find? (·.1 = q) with
  | none => simp [hf] at h
  | some e =>
    simp [hf] at h
    have h1 := List.find?_some hf
    have h2 := List.mem_of_find?_eq_some hf
    simp at h1
    obtain ⟨e1, e2⟩ := e
    simp at h h1
    subst h h1
    exact h2

/-! ### the diagram relation -/

/-- every peer moves along a path of edges; peers other than `p` do not move -/
def Moves (p : Nat) (s s' : St) : Prop :=
  ∀ q a, getPeer s q = some a →
    ∃ a', getPeer s' q = some a' ∧ Path (kind a) (kind a') ∧ (q ≠ p → a' = a)

theorem Moves.refl (p : Nat) (s : St) : Moves p s s :=
  fun _ a h => ⟨a, h, .nil _, fun _ => rfl⟩

theorem Moves.of_peers_eq {p : Nat} {s s' : St} (h : s'.peers = s.peers) : Moves p s s' :=
  fun q a hq => ⟨a, (getPeer_congr_b h q).trans hq, .nil _, fun _ => rfl⟩

theorem Moves.trans {p : Nat} {s s' s'' : St} (h1 : Moves p s s') (h2 : Moves p s' s'') :
    Moves p s s'' := by
  intro q a hq
  obtain ⟨a', ha', hp', he'⟩ := h1 q a hq
  obtain ⟨a'', ha'', hp'', he''⟩ := h2 q a' ha'
  exact ⟨a'', ha'', hp'.trans hp'', fun hne => (he'' hne).trans (he' hne)⟩

theorem Moves.setPeer {p : Nat} {s : St} {a x : PeerState} (h : getPeer s p = some a)
    (hp : Path (kind a) (kind x)) : Moves p s (setPeer s p x) := by
  intro q b hq
  by_cases hqp : q = p
  · subst hqp
    rw [h] at hq; cases hq
    exact ⟨x, getPeer_setPeer_self_b x h, hp, fun hne => absurd rfl hne⟩
  · exact ⟨b, (getPeer_setPeer_ne s x hqp).trans hq, .nil _, fun _ => rfl⟩

theorem Moves.setPeer_edge {p : Nat} {s : St} {a x : PeerState} (h : getPeer s p = some a)
    (hp : Edge (kind a) (kind x)) : Moves p s (Prove.setPeer s p x) :=
  Moves.setPeer h (.single hp)

/-! ### `getLastStateProof` -/

theorem findProved_some_b {s : St} {h : VH} {ps : ProveState} (hf : findProved s h = some ps) :
    ∃ e ∈ s.peers, e.2.proveState? = some ps := by
  unfold findProved at hf
  obtain ⟨e, he, hfe⟩ := List.exists_of_findSome?_eq_some hf
  refine ⟨e, he, ?_⟩
  split at hfe
  · split at hfe
    · simp at hfe; subst hfe; assumption
    · simp at hfe
  · simp at hfe

/-- what `getLastStateProof` can do -/
theorem getLastStateProof_ok {s s' : St} {p now b : Nat} {ds : List Nat} {sent : List Sent}
    (h : getLastStateProof s p now b ds = .ok (.ok (s', sent))) :
    s' = s ∨ ∃ pst pst', getPeer s p = some pst ∧ s' = setPeer s p pst' ∧
      ((∃ ls ps, pst.lastState? = some ls ∧ findProved s ls.h = some ps ∧
          pst.receiveLastStateProof ps = .ok pst') ∨
       (∃ r, pst.requestLastStateProof r now = .ok pst')) := by
  unfold getLastStateProof at h
  split at h
  · simp at h
  · rename_i pst hp
    split at h
    · simp [pure, Except.pure] at h; exact .inl h.1.symm
    · rename_i ls hls
      simp only [] at h
      split at h
      · simp [pure, Except.pure] at h; exact .inl h.1.symm
      · split at h
        · simp [pure, Except.pure] at h; exact .inl h.1.symm
        · split at h
          · rename_i ps hps
            split at h
            · rename_i pst' hpst'
              simp [pure, Except.pure] at h
              exact .inr ⟨pst, pst', hp, h.1.symm, .inl ⟨ls, ps, hls, hps, hpst'⟩⟩
            · simp [pure, Except.pure] at h
          · simp only [M.bind_eq_ok] at h
            obtain ⟨lastTd, _, c, _, h⟩ := h
            split at h
            · simp [pure, Except.pure] at h; exact .inl h.1.symm
            · split at h
              · rename_i pst' hpst'
                simp [pure, Except.pure] at h
                exact .inr ⟨pst, pst', hp, h.1.symm, .inr ⟨_, hpst'⟩⟩
              · simp [pure, Except.pure] at h

theorem getLastStateProof_moves {s s' : St} {p now b : Nat} {ds : List Nat} {sent : List Sent}
    (h : getLastStateProof s p now b ds = .ok (.ok (s', sent))) :
    s'.stored = s.stored ∧ s'.lastNBlocks = s.lastNBlocks ∧ Moves p s s' := by
  rcases getLastStateProof_ok h with rfl | ⟨pst, pst', hp, rfl, hc⟩
  · exact ⟨rfl, rfl, Moves.refl _ _⟩
  · refine ⟨rfl, rfl, ?_⟩
    rcases hc with ⟨ls, ps, _, _, hc⟩ | ⟨r, hc⟩
    · exact Moves.setPeer_edge hp (PeerState.receiveLastStateProof_ok hc).1
    · exact Moves.setPeer_edge hp (PeerState.requestLastStateProof_ok hc).1

/-- the proved state of `p` after `getLastStateProof` is the old one or a copy of a proved state
held by some entry of the peer list -/
theorem getLastStateProof_trusted {s s' : St} {p now b : Nat} {ds : List Nat} {sent : List Sent}
    (h : getLastStateProof s p now b ds = .ok (.ok (s', sent))) :
    trustedOf s' p = trustedOf s p ∨
      ∃ e ∈ s.peers, ∃ ps, e.2.proveState? = some ps ∧ trustedOf s' p = some ps := by
  rcases getLastStateProof_ok h with rfl | ⟨pst, pst', hp, rfl, hc⟩
  · exact .inl rfl
  · rw [trustedOf_setPeer_self_b pst' hp]
    rcases hc with ⟨ls, ps, _, hf, hc⟩ | ⟨r, hc⟩
    · obtain ⟨e, he, hps⟩ := findProved_some_b hf
      exact .inr ⟨e, he, ps, hps, (PeerState.receiveLastStateProof_ok hc).2⟩
    · left
      rw [(PeerState.requestLastStateProof_ok hc).2]
      simp [trustedOf, hp]

/-! ### `onLastState` -/

/-- the control-flow paths of `onLastState` -/
inductive LastStateCase (s : St) (p : Nat) (h : VH) (now b : Nat) (ds : List Nat) (out : Out) : Prop
  | same : out.st = s → LastStateCase s p h now b ds out
  | moved (pst pst1 : PeerState) (prev : LastState) :
      getPeer s p = some pst → pst.lastState? = some prev →
      pst.receiveLastState ⟨h, now⟩ = .ok pst1 → out.st = setPeer s p pst1 →
      LastStateCase s p h now b ds out
  | child (pst pst1 pst2 : PeerState) (prev : LastState) (ps : ProveState) (newTd : Nat) :
      getPeer s p = some pst → pst.lastState? = some prev →
      pst.receiveLastState ⟨h, now⟩ = .ok pst1 → pst.proveState? = some ps →
      h.td = .ok newTd → ps.last.td = .ok h.ptd → h.pend = ps.last.number →
      isParentOf ps.last h = .ok true →
      pst1.receiveLastStateProof (newChild ps h s.lastNBlocks) = .ok pst2 →
      out.st = setPeer (if s.stored.td < newTd then
          storeLastState (setPeer s p pst1) newTd h (newChild ps h s.lastNBlocks).lastHeaders
        else setPeer s p pst1) p pst2 →
      LastStateCase s p h now b ds out
  | first (pst pst1 : PeerState) :
      getPeer s p = some pst → pst.lastState? = none →
      pst.receiveLastState ⟨h, now⟩ = .ok pst1 →
      (out.st = setPeer s p pst1 ∨
        ∃ sent, getLastStateProof (setPeer s p pst1) p now b ds = .ok (.ok (out.st, sent))) →
      LastStateCase s p h now b ds out

theorem onLastState_ok {s : St} {p : Nat} {h : VH} {now b : Nat} {ds : List Nat} {out : Out}
    (hr : onLastState s p h now b ds = .ok out) : LastStateCase s p h now b ds out := by
  unfold onLastState at hr
  split at hr
  · simp [pure, Except.pure] at hr; subst hr; exact .same rfl
  · rename_i pst hp
    split at hr
    · simp [pure, Except.pure] at hr; subst hr; exact .same rfl
    · split at hr
      · simp [pure, Except.pure] at hr; subst hr; exact .same rfl
      · simp only [] at hr
        split at hr
        · rename_i prev hprev
          split at hr
          · simp [pure, Except.pure] at hr; subst hr; exact .same rfl
          · split at hr
            · simp [pure, Except.pure] at hr; subst hr; exact .same rfl
            · rename_i pst1 hpst1
              simp only [M.bind_eq_ok] at hr
              obtain ⟨prevTd, _, newTd, hnewTd, hr⟩ := hr
              split at hr
              · split at hr
                · rename_i ps hps
                  simp only [M.bind_eq_ok] at hr
                  obtain ⟨provedTd, hprovedTd, hr⟩ := hr
                  split at hr
                  · rename_i hcond
                    simp at hcond
                    obtain ⟨h1, h2⟩ := hcond
                    simp only [M.bind_eq_ok] at hr
                    obtain ⟨isp, hisp, hr⟩ := hr
                    split at hr
                    · rename_i h3
                      subst h3
                      obtain ⟨pst2, hpst2⟩ := PeerState.receiveLastStateProof_isOk_of_proveState
                        ((PeerState.receiveLastState_ok hpst1).2.1.trans hps)
                        (PeerState.receiveLastState_kind_ne_st6 hpst1) (newChild ps h s.lastNBlocks)
                      rw [hpst2] at hr
                      simp [pure, Except.pure] at hr; subst hr
                      exact .child pst pst1 pst2 prev ps newTd hp hprev hpst1 hps hnewTd
                        (h1 ▸ hprovedTd) h2 hisp hpst2 rfl
                    · simp [pure, Except.pure] at hr; subst hr
                      exact .moved pst pst1 prev hp hprev hpst1 rfl
                  · simp [pure, Except.pure] at hr; subst hr
                    exact .moved pst pst1 prev hp hprev hpst1 rfl
                · simp [pure, Except.pure] at hr; subst hr
                  exact .moved pst pst1 prev hp hprev hpst1 rfl
              · simp [pure, Except.pure] at hr; subst hr
                exact .moved pst pst1 prev hp hprev hpst1 rfl
        · rename_i hnone
          split at hr
          · simp [pure, Except.pure] at hr; subst hr; exact .same rfl
          · rename_i pst1 hpst1
            simp only [M.bind_eq_ok] at hr
            obtain ⟨r, hg, hr⟩ := hr
            split at hr
            · simp [pure, Except.pure] at hr; subst hr
              exact .first pst pst1 hp hnone hpst1 (.inr ⟨_, hg⟩)
            · simp [pure, Except.pure] at hr; subst hr
              exact .first pst pst1 hp hnone hpst1 (.inl rfl)

/-! ### `onTick` -/

/-- every peer moves along a path of edges -/
def MovesAny (s s' : St) : Prop :=
  ∀ q a, getPeer s q = some a → ∃ a', getPeer s' q = some a' ∧ Path (kind a) (kind a')

theorem MovesAny.refl (s : St) : MovesAny s s := fun _ a h => ⟨a, h, .nil _⟩

theorem Moves.any {p : Nat} {s s' : St} (h : Moves p s s') : MovesAny s s' := by
  intro q a hq
  obtain ⟨a', h1, h2, _⟩ := h q a hq
  exact ⟨a', h1, h2⟩

theorem MovesAny.trans {s s' s'' : St} (h1 : MovesAny s s') (h2 : MovesAny s' s'') :
    MovesAny s s'' := by
  intro q a hq
  obtain ⟨a', ha', hp'⟩ := h1 q a hq
  obtain ⟨a'', ha'', hp''⟩ := h2 q a' ha'
  exact ⟨a'', ha'', hp'.trans hp''⟩

/-- invariant rule for a `for` loop over a list in `Except` -/
theorem forIn_list_inv {α : Type u} {β ε : Type v} (P : β → Prop)
    (f : α → β → Except ε (ForInStep β))
    (hf : ∀ a b r, P b → f a b = .ok r → P (match r with | .yield x => x | .done x => x)) :
    ∀ (l : List α) (init res : β), P init → forIn l init f = .ok res → P res := by
  intro l
  induction l with
  | nil => intro init res h0 h; simp [pure, Except.pure] at h; subst h; exact h0
  | cons a l ih =>
    intro init res h0 h
    rw [List.forIn_cons] at h
    cases hfa : f a init with
    | error e => simp [hfa, bind, Except.bind] at h
    | ok r =>
      have := hf a init r h0 hfa
      cases r with
      | done x => simp [hfa, bind, Except.bind, pure, Except.pure] at h; subst h; exact this
      | yield x => simp [hfa, bind, Except.bind] at h; exact ih x res this h

theorem onTick_ok {s : St} {now : Nat} {si : SampleInputs} {out : TickOut}
    (hr : onTick s now si = .ok out) :
    out.disconnect = (s.peers.filter (fun e => timedOut s.timeout now e.2)).map (·.1) ∧
    out.st.stored = s.stored ∧ MovesAny s out.st := by
  unfold onTick at hr
  simp only [M.bind_eq_ok, subU64_eq_ok] at hr
  obtain ⟨beforeTs, _, r1, h1, r2, h2, hr⟩ := hr
  simp [pure, Except.pure] at hr
  subst hr
  refine ⟨rfl, ?_⟩
  have inv1 := forIn_list_inv (fun r : St × List Sent => r.1.stored = s.stored ∧ MovesAny s r.1)
    _ ?_ _ _ _ ⟨rfl, MovesAny.refl s⟩ h1
  · refine forIn_list_inv (fun r : St × List Sent => r.1.stored = s.stored ∧ MovesAny s r.1)
      _ ?_ _ _ _ inv1 h2
    intro p st r ⟨hs, hm⟩ hf
    simp only [M.bind_eq_ok] at hf
    obtain ⟨g, hg, hf⟩ := hf
    split at hf
    · simp [pure, Except.pure] at hf; subst hf
      have := getLastStateProof_moves hg
      exact ⟨this.1.trans hs, hm.trans this.2.2.any⟩
    · simp [pure, Except.pure] at hf; subst hf; exact ⟨hs, hm⟩
  · intro p st r ⟨hs, hm⟩ hf
    split at hf
    · rename_i pst hp
      split at hf
      · rename_i pst' hpst'
        simp [pure, Except.pure] at hf; subst hf
        exact ⟨hs, hm.trans (Moves.setPeer_edge hp (PeerState.requestLastState_ok hpst').1).any⟩
      · simp [pure, Except.pure] at hf; subst hf; exact ⟨hs, hm⟩
    · simp [pure, Except.pure] at hf; subst hf; exact ⟨hs, hm⟩

/-! ### `commitProveState` -/

/-- the final peer update of `commitProveState` -/
def CommitTail (s0 s1 : St) (p : Nat) (nps : ProveState) : Prop :=
  (getPeer s0 p = none ∧ s1 = s0) ∨
    ∃ pst pst', getPeer s0 p = some pst ∧ pst.receiveLastStateProof nps = .ok pst' ∧
      s1 = setPeer s0 p pst'

theorem commitTail_ok {s0 s1 : St} {p : Nat} {nps : ProveState} {c : Bool}
    (h : (match getPeer s0 p with
          | none => (pure (Except.ok (s0, true)) : M (Except Nat (St × Bool)))
          | some pst =>
            match pst.receiveLastStateProof nps with
            | .ok pst' => pure (.ok (setPeer s0 p pst', true))
            | .error c => pure (.error c)) = .ok (.ok (s1, c))) :
    c = true ∧ CommitTail s0 s1 p nps := by
  split at h
  · rename_i hn
    simp [pure, Except.pure] at h
    exact ⟨h.2, .inl ⟨hn, h.1.symm⟩⟩
  · rename_i pst hp
    split at h
    · rename_i pst' hpst'
      simp [pure, Except.pure] at h
      exact ⟨h.2, .inr ⟨pst, pst', hp, hpst', h.1.symm⟩⟩
    · simp [pure, Except.pure] at h

theorem commitProveState_ok {s s1 : St} {p : Nat} {nps : ProveState} {c : Bool}
    (h : commitProveState s p nps = .ok (.ok (s1, c))) :
    ∃ newTd, nps.last.td = .ok newTd ∧
      ((c = false ∧ s1 = s) ∨
       (c = true ∧ ∃ s0, s0.peers = s.peers ∧
          (s0.stored = s.stored ∨ (s.stored.td < newTd ∧
            s0.stored = ⟨newTd, nps.last, nps.lastHeaders.map (fun h => (h.number, h.hid))⟩)) ∧
          CommitTail s0 s1 p nps)) := by
  unfold commitProveState at h
  simp only [M.bind_eq_ok] at h
  obtain ⟨newTd, hTd, h⟩ := h
  refine ⟨newTd, hTd, ?_⟩
  split at h
  · rename_i hlt
    split at h
    · split at h
      · obtain ⟨hc, ht⟩ := commitTail_ok h
        refine .inr ⟨hc, _, ?_, ?_, ht⟩ <;> first | rfl | exact .inr ⟨hlt, rfl⟩
      · obtain ⟨hc, ht⟩ := commitTail_ok h
        refine .inr ⟨hc, _, ?_, ?_, ht⟩ <;> first | rfl | exact .inr ⟨hlt, rfl⟩
    · obtain ⟨hc, ht⟩ := commitTail_ok h
      refine .inr ⟨hc, _, ?_, ?_, ht⟩ <;> first | rfl | exact .inr ⟨hlt, rfl⟩
    · simp [pure, Except.pure] at h
      exact .inl ⟨h.2, h.1.symm⟩
  · obtain ⟨hc, ht⟩ := commitTail_ok h
    refine .inr ⟨hc, _, ?_, ?_, ht⟩ <;> first | rfl | exact .inl rfl

/-! ### `onProof` -/

/-- every successful result of `x` satisfies `P` -/
def Sat {α : Type} (P : α → Prop) (x : M α) : Prop := ∀ out, x = .ok out → P out

theorem Sat.pure {α : Type} {P : α → Prop} {o : α} (h : P o) : Sat P (Pure.pure o : M α) := by
  intro out ho; simp [Pure.pure, Except.pure] at ho; subst ho; exact h

theorem Sat.error {α : Type} {P : α → Prop} {e : Panic} : Sat P (Except.error e : M α) := by
  intro out ho; cases ho

theorem Sat.bind {α β : Type} {P : β → Prop} {x : M α} {f : α → M β}
    (h : ∀ a, x = .ok a → Sat P (f a)) : Sat P (x >>= f) := by
  intro out ho
  obtain ⟨a, ha, hf⟩ := (M.bind_eq_ok _ _ _).1 ho
  exact h a ha out hf

/-- the control-flow paths of `onProof` -/
inductive ProofCase (s : St) (p : Nat) (m : ProofMsg) (now b : Nat) (ds : List Nat) (out : Out) : Prop
  | same : out.st = s → ProofCase s p m now b ds out
  | relay (pst pst1 : PeerState) (req : ProveRequest) :
      getPeer s p = some pst → pst.proveRequest? = some req → req.last.vid ≠ m.last.vid →
      pst.receiveLastState ⟨m.last, now⟩ = .ok pst1 →
      (out.st = setPeer s p pst1 ∨
        ∃ sent, getLastStateProof (setPeer s p pst1) p now b ds = .ok (.ok (out.st, sent))) →
      ProofCase s p m now b ds out
  | rerequest (pst pst' : PeerState) (req r : ProveRequest) :
      getPeer s p = some pst → pst.proveRequest? = some req → req.last.vid = m.last.vid →
      pst.requestLastStateProof r now = .ok pst' → out.st = setPeer s p pst' →
      ProofCase s p m now b ds out
  | commit (pst : PeerState) (req : ProveRequest) (nps : ProveState) :
      getPeer s p = some pst → pst.proveRequest? = some req → req.last.vid = m.last.vid →
      nps.last = req.last → commitProveState s p nps = .ok (.ok (out.st, true)) →
      ProofCase s p m now b ds out

section
variable {s : St} {p : Nat} {pst : PeerState} {req : ProveRequest} {m : ProofMsg} {now b : Nat}
  {ds : List Nat} {bG : Nat} {dsG : List Nat} {r sc ln : Nat} {tf : Bool}

theorem proofFinish_sat (hp : getPeer s p = some pst) (hreq : pst.proveRequest? = some req)
    (hvid : req.last.vid = m.last.vid) :
    Sat (ProofCase s p m now b ds) (proofFinish s p pst req m now b ds bG dsG r sc ln tf) := by
  unfold proofFinish
  split
  · refine Sat.bind fun lastTd _ => Sat.bind fun c _ => ?_
    split
    · split
      · rename_i pst' hpst'
        exact Sat.pure (.rerequest pst pst' req _ hp hreq hvid hpst' rfl)
      · exact Sat.pure (.same rfl)
    · exact Sat.pure (.same rfl)
  · refine Sat.bind fun lh _ => ?_
    split
    · exact Sat.pure (.same rfl)
    · rename_i lastHeaders
      extract_lets nps jp4
      have h4 : ∀ r, Sat (ProofCase s p m now b ds) (jp4 r) := by
        intro r
        simp only [jp4]
        refine Sat.bind fun cr hcr => ?_
        split
        · exact Sat.pure (.same rfl)
        · exact Sat.pure (.commit pst req nps hp hreq hvid rfl hcr)
        · rename_i s1
          obtain ⟨_, _, hc⟩ := commitProveState_ok hcr
          have hs1 : s1 = s := by
            rcases hc with ⟨_, hc⟩ | ⟨hc, _⟩
            · exact hc
            · cases hc
          subst hs1
          refine Sat.bind fun lastTd _ => ?_
          split
          · exact Sat.pure (.same rfl)
          · split
            · rename_i pst' hpst'
              exact Sat.pure (.rerequest pst pst' req _ hp hreq hvid hpst' rfl)
            · exact Sat.pure (.same rfl)
      clear_value jp4
      split
      · exact Sat.bind fun a ha => by cases ha
      · exact h4 _

theorem proofTd_sat (hp : getPeer s p = some pst) (hreq : pst.proveRequest? = some req)
    (hvid : req.last.vid = m.last.vid) :
    Sat (ProofCase s p m now b ds) (proofTd s p pst req m now b ds bG dsG r sc ln tf) := by
  have h3 := proofFinish_sat (now := now) (b := b) (ds := ds) (bG := bG) (dsG := dsG) (r := r)
    (sc := sc) (ln := ln) (tf := tf) hp hreq hvid
  unfold proofTd
  split
  · exact Sat.pure (.same rfl)
  · split
    · exact Sat.pure (.same rfl)
    · split
      · split
        · refine Sat.bind fun t0 _ => Sat.bind fun t1 _ => Sat.bind fun v _ => ?_
          split
          · exact h3
          · exact Sat.pure (.same rfl)
        · exact h3
      · exact h3

theorem proofCont_sat (hp : getPeer s p = some pst) (hreq : pst.proveRequest? = some req)
    (hvid : req.last.vid = m.last.vid) :
    Sat (ProofCase s p m now b ds) (proofCont s p pst req m now b ds bG dsG r sc ln tf) := by
  have h2 := proofTd_sat (now := now) (b := b) (ds := ds) (bG := bG) (dsG := dsG) (r := r)
    (sc := sc) (ln := ln) (tf := tf) hp hreq hvid
  intro out ho
  rcases proofCont_inv ho with h' | ⟨-, -, h'⟩
  · exact .same h'
  · exact h2 out h'

theorem proofChecks_sat (hp : getPeer s p = some pst) (hreq : pst.proveRequest? = some req)
    (hvid : req.last.vid = m.last.vid) :
    Sat (ProofCase s p m now b ds) (proofChecks s p pst req m now b ds bG dsG r sc ln) := by
  intro out ho
  rcases proofChecks_inv ho with h' | ⟨-, tf, h'⟩
  · exact .same h'
  · exact proofCont_sat hp hreq hvid out h'
end

theorem onProof_sat (s : St) (p : Nat) (m : ProofMsg) (now b bG : Nat) (ds dsG : List Nat) :
    Sat (ProofCase s p m now b ds) (onProof s p m now b ds bG dsG) := by
  rw [onProof_eq]
  split
  · exact Sat.pure (.same rfl)
  · rename_i pst hp
    split
    · exact Sat.pure (.same rfl)
    · rename_i req hreq
      split
      · exact Sat.pure (.same rfl)
      split
      · rename_i hvid
        split
        · split
          · exact Sat.pure (.same rfl)
          · split
            · exact Sat.pure (.same rfl)
            · rename_i pst1 hpst1
              extract_lets s1
              refine Sat.bind fun r hr => ?_
              split
              · exact Sat.pure (.relay pst pst1 req hp hreq hvid hpst1 (.inr ⟨_, hr⟩))
              · exact Sat.pure (.relay pst pst1 req hp hreq hvid hpst1 (.inl rfl))
        · exact Sat.pure (.same rfl)
      · rename_i hvid
        have hvid : req.last.vid = m.last.vid := Decidable.not_not.mp hvid
        split
        · exact Sat.pure (.same rfl)
        refine Sat.bind fun cm hcm => ?_
        split
        · exact Sat.pure (.same rfl)
        · exact proofChecks_sat hp hreq hvid

theorem onProof_ok {s : St} {p : Nat} {m : ProofMsg} {now b bG : Nat} {ds dsG : List Nat} {out : Out}
    (hr : onProof s p m now b ds bG dsG = .ok out) : ProofCase s p m now b ds out :=
  onProof_sat s p m now b bG ds dsG out hr

theorem commitProveState_true {s s1 : St} {p : Nat} {nps : ProveState} {pst : PeerState}
    (hp : getPeer s p = some pst) (h : commitProveState s p nps = .ok (.ok (s1, true))) :
    ∃ newTd s0 pst', nps.last.td = .ok newTd ∧ s0.peers = s.peers ∧
      (s0.stored = s.stored ∨ (s.stored.td < newTd ∧
        s0.stored = ⟨newTd, nps.last, nps.lastHeaders.map (fun h => (h.number, h.hid))⟩)) ∧
      pst.receiveLastStateProof nps = .ok pst' ∧ s1 = setPeer s0 p pst' := by
  obtain ⟨newTd, hTd, hc⟩ := commitProveState_ok h
  rcases hc with ⟨hc, _⟩ | ⟨_, s0, hpe, hst, ht⟩
  · cases hc
  · have hp0 : getPeer s0 p = some pst := (getPeer_congr_b hpe p).trans hp
    rcases ht with ⟨hn, _⟩ | ⟨pst0, pst', hp0', hrec, hs1⟩
    · rw [hp0] at hn; cases hn
    · rw [hp0] at hp0'; cases hp0'
      exact ⟨newTd, s0, pst', hTd, hpe, hst, hrec, hs1⟩

/-- with distinct peer ids every entry of the peer list is the one `getPeer` finds -/
theorem getPeer_of_mem_nodup_b {s : St} (hnd : (s.peers.map (·.1)).Nodup) {e : Nat × PeerState}
    (he : e ∈ s.peers) : getPeer s e.1 = some e.2 := by
  unfold getPeer
  generalize s.peers = l at hnd he
  induction l with
  | nil => cases he
  | cons x rest ih =>
    simp only [List.map_cons, List.nodup_cons] at hnd
    rcases List.mem_cons.1 he with rfl | he'
    · simp
    · have hne : x.1 ≠ e.1 := by
        intro hx
        exact hnd.1 (hx ▸ List.mem_map_of_mem he')
      simp only [List.find?_cons, hne, decide_false]
      exact ih hnd.2 he'

end Prove

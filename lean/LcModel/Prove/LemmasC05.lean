import LcModel.Prove.LemmasC10
import LcModel.Prove.LemmasC04
/-! # Prove layer — lemmas for C05 (honest answers are accepted) -/
namespace Prove
open Difficulty

/-! ### `isParentOf` and parent-linked runs -/

theorem isParentOf_eq_true {a b : VH} :
    isParentOf a b = .ok true ↔
      a.number + 1 ≤ U64_MAX ∧ a.number + 1 = b.number ∧
        (a.number = 0 ∨ epochSucc b.epoch a.epoch = true) ∧ a.hid = b.parent := by
  unfold isParentOf
  simp only [M.bind_eq_ok, addU64_eq_ok, M.pure_eq_ok, Bool.and_eq_true, Bool.or_eq_true,
    decide_eq_true_eq]
  constructor
  · rintro ⟨n, ⟨h1, rfl⟩, ⟨h2, h3⟩, h4⟩
    exact ⟨h1, h2, h3, h4⟩
  · rintro ⟨h1, h2, h3, h4⟩
    exact ⟨_, ⟨h1, rfl⟩, ⟨h2, h3⟩, h4⟩

theorem Linked.tail {a : VH} {t : List VH} (h : Linked (a :: t)) : Linked t := by
  cases t with
  | nil => trivial
  | cons b r => exact h.2

/-- along a parent-linked run the numbers grow -/
theorem Linked.head_lt : ∀ {a : VH} {t : List VH}, Linked (a :: t) → ∀ x ∈ t, a.number < x.number
  | _, [], _, x, hx => by cases hx
  | a, b :: r, h, x, hx => by
    have hab := (isParentOf_eq_true.1 h.1).2.1
    rcases List.mem_cons.1 hx with rfl | hx
    · omega
    · have := Linked.head_lt h.2 x hx
      omega

theorem Linked.prefix : ∀ {hs : List VH} {l : VH}, Linked (hs ++ [l]) → Linked hs
  | [], _, _ => trivial
  | [_], _, _ => trivial
  | _ :: b :: r, _, h => ⟨h.1, Linked.prefix (hs := b :: r) h.2⟩

/-- every header of a run that ends in `l` is below `l` -/
theorem Linked.lt_last : ∀ {hs : List VH} {l : VH}, Linked (hs ++ [l]) →
    ∀ x ∈ hs, x.number < l.number
  | [], _, _, x, hx => by cases hx
  | _ :: t, l, h, x, hx => by
    rcases List.mem_cons.1 hx with rfl | hx
    · exact Linked.head_lt h l (by simp)
    · exact Linked.lt_last (hs := t) (Linked.tail h) x hx

/-- the last header of the run is the parent of `l` -/
theorem Linked.getLast_parent : ∀ {hs : List VH} {l : VH}, hs ≠ [] → Linked (hs ++ [l]) →
    ∃ g, hs.getLast? = some g ∧ isParentOf g l = .ok true
  | [], _, hne, _ => absurd rfl hne
  | [a], l, _, h => ⟨a, rfl, h.1⟩
  | a :: b :: r, l, _, h => by
    obtain ⟨g, hg, hp⟩ := Linked.getLast_parent (hs := b :: r) (by simp) h.2
    exact ⟨g, by rw [List.getLast?_cons_cons]; exact hg, hp⟩

theorem Linked.sorted : ∀ {hs : List VH}, Linked hs → checkMatched.sorted hs = true
  | [], _ => rfl
  | [_], _ => rfl
  | a :: b :: r, h => by
    unfold checkMatched.sorted
    have hab := (isParentOf_eq_true.1 h.1).2.1
    simp only [Bool.and_eq_true, decide_eq_true_eq]
    exact ⟨by omega, Linked.sorted h.2⟩

theorem Linked.continuous : ∀ {hs : List VH}, Linked hs → checkContinuous hs = .ok none
  | [], _ => rfl
  | [_], _ => rfl
  | a :: b :: r, h => by
    unfold checkContinuous
    rw [h.1]
    exact Linked.continuous h.2

/-! ### the response shape of the no-sampling case -/

theorem cmTail_short_gap {lastN : Nat} {c : ReqContent} {a : VH} {t : List VH} {l : VH}
    (hfirst : a.number = c.startNumber) (hl : Linked ((a :: t) ++ [l])) :
    cmTail lastN c (a :: t) l 0 0 (a :: t).length = .ok (.ok (0, 0, (a :: t).length)) := by
  obtain ⟨g, hg, hp⟩ := Linked.getLast_parent (by simp) hl
  obtain ⟨h1, h2, -, -⟩ := isParentOf_eq_true.1 hp
  unfold cmTail
  have h1' : l.number ≤ U64_MAX := h2 ▸ h1
  simp [hg, h2, hfirst, addU64, h1']

/-- **the shape check accepts the honest answer to a request without sampling**: the blocks
`start … last-1`, at most `last_n_blocks` of them, each the parent of the next -/
theorem checkMatched_short_gap {lastN : Nat} {c : ReqContent} {hs : List VH} {l : VH}
    (hne : hs ≠ []) (hlen : hs.length ≤ lastN)
    (hfirst : hs.head?.map (·.number) = some c.startNumber)
    (hl : Linked (hs ++ [l])) :
    checkMatched lastN c hs l = .ok (.ok (0, 0, hs.length)) := by
  obtain ⟨a, t, rfl⟩ := List.exists_cons_of_ne_nil hne
  have ha : a.number = c.startNumber := by simpa using hfirst
  have hsorted := Linked.sorted (Linked.prefix hl)
  have htail := cmTail_short_gap (lastN := lastN) ha hl
  have hmid : cmMid lastN c (a :: t) l 0 = .ok (.ok (0, 0, (a :: t).length)) := by
    unfold cmMid cmShape
    have : ¬ (a :: t).length - 0 > lastN := by omega
    simp only [this, if_false]
    exact htail
  rw [checkMatched_eq]
  simp [hsorted, ha]
  exact hmid

/-! ### the response shape without sampled headers in the sampling case -/

/-- after the reorg-section checks: `lastN` last headers from position `reorg`, ending at the
parent of the last header, pass when the first one starts at the requested start or
`checkNoSampled` accepts it -/
theorem cmMid_no_sampled {lastN : Nat} {c : ReqContent} {hs : List VH} {l f g : VH} {reorg : Nat}
    (hlen : hs.length = reorg + lastN) (hpos : 0 < lastN)
    (hf : hs[reorg]? = some f) (hg : hs.getLast? = some g) (hgl : g.number + 1 = l.number)
    (hl : l.number ≤ U64_MAX)
    (hns : checkNoSampled lastN c f l.number lastN = none) :
    cmMid lastN c hs l reorg = .ok (.ok (reorg, 0, lastN)) := by
  unfold cmMid cmShape
  have h2 : hs.length - reorg = lastN := by omega
  simp only [h2]
  unfold cmTail
  have hne : lastN ≠ 0 := by omega
  simp [hg, hgl, hf, addU64, hl, hns, hpos, hne]
  rfl

/-- on a sorted response whose reorg headers `rs` (below the start, ending at `start - 1`, `lastN`
of them or beginning at block 1) are followed by a header at or above the start, `checkMatched`
is `cmMid` at `rs.length` -/
theorem checkMatched_of_cmMid {lastN : Nat} {c : ReqContent} {rs : List VH} {a : VH} {t : List VH}
    {l : VH} {res : Except Nat (Nat × Nat × Nat)}
    (hsorted : checkMatched.sorted (rs ++ a :: t) = true)
    (hrs : ∀ x ∈ rs, x.number < c.startNumber)
    (hreorg : rs ≠ [] → (rs.length = lastN ∨ rs.head?.map (·.number) = some 1) ∧
      rs.getLast?.map (·.number) = some (c.startNumber - 1))
    (hstart : c.startNumber ≤ a.number)
    (hmid : cmMid lastN c (rs ++ a :: t) l rs.length = .ok res) :
    checkMatched lastN c (rs ++ a :: t) l = .ok res := by
  have htw : ((rs ++ a :: t).takeWhile (fun h => decide (h.number < c.startNumber))).length
      = rs.length := by
    rw [List.takeWhile_append_of_pos (by simpa using hrs)]
    have : ¬ a.number < c.startNumber := by omega
    simp [this]
  have hemp : (rs ++ a :: t).isEmpty = false := by simp
  have hhead : rs ≠ [] → (rs ++ a :: t).head? = rs.head? := by
    intro h; cases rs with
    | nil => exact absurd rfl h
    | cons r0 rt => rfl
  have hlr : rs ≠ [] → (rs ++ a :: t)[rs.length - 1]? = rs.getLast? := by
    intro h
    have : 0 < rs.length := List.length_pos_iff.2 h
    rw [List.getLast?_eq_getElem?, List.getElem?_append_left (by omega)]
  rw [checkMatched_eq]
  simp only [htw]
  generalize rs ++ a :: t = hs at hsorted hemp hhead hlr hmid ⊢
  simp only [hemp, hsorted, Bool.false_eq_true, if_false, Bool.not_true]
  by_cases hr : rs = []
  · subst hr
    simpa using hmid
  · have hr0 : rs.length ≠ 0 := by simpa using hr
    obtain ⟨h1, h2⟩ := hreorg hr
    rw [hhead hr, hlr hr]
    cases hgl' : rs.getLast? with
    | none => simp [hgl'] at h2
    | some lr =>
      have h2' : lr.number = c.startNumber - 1 := by simpa [hgl'] using h2
      rcases h1 with h1 | h1
      · rw [h1] at hmid
        simp [h1, h2']
        exact hmid
      · by_cases h3 : rs.length = lastN
        · rw [h3] at hmid
          simp [h3, h2']
          exact hmid
        · simp [hr0, h3, h1, h2']
          exact hmid

/-- **the shape check accepts an answer without sampled headers**: reorg headers `rs` (below the
start, ending at `start - 1`, `lastN` of them or beginning at block 1) followed by exactly `lastN`
headers above the start that end at the parent of the last header and pass `checkNoSampled` -/
theorem checkMatched_no_sampled {lastN : Nat} {c : ReqContent} {rs : List VH} {a : VH} {t : List VH}
    {l g : VH} (hsorted : checkMatched.sorted (rs ++ a :: t) = true)
    (hrs : ∀ x ∈ rs, x.number < c.startNumber)
    (hreorg : rs ≠ [] → (rs.length = lastN ∨ rs.head?.map (·.number) = some 1) ∧
      rs.getLast?.map (·.number) = some (c.startNumber - 1))
    (hstart : c.startNumber < a.number) (hlen : (a :: t).length = lastN)
    (hg : (a :: t).getLast? = some g) (hgl : g.number + 1 = l.number) (hl : l.number ≤ U64_MAX)
    (hns : checkNoSampled lastN c a l.number lastN = none) :
    checkMatched lastN c (rs ++ a :: t) l = .ok (.ok (rs.length, 0, lastN)) := by
  refine checkMatched_of_cmMid hsorted hrs hreorg (Nat.le_of_lt hstart) ?_
  refine cmMid_no_sampled (f := a) (g := g) ?_ ?_ ?_ ?_ hgl hl hns
  · simp only [List.length_append]; omega
  · simp only [List.length_cons] at hlen; omega
  · simp
  · rw [List.getLast?_append, hg]; rfl

/-! ### the response shape without sampled headers, last-N section longer than last-N -/

/-- the count of the headers below the boundary stops at the first header that reaches it -/
theorem countBefore_append_stop (c : ReqContent) : ∀ (rs : List VH) (a : VH) (t : List VH) (atd : Nat),
    (∀ x ∈ rs, ∃ xtd, x.td = .ok xtd ∧ xtd < c.boundary) → a.td = .ok atd → c.boundary ≤ atd →
    checkMatched.countBefore c (rs ++ a :: t) = .ok rs.length
  | [], a, t, atd, _, ha, hb => by
    simp only [List.nil_append, List.length_nil]
    unfold checkMatched.countBefore
    simp only [M.bind_eq_ok]
    have : ¬ atd < c.boundary := by omega
    exact ⟨atd, ha, by simp [this]⟩
  | r :: rs, a, t, atd, hrs, ha, hb => by
    obtain ⟨rtd, hrtd, hlt⟩ := hrs r (List.mem_cons_self ..)
    have ih := countBefore_append_stop c rs a t atd
      (fun x hx => hrs x (List.mem_cons_of_mem _ hx)) ha hb
    simp only [List.cons_append, List.length_cons]
    unfold checkMatched.countBefore
    simp only [M.bind_eq_ok]
    exact ⟨rtd, hrtd, by simp [hlt, ih]; rfl⟩

/-- after the reorg-section checks: more than `lastN` last headers from position `reorg`, the
first of them being the first header of the response that reaches the boundary, ending at the
parent of the last header, pass when `checkNoSampled` accepts the first one -/
theorem cmMid_no_sampled_long {lastN : Nat} {c : ReqContent} {hs : List VH} {l f g : VH}
    {reorg ln : Nat} (hlen : hs.length = reorg + ln) (hlong : lastN < ln)
    (hcb : checkMatched.countBefore c hs = .ok reorg)
    (hf : hs[reorg]? = some f) (hg : hs.getLast? = some g) (hgl : g.number + 1 = l.number)
    (hl : l.number ≤ U64_MAX)
    (hns : checkNoSampled lastN c f l.number ln = none) :
    cmMid lastN c hs l reorg = .ok (.ok (reorg, 0, ln)) := by
  have hshape : cmShape lastN c hs reorg = .ok (.ok (0, ln)) := by
    unfold cmShape
    have h1 : hs.length - reorg > lastN := by omega
    have h2 : hs.length - reorg = ln := by omega
    simp only [h1, if_true, M.bind_eq_ok]
    refine ⟨reorg, hcb, ?_⟩
    simp only [Nat.lt_irrefl, if_false, h2, hlong, if_true, M.bind_eq_ok, subU64_eq_ok,
      M.pure_eq_ok]
    exact ⟨0, ⟨Nat.le_refl _, by omega⟩, rfl⟩
  have htail : cmTail lastN c hs l reorg 0 ln = .ok (.ok (reorg, 0, ln)) := by
    unfold cmTail
    have hne : ln ≠ 0 := by omega
    have hpos : 0 < ln := by omega
    simp [hg, hgl, hf, addU64, hl, hns, hpos, hne]
    rfl
  unfold cmMid
  simp only [hshape, M.bind_eq_ok]
  exact ⟨_, rfl, htail⟩

/-- **the shape check accepts an answer without sampled headers whose last-N section is longer
than last-N**: reorg headers `rs` (below the start, ending at `start - 1`, `lastN` of them or
beginning at block 1; none of them reaches the boundary) followed by more than `lastN` headers
above the start, the first of which reaches the boundary, that end at the parent of the last
header and pass `checkNoSampled` -/
theorem checkMatched_no_sampled_long {lastN : Nat} {c : ReqContent} {rs : List VH} {a : VH}
    {t : List VH} {l g : VH} {atd : Nat} (hsorted : checkMatched.sorted (rs ++ a :: t) = true)
    (hrs : ∀ x ∈ rs, x.number < c.startNumber)
    (hreorg : rs ≠ [] → (rs.length = lastN ∨ rs.head?.map (·.number) = some 1) ∧
      rs.getLast?.map (·.number) = some (c.startNumber - 1))
    (hrtd : ∀ x ∈ rs, ∃ xtd, x.td = .ok xtd ∧ xtd < c.boundary)
    (hatd : a.td = .ok atd) (hab : c.boundary ≤ atd)
    (hstart : c.startNumber < a.number) (hlen : lastN < (a :: t).length)
    (hg : (a :: t).getLast? = some g) (hgl : g.number + 1 = l.number) (hl : l.number ≤ U64_MAX)
    (hns : checkNoSampled lastN c a l.number (a :: t).length = none) :
    checkMatched lastN c (rs ++ a :: t) l = .ok (.ok (rs.length, 0, (a :: t).length)) := by
  refine checkMatched_of_cmMid hsorted hrs hreorg (Nat.le_of_lt hstart) ?_
  refine cmMid_no_sampled_long (f := a) (g := g) ?_ hlen
    (countBefore_append_stop c rs a t atd hrtd hatd hab) ?_ ?_ hgl hl hns
  · simp only [List.length_append]
  · simp
  · rw [List.getLast?_append, hg]; rfl

/-- the number of the last header of a run that starts at block `n` -/
theorem Linked.number_last : ∀ {hs : List VH} {l : VH} {n : Nat},
    hs.head?.map (·.number) = some n → Linked (hs ++ [l]) → l.number = n + hs.length
  | [], _, _, h, _ => by simp at h
  | [a], l, n, h, hl => by
    have := (isParentOf_eq_true.1 hl.1).2.1
    simp at h
    simp; omega
  | a :: b :: r, l, n, h, hl => by
    have hab := (isParentOf_eq_true.1 hl.1).2.1
    simp at h
    have := Linked.number_last (hs := b :: r) (l := l) (n := b.number) (by simp) hl.2
    simp at this ⊢; omega

/-! ### `onProof` on the honest answer without sampling -/

/-- the old last-N headers kept when a proof brings `n` new ones: the newest `lastN - n` -/
def keptOld (lastN : Nat) (pst : PeerState) (n : Nat) : List VH :=
  let old := (pst.proveState?.map (·.lastHeaders)).getD []
  old.drop (old.length - (lastN - n))

theorem assembleLastHeaders_short_gap {lastN : Nat} {pst : PeerState} {hs : List VH}
    (hlen : hs.length ≤ lastN) :
    assembleLastHeaders lastN pst hs 0 0 hs.length = .ok (some (keptOld lastN pst hs.length ++ hs)) := by
  unfold assembleLastHeaders keptOld
  by_cases h1 : hs.length = lastN
  · simp [h1]
  · have h2 : ¬ lastN < hs.length := by omega
    cases hps : pst.proveState? with
    | none => simp [h1, h2]
    | some ps =>
      by_cases h3 : ps.lastHeaders = []
      · simp [h1, h2, h3]
      · simp [h1, h2, h3]

section
variable {s : St} {p : Nat} {pst : PeerState} {req : ProveRequest} {m : ProofMsg} {now b : Nat}
  {ds : List Nat} {bG : Nat} {dsG : List Nat} {ln : Nat}

/-- without samples the tau and total-difficulty checks do not apply: when the verdicts are good
and the last-N section is parent-linked the handler reaches its final block -/
theorem proofChecks_no_samples (hroot : m.headers.all (·.root) = true)
    (hpow : m.headers.all (·.pow) = true) (hcont : checkContinuous m.headers = .ok none)
    (hlr : m.last.root = true) (hms : mmrStructOk m.last m.headers = true)
    (hmmr : m.mmrOk = true) :
    proofChecks s p pst req m now b ds bG dsG 0 0 ln =
      proofFinish s p pst req m now b ds bG dsG 0 0 ln false := by
  unfold proofChecks proofCont proofTd
  simp [hroot, hpow, hcont, hlr, hms, hmmr]
  rfl

variable {r sc : Nat} {lh : List VH} {s1 : St}

/-- the final block when the new proved state is committed -/
theorem proofFinish_committed (hlf : req.longFork = false)
    (hasm : assembleLastHeaders s.lastNBlocks pst m.headers r sc ln = .ok (some lh))
    (hc : commitProveState s p ⟨req.last, m.headers.take r, lh⟩ = .ok (.ok (s1, true))) :
    proofFinish s p pst req m now b ds bG dsG r sc ln false = .ok ⟨s1, .ok, []⟩ := by
  unfold proofFinish
  simp [hasm, hlf, hc]

/-- the final block when `commit_prove_state` reports a long fork: nothing is adopted, the proof
is asked for again from genesis (status 201 `RequireRecheck`, no ban) -/
theorem proofFinish_long_fork {req0 : ProveRequest} (hlf : req.longFork = false)
    (hasm : assembleLastHeaders s.lastNBlocks pst m.headers r sc ln = .ok (some lh))
    (hreq : pst.proveRequest? = some req0) (htd : req.last.tdOk = true)
    (hc : commitProveState s p ⟨req.last, m.headers.take r, lh⟩ = .ok (.ok (s, false))) :
    ∃ out, proofFinish s p pst req m now b ds bG dsG r sc ln false = .ok out ∧
      ((out.st = s ∧ out.outcome = .ok ∧ out.sent = []) ∨
       ∃ c pst', pst.requestLastStateProof ⟨req.last, c, false, true⟩ now = .ok pst' ∧
         out.st = setPeer s p pst' ∧ out.outcome = .recheck ∧
         out.sent = [.getLastStateProof p c]) := by
  unfold proofFinish
  simp only [hasm, hlf, hc, (td_of_tdOk htd).1, bind, Except.bind, Bool.false_eq_true, if_false]
  cases hb : buildContentFromGenesis s req.last (req.last.ptd + compactToDifficulty req.last.compact)
      bG dsG with
  | none => exact ⟨_, rfl, .inl ⟨rfl, rfl, rfl⟩⟩
  | some c =>
    obtain ⟨pst', hpst'⟩ := PeerState.requestLastStateProof_ok_of_request
      ⟨req.last, c, false, true⟩ now hreq
    simp only [hpst']
    exact ⟨_, rfl, .inr ⟨c, pst', hpst', rfl, rfl, rfl⟩⟩

end

/-! ### `commitProveState` for a peer with an outstanding request -/

theorem PeerState.lastState_of_proveRequest {a : PeerState} {r : ProveRequest}
    (h : a.proveRequest? = some r) : ∃ ls, a.lastState? = some ls := by
  cases a <;> simp [proveRequest?] at h <;> simp [lastState?]

/-- a peer with an outstanding request and last state `ls` becomes `Ready (ls, nps)` -/
theorem commitTailF_of_request {s1 : St} {p : Nat} {pst : PeerState} {req : ProveRequest}
    {ls : LastState} (nps : ProveState) (hp : getPeer s1 p = some pst)
    (hreq : pst.proveRequest? = some req) (hls : pst.lastState? = some ls) :
    commitTailF s1 p nps = .ok (.ok (setPeer s1 p (.ready ls nps), true)) := by
  unfold commitTailF
  rw [hp]
  cases pst <;> simp [PeerState.proveRequest?] at hreq <;>
    simp [PeerState.lastState?] at hls <;> subst hls <;> rfl

theorem commitProveState_not_heavier (s : St) (p : Nat) (nps : ProveState) (td : Nat)
    (htd : nps.last.td = .ok td) (h : ¬ s.stored.td < td) :
    commitProveState s p nps = commitTailF s p nps := by
  unfold commitProveState commitTailF
  rw [htd]
  simp only [bind, Except.bind, if_neg h]
  rfl

/-- `commitProveState` for a peer with an outstanding request when no long fork is detected: the
peer becomes `Ready` with the new proved state, a heavier tip is stored -/
theorem commitProveState_committed {s : St} {p : Nat} {pst : PeerState} {req : ProveRequest}
    {ls : LastState} {nps : ProveState} {td : Nat} (hp : getPeer s p = some pst)
    (hreq : pst.proveRequest? = some req) (hls : pst.lastState? = some ls)
    (htd : nps.last.td = .ok td) (hnl : ¬ (s.stored.td < td ∧ forkOf s nps = some none)) :
    ∃ s1, commitProveState s p nps = .ok (.ok (s1, true)) ∧
      getPeer s1 p = some (.ready ls nps) ∧ (∀ q, q ≠ p → getPeer s1 q = getPeer s q) ∧
      (s.stored.td < td →
        s1.stored = ⟨td, nps.last, nps.lastHeaders.map (fun x => (x.number, x.hid))⟩) ∧
      (¬ s.stored.td < td → s1.stored = s.stored) := by
  have fin : ∀ s0 : St, s0.peers = s.peers →
      ∃ s1, commitTailF s0 p nps = .ok (.ok (s1, true)) ∧
        getPeer s1 p = some (.ready ls nps) ∧ (∀ q, q ≠ p → getPeer s1 q = getPeer s q) ∧
        s1.stored = s0.stored := by
    intro s0 hs0
    have hp0 : getPeer s0 p = some pst := (getPeer_congr hs0 p).trans hp
    exact ⟨_, commitTailF_of_request nps hp0 hreq hls, getPeer_setPeer_self _ hp0,
      fun q hq => (getPeer_setPeer_ne s0 _ hq).trans (getPeer_congr hs0 q), rfl⟩
  by_cases hlt : s.stored.td < td
  · rw [commitProveState_heavier s p nps td htd hlt]
    cases hf : forkOf s nps with
    | none =>
      obtain ⟨s1, h1, h2, h3, h4⟩ := fin (storeLastState
        (if nps.reorgLast.isEmpty && s.stored.tip.number = 1
          then { s with rollbacks := s.rollbacks ++ [1] } else s) td nps.last nps.lastHeaders)
        (by simp only [storeLastState]; split <;> rfl)
      exact ⟨s1, h1, h2, h3, fun _ => h4, fun h => absurd hlt h⟩
    | some o =>
      cases o with
      | none => exact absurd ⟨hlt, hf⟩ hnl
      | some n =>
        obtain ⟨s1, h1, h2, h3, h4⟩ := fin (storeLastState
          { s with rollbacks := s.rollbacks ++ [n + 1] } td nps.last nps.lastHeaders) rfl
        exact ⟨s1, h1, h2, h3, fun _ => h4, fun h => absurd hlt h⟩
  · rw [commitProveState_not_heavier s p nps td htd hlt]
    obtain ⟨s1, h1, h2, h3, h4⟩ := fin s rfl
    exact ⟨s1, h1, h2, h3, fun h => absurd h hlt, fun _ => h4⟩

theorem commitProveState_long_fork {s : St} {p : Nat} {nps : ProveState} {td : Nat}
    (htd : nps.last.td = .ok td) (hlt : s.stored.td < td) (hf : forkOf s nps = some none) :
    commitProveState s p nps = .ok (.ok (s, false)) := by
  rw [commitProveState_heavier s p nps td htd hlt, hf]

/-- the structural MMR facts follow from the run being parent-linked up to `last` and the chain
root of `last` ending at its parent -/
theorem mmrStructOk_of_linked {last : VH} {hs : List VH} (hl : Linked (hs ++ [last]))
    (hpend : last.pend + 1 = last.number) (hprov : last.pend ≤ U64_MAX / 4) :
    mmrStructOk last hs = true := by
  unfold mmrStructOk
  simp only [Bool.and_eq_true, decide_eq_true_eq, List.all_eq_true]
  refine ⟨⟨⟨by omega, by omega⟩, hprov⟩, fun x hx => ?_⟩
  have := Linked.lt_last hl x hx
  omega

/-- **the honest answer to a request without sampling passes every check** of
`SendLastStateProofProcess::execute` and reaches the final block (assemble + commit) -/
theorem onProof_short_gap_eq {s : St} {p : Nat} {pst : PeerState} {req : ProveRequest}
    {m : ProofMsg} {now b : Nat} {ds : List Nat} {bG : Nat} {dsG : List Nat}
    (hp : getPeer s p = some pst) (hreq : pst.proveRequest? = some req)
    (hvid : req.last.vid = m.last.vid)
    (hne : m.headers ≠ []) (hlen : m.headers.length ≤ s.lastNBlocks)
    (hfirst : m.headers.head?.map (·.number) = some req.content.startNumber)
    (hl : Linked (m.headers ++ [m.last]))
    (hverd : ∀ x ∈ m.headers, x.tdOk = true ∧ x.pow = true ∧ x.root = true)
    (hltd : m.last.tdOk = true) (hlroot : m.last.root = true)
    (hpend : m.last.pend + 1 = m.last.number) (hprov : m.last.pend ≤ U64_MAX / 4)
    (hmmr : m.mmrOk = true) :
    onProof s p m now b ds bG dsG =
      proofFinish s p pst req m now b ds bG dsG 0 0 m.headers.length false := by
  have h1 : m.headers.all (·.tdOk) = true := List.all_eq_true.2 fun x hx => (hverd x hx).1
  have h2 : m.headers.all (·.pow) = true := List.all_eq_true.2 fun x hx => (hverd x hx).2.1
  have h3 : m.headers.all (·.root) = true := List.all_eq_true.2 fun x hx => (hverd x hx).2.2
  have hcm := checkMatched_short_gap (lastN := s.lastNBlocks) (c := req.content) hne hlen hfirst hl
  rw [onProof_eq]
  simp only [hp, hreq, hltd, hvid, h1, hcm, bind, Except.bind, Bool.not_true, Bool.false_eq_true,
    if_false, ne_eq, not_true_eq_false]
  exact proofChecks_no_samples h3 h2 (Linked.continuous (Linked.prefix hl)) hlroot
    (mmrStructOk_of_linked hl hpend hprov) hmmr

/-! ### `onLastState` -/

theorem checkVerifiable_honest {h : VH} (htd : h.tdOk = true) (hpow : h.pow = true)
    (hroot : h.root = true) : checkVerifiable h = none := by
  simp [checkVerifiable, htd, hpow, hroot]

/-- **the fast path of `SendLastState`**: the announced header is the child of the proved one -/
theorem onLastState_child {s : St} {p : Nat} {pst : PeerState} {prev : LastState}
    {ps : ProveState} {h : VH} {now b : Nat} {ds : List Nat} {prevTd : Nat}
    (hp : getPeer s p = some pst) (hps : pst.proveState? = some ps)
    (hprev : pst.lastState? = some prev) (hnew : prev.h.vid ≠ h.vid)
    (htd : h.tdOk = true) (hpow : h.pow = true) (hroot : h.root = true)
    (hrecent : h.recent = true)
    (hprevTd : prev.h.td = .ok prevTd) (hheavier : prevTd < h.ptd + compactToDifficulty h.compact)
    (hptd : ps.last.td = .ok h.ptd) (hpend : h.pend = ps.last.number)
    (hpar : isParentOf ps.last h = .ok true) :
    ∃ pst1, pst.receiveLastState ⟨h, now⟩ = .ok pst1 ∧
      onLastState s p h now b ds = .ok
        ⟨setPeer (if s.stored.td < h.ptd + compactToDifficulty h.compact then
            storeLastState (setPeer s p pst1) (h.ptd + compactToDifficulty h.compact) h
              (newChild ps h s.lastNBlocks).lastHeaders
          else setPeer s p pst1) p (.ready ⟨h, now⟩ (newChild ps h s.lastNBlocks)), .ok, []⟩ := by
  have hcv := checkVerifiable_honest htd hpow hroot
  have hhtd := (td_of_tdOk htd).1
  unfold onLastState
  simp only [hp, hcv, hrecent, hprev, hps]
  cases pst <;> simp [PeerState.proveState?] at hps <;> simp [PeerState.lastState?] at hprev <;>
    subst hps <;> subst hprev <;>
    simp [PeerState.receiveLastState, PeerState.receiveLastStateProof, hnew, hprevTd, hhtd,
      hheavier, hptd, hpend, hpar, bind, Except.bind, pure, Except.pure] <;> rfl

theorem PeerState.receiveLastState_isOk {a : PeerState} (n : LastState) (h : a ≠ .initialized) :
    ∃ a', a.receiveLastState n = .ok a' := by
  cases a <;> first | exact absurd rfl h | exact ⟨_, rfl⟩

/-- the only state without a last state other than `Initialized` -/
theorem PeerState.receiveLastState_first {a a' : PeerState} {n : LastState}
    (hn : a.lastState? = none) (h : a.receiveLastState n = .ok a') : a' = .onlyHasLastState n := by
  cases a <;> simp [lastState?] at hn <;> simp [receiveLastState] at h
  exact h.symm

/-- **an announcement with honest verdicts from a connected peer is answered with 200** -/
theorem onLastState_honest_ok {s : St} {p : Nat} {pst : PeerState} {h : VH} {now b : Nat}
    {ds : List Nat} {out : Out} (hp : getPeer s p = some pst) (hinit : pst ≠ .initialized)
    (htd : h.tdOk = true) (hpow : h.pow = true) (hroot : h.root = true)
    (hrecent : h.recent = true) (hr : onLastState s p h now b ds = .ok out) :
    out.outcome = .ok := by
  have hcv := checkVerifiable_honest htd hpow hroot
  obtain ⟨pst1, hpst1⟩ := PeerState.receiveLastState_isOk ⟨h, now⟩ hinit
  unfold onLastState at hr
  simp only [hp, hcv, hrecent, hpst1, Bool.not_true, Bool.false_eq_true, if_false] at hr
  split at hr
  · rename_i prev hprev
    split at hr
    · simp only [M.pure_eq_ok] at hr; subst hr; rfl
    · simp only [M.bind_eq_ok] at hr
      obtain ⟨prevTd, -, newTd, -, hr⟩ := hr
      split at hr
      · split at hr
        · rename_i ps hps
          simp only [M.bind_eq_ok] at hr
          obtain ⟨provedTd, -, hr⟩ := hr
          split at hr
          · simp only [M.bind_eq_ok] at hr
            obtain ⟨isp, -, hr⟩ := hr
            split at hr
            · obtain ⟨pst2, hpst2⟩ := PeerState.receiveLastStateProof_isOk_of_proveState
                ((PeerState.receiveLastState_ok hpst1).2.1.trans hps)
                (PeerState.receiveLastState_kind_ne_st6 hpst1) (newChild ps h s.lastNBlocks)
              rw [hpst2] at hr
              simp only [M.pure_eq_ok] at hr; subst hr; rfl
            · simp only [M.pure_eq_ok] at hr; subst hr; rfl
          · simp only [M.pure_eq_ok] at hr; subst hr; rfl
        · simp only [M.pure_eq_ok] at hr; subst hr; rfl
      · simp only [M.pure_eq_ok] at hr; subst hr; rfl
  · rename_i hnone
    simp only [M.bind_eq_ok] at hr
    obtain ⟨res, hres, hr⟩ := hr
    split at hr
    · simp only [M.pure_eq_ok] at hr; subst hr; rfl
    · rename_i c
      exfalso
      have h1 := PeerState.receiveLastState_first hnone hpst1
      subst h1
      obtain ⟨pst', hp', hcase⟩ := getLastStateProof_err hres
      rw [getPeer_setPeer_self _ hp] at hp'
      cases hp'
      rcases hcase with ⟨ps, he⟩ | ⟨rq, he⟩ <;> cases he

/-! ### the header TAU is checked from -/

/-- when the header after the reorg section is the genesis header (number 0) and the end header
lies after it, TAU is checked from the next header -/
theorem tauStartIdx_genesis {headers : List VH} {reorg endIdx : Nat} {g : VH}
    (hg : headers[reorg]? = some g) (h0 : g.number = 0) (hlt : reorg < endIdx) :
    tauStartIdx headers reorg endIdx = reorg + 1 := by
  unfold tauStartIdx
  simp [hg, h0, hlt]

/-- a list that starts with a header of number 0: from index 0 to any later end index, TAU is
checked from index 1 -/
theorem tauStartIdx_genesis_cons (g : VH) (rest : List VH) {k : Nat} (h0 : g.number = 0)
    (hk : 1 ≤ k) : tauStartIdx (g :: rest) 0 k = 1 :=
  tauStartIdx_genesis (reorg := 0) rfl h0 (by omega)

/-- when the header after the reorg section is not the genesis header, TAU is checked from it (as
before the repair) -/
theorem tauStartIdx_of_ne_zero {headers : List VH} {reorg : Nat} (endIdx : Nat) {h : VH}
    (hh : headers[reorg]? = some h) (h0 : h.number ≠ 0) :
    tauStartIdx headers reorg endIdx = reorg := by
  unfold tauStartIdx
  simp [hh, h0]

/-- … and when the genesis header is the end header itself (nothing after it to start from) -/
theorem tauStartIdx_of_not_lt (headers : List VH) {reorg endIdx : Nat} (h : ¬ reorg < endIdx) :
    tauStartIdx headers reorg endIdx = reorg := by
  rcases tauStartIdx_cases headers reorg endIdx with h' | ⟨h1, -⟩
  · exact h'
  · exact absurd h1 h

end Prove

import LcModel.Prove.Model
/-!
Shared vocabulary of the property theorems about the `Prove` layer (C01, C11, C12).
-/
namespace Prove

/-- the trusted chain view: the stored tip / total difficulty / last-N headers and, per peer,
its proved state.  (Last-state announcements and outstanding requests are *not* trusted.) -/
def Trusted (s : St) : Stored × List (Nat × Option ProveState) :=
  (s.stored, s.peers.map (fun e => (e.1, e.2.proveState?)))

def trustedOf (s : St) (p : Nat) : Option ProveState := (getPeer s p).bind (·.proveState?)

/-- a parent-linked run of headers (`check_continuous_headers` succeeded on it) -/
def Linked : List VH → Prop
  | a :: b :: rest => isParentOf a b = .ok true ∧ Linked (b :: rest)
  | _ => True

def StrictlyIncreasing : List Nat → Prop
  | a :: b :: rest => a < b ∧ StrictlyIncreasing (b :: rest)
  | _ => True

/-- the seven states of the documented diagram -/
inductive Kind where
  | st1 | st2 | st3 | st4 | st5 | st6 | st7
  deriving Repr, DecidableEq

def kind : PeerState → Kind
  | .initialized => .st1
  | .requestFirstLastState _ => .st2
  | .onlyHasLastState _ => .st3
  | .requestFirstLastStateProof .. => .st4
  | .ready .. => .st5
  | .requestNewLastState .. => .st6
  | .requestNewLastStateProof .. => .st7

/-- the documented edges (`peers.rs` plantuml), the two self-loops the code defines (a last
state refresh keeps the state; a new proof request replaces the outstanding one) and the
shortcut `st3 → st5` taken when the announced header is already proved by another peer -/
inductive Edge : Kind → Kind → Prop where
  | e12 : Edge .st1 .st2 | e23 : Edge .st2 .st3 | e34 : Edge .st3 .st4 | e45 : Edge .st4 .st5
  | e56 : Edge .st5 .st6 | e65 : Edge .st6 .st5 | e57 : Edge .st5 .st7 | e75 : Edge .st7 .st5
  | copy : Edge .st3 .st5
  | self (k : Kind) : Edge k k

/-- several edges may be taken while one event is handled -/
inductive Path : Kind → Kind → Prop where
  | nil (k : Kind) : Path k k
  | cons {a b c : Kind} : Edge a b → Path b c → Path a c

end Prove

import LcModel.Prove.Defs
/-! helper lemmas for the Prove layer -/
namespace Prove
end Prove

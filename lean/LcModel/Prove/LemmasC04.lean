import LcModel.Prove.LemmasC01
/-! # Prove layer — lemmas for C04 (fork detection of `commitProveState`) -/
namespace Prove

/-! ### the two header tests of `forkOf` -/

/-- a new header contradicts the remembered header at its number -/
def remMismatch (s : St) (h : VH) : Bool :=
  match remembered s h.number with
  | some hash => hash ≠ h.hid
  | none => false

/-- a new header equals the remembered header at its number -/
def remHit (s : St) (h : VH) : Option Nat :=
  match remembered s h.number with
  | some hash => if hash = h.hid then some h.number else none
  | none => none

theorem remMismatch_eq_true {s : St} {h : VH} :
    remMismatch s h = true ↔ ∃ hash, remembered s h.number = some hash ∧ hash ≠ h.hid := by
  unfold remMismatch
  cases remembered s h.number <;> simp

theorem remMismatch_eq_false {s : St} {h : VH} :
    remMismatch s h = false ↔ ∀ hash, remembered s h.number = some hash → hash = h.hid := by
  unfold remMismatch
  cases remembered s h.number <;> simp

theorem remHit_eq_some {s : St} {h : VH} {n : Nat} :
    remHit s h = some n ↔ h.number = n ∧ remembered s h.number = some h.hid := by
  unfold remHit
  cases hrem : remembered s h.number with
  | none => simp
  | some hash =>
    by_cases hh : hash = h.hid
    · simp [hh]
    · simp [hh]

theorem remHit_eq_none {s : St} {h : VH} :
    remHit s h = none ↔ remembered s h.number ≠ some h.hid := by
  unfold remHit
  cases hrem : remembered s h.number with
  | none => simp
  | some hash =>
    by_cases hh : hash = h.hid
    · simp [hh]
    · simp [hh]

/-- `forkOf` without reorg headers and with a stored tip other than block 1 -/
theorem forkOf_noReorg (s : St) (nps : ProveState) (hr : nps.reorgLast = [])
    (h1 : s.stored.tip.number ≠ 1) :
    forkOf s nps =
      if (nps.lastHeaders ++ [nps.last]).any (remMismatch s) then
        some ((nps.lastHeaders ++ [nps.last]).reverse.findSome? (remHit s))
      else none := by
  unfold forkOf
  rw [hr]
  simp only [List.isEmpty_nil, if_true, if_neg h1]
  rfl

/-- `forkOf` without reorg headers and with the stored tip at block 1 -/
theorem forkOf_noReorg_tip1 (s : St) (nps : ProveState) (hr : nps.reorgLast = [])
    (h1 : s.stored.tip.number = 1) : forkOf s nps = none := by
  unfold forkOf
  rw [hr]
  simp [h1]

/-- in a list with increasing keys the hit found from the back is the one with the largest key -/
theorem findSome?_reverse_highest {α : Type} (l : List α) (f : α → Option Nat) (num : α → Nat)
    (n : Nat) (hf : ∀ a b, f a = some b → num a = b)
    (h : l.reverse.findSome? f = some n) (hinc : l.Pairwise (fun a b => num a < num b)) :
    ∀ x ∈ l, n < num x → f x = none := by
  obtain ⟨l₁, a, l₂, hl, hfa, hbefore⟩ := List.findSome?_eq_some_iff.1 h
  have hl' : l = l₂.reverse ++ a :: l₁.reverse := by
    have := congrArg List.reverse hl
    simpa using this
  subst hl'
  have hna := hf a n hfa
  rw [List.pairwise_append] at hinc
  obtain ⟨-, hright, hcross⟩ := hinc
  intro x hx hlt
  rcases List.mem_append.1 hx with hx | hx
  · have := hcross x hx a (List.mem_cons_self)
    omega
  · rcases List.mem_cons.1 hx with rfl | hx
    · omega
    · exact hbefore x (List.mem_reverse.1 hx)

/-! ### `commitProveState` by the verdict of `forkOf` -/

/-- the final peer update of `commitProveState` -/
def commitTailF (s1 : St) (p : Nat) (nps : ProveState) : M (Except Nat (St × Bool)) :=
  match getPeer s1 p with
  | none => pure (.ok (s1, true))
  | some pst =>
    match pst.receiveLastStateProof nps with
    | .ok pst' => pure (.ok (setPeer s1 p pst', true))
    | .error c => pure (.error c)

theorem commitTailF_ok {s1 s' : St} {p : Nat} {nps : ProveState} {b : Bool}
    (h : commitTailF s1 p nps = .ok (.ok (s', b))) :
    b = true ∧ s'.rollbacks = s1.rollbacks ∧ s'.stored = s1.stored := by
  unfold commitTailF at h
  split at h
  · simp only [M.pure_eq_ok, Except.ok.injEq, Prod.mk.injEq] at h
    obtain ⟨rfl, rfl⟩ := h
    exact ⟨rfl, rfl, rfl⟩
  · split at h
    · simp only [M.pure_eq_ok, Except.ok.injEq, Prod.mk.injEq] at h
      obtain ⟨rfl, rfl⟩ := h
      exact ⟨rfl, rfl, rfl⟩
    · simp at h

/-- `commitProveState` when the new tip is heavier than the stored one -/
theorem commitProveState_heavier (s : St) (p : Nat) (nps : ProveState) (td : Nat)
    (htd : nps.last.td = .ok td) (hlt : s.stored.td < td) :
    commitProveState s p nps =
      match forkOf s nps with
      | none =>
        commitTailF (storeLastState
          (if nps.reorgLast.isEmpty && s.stored.tip.number = 1
            then { s with rollbacks := s.rollbacks ++ [1] } else s) td nps.last nps.lastHeaders) p nps
      | some (some n) =>
        commitTailF (storeLastState { s with rollbacks := s.rollbacks ++ [n + 1] } td nps.last
          nps.lastHeaders) p nps
      | some none => .ok (.ok (s, false)) := by
  unfold commitProveState
  rw [htd]
  simp only [bind, Except.bind, if_pos hlt]
  cases hf : forkOf s nps with
  | none =>
    simp only []
    split <;> rfl
  | some o =>
    cases o <;> rfl

end Prove

import LcModel.Prove.LemmasC1112
import LcModel.Difficulty.Lemmas
/-! # Prove layer — lemmas for C10 (no handler aborts on peer-supplied input) -/
namespace Prove
open Difficulty

/-! ### total correctness in `M` -/

/-- `x` returns a value, and the value satisfies `P` -/
def Tot {α : Type} (P : α → Prop) (x : M α) : Prop := ∃ a, x = .ok a ∧ P a

/-- `x` returns a value satisfying `P`, or stops with the documented deliberate abort -/
def TotD {α : Type} (P : α → Prop) (x : M α) : Prop := Tot P x ∨ x = .error (.deliberate 70)

theorem Tot.pure {α : Type} {P : α → Prop} {a : α} (h : P a) : Tot P (Pure.pure a : M α) :=
  ⟨a, rfl, h⟩

theorem Tot.ok {α : Type} {P : α → Prop} {a : α} (h : P a) : Tot P (Except.ok a : M α) :=
  ⟨a, rfl, h⟩

theorem Tot.bind {α β : Type} {Q : α → Prop} {P : β → Prop} {x : M α} {f : α → M β}
    (hx : Tot Q x) (hf : ∀ a, x = .ok a → Q a → Tot P (f a)) : Tot P (x >>= f) := by
  obtain ⟨a, ha, hq⟩ := hx
  obtain ⟨b, hb, hp⟩ := hf a ha hq
  exact ⟨b, by rw [ha]; exact hb, hp⟩

theorem Tot.mono {α : Type} {P Q : α → Prop} {x : M α} (h : Tot P x) (hpq : ∀ a, P a → Q a) :
    Tot Q x := by
  obtain ⟨a, ha, hp⟩ := h
  exact ⟨a, ha, hpq a hp⟩

/-- strengthen the postcondition with what the returned value is known to satisfy -/
theorem Tot.of_ok {α : Type} {P : α → Prop} {x : M α} (h : Tot (fun _ => True) x)
    (hp : ∀ a, x = .ok a → P a) : Tot P x := by
  obtain ⟨a, ha, -⟩ := h
  exact ⟨a, ha, hp a ha⟩

theorem Tot.toD {α : Type} {P : α → Prop} {x : M α} (h : Tot P x) : TotD P x := .inl h

theorem TotD.mono {α : Type} {P Q : α → Prop} {x : M α} (h : TotD P x) (hpq : ∀ a, P a → Q a) :
    TotD Q x := by
  rcases h with h | h
  · exact .inl (h.mono hpq)
  · exact .inr h

theorem TotD.pure {α : Type} {P : α → Prop} {a : α} (h : P a) : TotD P (Pure.pure a : M α) :=
  .inl (Tot.pure h)

theorem TotD.bind {α β : Type} {Q : α → Prop} {P : β → Prop} {x : M α} {f : α → M β}
    (hx : Tot Q x) (hf : ∀ a, x = .ok a → Q a → TotD P (f a)) : TotD P (x >>= f) := by
  obtain ⟨a, ha, hq⟩ := hx
  rcases hf a ha hq with ⟨b, hb, hp⟩ | he
  · exact .inl ⟨b, by rw [ha]; exact hb, hp⟩
  · exact .inr (by rw [ha]; exact he)

/-! ### the invariant -/

/-- `checked_total_difficulty().is_some()`, so `VH.td` succeeds -/
theorem td_of_tdOk {h : VH} (hk : h.tdOk = true) :
    h.td = .ok (h.ptd + compactToDifficulty h.compact) ∧
      h.ptd + compactToDifficulty h.compact ≤ U256_MAX := by
  unfold VH.tdOk at hk
  simp only [decide_eq_true_eq] at hk
  refine ⟨?_, hk⟩
  unfold VH.td addU256
  rw [if_pos hk]

theorem td_tot {h : VH} (hk : h.tdOk = true) : Tot (fun t => t ≤ U256_MAX) h.td :=
  ⟨_, (td_of_tdOk hk).1, (td_of_tdOk hk).2⟩

theorem td_le_of_ok {h : VH} {t : Nat} (ht : h.td = .ok t) : t ≤ U256_MAX := by
  unfold VH.td at ht
  simp only [addU256_eq_ok] at ht
  omega

/-- a proved state kept from an earlier message: the total difficulty of its last header can be
calculated, and the block numbers it remembers are at most `B` -/
structure WfPS (B : Nat) (ps : ProveState) : Prop where
  td : ps.last.tdOk = true
  num : ps.last.number ≤ B
  lh : ∀ x ∈ ps.lastHeaders, x.number ≤ B

/-- a peer state: the total difficulty of every stored verifiable header can be calculated -/
structure WfPeer (B : Nat) (pst : PeerState) : Prop where
  ls : ∀ ls, pst.lastState? = some ls → ls.h.tdOk = true
  rq : ∀ r, pst.proveRequest? = some r → r.last.tdOk = true
  ps : ∀ ps, pst.proveState? = some ps → WfPS B ps

/-- **the invariant of the repaired code**: what is kept from earlier messages cannot abort a
later handler.  `B` bounds the block numbers of proved headers (it grows by one with every child
accepted by `SendLastState`, see `C10.onLastState_preserves`). -/
structure WfSt (B : Nat) (s : St) : Prop where
  lastN : 1 ≤ s.lastNBlocks
  peers : ∀ e ∈ s.peers, WfPeer B e.2
  storedTd : s.stored.td ≤ U256_MAX
  storedLastN : ∀ e ∈ s.stored.lastN, e.1 ≤ B

theorem WfPS.mono {B B' : Nat} {ps : ProveState} (h : WfPS B ps) (hb : B ≤ B') : WfPS B' ps :=
  ⟨h.td, Nat.le_trans h.num hb, fun x hx => Nat.le_trans (h.lh x hx) hb⟩

theorem WfPeer.mono {B B' : Nat} {a : PeerState} (h : WfPeer B a) (hb : B ≤ B') : WfPeer B' a :=
  ⟨h.ls, h.rq, fun ps hps => (h.ps ps hps).mono hb⟩

theorem WfSt.mono {B B' : Nat} {s : St} (h : WfSt B s) (hb : B ≤ B') : WfSt B' s :=
  ⟨h.lastN, fun e he => (h.peers e he).mono hb, h.storedTd,
    fun e he => Nat.le_trans (h.storedLastN e he) hb⟩

theorem WfSt.getPeer {B : Nat} {s : St} {p : Nat} {a : PeerState} (h : WfSt B s)
    (hp : getPeer s p = some a) : WfPeer B a :=
  h.peers _ (getPeer_mem hp)

/-! ### peer-state transitions keep the invariant -/

namespace PeerState

theorem requestLastStateProof_fields {a a' : PeerState} {r : ProveRequest} {now : Nat}
    (h : a.requestLastStateProof r now = .ok a') :
    a'.lastState? = a.lastState? ∧ a'.proveRequest? = some r ∧ a'.proveState? = a.proveState? := by
  cases a <;> simp [requestLastStateProof] at h <;> subst h <;> exact ⟨rfl, rfl, rfl⟩

theorem receiveLastStateProof_fields {a a' : PeerState} {ps : ProveState}
    (h : a.receiveLastStateProof ps = .ok a') :
    a'.lastState? = a.lastState? ∧ a'.proveRequest? = none ∧ a'.proveState? = some ps := by
  cases a <;> simp [receiveLastStateProof] at h <;> subst h <;> exact ⟨rfl, rfl, rfl⟩

theorem requestLastState_fields {a a' : PeerState} {now : Nat}
    (h : a.requestLastState now = .ok a') :
    a'.lastState? = a.lastState? ∧ a'.proveRequest? = a.proveRequest? ∧
      a'.proveState? = a.proveState? := by
  cases a <;> simp [requestLastState] at h <;> subst h <;> exact ⟨rfl, rfl, rfl⟩

end PeerState

theorem WfPeer.receiveLastState {B : Nat} {a a' : PeerState} {n : LastState} (h : WfPeer B a)
    (hn : n.h.tdOk = true) (ht : a.receiveLastState n = .ok a') : WfPeer B a' := by
  obtain ⟨-, h1, h2, h3⟩ := PeerState.receiveLastState_ok ht
  refine ⟨fun ls hls => ?_, fun r hr => h.rq r (h2 ▸ hr), fun ps hps => h.ps ps (h1 ▸ hps)⟩
  rw [h3] at hls; cases hls; exact hn

theorem WfPeer.requestLastStateProof {B : Nat} {a a' : PeerState} {r : ProveRequest} {now : Nat}
    (h : WfPeer B a) (hr : r.last.tdOk = true) (ht : a.requestLastStateProof r now = .ok a') :
    WfPeer B a' := by
  obtain ⟨h1, h2, h3⟩ := PeerState.requestLastStateProof_fields ht
  refine ⟨fun ls hls => h.ls ls (h1 ▸ hls), fun r' hr' => ?_, fun ps hps => h.ps ps (h3 ▸ hps)⟩
  rw [h2] at hr'; cases hr'; exact hr

theorem WfPeer.receiveLastStateProof {B : Nat} {a a' : PeerState} {ps : ProveState}
    (h : WfPeer B a) (hps : WfPS B ps) (ht : a.receiveLastStateProof ps = .ok a') :
    WfPeer B a' := by
  obtain ⟨h1, h2, h3⟩ := PeerState.receiveLastStateProof_fields ht
  refine ⟨fun ls hls => h.ls ls (h1 ▸ hls), fun r' hr' => ?_, fun ps' hps' => ?_⟩
  · rw [h2] at hr'; cases hr'
  · rw [h3] at hps'; cases hps'; exact hps

theorem WfPeer.requestLastState {B : Nat} {a a' : PeerState} {now : Nat}
    (h : WfPeer B a) (ht : a.requestLastState now = .ok a') : WfPeer B a' := by
  obtain ⟨h1, h2, h3⟩ := PeerState.requestLastState_fields ht
  exact ⟨fun ls hls => h.ls ls (h1 ▸ hls), fun r hr => h.rq r (h2 ▸ hr),
    fun ps hps => h.ps ps (h3 ▸ hps)⟩

theorem WfPeer.initialized (B : Nat) : WfPeer B .initialized :=
  ⟨fun _ h => (by cases h), fun _ h => (by cases h), fun _ h => (by cases h)⟩

/-! ### state updates keep the invariant -/

theorem mem_setPeer {s : St} {p : Nat} {x : PeerState} {e : Nat × PeerState}
    (h : e ∈ (setPeer s p x).peers) : e = (p, x) ∨ e ∈ s.peers := by
  simp only [setPeer, List.mem_map] at h
  obtain ⟨a, ha, rfl⟩ := h
  by_cases hap : a.1 = p <;> simp [hap, ha]

theorem WfSt.setPeer {B : Nat} {s : St} {x : PeerState} (h : WfSt B s) (p : Nat)
    (hx : WfPeer B x) : WfSt B (setPeer s p x) := by
  refine ⟨h.lastN, fun e he => ?_, h.storedTd, h.storedLastN⟩
  rcases mem_setPeer he with rfl | he
  · exact hx
  · exact h.peers e he

theorem WfSt.storeLastState {B : Nat} {s : St} {td : Nat} {lhs : List VH} (h : WfSt B s)
    (tip : VH) (htd : td ≤ U256_MAX) (hl : ∀ x ∈ lhs, x.number ≤ B) :
    WfSt B (storeLastState s td tip lhs) := by
  refine ⟨h.lastN, h.peers, htd, fun e he => ?_⟩
  simp only [Prove.storeLastState, List.mem_map] at he
  obtain ⟨x, hx, rfl⟩ := he
  exact hl x hx

theorem WfSt.rollbacks {B : Nat} {s : St} (h : WfSt B s) (rb : List Nat) :
    WfSt B { s with rollbacks := rb } :=
  ⟨h.lastN, h.peers, h.storedTd, h.storedLastN⟩

theorem WfSt.findProved {B : Nat} {s : St} {hd : VH} {ps : ProveState} (h : WfSt B s)
    (hf : findProved s hd = some ps) : WfPS B ps := by
  obtain ⟨e, he, hps, -⟩ := findProved_some hf
  exact (h.peers e he).ps ps hps

theorem getPeer_isSome_of_mem_ids {s : St} {p : Nat} (h : p ∈ s.peers.map (·.1)) :
    ∃ a, getPeer s p = some a := by
  unfold Prove.getPeer
  obtain ⟨e, he, hep⟩ := List.mem_map.1 h
  cases hf : s.peers.find? (·.1 = p) with
  | some x => exact ⟨x.2, rfl⟩
  | none =>
    have := List.find?_eq_none.1 hf e he
    simp [hep] at this

theorem mem_ids_of_getPeer {s : St} {p : Nat} {a : PeerState} (h : getPeer s p = some a) :
    p ∈ s.peers.map (·.1) :=
  List.mem_map.2 ⟨_, getPeer_mem h, rfl⟩

/-! ### building requests -/

theorem find_tot (s : St) (last : VH) (startNumber : Nat) :
    ∀ l : List (Nat × Nat), (∀ e ∈ l, e.1 + s.lastNBlocks ≤ U64_MAX) →
      Tot (fun _ => True) (buildContent.find s last startNumber l)
  | [], _ => by unfold buildContent.find; exact Tot.pure trivial
  | (num, hash) :: rest, h => by
    have ih := find_tot s last startNumber rest (fun e he => h e (List.mem_cons_of_mem _ he))
    have hn : num + s.lastNBlocks ≤ U64_MAX := h (num, hash) (List.mem_cons_self ..)
    unfold buildContent.find
    split
    · refine Tot.bind (Q := fun _ => True) ⟨_, by unfold addU64; rw [if_pos hn], trivial⟩ ?_
      intro lim _ _
      split
      · exact Tot.pure trivial
      · exact ih
    · exact ih

theorem buildContent_tot {B : Nat} {s : St} (h : WfSt B s) (hB : B + s.lastNBlocks ≤ U64_MAX)
    (ps? : Option ProveState) (hps : ∀ ps, ps? = some ps → WfPS B ps) (last : VH)
    (lastTd b : Nat) (ds : List Nat) :
    Tot (fun _ => True) (buildContent s ps? last lastTd b ds) := by
  unfold buildContent
  refine Tot.bind (Q := fun _ => True) ?_ ?_
  · cases ps? with
    | none => exact Tot.pure trivial
    | some ps =>
      refine Tot.bind (td_tot (hps ps rfl).td) ?_
      intro t _ _
      exact Tot.pure trivial
  · intro x _ _
    obtain ⟨startHash, startNumber, startTd⟩ := x
    simp only []
    split
    · exact Tot.pure trivial
    split
    · refine Tot.bind (Q := fun _ => True) (find_tot s last startNumber _ ?_) ?_
      · intro e he
        have := h.storedLastN e he
        omega
      · intro r _ _
        exact Tot.pure trivial
    · split
      · exact Tot.pure trivial
      · exact Tot.pure trivial

/-- the postcondition of `getLastStateProof` -/
def GlspPost (B : Nat) : Except Nat (St × List Sent) → Prop
  | .ok (s2, _) => WfSt B s2
  | .error _ => True

theorem getLastStateProof_tot {B : Nat} {s : St} {p : Nat} {pst : PeerState} (h : WfSt B s)
    (hB : B + s.lastNBlocks ≤ U64_MAX) (hp : getPeer s p = some pst) (now b : Nat) (ds : List Nat) :
    Tot (GlspPost B) (getLastStateProof s p now b ds) := by
  have hw := h.getPeer hp
  unfold getLastStateProof
  simp only [hp]
  split
  · exact Tot.pure h
  · rename_i ls hls
    split
    · exact Tot.pure h
    split
    · exact Tot.pure h
    split
    · rename_i ps hfp
      split
      · rename_i pst' hrcv
        exact Tot.pure (h.setPeer p (hw.receiveLastStateProof (h.findProved hfp) hrcv))
      · exact Tot.pure trivial
    · refine Tot.bind (td_tot (hw.ls ls hls)) ?_
      intro lastTd _ _
      refine Tot.bind (buildContent_tot h hB _ hw.ps _ _ _ _) ?_
      intro c _ _
      split
      · exact Tot.pure h
      · split
        · rename_i pst' hrq
          exact Tot.pure (h.setPeer p (hw.requestLastStateProof (hw.ls ls hls) hrq))
        · exact Tot.pure trivial

/-! ### `SendLastState` -/

theorem tdOk_of_checkVerifiable {h : VH} (hc : checkVerifiable h = none) : h.tdOk = true := by
  unfold checkVerifiable at hc
  cases hk : h.tdOk with
  | true => rfl
  | false => simp [hk] at hc

theorem isParentOf_tot {a : VH} (b : VH) (h : a.number < U64_MAX) :
    Tot (fun r => r = true → b.number = a.number + 1) (isParentOf a b) := by
  unfold isParentOf
  have hle : a.number + 1 ≤ U64_MAX := h
  refine Tot.bind (Q := fun n => n = a.number + 1) ⟨_, by unfold addU64; rw [if_pos hle], rfl⟩ ?_
  intro n _ hn
  subst hn
  refine Tot.pure ?_
  intro hr
  simp only [Bool.and_eq_true, decide_eq_true_eq] at hr
  exact hr.1.1.symm

theorem WfPS.newChild {B : Nat} {ps : ProveState} {hd : VH} (h : WfPS B ps) (lastN : Nat)
    (htd : hd.tdOk = true) (hnum : hd.number = ps.last.number + 1) :
    WfPS (B + 1) (newChild ps hd lastN) := by
  have hn := h.num
  refine ⟨htd, by show hd.number ≤ B + 1; omega, fun x hx => ?_⟩
  simp only [Prove.newChild, List.mem_append, List.mem_singleton] at hx
  rcases hx with hx | rfl
  · have : x ∈ ps.lastHeaders := by
      split at hx
      · exact List.mem_of_mem_drop hx
      · exact hx
    have := h.lh x this
    omega
  · omega

theorem onLastState_tot {B : Nat} {s : St} (h : WfSt B s) (hB : B + s.lastNBlocks ≤ U64_MAX)
    (p : Nat) (hd : VH) (now b : Nat) (ds : List Nat) :
    Tot (fun o => WfSt (B + 1) o.st) (onLastState s p hd now b ds) := by
  have h1 : WfSt (B + 1) s := h.mono (Nat.le_succ B)
  have hBlt : B < U64_MAX := by have := h.lastN; omega
  unfold onLastState
  split
  · exact Tot.pure h1
  rename_i pst hp
  have hw := h.getPeer hp
  split
  · exact Tot.pure h1
  rename_i hcv
  have htd : hd.tdOk = true := by
    apply tdOk_of_checkVerifiable
    cases hc : checkVerifiable hd with
    | none => rfl
    | some c => exact absurd hc (hcv c)
  split
  · exact Tot.pure h1
  simp only []
  split
  · rename_i prev hprev
    split
    · exact Tot.pure h1
    split
    · exact Tot.pure h1
    · rename_i pst1 hpst1
      have hw1 : WfPeer B pst1 := hw.receiveLastState (n := ⟨hd, now⟩) htd hpst1
      have hs1 : WfSt B (setPeer s p pst1) := h.setPeer p hw1
      have hs1' : WfSt (B + 1) (setPeer s p pst1) := hs1.mono (Nat.le_succ B)
      refine Tot.bind (td_tot (hw.ls prev hprev)) ?_
      intro prevTd _ _
      refine Tot.bind (td_tot htd) ?_
      intro newTd _ hnewTd
      split
      · split
        · rename_i ps hps
          have hwps := hw.ps ps hps
          refine Tot.bind (td_tot hwps.td) ?_
          intro provedTd _ _
          split
          · refine Tot.bind (isParentOf_tot hd (Nat.lt_of_le_of_lt hwps.num hBlt)) ?_
            intro isp _ hisp
            split
            · rename_i hisp'
              have hchild : WfPS (B + 1) (newChild ps hd s.lastNBlocks) :=
                hwps.newChild _ htd (hisp hisp')
              have hs2 : WfSt (B + 1) (if (setPeer s p pst1).stored.td < newTd then
                  storeLastState (setPeer s p pst1) newTd hd
                    (newChild ps hd s.lastNBlocks).lastHeaders else setPeer s p pst1) := by
                split
                · exact hs1'.storeLastState hd hnewTd hchild.lh
                · exact hs1'
              split
              · rename_i pst2 hpst2
                exact Tot.pure (hs2.setPeer p ((hw1.mono (Nat.le_succ B)).receiveLastStateProof
                  hchild hpst2))
              · exact Tot.pure hs2
            · exact Tot.pure hs1'
          · exact Tot.pure hs1'
        · exact Tot.pure hs1'
      · exact Tot.pure hs1'
  · split
    · exact Tot.pure h1
    · rename_i pst1 hpst1
      have hw1 : WfPeer B pst1 := hw.receiveLastState (n := ⟨hd, now⟩) htd hpst1
      have hs1 : WfSt B (setPeer s p pst1) := h.setPeer p hw1
      have hp1 : getPeer (setPeer s p pst1) p = some pst1 := getPeer_setPeer_self pst1 hp
      refine Tot.bind (getLastStateProof_tot hs1 hB hp1 now b ds) ?_
      intro r _ hr
      split
      · exact Tot.pure (WfSt.mono hr (Nat.le_succ B))
      · exact Tot.pure (hs1.mono (Nat.le_succ B))

/-! ### the refresh timer -/

/-- invariant rule for a `for` loop over a list: every iteration returns -/
theorem forIn_list_tot {α β : Type} (P : β → Prop) (f : α → β → M (ForInStep β)) :
    ∀ (l : List α) (init : β), P init →
      (∀ a ∈ l, ∀ b, P b →
        Tot (fun r => P (match r with | .yield x => x | .done x => x)) (f a b)) →
      Tot P (forIn l init f) := by
  intro l
  induction l with
  | nil => intro init h0 _; exact ⟨init, rfl, h0⟩
  | cons a l ih =>
    intro init h0 hf
    rw [List.forIn_cons]
    refine Tot.bind (hf a (List.mem_cons_self ..) init h0) ?_
    intro r _ hr
    cases r with
    | done x => exact Tot.pure hr
    | yield x => exact ih x hr (fun a' ha' => hf a' (List.mem_cons_of_mem _ ha'))

/-- the loop invariant of `onTick` -/
def TickInv (B : Nat) (s : St) (r : St × List Sent) : Prop :=
  WfSt B r.1 ∧ r.1.lastNBlocks = s.lastNBlocks ∧ r.1.peers.map (·.1) = s.peers.map (·.1)

theorem onTick_tot {B : Nat} {s : St} (h : WfSt B s) (hB : B + s.lastNBlocks ≤ U64_MAX)
    (now : Nat) (si : SampleInputs) (hnow : s.refreshPeriod ≤ now) :
    Tot (fun o => WfSt B o.st ∧ o.st.lastNBlocks = s.lastNBlocks) (onTick s now si) := by
  unfold onTick
  simp only []
  refine Tot.bind (Q := fun _ => True) ⟨_, by unfold subU64; rw [if_pos hnow], trivial⟩ ?_
  intro beforeTs _ _
  refine Tot.bind (Q := TickInv B s) ?_ ?_
  · refine forIn_list_tot (TickInv B s) _ _ _ ⟨h, rfl, rfl⟩ ?_
    intro p _ r ⟨hw, hl, hids⟩
    split
    · rename_i pst hp
      split
      · rename_i pst' hpst'
        exact Tot.pure ⟨hw.setPeer p ((hw.getPeer hp).requestLastState hpst'), hl,
          (setPeer_ids ..).trans hids⟩
      · exact Tot.pure ⟨hw, hl, hids⟩
    · exact Tot.pure ⟨hw, hl, hids⟩
  · intro r1 _ hr1
    refine Tot.bind (Q := TickInv B s) ?_ ?_
    · refine forIn_list_tot (TickInv B s) _ _ _ hr1 ?_
      intro p hp r ⟨hw, hl, hids⟩
      have hmem : p ∈ r.1.peers.map (·.1) := by
        rw [hids, ← hr1.2.2]
        simp only [List.mem_map, List.mem_filter] at hp ⊢
        obtain ⟨e, ⟨he, -⟩, rfl⟩ := hp
        exact ⟨e, he, rfl⟩
      obtain ⟨pst, hpst⟩ := getPeer_isSome_of_mem_ids hmem
      refine Tot.bind (getLastStateProof_tot hw (by rw [hl]; exact hB) hpst now _ _) ?_
      intro g hg hgp
      split
      · rename_i st' snt
        obtain ⟨-, hl', -⟩ := getLastStateProof_moves hg
        exact Tot.pure ⟨hgp, hl'.trans hl, (getLastStateProof_ids hg).trans hids⟩
      · exact Tot.pure ⟨hw, hl, hids⟩
    · intro r2 _ hr2
      exact Tot.pure ⟨hr2.1, hr2.2.1⟩

/-! ### `check_if_response_is_matched` never aborts -/

section matched
variable {lastN : Nat} {c : ReqContent} {headers : List VH} {last : VH}

theorem countBefore_tot (c : ReqContent) : ∀ l : List VH, (∀ x ∈ l, x.tdOk = true) →
    Tot (fun _ => True) (checkMatched.countBefore c l)
  | [], _ => by unfold checkMatched.countBefore; exact Tot.pure trivial
  | a :: rest, h => by
    have ih := countBefore_tot c rest (fun x hx => h x (List.mem_cons_of_mem _ hx))
    unfold checkMatched.countBefore
    refine Tot.bind (td_tot (h a (List.mem_cons_self ..))) ?_
    intro t _ _
    split
    · refine Tot.bind ih ?_
      intro n _ _
      exact Tot.pure trivial
    · exact Tot.pure trivial

theorem matchLoop_tot : ∀ (hs : List VH) (ds : List Nat), (∀ x ∈ hs, x.tdOk = true) →
    Tot (fun _ => True) (checkMatched.matchLoop hs ds)
  | [], _, _ => by unfold checkMatched.matchLoop; exact Tot.pure trivial
  | a :: rest, ds, h => by
    unfold checkMatched.matchLoop
    refine Tot.bind (td_tot (h a (List.mem_cons_self ..))) ?_
    intro cur _ _
    split
    · exact Tot.pure trivial
    · split
      · exact matchLoop_tot rest _ (fun x hx => h x (List.mem_cons_of_mem _ hx))
      · exact Tot.pure trivial

theorem cmShape_tot (reorg : Nat) (hall : ∀ x ∈ headers, x.tdOk = true) :
    Tot (fun _ => True) (cmShape lastN c headers reorg) := by
  unfold cmShape
  simp only []
  split
  · refine Tot.bind (countBefore_tot c headers hall) ?_
    intro before _ _
    split
    · exact Tot.pure trivial
    · rename_i hge
      split
      · refine Tot.bind (Q := fun _ => True)
          ⟨_, by unfold subU64; rw [if_pos (Nat.le_of_not_lt hge)], trivial⟩ ?_
        intro sc _ _
        exact Tot.pure trivial
      · exact Tot.pure trivial
  · exact Tot.pure trivial

/-- with samples the last-N section is not empty (`last_n_blocks ≥ 1`) -/
theorem cmShape_pos {reorg sc ln : Nat} (h : cmShape lastN c headers reorg = .ok (.ok (sc, ln)))
    (hl : 1 ≤ lastN) : sc ≠ 0 → 0 < ln := by
  unfold cmShape at h
  simp only [] at h
  split at h
  · simp only [M.bind_eq_ok] at h
    obtain ⟨before, -, h⟩ := h
    split at h
    · simp at h
    split at h
    · simp only [M.bind_eq_ok, subU64_eq_ok, M.pure_eq_ok, Except.ok.injEq, Prod.mk.injEq] at h
      obtain ⟨x, -, -, rfl⟩ := h
      intro _; omega
    · simp only [M.pure_eq_ok, Except.ok.injEq, Prod.mk.injEq] at h
      obtain ⟨-, rfl⟩ := h
      intro _; omega
  · simp only [M.pure_eq_ok, Except.ok.injEq, Prod.mk.injEq] at h
    obtain ⟨rfl, -⟩ := h
    intro h0; exact absurd rfl h0

theorem getElem?_isSome {α : Type} {l : List α} {i : Nat} (h : i < l.length) :
    ∃ a, l[i]? = some a := ⟨l[i], List.getElem?_eq_getElem h⟩

theorem cmTail_tot {reorg sc ln : Nat} (hall : ∀ x ∈ headers, x.tdOk = true)
    (hlen : headers.length = reorg + sc + ln) (hpos : sc ≠ 0 → 0 < ln)
    (hlast : last.number ≤ U64_MAX) :
    Tot (fun _ => True) (cmTail lastN c headers last reorg sc ln) := by
  unfold cmTail
  split
  · exact Tot.pure trivial
  split
  · exact Tot.pure trivial
  rename_i hend
  split
  · rename_i hs0
    split
    · rename_i hln
      obtain ⟨f, hf⟩ := getElem?_isSome (l := headers) (i := reorg) (by omega)
      have hne : headers ≠ [] := by intro h0; rw [h0] at hlen; simp at hlen; omega
      obtain ⟨l, hl⟩ : ∃ l, headers.getLast? = some l :=
        ⟨headers.getLast hne, List.getLast?_eq_some_getLast hne⟩
      have hl1 : l.number + 1 = last.number := by
        simp only [hl, hln, decide_true, Bool.true_and, Option.map_some, ne_eq, Option.some.injEq,
          decide_eq_true_eq, Decidable.not_not] at hend
        exact hend
      simp only [hf, hl]
      refine Tot.bind (Q := fun _ => True)
        ⟨_, by unfold addU64; rw [if_pos (by omega)], trivial⟩ ?_
      intro l1 _ _
      split
      · -- `!has_all_blocks`: `checkNoSampled` is a pure function of values already at hand
        -- (`headers[reorg_count]` again, the first requested difficulty as an `Option`)
        split
        · exact Tot.pure trivial
        · exact Tot.pure trivial
      · exact Tot.pure trivial
    · exact Tot.pure trivial
  · rename_i hs0
    obtain ⟨f, hf⟩ := getElem?_isSome (l := headers) (i := reorg + sc)
      (by have := hpos hs0; omega)
    simp only [hf]
    refine Tot.bind (td_tot (hall f (List.mem_of_getElem? hf))) ?_
    intro ftd _ _
    refine Tot.bind (matchLoop_tot _ _ (fun x hx =>
      hall x (List.mem_of_mem_drop (List.mem_of_mem_take hx)))) ?_
    intro res _ _
    split
    · exact Tot.pure trivial
    · split
      · exact Tot.pure trivial
      · split
        · exact Tot.pure trivial
        · exact Tot.pure trivial

theorem cmMid_tot {reorg : Nat} (hall : ∀ x ∈ headers, x.tdOk = true) (hl : 1 ≤ lastN)
    (hr : reorg ≤ headers.length) (hlast : last.number ≤ U64_MAX) :
    Tot (fun _ => True) (cmMid lastN c headers last reorg) := by
  unfold cmMid
  refine Tot.bind (cmShape_tot reorg hall) ?_
  intro shape hshape _
  split
  · exact Tot.pure trivial
  rename_i sc ln
  have hlen := cmShape_sum hshape hr
  have hpos := cmShape_pos hshape hl
  split
  · rename_i hs0
    obtain ⟨f, hf⟩ := getElem?_isSome (l := headers) (i := headers.length - ln)
      (by have := hpos hs0; omega)
    simp only [hf]
    split
    · exact Tot.pure trivial
    · exact cmTail_tot hall hlen hpos hlast
  · exact cmTail_tot hall hlen hpos hlast

theorem checkMatched_tot (hall : ∀ x ∈ headers, x.tdOk = true) (hl : 1 ≤ lastN)
    (hlast : last.number ≤ U64_MAX) :
    Tot (fun _ => True) (checkMatched lastN c headers last) := by
  rw [checkMatched_eq]
  split
  · exact Tot.pure trivial
  split
  · exact Tot.pure trivial
  simp only []
  have hr : (headers.takeWhile (fun h => h.number < c.startNumber)).length ≤ headers.length :=
    length_takeWhile_le' ..
  split
  · rename_i hr0
    obtain ⟨lr, hlr⟩ := getElem?_isSome (l := headers)
      (i := (headers.takeWhile (fun h => decide (h.number < c.startNumber))).length - 1) (by omega)
    split
    · split
      · exact Tot.pure trivial
      · simp only [hlr]
        split
        · exact Tot.pure trivial
        · exact cmMid_tot hall hl hr hlast
    · simp only [hlr]
      split
      · exact Tot.pure trivial
      · exact cmMid_tot hall hl hr hlast
  · exact cmMid_tot hall hl hr hlast

/-- what an accepted response looks like (used by the later steps of the handler) -/
theorem checkMatched_facts {r sc ln : Nat} (hl : 1 ≤ lastN)
    (h : checkMatched lastN c headers last = .ok (.ok (r, sc, ln))) :
    checkMatched.sorted headers = true ∧ headers.length = r + sc + ln ∧ (sc ≠ 0 → 0 < ln) := by
  obtain ⟨hsorted, hr, -, hmid⟩ := checkMatched_inv h
  obtain ⟨hshape, -, -⟩ := cmMid_inv hmid
  have hrle : r ≤ headers.length := by rw [hr]; exact length_takeWhile_le' ..
  exact ⟨hsorted, cmShape_sum hshape hrle, cmShape_pos hshape hl⟩

end matched

/-! ### continuity checks -/

/-- the numbers increase along the list -/
def Incr (l : List VH) : Prop := l.Pairwise (fun a b => a.number < b.number)

theorem incr_of_sorted {l : List VH} (h : checkMatched.sorted l = true) : Incr l := by
  have := (strictlyIncreasing_iff_pairwise _).1 (sorted_increasing l h)
  exact List.pairwise_map.1 this

theorem checkContinuous_tot : ∀ l : List VH, Incr l → (∀ x ∈ l, x.number ≤ U64_MAX) →
    Tot (fun _ => True) (checkContinuous l)
  | [], _, _ => by unfold checkContinuous; exact Tot.pure trivial
  | [_], _, _ => by unfold checkContinuous; exact Tot.pure trivial
  | a :: b :: rest, hi, hn => by
    have hab : a.number < b.number :=
      (List.pairwise_cons.1 hi).1 b (List.mem_cons_self ..)
    have hb : b.number ≤ U64_MAX := hn b (List.mem_cons_of_mem _ (List.mem_cons_self ..))
    unfold checkContinuous
    refine Tot.bind (isParentOf_tot b (by omega)) ?_
    intro v _ _
    split
    · exact checkContinuous_tot (b :: rest) (List.pairwise_cons.1 hi).2
        (fun x hx => hn x (List.mem_cons_of_mem _ hx))
    · exact Tot.pure trivial

/-! ### `SendLastStateProof` -/

theorem assembleLastHeaders_tot {lastN : Nat} {pst : PeerState} {headers : List VH}
    {r sc ln : Nat} (hinc : Incr headers) (hnum : ∀ x ∈ headers, x.number ≤ U64_MAX)
    (hlen : headers.length = r + sc + ln) :
    Tot (fun res => ∀ lh, res = some lh → ∀ x ∈ lh,
      x ∈ headers ∨ ∃ ps, pst.proveState? = some ps ∧ x ∈ ps.lastHeaders)
      (assembleLastHeaders lastN pst headers r sc ln) := by
  have hnew : ∀ x ∈ headers.drop (headers.length - ln), x ∈ headers :=
    fun x hx => List.mem_of_mem_drop hx
  unfold assembleLastHeaders
  simp only []
  split
  · refine Tot.pure ?_
    intro lh hlh x hx
    cases hlh
    exact .inl (hnew x hx)
  split
  · refine Tot.pure ?_
    intro lh hlh x hx
    cases hlh
    exact .inl (hnew x (List.mem_of_mem_drop hx))
  split
  · rename_i ps hps
    split
    · split
      · refine Tot.pure ?_
        intro lh hlh x hx
        cases hlh
        exact .inl (hnew x hx)
      · refine Tot.pure ?_
        intro lh hlh x hx
        cases hlh
        rcases List.mem_append.1 hx with hx | hx
        · exact .inr ⟨ps, hps, List.mem_of_mem_drop hx⟩
        · exact .inl (hnew x hx)
    · split
      · refine Tot.pure ?_
        intro lh hlh x hx
        cases hlh
        exact .inl (hnew x hx)
      · refine Tot.pure ?_
        intro lh hlh x hx
        cases hlh
        rcases List.mem_append.1 hx with hx | hx
        · exact .inl (List.mem_of_mem_take (List.mem_of_mem_drop hx))
        · exact .inl (hnew x hx)
  · split
    · refine Tot.pure ?_
      intro lh hlh x hx
      cases hlh
      exact .inl (hnew x hx)
    · rename_i hr0
      split
      · rename_i hcond
        simp only [Bool.and_eq_true, decide_eq_true_eq, ne_eq] at hcond
        have hi1 : r - 1 < headers.length := by omega
        have hi2 : r < headers.length := by omega
        simp only [List.getElem?_eq_getElem hi1, List.getElem?_eq_getElem hi2]
        have hlt : headers[r - 1].number < headers[r].number :=
          List.pairwise_iff_getElem.1 hinc (r - 1) r hi1 hi2 (by omega)
        have hle : headers[r].number ≤ U64_MAX := hnum _ (List.getElem_mem hi2)
        refine Tot.bind (isParentOf_tot headers[r] (by omega)) ?_
        intro v _ _
        split
        · refine Tot.pure ?_
          intro lh hlh x hx
          cases hlh
          rcases List.mem_append.1 hx with hx | hx
          · exact .inl (List.mem_of_mem_take (List.mem_of_mem_drop hx))
          · exact .inl (hnew x hx)
        · exact Tot.pure (fun lh hlh => by cases hlh)
      · exact Tot.pure (fun lh hlh => by cases hlh)

/-- the postcondition of `commitProveState` -/
def CommitPost (B : Nat) (nps : ProveState) : Except Nat (St × Bool) → Prop
  | .ok (s1, _) => WfPS B nps → WfSt B s1
  | .error _ => True

theorem commitProveState_tot {B : Nat} {s : St} (h : WfSt B s) (p : Nat) {nps : ProveState}
    (htd : nps.last.tdOk = true) : Tot (CommitPost B nps) (commitProveState s p nps) := by
  have tail : ∀ s0 : St, (WfPS B nps → WfSt B s0) → Tot (CommitPost B nps)
      (match getPeer s0 p with
        | none => (pure (Except.ok (s0, true)) : M (Except Nat (St × Bool)))
        | some pst =>
          match pst.receiveLastStateProof nps with
          | Except.ok pst' => pure (Except.ok (setPeer s0 p pst', true))
          | Except.error c => pure (Except.error c)) := by
    intro s0 hs0
    split
    · exact Tot.pure hs0
    · rename_i pst hp
      split
      · rename_i pst' hrc
        exact Tot.pure (fun hn =>
          (hs0 hn).setPeer p (((hs0 hn).getPeer hp).receiveLastStateProof hn hrc))
      · exact Tot.pure trivial
  have htdle := (td_of_tdOk htd).2
  unfold commitProveState
  rw [(td_of_tdOk htd).1]
  simp only [bind, Except.bind]
  split
  · split
    · split
      · exact tail _ (fun hn => (h.rollbacks _).storeLastState _ htdle hn.lh)
      · exact tail _ (fun hn => h.storeLastState _ htdle hn.lh)
    · exact tail _ (fun hn => (h.rollbacks _).storeLastState _ htdle hn.lh)
    · exact Tot.pure (fun _ => h)
  · exact tail _ (fun _ => h)

theorem mmrStructOk_bounds {last : VH} {headers : List VH}
    (h : mmrStructOk last headers = true) :
    last.number ≤ U64_MAX / 4 + 1 ∧ ∀ x ∈ headers, x.number ≤ U64_MAX / 4 := by
  unfold mmrStructOk at h
  simp only [Bool.and_eq_true, decide_eq_true_eq, List.all_eq_true] at h
  obtain ⟨⟨⟨h1, h2⟩, h3⟩, h4⟩ := h
  refine ⟨by omega, fun x hx => ?_⟩
  have := h4 x hx
  omega

/-- postcondition of `onProof`: the invariant is kept, provided the header the request was made
for is the header the response is about (`vid` identifies the verifiable header) -/
def ProofPost (B : Nat) (req : ProveRequest) (m : ProofMsg) (o : Out) : Prop :=
  req.last = m.last → WfSt B o.st

section proof
variable {B : Nat} {s : St} {p : Nat} {pst : PeerState} {req : ProveRequest} {m : ProofMsg}
  {now b : Nat} {ds : List Nat} {bG : Nat} {dsG : List Nat} {r sc ln : Nat} {tf : Bool}

theorem proofFinish_tot (h : WfSt B s) (hB : B + s.lastNBlocks ≤ U64_MAX)
    (hB0 : U64_MAX / 4 + 1 ≤ B) (hp : getPeer s p = some pst)
    (hreq : pst.proveRequest? = some req) (hlast : m.last.tdOk = true)
    (hinc : Incr m.headers) (hnum : ∀ x ∈ m.headers, x.number ≤ U64_MAX)
    (hlen : m.headers.length = r + sc + ln) (hms : mmrStructOk m.last m.headers = true) :
    TotD (ProofPost B req m) (proofFinish s p pst req m now b ds bG dsG r sc ln tf) := by
  have hw := h.getPeer hp
  have hrtd : req.last.tdOk = true := hw.rq req hreq
  unfold proofFinish
  split
  · refine TotD.bind (td_tot hlast) ?_
    intro lastTd _ _
    refine TotD.bind (buildContent_tot h hB _ hw.ps _ _ _ _) ?_
    intro c _ _
    split
    · split
      · rename_i pst' hrq
        exact TotD.pure (fun _ => h.setPeer p (hw.requestLastStateProof hlast hrq))
      · exact TotD.pure (fun _ => h)
    · exact TotD.pure (fun _ => h)
  · refine TotD.bind (assembleLastHeaders_tot hinc hnum hlen) ?_
    intro olh _ holh
    split
    · exact TotD.pure (fun _ => h)
    · rename_i lastHeaders _
      have hnps : req.last = m.last → WfPS B ⟨req.last, m.headers.take r, lastHeaders⟩ := by
        intro hv
        obtain ⟨hb1, hb2⟩ := mmrStructOk_bounds hms
        refine ⟨hrtd, ?_, fun x hx => ?_⟩
        · show req.last.number ≤ B
          rw [hv]; omega
        · rcases holh lastHeaders rfl x hx with hx | ⟨ps, hps, hx⟩
          · have := hb2 x hx; omega
          · exact (hw.ps ps hps).lh x hx
      extract_lets nps jp4
      have h4 : ∀ u, TotD (ProofPost B req m) (jp4 u) := by
        intro u
        simp only [jp4]
        refine TotD.bind (commitProveState_tot h p (nps := nps) hrtd) ?_
        intro cr hcr hpost
        split
        · exact TotD.pure (fun _ => h)
        · exact TotD.pure (fun hv => hpost (hnps hv))
        · refine TotD.bind (td_tot hrtd) ?_
          intro lastTd _ _
          split
          · exact TotD.pure (fun hv => hpost (hnps hv))
          · split
            · rename_i pst' hrq
              exact TotD.pure (fun hv =>
                (hpost (hnps hv)).setPeer p (hw.requestLastStateProof (by exact hrtd) hrq))
            · exact TotD.pure (fun hv => hpost (hnps hv))
      clear_value jp4
      split
      · exact .inr rfl
      · exact h4 _

theorem proofTd_tot (h : WfSt B s) (hB : B + s.lastNBlocks ≤ U64_MAX)
    (hB0 : U64_MAX / 4 + 1 ≤ B) (hp : getPeer s p = some pst)
    (hreq : pst.proveRequest? = some req) (hlast : m.last.tdOk = true)
    (hinc : Incr m.headers) (hnum : ∀ x ∈ m.headers, x.number ≤ U64_MAX)
    (hlen : m.headers.length = r + sc + ln) :
    TotD (ProofPost B req m) (proofTd s p pst req m now b ds bG dsG r sc ln tf) := by
  have hw := h.getPeer hp
  unfold proofTd
  split
  · exact TotD.pure (fun _ => h)
  · split
    · exact TotD.pure (fun _ => h)
    · rename_i hmmr
      simp only [Bool.not_eq_true, Bool.not_eq_false', Bool.and_eq_true] at hmmr
      have h3 := proofFinish_tot (now := now) (b := b) (ds := ds) (bG := bG) (dsG := dsG)
        (tf := tf) h hB hB0 hp hreq hlast hinc hnum hlen hmmr.1
      split
      · split
        · rename_i ps hps
          refine TotD.bind (td_tot (hw.ps ps hps).td) ?_
          intro t0 _ _
          refine TotD.bind (td_tot hlast) ?_
          intro t1 _ _
          refine TotD.bind (Q := fun _ => True) ?_ ?_
          · obtain ⟨v, hv⟩ := verify_total ps.last.epoch m.last.epoch ps.last.compact t0
              m.last.compact t1 s.tau
            exact ⟨v, hv, trivial⟩
          · intro v _ _
            split
            · exact h3
            · exact TotD.pure (fun _ => h)
        · exact h3
      · exact h3

theorem proofCont_tot (h : WfSt B s) (hB : B + s.lastNBlocks ≤ U64_MAX)
    (hB0 : U64_MAX / 4 + 1 ≤ B) (hp : getPeer s p = some pst)
    (hreq : pst.proveRequest? = some req) (hlast : m.last.tdOk = true)
    (hinc : Incr m.headers) (hnum : ∀ x ∈ m.headers, x.number ≤ U64_MAX)
    (hlen : m.headers.length = r + sc + ln) :
    TotD (ProofPost B req m) (proofCont s p pst req m now b ds bG dsG r sc ln tf) := by
  have h2 := proofTd_tot (now := now) (b := b) (ds := ds) (bG := bG) (dsG := dsG)
    (tf := tf) h hB hB0 hp hreq hlast hinc hnum hlen
  have hc1 : Tot (fun _ => True) (checkContinuous (m.headers.take r)) :=
    checkContinuous_tot _ (hinc.sublist (List.take_sublist ..))
      (fun x hx => hnum x (List.mem_of_mem_take hx))
  have hc2 : Tot (fun _ => True) (checkContinuous (m.headers.drop (r + sc))) :=
    checkContinuous_tot _ (hinc.sublist (List.drop_sublist ..))
      (fun x hx => hnum x (List.mem_of_mem_drop hx))
  have tail : TotD (ProofPost B req m) (do
        let __do_lift ← checkContinuous (List.drop (r + sc) m.headers)
        match __do_lift with
          | some c => pure { st := s, outcome := Outcome.ban c }
          | _ => proofTd s p pst req m now b ds bG dsG r sc ln tf) := by
    refine TotD.bind hc2 ?_
    intro oc _ _
    split
    · exact TotD.pure (fun _ => h)
    · exact h2
  unfold proofCont
  split
  · refine TotD.bind hc1 ?_
    intro oc _ _
    split
    · exact TotD.pure (fun _ => h)
    · exact tail
  · exact tail

theorem proofChecks_tot (h : WfSt B s) (hB : B + s.lastNBlocks ≤ U64_MAX)
    (hB0 : U64_MAX / 4 + 1 ≤ B) (hp : getPeer s p = some pst)
    (hreq : pst.proveRequest? = some req) (hlast : m.last.tdOk = true)
    (hinc : Incr m.headers) (hnum : ∀ x ∈ m.headers, x.number ≤ U64_MAX)
    (hlen : m.headers.length = r + sc + ln) :
    TotD (ProofPost B req m) (proofChecks s p pst req m now b ds bG dsG r sc ln) := by
  have h1 : ∀ tf, TotD (ProofPost B req m)
      (proofCont s p pst req m now b ds bG dsG r sc ln tf) := fun tf =>
    proofCont_tot h hB hB0 hp hreq hlast hinc hnum hlen
  unfold proofChecks
  split
  · exact TotD.pure (fun _ => h)
  split
  · exact TotD.pure (fun _ => h)
  refine TotD.bind (Q := fun _ => True) ?_ ?_
  · split
    · exact Tot.pure trivial
    · split
      · rename_i hs0
        obtain ⟨sh, hsh⟩ := getElem?_isSome (l := m.headers)
          (i := tauStartIdx m.headers r (r + sc + ln - 1)) (tauStartIdx_lt (by omega) (by omega))
        obtain ⟨eh, heh⟩ := getElem?_isSome (l := m.headers) (i := r + sc + ln - 1) (by omega)
        simp only [hsh, heh]
        split <;> exact Tot.pure trivial
      · exact Tot.pure trivial
  · intro tf _ _
    split
    · split
      · split
        · exact TotD.pure (fun _ => h)
        · exact h1 _
      · exact h1 _
    · exact h1 _

end proof

/-- the numbers of the message are machine integers (`u64` block numbers) -/
def ProofMsg.Typed (m : ProofMsg) : Prop :=
  m.last.number ≤ U64_MAX ∧ ∀ x ∈ m.headers, x.number ≤ U64_MAX

/-- `vid` is the identity under `if_verifiable_headers_are_same`, which compares the whole
verifiable header: the outstanding request with the `vid` of the response is for that header -/
def VidSame (s : St) (p : Nat) (m : ProofMsg) : Prop :=
  ∀ pst req, getPeer s p = some pst → pst.proveRequest? = some req →
    req.last.vid = m.last.vid → req.last = m.last

theorem onProof_tot {B : Nat} {s : St} (h : WfSt B s) (hB : B + s.lastNBlocks ≤ U64_MAX)
    (hB0 : U64_MAX / 4 + 1 ≤ B) (p : Nat) {m : ProofMsg} (hty : m.Typed) (now b : Nat)
    (ds : List Nat) (bG : Nat) (dsG : List Nat) :
    TotD (fun o => VidSame s p m → WfSt B o.st) (onProof s p m now b ds bG dsG) := by
  rw [onProof_eq]
  split
  · exact TotD.pure (fun _ => h)
  rename_i pst hp
  have hw := h.getPeer hp
  split
  · exact TotD.pure (fun _ => h)
  rename_i req hreq
  split
  · exact TotD.pure (fun _ => h)
  rename_i hlast
  simp only [Bool.not_eq_true, Bool.not_eq_false'] at hlast
  split
  · split
    · split
      · exact TotD.pure (fun _ => h)
      · split
        · exact TotD.pure (fun _ => h)
        · rename_i pst1 hpst1
          have hw1 : WfPeer B pst1 := hw.receiveLastState (n := ⟨m.last, now⟩) hlast hpst1
          have hs1 : WfSt B (setPeer s p pst1) := h.setPeer p hw1
          have hp1 : getPeer (setPeer s p pst1) p = some pst1 := getPeer_setPeer_self pst1 hp
          simp only []
          refine TotD.bind (getLastStateProof_tot hs1 hB hp1 now b ds) ?_
          intro g _ hg
          split
          · exact TotD.pure (fun _ => hg)
          · exact TotD.pure (fun _ => hs1)
    · exact TotD.pure (fun _ => h)
  · rename_i hvid
    have hvid : req.last.vid = m.last.vid := Decidable.not_not.mp hvid
    split
    · exact TotD.pure (fun _ => h)
    rename_i hall
    simp only [Bool.not_eq_true, Bool.not_eq_false', List.all_eq_true] at hall
    refine TotD.bind (checkMatched_tot hall h.lastN hty.1) ?_
    intro cm hcm _
    split
    · exact TotD.pure (fun _ => h)
    · rename_i r sc ln
      obtain ⟨hsorted, hlen, -⟩ := checkMatched_facts h.lastN hcm
      refine (proofChecks_tot h hB hB0 hp hreq hlast (incr_of_sorted hsorted) hty.2 hlen).mono ?_
      intro o ho hv
      exact ho (hv pst req hp hreq hvid)

/-! ### connect / disconnect / the initial state -/

theorem onConnect_wf {B : Nat} {s : St} (h : WfSt B s) (p now : Nat) :
    WfSt B (onConnect s p now).1 := by
  have h1 : WfSt B { s with peers := insertPeer s.peers p .initialized } := by
    refine ⟨h.lastN, fun e he => ?_, h.storedTd, h.storedLastN⟩
    simp only [insertPeer, List.mem_append, List.mem_filter, List.mem_singleton] at he
    rcases he with (⟨he, -⟩ | rfl) | ⟨he, -⟩
    · exact h.peers e he
    · exact WfPeer.initialized B
    · exact h.peers e he
  unfold onConnect
  simp only []
  split
  · rename_i pst hpst
    exact h1.setPeer p ((WfPeer.initialized B).requestLastState hpst)
  · exact h1

theorem onDisconnect_wf {B : Nat} {s : St} (h : WfSt B s) (p : Nat) :
    WfSt B (onDisconnect s p) :=
  ⟨h.lastN, fun e he => h.peers e (List.mem_filter.1 he).1, h.storedTd, h.storedLastN⟩

theorem initSt_wf (B : Nat) : WfSt B initSt :=
  ⟨(by decide), fun e he => (by cases he), (by decide), fun e he => (by cases he)⟩

/-! ### `last_n_blocks` is a constant -/

theorem onLastState_lastNBlocks {s : St} {p : Nat} {hd : VH} {now b : Nat} {ds : List Nat}
    {out : Out} (h : onLastState s p hd now b ds = .ok out) :
    out.st.lastNBlocks = s.lastNBlocks := by
  cases onLastState_ok h with
  | same h1 => rw [h1]
  | moved pst pst1 prev _ _ _ h1 => rw [h1]; rfl
  | child pst pst1 pst2 prev ps newTd _ _ _ _ _ _ _ _ _ h1 =>
    rw [h1]
    show (if _ then _ else _ : St).lastNBlocks = _
    split <;> rfl
  | first pst pst1 _ _ _ h1 =>
    rcases h1 with h1 | ⟨sent, h1⟩
    · rw [h1]; rfl
    · exact (getLastStateProof_moves h1).2.1

theorem commitProveState_lastNBlocks {s s1 : St} {p : Nat} {nps : ProveState} {c : Bool}
    (h : commitProveState s p nps = .ok (.ok (s1, c))) : s1.lastNBlocks = s.lastNBlocks := by
  have tail : ∀ s0 : St, s0.lastNBlocks = s.lastNBlocks →
      (match getPeer s0 p with
        | none => (pure (Except.ok (s0, true)) : M (Except Nat (St × Bool)))
        | some pst =>
          match pst.receiveLastStateProof nps with
          | .ok pst' => pure (.ok (setPeer s0 p pst', true))
          | .error c => pure (.error c)) = .ok (.ok (s1, c)) → s1.lastNBlocks = s.lastNBlocks := by
    intro s0 hs0 h
    obtain ⟨-, ht⟩ := commitTail_ok h
    rcases ht with ⟨-, rfl⟩ | ⟨_, _, _, _, rfl⟩
    · exact hs0
    · exact hs0
  unfold commitProveState at h
  simp only [M.bind_eq_ok] at h
  obtain ⟨newTd, -, h⟩ := h
  split at h
  · split at h
    · split at h
      · exact tail _ (by rfl) h
      · exact tail _ (by rfl) h
    · exact tail _ (by rfl) h
    · simp only [M.pure_eq_ok, Except.ok.injEq, Prod.mk.injEq] at h
      rw [← h.1]
  · exact tail _ (by rfl) h

theorem onProof_lastNBlocks {s : St} {p : Nat} {m : ProofMsg} {now b bG : Nat}
    {ds dsG : List Nat} {out : Out} (h : onProof s p m now b ds bG dsG = .ok out) :
    out.st.lastNBlocks = s.lastNBlocks := by
  cases onProof_ok h with
  | same h1 => rw [h1]
  | relay pst pst1 req _ _ _ _ h1 =>
    rcases h1 with h1 | ⟨sent, h1⟩
    · rw [h1]; rfl
    · exact (getLastStateProof_moves h1).2.1
  | rerequest pst pst' req r _ _ _ _ h1 => rw [h1]; rfl
  | commit pst req nps _ _ _ _ h1 => exact commitProveState_lastNBlocks h1

theorem onTick_lastNBlocks {s : St} {now : Nat} {si : SampleInputs} {out : TickOut}
    (hr : onTick s now si = .ok out) :
    out.st.lastNBlocks = s.lastNBlocks ∧ s.refreshPeriod ≤ now := by
  unfold onTick at hr
  simp only [M.bind_eq_ok, subU64_eq_ok] at hr
  obtain ⟨beforeTs, ⟨hle, _⟩, r1, h1, r2, h2, hr⟩ := hr
  simp [pure, Except.pure] at hr
  subst hr
  refine ⟨?_, hle⟩
  have inv1 := forIn_list_inv (fun r : St × List Sent => r.1.lastNBlocks = s.lastNBlocks)
    _ ?_ _ _ _ rfl h1
  · refine forIn_list_inv (fun r : St × List Sent => r.1.lastNBlocks = s.lastNBlocks)
      _ ?_ _ _ _ inv1 h2
    intro p st r hs hf
    simp only [M.bind_eq_ok] at hf
    obtain ⟨g, hg, hf⟩ := hf
    split at hf
    · simp [pure, Except.pure] at hf; subst hf
      exact (getLastStateProof_moves hg).2.1.trans hs
    · simp [pure, Except.pure] at hf; subst hf; exact hs
  · intro p st r hs hf
    split at hf
    · split at hf
      · simp [pure, Except.pure] at hf; subst hf; exact hs
      · simp [pure, Except.pure] at hf; subst hf; exact hs
    · simp [pure, Except.pure] at hf; subst hf; exact hs

end Prove

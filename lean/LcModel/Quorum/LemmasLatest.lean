import LcModel.Quorum.Lemmas
/-! helper lemmas for `Quorum.latestAgreed?` (`Peers::get_latest_block_filter_hashes`) -/
namespace Quorum

/-! ## one step of the loop -/

/-- the hashes with the maximal count at an index -/
def cands (data : List (Nat × List Nat)) (idx : Nat) : List Nat :=
  ((tally data idx).filter (·.2 = maxCount (tally data idx))).map (·.1)

theorem cnt_of_mem_cands {data : List (Nat × List Nat)} {idx c : Nat} (hc : c ∈ cands data idx) :
    cnt data idx c = maxCount (tally data idx) := by
  unfold cands at hc
  simp only [List.mem_map, List.mem_filter, decide_eq_true_eq] at hc
  obtain ⟨e, ⟨he, hm⟩, rfl⟩ := hc
  rw [← hm]; exact (mem_tally.1 he).2.symm

theorem cands_ne_nil {data : List (Nat × List Nat)} {idx : Nat}
    (h : 0 < maxCount (tally data idx)) : cands data idx ≠ [] := by
  obtain ⟨e, he, hm⟩ := maxCount_attained (t := tally data idx) h
  intro hnil
  have : e.1 ∈ cands data idx :=
    List.mem_map.2 ⟨e, List.mem_filter.2 ⟨he, by simpa using hm⟩, rfl⟩
  rw [hnil] at this; cases this

/-- the `retain` step (skipped by the code when every remaining peer holds the hash) keeps
exactly the peers holding the chosen hash -/
theorem retain_eq_keepAt {data : List (Nat × List Nat)} {idx c : Nat}
    (h : cnt data idx c = maxCount (tally data idx)) :
    (if maxCount (tally data idx) ≠ data.length then
      data.filter (fun d => d.2[idx]? = some c) else data) = keepAt data idx c := by
  split
  · rfl
  · rename_i hlen
    simp only [ne_eq, Decidable.not_not] at hlen
    unfold cnt at h
    unfold keepAt
    rw [hlen] at h
    exact (List.filter_eq_self.2 (List.length_filter_eq_length_iff.1 h)).symm

theorem latestLoop_zero (required idx : Nat) (choices : List Nat) (data : List (Nat × List Nat)) :
    latestLoop required 0 idx choices data = some [] := rfl

theorem latestLoop_stop {required fuel idx : Nat} {choices : List Nat}
    {data : List (Nat × List Nat)} (h : ¬ required ≤ maxCount (tally data idx)) :
    latestLoop required (fuel + 1) idx choices data = some [] := by
  simp only [latestLoop, h, if_false]

theorem latestLoop_step {required fuel idx : Nat} {choices : List Nat}
    {data : List (Nat × List Nat)} {res : List Nat}
    (h : required ≤ maxCount (tally data idx))
    (hr : latestLoop required (fuel + 1) idx choices data = some res) :
    ∃ c cs res', choices = c :: cs ∧ res = c :: res' ∧ c ∈ cands data idx ∧
      latestLoop required fuel (idx + 1) cs (keepAt data idx c) = some res' := by
  simp only [latestLoop, h, if_true] at hr
  cases choices with
  | nil => simp at hr
  | cons c cs =>
    simp only at hr
    split at hr
    · rename_i hc
      have hm : c ∈ cands data idx := by unfold cands; simpa using hc
      rw [retain_eq_keepAt (cnt_of_mem_cands hm)] at hr
      simp only [Option.map_eq_some_iff] at hr
      obtain ⟨res', h1, h2⟩ := hr
      exact ⟨c, cs, res', rfl, h2.symm, hm, h1⟩
    · cases hr

theorem latestLoop_step_mk {required fuel idx c : Nat} {cs : List Nat}
    {data : List (Nat × List Nat)} {res' : List Nat}
    (h : required ≤ maxCount (tally data idx)) (hc : c ∈ cands data idx)
    (hr : latestLoop required fuel (idx + 1) cs (keepAt data idx c) = some res') :
    latestLoop required (fuel + 1) idx (c :: cs) data = some (c :: res') := by
  have hc' : (((tally data idx).filter (·.2 = maxCount (tally data idx))).map (·.1)).contains c
      = true := by
    unfold cands at hc; simpa using hc
  simp only [latestLoop, h, if_true, hc', retain_eq_keepAt (cnt_of_mem_cands hc), hr, Option.map]

/-! ## the invariant: one group of peers holds everything returned so far -/

/-- every returned prefix is held, position by position, by one sublist of at least `required`
of the peers the loop was entered with (those that survive the `retain` steps up to there) -/
theorem latestLoop_group {required : Nat} :
    ∀ (fuel idx : Nat) (choices : List Nat) (data : List (Nat × List Nat)) (res : List Nat),
      latestLoop required fuel idx choices data = some res →
      ∀ i, i < res.length → ∃ group : List (Nat × List Nat), group.Sublist data ∧
        required ≤ group.length ∧ ∀ p ∈ group, ∀ j, j ≤ i → p.2[idx + j]? = res[j]? := by
  intro fuel
  induction fuel with
  | zero =>
    intro idx choices data res h i hi
    rw [latestLoop_zero] at h
    cases h
    simp at hi
  | succ fuel ih =>
    intro idx choices data res h i hi
    by_cases hcm : required ≤ maxCount (tally data idx)
    · obtain ⟨c, cs, res', rfl, rfl, hc, hrest⟩ := latestLoop_step hcm h
      have hcnt := cnt_of_mem_cands hc
      cases i with
      | zero =>
        refine ⟨keepAt data idx c, List.filter_sublist, ?_, ?_⟩
        · have : (keepAt data idx c).length = cnt data idx c := rfl
          omega
        · intro p hp j hj
          have hj0 : j = 0 := by omega
          subst hj0
          simpa using (mem_keepAt.1 hp).2
      | succ i =>
        have hi' : i < res'.length := by simpa using hi
        obtain ⟨group, hsub, hlen, hall⟩ := ih (idx + 1) cs (keepAt data idx c) res' hrest i hi'
        refine ⟨group, hsub.trans List.filter_sublist, hlen, ?_⟩
        intro p hp j hj
        cases j with
        | zero => simpa using (mem_keepAt.1 (hsub.subset hp)).2
        | succ j =>
          have := hall p hp j (by omega)
          rw [List.getElem?_cons_succ, ← this]
          congr 1; omega
    · rw [latestLoop_stop hcm] at h
      cases h
      simp at hi

/-- no more hashes than loop iterations -/
theorem latestLoop_length_le {required : Nat} :
    ∀ (fuel idx : Nat) (choices : List Nat) (data : List (Nat × List Nat)) (res : List Nat),
      latestLoop required fuel idx choices data = some res → res.length ≤ fuel := by
  intro fuel
  induction fuel with
  | zero =>
    intro idx choices data res h
    rw [latestLoop_zero] at h; cases h; simp
  | succ fuel ih =>
    intro idx choices data res h
    by_cases hcm : required ≤ maxCount (tally data idx)
    · obtain ⟨c, cs, res', rfl, rfl, _, hrest⟩ := latestLoop_step hcm h
      have := ih _ _ _ _ hrest
      simp only [List.length_cons]; omega
    · rw [latestLoop_stop hcm] at h; cases h; simp

/-- valid choices exist for every table (the code never fails to find a hash) -/
theorem latestLoop_choices_exist {required : Nat} (hreq : 1 ≤ required) :
    ∀ (fuel idx : Nat) (data : List (Nat × List Nat)),
      ∃ choices res, latestLoop required fuel idx choices data = some res := by
  intro fuel
  induction fuel with
  | zero => intro idx data; exact ⟨[], [], rfl⟩
  | succ fuel ih =>
    intro idx data
    by_cases hcm : required ≤ maxCount (tally data idx)
    · have hne := cands_ne_nil (data := data) (idx := idx) (by omega)
      obtain ⟨c, hc⟩ := List.exists_mem_of_ne_nil _ hne
      obtain ⟨cs, res', h⟩ := ih (idx + 1) (keepAt data idx c)
      exact ⟨c :: cs, c :: res', latestLoop_step_mk hcm hc h⟩
    · exact ⟨[], [], latestLoop_stop hcm⟩

/-! ## lists -/

/-- agreeing with `r` on the first `n` positions means holding `r.take n` as a prefix -/
theorem take_prefix_of_getElem? {l r : List Nat} {n : Nat} (hn : n ≤ r.length)
    (h : ∀ j, j < n → l[j]? = r[j]?) : r.take n <+: l := by
  rw [List.prefix_iff_getElem?]
  intro i hi
  have hin : i < n := by
    rw [List.length_take] at hi; omega
  rw [h i hin, List.getElem_take, List.getElem?_eq_getElem]

/-- pigeonhole: a sublist of `data` longer than the number of bad elements of `data` has a good
element -/
theorem exists_good_of_few_bad {α} (bad : α → Bool) {group data : List α}
    (hs : group.Sublist data) {required : Nat} (hlen : required ≤ group.length)
    (hbad : (data.filter bad).length < required) : ∃ p ∈ group, bad p = false := by
  apply Classical.byContradiction
  intro hno
  have hall : ∀ p ∈ group, bad p = true := by
    intro p hp
    cases hb : bad p with
    | true => rfl
    | false => exact absurd ⟨p, hp, hb⟩ hno
  have h1 : group.filter bad = group := List.filter_eq_self.2 hall
  have h2 := (hs.filter bad).length_le
  rw [h1] at h2
  omega

/-! ## `latestAgreed?` -/

theorem latestAgreed?_few {required : Nat} {data : List (Nat × List Nat)} (choices : List Nat)
    (h : data.length < required) : latestAgreed? required data choices = some [] := by
  simp only [latestAgreed?, h, if_true]

/-- the length bound of the code: the `required`-th smallest list length -/
def latestLengthMax (required : Nat) (data : List (Nat × List Nat)) : Nat :=
  (sortNat (data.map (·.2.length)))[required - 1]?.getD 0

theorem latestAgreed?_enough {required : Nat} {data : List (Nat × List Nat)} (choices : List Nat)
    (h : ¬ data.length < required) :
    latestAgreed? required data choices =
      latestLoop required (latestLengthMax required data) 0 choices data := by
  simp only [latestAgreed?, h, if_false, latestLengthMax]

theorem latestAgreed?_group {required : Nat} {data : List (Nat × List Nat)} {choices res : List Nat}
    (h : latestAgreed? required data choices = some res) (i : Nat) (hi : i < res.length) :
    ∃ group : List (Nat × List Nat), group.Sublist data ∧ required ≤ group.length ∧
      ∀ p ∈ group, res.take (i + 1) <+: p.2 := by
  by_cases hlt : data.length < required
  · rw [latestAgreed?_few choices hlt] at h
    cases h
    simp at hi
  · rw [latestAgreed?_enough choices hlt] at h
    obtain ⟨group, hsub, hlen, hall⟩ := latestLoop_group _ _ _ _ _ h i hi
    refine ⟨group, hsub, hlen, ?_⟩
    intro p hp
    apply take_prefix_of_getElem? (by omega)
    intro j hj
    have := hall p hp j (by omega)
    rwa [Nat.zero_add] at this

theorem latestAgreed?_length_le {required : Nat} {data : List (Nat × List Nat)}
    {choices res : List Nat} (h : latestAgreed? required data choices = some res) :
    res.length ≤ latestLengthMax required data := by
  by_cases hlt : data.length < required
  · rw [latestAgreed?_few choices hlt] at h
    cases h
    simp
  · rw [latestAgreed?_enough choices hlt] at h
    exact latestLoop_length_le _ _ _ _ _ h

theorem latestAgreed?_choices_exist {required : Nat} (hreq : 1 ≤ required)
    (data : List (Nat × List Nat)) : ∃ choices res, latestAgreed? required data choices = some res := by
  by_cases hlt : data.length < required
  · exact ⟨[], [], latestAgreed?_few [] hlt⟩
  · obtain ⟨choices, res, h⟩ := latestLoop_choices_exist hreq (latestLengthMax required data) 0 data
    exact ⟨choices, res, by rw [latestAgreed?_enough choices hlt]; exact h⟩

theorem requiredPeers_pos {maxOutbound required : Nat}
    (h : requiredPeers maxOutbound = .ok required) :
    0 < required ∧ required = (maxOutbound + 1) / 2 := by
  unfold requiredPeers at h
  simp only at h
  split at h
  · cases h
  · simp only [M.pure_eq_ok] at h
    omega

end Quorum

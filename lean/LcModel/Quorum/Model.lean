import LcModel.Prelude
/-!
# Quorum layer — filter check points
Model of `Peers::required_peers_count`, `CheckPoints::{add_check_points,
remove_first_n_check_points}` (`light_client/peers.rs`) and
`LightClientProtocol::finalize_check_points` (`light_client/mod.rs`).

Hashes are natural-number ids.  Peers are an association list keyed by peer id (the `DashMap`
/ `HashMap` iteration order of the implementation only matters for tie-breaks, which enter as
`choices`).
-/
namespace Quorum

/-- per-peer check point vector (`CheckPoints`) plus whether the peer currently has a prove
state (only proven peers take part in `finalize_check_points`) -/
structure PeerCp where
  proved : Bool
  start : Nat            -- index_of_first_check_point
  cps : List Nat         -- never empty
  deriving Repr, DecidableEq

structure St where
  maxOutbound : Nat
  interval : Nat
  final : List Nat       -- stored check points 0..maxCp (length = maxCp + 1)
  peers : List (Nat × PeerCp)
  deriving Repr, DecidableEq

def St.maxCp (s : St) : Nat := s.final.length - 1

/-- `required_peers_count` (panics when 0) -/
def requiredPeers (maxOutbound : Nat) : M Nat :=
  let r := (maxOutbound + 1) / 2
  if r = 0 then .error (.expect 50) else pure r

/-! ### `add_check_points` -/

inductive AddErr where
  | empty | unaligned | unexpected
  deriving Repr, DecidableEq

def lastNumber (interval : Nat) (p : PeerCp) : Nat :=
  interval * p.start + interval * (p.cps.length - 1)

def requireNext (interval : Nat) (p : PeerCp) (lastProved : Nat) : Bool :=
  lastNumber interval p + interval * 2 ≤ lastProved

/-- `CheckPoints::add_check_points`: new vector and the next start number to ask for -/
def addCheckPoints (interval : Nat) (p : PeerCp) (lastProved startNumber : Nat) (cps : List Nat) :
    Except AddErr (PeerCp × Option Nat) :=
  match cps with
  | [] => .error .empty
  | first :: _ =>
    if startNumber % interval ≠ 0 then .error .unaligned
    else if startNumber ≠ lastNumber interval p then .error .unexpected
    else if p.cps.getLast? ≠ some first then .error .unexpected
    else if cps.length < 2 then .error .unexpected
    else
      let p' : PeerCp :=
        if startNumber + interval * cps.length ≤ lastProved then
          { p with cps := p.cps ++ cps.tail }
        else if cps.length > 2 then
          { p with cps := p.cps ++ (cps.tail.take (cps.length - 2)) }
        else p
      .ok (p', if requireNext interval p' lastProved then some (lastNumber interval p') else none)

/-! ### `finalize_check_points` -/

inductive Clean where
  | skipBan | skip | keep (cps : List Nat) (removed : Nat)
  deriving Repr, DecidableEq

/-- the "clean finalized check points" step for one peer -/
def clean (lastIdx lastCp : Nat) (p : PeerCp) : Clean :=
  if lastIdx < p.start then .skipBan
  else
    let index := lastIdx - p.start
    if p.cps.length ≤ index then .skip
    else if p.cps[index]? ≠ some lastCp then .skipBan
    else .keep (p.cps.drop index) index

def countOf (v : Nat) (l : List (Option Nat)) : Nat := (l.filter (· = some v)).length

/-- values at `idx` over all vectors that have one, without duplicates, with their counts -/
def tally (data : List (Nat × List Nat)) (idx : Nat) : List (Nat × Nat) :=
  let col := data.map (fun d => d.2[idx]?)
  (col.filterMap id).eraseDups.map (fun v => (v, countOf v col))

def maxCount (t : List (Nat × Nat)) : Nat := t.foldl (fun m e => max m e.2) 0

/-- the agreement loop: `idx` runs from `1` while `idx < lengthMax` (`fuel` iterations left);
returns the surviving vectors and the last accepted `(index, value)` -/
def agree (required : Nat) : Nat → Nat → List Nat → List (Nat × List Nat) → Option (Nat × Nat) →
    List (Nat × List Nat) × Option (Nat × Nat)
  | 0, _, _, data, acc => (data, acc)
  | fuel+1, idx, choices, data, acc =>
    let t := tally data idx
    let cm := maxCount t
    if required ≤ cm then
      let cands := (t.filter (·.2 = cm)).map (·.1)
      let cp := match choices with
        | c :: _ => if cands.contains c then c else cands.headD 0
        | [] => cands.headD 0
      let data' := if cm ≠ data.length then data.filter (fun d => d.2[idx]? = some cp) else data
      agree required fuel (idx + 1) choices.tail data' (some (idx, cp))
    else (data, acc)

def insertNat (x : Nat) : List Nat → List Nat
  | [] => [x]
  | y :: ys => if x ≤ y then x :: y :: ys else y :: insertNat x ys

def sortNat (l : List Nat) : List Nat := l.foldr insertNat []

structure FinOut where
  st : St
  banned : List Nat
  deriving Repr, DecidableEq

def updatePeer (peers : List (Nat × PeerCp)) (pid : Nat) (f : PeerCp → PeerCp) :
    List (Nat × PeerCp) :=
  peers.map (fun e => if e.1 = pid then (e.1, f e.2) else e)

/-- `finalize_check_points`; `choices` resolves ties between values that both reach the
maximum count (HashMap iteration order in the implementation) -/
def finalize (s : St) (choices : List Nat) : M FinOut := do
  let required ← requiredPeers s.maxOutbound
  let proven := s.peers.filter (·.2.proved)
  if proven.length < required then return ⟨s, []⟩
  let lastIdx := s.maxCp
  let lastCp := s.final.getLast?.getD 0
  -- clean
  let cleaned := proven.map (fun e => (e.1, clean lastIdx lastCp e.2))
  let banned := (cleaned.filter (fun e => e.2 = .skipBan)).map (·.1)
  let data : List (Nat × List Nat) := cleaned.filterMap (fun e =>
    match e.2 with | .keep cps _ => some (e.1, cps) | _ => none)
  -- `remove_first_n_check_points` on the peers that were kept with `index > 0`
  let peers' := cleaned.foldl (fun ps e =>
    match e.2 with
    | .keep _ removed =>
      if removed > 0 then updatePeer ps e.1 (fun p => { p with start := p.start + removed,
                                                               cps := p.cps.drop removed })
      else ps
    | _ => ps) s.peers
  let s1 := { s with peers := peers' }
  if data.length < required then return ⟨s1, banned⟩
  let sizes := sortNat (data.map (·.2.length))
  let lengthMax := sizes[required - 1]?.getD 0
  let (rest, acc) := agree required (lengthMax - 1) 1 choices data none
  match acc with
  | none => return ⟨s1, banned⟩
  | some (index, _) =>
    match rest with
    | [] => .error (.expect 51)      -- `expect("always exists")`
    | (_, cps) :: _ =>
      return ⟨{ s1 with final := s.final ++ (cps.drop 1).take index }, banned⟩

/-! ### `get_latest_block_filter_hashes`

`Peers::get_latest_block_filter_hashes(finalized_check_point_index)`: the filter hashes of the
blocks after the last finalized check point that the required number of proven peers agree on.
`data` is `peers_with_data` (the PROVEN peers whose `latest_block_filter_hashes.check_point_number`
is the finalized number, with their hash lists); `choices` is the hash the implementation picks
at each index (`map.into_iter().find_map(count == count_max)`: with several maximal-count hashes
the `HashMap` order decides — choice-as-input, validated here). -/

/-- the loop `for index in 0..length_max` (`fuel` iterations left, at index `idx`); `none` = a
choice is missing or is not a maximal-count hash -/
def latestLoop (required : Nat) : Nat → Nat → List Nat → List (Nat × List Nat) → Option (List Nat)
  | 0, _, _, _ => some []
  | fuel+1, idx, choices, data =>
    let t := tally data idx
    let cm := maxCount t
    if required ≤ cm then
      match choices with
      | [] => none
      | c :: cs =>
        if ((t.filter (·.2 = cm)).map (·.1)).contains c then
          -- `if count_max != peers_with_data.len() { peers_with_data.retain(..) }`
          let data' := if cm ≠ data.length then data.filter (fun d => d.2[idx]? = some c) else data
          (latestLoop required fuel (idx + 1) cs data').map (c :: ·)
        else none
    else some []

/-- `get_latest_block_filter_hashes` for `required = required_peers_count()` (which is at least 1:
`requiredPeers`; with `required = 0` the index `required - 1` below is not the code's) -/
def latestAgreed? (required : Nat) (data : List (Nat × List Nat)) (choices : List Nat) :
    Option (List Nat) :=
  if data.length < required then some []
  else
    let sizes := sortNat (data.map (·.2.length))
    let lengthMax := sizes[required - 1]?.getD 0
    latestLoop required lengthMax 0 choices data

/-- the same, `[]` for invalid choices -/
def latestAgreed (required : Nat) (data : List (Nat × List Nat)) (choices : List Nat) : List Nat :=
  (latestAgreed? required data choices).getD []

/-- with `required_peers_count()` computed (and panicking for `max_outbound_peers = 0`) as in the
code -/
def latestFor (maxOutbound : Nat) (data : List (Nat × List Nat)) (choices : List Nat) :
    M (Option (List Nat)) := do
  let required ← requiredPeers maxOutbound
  return latestAgreed? required data choices

/-- NOT the code: the seeded rule of /verif/seeded/C06b — the quorum test of an index is "at
least `required` of the remaining peers have SOME hash there" and the most common hash wins -/
def latestLoopSomeHash (required : Nat) :
    Nat → Nat → List Nat → List (Nat × List Nat) → Option (List Nat)
  | 0, _, _, _ => some []
  | fuel+1, idx, choices, data =>
    let t := tally data idx
    let cm := maxCount t
    if required ≤ ((data.map (fun d => d.2[idx]?)).filterMap id).length then
      match choices with
      | [] => none
      | c :: cs =>
        if ((t.filter (·.2 = cm)).map (·.1)).contains c then
          let data' := if cm ≠ data.length then data.filter (fun d => d.2[idx]? = some c) else data
          (latestLoopSomeHash required fuel (idx + 1) cs data').map (c :: ·)
        else none
    else some []

/-- NOT the code: `get_latest_block_filter_hashes` with the seeded rule -/
def latestAgreedSomeHash (required : Nat) (data : List (Nat × List Nat)) (choices : List Nat) :
    Option (List Nat) :=
  if data.length < required then some []
  else
    let sizes := sortNat (data.map (·.2.length))
    let lengthMax := sizes[required - 1]?.getD 0
    latestLoopSomeHash required lengthMax 0 choices data

/-! ### driver -/

def showOptNat : Option Nat → String
  | none => "none" | some n => s!"some {n}"

def showPeers (ps : List (Nat × PeerCp)) : String :=
  " ".intercalate (ps.map (fun e => s!"[{e.1} {showBool e.2.proved} {e.2.start} {e.2.cps}]"))

def showSt (s : St) : String := s!"final {s.final} peers {showPeers s.peers}"

def splitBar (ts : List String) : List String × List String :=
  match ts.span (· ≠ "|") with
  | (a, _ :: b) => (a, b)
  | (a, []) => (a, [])

def splitOnTok (sep : String) (ts : List String) : List (List String) :=
  ts.foldr (fun t acc => if t = sep then [] :: acc else
    match acc with
    | g :: gs => (t :: g) :: gs
    | [] => [[t]]) [[]]

/-- `<peer> : <hashes…> ; <peer> : <hashes…> ; …` -/
def parsePeerTable (ts : List String) : Option (List (Nat × List Nat)) :=
  ((splitOnTok ";" ts).filter (· ≠ [])).mapM (fun g =>
    match g with
    | pid :: ":" :: hs => match pid.toNat?, natsOf hs with
      | some pid, some hs => some (pid, hs)
      | _, _ => none
    | _ => none)

def showLatest : Option (List Nat) → String
  | none => "bad-choice"
  | some l => " ".intercalate ("ok" :: l.map toString)

/-- ops (state threaded by the driver):
  `init maxOutbound interval cp0`          fresh store with check point 0 = cp0
  `peer pid proved start cp`               add (or reset) a peer with vector `[cp]` at index `start`
                                           (`Peers::add_peer` uses the start check point fixed at start-up)
  `prove pid 0|1`
  `del pid`
  `addcp pid lastProved startNumber | cps…`
  `fin | choices…`
  `dump`
  `latest required | choices… | peer : hashes… ; peer : hashes… ; …`
                                           `get_latest_block_filter_hashes` on the given table of
                                           proven peers with data (stateless): `ok hashes…`, or
                                           `bad-choice` when a choice is missing / not a
                                           maximal-count hash; `required = 0` is answered like
                                           `required_peers_count()` (`panic expect 50`)
  `latestmo maxOutbound | choices… | peers` the same with `required_peers_count()` computed -/
def step (s : St) (line : String) : St × String :=
  match tokens line with
  | ["init", mo, iv, cp0] => match mo.toNat?, iv.toNat?, cp0.toNat? with
    | some mo, some iv, some cp0 => (⟨mo, iv, [cp0], []⟩, "ok")
    | _, _, _ => (s, "bad-op")
  | ["peer", pid, pr, start, cp] => match pid.toNat?, pr.toNat?, start.toNat?, cp.toNat? with
    | some pid, some pr, some start, some cp =>
      let others := s.peers.filter (·.1 ≠ pid)
      let ps := others.filter (·.1 < pid) ++ [(pid, ⟨pr = 1, start, [cp]⟩)] ++ others.filter (·.1 > pid)
      ({ s with peers := ps }, "ok")
    | _, _, _, _ => (s, "bad-op")
  | ["prove", pid, pr] => match pid.toNat?, pr.toNat? with
    | some pid, some pr => ({ s with peers := updatePeer s.peers pid (fun p => { p with proved := pr = 1 }) }, "ok")
    | _, _ => (s, "bad-op")
  | ["del", pid] => match pid.toNat? with
    | some pid => ({ s with peers := s.peers.filter (·.1 ≠ pid) }, "ok")
    | none => (s, "bad-op")
  | "addcp" :: rest =>
    let (a, cps) := splitBar rest
    match natsOf a, natsOf cps with
    | some [pid, lastProved, startNumber], some cps =>
      (match s.peers.find? (·.1 = pid) with
       | none => (s, "err peer-not-found")
       | some (_, p) =>
         match addCheckPoints s.interval p lastProved startNumber cps with
         | .error .empty => (s, "err empty")
         | .error .unaligned => (s, "err unaligned")
         | .error .unexpected => (s, "err unexpected")
         | .ok (p', next) =>
           ({ s with peers := updatePeer s.peers pid (fun _ => p') }, s!"ok {showOptNat next}"))
    | _, _ => (s, "bad-op")
  | "fin" :: rest =>
    let (_, ch) := splitBar rest
    match natsOf ch with
    | some ch =>
      (match finalize s ch with
       | .error p => (s, showPanic p)
       | .ok out => (out.st, s!"ok banned {out.banned}"))
    | none => (s, "bad-op")
  | "latest" :: rest =>
    (match splitOnTok "|" rest with
     | [a, ch, tb] => match natsOf a, natsOf ch, parsePeerTable tb with
       | some [required], some ch, some data =>
         if required = 0 then (s, showPanic (.expect 50))
         else (s, showLatest (latestAgreed? required data ch))
       | _, _, _ => (s, "bad-op")
     | _ => (s, "bad-op"))
  | "latestmo" :: rest =>
    (match splitOnTok "|" rest with
     | [a, ch, tb] => match natsOf a, natsOf ch, parsePeerTable tb with
       | some [mo], some ch, some data =>
         (match latestFor mo data ch with
          | .error p => (s, showPanic p)
          | .ok r => (s, showLatest r))
       | _, _, _ => (s, "bad-op")
     | _ => (s, "bad-op"))
  | ["dump"] => (s, showSt { s with peers := s.peers.filter (·.2.proved) })
  | _ => (s, "bad-op")

end Quorum

import LcModel.Quorum.Model
/-! helper lemmas for the Quorum layer -/
namespace Quorum
end Quorum

import LcModel.Quorum.Model
/-! helper lemmas for the Quorum layer -/
namespace Quorum

/-! ## return paths of `finalize` -/

def req (s : St) : Nat := (s.maxOutbound + 1) / 2

def proven (s : St) : List (Nat × PeerCp) := s.peers.filter (·.2.proved)

def kept (s : St) : List (Nat × List Nat) :=
  (proven s).filterMap (fun e =>
    match clean s.maxCp (s.final.getLast?.getD 0) e.2 with
    | .keep cps _ => some (e.1, cps)
    | _ => none)

def bannedOf (s : St) : List Nat :=
  ((proven s).filter (fun e => clean s.maxCp (s.final.getLast?.getD 0) e.2 = .skipBan)).map (·.1)

def lengthMax (s : St) : Nat := (sortNat ((kept s).map (·.2.length)))[req s - 1]?.getD 0

/-- all return paths of `finalize` -/
theorem finalize_ok {s : St} {choices : List Nat} {out : FinOut}
    (h : finalize s choices = .ok out) :
    1 ≤ req s ∧
    (((proven s).length < req s ∧ out.st.final = s.final ∧ out.banned = []) ∨
     (req s ≤ (proven s).length ∧ out.banned = bannedOf s ∧
      (((kept s).length < req s ∧ out.st.final = s.final) ∨
       (req s ≤ (kept s).length ∧
        ∃ rest acc, agree (req s) (lengthMax s - 1) 1 choices (kept s) none = (rest, acc) ∧
          ((acc = none ∧ out.st.final = s.final) ∨
           ∃ index cp pid cps tl, acc = some (index, cp) ∧ rest = (pid, cps) :: tl ∧
             out.st.final = s.final ++ (cps.drop 1).take index))))) := by
  unfold finalize at h
  simp only [M.bind_eq_ok] at h
  obtain ⟨required, hr, h⟩ := h
  have hreq : required = req s ∧ 1 ≤ req s := by
    unfold requiredPeers at hr
    simp only at hr
    split at hr
    · cases hr
    · simp only [M.pure_eq_ok] at hr
      unfold req; omega
  obtain ⟨rfl, h1⟩ := hreq
  refine ⟨h1, ?_⟩
  split at h
  · left
    simp only [M.pure_eq_ok] at h
    subst h
    rename_i hlt
    exact ⟨hlt, rfl, rfl⟩
  · right
    rename_i hge
    refine ⟨Nat.le_of_not_lt hge, ?_⟩
    have hdata : (((proven s).map (fun e => (e.1, clean s.maxCp (s.final.getLast?.getD 0) e.2))).filterMap
        (fun e => finalize.match_1 (fun _ => Option (Nat × List Nat)) e.2 (fun cps _ => some (e.1, cps))
          (fun _ => none))) = kept s := by
      rw [List.filterMap_map]; rfl
    have hban : List.map (fun x => x.fst)
              (List.filter (fun e => decide (e.snd = Clean.skipBan))
                (List.map (fun e => (e.fst, clean s.maxCp (s.final.getLast?.getD 0) e.snd))
                  (proven s))) = bannedOf s := by
      rw [List.filter_map, List.map_map]; rfl
    unfold proven at hdata hban
    rw [hdata, hban] at h
    clear hdata hban
    split at h
    · rename_i hlt
      simp only [M.pure_eq_ok] at h
      subst h
      exact ⟨rfl, Or.inl ⟨hlt, rfl⟩⟩
    · rename_i hge2
      generalize hag : agree (req s) ((sortNat (List.map (fun x => x.snd.length) (kept s)))[req s - 1]?.getD 0 - 1) 1 choices (kept s) none = res at h
      obtain ⟨rest, acc⟩ := res
      simp only at h
      cases acc with
      | none =>
        simp only [M.pure_eq_ok] at h
        subst h
        exact ⟨rfl, Or.inr ⟨Nat.le_of_not_lt hge2, rest, none, hag, Or.inl ⟨rfl, rfl⟩⟩⟩
      | some ic =>
        obtain ⟨index, cp⟩ := ic
        cases rest with
        | nil => simp at h
        | cons hd tl =>
          obtain ⟨pid, cps⟩ := hd
          simp only [M.pure_eq_ok] at h
          subst h
          exact ⟨rfl, Or.inr ⟨Nat.le_of_not_lt hge2, _, _, hag,
            Or.inr ⟨index, cp, pid, cps, tl, rfl, rfl, rfl⟩⟩⟩
/-! ## `clean` -/

theorem clean_skipBan (lastIdx lastCp : Nat) (p : PeerCp) :
    clean lastIdx lastCp p = .skipBan ↔
      (lastIdx < p.start ∨ (lastIdx - p.start < p.cps.length ∧ p.cps[lastIdx - p.start]? ≠ some lastCp)) := by
  unfold clean
  simp only
  split
  · simp [*]
  · split
    · simp; omega
    · split
      · simp [*]; omega
      · simp [*]

/-! ## one step of the agreement loop -/

/-- number of vectors with value `v` in column `idx` -/
def cnt (data : List (Nat × List Nat)) (idx v : Nat) : Nat :=
  (data.filter (fun d => d.2[idx]? = some v)).length

theorem countOf_col (data : List (Nat × List Nat)) (idx v : Nat) :
    countOf v (data.map (fun d => d.2[idx]?)) = cnt data idx v := by
  unfold countOf cnt
  rw [List.filter_map, List.length_map]
  rfl

theorem mem_tally {data : List (Nat × List Nat)} {idx : Nat} {e : Nat × Nat} :
    e ∈ tally data idx ↔ (∃ d ∈ data, d.2[idx]? = some e.1) ∧ e.2 = cnt data idx e.1 := by
  unfold tally
  simp only [List.mem_map, List.mem_eraseDups, List.mem_filterMap, id, countOf_col]
  constructor
  · rintro ⟨v, ⟨_, ⟨d, hd, rfl⟩, hv⟩, rfl⟩
    exact ⟨⟨d, hd, hv⟩, rfl⟩
  · rintro ⟨⟨d, hd, hv⟩, h2⟩
    exact ⟨e.1, ⟨_, ⟨d, hd, rfl⟩, hv⟩, by rw [← h2]⟩

theorem foldl_max_ge (t : List (Nat × Nat)) (m : Nat) :
    m ≤ t.foldl (fun m e => max m e.2) m ∧ ∀ e ∈ t, e.2 ≤ t.foldl (fun m e => max m e.2) m := by
  induction t generalizing m with
  | nil => simp
  | cons x xs ih =>
    simp only [List.foldl_cons, List.mem_cons, forall_eq_or_imp]
    have := ih (max m x.2)
    refine ⟨by omega, by omega, this.2⟩

theorem foldl_max_attained (t : List (Nat × Nat)) (m : Nat) :
    t.foldl (fun m e => max m e.2) m = m ∨ ∃ e ∈ t, e.2 = t.foldl (fun m e => max m e.2) m := by
  induction t generalizing m with
  | nil => simp
  | cons x xs ih =>
    simp only [List.foldl_cons, List.mem_cons, exists_eq_or_imp]
    rcases ih (max m x.2) with h | ⟨e, he, h⟩
    · rw [h]; omega
    · exact Or.inr (Or.inr ⟨e, he, h⟩)

theorem le_maxCount {t : List (Nat × Nat)} {e : Nat × Nat} (h : e ∈ t) : e.2 ≤ maxCount t :=
  (foldl_max_ge t 0).2 e h

theorem maxCount_attained {t : List (Nat × Nat)} (h : 0 < maxCount t) :
    ∃ e ∈ t, e.2 = maxCount t := by
  rcases foldl_max_attained t 0 with h0 | h0
  · unfold maxCount at h; omega
  · exact h0

theorem cnt_le_maxCount (data : List (Nat × List Nat)) (idx v : Nat) :
    cnt data idx v ≤ maxCount (tally data idx) := by
  by_cases h0 : cnt data idx v = 0
  · omega
  · have : data.filter (fun d => d.2[idx]? = some v) ≠ [] := by
      intro h; apply h0; unfold cnt; rw [h]; rfl
    obtain ⟨d, hd⟩ := List.exists_mem_of_ne_nil _ this
    simp only [List.mem_filter, decide_eq_true_eq] at hd
    exact le_maxCount (e := (v, cnt data idx v)) (mem_tally.2 ⟨⟨d, hd.1, hd.2⟩, rfl⟩)

/-- the filtered data of one loop step -/
def keepAt (data : List (Nat × List Nat)) (idx cp : Nat) : List (Nat × List Nat) :=
  data.filter (fun d => d.2[idx]? = some cp)

theorem agree_zero (required idx : Nat) (choices : List Nat) (data : List (Nat × List Nat))
    (acc : Option (Nat × Nat)) : agree required 0 idx choices data acc = (data, acc) := rfl

theorem agree_stop {required fuel idx : Nat} {choices : List Nat} {data : List (Nat × List Nat)}
    {acc : Option (Nat × Nat)} (h : ¬ required ≤ maxCount (tally data idx)) :
    agree required (fuel + 1) idx choices data acc = (data, acc) := by
  simp only [agree, h, if_false]

theorem agree_step {required fuel idx : Nat} {choices : List Nat} {data : List (Nat × List Nat)}
    {acc : Option (Nat × Nat)} (hreq : 1 ≤ required) (h : required ≤ maxCount (tally data idx)) :
    ∃ cp, cnt data idx cp = maxCount (tally data idx) ∧
      agree required (fuel + 1) idx choices data acc =
        agree required fuel (idx + 1) choices.tail (keepAt data idx cp) (some (idx, cp)) := by
  have hcands : ∀ c ∈ ((tally data idx).filter (·.2 = maxCount (tally data idx))).map (·.1),
      cnt data idx c = maxCount (tally data idx) := by
    intro c hc
    simp only [List.mem_map, List.mem_filter, decide_eq_true_eq] at hc
    obtain ⟨e, ⟨he, hm⟩, rfl⟩ := hc
    rw [← hm]; exact (mem_tally.1 he).2.symm
  have hne : ((tally data idx).filter (·.2 = maxCount (tally data idx))).map (·.1) ≠ [] := by
    obtain ⟨e, he, hm⟩ := maxCount_attained (t := tally data idx) (by omega)
    intro hnil
    have : e.1 ∈ ((tally data idx).filter (·.2 = maxCount (tally data idx))).map (·.1) :=
      List.mem_map.2 ⟨e, List.mem_filter.2 ⟨he, by simpa using hm⟩, rfl⟩
    rw [hnil] at this; cases this
  have hhead : ∀ l : List Nat, l ≠ [] → l.headD 0 ∈ l := by
    intro l hl; cases l with
    | nil => exact absurd rfl hl
    | cons a as => simp
  have key : ∀ cp, cp ∈ ((tally data idx).filter (·.2 = maxCount (tally data idx))).map (·.1) →
      (if maxCount (tally data idx) ≠ data.length then
        data.filter (fun d => d.2[idx]? = some cp) else data) = keepAt data idx cp := by
    intro cp hcp
    split
    · rfl
    · rename_i hlen
      simp only [ne_eq, Decidable.not_not] at hlen
      have := hcands cp hcp
      unfold cnt at this
      unfold keepAt
      rw [hlen] at this
      exact (List.filter_eq_self.2 (List.length_filter_eq_length_iff.1 this)).symm
  simp only [agree, h, if_true]
  cases choices with
  | nil =>
    simp only
    have hm := hhead _ hne
    exact ⟨_, hcands _ hm, by rw [key _ hm]⟩
  | cons c cs =>
    simp only
    by_cases hc : (((tally data idx).filter (·.2 = maxCount (tally data idx))).map (·.1)).contains c = true
    · have hm : c ∈ ((tally data idx).filter (·.2 = maxCount (tally data idx))).map (·.1) := by
        simpa using hc
      simp only [hc, if_true]
      exact ⟨_, hcands _ hm, by rw [key _ hm]⟩
    · have hm := hhead _ hne
      simp only [hc, Bool.false_eq_true, if_false]
      exact ⟨_, hcands _ hm, by rw [key _ hm]⟩

/-! ## the agreement invariant (quorum) -/

/-- loop invariant: the surviving vectors are a sublist of the initial ones, at least `required`
many once a column has been accepted, and pairwise equal on all accepted columns -/
def Inv1 (required : Nat) (data0 : List (Nat × List Nat)) (idx : Nat)
    (data : List (Nat × List Nat)) (acc : Option (Nat × Nat)) : Prop :=
  data.Sublist data0 ∧ (acc = none → idx = 1) ∧
  ∀ i cp, acc = some (i, cp) → i + 1 = idx ∧ required ≤ data.length ∧
    ∀ d ∈ data, ∀ d' ∈ data, ∀ k, 1 ≤ k → k ≤ i → k < d.2.length ∧ d.2[k]? = d'.2[k]?

theorem mem_keepAt {data : List (Nat × List Nat)} {idx cp : Nat} {d : Nat × List Nat} :
    d ∈ keepAt data idx cp ↔ d ∈ data ∧ d.2[idx]? = some cp := by
  simp [keepAt]

theorem Inv1_step {required : Nat} {data0 data : List (Nat × List Nat)} {idx cp : Nat}
    {acc : Option (Nat × Nat)} (hinv : Inv1 required data0 idx data acc)
    (hcm : required ≤ cnt data idx cp) :
    Inv1 required data0 (idx + 1) (keepAt data idx cp) (some (idx, cp)) := by
  obtain ⟨hsub, hnone, hsome⟩ := hinv
  refine ⟨(List.filter_sublist (l := data)).trans hsub, by simp, ?_⟩
  intro i cp' hacc
  simp only [Option.some.injEq, Prod.mk.injEq] at hacc
  obtain ⟨rfl, rfl⟩ := hacc
  refine ⟨rfl, hcm, ?_⟩
  intro d hd d' hd' k hk1 hk
  rw [mem_keepAt] at hd hd'
  by_cases hki : k = idx
  · subst hki
    refine ⟨?_, by rw [hd.2, hd'.2]⟩
    have := hd.2
    rw [List.getElem?_eq_some_iff] at this
    exact this.1
  · cases acc with
    | none => have := hnone rfl; omega
    | some ic =>
      obtain ⟨i, c⟩ := ic
      obtain ⟨hi, -, hag⟩ := hsome i c rfl
      exact hag d hd.1 d' hd'.1 k hk1 (by omega)

theorem agree_inv1 {required : Nat} (hreq : 1 ≤ required) {data0 : List (Nat × List Nat)} :
    ∀ (fuel idx : Nat) (choices : List Nat) (data : List (Nat × List Nat))
      (acc : Option (Nat × Nat)) (rest : List (Nat × List Nat)) (acc' : Option (Nat × Nat)),
      Inv1 required data0 idx data acc →
      agree required fuel idx choices data acc = (rest, acc') →
      ∃ idx', Inv1 required data0 idx' rest acc' := by
  intro fuel
  induction fuel with
  | zero =>
    intro idx choices data acc rest acc' hinv h
    rw [agree_zero] at h
    cases h
    exact ⟨idx, hinv⟩
  | succ fuel ih =>
    intro idx choices data acc rest acc' hinv h
    by_cases hcm : required ≤ maxCount (tally data idx)
    · obtain ⟨cp, hcp, hstep⟩ := agree_step (fuel := fuel) (choices := choices) (acc := acc) hreq hcm
      rw [hstep] at h
      exact ih _ _ _ _ _ _ (Inv1_step hinv (by omega)) h
    · rw [agree_stop hcm] at h
      cases h
      exact ⟨idx, hinv⟩

/-! ## from surviving vectors back to peers -/

theorem clean_keep {lastIdx lastCp : Nat} {p : PeerCp} {cps : List Nat} {removed : Nat}
    (h : clean lastIdx lastCp p = .keep cps removed) :
    p.start ≤ lastIdx ∧ cps = p.cps.drop (lastIdx - p.start) ∧
      p.cps[lastIdx - p.start]? = some lastCp := by
  unfold clean at h
  simp only at h
  split at h
  · cases h
  · split at h
    · cases h
    · split at h
      · cases h
      · rename_i h1 h2 h3
        simp only [Clean.keep.injEq] at h
        simp only [ne_eq, Decidable.not_not] at h3
        exact ⟨by omega, h.1.symm, h3⟩

/-- the cleaning step as a partial function on proven peers -/
def keepOf (s : St) (e : Nat × PeerCp) : Option (Nat × List Nat) :=
  match clean s.maxCp (s.final.getLast?.getD 0) e.2 with
  | .keep cps _ => some (e.1, cps)
  | _ => none

theorem kept_eq (s : St) : kept s = (proven s).filterMap (keepOf s) := rfl

theorem keepOf_some {s : St} {e : Nat × PeerCp} {x : Nat × List Nat} (h : keepOf s e = some x) :
    x.1 = e.1 ∧ e.2.start ≤ s.maxCp ∧ x.2 = e.2.cps.drop (s.maxCp - e.2.start) ∧
      e.2.cps[s.maxCp - e.2.start]? = some (s.final.getLast?.getD 0) := by
  unfold keepOf at h
  split at h
  · rename_i cps removed hc
    simp only [Option.some.injEq] at h
    subst h
    exact ⟨rfl, clean_keep hc⟩
  · cases h

theorem length_filterMap_eq_filter {α β} (f : α → Option β) (l : List α) :
    (l.filterMap f).length = (l.filter (fun e => (f e).isSome)).length := by
  induction l with
  | nil => rfl
  | cons a as ih =>
    cases h : f a <;> simp [h, ih]

theorem sublist_filterMap_source {α β} {f : α → Option β} {l : List α} {r : List β}
    (h : r.Sublist (l.filterMap f)) :
    ∃ l' : List α, l'.Sublist l ∧ l'.length = r.length ∧ ∀ e ∈ l', ∃ x ∈ r, f e = some x := by
  obtain ⟨l'', hsub, rfl⟩ := List.sublist_filterMap_iff.1 h
  refine ⟨l''.filter (fun e => (f e).isSome), List.filter_sublist.trans hsub,
    (length_filterMap_eq_filter f l'').symm, ?_⟩
  intro e he
  simp only [List.mem_filter] at he
  obtain ⟨x, hx⟩ := Option.isSome_iff_exists.1 he.2
  exact ⟨x, List.mem_filterMap.2 ⟨e, he.1, hx⟩, hx⟩

/-! ## `sortNat` and the `required`-th smallest length -/

theorem insertNat_perm (x : Nat) (l : List Nat) : (insertNat x l).Perm (x :: l) := by
  induction l with
  | nil => exact List.Perm.refl _
  | cons y ys ih =>
    unfold insertNat
    split
    · exact List.Perm.refl _
    · exact ((List.Perm.cons y ih).trans (List.Perm.swap x y ys))

theorem sortNat_perm (l : List Nat) : (sortNat l).Perm l := by
  induction l with
  | nil => exact List.Perm.refl _
  | cons x xs ih =>
    show (insertNat x (sortNat xs)).Perm (x :: xs)
    exact (insertNat_perm x _).trans (List.Perm.cons x ih)

theorem insertNat_sorted (x : Nat) (l : List Nat) (h : l.Pairwise (· ≤ ·)) :
    (insertNat x l).Pairwise (· ≤ ·) := by
  induction l with
  | nil => simp [insertNat]
  | cons y ys ih =>
    unfold insertNat
    rw [List.pairwise_cons] at h
    split
    · rename_i hxy
      refine List.pairwise_cons.2 ⟨?_, List.pairwise_cons.2 h⟩
      intro z hz
      rcases List.mem_cons.1 hz with rfl | hz
      · exact hxy
      · exact Nat.le_trans hxy (h.1 z hz)
    · rename_i hxy
      refine List.pairwise_cons.2 ⟨?_, ih h.2⟩
      intro z hz
      rcases List.mem_cons.1 ((insertNat_perm x ys).mem_iff.1 hz) with rfl | hz
      · omega
      · exact h.1 z hz

theorem sortNat_sorted (l : List Nat) : (sortNat l).Pairwise (· ≤ ·) := by
  induction l with
  | nil => exact List.Pairwise.nil
  | cons x xs ih => exact insertNat_sorted x _ ih

theorem sorted_getElem?_ge {L : Nat} : ∀ (l : List Nat) (k x : Nat), l.Pairwise (· ≤ ·) →
    l.countP (· < L) ≤ k → l[k]? = some x → L ≤ x := by
  intro l
  induction l with
  | nil => intro k x _ _ h; simp at h
  | cons y ys ih =>
    intro k x hs hc hx
    rw [List.pairwise_cons] at hs
    by_cases hy : y < L
    · rw [List.countP_cons_of_pos (by simpa using hy)] at hc
      cases k with
      | zero => omega
      | succ k =>
        rw [List.getElem?_cons_succ] at hx
        exact ih k x hs.2 (by omega) hx
    · cases k with
      | zero =>
        simp only [List.getElem?_cons_zero, Option.some.injEq] at hx
        omega
      | succ k =>
        rw [List.getElem?_cons_succ] at hx
        have := hs.1 x (List.mem_of_getElem? hx)
        omega

theorem countP_add_length_le {α} (p : α → Bool) {A l : List α} (h : A.Sublist l)
    (hA : ∀ a ∈ A, p a = false) : l.countP p + A.length ≤ l.length := by
  induction h with
  | slnil => simp
  | cons a _ ih =>
    have := ih hA
    by_cases hp : p a = true
    · rw [List.countP_cons_of_pos hp, List.length_cons]; omega
    · rw [List.countP_cons_of_neg hp, List.length_cons]; omega
  | cons_cons a _ ih =>
    have hpa := hA a (List.mem_cons_self)
    have := ih (fun b hb => hA b (List.mem_cons_of_mem _ hb))
    rw [List.countP_cons_of_neg (by simp [hpa]), List.length_cons, List.length_cons]; omega

/-- the `required`-th smallest length is at least `L` when fewer than `required` vectors are
shorter than `L` -/
theorem nthLength_ge {required L : Nat} {A data : List (Nat × List Nat)}
    (hreq : 1 ≤ required) (hA : A.Sublist data)
    (hothers : data.length - A.length < required) (hdata : required ≤ data.length)
    (hlen : ∀ a ∈ A, L ≤ a.2.length) :
    L ≤ (sortNat (data.map (·.2.length)))[required - 1]?.getD 0 := by
  have hl : (sortNat (data.map (·.2.length))).length = data.length := by
    rw [(sortNat_perm _).length_eq, List.length_map]
  have hlt : required - 1 < (sortNat (data.map (·.2.length))).length := by omega
  rw [List.getElem?_eq_getElem hlt, Option.getD_some]
  refine sorted_getElem?_ge _ (required - 1) _ (sortNat_sorted _) ?_ (List.getElem?_eq_getElem hlt)
  rw [(sortNat_perm _).countP_eq, List.countP_map]
  have := countP_add_length_le ((fun x => decide (x < L)) ∘ (fun d : Nat × List Nat => d.2.length)) hA
    (by intro a ha; have := hlen a ha; simp; omega)
  have := hA.length_le
  omega

/-! ## the agreement loop with an agreeing quorum (minority harmless) -/

/-- invariant of the agreement loop in the presence of an agreeing quorum `A` -/
def Inv2 (required : Nat) (A : List (Nat × List Nat)) (L : Nat) (ref : List Nat) (idx : Nat)
    (data : List (Nat × List Nat)) (acc : Option (Nat × Nat)) : Prop :=
  required ≤ data.length ∧
  (∀ d ∈ data, ∀ k, 1 ≤ k → k < idx → k < L → d.2[k]? = ref[k]?) ∧
  (idx < L → A.Sublist data ∧ data.length - A.length < required) ∧
  (acc = none → idx = 1) ∧
  (∀ i cp, acc = some (i, cp) → i + 1 = idx ∧ ∀ d ∈ data, i < d.2.length)

theorem take_getElem? {L : Nat} {ref v : List Nat} (h : v.take L = ref) {k : Nat} (hk : k < L) :
    v[k]? = ref[k]? := by
  rw [← h, List.getElem?_take_of_lt hk]

/-- while `idx < L` the quorum `A` wins column `idx` with `ref`'s value -/
theorem cnt_ref_ge {L idx : Nat} {A data : List (Nat × List Nat)} {ref : List Nat}
    (href : ref.length = L) (hagree : ∀ a ∈ A, a.2.take L = ref) (hA : A.Sublist data)
    (hidx : idx < L) :
    ∃ r, ref[idx]? = some r ∧ A.length ≤ cnt data idx r ∧ A.Sublist (keepAt data idx r) := by
  have hlt : idx < ref.length := by omega
  refine ⟨ref[idx], List.getElem?_eq_getElem hlt, ?_⟩
  have hall : ∀ a ∈ A, decide (a.2[idx]? = some ref[idx]) = true := by
    intro a ha
    rw [take_getElem? (hagree a ha) hidx, List.getElem?_eq_getElem hlt]; simp
  have hsub : A.Sublist (keepAt data idx ref[idx]) := by
    have := hA.filter (fun d => decide (d.2[idx]? = some ref[idx]))
    rwa [List.filter_eq_self.2 hall] at this
  exact ⟨hsub.length_le, hsub⟩

theorem Inv2_step {required L idx cp : Nat} {A data : List (Nat × List Nat)} {ref : List Nat}
    {acc : Option (Nat × Nat)}
    (href : ref.length = L) (hagree : ∀ a ∈ A, a.2.take L = ref)
    (hinv : Inv2 required A L ref idx data acc)
    (hcm : required ≤ cnt data idx cp) (hmax : ∀ v, cnt data idx v ≤ cnt data idx cp) :
    Inv2 required A L ref (idx + 1) (keepAt data idx cp) (some (idx, cp)) := by
  obtain ⟨hlen, hag, hA, hnone, hsome⟩ := hinv
  have hcp : idx < L → ref[idx]? = some cp ∧ A.Sublist (keepAt data idx cp) := by
    intro hidx
    obtain ⟨hAs, hoth⟩ := hA hidx
    obtain ⟨r, hr, hr1, hr2⟩ := cnt_ref_ge href hagree hAs hidx
    by_cases hrc : r = cp
    · subst hrc; exact ⟨hr, hr2⟩
    · exfalso
      have hall : ∀ a ∈ A, decide (a.2[idx]? = some cp) = false := by
        intro a ha
        rw [take_getElem? (hagree a ha) hidx, hr]; simp [hrc]
      have := countP_add_length_le (fun d : Nat × List Nat => decide (d.2[idx]? = some cp)) hAs hall
      rw [List.countP_eq_length_filter] at this
      unfold cnt at hcm
      omega
  refine ⟨hcm, ?_, ?_, by simp, ?_⟩
  · intro d hd k hk1 hk2 hk3
    rw [mem_keepAt] at hd
    by_cases hki : k = idx
    · subst hki; rw [hd.2, (hcp hk3).1]
    · exact hag d hd.1 k hk1 (by omega) hk3
  · intro hidx
    have hidx' : idx < L := by omega
    refine ⟨(hcp hidx').2, ?_⟩
    have h1 : (keepAt data idx cp).length ≤ data.length := List.length_filter_le _ _
    have := (hA hidx').2
    omega
  · intro i c hic
    simp only [Option.some.injEq, Prod.mk.injEq] at hic
    obtain ⟨rfl, rfl⟩ := hic
    refine ⟨rfl, ?_⟩
    intro d hd
    rw [mem_keepAt] at hd
    exact (List.getElem?_eq_some_iff.1 hd.2).1

theorem agree_inv2 {required L : Nat} {A : List (Nat × List Nat)} {ref : List Nat}
    (hreq : 1 ≤ required) (hAq : required ≤ A.length) (hL : 2 ≤ L)
    (href : ref.length = L) (hagree : ∀ a ∈ A, a.2.take L = ref) :
    ∀ (fuel idx : Nat) (choices : List Nat) (data : List (Nat × List Nat))
      (acc : Option (Nat × Nat)) (rest : List (Nat × List Nat)) (acc' : Option (Nat × Nat)),
      Inv2 required A L ref idx data acc → L ≤ idx + fuel →
      agree required fuel idx choices data acc = (rest, acc') →
      ∃ i cp, acc' = some (i, cp) ∧ L ≤ i + 1 ∧ rest ≠ [] ∧
        ∀ d ∈ rest, ∀ k, 1 ≤ k → k < L → d.2[k]? = ref[k]? := by
  have hdone : ∀ (idx : Nat) (data : List (Nat × List Nat)) (acc : Option (Nat × Nat)),
      Inv2 required A L ref idx data acc → L ≤ idx →
      ∃ i cp, acc = some (i, cp) ∧ L ≤ i + 1 ∧ data ≠ [] ∧
        ∀ d ∈ data, ∀ k, 1 ≤ k → k < L → d.2[k]? = ref[k]? := by
    intro idx data acc ⟨hlen, hag, hA, hnone, hsome⟩ hidx
    cases acc with
    | none => have := hnone rfl; omega
    | some ic =>
      obtain ⟨i, c⟩ := ic
      obtain ⟨hi, -⟩ := hsome i c rfl
      refine ⟨i, c, rfl, by omega, ?_, fun d hd k hk1 hk2 => hag d hd k hk1 (by omega) hk2⟩
      intro hnil; rw [hnil] at hlen; simp at hlen; omega
  intro fuel
  induction fuel with
  | zero =>
    intro idx choices data acc rest acc' hinv hfuel h
    rw [agree_zero] at h
    cases h
    exact hdone idx _ _ hinv (by omega)
  | succ fuel ih =>
    intro idx choices data acc rest acc' hinv hfuel h
    by_cases hcm : required ≤ maxCount (tally data idx)
    · obtain ⟨cp, hcp, hstep⟩ := agree_step (fuel := fuel) (choices := choices) (acc := acc) hreq hcm
      rw [hstep] at h
      refine ih _ _ _ _ _ _ (Inv2_step href hagree hinv (by omega) ?_) (by omega) h
      intro v; rw [hcp]; exact cnt_le_maxCount data idx v
    · rw [agree_stop hcm] at h
      cases h
      refine hdone idx _ _ hinv ?_
      apply Nat.le_of_not_lt
      intro hidx
      obtain ⟨-, -, hA, -, -⟩ := hinv
      obtain ⟨r, -, hr1, -⟩ := cnt_ref_ge href hagree (hA hidx).1 hidx
      have := cnt_le_maxCount data idx r
      omega

theorem prefix_of_agree {L index : Nat} {ref cps : List Nat} (href : ref.length = L)
    (hidx : L ≤ index + 1) (h : ∀ k, 1 ≤ k → k < L → cps[k]? = ref[k]?) :
    ref.drop 1 <+: (cps.drop 1).take index := by
  rw [List.prefix_iff_eq_take]
  apply List.ext_getElem?
  intro n
  simp only [List.length_drop, List.getElem?_drop, List.take_take, List.getElem?_take]
  by_cases hn : n < L - 1
  · rw [if_pos (by omega), h (1 + n) (by omega) (by omega)]
  · rw [if_neg (by omega)]
    exact List.getElem?_eq_none (by omega)

end Quorum

import LcModel.Prelude
/-!
# Pool layer — pending transactions, admission and relay announcements
Model of `PendingTxs::{push, get, fetch_transaction_hashes_for_broadcast}` and the announce
logic of `RelayProtocol::{connected, notify, disconnected}` (`src/protocols/relayer.rs`), of
`TransactionRpcImpl::{send_transaction, get_transaction}` (`src/service.rs`) and of
`verify_tx` / `resolve_tx` (`src/verify.rs`) with the verdicts of ckb-verification / CKB-VM as
inputs (`Verdicts`), and of `StorageWithChainData::cell` (store first, then pending outputs).

Hashes and peer ids are natural-number ids.
-/
namespace Pool

/-- a pending transaction: hash, cycles, number of outputs, peers it was announced to -/
structure Entry where
  hash : Nat
  cycles : Nat
  outputs : Nat
  announced : List Nat
  deriving Repr, DecidableEq

structure St where
  limit : Nat
  pool : List Entry                 -- front = least recently inserted
  stored : List (Nat × Nat)         -- transactions in the store (indexed or fetched): (hash, #outputs)
  opened : List Nat                 -- peers with the relay protocol open
  deriving Repr, DecidableEq

/-- `PendingTxs::push` (`LinkedHashMap::insert` moves an existing key to the back; the entry
keeps the peers it was already announced to; then the front is evicted when over the limit) -/
def push (s : St) (hash cycles outputs : Nat) : St :=
  let announced := ((s.pool.find? (·.hash = hash)).map (·.announced)).getD []
  let pool := (s.pool.filter (·.hash ≠ hash)) ++ [⟨hash, cycles, outputs, announced⟩]
  { s with pool := if s.limit < pool.length then pool.drop 1 else pool }

def getPending (s : St) (hash : Nat) : Option Entry := s.pool.find? (·.hash = hash)

/-- `fetch_transaction_hashes_for_broadcast(peer)`: (new pool, hashes announced now) -/
def fetchForBroadcast (pool : List Entry) (peer : Nat) : List Entry × List Nat :=
  (pool.map (fun e => if e.announced.contains peer then e else { e with announced := peer :: e.announced }),
   (pool.filter (fun e => !e.announced.contains peer)).map (·.hash))

/-- an out point as the verifier sees it -/
structure OutPointRef where
  tx : Nat
  index : Nat
  deriving Repr, DecidableEq

/-- `StorageWithChainData::cell`: store first, then the outputs of pending transactions -/
def cellKnown (s : St) (o : OutPointRef) : Bool :=
  (s.stored.any (fun t => t.1 = o.tx && o.index < t.2)) ||
  (match getPending s o.tx with
   | some e => o.index < e.outputs
   | none => false)

/-- verdicts of the external verifiers for one transaction -/
structure Verdicts where
  nonContextual : Bool              -- NonContextualTransactionVerifier
  timeRelative : Bool               -- since / maturity at the current tip
  capacity : Bool
  script : Option Nat               -- cycles if all scripts pass
  deriving Repr, DecidableEq

inductive Reject where
  | nonContextual | deadInput | unknownCell | timeRelative | capacity | script
  deriving Repr, DecidableEq

/-- `resolve_tx`: inputs in order (a repeated input is `Dead`, an unresolvable one `Unknown`),
then cell deps (dep groups already expanded into `deps` by the caller: group cell first, then its
members) -/
def resolve (s : St) (inputs deps : List OutPointRef) : Option Reject :=
  let rec goInputs (seen : List OutPointRef) : List OutPointRef → Option Reject
    | [] => none
    | o :: rest =>
      if seen.contains o then some .deadInput
      else if !cellKnown s o then some .unknownCell
      else goInputs (o :: seen) rest
  match goInputs [] inputs with
  | some r => some r
  | none => if deps.all (cellKnown s) then none else some .unknownCell

/-- `verify_tx` -/
def verifyTx (s : St) (inputs deps : List OutPointRef) (v : Verdicts) : Except Reject Nat :=
  if !v.nonContextual then .error .nonContextual
  else match resolve s inputs deps with
    | some r => .error r
    | none =>
      if !v.timeRelative then .error .timeRelative
      else if !v.capacity then .error .capacity
      else match v.script with
        | none => .error .script
        | some c => .ok c

/-- `send_transaction` -/
def sendTransaction (s : St) (hash outputs : Nat) (inputs deps : List OutPointRef) (v : Verdicts) :
    St × Except Reject Nat :=
  match verifyTx s inputs deps v with
  | .ok c => (push s hash c outputs, .ok c)
  | .error r => (s, .error r)

inductive TxStatus where
  | committed | pending (cycles : Nat) | unknown
  deriving Repr, DecidableEq

/-- `get_transaction` -/
def getTransaction (s : St) (hash : Nat) : TxStatus :=
  if s.stored.any (·.1 = hash) then .committed
  else match getPending s hash with
    | some e => .pending e.cycles
    | none => .unknown

/-- relay events; `fresh` says whether the pool was updated within the last minute (wall clock
of the implementation, an input here) -/
inductive Ev where
  | submit (hash outputs : Nat) (inputs deps : List OutPointRef) (v : Verdicts)
  | connect (peer : Nat) (fresh : Bool)
  | disconnect (peer : Nat)
  | tick
  | commit (hash outputs : Nat)     -- the transaction shows up in the store (indexed / fetched)

/-- one event: new state and the announcements `(peer, hashes)` sent -/
def step (s : St) : Ev → St × List (Nat × List Nat)
  | .submit hash outputs inputs deps v => ((sendTransaction s hash outputs inputs deps v).1, [])
  | .connect peer fresh =>
    let s := { s with opened := if s.opened.contains peer then s.opened else s.opened ++ [peer] }
    if !s.pool.isEmpty && fresh then
      let (pool, hs) := fetchForBroadcast s.pool peer
      ({ s with pool := pool }, if hs.isEmpty then [] else [(peer, hs)])
    else (s, [])
  | .disconnect peer => ({ s with opened := s.opened.filter (· ≠ peer) }, [])
  | .tick =>
    s.opened.foldl (fun (acc : St × List (Nat × List Nat)) peer =>
      let (pool, hs) := fetchForBroadcast acc.1.pool peer
      ({ acc.1 with pool := pool }, if hs.isEmpty then acc.2 else acc.2 ++ [(peer, hs)])) (s, [])
  | .commit hash outputs => ({ s with stored := s.stored ++ [(hash, outputs)] }, [])

/-! ### driver -/

def showReject : Reject → String
  | .nonContextual => "non-contextual" | .deadInput => "dead-input" | .unknownCell => "unknown-cell"
  | .timeRelative => "time-relative" | .capacity => "capacity" | .script => "script"

def showAnn (a : List (Nat × List Nat)) : String :=
  " ".intercalate (a.map (fun e => s!"{e.1}:{e.2}"))

def parseRefs : List Nat → List OutPointRef
  | t :: i :: rest => ⟨t, i⟩ :: parseRefs rest
  | _ => []

def splitBar (ts : List String) : List String × List String :=
  match ts.span (· ≠ "|") with
  | (a, _ :: b) => (a, b)
  | (a, []) => (a, [])

/-- ops:
 `init limit`
 `submit hash outputs nonctx timerel cap script|-  | in-tx in-idx … | dep-tx dep-idx …`
 `get hash`
 `connect peer fresh` / `disconnect peer` / `tick` / `commit hash outputs`
 `pool` (hashes in order) -/
def stepLine (s : St) (line : String) : St × String :=
  match tokens line with
  | ["init", l] => match l.toNat? with
    | some l => (⟨l, [], [], []⟩, "ok")
    | none => (s, "bad-op")
  | "submit" :: rest =>
    let (a, r1) := splitBar rest
    let (ins, deps) := splitBar r1
    match a, natsOf ins, natsOf deps with
    | [h, o, nc, tr, cap, sc], some ins, some deps =>
      (match h.toNat?, o.toNat?, nc.toNat?, tr.toNat?, cap.toNat? with
       | some h, some o, some nc, some tr, some cap =>
         let v : Verdicts := ⟨nc = 1, tr = 1, cap = 1, sc.toNat?⟩
         let (s', r) := sendTransaction s h o (parseRefs ins) (parseRefs deps) v
         (s', match r with | .ok c => s!"ok {c}" | .error e => s!"err {showReject e}")
       | _, _, _, _, _ => (s, "bad-op"))
    | _, _, _ => (s, "bad-op")
  | ["get", h] => match h.toNat? with
    | some h => (s, match getTransaction s h with
        | .committed => "committed" | .pending c => s!"pending {c}" | .unknown => "unknown")
    | none => (s, "bad-op")
  | ["connect", p, f] => match p.toNat?, f.toNat? with
    | some p, some f => let (s', a) := step s (.connect p (f = 1)); (s', s!"ann {showAnn a}")
    | _, _ => (s, "bad-op")
  | ["disconnect", p] => match p.toNat? with
    | some p => ((step s (.disconnect p)).1, "ok")
    | none => (s, "bad-op")
  | ["tick"] => let (s', a) := step s .tick; (s', s!"ann {showAnn a}")
  | ["commit", h, o] => match h.toNat?, o.toNat? with
    | some h, some o => ((step s (.commit h o)).1, "ok")
    | _, _ => (s, "bad-op")
  | ["pool"] => (s, s!"{s.pool.map (·.hash)}")
  | _ => (s, "bad-op")

end Pool

import LcModel.Pool.Model
/-! helper lemmas for the Pool layer -/
namespace Pool

/-! ## resolve -/

theorem goInputs_eq_none (s : St) (seen l : List OutPointRef) :
    resolve.goInputs s seen l = none ↔
      l.Nodup ∧ (∀ o ∈ l, o ∉ seen) ∧ ∀ o ∈ l, cellKnown s o = true := by
  induction l generalizing seen with
  | nil => simp [resolve.goInputs]
  | cons o rest ih =>
    simp only [resolve.goInputs]
    split
    · simp_all
    · split
      · simp_all
      · rw [ih]; grind

theorem resolve_eq_none (s : St) (inputs deps : List OutPointRef) :
    resolve s inputs deps = none ↔
      inputs.Nodup ∧ (∀ o ∈ inputs, cellKnown s o = true) ∧ ∀ o ∈ deps, cellKnown s o = true := by
  unfold resolve
  split
  · rename_i r h
    have : ¬ (resolve.goInputs s [] inputs = none) := by simp [h]
    rw [goInputs_eq_none] at this
    simp at this ⊢
    grind
  · rename_i h
    rw [goInputs_eq_none] at h
    simp [List.all_eq_true]
    grind

theorem verifyTx_eq_ok (s : St) (inputs deps : List OutPointRef) (v : Verdicts) (c : Nat) :
    verifyTx s inputs deps v = .ok c ↔
      v.nonContextual = true ∧ inputs.Nodup ∧ (∀ o ∈ inputs ++ deps, cellKnown s o = true) ∧
      v.timeRelative = true ∧ v.capacity = true ∧ v.script = some c := by
  unfold verifyTx
  split
  · simp_all
  · split
    · rename_i r h
      have : ¬ (resolve s inputs deps = none) := by simp [h]
      rw [resolve_eq_none] at this
      simp only [List.mem_append]
      grind
    · rename_i h
      rw [resolve_eq_none] at h
      simp only [List.mem_append]
      split
      · simp_all
      · split
        · simp_all
        · split <;> simp_all <;> grind

/-! ## pool: uniqueness of entries per hash -/

theorem hash_inj {pool : List Entry} (hnd : (pool.map (·.hash)).Nodup) {e e' : Entry}
    (he : e ∈ pool) (he' : e' ∈ pool) (hh : e.hash = e'.hash) : e = e' := by
  induction pool with
  | nil => simp at he
  | cons a rest ih =>
    simp only [List.map_cons, List.nodup_cons, List.mem_map, not_exists, not_and] at hnd
    simp only [List.mem_cons] at he he'
    grind

theorem find?_hash_of_mem {pool : List Entry} (hnd : (pool.map (·.hash)).Nodup) {e : Entry}
    (he : e ∈ pool) : pool.find? (·.hash = e.hash) = some e := by
  cases hf : pool.find? (·.hash = e.hash) with
  | none =>
    rw [List.find?_eq_none] at hf
    have := hf e he
    simp at this
  | some e' =>
    have h1 := List.mem_of_find?_eq_some hf
    have h2 := List.find?_some hf
    simp only [decide_eq_true_eq] at h2
    rw [hash_inj hnd h1 he h2]

theorem find?_hash_eq_none {pool : List Entry} {h : Nat} :
    pool.find? (·.hash = h) = none ↔ ∀ e ∈ pool, e.hash ≠ h := by
  simp [List.find?_eq_none]

/-! ## push -/

theorem push_limit (s : St) (h c o : Nat) : (push s h c o).limit = s.limit := rfl
theorem push_stored (s : St) (h c o : Nat) : (push s h c o).stored = s.stored := rfl
theorem push_opened (s : St) (h c o : Nat) : (push s h c o).opened = s.opened := rfl

/-- the pool before the eviction test -/
def pushed (s : St) (h c o : Nat) : List Entry :=
  s.pool.filter (·.hash ≠ h) ++
    [⟨h, c, o, ((s.pool.find? (·.hash = h)).map (·.announced)).getD []⟩]

theorem push_pool (s : St) (h c o : Nat) :
    (push s h c o).pool =
      if s.limit < (pushed s h c o).length then (pushed s h c o).drop 1 else pushed s h c o := rfl

theorem pushed_hashes_nodup (s : St) (h c o : Nat) (hnd : (s.pool.map (·.hash)).Nodup) :
    ((pushed s h c o).map (·.hash)).Nodup := by
  unfold pushed
  rw [List.map_append, List.nodup_append]
  refine ⟨?_, by simp, ?_⟩
  · exact hnd.sublist (List.Sublist.map _ List.filter_sublist)
  · intro a ha b hb
    simp only [List.map_cons, List.map_nil, List.mem_singleton] at hb
    simp only [List.mem_map, List.mem_filter, decide_eq_true_eq] at ha
    grind

theorem push_hashes_nodup (s : St) (h c o : Nat) (hnd : (s.pool.map (·.hash)).Nodup) :
    ((push s h c o).pool.map (·.hash)).Nodup := by
  rw [push_pool]
  have := pushed_hashes_nodup s h c o hnd
  split
  · exact this.sublist (List.Sublist.map _ (List.drop_sublist _ _))
  · exact this

theorem pushed_length_le (s : St) (h c o : Nat) :
    (pushed s h c o).length ≤ s.pool.length + 1 := by
  unfold pushed
  have := List.length_filter_le (fun e : Entry => decide (e.hash ≠ h)) s.pool
  simp only [List.length_append, List.length_cons, List.length_nil]
  omega

theorem push_length_le (s : St) (h c o : Nat) (hle : s.pool.length ≤ s.limit) :
    (push s h c o).pool.length ≤ s.limit := by
  rw [push_pool]
  have := pushed_length_le s h c o
  split
  · rw [List.length_drop]; omega
  · omega

/-! ## fetchForBroadcast -/

/-- what `fetchForBroadcast` does to one entry -/
def mark (p : Nat) (e : Entry) : Entry :=
  if e.announced.contains p then e else { e with announced := p :: e.announced }

theorem ffb_fst (pool : List Entry) (p : Nat) :
    (fetchForBroadcast pool p).1 = pool.map (mark p) := rfl

theorem ffb_snd (pool : List Entry) (p : Nat) :
    (fetchForBroadcast pool p).2 =
      (pool.filter (fun e => !e.announced.contains p)).map (·.hash) := rfl

theorem mark_hash (p : Nat) (e : Entry) : (mark p e).hash = e.hash := by
  unfold mark; split <;> rfl

theorem mem_mark_self (p : Nat) (e : Entry) : p ∈ (mark p e).announced := by
  unfold mark; split <;> simp_all

theorem mem_mark_of_mem (p : Nat) (e : Entry) {q : Nat} (h : q ∈ e.announced) :
    q ∈ (mark p e).announced := by
  unfold mark; split <;> simp_all

theorem ffb_hashes (pool : List Entry) (p : Nat) :
    (fetchForBroadcast pool p).1.map (·.hash) = pool.map (·.hash) := by
  simp [ffb_fst, List.map_map, Function.comp_def, mark_hash]

theorem ffb_snd_subset (pool : List Entry) (p : Nat) :
    ∀ x ∈ (fetchForBroadcast pool p).2, x ∈ pool.map (·.hash) := by
  intro x hx
  simp only [ffb_snd, List.mem_map, List.mem_filter] at hx ⊢
  grind

/-! ## announcements as pairs -/

/-- announcements `(peer, hashes)` flattened to pairs `(hash, peer)` -/
def flat (anns : List (Nat × List Nat)) : List (Nat × Nat) :=
  anns.flatMap (fun a => a.2.map (fun h => (h, a.1)))

theorem flat_nil : flat [] = [] := rfl

theorem flat_append (a b : List (Nat × List Nat)) : flat (a ++ b) = flat a ++ flat b := by
  simp [flat, List.flatMap_append]

theorem flat_single (p : Nat) (hs : List Nat) : flat [(p, hs)] = hs.map (fun h => (h, p)) := by
  simp [flat]

theorem flat_opt (p : Nat) (hs : List Nat) :
    flat (if hs.isEmpty then [] else [(p, hs)]) = hs.map (fun h => (h, p)) := by
  split
  · rename_i h; simp_all [flat]
  · exact flat_single p hs

/-! ## tick -/

def tickF (acc : St × List (Nat × List Nat)) (peer : Nat) : St × List (Nat × List Nat) :=
  let (pool, hs) := fetchForBroadcast acc.1.pool peer
  ({ acc.1 with pool := pool }, if hs.isEmpty then acc.2 else acc.2 ++ [(peer, hs)])

theorem step_tick (s : St) : step s .tick = s.opened.foldl tickF (s, []) := rfl

theorem tickF_pool (acc : St × List (Nat × List Nat)) (p : Nat) :
    (tickF acc p).1.pool = (fetchForBroadcast acc.1.pool p).1 := rfl
theorem tickF_limit (acc : St × List (Nat × List Nat)) (p : Nat) :
    (tickF acc p).1.limit = acc.1.limit := rfl
theorem tickF_snd (acc : St × List (Nat × List Nat)) (p : Nat) :
    (tickF acc p).2 =
      if (fetchForBroadcast acc.1.pool p).2.isEmpty then acc.2
      else acc.2 ++ [(p, (fetchForBroadcast acc.1.pool p).2)] := rfl

theorem flat_tickF (acc : St × List (Nat × List Nat)) (p : Nat) :
    flat (tickF acc p).2 =
      flat acc.2 ++ (fetchForBroadcast acc.1.pool p).2.map (fun h => (h, p)) := by
  rw [tickF_snd]
  split
  · rename_i h; simp_all
  · rw [flat_append, flat_single]

theorem foldl_tickF_hashes (ps : List Nat) (acc : St × List (Nat × List Nat)) :
    (ps.foldl tickF acc).1.pool.map (·.hash) = acc.1.pool.map (·.hash) ∧
    (ps.foldl tickF acc).1.limit = acc.1.limit := by
  induction ps generalizing acc with
  | nil => simp
  | cons p rest ih =>
    rw [List.foldl_cons]
    obtain ⟨h1, h2⟩ := ih (tickF acc p)
    rw [h1, h2, tickF_pool, ffb_hashes, tickF_limit]
    exact ⟨rfl, rfl⟩

theorem foldl_tickF_anns (ps : List Nat) (acc : St × List (Nat × List Nat))
    (h : ∀ a ∈ acc.2, ∀ x ∈ a.2, x ∈ acc.1.pool.map (·.hash)) :
    ∀ a ∈ (ps.foldl tickF acc).2, ∀ x ∈ a.2, x ∈ acc.1.pool.map (·.hash) := by
  induction ps generalizing acc with
  | nil => simpa using h
  | cons p rest ih =>
    rw [List.foldl_cons]
    have := ih (tickF acc p)
    rw [tickF_pool, ffb_hashes] at this
    apply this
    intro a ha x hx
    rw [tickF_snd] at ha
    split at ha
    · exact h a ha x hx
    · simp only [List.mem_append, List.mem_singleton] at ha
      rcases ha with ha | ha
      · exact h a ha x hx
      · subst ha
        exact ffb_snd_subset _ _ x hx

/-! ## step -/

theorem sendTransaction_fst (s : St) (h o : Nat) (i d : List OutPointRef) (v : Verdicts) :
    (sendTransaction s h o i d v).1 = s ∨ ∃ c, (sendTransaction s h o i d v).1 = push s h c o := by
  unfold sendTransaction
  split
  · exact .inr ⟨_, rfl⟩
  · exact .inl rfl

theorem step_connect_fst (s : St) (p : Nat) (fresh : Bool) :
    (step s (.connect p fresh)).1.pool =
        (if (!s.pool.isEmpty && fresh) = true then (fetchForBroadcast s.pool p).1 else s.pool) ∧
    (step s (.connect p fresh)).1.limit = s.limit := by
  simp only [step]
  split <;> exact ⟨rfl, rfl⟩

theorem step_connect_snd (s : St) (p : Nat) (fresh : Bool) :
    (step s (.connect p fresh)).2 =
      if (!s.pool.isEmpty && fresh) = true then
        (if (fetchForBroadcast s.pool p).2.isEmpty then [] else [(p, (fetchForBroadcast s.pool p).2)])
      else [] := by
  simp only [step]
  split <;> rfl

theorem step_poolInv (s : St) (ev : Ev)
    (h : s.pool.length ≤ s.limit ∧ (s.pool.map (·.hash)).Nodup) :
    (step s ev).1.pool.length ≤ (step s ev).1.limit ∧ ((step s ev).1.pool.map (·.hash)).Nodup := by
  cases ev with
  | submit hash outputs inputs deps v =>
    simp only [step]
    rcases sendTransaction_fst s hash outputs inputs deps v with e | ⟨c, e⟩
    · rw [e]; exact h
    · rw [e]; exact ⟨push_length_le s _ _ _ h.1, push_hashes_nodup s _ _ _ h.2⟩
  | connect p fresh =>
    obtain ⟨h1, h2⟩ := step_connect_fst s p fresh
    rw [h2]
    have hl : (step s (.connect p fresh)).1.pool.map (·.hash) = s.pool.map (·.hash) := by
      rw [h1]; split
      · exact ffb_hashes _ _
      · rfl
    have hlen := congrArg List.length hl
    simp only [List.length_map] at hlen
    rw [hl, hlen]; exact h
  | disconnect p => exact h
  | tick =>
    rw [step_tick]
    obtain ⟨h1, h2⟩ := foldl_tickF_hashes s.opened (s, [])
    have hlen := congrArg List.length h1
    simp only [List.length_map] at hlen
    rw [h1, h2, hlen]; exact h
  | commit hash outputs => exact h

theorem step_anns_subset (s : St) (ev : Ev) :
    ∀ a ∈ (step s ev).2, ∀ x ∈ a.2, x ∈ s.pool.map (·.hash) := by
  cases ev with
  | submit hash outputs inputs deps v => simp [step]
  | connect p fresh =>
    rw [step_connect_snd]
    intro a ha x hx
    split at ha
    · split at ha
      · simp at ha
      · simp only [List.mem_singleton] at ha
        subst ha
        exact ffb_snd_subset _ _ x hx
    · simp at ha
  | disconnect p => simp [step]
  | tick =>
    rw [step_tick]
    exact foldl_tickF_anns s.opened (s, []) (by simp)
  | commit hash outputs => simp [step]

/-! ## consistency of an announcement log with the pool -/

/-- every logged pair `(hash, peer)` is recorded in the pool entry of that hash -/
def Cov (log : List (Nat × Nat)) (pool : List Entry) : Prop :=
  ∀ hp ∈ log, ∃ e ∈ pool, e.hash = hp.1 ∧ hp.2 ∈ e.announced

structure Consistent (log : List (Nat × Nat)) (s : St) : Prop where
  nodup : log.Nodup
  cov : Cov log s.pool
  hashes : (s.pool.map (·.hash)).Nodup

theorem ffb_new_nodup (pool : List Entry) (p : Nat) (hnd : (pool.map (·.hash)).Nodup) :
    ((fetchForBroadcast pool p).2.map (fun h => (h, p))).Nodup := by
  rw [ffb_snd, List.map_map]
  have h1 : ((pool.filter (fun e => !e.announced.contains p)).map (·.hash)).Nodup :=
    hnd.sublist (List.Sublist.map _ List.filter_sublist)
  unfold List.Nodup at h1 ⊢
  rw [List.pairwise_map] at h1 ⊢
  exact h1.imp (by intro a b hab; simpa using hab)

theorem ffb_consistent (log : List (Nat × Nat)) (pool : List Entry) (p : Nat)
    (h1 : log.Nodup) (h2 : Cov log pool) (h3 : (pool.map (·.hash)).Nodup) :
    (log ++ (fetchForBroadcast pool p).2.map (fun h => (h, p))).Nodup ∧
    Cov (log ++ (fetchForBroadcast pool p).2.map (fun h => (h, p))) (fetchForBroadcast pool p).1 := by
  constructor
  · rw [List.nodup_append]
    refine ⟨h1, ffb_new_nodup pool p h3, ?_⟩
    intro a ha b hb hab
    subst hab
    simp only [ffb_snd, List.mem_map, List.mem_filter] at hb
    obtain ⟨x, ⟨e, ⟨he, hpe⟩, rfl⟩, rfl⟩ := hb
    obtain ⟨e', he', hh, hp⟩ := h2 _ ha
    have := hash_inj h3 he' he hh
    subst this
    simp_all
  · intro hp hhp
    rw [ffb_fst]
    rw [List.mem_append] at hhp
    rcases hhp with hhp | hhp
    · obtain ⟨e, he, hh, hpe⟩ := h2 _ hhp
      exact ⟨mark p e, List.mem_map_of_mem he, by rw [mark_hash, hh], mem_mark_of_mem p e hpe⟩
    · simp only [ffb_snd, List.mem_map, List.mem_filter] at hhp
      obtain ⟨x, ⟨e, ⟨he, _⟩, rfl⟩, rfl⟩ := hhp
      exact ⟨mark p e, List.mem_map_of_mem he, mark_hash p e, mem_mark_self p e⟩

theorem pushed_cov (log : List (Nat × Nat)) (s : St) (h c o : Nat)
    (hcov : Cov log s.pool) (hnd : (s.pool.map (·.hash)).Nodup) :
    Cov log (pushed s h c o) := by
  intro hp hhp
  obtain ⟨e, he, hh, hpe⟩ := hcov hp hhp
  unfold pushed
  by_cases heq : e.hash = h
  · subst heq
    rw [find?_hash_of_mem hnd he]
    exact ⟨_, List.mem_append_right _ (List.mem_singleton.2 rfl), hh, hpe⟩
  · refine ⟨e, List.mem_append_left _ ?_, hh, hpe⟩
    simp only [List.mem_filter, decide_eq_true_eq]
    exact ⟨he, heq⟩

theorem push_consistent (log : List (Nat × Nat)) (s : St) (h c o : Nat)
    (hc : Consistent log s) (hroom : (s.pool.filter (·.hash ≠ h)).length < s.limit) :
    Consistent log (push s h c o) := by
  refine ⟨hc.nodup, ?_, push_hashes_nodup s h c o hc.hashes⟩
  rw [push_pool, if_neg]
  · exact pushed_cov log s h c o hc.cov hc.hashes
  · unfold pushed
    simp only [List.length_append, List.length_cons, List.length_nil]
    omega

theorem foldl_tickF_consistent (log : List (Nat × Nat)) (ps : List Nat)
    (acc : St × List (Nat × List Nat)) (hc : Consistent (log ++ flat acc.2) acc.1) :
    Consistent (log ++ flat (ps.foldl tickF acc).2) (ps.foldl tickF acc).1 := by
  induction ps generalizing acc with
  | nil => exact hc
  | cons p rest ih =>
    rw [List.foldl_cons]
    apply ih
    obtain ⟨h1, h2⟩ := ffb_consistent _ acc.1.pool p hc.nodup hc.cov hc.hashes
    rw [flat_tickF, ← List.append_assoc]
    refine ⟨h1, ?_, ?_⟩
    · rw [tickF_pool]; exact h2
    · rw [tickF_pool, ffb_hashes]; exact hc.hashes

/-- the event does not evict: a submission finds room in the pool -/
def NoEvict1 (s : St) : Ev → Prop
  | .submit hash _ _ _ _ => (s.pool.filter (·.hash ≠ hash)).length < s.limit
  | _ => True

theorem step_consistent (log : List (Nat × Nat)) (s : St) (ev : Ev)
    (hc : Consistent log s) (hne : NoEvict1 s ev) :
    Consistent (log ++ flat (step s ev).2) (step s ev).1 := by
  cases ev with
  | submit hash outputs inputs deps v =>
    simp only [step, flat_nil, List.append_nil]
    rcases sendTransaction_fst s hash outputs inputs deps v with e | ⟨c, e⟩
    · rw [e]; exact hc
    · rw [e]; exact push_consistent log s hash c outputs hc hne
  | connect p fresh =>
    obtain ⟨h1, _⟩ := step_connect_fst s p fresh
    rw [step_connect_snd]
    by_cases hcond : (!s.pool.isEmpty && fresh) = true
    · rw [if_pos hcond] at h1 ⊢
      rw [flat_opt]
      obtain ⟨g1, g2⟩ := ffb_consistent log s.pool p hc.nodup hc.cov hc.hashes
      refine ⟨g1, ?_, ?_⟩
      · rw [h1]; exact g2
      · rw [h1, ffb_hashes]; exact hc.hashes
    · rw [if_neg hcond] at h1 ⊢
      rw [flat_nil, List.append_nil]
      refine ⟨hc.nodup, ?_, ?_⟩
      · rw [h1]; exact hc.cov
      · rw [h1]; exact hc.hashes
  | disconnect p =>
    simp only [step, flat_nil, List.append_nil]
    exact ⟨hc.nodup, hc.cov, hc.hashes⟩
  | tick =>
    rw [step_tick]
    apply foldl_tickF_consistent
    simpa [flat_nil] using hc
  | commit hash outputs =>
    simp only [step, flat_nil, List.append_nil]
    exact ⟨hc.nodup, hc.cov, hc.hashes⟩

end Pool

import LcModel.Pool.Model
/-! helper lemmas for the Pool layer -/
namespace Pool
end Pool

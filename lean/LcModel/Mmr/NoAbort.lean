import LcModel.Mmr.Positions
/-!
# Mmr — `verify_mmr_proof` reaches none of its aborts

The third abort of the model, `pos - sibling_offset` on `u64` (site 903), needs the queue entries
of `calculate_peak_root` to carry their true height (`QInv`); with the theory of positions
(`step_right` / `step_left`) one turn of the loop keeps that, and a right child always has its left
sibling.  Together with `NoOverflow` (sites 901 / 902): no abort at all.
-/
namespace Mmr

/-- the only aborts the result can be are the two additions of `merge` -/
def Only12 {α} (x : R α) : Prop :=
  ∀ p, x = .error (.panic p) → p = .overflow 901 ∨ p = .overflow 902

theorem merge_only12 (l r : Digest) : Only12 (merge l r) := by
  intro p hp
  unfold merge at hp
  split at hp
  · simp only [Except.error.injEq, Fail.panic.injEq] at hp; exact .inl hp.symm
  · split at hp
    · simp only [Except.error.injEq, Fail.panic.injEq] at hp; exact .inr hp.symm
    · split at hp
      · simp at hp
      · split at hp <;> simp at hp

/-- every entry of the queue carries its true height and lies at or below the peak -/
def QInv (peak : Nat) (q : List Entry) : Prop :=
  ∀ e ∈ q, e.2.2 = hgt (e.1 + 1) ∧ e.1 ≤ peak

theorem parentOffset_eq (h : Nat) : parentOffset h = 2 ^ (h + 1) := by
  unfold parentOffset; rw [Nat.pow_succ]; omega
theorem siblingOffset_eq (h : Nat) : siblingOffset h = 2 ^ (h + 1) - 1 := by
  unfold siblingOffset; rw [Nat.pow_succ]; omega

theorem takeSibling_inv {peak sibPos : Nat} {q : List Entry} {proof : List Digest}
    {s : Digest} {q1 : List Entry} {p1 : List Digest}
    (h : takeSibling sibPos q proof = some (s, q1, p1)) (hq : QInv peak q) : QInv peak q1 := by
  rcases takeSibling_cases h with ⟨e0, rfl, _⟩ | rfl
  · exact fun e he => hq e (List.mem_cons_of_mem _ he)
  · exact hq

/-- one turn: no underflow of `pos - sibling_offset`, and the next queue keeps the invariant -/
theorem peakStep_inv {peak : Nat} {e : Entry} {q : List Entry} {proof : List Digest}
    (hpk : peak + 2 ≤ T 63) (hinv : QInv peak (e :: q)) :
    (∀ x, peakStep peak e q proof = .inl x → Only12 x) ∧
    ∀ q' proof', peakStep peak e q proof = .inr (q', proof') → QInv peak q' := by
  obtain ⟨hh, hle⟩ := hinv e (List.mem_cons_self ..)
  have hqt : QInv peak q := fun x hx => hinv x (List.mem_cons_of_mem _ hx)
  unfold peakStep
  split
  · split <;> exact ⟨fun x hx p hp => by
      simp only [Sum.inl.injEq] at hx; subst hx; simp at hp, fun _ _ h => by simp at h⟩
  · rename_i hne
    have hlt : e.1 < peak := by omega
    have hx1 : 1 ≤ e.1 + 1 := by omega
    have hx2 : e.1 + 1 < T 63 := by omega
    have hph : posHeight (e.1 + 1) = hgt (e.1 + 1 + 1) := posHeight_eq (e.1 + 1) (by omega)
    split
    · -- the underflow branch is unreachable
      rename_i hc
      exfalso
      obtain ⟨hr, hu⟩ := hc
      unfold isRight at hr
      rw [hph, hh] at hr
      have := (step_right 63 (e.1 + 1) hx1 hx2 hr).2
      rw [siblingOffset_eq, hh] at hu
      omega
    · split
      · exact ⟨fun x hx p hp => by
          simp only [Sum.inl.injEq] at hx; subst hx; simp at hp, fun _ _ h => by simp at h⟩
      · rename_i s q1 proof1 hsib
        have hq1 := takeSibling_inv hsib hqt
        split
        · rename_i f hm
          refine ⟨?_, fun _ _ h => by simp at h⟩
          -- an error of `merge` is 901 / 902 or a library error
          intro x hx p hp
          simp only [Sum.inl.injEq] at hx
          subst hx
          simp only [Except.error.injEq] at hp
          subst hp
          unfold mergeUp at hm
          split at hm
          · exact merge_only12 _ _ p hm
          · exact merge_only12 _ _ p hm
        · rename_i parent hm
          split
          · rename_i hpp
            refine ⟨fun x hx => by simp at hx, fun q' proof' h => ?_⟩
            simp only [Sum.inr.injEq, Prod.mk.injEq] at h
            obtain ⟨h1, _⟩ := h
            subst h1
            intro x hx
            simp only [List.mem_append, List.mem_singleton] at hx
            rcases hx with hx | rfl
            · exact hq1 x hx
            · refine ⟨?_, hpp⟩
              simp only
              unfold mergeUp
              split
              · rename_i hr
                unfold isRight at hr
                rw [hph, hh] at hr
                simp only
                rw [hh]
                exact (step_right 63 (e.1 + 1) hx1 hx2 hr).1.symm
              · rename_i hr
                unfold isRight at hr
                rw [hph, hh] at hr
                simp only
                rw [parentOffset_eq, hh]
                have := step_left 63 (e.1 + 1) hx1 hx2 hr
                rw [show e.1 + 2 ^ (hgt (e.1 + 1) + 1) + 1 = e.1 + 1 + 2 ^ (hgt (e.1 + 1) + 1) by omega]
                exact this.symm
          · exact ⟨fun x hx p hp => by
              simp only [Sum.inl.injEq] at hx; subst hx; simp at hp, fun _ _ h => by simp at h⟩

/-- `calculate_peak_root` never underflows `pos - sibling_offset`: its only aborts are those of
`merge` -/
theorem calculatePeakRoot_only12 (peak : Nat) (q : List Entry) (proof : List Digest)
    (hpk : peak + 2 ≤ T 63) (hinv : QInv peak q) :
    Only12 (calculatePeakRoot peak q proof) := by
  induction q, proof using calculatePeakRoot.induct peak with
  | case1 proof => rw [calculatePeakRoot]; intro p hp; simp at hp
  | case2 proof e q0 r0 hstep =>
    rw [calculatePeakRoot]
    split
    · intro p hp; simp at hp
    · rename_i f heq; rw [hstep] at heq; simp at heq
    · rename_i heq; rw [hstep] at heq; simp at heq
  | case3 proof e q0 f hstep =>
    rw [calculatePeakRoot]
    have := (peakStep_inv (proof := proof) hpk hinv).1 _ hstep
    split
    · intro p hp; simp at hp
    · rename_i f' heq
      rw [hstep] at heq
      simp only [Sum.inl.injEq, Except.error.injEq] at heq
      subst heq
      intro p hp
      simp only [Except.error.injEq] at hp
      subst hp
      exact this p rfl
    · rename_i heq; rw [hstep] at heq; simp at heq
  | case4 proof e q0 q' proof1 hstep ih =>
    rw [calculatePeakRoot]
    have hq' := (peakStep_inv (proof := proof) hpk hinv).2 _ _ hstep
    split
    · intro p hp; simp at hp
    · rename_i f' heq; rw [hstep] at heq; simp at heq
    · rename_i q2 p2 heq
      rw [hstep] at heq
      simp only [Sum.inr.injEq, Prod.mk.injEq] at heq
      obtain ⟨e1, e2⟩ := heq
      subst e1 e2
      exact ih hq'

/-! ## the peaks lie inside the MMR -/

theorem leftPeakLoop_lt (size : Nat) : ∀ (fuel height prev : Nat), prev < size →
    (leftPeakLoop fuel height prev size).2 < size
  | 0, _, _, h => by simpa [leftPeakLoop] using h
  | fuel + 1, height, prev, h => by
    unfold leftPeakLoop
    simp only
    split
    · rename_i hlt; exact leftPeakLoop_lt size fuel _ _ hlt
    · exact h

theorem rightPeakLoop_lt (size : Nat) (hs : 1 ≤ size) : ∀ (fuel height pos : Nat) (r : Nat × Nat),
    rightPeakLoop fuel height pos size = some r → r.2 < size
  | 0, _, _, _, h => by simp [rightPeakLoop] at h
  | fuel + 1, height, pos, r, h => by
    unfold rightPeakLoop at h
    split at h
    · split at h
      · simp at h
      · exact rightPeakLoop_lt size hs fuel _ _ r h
    · rename_i hle
      simp only [Option.some.injEq] at h
      subst h
      simp only
      omega

theorem peaksLoop_lt (size : Nat) (hs : 1 ≤ size) : ∀ (fuel height pos : Nat),
    ∀ p ∈ peaksLoop fuel height pos size, p < size
  | 0, _, _, p, hp => by simp [peaksLoop] at hp
  | fuel + 1, height, pos, p, hp => by
    unfold peaksLoop at hp
    split at hp
    · split at hp
      · rename_i h1 p1 hr
        simp only [List.mem_cons] at hp
        rcases hp with rfl | hp
        · exact rightPeakLoop_lt size hs _ _ _ _ hr
        · exact peaksLoop_lt size hs fuel _ _ p hp
      · simp at hp
    · simp at hp

theorem getPeaks_lt (size : Nat) (hs : 1 ≤ size) : ∀ p ∈ getPeaks size, p < size := by
  intro p hp
  unfold getPeaks at hp
  have hl := leftPeakLoop_lt size 64 1 0 (by omega)
  simp only at hp
  generalize hlp : leftPeak size = lp at hp
  obtain ⟨h, q⟩ := lp
  simp only [List.mem_cons] at hp
  unfold leftPeak at hlp
  rw [hlp] at hl
  rcases hp with rfl | hp
  · exact hl
  · exact peaksLoop_lt size hs _ _ _ p hp

/-! ## the loop over the peaks -/

theorem takeWhile_holds {α} (p : α → Bool) : ∀ (l : List α) (x : α), x ∈ l.takeWhile p → p x = true
  | [], _, h => by simp at h
  | a :: t, x, h => by
    by_cases hp : p a = true
    · simp only [List.takeWhile, hp, List.mem_cons] at h
      rcases h with rfl | h
      · exact hp
      · exact takeWhile_holds p t x h
    · simp [List.takeWhile, hp] at h

/-- the leaves handed to the loop: height 0 positions inside the MMR -/
def LeavesOk (bound : Nat) (leaves : List (Nat × Digest)) : Prop :=
  ∀ l ∈ leaves, hgt (l.1 + 1) = 0 ∧ l.1 < bound

theorem peaksLoopHashes_only12 (bound : Nat) (hb : bound + 2 ≤ T 63) :
    ∀ (peaks : List Nat) (leaves : List (Nat × Digest)) (proof acc : List Digest),
    (∀ p ∈ peaks, p < bound) → LeavesOk bound leaves →
    Only12 (peaksLoopHashes peaks leaves proof acc)
  | [], _, _, _, _, _ => by intro p hp; simp [peaksLoopHashes] at hp
  | peak :: peaks, leaves, proof, acc, hpk, hl => by
    have hdrop : LeavesOk bound (leaves.dropWhile (fun l => decide (l.1 ≤ peak))) :=
      fun l h => hl l (mem_dropWhile_mem _ _ l h)
    have htake : ∀ l ∈ leaves.takeWhile (fun l => decide (l.1 ≤ peak)),
        hgt (l.1 + 1) = 0 ∧ l.1 ≤ peak := by
      intro l h
      have h1 := hl l (mem_takeWhile_mem _ _ l h)
      have h2 : decide (l.1 ≤ peak) = true := takeWhile_holds _ _ l h
      exact ⟨h1.1, by simpa using h2⟩
    have hpeak : peak + 2 ≤ T 63 := by have := hpk peak (by simp); omega
    have hrest := fun pr ac => peaksLoopHashes_only12 bound hb peaks
      (leaves.dropWhile (fun l => decide (l.1 ≤ peak))) pr ac
      (fun p hp => hpk p (List.mem_cons_of_mem _ hp)) hdrop
    unfold peaksLoopHashes
    simp only
    split
    · split
      · exact hrest _ _
      · intro p hp; simp at hp
    · rename_i p item hmine
      rw [hmine] at htake
      split
      · exact hrest _ _
      · have hq : QInv peak [(p, item, 0)] := by
          intro e he
          simp only [List.mem_singleton] at he
          subst he
          have := htake (p, item) (by simp)
          exact ⟨this.1.symm, this.2⟩
        have := calculatePeakRoot_only12 peak [(p, item, 0)] proof hpeak hq
        split
        · exact hrest _ _
        · rename_i f hc
          rw [hc] at this
          intro p hp
          simp only [Except.error.injEq] at hp
          subst hp
          exact this p rfl
    · have hq : QInv peak ((leaves.takeWhile fun l => decide (l.1 ≤ peak)).map
          (fun l => ((l.1, l.2, 0) : Entry))) := by
        intro e he
        obtain ⟨l, hl', rfl⟩ := List.mem_map.1 he
        have := htake l hl'
        exact ⟨this.1.symm, this.2⟩
      have := calculatePeakRoot_only12 peak _ proof hpeak hq
      split
      · exact hrest _ _
      · rename_i f hc
        rw [hc] at this
        intro p hp
        simp only [Except.error.injEq] at hp
        subst hp
        exact this p rfl

/-! ## `calculate_root`, `verify`, the wrapper -/

theorem bagAcc_only12 (right : Digest) (rest : List Digest) : Only12 (bagAcc right rest) := by
  induction rest generalizing right with
  | nil => intro p hp; simp [bagAcc] at hp
  | cons left rest ih =>
    unfold bagAcc mergePeaks
    split
    · exact ih _
    · rename_i f hm
      intro p hp
      simp only [Except.error.injEq] at hp
      subst hp
      exact merge_only12 _ _ p hm

theorem baggingPeaksHashes_only12 (l : List Digest) : Only12 (baggingPeaksHashes l) := by
  unfold baggingPeaksHashes
  cases l.reverse with
  | nil => intro p hp; simp [baggingRev] at hp
  | cons a t => simp only [baggingRev]; exact bagAcc_only12 a t

theorem go_only12 (size : Nat) (hs1 : 1 ≤ size) (hs2 : size + 2 ≤ T 63) (proof : List Digest)
    (sorted : List (Nat × Digest)) (hl : LeavesOk size sorted) :
    Only12 (calculatePeaksHashes.go size proof sorted) := by
  have := peaksLoopHashes_only12 size hs2 (getPeaks size) sorted proof [] (getPeaks_lt size hs1) hl
  unfold calculatePeaksHashes.go
  split
  · rename_i f hc
    rw [hc] at this
    intro p hp
    simp only [Except.error.injEq] at hp
    subst hp
    exact this p rfl
  · split
    · intro p hp; simp at hp
    · split <;> (intro p hp; simp at hp)

theorem calculateRoot_only12 (leaves : List (Nat × Digest)) (size : Nat) (proof : List Digest)
    (hs1 : 1 ≤ size) (hs2 : size + 2 ≤ T 63) (hl : ∀ l ∈ leaves, l.1 < size) :
    Only12 (calculateRoot leaves size proof) := by
  unfold calculateRoot
  have key : Only12 (calculatePeaksHashes leaves size proof) := by
    unfold calculatePeaksHashes
    split
    · intro p hp; simp at hp
    · rename_i hany
      have hh : ∀ l ∈ leaves, hgt (l.1 + 1) = 0 := by
        intro l hl'
        have hb := hl l hl'
        have : ¬ posHeight l.1 > 0 := by
          intro hc
          apply hany
          simp only [List.any_eq_true, decide_eq_true_eq]
          exact ⟨l, hl', hc⟩
        rw [posHeight_eq l.1 (by omega)] at this
        omega
      have hok : LeavesOk size (dedupByPos (sortByPos leaves)) := by
        intro l hl'
        have hm := (mem_sortByPos _ _).1 (dedupByPos_sub _ l hl')
        exact ⟨hh l hm, hl l hm⟩
      split
      · split
        · intro p hp; simp at hp
        · exact go_only12 size hs1 hs2 proof _ hok
      · exact go_only12 size hs1 hs2 proof _ hok
  split
  · exact baggingPeaksHashes_only12 _
  · rename_i f hc
    rw [hc] at key
    intro p hp
    simp only [Except.error.injEq] at hp
    subst hp
    exact key p rfl

/-- the position of a block lies inside the MMR that ends at a later block -/
theorem leafIndexToPos_lt_size {i n : Nat} (hin : i ≤ n) (hn : n + 2 < 2 ^ 64) :
    leafIndexToPos i < leafIndexToMmrSize n ∧ 1 ≤ leafIndexToMmrSize n ∧
    leafIndexToMmrSize n ≤ 2 * (n + 1) := by
  have e1 := posSpec_eq n hn
  have hi : leafIndexToPos i = posSpec i := leafIndexToPos_eq i (by omega)
  have hle : posSpec i ≤ posSpec n := by
    rcases Nat.lt_or_ge i n with h | h
    · exact Nat.le_of_lt (posSpec_lt h)
    · have : i = n := by omega
      subst this; exact Nat.le_refl _
  unfold leafIndexToMmrSize
  simp only
  rw [hi]
  omega

/-- **`verify_mmr_proof` returns for every input**: none of the aborts of the MMR library
(`numext` addition of the difficulties, `end_number + 1`, `pos - sibling_offset`) is reachable
through the wrapper of the repository, whatever last header, proof items and headers the peer
sends (positions and sizes stay below 2^63 by the wrapper's bound on the root's end number; their
`u64` arithmetic is modelled on naturals). -/
theorem verifyMmrProof_no_abort (valid : Bool) (lastNumber : Nat) (root : Digest)
    (proof : List Digest) (headers : List Hdr) :
    ∃ b, verifyMmrProof valid lastNumber root proof headers = .ok b := by
  have h12 := verifyMmrProof_no_merge_abort valid lastNumber root proof headers
  -- it suffices to exclude every abort
  suffices hs : ∀ p, verifyMmrProof valid lastNumber root proof headers ≠ .error (.panic p) by
    cases hr : verifyMmrProof valid lastNumber root proof headers with
    | ok b => exact ⟨b, rfl⟩
    | error f =>
      cases f with
      | panic p => exact absurd hr (hs p)
      | err k =>
        -- the wrapper turns library errors into `false`
        exfalso
        unfold verifyMmrProof verifyMmrProofCfg at hr
        split at hr; · simp at hr
        split at hr; · simp at hr
        split at hr; · simp at hr
        split at hr; · simp at hr
        split at hr; · simp at hr
        simp only at hr
        split at hr; · simp at hr
        split at hr <;> simp at hr
  intro p hp
  have hsite : p = .overflow 901 ∨ p = .overflow 902 := by
    unfold verifyMmrProof verifyMmrProofCfg at hp
    split at hp; · simp at hp
    split at hp; · simp at hp
    rename_i hguard
    split at hp; · simp at hp
    split at hp; · simp at hp
    rename_i hrange
    split at hp; · simp at hp
    simp only at hp
    split at hp; · simp at hp
    have hmax : root.eN ≤ MAX_PROVABLE := by
      simp only [not_or, Nat.not_lt] at hguard; omega
    have hmp : MAX_PROVABLE + 2 < 2 ^ 64 := by decide
    have hm4 : 2 * (MAX_PROVABLE + 1) + 2 ≤ T 63 := by decide
    obtain ⟨_, hsz1, hsz2⟩ := leafIndexToPos_lt_size (Nat.le_refl root.eN) (by omega)
    have hl : ∀ l ∈ headers.map (fun h => (leafIndexToPos h.number, h.digest)),
        l.1 < leafIndexToMmrSize root.eN := by
      intro l hl'
      obtain ⟨h0, hm, rfl⟩ := List.mem_map.1 hl'
      simp only [List.any_eq_true, decide_eq_true_eq, not_exists, not_and, Nat.not_lt] at hrange
      exact (leafIndexToPos_lt_size (hrange h0 hm) (by omega)).1
    have hroot := calculateRoot_only12 (headers.map fun h => (leafIndexToPos h.number, h.digest))
      (leafIndexToMmrSize root.eN) proof hsz1 (by omega) hl
    unfold verify at hp
    split at hp
    · simp at hp
    · simp at hp
    · rename_i p' hv
      simp only [Except.error.injEq, Fail.panic.injEq] at hp
      subst hp
      split at hv
      · simp at hv
      · rename_i f hc
        simp only [Except.error.injEq] at hv
        subst hv
        exact hroot p' hc
  rcases hsite with rfl | rfl
  · exact h12.1 hp
  · exact h12.2 hp

end Mmr

import LcModel.Prelude
/-!
# Mmr — the MMR inclusion proof behind every "proved" header

Mirrors, function by function,

* `ckb-merkle-mountain-range 0.5.2`: `helper::{leaf_index_to_pos, leaf_index_to_mmr_size,
  pos_height_in_tree, parent_offset, sibling_offset, get_peaks}`, `mmr::{calculate_peak_root,
  calculate_peaks_hashes, bagging_peaks_hashes, calculate_root, MerkleProof::verify,
  take_while_vec}`;
* `ckb-types 0.113`: `MergeHeaderDigest::{merge, merge_peaks}`, `HeaderView::digest`,
  `HeaderDigest::verify`, `calc_mmr_hash`;
* `/repo/src/protocols/light_client/components/send_last_state_proof.rs`: `verify_mmr_proof`
  (the wrapper every proof handler calls).

blake2b is a free term algebra (`H`): equality of hashes is equality of what was hashed.  The
machine arithmetic of the Rust code is kept (`R = Except Fail`: `panic` where Rust aborts, `err`
where the library returns an `Err`).  Core Lean only: linked into `lcmodel`.
-/
namespace Mmr

/-- 32-byte hashes: an opaque value (`atom`, e.g. a header hash, or bytes a peer made up),
`calc_mmr_hash` of a digest (`dig`), blake2b of two hashes (`pair`) -/
inductive H where
  | atom (id : Nat)
  | dig (c : H) (f : List Nat)
  | pair (l r : H)
  deriving DecidableEq, Repr, Inhabited

/-- `packed::HeaderDigest` -/
structure Digest where
  ch : H
  td : Nat
  sN : Nat
  eN : Nat
  sE : Nat
  eE : Nat
  sT : Nat
  eT : Nat
  sC : Nat
  eC : Nat
  deriving DecidableEq, Repr, Inhabited

/-- `calc_mmr_hash`: blake2b over the whole molecule struct -/
def mmrHash (d : Digest) : H := .dig d.ch [d.td, d.sN, d.eN, d.sE, d.eE, d.sT, d.eT, d.sC, d.eC]

inductive Fail where
  | panic (p : Panic)
  | err (site : Nat)
  deriving Repr, DecidableEq

abbrev R := Except Fail

@[simp] theorem R.bind_eq_ok {α β} (x : R α) (f : α → R β) (b : β) :
    (x >>= f) = .ok b ↔ ∃ a, x = .ok a ∧ f a = .ok b := by
  cases x <;> simp [bind, Except.bind]

@[simp] theorem R.pure_eq_ok {α} (a b : α) : (pure a : R α) = .ok b ↔ a = b := by
  simp [pure, Except.pure]

def epNumber (e : Nat) : Nat := e % 2 ^ 24
def epIndex (e : Nat) : Nat := (e / 2 ^ 24) % 2 ^ 16
def epLength (e : Nat) : Nat := (e / 2 ^ 40) % 2 ^ 16

/-- `EpochNumberWithFraction::is_successor_of` on the raw 64-bit values -/
def epochSucc (self pred : Nat) : Bool :=
  if epIndex pred + 1 = epLength pred then
    epNumber self = epNumber pred + 1 && epIndex self = 0
  else
    epNumber self = epNumber pred && epIndex self = epIndex pred + 1
      && epLength self = epLength pred

def epIsGenesis (e : Nat) : Bool := epNumber e = 0 && epIndex e = 0 && epLength e = 0

/-- `MergeHeaderDigest::merge`: the sum of the difficulties is a `numext` `+` (aborts on
overflow), `lhs_end_number + 1` a checked `u64` addition, both evaluated before the checks -/
def merge (l r : Digest) : R Digest :=
  if l.td + r.td > U256_MAX then .error (.panic (.overflow 901))
  else if l.eN + 1 > U64_MAX then .error (.panic (.overflow 902))
  else if l.eN + 1 ≠ r.sN then .error (.err 1)
  else if !epochSucc r.sE l.eE && !epIsGenesis l.eE then .error (.err 2)
  else .ok { ch := .pair (mmrHash l) (mmrHash r), td := l.td + r.td,
             sN := l.sN, sE := l.sE, sT := l.sT, sC := l.sC,
             eN := r.eN, eE := r.eE, eT := r.eT, eC := r.eC }

/-- `merge_peaks(lhs, rhs) = merge(rhs, lhs)` -/
def mergePeaks (l r : Digest) : R Digest := merge r l

/-! ## position arithmetic (`helper.rs`); all on `u64` values below 2^63, see `verifyMmrProof` -/

def popcount : Nat → Nat → Nat
  | 0, _ => 0
  | fuel + 1, n => if n = 0 then 0 else n % 2 + popcount fuel (n / 2)

def trailingZeros : Nat → Nat → Nat
  | 0, _ => 0
  | fuel + 1, n => if n % 2 = 1 then 0 else 1 + trailingZeros fuel (n / 2)

/-- `leaf_index_to_mmr_size` -/
def leafIndexToMmrSize (index : Nat) : Nat :=
  let leaves := index + 1
  2 * leaves - popcount 64 leaves

/-- `leaf_index_to_pos` -/
def leafIndexToPos (index : Nat) : Nat :=
  leafIndexToMmrSize index - trailingZeros 64 (index + 1) - 1

/-- `all_ones(num)`: non-zero and of the form 2^k - 1 -/
def allOnes (n : Nat) : Bool := n ≠ 0 && n + 1 == 2 ^ (Nat.log2 n + 1)

/-- the loop of `pos_height_in_tree` on `pos + 1` -/
def posHeightLoop : Nat → Nat → Nat
  | 0, x => Nat.log2 x
  | fuel + 1, x => if allOnes x || x = 0 then Nat.log2 x
                   else posHeightLoop fuel (x - (2 ^ Nat.log2 x - 1))

/-- `pos_height_in_tree` -/
def posHeight (pos : Nat) : Nat := posHeightLoop 64 (pos + 1)

def parentOffset (h : Nat) : Nat := 2 * 2 ^ h
def siblingOffset (h : Nat) : Nat := 2 * 2 ^ h - 1

/-- `left_peak_height_pos`, the loop counter is `height` -/
def leftPeakLoop : Nat → Nat → Nat → Nat → Nat × Nat
  | 0, height, prev, _ => (height - 1, prev)
  | fuel + 1, height, prev, size =>
    let pos := 2 ^ (height + 1) - 2
    if pos < size then leftPeakLoop fuel (height + 1) pos size else (height - 1, prev)

def leftPeak (size : Nat) : Nat × Nat := leftPeakLoop 64 1 0 size

/-- `get_right_peak` -/
def rightPeakLoop : Nat → Nat → Nat → Nat → Option (Nat × Nat)
  | 0, _, _, _ => none
  | fuel + 1, height, pos, size =>
    if pos > size - 1 then
      if height = 0 then none
      else rightPeakLoop fuel (height - 1) (pos - parentOffset (height - 1)) size
    else some (height, pos)

def rightPeak (height pos size : Nat) : Option (Nat × Nat) :=
  rightPeakLoop 65 height (pos + siblingOffset height) size

def peaksLoop : Nat → Nat → Nat → Nat → List Nat
  | 0, _, _, _ => []
  | fuel + 1, height, pos, size =>
    if height > 0 then
      match rightPeak height pos size with
      | some (h, p) => p :: peaksLoop fuel h p size
      | none => []
    else []

/-- `get_peaks` -/
def getPeaks (size : Nat) : List Nat :=
  let (h, p) := leftPeak size
  p :: peaksLoop 64 h p size

/-! ## `calculate_peak_root` -/

/-- queue entry: position, item, height -/
abbrev Entry := Nat × Digest × Nat

def qMeasure (peak : Nat) (q : List Entry) : Nat := (q.map (fun e => peak + 1 - e.1)).sum

theorem qMeasure_cons (peak : Nat) (e : Entry) (q : List Entry) :
    qMeasure peak (e :: q) = (peak + 1 - e.1) + qMeasure peak q := by
  simp [qMeasure]

theorem qMeasure_append (peak : Nat) (q : List Entry) (e : Entry) :
    qMeasure peak (q ++ [e]) = qMeasure peak q + (peak + 1 - e.1) := by
  simp [qMeasure]

theorem parentOffset_pos (h : Nat) : 0 < parentOffset h := by
  unfold parentOffset; have := Nat.two_pow_pos h; omega

/-- the sibling of the popped entry: the front of the queue if it has the sibling's position,
else the next proof item -/
def takeSibling (sibPos : Nat) (q : List Entry) (proof : List Digest) :
    Option (Digest × List Entry × List Digest) :=
  match q, proof with
  | (p', it', h') :: q', s :: proof' =>
    if sibPos = p' then some (it', q', s :: proof') else some (s, (p', it', h') :: q', proof')
  | (p', it', _) :: q', [] => if sibPos = p' then some (it', q', []) else none
  | [], s :: proof' => some (s, [], proof')
  | [], [] => none

theorem takeSibling_measure (peak sibPos : Nat) (q : List Entry) (proof : List Digest)
    (s : Digest) (q1 : List Entry) (p1 : List Digest)
    (h : takeSibling sibPos q proof = some (s, q1, p1)) :
    qMeasure peak q1 ≤ qMeasure peak q := by
  unfold takeSibling at h
  split at h
  · split at h
    · simp only [Option.some.injEq, Prod.mk.injEq] at h
      obtain ⟨_, h2, _⟩ := h; subst h2; rw [qMeasure_cons]; omega
    · simp only [Option.some.injEq, Prod.mk.injEq] at h
      obtain ⟨_, h2, _⟩ := h; subst h2; exact Nat.le_refl _
  · split at h
    · simp only [Option.some.injEq, Prod.mk.injEq] at h
      obtain ⟨_, h2, _⟩ := h; subst h2; rw [qMeasure_cons]; omega
    · simp at h
  · simp only [Option.some.injEq, Prod.mk.injEq] at h
    obtain ⟨_, h2, _⟩ := h; subst h2; exact Nat.le_refl _
  · simp at h

/-- `next_height > height`: the entry is a right sibling -/
def isRight (pos height : Nat) : Prop := posHeight (pos + 1) > height
instance (pos height : Nat) : Decidable (isRight pos height) := by unfold isRight; infer_instance

def sibPosOf (pos height : Nat) : Nat :=
  if isRight pos height then pos - siblingOffset height else pos + siblingOffset height

/-- the merge of one turn: position of the parent and the parent item -/
def mergeUp (pos : Nat) (item : Digest) (height : Nat) (s : Digest) : Nat × R Digest :=
  if isRight pos height then (pos + 1, merge s item)
  else (pos + parentOffset height, merge item s)

theorem mergeUp_pos (pos : Nat) (item : Digest) (height : Nat) (s : Digest) :
    pos < (mergeUp pos item height s).1 := by
  unfold mergeUp
  have := parentOffset_pos height
  split <;> simp <;> omega

/-- one turn of the `while let Some(..) = queue.pop_front()` loop: `inl` = the function returns,
`inr` = next queue and rest of the proof -/
def peakStep (peak : Nat) (e : Entry) (q : List Entry) (proof : List Digest) :
    R Digest ⊕ (List Entry × List Digest) :=
  if e.1 = peak then
    if q.isEmpty then .inl (.ok e.2.1) else .inl (.error (.err 3))
  else
    if isRight e.1 e.2.2 ∧ e.1 < siblingOffset e.2.2 then .inl (.error (.panic (.overflow 903)))
    else
      match takeSibling (sibPosOf e.1 e.2.2) q proof with
      | none => .inl (.error (.err 4))
      | some (s, q', proof') =>
        match (mergeUp e.1 e.2.1 e.2.2 s).2 with
        | .error f => .inl (.error f)
        | .ok parent =>
          if (mergeUp e.1 e.2.1 e.2.2 s).1 ≤ peak then
            .inr (q' ++ [((mergeUp e.1 e.2.1 e.2.2 s).1, parent, e.2.2 + 1)], proof')
          else .inl (.error (.err 5))

theorem peakStep_decreases (peak : Nat) (e : Entry) (q : List Entry) (proof : List Digest)
    (q' : List Entry) (proof' : List Digest)
    (h : peakStep peak e q proof = .inr (q', proof')) :
    qMeasure peak q' < qMeasure peak (e :: q) := by
  unfold peakStep at h
  split at h
  · split at h <;> exact absurd h (by simp)
  · rename_i hne
    split at h
    · exact absurd h (by simp)
    · split at h
      · exact absurd h (by simp)
      · rename_i s q1 proof1 hsib
        split at h
        · exact absurd h (by simp)
        · split at h
          · rename_i hle
            simp only [Sum.inr.injEq, Prod.mk.injEq] at h
            obtain ⟨hq, _⟩ := h
            subst hq
            rw [qMeasure_append, qMeasure_cons]
            have h1 := takeSibling_measure peak _ q proof s q1 proof1 hsib
            have h2 := mergeUp_pos e.1 e.2.1 e.2.2 s
            simp only
            omega
          · exact absurd h (by simp)

/-- `calculate_peak_root` (the `debug_assert!` is off in release builds: an empty queue falls
through to `Err(CorruptedProof)`) -/
def calculatePeakRoot (peak : Nat) (q : List Entry) (proof : List Digest) :
    R (Digest × List Digest) :=
  match q with
  | [] => .error (.err 6)
  | e :: q0 =>
    match h : peakStep peak e q0 proof with
    | .inl (.ok r) => .ok (r, proof)
    | .inl (.error f) => .error f
    | .inr (q', proof') => calculatePeakRoot peak q' proof'
termination_by qMeasure peak q
decreasing_by exact peakStep_decreases peak e q0 proof q' proof' h

/-! ## `calculate_peaks_hashes`, bagging, `calculate_root` -/

/-- insertion into a list sorted by position, after the entries with the same position
(`sort_by_key` is stable) -/
def insertByPos (x : Nat × Digest) : List (Nat × Digest) → List (Nat × Digest)
  | [] => [x]
  | y :: ys => if x.1 < y.1 then x :: y :: ys else y :: insertByPos x ys

def sortByPos (l : List (Nat × Digest)) : List (Nat × Digest) :=
  l.foldl (fun acc x => insertByPos x acc) []

/-- `dedup_by(|a, b| a.0 == b.0)`: of consecutive entries with one position the FIRST stays -/
def dedupAux (last : Nat) : List (Nat × Digest) → List (Nat × Digest)
  | [] => []
  | y :: ys => if y.1 = last then dedupAux last ys else y :: dedupAux y.1 ys

def dedupByPos : List (Nat × Digest) → List (Nat × Digest)
  | [] => []
  | x :: xs => x :: dedupAux x.1 xs

/-- the loop over the peaks; `acc` = `peaks_hashes` so far.  Returns the hashes, the leaves and
the proof items that are left -/
def peaksLoopHashes : List Nat → List (Nat × Digest) → List Digest → List Digest →
    R (List Digest × List (Nat × Digest) × List Digest)
  | [], leaves, proof, acc => .ok (acc, leaves, proof)
  | peak :: peaks, leaves, proof, acc =>
    let mine := leaves.takeWhile (fun l => l.1 ≤ peak)
    let rest := leaves.dropWhile (fun l => l.1 ≤ peak)
    match mine with
    | [] =>
      (match proof with
       | r :: proof' => peaksLoopHashes peaks rest proof' (acc ++ [r])
       | [] => .ok (acc, rest, []))
    | [(p, item)] =>
      if p = peak then peaksLoopHashes peaks rest proof (acc ++ [item])
      else
        (match calculatePeakRoot peak [(p, item, 0)] proof with
         | .ok (r, proof') => peaksLoopHashes peaks rest proof' (acc ++ [r])
         | .error f => .error f)
    | _ =>
      (match calculatePeakRoot peak (mine.map fun l => (l.1, l.2, 0)) proof with
       | .ok (r, proof') => peaksLoopHashes peaks rest proof' (acc ++ [r])
       | .error f => .error f)

/-- `calculate_peaks_hashes` -/
def calculatePeaksHashes (leaves : List (Nat × Digest)) (size : Nat) (proof : List Digest) :
    R (List Digest) :=
  if leaves.any (fun l => posHeight l.1 > 0) then .error (.err 7)
  else
    match leaves with
    | [(0, item)] => if size = 1 then .ok [item] else
        go (dedupByPos (sortByPos leaves))
    | _ => go (dedupByPos (sortByPos leaves))
where
  go (sorted : List (Nat × Digest)) : R (List Digest) :=
    match peaksLoopHashes (getPeaks size) sorted proof [] with
    | .error f => .error f
    | .ok (acc, leavesLeft, proofLeft) =>
      if !leavesLeft.isEmpty then .error (.err 8)
      else
        match proofLeft with
        | [] => .ok acc
        | [r] => .ok (acc ++ [r])
        | _ => .error (.err 9)

/-- `bagging_peaks_hashes`: from the right, `merge_peaks(right, left)`; the list is kept
reversed -/
def bagAcc (right : Digest) : List Digest → R Digest
  | [] => .ok right
  | left :: rest =>
    match mergePeaks right left with
    | .ok m => bagAcc m rest
    | .error f => .error f

def baggingRev : List Digest → R Digest
  | [] => .error (.err 10)
  | right :: rest => bagAcc right rest

def baggingPeaksHashes (l : List Digest) : R Digest := baggingRev l.reverse

/-- `calculate_root` -/
def calculateRoot (leaves : List (Nat × Digest)) (size : Nat) (proof : List Digest) : R Digest :=
  match calculatePeaksHashes leaves size proof with
  | .ok hs => baggingPeaksHashes hs
  | .error f => .error f

/-- `MerkleProof::verify` -/
def verify (root : Digest) (leaves : List (Nat × Digest)) (size : Nat) (proof : List Digest) :
    R Bool :=
  match calculateRoot leaves size proof with
  | .ok r => .ok (r == root)
  | .error f => .error f

/-! ## the wrapper of the repository -/

/-- what `verify_mmr_proof` reads of a header -/
structure Hdr where
  number : Nat
  hash : Nat              -- `header.hash()`: blake2b of the header, an atom of the term algebra
  difficulty : Nat        -- `compact_to_difficulty(compact_target)`
  epoch : Nat
  timestamp : Nat
  compact : Nat
  deriving Repr, DecidableEq

/-- `HeaderView::digest` -/
def Hdr.digest (h : Hdr) : Digest :=
  { ch := .atom h.hash, td := h.difficulty, sN := h.number, eN := h.number, sE := h.epoch, eE := h.epoch,
    sT := h.timestamp, eT := h.timestamp, sC := h.compact, eC := h.compact }

def MAX_PROVABLE : Nat := U64_MAX / 4

/-- the checked sum of the difficulties of the proof items (each `end_number` within the root) -/
def sumProof (rootEnd : Nat) : List Digest → Nat → Option Nat
  | [], acc => some acc
  | d :: ds, acc =>
    if acc + d.td ≤ U256_MAX ∧ d.eN ≤ rootEnd then sumProof rootEnd ds (acc + d.td) else none

def sumLeaves : List Digest → Nat → Option Nat
  | [], acc => some acc
  | d :: ds, acc => if acc + d.td ≤ U256_MAX then sumLeaves ds (acc + d.td) else none

/-- no two DIFFERENT headers claim one block number (the check added by the repair of
`verify_mmr_proof`: the library keeps one leaf per position and drops the others unverified) -/
def noTwins : List Hdr → Bool
  | [] => true
  | h :: t => t.all (fun x => x.number ≠ h.number || x.hash == h.hash) && noTwins t

/-- `verify_mmr_proof(mmr_activated_epoch, last_header, raw_proof, headers)`; `valid` is the
verdict of `patched_is_valid`, `lastNumber` the number of `last_header`, `root` its parent chain
root.  `ok true` = `Ok(())`, `ok false` = `Err(InvalidProof)`.  `twinCheck = false` is the code
before the repair. -/
def verifyMmrProofCfg (twinCheck : Bool) (valid : Bool) (lastNumber : Nat) (root : Digest)
    (proof : List Digest) (headers : List Hdr) : R Bool :=
  if !valid then .ok false
  else if lastNumber = 0 ∨ lastNumber - 1 ≠ root.eN ∨ root.eN > MAX_PROVABLE then .ok false
  else
    match sumProof root.eN proof 0 with
    | none => .ok false
    | some t =>
      if headers.any (fun h => h.number > root.eN) then .ok false
      else if twinCheck && !noTwins headers then .ok false
      else
        let leaves := headers.map fun h => (leafIndexToPos h.number, h.digest)
        match sumLeaves (leaves.map (·.2)) t with
        | none => .ok false
        | some _ =>
          match verify root leaves (leafIndexToMmrSize root.eN) proof with
          | .ok b => .ok b
          | .error (.err _) => .ok false
          | .error (.panic p) => .error (.panic p)

def verifyMmrProof := verifyMmrProofCfg true

end Mmr

/-! ## driver (`lcmodel mmr`) -/
namespace Mmr

/-- `children_hash` id ↦ the two digests it is the hash of (as sent: hashes are ids) -/
abbrev Table := List (Nat × (List Nat × List Nat))

def tableFind (t : Table) (k : Nat) : Option (List Nat × List Nat) :=
  match t with
  | [] => none
  | (k', v) :: r => if k = k' then some v else tableFind r k

/-- ids to terms: an id the table defines is the blake2b of two digests -/
def resolveH : Nat → Table → Nat → H
  | 0, _, id => .atom id
  | fuel + 1, t, id =>
    match tableFind t id with
    | some ([c1, a1, a2, a3, a4, a5, a6, a7, a8, a9], [c2, b1, b2, b3, b4, b5, b6, b7, b8, b9]) =>
      .pair (.dig (resolveH fuel t c1) [a1, a2, a3, a4, a5, a6, a7, a8, a9])
            (.dig (resolveH fuel t c2) [b1, b2, b3, b4, b5, b6, b7, b8, b9])
    | _ => .atom id

def digestOf (t : Table) : List Nat → Option Digest
  | [c, a1, a2, a3, a4, a5, a6, a7, a8, a9] =>
    some ⟨resolveH 80 t c, a1, a2, a3, a4, a5, a6, a7, a8, a9⟩
  | _ => none

def chunks10 : Nat → List Nat → List (List Nat)
  | 0, _ => []
  | n + 1, l => l.take 10 :: chunks10 n (l.drop 10)

def chunks6 : Nat → List Nat → List (List Nat)
  | 0, _ => []
  | n + 1, l => l.take 6 :: chunks6 n (l.drop 6)

def hdrOf (_t : Table) : List Nat → Option Hdr
  | [n, h, d, e, ts, c] => some ⟨n, h, d, e, ts, c⟩
  | _ => none

def showR : R Bool → String
  | .ok true => "ok"
  | .ok false => "invalid"
  | .error (.panic p) => showPanic p
  | .error (.err s) => s!"liberr {s}"

def stepLine (t : Table) (line : String) : Table × String :=
  match tokens line with
  | "def" :: rest =>
    (match natsOf rest with
     | some (id :: xs) =>
       if xs.length = 20 then ((id, (xs.take 10, xs.drop 10)) :: t, "ok") else (t, "bad-op")
     | _ => (t, "bad-op"))
  | "vrf" :: rest =>
    (match natsOf rest with
     | some (valid :: lastNumber :: np :: nh :: xs) =>
       if xs.length = 10 + 10 * np + 6 * nh then
         match digestOf t (xs.take 10),
               (chunks10 np ((xs.drop 10).take (10 * np))).mapM (digestOf t),
               (chunks6 nh (xs.drop (10 + 10 * np))).mapM (hdrOf t) with
         | some root, some proof, some hdrs =>
           (t, showR (verifyMmrProof (valid = 1) lastNumber root proof hdrs))
         | _, _, _ => (t, "bad-op")
       else (t, "bad-op")
     | _ => (t, "bad-op"))
  | "pos" :: rest =>
    (match natsOf rest with
     | some [i] => (t, s!"{leafIndexToPos i} {leafIndexToMmrSize i} {posHeight i} {getPeaks (leafIndexToMmrSize i)}")
     | _ => (t, "bad-op"))
  | _ => (t, "bad-op")

end Mmr

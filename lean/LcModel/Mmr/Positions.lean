import LcModel.Mmr.NoOverflow
/-!
# Mmr — the theory of positions: `pos_height_in_tree`, siblings and parents

`T k = 2^(k+1) - 1` nodes form a perfect tree of height `k` (1-based positions `1 .. T k`): the
left subtree `1 .. T (k-1)`, the right subtree shifted by `T (k-1)`, the root `T k`.
`pos_height_in_tree` (the jump-left loop of the library) computes the height of a position in that
layout (`hgt_root`, `hgt_jump`); from the layout:

* `step_right`: when the next position is higher, it is exactly one higher, and the node has a left
  sibling `2^(h+1) - 1` positions before it - so `pos - sibling_offset` never underflows (site 903);
* `step_left`: otherwise the parent `2^(h+1)` positions later has height `h + 1`.

With these the queue entries of `calculate_peak_root` always carry their true height, and
`verify_mmr_proof` reaches none of its aborts (`verifyMmrProof_no_abort`).
-/
namespace Mmr

/-- nodes of a perfect tree of height `k` -/
def T (k : Nat) : Nat := 2 ^ (k + 1) - 1

theorem T_pos (k : Nat) : 1 ≤ T k := by
  unfold T; have := Nat.two_pow_pos (k + 1); have : 2 ≤ 2 ^ (k + 1) := by
    calc 2 = 2 ^ 1 := rfl
    _ ≤ 2 ^ (k + 1) := Nat.pow_le_pow_right (by omega) (by omega)
  omega

theorem T_succ (k : Nat) : T (k + 1) = 2 * T k + 1 := by
  unfold T
  have : 2 ^ (k + 1 + 1) = 2 * 2 ^ (k + 1) := by rw [Nat.pow_succ]; omega
  have := Nat.two_pow_pos (k + 1)
  omega

theorem T_mono {a b : Nat} (h : a ≤ b) : T a ≤ T b := by
  unfold T
  have := Nat.pow_le_pow_right (n := 2) (by omega) (show a + 1 ≤ b + 1 by omega)
  omega

theorem log2_T (k : Nat) : Nat.log2 (T k) = k := by
  have hne : T k ≠ 0 := by have := T_pos k; omega
  have h1 : k ≤ Nat.log2 (T k) := (Nat.le_log2 hne).2 (by
    unfold T
    have : 2 ^ (k + 1) = 2 * 2 ^ k := by rw [Nat.pow_succ]; omega
    have := Nat.two_pow_pos k
    omega)
  have h2 : Nat.log2 (T k) < k + 1 := (Nat.log2_lt hne).2 (by
    unfold T; have := Nat.two_pow_pos (k + 1); omega)
  omega

theorem allOnes_T (k : Nat) : allOnes (T k) = true := by
  unfold allOnes
  rw [log2_T]
  have := T_pos k
  simp only [ne_eq, Bool.and_eq_true, decide_eq_true_eq, beq_iff_eq]
  refine ⟨by omega, ?_⟩
  unfold T; have := Nat.two_pow_pos (k + 1); omega

/-- between two roots: the position lies in the right subtree of the next tree -/
theorem log2_between {k x : Nat} (h1 : T k < x) (h2 : x < T (k + 1)) : Nat.log2 x = k + 1 := by
  have hne : x ≠ 0 := by omega
  unfold T at h1 h2
  have e1 : 2 ^ (k + 1 + 1) = 2 * 2 ^ (k + 1) := by rw [Nat.pow_succ]; omega
  have e2 : 2 ^ (k + 2) = 2 * 2 ^ (k + 1) := e1
  have hp := Nat.two_pow_pos (k + 1)
  have h3 : k + 1 ≤ Nat.log2 x := (Nat.le_log2 hne).2 (by omega)
  have h4 : Nat.log2 x < k + 2 := (Nat.log2_lt hne).2 (by omega)
  omega

theorem not_allOnes_between {k x : Nat} (h1 : T k < x) (h2 : x < T (k + 1)) :
    allOnes x = false := by
  unfold allOnes
  rw [log2_between h1 h2]
  unfold T at h2
  simp only [ne_eq, Bool.and_eq_false_iff, decide_eq_false_iff_not, Decidable.not_not,
    beq_eq_false_iff_ne]
  right
  omega

/-- the loop with enough fuel: the height of the 1-based position `x` -/
theorem loop_root (fuel k : Nat) : posHeightLoop (fuel + 1) (T k) = k := by
  unfold posHeightLoop
  rw [allOnes_T]
  simp [log2_T]

theorem loop_jump (fuel k x : Nat) (h1 : T k < x) (h2 : x < T (k + 1)) :
    posHeightLoop (fuel + 1) x = posHeightLoop fuel (x - T k) := by
  conv => lhs; unfold posHeightLoop
  rw [not_allOnes_between h1 h2]
  have hx : x ≠ 0 := by omega
  simp only [Bool.false_or, decide_eq_true_eq, hx, if_false]
  rw [log2_between h1 h2]
  rfl

/-- every position `1 ≤ x ≤ T k` needs at most `k + 1` turns: the fuel does not matter beyond -/
theorem loop_fuel : ∀ (k fuel x : Nat), 1 ≤ x → x ≤ T k → k + 1 ≤ fuel →
    posHeightLoop fuel x = posHeightLoop (k + 1) x ∧ posHeightLoop (k + 1) x ≤ k
  | 0, fuel, x, h1, h2, hf => by
    have hx : x = T 0 := by unfold T at h2 ⊢; omega
    subst hx
    obtain ⟨f, rfl⟩ : ∃ f, fuel = f + 1 := ⟨fuel - 1, by omega⟩
    rw [loop_root f 0, loop_root 0 0]
    exact ⟨rfl, Nat.le_refl _⟩
  | k + 1, fuel, x, h1, h2, hf => by
    obtain ⟨f, rfl⟩ : ∃ f, fuel = f + 1 := ⟨fuel - 1, by omega⟩
    rcases Nat.lt_or_ge x (T (k + 1)) with hlt | hge
    · rcases Nat.lt_or_ge (T k) x with hgt | hle
      · -- the right subtree: jump
        rw [loop_jump f k x hgt hlt, loop_jump (k + 1) k x hgt hlt]
        have hb : x - T k ≤ T k := by rw [T_succ] at hlt; omega
        have i1 := loop_fuel k f (x - T k) (by omega) hb (by omega)
        have i2 := loop_fuel k (k + 1) (x - T k) (by omega) hb (by omega)
        rw [i1.1, i2.1]
        exact ⟨rfl, by omega⟩
      · -- the left subtree
        have i1 := loop_fuel k (f + 1) x h1 hle (by omega)
        have i2 := loop_fuel k (k + 1 + 1) x h1 hle (by omega)
        rw [i1.1, i2.1]
        exact ⟨rfl, by omega⟩
    · have hx : x = T (k + 1) := by omega
      subst hx
      rw [loop_root f (k + 1), loop_root (k + 1) (k + 1)]
      exact ⟨rfl, Nat.le_refl _⟩

/-- the height of the 1-based position `x` (fuel-free) -/
def hgt (x : Nat) : Nat := posHeightLoop (x + 1) x

theorem le_T_self (x : Nat) : x ≤ T x := by
  unfold T
  have : x + 1 < 2 ^ (x + 1) := Nat.lt_two_pow_self
  omega

theorem hgt_eq_loop (k fuel x : Nat) (h1 : 1 ≤ x) (h2 : x ≤ T k) (hf : k + 1 ≤ fuel) :
    posHeightLoop fuel x = hgt x := by
  unfold hgt
  rcases Nat.le_total k x with hkx | hxk
  · -- use the bound k for both
    rw [(loop_fuel k fuel x h1 h2 hf).1, (loop_fuel k (x + 1) x h1 h2 (by omega)).1]
  · rw [(loop_fuel x fuel x h1 (le_T_self x) (by omega)).1,
      (loop_fuel x (x + 1) x h1 (le_T_self x) (by omega)).1]

theorem hgt_root (k : Nat) : hgt (T k) = k := by
  rw [← hgt_eq_loop k (k + 1) (T k) (T_pos k) (Nat.le_refl _) (Nat.le_refl _)]
  exact loop_root k k

theorem hgt_jump (k x : Nat) (h1 : T k < x) (h2 : x < T (k + 1)) : hgt x = hgt (x - T k) := by
  have hb : x - T k ≤ T k := by rw [T_succ] at h2; omega
  rw [← hgt_eq_loop (k + 1) (k + 2) x (by omega) (by omega) (by omega),
    ← hgt_eq_loop k (k + 1) (x - T k) (by omega) hb (by omega)]
  exact loop_jump (k + 1) k x h1 h2

theorem hgt_le (k x : Nat) (h1 : 1 ≤ x) (h2 : x ≤ T k) : hgt x ≤ k := by
  rw [← hgt_eq_loop k (k + 1) x h1 h2 (Nat.le_refl _)]
  exact (loop_fuel k (k + 1) x h1 h2 (Nat.le_refl _)).2

theorem hgt_one : hgt 1 = 0 := by
  have : (1 : Nat) = T 0 := by decide
  rw [this]; exact hgt_root 0

/-- `pos_height_in_tree` of the library is `hgt` for every `u64` position below 2^64 - 1 -/
theorem posHeight_eq (pos : Nat) (h : pos + 1 ≤ T 63) : posHeight pos = hgt (pos + 1) := by
  unfold posHeight
  exact hgt_eq_loop 63 64 (pos + 1) (by omega) h (by omega)

/-! ## siblings and parents in the layout -/

/-- what follows a node of height `h` inside a tree of height `k` (`x < T k`: not the root):
either the next position is its parent (one higher, and the node starts at least `2^(h+1)`
positions into the layout: it has a left sibling), or the next position is lower or equal and the
parent lies `2^(h+1)` positions later, inside the tree -/
theorem step_cases : ∀ (k x : Nat), 1 ≤ x → x < T k →
    (hgt (x + 1) = hgt x + 1 ∧ 2 ^ (hgt x + 1) ≤ x) ∨
    (hgt (x + 1) ≤ hgt x ∧ x + 2 ^ (hgt x + 1) ≤ T k ∧ hgt (x + 2 ^ (hgt x + 1)) = hgt x + 1)
  | 0, x, h1, h2 => by unfold T at h2; omega
  | k + 1, x, h1, h2 => by
    have hT := T_succ k
    have hTk : T k = 2 ^ (k + 1) - 1 := rfl
    have hp := Nat.two_pow_pos (k + 1)
    rcases Nat.lt_trichotomy x (T k) with hlt | heq | hgt'
    · -- inside the left subtree
      rcases step_cases k x h1 hlt with ⟨a, b⟩ | ⟨a, b, c⟩
      · exact .inl ⟨a, b⟩
      · exact .inr ⟨a, by omega, c⟩
    · -- the root of the left subtree: a left child of the root
      subst heq
      right
      rw [hgt_root k]
      have hnext : hgt (T k + 1) = 0 := by
        rw [hgt_jump k (T k + 1) (by omega) (by omega)]
        have : T k + 1 - T k = 1 := by omega
        rw [this]; exact hgt_one
      have hpar : T k + 2 ^ (k + 1) = T (k + 1) := by omega
      refine ⟨by omega, by omega, ?_⟩
      rw [hpar]; exact hgt_root (k + 1)
    · -- inside the right subtree
      have hj := hgt_jump k x hgt' h2
      rcases Nat.lt_or_ge (x - T k) (T k) with hin | hroot
      · rcases step_cases k (x - T k) (by omega) hin with ⟨a, b⟩ | ⟨a, b, c⟩
        · left
          have hj1 := hgt_jump k (x + 1) (by omega) (by omega)
          have : x + 1 - T k = x - T k + 1 := by omega
          rw [hj1, this, hj]
          exact ⟨a, by omega⟩
        · right
          have hp2 := Nat.two_pow_pos (hgt (x - T k) + 1)
          have hxs : x = T k + (x - T k) := by omega
          have hj1 : hgt (x + 1) = hgt (x - T k + 1) := by
            rw [hgt_jump k (x + 1) (by omega) (by omega)]
            congr 1; omega
          have hb' : x + 2 ^ (hgt (x - T k) + 1) < T (k + 1) := by omega
          have hj2 : hgt (x + 2 ^ (hgt (x - T k) + 1)) = hgt (x - T k + 2 ^ (hgt (x - T k) + 1)) := by
            rw [hgt_jump k _ (by omega) hb']
            congr 1; omega
          rw [hj1, hj]
          exact ⟨a, by omega, by rw [hj2]; exact c⟩
      · -- the root of the right subtree: the next position is the root
        have hx : x = 2 * T k := by omega
        left
        have hh : hgt x = k := by
          rw [hj]
          have : x - T k = T k := by omega
          rw [this]; exact hgt_root k
        have hnext : x + 1 = T (k + 1) := by omega
        rw [hnext, hgt_root (k + 1), hh]
        exact ⟨rfl, by omega⟩

/-- a right child (the next position is higher): the next position is exactly one higher and the
left sibling exists -/
theorem step_right (k x : Nat) (h1 : 1 ≤ x) (h2 : x < T k) (hr : hgt (x + 1) > hgt x) :
    hgt (x + 1) = hgt x + 1 ∧ 2 ^ (hgt x + 1) ≤ x := by
  rcases step_cases k x h1 h2 with h | ⟨a, _, _⟩
  · exact h
  · omega

/-- a left child: the parent `2^(h+1)` positions later has height `h + 1` -/
theorem step_left (k x : Nat) (h1 : 1 ≤ x) (h2 : x < T k) (hl : ¬ hgt (x + 1) > hgt x) :
    hgt (x + 2 ^ (hgt x + 1)) = hgt x + 1 := by
  rcases step_cases k x h1 h2 with ⟨a, _⟩ | ⟨_, _, c⟩
  · omega
  · exact c

end Mmr

import LcModel.Mmr.Model
/-!
# Mmr — lemmas: what a successful `calculate_root` binds

`Sub a r`: the digest `a` went into `r` through `merge`s.  Every leaf item that survives the
sort / dedup of `calculate_peaks_hashes` is `Sub` of the calculated root (`calculateRoot_sub`);
in a root built honestly from a chain (`Honest`) every `Sub` digest is itself honest and a leaf
digest is the digest of the chain's header (`honest_sub`, `honest_leaf`) - this uses that blake2b
is modelled as a free term algebra and nothing about positions; positions only matter for the
headers the dedup drops, which is where `leafIndexToPos_injective` and `noTwins` come in.
-/
namespace Mmr

/-! ## merge is injective -/

theorem merge_ok {l r m : Digest} (h : merge l r = .ok m) :
    m.ch = .pair (mmrHash l) (mmrHash r) ∧ m.td = l.td + r.td ∧ m.sN = l.sN ∧ m.eN = r.eN ∧
    l.eN + 1 = r.sN := by
  unfold merge at h
  split at h; · simp at h
  split at h; · simp at h
  split at h; · simp at h
  split at h; · simp at h
  simp only [Except.ok.injEq] at h
  subst h
  simp_all

theorem mmrHash_inj {a b : Digest} (h : mmrHash a = mmrHash b) : a = b := by
  unfold mmrHash at h
  cases a; cases b
  simp only [H.dig.injEq, List.cons.injEq, and_true] at h
  simp_all

theorem merge_inj {l r l' r' m : Digest} (h : merge l r = .ok m) (h' : merge l' r' = .ok m) :
    l = l' ∧ r = r' := by
  have a := (merge_ok h).1
  have b := (merge_ok h').1
  rw [a] at b
  simp only [H.pair.injEq] at b
  exact ⟨mmrHash_inj b.1, mmrHash_inj b.2⟩

/-! ## `Sub` -/

inductive Sub : Digest → Digest → Prop
  | refl (a : Digest) : Sub a a
  | left {a l r m : Digest} : merge l r = .ok m → Sub a l → Sub a m
  | right {a l r m : Digest} : merge l r = .ok m → Sub a r → Sub a m

theorem Sub.trans {a b c : Digest} (h1 : Sub a b) (h2 : Sub b c) : Sub a c := by
  induction h2 with
  | refl => exact h1
  | left hm _ ih => exact .left hm ih
  | right hm _ ih => exact .right hm ih

theorem Sub.of_merge_left {l r m : Digest} (h : merge l r = .ok m) : Sub l m :=
  .left h (.refl l)
theorem Sub.of_merge_right {l r m : Digest} (h : merge l r = .ok m) : Sub r m :=
  .right h (.refl r)

/-! ## honest roots -/

/-- a digest built honestly over the chain `hdrAt`: the digest of a header of the chain, or the
merge of two honest digests -/
inductive Honest (hdrAt : Nat → Option Hdr) : Digest → Prop
  | leaf (h : Hdr) : hdrAt h.number = some h → Honest hdrAt h.digest
  | node {l r m : Digest} : merge l r = .ok m → Honest hdrAt l → Honest hdrAt r → Honest hdrAt m

theorem honest_sub {hdrAt : Nat → Option Hdr} {a r : Digest} (hs : Sub a r)
    (hr : Honest hdrAt r) : Honest hdrAt a := by
  induction hs with
  | refl => exact hr
  | @left l r m hm _ ih =>
    cases hr with
    | leaf h _ =>
      have := (merge_ok hm).1
      simp [Hdr.digest] at this
    | node hm' hl _ =>
      obtain ⟨e1, _⟩ := merge_inj hm hm'
      subst e1
      exact ih hl
  | @right l r m hm _ ih =>
    cases hr with
    | leaf h _ =>
      have := (merge_ok hm).1
      simp [Hdr.digest] at this
    | node hm' _ hr' =>
      obtain ⟨_, e2⟩ := merge_inj hm hm'
      subst e2
      exact ih hr'

/-- an honest digest that is the digest of a header: the chain has a header with that hash (and
the same number, difficulty, epoch, timestamp and compact target) at that number -/
theorem honest_leaf {hdrAt : Nat → Option Hdr} {hd : Hdr} (h : Honest hdrAt hd.digest) :
    hdrAt hd.number = some hd := by
  generalize hg : hd.digest = d at h
  cases h with
  | leaf h' hh =>
    have : h' = hd := by
      cases h'; cases hd
      simp only [Hdr.digest, Digest.mk.injEq, H.atom.injEq] at hg
      simp_all
    subst this
    exact hh
  | node hm _ _ =>
    have := (merge_ok hm).1
    rw [← hg] at this
    simp [Hdr.digest] at this

/-! ## the queue loop -/

theorem takeSibling_cases {sibPos : Nat} {q : List Entry} {proof : List Digest}
    {s : Digest} {q1 : List Entry} {p1 : List Digest}
    (h : takeSibling sibPos q proof = some (s, q1, p1)) :
    (∃ e, q = e :: q1 ∧ e.2.1 = s) ∨ q1 = q := by
  unfold takeSibling at h
  split at h
  · split at h
    · simp only [Option.some.injEq, Prod.mk.injEq] at h
      obtain ⟨h1, h2, _⟩ := h; subst h1 h2; exact .inl ⟨_, rfl, rfl⟩
    · simp only [Option.some.injEq, Prod.mk.injEq] at h
      obtain ⟨_, h2, _⟩ := h; subst h2; exact .inr rfl
  · split at h
    · simp only [Option.some.injEq, Prod.mk.injEq] at h
      obtain ⟨h1, h2, _⟩ := h; subst h1 h2; exact .inl ⟨_, rfl, rfl⟩
    · simp at h
  · simp only [Option.some.injEq, Prod.mk.injEq] at h
    obtain ⟨_, h2, _⟩ := h; subst h2; exact .inr rfl
  · simp at h

theorem mergeUp_sub {pos : Nat} {item : Digest} {height : Nat} {s parent : Digest}
    (h : (mergeUp pos item height s).2 = .ok parent) : Sub item parent ∧ Sub s parent := by
  unfold mergeUp at h
  split at h
  · exact ⟨Sub.of_merge_right h, Sub.of_merge_left h⟩
  · exact ⟨Sub.of_merge_left h, Sub.of_merge_right h⟩

/-- what one turn does: it returns the popped item (queue empty), or every entry of the old queue
(and the popped one) is `Sub` of an entry of the new queue -/
theorem peakStep_inr {peak : Nat} {e : Entry} {q : List Entry} {proof : List Digest}
    {q' : List Entry} {proof' : List Digest}
    (h : peakStep peak e q proof = .inr (q', proof')) :
    ∀ x ∈ e :: q, ∃ y ∈ q', Sub x.2.1 y.2.1 := by
  unfold peakStep at h
  split at h
  · split at h <;> exact absurd h (by simp)
  · split at h
    · exact absurd h (by simp)
    · split at h
      · exact absurd h (by simp)
      · rename_i s q1 proof1 hsib
        split at h
        · exact absurd h (by simp)
        · rename_i parent hm
          split at h
          · simp only [Sum.inr.injEq, Prod.mk.injEq] at h
            obtain ⟨hq, _⟩ := h
            subst hq
            obtain ⟨hs1, hs2⟩ := mergeUp_sub hm
            intro x hx
            have hin : ∀ (q1 : List Entry) (pp : Nat) (hh : Nat),
                (pp, parent, hh) ∈ q1 ++ [(pp, parent, hh)] := by
              intro q1 pp hh; simp
            simp only [List.mem_cons] at hx
            rcases hx with hx | hx
            · subst hx
              exact ⟨_, hin _ _ _, hs1⟩
            · rcases takeSibling_cases hsib with ⟨e0, he, he0⟩ | he
              · subst he
                simp only [List.mem_cons] at hx
                rcases hx with hx | hx
                · subst hx
                  exact ⟨_, hin _ _ _, he0 ▸ hs2⟩
                · exact ⟨x, by simp [hx], .refl _⟩
              · subst he
                exact ⟨x, by simp [hx], .refl _⟩
          · exact absurd h (by simp)

theorem peakStep_inl {peak : Nat} {e : Entry} {q : List Entry} {proof : List Digest}
    {r : Digest} (h : peakStep peak e q proof = .inl (.ok r)) : q = [] ∧ r = e.2.1 := by
  unfold peakStep at h
  split at h
  · split at h
    · rename_i hq
      simp only [Sum.inl.injEq, Except.ok.injEq] at h
      exact ⟨by simpa using hq, h.symm⟩
    · simp at h
  · split at h
    · simp at h
    · split at h
      · simp at h
      · split at h
        · simp at h
        · split at h <;> simp at h

/-- every entry of the queue is `Sub` of the peak root that `calculate_peak_root` returns -/
theorem calculatePeakRoot_sub (peak : Nat) (q : List Entry) (proof : List Digest)
    (r : Digest) (proof' : List Digest)
    (h : calculatePeakRoot peak q proof = .ok (r, proof')) :
    ∀ x ∈ q, Sub x.2.1 r := by
  induction q, proof using calculatePeakRoot.induct peak with
  | case1 proof => intro x hx; simp at hx
  | case2 proof e q0 r0 hstep =>
    rw [calculatePeakRoot] at h
    obtain ⟨hq, hr⟩ := peakStep_inl hstep
    subst hq
    split at h
    · rename_i r1 heq
      rw [hstep] at heq
      simp only [Sum.inl.injEq, Except.ok.injEq] at heq
      simp only [Except.ok.injEq, Prod.mk.injEq] at h
      intro x hx
      simp only [List.mem_singleton] at hx
      subst hx
      rw [← h.1, ← heq, hr]
      exact .refl _
    · simp at h
    · rename_i heq
      rw [hstep] at heq
      simp at heq
  | case3 proof e q0 f hstep =>
    rw [calculatePeakRoot] at h
    split at h
    · rename_i heq
      rw [hstep] at heq
      simp at heq
    · simp at h
    · rename_i heq
      rw [hstep] at heq
      simp at heq
  | case4 proof e q0 q' proof1 hstep ih =>
    rw [calculatePeakRoot] at h
    split at h
    · rename_i heq
      rw [hstep] at heq
      simp at heq
    · simp at h
    · rename_i q2 p2 heq
      rw [hstep] at heq
      simp only [Sum.inr.injEq, Prod.mk.injEq] at heq
      obtain ⟨e1, e2⟩ := heq
      subst e1 e2
      intro x hx
      obtain ⟨y, hy, hsub⟩ := peakStep_inr hstep x hx
      exact hsub.trans (ih h y hy)

/-! ## sort and dedup -/

theorem mem_insertByPos (x y : Nat × Digest) (l : List (Nat × Digest)) :
    y ∈ insertByPos x l ↔ y = x ∨ y ∈ l := by
  induction l with
  | nil => simp [insertByPos]
  | cons z zs ih =>
    unfold insertByPos
    split
    · simp
    · simp only [List.mem_cons, ih]
      constructor
      · rintro (h | h | h) <;> simp [h]
      · rintro (h | h | h) <;> simp [h]

theorem mem_sortByPos_aux (l acc : List (Nat × Digest)) (y : Nat × Digest) :
    y ∈ l.foldl (fun acc x => insertByPos x acc) acc ↔ y ∈ l ∨ y ∈ acc := by
  induction l generalizing acc with
  | nil => simp
  | cons x xs ih =>
    simp only [List.foldl_cons, ih, mem_insertByPos, List.mem_cons]
    constructor
    · rintro (h | h | h) <;> simp [h]
    · rintro ((h | h) | h) <;> simp [h]

theorem mem_sortByPos (l : List (Nat × Digest)) (y : Nat × Digest) :
    y ∈ sortByPos l ↔ y ∈ l := by
  simp [sortByPos, mem_sortByPos_aux]

theorem dedupAux_sub (last : Nat) (l : List (Nat × Digest)) :
    ∀ y ∈ dedupAux last l, y ∈ l := by
  induction l generalizing last with
  | nil => simp [dedupAux]
  | cons x xs ih =>
    intro y hy
    unfold dedupAux at hy
    split at hy
    · exact List.mem_cons_of_mem _ (ih _ y hy)
    · simp only [List.mem_cons] at hy
      rcases hy with rfl | hy
      · simp
      · exact List.mem_cons_of_mem _ (ih _ y hy)

theorem dedupByPos_sub (l : List (Nat × Digest)) : ∀ y ∈ dedupByPos l, y ∈ l := by
  cases l with
  | nil => simp [dedupByPos]
  | cons x xs =>
    intro y hy
    simp only [dedupByPos, List.mem_cons] at hy
    rcases hy with rfl | hy
    · simp
    · exact List.mem_cons_of_mem _ (dedupAux_sub _ _ y hy)

theorem dedupAux_covers (last : Nat) (l : List (Nat × Digest)) :
    ∀ x ∈ l, x.1 = last ∨ ∃ y ∈ dedupAux last l, y.1 = x.1 := by
  induction l generalizing last with
  | nil => simp
  | cons z zs ih =>
    intro x hx
    simp only [List.mem_cons] at hx
    unfold dedupAux
    split
    · rename_i hz
      rcases hx with rfl | hx
      · exact .inl hz
      · exact ih last x hx
    · rcases hx with rfl | hx
      · exact .inr ⟨x, by simp, rfl⟩
      · rcases ih z.1 x hx with h | ⟨y, hy, h⟩
        · exact .inr ⟨z, by simp, h.symm⟩
        · exact .inr ⟨y, by simp [hy], h⟩

/-- every entry has a survivor with its position -/
theorem dedupByPos_covers (l : List (Nat × Digest)) :
    ∀ x ∈ l, ∃ y ∈ dedupByPos l, y.1 = x.1 := by
  cases l with
  | nil => simp
  | cons z zs =>
    intro x hx
    simp only [List.mem_cons] at hx
    rcases hx with rfl | hx
    · exact ⟨x, by simp [dedupByPos], rfl⟩
    · rcases dedupAux_covers z.1 zs x hx with h | ⟨y, hy, h⟩
      · exact ⟨z, by simp [dedupByPos], h.symm⟩
      · exact ⟨y, by simp [dedupByPos, hy], h⟩

/-! ## the loop over the peaks -/

theorem takeWhile_dropWhile_mem {α} (p : α → Bool) (l : List α) (x : α) (h : x ∈ l) :
    x ∈ l.takeWhile p ∨ x ∈ l.dropWhile p := by
  have h2 : x ∈ l.takeWhile p ++ l.dropWhile p := by
    rw [List.takeWhile_append_dropWhile]; exact h
  exact List.mem_append.1 h2

/-- the hashes so far stay; every leaf is left over or `Sub` of a peak hash -/
theorem peaksLoopHashes_sub (peaks : List Nat) (leaves : List (Nat × Digest))
    (proof acc : List Digest) (acc' : List Digest) (left : List (Nat × Digest))
    (proofLeft : List Digest)
    (h : peaksLoopHashes peaks leaves proof acc = .ok (acc', left, proofLeft)) :
    (∀ a ∈ acc, a ∈ acc') ∧ ∀ l ∈ leaves, l ∈ left ∨ ∃ p ∈ acc', Sub l.2 p := by
  induction peaks generalizing leaves proof acc with
  | nil =>
    simp only [peaksLoopHashes, Except.ok.injEq, Prod.mk.injEq] at h
    obtain ⟨h1, h2, _⟩ := h
    subst h1 h2
    exact ⟨fun a ha => ha, fun l hl => .inl hl⟩
  | cons peak peaks ih =>
    unfold peaksLoopHashes at h
    simp only at h
    split at h
    · -- no leaf of this peak
      rename_i hmine
      split at h
      · rename_i r proof1
        obtain ⟨i1, i2⟩ := ih _ _ _ h
        refine ⟨fun a ha => i1 a (by simp [ha]), fun l hl => ?_⟩
        rcases takeWhile_dropWhile_mem (fun l => decide (l.1 ≤ peak)) leaves l hl with hm | hm
        · rw [hmine] at hm; simp at hm
        · exact i2 l hm
      · simp only [Except.ok.injEq, Prod.mk.injEq] at h
        obtain ⟨h1, h2, _⟩ := h
        subst h1 h2
        refine ⟨fun a ha => ha, fun l hl => ?_⟩
        rcases takeWhile_dropWhile_mem (fun l => decide (l.1 ≤ peak)) leaves l hl with hm | hm
        · rw [hmine] at hm; simp at hm
        · exact .inl hm
    · -- one leaf
      rename_i p item hmine
      split at h
      · obtain ⟨i1, i2⟩ := ih _ _ _ h
        refine ⟨fun a ha => i1 a (by simp [ha]), fun l hl => ?_⟩
        rcases takeWhile_dropWhile_mem (fun l => decide (l.1 ≤ peak)) leaves l hl with hm | hm
        · rw [hmine] at hm
          simp only [List.mem_singleton] at hm
          subst hm
          exact .inr ⟨item, i1 item (by simp), .refl _⟩
        · exact i2 l hm
      · split at h
        · rename_i r proof1 hc
          obtain ⟨i1, i2⟩ := ih _ _ _ h
          refine ⟨fun a ha => i1 a (by simp [ha]), fun l hl => ?_⟩
          rcases takeWhile_dropWhile_mem (fun l => decide (l.1 ≤ peak)) leaves l hl with hm | hm
          · rw [hmine] at hm
            simp only [List.mem_singleton] at hm
            subst hm
            have := calculatePeakRoot_sub peak _ _ _ _ hc (p, item, 0) (by simp)
            exact .inr ⟨r, i1 r (by simp), this⟩
          · exact i2 l hm
        · simp at h
    · -- several leaves
      split at h
      · rename_i r proof1 hc
        obtain ⟨i1, i2⟩ := ih _ _ _ h
        refine ⟨fun a ha => i1 a (by simp [ha]), fun l hl => ?_⟩
        rcases takeWhile_dropWhile_mem (fun l => decide (l.1 ≤ peak)) leaves l hl with hm | hm
        · have := calculatePeakRoot_sub peak _ _ _ _ hc (l.1, l.2, 0)
            (by simp only [List.mem_map]; exact ⟨l, hm, rfl⟩)
          exact .inr ⟨r, i1 r (by simp), this⟩
        · exact i2 l hm
      · simp at h

theorem calculatePeaksHashes_go_sub (size : Nat) (proof : List Digest)
    (sorted : List (Nat × Digest)) (hs : List Digest)
    (h : calculatePeaksHashes.go size proof sorted = .ok hs) :
    ∀ l ∈ sorted, ∃ p ∈ hs, Sub l.2 p := by
  unfold calculatePeaksHashes.go at h
  split at h
  · simp at h
  · rename_i acc leavesLeft proofLeft hloop
    obtain ⟨_, i2⟩ := peaksLoopHashes_sub _ _ _ _ _ _ _ hloop
    split at h
    · simp at h
    · rename_i hempty
      have hnil : leavesLeft = [] := by simpa using hempty
      subst hnil
      intro l hl
      rcases i2 l hl with hm | ⟨p, hp, hsub⟩
      · simp at hm
      · split at h
        · simp only [Except.ok.injEq] at h; subst h; exact ⟨p, hp, hsub⟩
        · simp only [Except.ok.injEq] at h; subst h; exact ⟨p, by simp [hp], hsub⟩
        · simp at h

/-- the leaves that survive sort + dedup are `Sub` of the peak hashes -/
theorem calculatePeaksHashes_sub (leaves : List (Nat × Digest)) (size : Nat)
    (proof : List Digest) (hs : List Digest)
    (h : calculatePeaksHashes leaves size proof = .ok hs) :
    ∀ l ∈ dedupByPos (sortByPos leaves), ∃ p ∈ hs, Sub l.2 p := by
  unfold calculatePeaksHashes at h
  split at h
  · simp at h
  · split at h
    · rename_i item _
      split at h
      · simp only [Except.ok.injEq] at h
        subst h
        intro l hl
        simp [sortByPos, insertByPos, dedupByPos, dedupAux] at hl
        subst hl
        exact ⟨item, by simp, .refl _⟩
      · exact calculatePeaksHashes_go_sub _ _ _ _ h
    · exact calculatePeaksHashes_go_sub _ _ _ _ h

/-! ## bagging -/

theorem bagAcc_sub (right : Digest) (rest : List Digest) (r : Digest)
    (h : bagAcc right rest = .ok r) : Sub right r ∧ ∀ x ∈ rest, Sub x r := by
  induction rest generalizing right with
  | nil =>
    simp only [bagAcc, Except.ok.injEq] at h
    subst h
    exact ⟨.refl _, by simp⟩
  | cons left rest ih =>
    unfold bagAcc at h
    split at h
    · rename_i m hm
      obtain ⟨i1, i2⟩ := ih m h
      unfold mergePeaks at hm
      refine ⟨(Sub.of_merge_right hm).trans i1, ?_⟩
      intro x hx
      simp only [List.mem_cons] at hx
      rcases hx with rfl | hx
      · exact (Sub.of_merge_left hm).trans i1
      · exact i2 x hx
    · simp at h

theorem baggingPeaksHashes_sub (l : List Digest) (r : Digest)
    (h : baggingPeaksHashes l = .ok r) : ∀ x ∈ l, Sub x r := by
  unfold baggingPeaksHashes at h
  intro x hx
  have hx' : x ∈ l.reverse := by simpa using hx
  revert h hx'
  cases l.reverse with
  | nil => intro _ hx'; simp at hx'
  | cons a t =>
    intro h hx'
    simp only [baggingRev] at h
    obtain ⟨i1, i2⟩ := bagAcc_sub a t r h
    simp only [List.mem_cons] at hx'
    rcases hx' with rfl | hx'
    · exact i1
    · exact i2 x hx'

/-- **what `calculate_root` binds**: every leaf that survives sort + dedup went into the root -/
theorem calculateRoot_sub (leaves : List (Nat × Digest)) (size : Nat) (proof : List Digest)
    (r : Digest) (h : calculateRoot leaves size proof = .ok r) :
    ∀ l ∈ dedupByPos (sortByPos leaves), Sub l.2 r := by
  unfold calculateRoot at h
  split at h
  · rename_i hs hc
    intro l hl
    obtain ⟨p, hp, hsub⟩ := calculatePeaksHashes_sub _ _ _ _ hc l hl
    exact hsub.trans (baggingPeaksHashes_sub hs r h p hp)
  · simp at h

/-! ## positions of distinct block numbers are distinct -/

theorem popcount_zero (fuel : Nat) : popcount fuel 0 = 0 := by
  cases fuel <;> simp [popcount]

theorem popcount_succ (fuel n : Nat) :
    popcount (fuel + 1) n = if n = 0 then 0 else n % 2 + popcount fuel (n / 2) := rfl
theorem trailingZeros_succ (fuel n : Nat) :
    trailingZeros (fuel + 1) n = if n % 2 = 1 then 0 else 1 + trailingZeros fuel (n / 2) := rfl

theorem pc_tz_succ (fuel n : Nat) (h : n + 1 < 2 ^ fuel) :
    popcount fuel (n + 1) + trailingZeros fuel (n + 1) = popcount fuel n + 1 := by
  induction fuel generalizing n with
  | zero => simp at h
  | succ fuel ih =>
    have h2 : 2 ^ (fuel + 1) = 2 * 2 ^ fuel := by rw [Nat.pow_succ]; omega
    rw [popcount_succ fuel (n + 1), trailingZeros_succ fuel (n + 1), popcount_succ fuel n,
      if_neg (Nat.succ_ne_zero n)]
    by_cases hodd : (n + 1) % 2 = 1
    · -- n is even
      have e1 : (n + 1) / 2 = n / 2 := by omega
      rw [if_pos hodd, e1, hodd]
      by_cases hn : n = 0
      · subst hn; simp [popcount_zero]
      · have : n % 2 = 0 := by omega
        rw [if_neg hn, this]; omega
    · -- n is odd
      have hn : n ≠ 0 := by omega
      have hn2 : n % 2 = 1 := by omega
      have e1 : (n + 1) / 2 = n / 2 + 1 := by omega
      have e0 : (n + 1) % 2 = 0 := by omega
      have hb : n / 2 + 1 < 2 ^ fuel := by omega
      have := ih (n / 2) hb
      rw [if_neg hodd, if_neg hn, e1, e0, hn2]
      omega

/-- closed form of `leaf_index_to_pos`: each leaf lies one node (and the inner nodes completed by
the previous leaf) behind the previous one -/
def posSpec : Nat → Nat
  | 0 => 0
  | i + 1 => posSpec i + 1 + trailingZeros 64 (i + 1)

theorem posSpec_eq (i : Nat) (h : i + 2 < 2 ^ 64) :
    posSpec i + popcount 64 (i + 1) + trailingZeros 64 (i + 1) + 1 = 2 * (i + 1) := by
  induction i with
  | zero => decide
  | succ i ih =>
    have := ih (by omega)
    have e := pc_tz_succ 64 (i + 1) (by omega)
    simp only [posSpec]
    omega

theorem leafIndexToPos_eq (i : Nat) (h : i + 2 < 2 ^ 64) : leafIndexToPos i = posSpec i := by
  have := posSpec_eq i h
  unfold leafIndexToPos leafIndexToMmrSize
  simp only
  omega

theorem posSpec_lt {i j : Nat} (h : i < j) : posSpec i < posSpec j := by
  induction j with
  | zero => omega
  | succ j ih =>
    by_cases hij : i = j
    · subst hij; simp only [posSpec]; omega
    · have := ih (by omega); simp only [posSpec]; omega

/-- two block numbers (below 2^64 - 2; `verify_mmr_proof` admits none above 2^62) with one MMR
position are one number -/
theorem leafIndexToPos_injective {i j : Nat} (hi : i + 2 < 2 ^ 64) (hj : j + 2 < 2 ^ 64)
    (h : leafIndexToPos i = leafIndexToPos j) : i = j := by
  rw [leafIndexToPos_eq i hi, leafIndexToPos_eq j hj] at h
  rcases Nat.lt_trichotomy i j with hlt | heq | hgt
  · have := posSpec_lt hlt; omega
  · exact heq
  · have := posSpec_lt hgt; omega

/-! ## the wrapper -/

theorem noTwins_spec (l : List Hdr) (h : noTwins l = true) :
    ∀ a ∈ l, ∀ b ∈ l, a.number = b.number → a.hash = b.hash := by
  induction l with
  | nil => simp
  | cons x xs ih =>
    simp only [noTwins, Bool.and_eq_true, List.all_eq_true, Bool.or_eq_true, bne_iff_ne, ne_eq,
      beq_iff_eq, decide_eq_true_eq] at h
    obtain ⟨h1, h2⟩ := h
    intro a ha b hb hab
    simp only [List.mem_cons] at ha hb
    rcases ha with rfl | ha <;> rcases hb with rfl | hb
    · rfl
    · rcases h1 b hb with h | h
      · exact absurd hab.symm h
      · exact h.symm
    · rcases h1 a ha with h | h
      · exact absurd hab h
      · exact h
    · exact ih h2 a ha b hb hab

/-- **soundness of `verify_mmr_proof`**: if the parent chain root of the last header is the honest
root of the chain `hdrAt`, an accepted header list consists of headers of that chain - for every
header of the list the chain has, at its number, a header with its hash.  (Without the check of
`noTwins` - the code before a1163a3 - this fails: `old_rule_accepts_twin`.) -/
theorem verifyMmrProof_sound (hdrAt : Nat → Option Hdr) (valid : Bool) (lastNumber : Nat)
    (root : Digest) (proof : List Digest) (headers : List Hdr)
    (hroot : Honest hdrAt root)
    (h : verifyMmrProof valid lastNumber root proof headers = .ok true) :
    ∀ hd ∈ headers, ∃ c, hdrAt hd.number = some c ∧ c.hash = hd.hash := by
  unfold verifyMmrProof verifyMmrProofCfg at h
  split at h; · simp at h
  split at h; · simp at h
  rename_i hguard
  split at h; · simp at h
  split at h; · simp at h
  rename_i hrange
  split at h; · simp at h
  rename_i htw
  simp only at h
  split at h; · simp at h
  split at h
  · rename_i b hv
    simp only [Except.ok.injEq] at h
    subst h
    unfold verify at hv
    split at hv
    · rename_i r hc
      simp only [Except.ok.injEq, beq_iff_eq] at hv
      rw [hv] at hc
      -- bounds
      have hmax : root.eN ≤ MAX_PROVABLE := by
        simp only [not_or, Nat.not_lt] at hguard; omega
      have hnum : ∀ x ∈ headers, x.number ≤ root.eN := by
        intro x hx
        simp only [List.any_eq_true, decide_eq_true_eq, not_exists, not_and, Nat.not_lt] at hrange
        exact hrange x hx
      have hmp : MAX_PROVABLE + 2 < 2 ^ 64 := by decide
      have htwins : noTwins headers = true := by
        simpa using htw
      intro hd hmem
      -- the survivor with the position of `hd`
      have hin : (leafIndexToPos hd.number, hd.digest) ∈
          sortByPos (headers.map fun h => (leafIndexToPos h.number, h.digest)) := by
        rw [mem_sortByPos]; exact List.mem_map.2 ⟨hd, hmem, rfl⟩
      obtain ⟨y, hy, hpos⟩ := dedupByPos_covers _ _ hin
      have hy' := dedupByPos_sub _ y hy
      rw [mem_sortByPos] at hy'
      obtain ⟨hd', hmem', rfl⟩ := List.mem_map.1 hy'
      have hsub := calculateRoot_sub _ _ _ _ hc _ hy
      have hh := honest_leaf (honest_sub hsub hroot)
      have hn : hd'.number = hd.number :=
        leafIndexToPos_injective (by have := hnum hd' hmem'; omega)
          (by have := hnum hd hmem; omega) hpos
      exact ⟨hd', hn ▸ hh, noTwins_spec headers htwins hd' hmem' hd hmem hn⟩
    · simp at hv
  · simp at h
  · simp at h

end Mmr

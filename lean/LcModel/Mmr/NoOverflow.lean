import LcModel.Mmr.Lemmas
/-!
# Mmr — the two additions of `MergeHeaderDigest::merge` never abort inside `verify_mmr_proof`

`merge` adds the total difficulties with `numext`'s `+` (aborts above 2^256 - 1) and computes
`lhs_end_number + 1` on `u64` (aborts at 2^64 - 1); every number involved is the peer's.  The
wrapper sums the difficulties of all proof items and all header digests with checked additions and
bounds every end number by the root's BEFORE it calls the library (repair c68a262).  This file
proves that this is enough: every digest the library ever merges is made of disjoint parts of
those inputs, so its difficulty is bounded by their sum (`Fits`).

Not covered (and said so in the theorem): site 903, `pos - sibling_offset` on `u64`, whose
absence needs the theory of MMR positions (entries carry their true height); the position
arithmetic itself is modelled on unbounded naturals.
-/
namespace Mmr

/-- the result is not one of the two aborts of `merge` -/
def NoMergeAbort {α} (x : R α) : Prop :=
  x ≠ .error (.panic (.overflow 901)) ∧ x ≠ .error (.panic (.overflow 902))

def tdSum (l : List Digest) : Nat := (l.map (·.td)).sum
def qSum (q : List Entry) : Nat := (q.map (·.2.1.td)).sum

@[simp] theorem tdSum_nil : tdSum [] = 0 := rfl
@[simp] theorem tdSum_cons (d : Digest) (l : List Digest) : tdSum (d :: l) = d.td + tdSum l := by
  simp [tdSum]
@[simp] theorem tdSum_append (a b : List Digest) : tdSum (a ++ b) = tdSum a + tdSum b := by
  simp [tdSum]
@[simp] theorem qSum_nil : qSum [] = 0 := rfl
@[simp] theorem qSum_cons (e : Entry) (q : List Entry) : qSum (e :: q) = e.2.1.td + qSum q := by
  simp [qSum]
@[simp] theorem qSum_append (a b : List Entry) : qSum (a ++ b) = qSum a + qSum b := by
  simp [qSum]

theorem merge_safe {l r : Digest} (h1 : l.td + r.td ≤ U256_MAX) (h2 : l.eN + 1 ≤ U64_MAX) :
    NoMergeAbort (merge l r) ∧ ∀ m, merge l r = .ok m → m.td = l.td + r.td ∧ m.eN = r.eN := by
  refine ⟨?_, fun m hm => ⟨(merge_ok hm).2.1, (merge_ok hm).2.2.2.1⟩⟩
  unfold merge NoMergeAbort
  rw [if_neg (by omega), if_neg (by omega)]
  split
  · simp
  · split <;> simp

/-! ## one turn of the queue loop -/

theorem takeSibling_sum {sibPos : Nat} {q : List Entry} {proof : List Digest}
    {s : Digest} {q1 : List Entry} {p1 : List Digest}
    (h : takeSibling sibPos q proof = some (s, q1, p1)) :
    s.td + qSum q1 + tdSum p1 = qSum q + tdSum proof ∧
    (∀ B, (∀ e ∈ q, e.2.1.eN ≤ B) → (∀ d ∈ proof, d.eN ≤ B) →
      s.eN ≤ B ∧ (∀ e ∈ q1, e.2.1.eN ≤ B) ∧ (∀ d ∈ p1, d.eN ≤ B)) := by
  unfold takeSibling at h
  split at h
  · split at h
    · simp only [Option.some.injEq, Prod.mk.injEq] at h
      obtain ⟨h1, h2, h3⟩ := h; subst h1 h2 h3
      refine ⟨by simp, fun B hq hp => ⟨hq (_, _, _) (List.mem_cons_self ..), fun e he => hq e (by simp [he]), hp⟩⟩
    · simp only [Option.some.injEq, Prod.mk.injEq] at h
      obtain ⟨h1, h2, h3⟩ := h; subst h1 h2 h3
      refine ⟨by simp; omega, fun B hq hp => ⟨hp _ (by simp), hq, fun d hd => hp d (by simp [hd])⟩⟩
  · split at h
    · simp only [Option.some.injEq, Prod.mk.injEq] at h
      obtain ⟨h1, h2, h3⟩ := h; subst h1 h2 h3
      refine ⟨by simp, fun B hq hp => ⟨hq (_, _, _) (List.mem_cons_self ..), fun e he => hq e (by simp [he]), hp⟩⟩
    · simp at h
  · simp only [Option.some.injEq, Prod.mk.injEq] at h
    obtain ⟨h1, h2, h3⟩ := h; subst h1 h2 h3
    refine ⟨by simp, fun B hq hp => ⟨hp _ (by simp), hq, fun d hd => hp d (by simp [hd])⟩⟩
  · simp at h

/-- the state of the queue loop fits: all difficulties together stay below the bound, every end
number below `B` -/
def Fits (B T : Nat) (q : List Entry) (proof : List Digest) : Prop :=
  qSum q + tdSum proof ≤ T ∧ (∀ e ∈ q, e.2.1.eN ≤ B) ∧ (∀ d ∈ proof, d.eN ≤ B)

theorem mergeUp_safe {pos : Nat} {item : Digest} {height : Nat} {s : Digest} {B : Nat}
    (h1 : item.td + s.td ≤ U256_MAX) (hB : B + 1 ≤ U64_MAX) (hi : item.eN ≤ B) (hs : s.eN ≤ B) :
    NoMergeAbort (mergeUp pos item height s).2 ∧
    ∀ m, (mergeUp pos item height s).2 = .ok m → m.td = item.td + s.td ∧ m.eN ≤ B := by
  unfold mergeUp
  split
  · obtain ⟨a, b⟩ := merge_safe (l := s) (r := item) (by omega) (by omega)
    exact ⟨a, fun m hm => by obtain ⟨x, y⟩ := b m hm; exact ⟨by omega, by omega⟩⟩
  · obtain ⟨a, b⟩ := merge_safe (l := item) (r := s) (by omega) (by omega)
    exact ⟨a, fun m hm => by obtain ⟨x, y⟩ := b m hm; exact ⟨by omega, by omega⟩⟩

theorem peakStep_safe {peak : Nat} {e : Entry} {q : List Entry} {proof : List Digest} {B T : Nat}
    (hT : T ≤ U256_MAX) (hB : B + 1 ≤ U64_MAX) (hf : Fits B T (e :: q) proof) :
    (∀ x, peakStep peak e q proof = .inl x →
      NoMergeAbort x ∧ ∀ r, x = .ok r → r.td + tdSum proof ≤ T ∧ r.eN ≤ B) ∧
    (∀ q' proof', peakStep peak e q proof = .inr (q', proof') → Fits B T q' proof') := by
  obtain ⟨hsum, hq, hp⟩ := hf
  simp only [qSum_cons] at hsum
  unfold peakStep
  split
  · split
    · refine ⟨fun x hx => ?_, fun _ _ h => by simp at h⟩
      simp only [Sum.inl.injEq] at hx
      subst hx
      refine ⟨by simp [NoMergeAbort], fun r hr => ?_⟩
      simp only [Except.ok.injEq] at hr
      subst hr
      exact ⟨by omega, hq e (by simp)⟩
    · refine ⟨fun x hx => ?_, fun _ _ h => by simp at h⟩
      simp only [Sum.inl.injEq] at hx
      subst hx
      exact ⟨by simp [NoMergeAbort], fun r hr => by simp at hr⟩
  · split
    · refine ⟨fun x hx => ?_, fun _ _ h => by simp at h⟩
      simp only [Sum.inl.injEq] at hx
      subst hx
      exact ⟨by simp [NoMergeAbort], fun r hr => by simp at hr⟩
    · split
      · refine ⟨fun x hx => ?_, fun _ _ h => by simp at h⟩
        simp only [Sum.inl.injEq] at hx
        subst hx
        exact ⟨by simp [NoMergeAbort], fun r hr => by simp at hr⟩
      · rename_i s q1 proof1 hsib
        obtain ⟨hs1, hs2⟩ := takeSibling_sum hsib
        obtain ⟨hsB, hq1, hp1⟩ := hs2 B (fun x hx => hq x (by simp [hx])) hp
        obtain ⟨ma, mb⟩ := mergeUp_safe (pos := e.1) (item := e.2.1) (height := e.2.2) (s := s)
          (B := B) (by omega) hB (hq e (by simp)) hsB
        split
        · rename_i f hm
          refine ⟨fun x hx => ?_, fun _ _ h => by simp at h⟩
          simp only [Sum.inl.injEq] at hx
          subst hx
          rw [hm] at ma
          exact ⟨ma, fun r hr => by simp at hr⟩
        · rename_i parent hm
          obtain ⟨mtd, meN⟩ := mb parent hm
          split
          · refine ⟨fun x hx => by simp at hx, fun q' proof' h => ?_⟩
            simp only [Sum.inr.injEq, Prod.mk.injEq] at h
            obtain ⟨h1, h2⟩ := h
            subst h1 h2
            refine ⟨by simp; omega, ?_, hp1⟩
            intro x hx
            simp only [List.mem_append, List.mem_singleton] at hx
            rcases hx with hx | rfl
            · exact hq1 x hx
            · exact meN
          · refine ⟨fun x hx => ?_, fun _ _ h => by simp at h⟩
            simp only [Sum.inl.injEq] at hx
            subst hx
            exact ⟨by simp [NoMergeAbort], fun r hr => by simp at hr⟩

theorem calculatePeakRoot_proof_sub (peak : Nat) (q : List Entry) (proof : List Digest)
    (r : Digest) (proof' : List Digest) (B : Nat)
    (h : calculatePeakRoot peak q proof = .ok (r, proof')) (hp : ∀ d ∈ proof, d.eN ≤ B)
    (hq : ∀ e ∈ q, e.2.1.eN ≤ B) (T : Nat) (hT : T ≤ U256_MAX) (hB : B + 1 ≤ U64_MAX)
    (hs : qSum q + tdSum proof ≤ T) :
    r.td + tdSum proof' ≤ T ∧ r.eN ≤ B ∧ ∀ d ∈ proof', d.eN ≤ B := by
  induction q, proof using calculatePeakRoot.induct peak with
  | case1 proof => rw [calculatePeakRoot] at h; simp at h
  | case2 proof e q0 r0 hstep =>
    rw [calculatePeakRoot] at h
    obtain ⟨a, _⟩ := peakStep_safe (peak := peak) hT hB ⟨hs, hq, hp⟩
    obtain ⟨_, b⟩ := a _ hstep
    obtain ⟨b1, b2⟩ := b r0 rfl
    split at h
    · rename_i r1 heq
      rw [hstep] at heq
      simp only [Sum.inl.injEq, Except.ok.injEq] at heq
      simp only [Except.ok.injEq, Prod.mk.injEq] at h
      obtain ⟨h1, h2⟩ := h
      subst heq h1 h2
      exact ⟨b1, b2, hp⟩
    · simp at h
    · rename_i heq; rw [hstep] at heq; simp at heq
  | case3 proof e q0 f hstep =>
    rw [calculatePeakRoot] at h
    split at h
    · rename_i heq; rw [hstep] at heq; simp at heq
    · simp at h
    · rename_i heq; rw [hstep] at heq; simp at heq
  | case4 proof e q0 q' proof1 hstep ih =>
    rw [calculatePeakRoot] at h
    obtain ⟨_, b⟩ := peakStep_safe (peak := peak) hT hB ⟨hs, hq, hp⟩
    obtain ⟨f1, f2, f3⟩ := b _ _ hstep
    split at h
    · rename_i heq; rw [hstep] at heq; simp at heq
    · simp at h
    · rename_i q2 p2 heq
      rw [hstep] at heq
      simp only [Sum.inr.injEq, Prod.mk.injEq] at heq
      obtain ⟨e1, e2⟩ := heq
      subst e1 e2
      exact ih h f3 f2 f1

/-- `calculate_peak_root` never stops in one of the two aborts of `merge` -/
theorem calculatePeakRoot_safe (peak : Nat) (q : List Entry) (proof : List Digest) (B T : Nat)
    (hT : T ≤ U256_MAX) (hB : B + 1 ≤ U64_MAX) (hf : Fits B T q proof) :
    NoMergeAbort (calculatePeakRoot peak q proof) := by
  induction q, proof using calculatePeakRoot.induct peak with
  | case1 proof => rw [calculatePeakRoot]; simp [NoMergeAbort]
  | case2 proof e q0 r0 hstep =>
    rw [calculatePeakRoot]
    split
    · simp [NoMergeAbort]
    · rename_i f heq
      rw [hstep] at heq; simp at heq
    · rename_i heq; rw [hstep] at heq; simp at heq
  | case3 proof e q0 f hstep =>
    rw [calculatePeakRoot]
    obtain ⟨a, _⟩ := peakStep_safe (peak := peak) hT hB hf
    obtain ⟨a1, _⟩ := a _ hstep
    split
    · simp [NoMergeAbort]
    · rename_i f' heq
      rw [hstep] at heq
      simp only [Sum.inl.injEq, Except.error.injEq] at heq
      subst heq
      simpa [NoMergeAbort] using a1
    · rename_i heq; rw [hstep] at heq; simp at heq
  | case4 proof e q0 q' proof1 hstep ih =>
    rw [calculatePeakRoot]
    obtain ⟨_, b⟩ := peakStep_safe (peak := peak) hT hB hf
    have f := b _ _ hstep
    split
    · simp [NoMergeAbort]
    · rename_i f' heq; rw [hstep] at heq; simp at heq
    · rename_i q2 p2 heq
      rw [hstep] at heq
      simp only [Sum.inr.injEq, Prod.mk.injEq] at heq
      obtain ⟨e1, e2⟩ := heq
      subst e1 e2
      exact ih f

/-! ## the loop over the peaks, the bagging, `calculate_root` -/

def lSum (l : List (Nat × Digest)) : Nat := (l.map (·.2.td)).sum

@[simp] theorem lSum_nil : lSum [] = 0 := rfl
@[simp] theorem lSum_cons (x : Nat × Digest) (l : List (Nat × Digest)) :
    lSum (x :: l) = x.2.td + lSum l := by simp [lSum]
@[simp] theorem lSum_append (a b : List (Nat × Digest)) : lSum (a ++ b) = lSum a + lSum b := by
  simp [lSum]

theorem lSum_split (p : Nat × Digest → Bool) (l : List (Nat × Digest)) :
    lSum (l.takeWhile p) + lSum (l.dropWhile p) = lSum l := by
  rw [← lSum_append, List.takeWhile_append_dropWhile]

theorem qSum_map (l : List (Nat × Digest)) :
    qSum (l.map fun x => (x.1, x.2, 0)) = lSum l := by
  induction l with
  | nil => rfl
  | cons x xs ih => simp [ih]

theorem mem_takeWhile_mem {α} (p : α → Bool) (l : List α) (x : α) (h : x ∈ l.takeWhile p) :
    x ∈ l := (List.takeWhile_sublist p).subset h
theorem mem_dropWhile_mem {α} (p : α → Bool) (l : List α) (x : α) (h : x ∈ l.dropWhile p) :
    x ∈ l := (List.dropWhile_sublist p).subset h

/-- everything the loop still holds fits -/
def Fits3 (B T : Nat) (acc : List Digest) (leaves : List (Nat × Digest)) (proof : List Digest) :
    Prop :=
  tdSum acc + lSum leaves + tdSum proof ≤ T ∧ (∀ d ∈ acc, d.eN ≤ B) ∧
  (∀ l ∈ leaves, l.2.eN ≤ B) ∧ (∀ d ∈ proof, d.eN ≤ B)

theorem peaksLoopHashes_safe (peaks : List Nat) (leaves : List (Nat × Digest))
    (proof acc : List Digest) (B T : Nat) (hT : T ≤ U256_MAX) (hB : B + 1 ≤ U64_MAX)
    (hf : Fits3 B T acc leaves proof) :
    NoMergeAbort (peaksLoopHashes peaks leaves proof acc) ∧
    ∀ acc' left proofLeft, peaksLoopHashes peaks leaves proof acc = .ok (acc', left, proofLeft) →
      Fits3 B T acc' left proofLeft := by
  induction peaks generalizing leaves proof acc with
  | nil =>
    simp only [peaksLoopHashes]
    refine ⟨by simp [NoMergeAbort], fun acc' left proofLeft h => ?_⟩
    simp only [Except.ok.injEq, Prod.mk.injEq] at h
    obtain ⟨h1, h2, h3⟩ := h
    subst h1 h2 h3
    exact hf
  | cons peak peaks ih =>
    obtain ⟨hs, ha, hl, hp⟩ := hf
    have hsplit := lSum_split (fun l => decide (l.1 ≤ peak)) leaves
    have hdrop : ∀ l ∈ leaves.dropWhile (fun l => decide (l.1 ≤ peak)), l.2.eN ≤ B :=
      fun l h => hl l (mem_dropWhile_mem _ _ l h)
    have htake : ∀ l ∈ leaves.takeWhile (fun l => decide (l.1 ≤ peak)), l.2.eN ≤ B :=
      fun l h => hl l (mem_takeWhile_mem _ _ l h)
    unfold peaksLoopHashes
    simp only
    split
    · rename_i hmine
      rw [hmine] at hsplit
      simp only [lSum_nil, Nat.zero_add] at hsplit
      split
      · rename_i r proof1
        apply ih
        refine ⟨by simp at hs ⊢; omega, ?_, hdrop, fun d hd => hp d (by simp [hd])⟩
        intro d hd
        simp only [List.mem_append, List.mem_singleton] at hd
        rcases hd with hd | rfl
        · exact ha d hd
        · exact hp _ (by simp)
      · refine ⟨by simp [NoMergeAbort], fun acc' left proofLeft h => ?_⟩
        simp only [Except.ok.injEq, Prod.mk.injEq] at h
        obtain ⟨h1, h2, h3⟩ := h
        subst h1 h2 h3
        exact ⟨by simp at hs ⊢; omega, ha, hdrop, by simp⟩
    · rename_i p item hmine
      rw [hmine] at hsplit htake
      simp only [lSum_cons, lSum_nil, Nat.add_zero] at hsplit
      have hitem : item.eN ≤ B := htake (p, item) (by simp)
      split
      · apply ih
        refine ⟨by simp; omega, ?_, hdrop, hp⟩
        intro d hd
        simp only [List.mem_append, List.mem_singleton] at hd
        rcases hd with hd | rfl
        · exact ha d hd
        · exact hitem
      · have hfit : Fits B (T - tdSum acc - lSum (leaves.dropWhile fun l => decide (l.1 ≤ peak)))
            [(p, item, 0)] proof :=
          ⟨by simp; omega, by simp [hitem], hp⟩
        have hsafe := calculatePeakRoot_safe peak [(p, item, 0)] proof B _ (by omega) hB hfit
        split
        · rename_i r proof1 hc
          obtain ⟨c1, c2, c3⟩ := calculatePeakRoot_proof_sub peak _ _ r proof1 B hc hp
            (by simp [hitem]) _ (by omega) hB hfit.1
          apply ih
          refine ⟨by simp; omega, ?_, hdrop, c3⟩
          intro d hd
          simp only [List.mem_append, List.mem_singleton] at hd
          rcases hd with hd | rfl
          · exact ha d hd
          · exact c2
        · rename_i f hc
          rw [hc] at hsafe
          refine ⟨by simpa [NoMergeAbort] using hsafe, fun _ _ _ h => by simp at h⟩
    · have hq : ∀ e ∈ (leaves.takeWhile fun l => decide (l.1 ≤ peak)).map
          (fun l => ((l.1, l.2, 0) : Entry)), e.2.1.eN ≤ B := by
        intro e he
        obtain ⟨l, hl', rfl⟩ := List.mem_map.1 he
        exact htake l hl'
      have hfit : Fits B (T - tdSum acc - lSum (leaves.dropWhile fun l => decide (l.1 ≤ peak)))
          ((leaves.takeWhile fun l => decide (l.1 ≤ peak)).map fun l => ((l.1, l.2, 0) : Entry))
          proof :=
        ⟨by rw [qSum_map]; omega, hq, hp⟩
      have hsafe := calculatePeakRoot_safe peak _ proof B _ (by omega) hB hfit
      split
      · rename_i r proof1 hc
        obtain ⟨c1, c2, c3⟩ := calculatePeakRoot_proof_sub peak _ _ r proof1 B hc hp hq _
          (by omega) hB hfit.1
        apply ih
        refine ⟨by simp; omega, ?_, hdrop, c3⟩
        intro d hd
        simp only [List.mem_append, List.mem_singleton] at hd
        rcases hd with hd | rfl
        · exact ha d hd
        · exact c2
      · rename_i f hc
        rw [hc] at hsafe
        refine ⟨by simpa [NoMergeAbort] using hsafe, fun _ _ _ h => by simp at h⟩

theorem bagAcc_safe (right : Digest) (rest : List Digest) (B T : Nat) (hT : T ≤ U256_MAX)
    (hB : B + 1 ≤ U64_MAX) (hs : right.td + tdSum rest ≤ T) (hr : right.eN ≤ B)
    (he : ∀ d ∈ rest, d.eN ≤ B) : NoMergeAbort (bagAcc right rest) := by
  induction rest generalizing right with
  | nil => simp [bagAcc, NoMergeAbort]
  | cons left rest ih =>
    simp only [tdSum_cons] at hs
    obtain ⟨a, b⟩ := merge_safe (l := left) (r := right) (by omega)
      (by have := he left (by simp); omega)
    unfold bagAcc mergePeaks
    split
    · rename_i m hm
      obtain ⟨b1, b2⟩ := b m hm
      exact ih m (by omega) (by omega) (fun d hd => he d (by simp [hd]))
    · rename_i f hm
      rw [hm] at a
      simpa [NoMergeAbort] using a

theorem baggingPeaksHashes_safe (l : List Digest) (B T : Nat) (hT : T ≤ U256_MAX)
    (hB : B + 1 ≤ U64_MAX) (hs : tdSum l ≤ T) (he : ∀ d ∈ l, d.eN ≤ B) :
    NoMergeAbort (baggingPeaksHashes l) := by
  unfold baggingPeaksHashes
  have hs' : tdSum l.reverse ≤ T := by
    have : tdSum l.reverse = tdSum l := by simp [tdSum, List.sum_reverse]
    omega
  have he' : ∀ d ∈ l.reverse, d.eN ≤ B := fun d hd => he d (by simpa using hd)
  revert hs' he'
  cases l.reverse with
  | nil => intro _ _; simp [baggingRev, NoMergeAbort]
  | cons a t =>
    intro hs' he'
    simp only [baggingRev]
    simp only [tdSum_cons] at hs'
    exact bagAcc_safe a t B T hT hB hs' (he' a (by simp)) (fun d hd => he' d (by simp [hd]))

theorem go_safe (size : Nat) (proof : List Digest) (sorted : List (Nat × Digest)) (B T : Nat)
    (hT : T ≤ U256_MAX) (hB : B + 1 ≤ U64_MAX) (hf : Fits3 B T [] sorted proof) :
    NoMergeAbort (calculatePeaksHashes.go size proof sorted) ∧
    ∀ hs, calculatePeaksHashes.go size proof sorted = .ok hs →
      tdSum hs ≤ T ∧ ∀ d ∈ hs, d.eN ≤ B := by
  obtain ⟨a, b⟩ := peaksLoopHashes_safe (getPeaks size) sorted proof [] B T hT hB hf
  unfold calculatePeaksHashes.go
  split
  · rename_i f hc
    rw [hc] at a
    exact ⟨by simpa [NoMergeAbort] using a, fun _ h => by simp at h⟩
  · rename_i acc left proofLeft hc
    obtain ⟨f1, f2, f3, f4⟩ := b _ _ _ hc
    split
    · exact ⟨by simp [NoMergeAbort], fun _ h => by simp at h⟩
    · split
      · refine ⟨by simp [NoMergeAbort], fun hs h => ?_⟩
        simp only [Except.ok.injEq] at h; subst h
        exact ⟨by omega, f2⟩
      · rename_i r
        refine ⟨by simp [NoMergeAbort], fun hs h => ?_⟩
        simp only [Except.ok.injEq] at h; subst h
        simp only [tdSum_cons, tdSum_nil] at f1
        refine ⟨by simp; omega, ?_⟩
        intro d hd
        simp only [List.mem_append, List.mem_singleton] at hd
        rcases hd with hd | rfl
        · exact f2 d hd
        · exact f4 _ (by simp)
      · exact ⟨by simp [NoMergeAbort], fun _ h => by simp at h⟩

/-! ## sort and dedup do not add difficulty -/

theorem lSum_insertByPos (x : Nat × Digest) (l : List (Nat × Digest)) :
    lSum (insertByPos x l) = x.2.td + lSum l := by
  induction l with
  | nil => simp [insertByPos]
  | cons y ys ih =>
    unfold insertByPos
    split
    · simp
    · simp [ih]; omega

theorem lSum_sortByPos_aux (l acc : List (Nat × Digest)) :
    lSum (l.foldl (fun acc x => insertByPos x acc) acc) = lSum l + lSum acc := by
  induction l generalizing acc with
  | nil => simp
  | cons x xs ih => simp [ih, lSum_insertByPos]; omega

theorem lSum_sortByPos (l : List (Nat × Digest)) : lSum (sortByPos l) = lSum l := by
  simp [sortByPos, lSum_sortByPos_aux]

theorem lSum_dedupAux (last : Nat) (l : List (Nat × Digest)) : lSum (dedupAux last l) ≤ lSum l := by
  induction l generalizing last with
  | nil => simp [dedupAux]
  | cons x xs ih =>
    unfold dedupAux
    split
    · have := ih last; simp; omega
    · have := ih x.1; simp; omega

theorem lSum_dedupByPos (l : List (Nat × Digest)) : lSum (dedupByPos l) ≤ lSum l := by
  cases l with
  | nil => simp [dedupByPos]
  | cons x xs => have := lSum_dedupAux x.1 xs; simp [dedupByPos]; omega

/-- `calculate_root` never stops in one of the two aborts of `merge` when the difficulties of
all leaves and proof items together fit into 256 bits and every end number is below 2^64 - 1 -/
theorem calculateRoot_safe (leaves : List (Nat × Digest)) (size : Nat) (proof : List Digest)
    (B : Nat) (hB : B + 1 ≤ U64_MAX) (hs : lSum leaves + tdSum proof ≤ U256_MAX)
    (hl : ∀ l ∈ leaves, l.2.eN ≤ B) (hp : ∀ d ∈ proof, d.eN ≤ B) :
    NoMergeAbort (calculateRoot leaves size proof) := by
  have hsorted : Fits3 B U256_MAX [] (dedupByPos (sortByPos leaves)) proof := by
    refine ⟨?_, by simp, ?_, hp⟩
    · have := lSum_dedupByPos (sortByPos leaves)
      rw [lSum_sortByPos] at this
      simp; omega
    · intro l hl'
      exact hl l ((mem_sortByPos _ _).1 (dedupByPos_sub _ l hl'))
  obtain ⟨g1, g2⟩ := go_safe size proof _ B U256_MAX (Nat.le_refl _) hB hsorted
  unfold calculateRoot
  have key : NoMergeAbort (calculatePeaksHashes leaves size proof) ∧
      ∀ hs', calculatePeaksHashes leaves size proof = .ok hs' →
        tdSum hs' ≤ U256_MAX ∧ ∀ d ∈ hs', d.eN ≤ B := by
    unfold calculatePeaksHashes
    split
    · exact ⟨by simp [NoMergeAbort], fun _ h => by simp at h⟩
    · split
      · rename_i item _
        split
        · refine ⟨by simp [NoMergeAbort], fun hs' h => ?_⟩
          simp only [Except.ok.injEq] at h; subst h
          have h1 := hl (0, item) (by simp)
          simp only [lSum_cons, lSum_nil] at hs
          exact ⟨by simp; omega, by simpa using h1⟩
        · exact ⟨g1, g2⟩
      · exact ⟨g1, g2⟩
  obtain ⟨k1, k2⟩ := key
  split
  · rename_i hs' hc
    obtain ⟨t1, t2⟩ := k2 hs' hc
    exact baggingPeaksHashes_safe hs' B U256_MAX (Nat.le_refl _) hB t1 t2
  · rename_i f hc
    rw [hc] at k1
    simpa [NoMergeAbort] using k1

theorem sumProof_spec (rootEnd : Nat) (l : List Digest) (acc t : Nat)
    (h : sumProof rootEnd l acc = some t) :
    t = acc + tdSum l ∧ t ≤ U256_MAX ∨ (l = [] ∧ t = acc) := by
  induction l generalizing acc with
  | nil => simp [sumProof] at h; exact .inr ⟨rfl, h.symm⟩
  | cons d ds ih =>
    unfold sumProof at h
    split at h
    · rename_i hc
      rcases ih _ h with ⟨h1, h2⟩ | ⟨h1, h2⟩
      · exact .inl ⟨by simp; omega, h2⟩
      · subst h1; exact .inl ⟨by simp; omega, by omega⟩
    · simp at h

theorem sumProof_end (rootEnd : Nat) (l : List Digest) (acc t : Nat)
    (h : sumProof rootEnd l acc = some t) : ∀ d ∈ l, d.eN ≤ rootEnd := by
  induction l generalizing acc with
  | nil => simp
  | cons d ds ih =>
    unfold sumProof at h
    split at h
    · rename_i hc
      intro x hx
      simp only [List.mem_cons] at hx
      rcases hx with rfl | hx
      · exact hc.2
      · exact ih _ h x hx
    · simp at h

theorem sumLeaves_spec (l : List Digest) (acc t : Nat) (h : sumLeaves l acc = some t)
    (hacc : acc ≤ U256_MAX) : acc + tdSum l ≤ U256_MAX := by
  induction l generalizing acc with
  | nil => simpa using hacc
  | cons d ds ih =>
    unfold sumLeaves at h
    split at h
    · rename_i hc
      have := ih _ h hc
      simp; omega
    · simp at h

/-- **`verify_mmr_proof` never stops in an overflow of `MergeHeaderDigest::merge`**, whatever the
peer sends: the checked sums of the wrapper bound every addition the library performs. -/
theorem verifyMmrProof_no_merge_abort (valid : Bool) (lastNumber : Nat) (root : Digest)
    (proof : List Digest) (headers : List Hdr) :
    NoMergeAbort (verifyMmrProof valid lastNumber root proof headers) := by
  unfold verifyMmrProof verifyMmrProofCfg
  split; · simp [NoMergeAbort]
  split; · simp [NoMergeAbort]
  rename_i hguard
  split; · simp [NoMergeAbort]
  rename_i t hsp
  split; · simp [NoMergeAbort]
  rename_i hrange
  split; · simp [NoMergeAbort]
  simp only
  split; · simp [NoMergeAbort]
  rename_i t2 hsl
  have hmax : root.eN ≤ MAX_PROVABLE := by
    simp only [not_or, Nat.not_lt] at hguard; omega
  have hB : root.eN + 1 ≤ U64_MAX := by
    have : MAX_PROVABLE + 1 ≤ U64_MAX := by decide
    omega
  have hpe := sumProof_end _ _ _ _ hsp
  have ht : t = tdSum proof ∧ t ≤ U256_MAX := by
    rcases sumProof_spec _ _ _ _ hsp with ⟨h1, h2⟩ | ⟨h1, h2⟩
    · exact ⟨by omega, h2⟩
    · subst h1; subst h2; exact ⟨by simp, by decide⟩
  have hsum := sumLeaves_spec _ _ _ hsl ht.2
  have hl : ∀ l ∈ headers.map (fun h => (leafIndexToPos h.number, h.digest)), l.2.eN ≤ root.eN := by
    intro l hl'
    obtain ⟨h0, hm, rfl⟩ := List.mem_map.1 hl'
    simp only [List.any_eq_true, decide_eq_true_eq, not_exists, not_and, Nat.not_lt] at hrange
    exact hrange h0 hm
  have hlsum : lSum (headers.map fun h => (leafIndexToPos h.number, h.digest)) =
      tdSum ((headers.map fun h => (leafIndexToPos h.number, h.digest)).map (·.2)) := by
    simp only [lSum, tdSum, List.map_map]
    rfl
  have hsafe := calculateRoot_safe (headers.map fun h => (leafIndexToPos h.number, h.digest))
    (leafIndexToMmrSize root.eN) proof root.eN hB (by rw [hlsum]; omega) hl hpe
  unfold verify
  split
  · rename_i b hv
    simp [NoMergeAbort]
  · simp [NoMergeAbort]
  · rename_i p hv
    split at hv
    · simp at hv
    · rename_i f hc
      simp only [Except.error.injEq] at hv
      subst hv
      rw [hc] at hsafe
      simpa [NoMergeAbort] using hsafe

end Mmr

import LcModel.Mmr.Lemmas
/-!
# Mmr — a concrete chain: the premises of `verifyMmrProof_sound` are satisfiable, and the code
before a1163a3 (no `noTwins` check) accepts a header the chain root does not commit to
-/
namespace Mmr.Witness
open Mmr

def ep (n i l : Nat) : Nat := n + i * 2 ^ 24 + l * 2 ^ 40
/-- block `n` of a three-block chain -/
def hd (n : Nat) : Hdr := ⟨n, 100 + n, 7, ep 0 n 10, 1000 + n, 5⟩
def d (n : Nat) : Digest := (hd n).digest
def hdrAt (n : Nat) : Option Hdr := if n < 3 then some (hd n) else none

/-- the chain root over blocks 0 and 1 (the parent chain root of block 2) -/
def root2 : Digest :=
  { ch := .pair (mmrHash (d 0)) (mmrHash (d 1)), td := 14, sN := 0, eN := 1,
    sE := ep 0 0 10, eE := ep 0 1 10, sT := 1000, eT := 1001, sC := 5, eC := 5 }

/-- a made-up header with the number of block 1 -/
def twin : Hdr := { hd 1 with hash := 9999 }

theorem merge01 : merge (d 0) (d 1) = .ok root2 := by rfl

theorem root2_honest : Honest hdrAt root2 :=
  .node merge01 (.leaf (hd 0) (by rfl)) (.leaf (hd 1) (by rfl))

theorem s1 : peakStep 2 (1, d 1, 0) [] [d 0] = .inr ([(2, root2, 1)], []) := by rfl
theorem s2 : peakStep 2 (2, root2, 1) [] [] = .inl (.ok root2) := by rfl

theorem peak_root : calculatePeakRoot 2 [(1, d 1, 0)] [d 0] = .ok (root2, []) := by
  rw [calculatePeakRoot]
  split
  · rename_i heq; rw [s1] at heq; simp at heq
  · rename_i heq; rw [s1] at heq; simp at heq
  · rename_i q' p' heq
    rw [s1] at heq
    simp only [Sum.inr.injEq, Prod.mk.injEq] at heq
    obtain ⟨e1, e2⟩ := heq
    subst e1 e2
    rw [calculatePeakRoot]
    split
    · rename_i heq; rw [s2] at heq; simp at heq; rw [heq]
    · rename_i heq; rw [s2] at heq; simp at heq
    · rename_i heq; rw [s2] at heq; simp at heq

theorem loop1 : peaksLoopHashes [2] [(1, d 1)] [d 0] [] = .ok ([root2], [], []) := by
  have e1 : List.takeWhile (fun l : Nat × Digest => decide (l.1 ≤ 2)) [(1, d 1)] = [(1, d 1)] := by
    rfl
  have e2 : List.dropWhile (fun l : Nat × Digest => decide (l.1 ≤ 2)) [(1, d 1)] = [] := by rfl
  unfold peaksLoopHashes
  simp only [e1, e2]
  rw [if_neg (by decide), peak_root]
  rfl

theorem verify_honest : verify root2 [(1, d 1)] 3 [d 0] = .ok true := by
  have hp : getPeaks 3 = [2] := by rfl
  have hs : dedupByPos (sortByPos [(1, d 1)]) = [(1, d 1)] := by rfl
  have hany : ([(1, d 1)] : List (Nat × Digest)).any (fun l => decide (posHeight l.1 > 0)) = false := by
    rfl
  unfold verify calculateRoot calculatePeaksHashes
  rw [hany]
  simp only [Bool.false_eq_true, if_false]
  unfold calculatePeaksHashes.go
  rw [hs, hp, loop1]
  rfl

theorem verify_twin : verify root2 [(1, d 1), (1, twin.digest)] 3 [d 0] = .ok true := by
  have hp : getPeaks 3 = [2] := by rfl
  have hs : dedupByPos (sortByPos [(1, d 1), (1, twin.digest)]) = [(1, d 1)] := by rfl
  have hany : ([(1, d 1), (1, twin.digest)] : List (Nat × Digest)).any
      (fun l => decide (posHeight l.1 > 0)) = false := by rfl
  unfold verify calculateRoot calculatePeaksHashes
  rw [hany]
  simp only [Bool.false_eq_true, if_false]
  unfold calculatePeaksHashes.go
  rw [hs, hp, loop1]
  rfl

theorem wrapper_honest : verifyMmrProof true 2 root2 [d 0] [hd 1] = .ok true := by
  have hl : ([hd 1].map fun h => (leafIndexToPos h.number, h.digest)) = [(1, d 1)] := by rfl
  have hsz : leafIndexToMmrSize root2.eN = 3 := by rfl
  unfold verifyMmrProof verifyMmrProofCfg
  rw [if_neg (by decide), if_neg (by decide)]
  have hsp : sumProof root2.eN [d 0] 0 = some 7 := by rfl
  rw [hsp]
  simp only
  rw [if_neg (by decide), if_neg (by decide), hl, hsz, verify_honest]
  rfl

theorem wrapper_old_twin :
    verifyMmrProofCfg false true 2 root2 [d 0] [hd 1, twin] = .ok true := by
  have hl : ([hd 1, twin].map fun h => (leafIndexToPos h.number, h.digest))
      = [(1, d 1), (1, twin.digest)] := by rfl
  have hsz : leafIndexToMmrSize root2.eN = 3 := by rfl
  unfold verifyMmrProofCfg
  rw [if_neg (by decide), if_neg (by decide)]
  have hsp : sumProof root2.eN [d 0] 0 = some 7 := by rfl
  rw [hsp]
  simp only
  rw [if_neg (by decide), if_neg (by decide), hl, hsz, verify_twin]
  rfl

theorem wrapper_new_twin : verifyMmrProof true 2 root2 [d 0] [hd 1, twin] = .ok false := by
  unfold verifyMmrProof verifyMmrProofCfg
  rw [if_neg (by decide), if_neg (by decide)]
  have hsp : sumProof root2.eN [d 0] 0 = some 7 := by rfl
  rw [hsp]
  simp only
  rw [if_neg (by decide), if_pos (by decide)]

theorem twin_not_on_chain : ¬ ∃ c, hdrAt twin.number = some c ∧ c.hash = twin.hash := by
  rintro ⟨c, h1, h2⟩
  have : hdrAt twin.number = some (hd 1) := by rfl
  rw [this] at h1
  simp only [Option.some.injEq] at h1
  subst h1
  revert h2
  decide

end Mmr.Witness

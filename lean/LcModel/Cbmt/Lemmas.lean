import LcModel.Cbmt.Model
/-!
# Cbmt — lemmas: what an accepted transactions Merkle proof binds

`Sub a r`: the hash `a` occurs in the term `r`.  With the guard of the repository (the lemmas are
exactly those the indices require, `need`) the loop of `MerkleProof::root` never skips a node, so
every transaction hash of the message occurs in the calculated root (`root_sub`), hence in the
header's transactions root.  Without the guard this is false (`Cbmt.Witness`).
-/
namespace Cbmt

inductive Sub : T → T → Prop
  | refl (a : T) : Sub a a
  | left {a l r : T} : Sub a l → Sub a (.node l r)
  | right {a l r : T} : Sub a r → Sub a (.node l r)

theorem Sub.trans {a b c : T} (h1 : Sub a b) (h2 : Sub b c) : Sub a c := by
  induction h2 with
  | refl => exact h1
  | left _ ih => exact .left ih
  | right _ ih => exact .right ih

theorem sub_merged_self (i : Nat) (a b : T) :
    Sub a (if isLeft i then merge a b else merge b a) := by
  unfold merge; split
  · exact .left (.refl _)
  · exact .right (.refl _)

theorem sub_merged_other (i : Nat) (a b : T) :
    Sub b (if isLeft i then merge a b else merge b a) := by
  unfold merge; split
  · exact .right (.refl _)
  · exact .left (.refl _)

theorem need_cons (i : Nat) (q0 : List Nat) :
    need (i :: q0) =
      if i = 0 then (if q0.isEmpty then some 0 else none)
      else if i + 1 > U32_MAX then none
      else
        match q0 with
        | f :: q' =>
          if f = sib i then need (q' ++ [parent i])
          else (need (f :: q' ++ [parent i])).map (· + 1)
        | [] => (need [parent i]).map (· + 1) := by
  conv => lhs; unfold need
  split
  · rfl
  · split
    · rfl
    · split <;> rfl

/-- one turn that goes on: the guard stays satisfied and nothing is skipped -/
theorem step_inr_spec {e : Nat × T} {q0 : List (Nat × T)} {lemmas : List T}
    {q' : List (Nat × T)} {l' : List T} (h : step e q0 lemmas = .inr (q', l'))
    (hn : need ((e :: q0).map (·.1)) = some lemmas.length) :
    need (q'.map (·.1)) = some l'.length ∧ ∀ x ∈ e :: q0, ∃ y ∈ q', Sub x.2 y.2 := by
  have hin : ∀ (qq : List (Nat × T)) (pp : Nat × T), pp ∈ qq ++ [pp] := by
    intro qq pp; simp
  simp only [List.map_cons] at hn
  rw [need_cons] at hn
  unfold step at h
  split at h
  · split at h <;> exact absurd h (by simp)
  · rename_i hne
    rw [if_neg hne] at hn
    split at hn
    · simp at hn
    · rename_i hov
      split at h
      · -- the queue is not empty
        rename_i f fn q1
        simp only [List.map_cons] at hn
        have hs : sibling e.1 = .ok (sib e.1) := by
          unfold sibling sib
          rw [if_neg hne, if_neg hov]
        rw [hs] at h
        simp only at h
        split at h
        · rename_i hf
          rw [if_pos hf] at hn
          simp only [Sum.inr.injEq, Prod.mk.injEq] at h
          obtain ⟨h1, h2⟩ := h
          subst h1 h2
          refine ⟨by simpa using hn, ?_⟩
          intro x hx
          simp only [List.mem_cons] at hx
          rcases hx with hx | hx | hx
          · subst hx; exact ⟨_, hin _ _, sub_merged_self _ _ _⟩
          · subst hx; exact ⟨_, hin _ _, sub_merged_other _ _ _⟩
          · exact ⟨x, by simp [hx], .refl _⟩
        · rename_i hf
          rw [if_neg hf] at hn
          split at h
          · rename_i l ls
            simp only [Sum.inr.injEq, Prod.mk.injEq] at h
            obtain ⟨h1, h2⟩ := h
            subst h1 h2
            simp only [List.length_cons, Option.map_eq_some_iff] at hn
            obtain ⟨k, hk, hk2⟩ := hn
            have : k = ls.length := by omega
            subst this
            refine ⟨by simpa using hk, ?_⟩
            intro x hx
            simp only [List.mem_cons] at hx
            rcases hx with hx | hx
            · subst hx; exact ⟨_, hin _ _, sub_merged_self _ _ _⟩
            · exact ⟨x, List.mem_append_left _ (by simpa using hx), .refl _⟩
          · simp only [List.length_nil, Option.map_eq_some_iff] at hn
            obtain ⟨k, _, hk2⟩ := hn
            omega
      · -- the queue is empty
        simp only [List.map_nil] at hn
        split at h
        · rename_i l ls
          simp only [Sum.inr.injEq, Prod.mk.injEq] at h
          obtain ⟨h1, h2⟩ := h
          subst h1 h2
          simp only [List.length_cons, Option.map_eq_some_iff] at hn
          obtain ⟨k, hk, hk2⟩ := hn
          have : k = ls.length := by omega
          subst this
          refine ⟨by simpa using hk, ?_⟩
          intro x hx
          simp only [List.mem_singleton] at hx
          subst hx
          exact ⟨_, List.mem_singleton.2 rfl, sub_merged_self _ _ _⟩
        · simp only [List.length_nil, Option.map_eq_some_iff] at hn
          obtain ⟨k, _, hk2⟩ := hn
          omega

theorem step_inl_some {e : Nat × T} {q0 : List (Nat × T)} {lemmas : List T} {r : T}
    (h : step e q0 lemmas = .inl (.ok (some r))) : q0 = [] ∧ r = e.2 := by
  unfold step at h
  split at h
  · split at h
    · rename_i hc
      simp only [Sum.inl.injEq, Except.ok.injEq, Option.some.injEq] at h
      simp only [Bool.and_eq_true, List.isEmpty_iff] at hc
      exact ⟨hc.2, h.symm⟩
    · simp at h
  · split at h
    · split at h
      · simp at h
      · split at h
        · simp at h
        · split at h <;> simp at h
    · split at h <;> simp at h

/-- under the guard every entry of the queue occurs in the root the loop returns -/
theorem loop_sub (q : List (Nat × T)) (lemmas : List T) (r : T)
    (h : loop q lemmas = .ok (some r)) (hn : need (q.map (·.1)) = some lemmas.length) :
    ∀ x ∈ q, Sub x.2 r := by
  induction q, lemmas using loop.induct with
  | case1 lemmas => rw [loop] at h; simp at h
  | case2 lemmas e q0 res hstep =>
    rw [loop] at h
    split at h
    · rename_i r1 heq
      rw [hstep] at heq
      simp only [Sum.inl.injEq] at heq
      subst heq
      rw [h] at hstep
      obtain ⟨hq, hr⟩ := step_inl_some hstep
      subst hq hr
      intro x hx
      simp only [List.mem_singleton] at hx
      subst hx
      exact .refl _
    · rename_i heq; rw [hstep] at heq; simp at heq
  | case3 lemmas e q0 q' l' hstep ih =>
    rw [loop] at h
    split at h
    · rename_i heq; rw [hstep] at heq; simp at heq
    · rename_i q2 l2 heq
      rw [hstep] at heq
      simp only [Sum.inr.injEq, Prod.mk.injEq] at heq
      obtain ⟨e1, e2⟩ := heq
      subst e1 e2
      obtain ⟨hn', hsub⟩ := step_inr_spec hstep hn
      intro x hx
      obtain ⟨y, hy, hs⟩ := hsub x hx
      exact hs.trans (ih h hn' y hy)

theorem step_no_abort {e : Nat × T} {q0 : List (Nat × T)} {lemmas : List T} {n : Nat}
    (hn : need ((e :: q0).map (·.1)) = some n) (p : Panic) :
    step e q0 lemmas ≠ .inl (.error p) := by
  simp only [List.map_cons] at hn
  rw [need_cons] at hn
  unfold step
  split
  · split <;> simp
  · rename_i hne
    rw [if_neg hne] at hn
    split at hn
    · simp at hn
    · rename_i hov
      split
      · have hs : sibling e.1 = .ok (sib e.1) := by
          unfold sibling sib
          rw [if_neg hne, if_neg hov]
        rw [hs]
        simp only
        split
        · simp
        · split <;> simp
      · split <;> simp

/-- under the guard the loop of `MerkleProof::root` does not abort -/
theorem loop_no_abort (q : List (Nat × T)) (lemmas : List T)
    (hn : need (q.map (·.1)) = some lemmas.length) : ∃ v, loop q lemmas = .ok v := by
  induction q, lemmas using loop.induct with
  | case1 lemmas => exact ⟨none, by rw [loop]⟩
  | case2 lemmas e q0 res hstep =>
    rw [loop]
    split
    · rename_i r1 heq
      rw [hstep] at heq
      simp only [Sum.inl.injEq] at heq
      subst heq
      cases hr : res with
      | ok v => exact ⟨v, rfl⟩
      | error p => rw [hr] at hstep; exact absurd hstep (step_no_abort hn p)
    · rename_i heq; rw [hstep] at heq; simp at heq
  | case3 lemmas e q0 q' l' hstep ih =>
    rw [loop]
    split
    · rename_i heq; rw [hstep] at heq; simp at heq
    · rename_i q2 l2 heq
      rw [hstep] at heq
      simp only [Sum.inr.injEq, Prod.mk.injEq] at heq
      obtain ⟨e1, e2⟩ := heq
      subst e1 e2
      exact ih (step_inr_spec hstep hn).1

/-! ## sorting keeps the entries and commutes with the projection to the indices -/

theorem mem_insertBy {α} (key : α → Nat) (x y : α) (l : List α) :
    y ∈ insertBy key x l ↔ y = x ∨ y ∈ l := by
  induction l with
  | nil => simp [insertBy]
  | cons z zs ih =>
    unfold insertBy
    split
    · simp
    · simp only [List.mem_cons, ih]
      constructor
      · rintro (h | h | h) <;> simp [h]
      · rintro (h | h | h) <;> simp [h]

theorem mem_sortBy_aux {α} (key : α → Nat) (l acc : List α) (y : α) :
    y ∈ l.foldl (fun acc x => insertBy key x acc) acc ↔ y ∈ l ∨ y ∈ acc := by
  induction l generalizing acc with
  | nil => simp
  | cons x xs ih =>
    simp only [List.foldl_cons, ih, mem_insertBy, List.mem_cons]
    constructor
    · rintro (h | h | h) <;> simp [h]
    · rintro ((h | h) | h) <;> simp [h]

theorem mem_sortBy {α} (key : α → Nat) (l : List α) (y : α) : y ∈ sortBy key l ↔ y ∈ l := by
  simp [sortBy, mem_sortBy_aux]

theorem length_insertBy {α} (key : α → Nat) (x : α) (l : List α) :
    (insertBy key x l).length = l.length + 1 := by
  induction l with
  | nil => simp [insertBy]
  | cons z zs ih => unfold insertBy; split <;> simp [ih]

theorem length_sortBy_aux {α} (key : α → Nat) (l acc : List α) :
    (l.foldl (fun acc x => insertBy key x acc) acc).length = l.length + acc.length := by
  induction l generalizing acc with
  | nil => simp
  | cons x xs ih => simp [ih, length_insertBy]; omega

theorem length_sortBy {α} (key : α → Nat) (l : List α) : (sortBy key l).length = l.length := by
  simp [sortBy, length_sortBy_aux]

theorem mem_insertDesc (x y : Nat × T) (l : List (Nat × T)) :
    y ∈ insertDesc x l ↔ y = x ∨ y ∈ l := by
  induction l with
  | nil => simp [insertDesc]
  | cons z zs ih =>
    unfold insertDesc
    split
    · simp
    · simp only [List.mem_cons, ih]
      constructor
      · rintro (h | h | h) <;> simp [h]
      · rintro (h | h | h) <;> simp [h]

theorem mem_sortDesc_aux (l acc : List (Nat × T)) (y : Nat × T) :
    y ∈ l.foldl (fun acc x => insertDesc x acc) acc ↔ y ∈ l ∨ y ∈ acc := by
  induction l generalizing acc with
  | nil => simp
  | cons x xs ih =>
    simp only [List.foldl_cons, ih, mem_insertDesc, List.mem_cons]
    constructor
    · rintro (h | h | h) <;> simp [h]
    · rintro ((h | h) | h) <;> simp [h]

theorem mem_sortDesc (l : List (Nat × T)) (y : Nat × T) : y ∈ sortDesc l ↔ y ∈ l := by
  simp [sortDesc, mem_sortDesc_aux]

theorem map_fst_insertDesc (x : Nat × T) (l : List (Nat × T)) :
    (insertDesc x l).map (·.1) = insertDescNat x.1 (l.map (·.1)) := by
  induction l with
  | nil => simp [insertDesc, insertDescNat]
  | cons z zs ih =>
    simp only [insertDesc, List.map_cons, insertDescNat]
    split <;> simp [ih]

theorem map_fst_sortDesc_aux (l acc : List (Nat × T)) :
    (l.foldl (fun acc x => insertDesc x acc) acc).map (·.1) =
      (l.map (·.1)).foldl (fun acc x => insertDescNat x acc) (acc.map (·.1)) := by
  induction l generalizing acc with
  | nil => simp
  | cons x xs ih => simp only [List.foldl_cons, List.map_cons, ih, map_fst_insertDesc]

theorem map_fst_sortDesc (l : List (Nat × T)) :
    (sortDesc l).map (·.1) = sortDescNat (l.map (·.1)) := by
  simp [sortDesc, sortDescNat, map_fst_sortDesc_aux]

/-- **what `MerkleProof::root` binds under the guard**: every hash of the list occurs in the root -/
theorem root_sub (indices : List Nat) (lemmas leaves : List T) (r : T)
    (h : root indices lemmas leaves = .ok (some r))
    (hn : need (sortDescNat indices) = some lemmas.length) :
    ∀ t ∈ leaves, Sub t r := by
  unfold root at h
  split at h
  · simp at h
  · rename_i hc
    simp only [not_or, Decidable.not_not] at hc
    obtain ⟨hlen, _⟩ := hc
    have hlen2 : (sortBy T.key leaves).length = indices.length := by rw [length_sortBy]; exact hlen
    have hmap : (sortDesc (indices.zip (sortBy T.key leaves))).map (·.1) = sortDescNat indices := by
      rw [map_fst_sortDesc]
      congr 1
      exact List.map_fst_zip (by omega)
    have := loop_sub _ _ r h (by rw [hmap]; exact hn)
    intro t ht
    have ht2 : t ∈ (indices.zip (sortBy T.key leaves)).map (·.2) := by
      rw [List.map_snd_zip (by omega)]
      exact (mem_sortBy _ _ _).2 ht
    obtain ⟨p, hp, hp2⟩ := List.mem_map.1 ht2
    have := this p ((mem_sortDesc _ _).2 hp)
    rw [hp2] at this
    exact this

/-- **soundness of the check of a filtered block** (with the guard): if the header's transactions
root is `merge rawRoot witnessesRoot'` - blake2b being injective - an accepted list of transaction
hashes consists of hashes that occur in `rawRoot`. -/
theorem checkFilteredBlock_sound (rawRoot wr witnessesRoot : T) (indices : List Nat)
    (lemmas txHashes : List T)
    (h : checkFilteredBlock (merge rawRoot wr) witnessesRoot indices lemmas txHashes = .ok true) :
    ∀ t ∈ txHashes, Sub t rawRoot := by
  unfold checkFilteredBlock checkFilteredBlockCfg at h
  split at h
  · simp at h
  · rename_i hg
    simp only [Bool.true_and, bne_iff_ne, ne_eq, Decidable.not_not] at hg
    split at h
    · simp at h
    · simp at h
    · rename_i r hr
      simp only [Except.ok.injEq, decide_eq_true_eq] at h
      unfold merge at h
      simp only [T.node.injEq] at h
      rw [← h.1] at hr
      exact root_sub indices lemmas txHashes rawRoot hr hg

/-- **the check of a filtered block never aborts** (with the guard), whatever indices, lemmas and
hashes the peer sends -/
theorem checkFilteredBlock_no_abort (troot witnessesRoot : T) (indices : List Nat)
    (lemmas txHashes : List T) :
    ∃ b, checkFilteredBlock troot witnessesRoot indices lemmas txHashes = .ok b := by
  unfold checkFilteredBlock checkFilteredBlockCfg
  split
  · exact ⟨false, rfl⟩
  · rename_i hg
    simp only [Bool.true_and, bne_iff_ne, ne_eq, Decidable.not_not] at hg
    have hroot : ∃ v, root indices lemmas txHashes = .ok v := by
      unfold root
      split
      · exact ⟨none, rfl⟩
      · rename_i hc
        simp only [not_or, Decidable.not_not] at hc
        obtain ⟨hlen, _⟩ := hc
        have hlen2 : (sortBy T.key txHashes).length = indices.length := by
          rw [length_sortBy]; exact hlen
        apply loop_no_abort
        rw [map_fst_sortDesc]
        have : (indices.zip (sortBy T.key txHashes)).map (·.1) = indices :=
          List.map_fst_zip (by omega)
        rw [this]
        exact hg
    obtain ⟨v, hv⟩ := hroot
    rw [hv]
    cases v with
    | none => exact ⟨false, rfl⟩
    | some r => exact ⟨_, rfl⟩

end Cbmt

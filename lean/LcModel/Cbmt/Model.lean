import LcModel.Prelude
/-!
# Cbmt — the transactions Merkle proof of `SendTransactionsProof`

Mirrors `merkle-cbt 0.3.2` `MerkleProof::{root, verify}` with the `u32` index helpers
`sibling / parent / is_left`, `ckb-types` `MergeByte32::merge` and `merkle_root(&[a, b])`, and the
check of one filtered block in
`/repo/src/protocols/light_client/components/send_transactions_proof.rs`:

    MerkleProof::new(indices, lemmas).root(&tx_hashes)
        .map(|raw_root| header.transactions_root == merkle_root(&[raw_root, witnesses_root]))

blake2b is a free term algebra (`T`); `Byte32: Ord` is the order of the ids of the atoms the
harness sends (it interns the hashes in byte order) - `root` sorts the leaves by value and pairs
them with the indices as given.  `u32` arithmetic of the index helpers is kept (`self + 1` of
`sibling` aborts at 2^32 - 1 with overflow checks on).  Core Lean only: linked into `lcmodel`.
-/
namespace Cbmt

/-- 32-byte values: an opaque value with its rank in byte order, or blake2b of two values -/
inductive T where
  | atom (rank : Nat)
  | node (l r : T)
  deriving DecidableEq, Repr, Inhabited

/-- `MergeByte32::merge` -/
def merge (l r : T) : T := .node l r

/-- the byte order of hashes, as far as the model needs it: atoms by rank; a computed node
never occurs among the leaves the harness sends -/
def T.key : T → Nat
  | .atom r => r
  | .node _ _ => 0

/-- `index.sibling()`: `((self + 1) ^ 1) - 1` on `u32` -/
def sibling (i : Nat) : M Nat :=
  if i = 0 then .ok 0
  else if i + 1 > U32_MAX then .error (.overflow 951)
  else .ok (if (i + 1) % 2 = 0 then i + 1 else i - 1)

/-- `index.parent()` -/
def parent (i : Nat) : Nat := if i = 0 then 0 else (i - 1) / 2

/-- `index.is_left()` -/
def isLeft (i : Nat) : Bool := i % 2 = 1

/-- insertion sort by a key, stable -/
def insertBy {α} (key : α → Nat) (x : α) : List α → List α
  | [] => [x]
  | y :: ys => if key x < key y then x :: y :: ys else y :: insertBy key x ys

def sortBy {α} (key : α → Nat) (l : List α) : List α :=
  l.foldl (fun acc x => insertBy key x acc) []

/-- `sort_by_key(|i| Reverse(i.0))`, stable: descending index -/
def insertDesc (x : Nat × T) : List (Nat × T) → List (Nat × T)
  | [] => [x]
  | y :: ys => if x.1 > y.1 then x :: y :: ys else y :: insertDesc x ys

def sortDesc (l : List (Nat × T)) : List (Nat × T) :=
  l.foldl (fun acc x => insertDesc x acc) []

def qWeight (q : List (Nat × T)) : Nat := (q.map (fun e => e.1 + 1)).sum

/-- one turn of `while let Some((index, node)) = queue.pop_front()`: `inl` = return -/
def step (e : Nat × T) (q : List (Nat × T)) (lemmas : List T) :
    M (Option T) ⊕ (List (Nat × T) × List T) :=
  if e.1 = 0 then
    if lemmas.isEmpty && q.isEmpty then .inl (.ok (some e.2)) else .inl (.ok none)
  else
    match q with
    | (f, fn) :: q' =>
      (match sibling e.1 with
       | .error p => .inl (.error p)
       | .ok s =>
         if f = s then
           .inr (q' ++ [(parent e.1, if isLeft e.1 then merge e.2 fn else merge fn e.2)], lemmas)
         else
           match lemmas with
           | l :: ls =>
             .inr (q ++ [(parent e.1, if isLeft e.1 then merge e.2 l else merge l e.2)], ls)
           | [] => .inr (q, []))
    | [] =>
      match lemmas with
      | l :: ls => .inr ([(parent e.1, if isLeft e.1 then merge e.2 l else merge l e.2)], ls)
      | [] => .inr ([], [])

theorem parent_lt {i : Nat} (h : i ≠ 0) : parent i < i := by
  unfold parent; rw [if_neg h]; omega

theorem qWeight_cons (e : Nat × T) (q : List (Nat × T)) :
    qWeight (e :: q) = e.1 + 1 + qWeight q := by simp [qWeight]
theorem qWeight_append (q : List (Nat × T)) (e : Nat × T) :
    qWeight (q ++ [e]) = qWeight q + (e.1 + 1) := by simp [qWeight]

theorem step_decreases (e : Nat × T) (q : List (Nat × T)) (lemmas : List T)
    (q' : List (Nat × T)) (l' : List T) (h : step e q lemmas = .inr (q', l')) :
    qWeight q' < qWeight (e :: q) := by
  unfold step at h
  split at h
  · split at h <;> exact absurd h (by simp)
  · rename_i hne
    have hp := parent_lt hne
    split at h
    · split at h
      · exact absurd h (by simp)
      · split at h
        · simp only [Sum.inr.injEq, Prod.mk.injEq] at h
          obtain ⟨h1, _⟩ := h; subst h1
          simp only [qWeight_append, qWeight_cons]; omega
        · split at h
          · simp only [Sum.inr.injEq, Prod.mk.injEq] at h
            obtain ⟨h1, _⟩ := h; subst h1
            simp only [qWeight_append, qWeight_cons]; omega
          · simp only [Sum.inr.injEq, Prod.mk.injEq] at h
            obtain ⟨h1, _⟩ := h; subst h1
            simp only [qWeight_cons]; omega
    · split at h
      · simp only [Sum.inr.injEq, Prod.mk.injEq] at h
        obtain ⟨h1, _⟩ := h; subst h1
        simp [qWeight]; omega
      · simp only [Sum.inr.injEq, Prod.mk.injEq] at h
        obtain ⟨h1, _⟩ := h; subst h1
        simp [qWeight]

/-- the loop of `MerkleProof::root` -/
def loop (q : List (Nat × T)) (lemmas : List T) : M (Option T) :=
  match q with
  | [] => .ok none
  | e :: q0 =>
    match h : step e q0 lemmas with
    | .inl r => r
    | .inr (q', l') => loop q' l'
termination_by qWeight q
decreasing_by exact step_decreases e q0 lemmas q' l' h

/-- `MerkleProof::root(leaves)` -/
def root (indices : List Nat) (lemmas leaves : List T) : M (Option T) :=
  if leaves.length ≠ indices.length ∨ leaves.isEmpty then .ok none
  else loop (sortDesc (indices.zip (sortBy T.key leaves))) lemmas

/-! ## the guard of the repository: the lemmas the indices require

`MerkleProof::root` SKIPS a node that has neither its sibling at the front of the queue nor a lemma
left, and goes on; when the rest of the queue still reaches the root the skipped hash has passed
without being part of anything.  The repair replays the loop on the indices alone and insists on
exactly the number of lemmas they need (and refuses the index 2^32 - 1, whose `sibling()` aborts). -/

def iWeight (q : List Nat) : Nat := (q.map (· + 1)).sum

theorem iWeight_cons (i : Nat) (q : List Nat) : iWeight (i :: q) = i + 1 + iWeight q := by
  simp [iWeight]
theorem iWeight_append (q : List Nat) (i : Nat) : iWeight (q ++ [i]) = iWeight q + (i + 1) := by
  simp [iWeight]

/-- the sibling of a non-zero index below 2^32 - 1 -/
def sib (i : Nat) : Nat := if (i + 1) % 2 = 0 then i + 1 else i - 1

/-- `required_lemmas`: the queue of indices (descending), result = lemmas needed; `none` = the
indices do not end in the root alone, or contain 2^32 - 1 -/
def need (q : List Nat) : Option Nat :=
  match q with
  | [] => none
  | i :: q0 =>
    if h0 : i = 0 then (if q0.isEmpty then some 0 else none)
    else if i + 1 > U32_MAX then none
    else
      match q0 with
      | f :: q' =>
        if f = sib i then need (q' ++ [parent i])
        else (need (f :: q' ++ [parent i])).map (· + 1)
      | [] => (need [parent i]).map (· + 1)
termination_by iWeight q
decreasing_by
  · have := parent_lt h0
    simp only [iWeight_append, iWeight_cons]; omega
  · have := parent_lt h0
    simp only [List.cons_append, iWeight_append, iWeight_cons]; omega
  · have := parent_lt h0
    simp [iWeight]; omega

def insertDescNat (x : Nat) : List Nat → List Nat
  | [] => [x]
  | y :: ys => if x > y then x :: y :: ys else y :: insertDescNat x ys

def sortDescNat (l : List Nat) : List Nat := l.foldl (fun acc x => insertDescNat x acc) []

/-- the check of one filtered block: `Some(true)` of the match in `execute`; `guard = false` is
the code before the repair -/
def checkFilteredBlockCfg (guard : Bool) (transactionsRoot witnessesRoot : T) (indices : List Nat)
    (lemmas txHashes : List T) : M Bool :=
  if guard && need (sortDescNat indices) != some lemmas.length then .ok false
  else
    match root indices lemmas txHashes with
    | .error p => .error p
    | .ok none => .ok false
    | .ok (some r) => .ok (decide (transactionsRoot = merge r witnessesRoot))

def checkFilteredBlock := checkFilteredBlockCfg true

end Cbmt

/-! ## driver (`lcmodel cbmt`) -/
namespace Cbmt

/-- id ↦ the two ids it is the blake2b of -/
def resolve : Nat → List (Nat × Nat × Nat) → Nat → T
  | 0, _, id => .atom id
  | fuel + 1, t, id =>
    match t.find? (fun e => e.1 == id) with
    | some (_, l, r) => .node (resolve fuel t l) (resolve fuel t r)
    | none => .atom id

def triples : List Nat → List (Nat × Nat × Nat)
  | a :: b :: c :: rest => (a, b, c) :: triples rest
  | _ => []

def showM : M Bool → String
  | .ok true => "ok"
  | .ok false => "invalid"
  | .error p => showPanic p

/-- `cb <nd> <3·nd defs> <troot> <wroot> <ni> <indices> <nl> <lemmas> <nt> <tx hashes>` -/
def stepLineCfg (guard : Bool) (rest : List String) : String :=
    (match natsOf rest with
     | some (nd :: xs) =>
       let defs := triples (xs.take (3 * nd))
       (match xs.drop (3 * nd) with
        | troot :: wroot :: ni :: ys =>
          let indices := ys.take ni
          (match ys.drop ni with
           | nl :: zs =>
             let lemmas := (zs.take nl).map (resolve 40 defs)
             (match zs.drop nl with
              | nt :: ws =>
                if ws.length = nt ∧ indices.length = ni ∧ lemmas.length = nl then
                  showM (checkFilteredBlockCfg guard (resolve 40 defs troot) (resolve 40 defs wroot)
                    indices lemmas (ws.map (resolve 40 defs)))
                else "bad-op"
              | _ => "bad-op")
           | _ => "bad-op")
        | _ => "bad-op")
     | _ => "bad-op")

/-- `cb …`: the check of the repository; `cb0 …`: the library alone (the code before the repair) -/
def stepLine (line : String) : String :=
  match tokens line with
  | "cb" :: rest => stepLineCfg true rest
  | "cb0" :: rest => stepLineCfg false rest
  | _ => "bad-op"

end Cbmt

import LcModel.Cbmt.Lemmas
/-!
# Cbmt — the two defects of the check before the repair, on a block that holds one transaction
-/
namespace Cbmt.Witness
open Cbmt

/-- the only transaction of the block (its hash is the raw transactions root) -/
def c : T := .atom 5
/-- a made-up transaction -/
def x : T := .atom 7
def wroot : T := .atom 9
def troot : T := merge c wroot

theorem st1 : step (5, x) [(0, c)] [] = .inr ([(0, c)], []) := by rfl
theorem st2 : step (0, c) [] [] = .inl (.ok (some c)) := by rfl

theorem loop_skips : loop [(5, x), (0, c)] [] = .ok (some c) := by
  rw [loop]
  split
  · rename_i heq; rw [st1] at heq; simp at heq
  · rename_i q' l' heq
    rw [st1] at heq
    simp only [Sum.inr.injEq, Prod.mk.injEq] at heq
    obtain ⟨e1, e2⟩ := heq
    subst e1 e2
    rw [loop]
    split
    · rename_i heq; rw [st2] at heq; simp only [Sum.inl.injEq] at heq; rw [← heq]
    · rename_i heq; rw [st2] at heq; simp at heq

/-- the made-up transaction next to the block's only one: `root` skips it and returns the root -/
theorem root_skips : root [0, 5] [] [x, c] = .ok (some c) := by
  have hs : sortDesc ([0, 5].zip (sortBy T.key [x, c])) = [(5, x), (0, c)] := by rfl
  unfold root
  rw [if_neg (by decide), hs, loop_skips]

theorem old_check_accepts : checkFilteredBlockCfg false troot wroot [0, 5] [] [x, c] = .ok true := by
  unfold checkFilteredBlockCfg
  rw [if_neg (by decide), root_skips]
  rfl

theorem need_05 : need (sortDescNat [0, 5]) = none := by
  have : sortDescNat [0, 5] = [5, 0] := by rfl
  rw [this, need_cons, if_neg (by decide), if_neg (by decide)]
  simp only
  rw [if_neg (by decide)]
  have : need (0 :: [] ++ [parent 5]) = none := by
    rw [show (0 :: ([] : List Nat) ++ [parent 5]) = 0 :: [parent 5] from rfl, need_cons]
    rfl
  rw [this]
  rfl

theorem new_check_rejects : checkFilteredBlock troot wroot [0, 5] [] [x, c] = .ok false := by
  unfold checkFilteredBlock checkFilteredBlockCfg
  rw [need_05]
  rfl

theorem loop_single : loop [(0, c)] [] = .ok (some c) := by
  rw [loop]
  split
  · rename_i heq; rw [st2] at heq; simp only [Sum.inl.injEq] at heq; rw [← heq]
  · rename_i heq; rw [st2] at heq; simp at heq

/-- the honest proof of the only transaction of the block is accepted -/
theorem honest_single : checkFilteredBlock troot wroot [0] [] [c] = .ok true := by
  have hn : need (sortDescNat [0]) = some 0 := by
    have : sortDescNat [0] = [0] := by rfl
    rw [this, need_cons]
    rfl
  have hs : sortDesc ([0].zip (sortBy T.key [c])) = [(0, c)] := by rfl
  unfold checkFilteredBlock checkFilteredBlockCfg
  rw [hn]
  unfold root
  rw [if_neg (by decide), if_neg (by decide), hs, loop_single]
  rfl

theorem x_not_in_root : ¬ Sub x c := by
  intro h
  cases h

/-- the index 2^32 - 1 in front of another one: `sibling()` aborts -/
theorem st_abort : step (U32_MAX, x) [(3, c)] [] = .inl (.error (.overflow 951)) := by rfl

theorem loop_aborts : loop [(U32_MAX, x), (3, c)] [] = .error (.overflow 951) := by
  rw [loop]
  split
  · rename_i heq; rw [st_abort] at heq; simp only [Sum.inl.injEq] at heq; rw [← heq]
  · rename_i heq; rw [st_abort] at heq; simp at heq

theorem old_check_aborts :
    checkFilteredBlockCfg false troot wroot [3, U32_MAX] [] [x, c] = .error (.overflow 951) := by
  have hs : sortDesc ([3, U32_MAX].zip (sortBy T.key [x, c])) = [(U32_MAX, x), (3, c)] := by
    decide
  unfold checkFilteredBlockCfg root
  rw [if_neg (by decide), if_neg (by decide), hs, loop_aborts]

end Cbmt.Witness

import LcModel.Index.Model
/-! helper lemmas for the Index layer -/
namespace Index

/-! ## association lists -/

section Assoc
variable {κ ν : Type} [DecidableEq κ]

theorem lookup_nil (k : κ) : lookup ([] : List (κ × ν)) k = none := rfl

theorem lookup_cons (a : κ × ν) (l : List (κ × ν)) (k : κ) :
    lookup (a :: l) k = if a.1 = k then some a.2 else lookup l k := by
  unfold lookup
  rw [List.find?_cons]
  by_cases h : a.1 = k <;> simp [h]

theorem lookup_del (l : List (κ × ν)) (k k' : κ) :
    lookup (del l k) k' = if k' = k then none else lookup l k' := by
  induction l with
  | nil => simp [del, lookup]
  | cons a l ih =>
    unfold del at ih ⊢
    rw [List.filter_cons]
    by_cases h : a.1 = k
    · simp only [h, ne_eq, not_true_eq_false, decide_false, Bool.false_eq_true, ↓reduceIte]
      rw [ih, lookup_cons]
      by_cases h' : k' = k
      · simp [h']
      · have : ¬ a.1 = k' := fun e => h' (e ▸ h)
        simp [h', this]
    · simp only [ne_eq, h, not_false_eq_true, decide_true, ↓reduceIte]
      rw [lookup_cons, lookup_cons, ih]
      by_cases h' : k' = k
      · subst h'
        simp [h]
      · simp [h']

theorem lookup_append (l1 l2 : List (κ × ν)) (k : κ) :
    lookup (l1 ++ l2) k = (lookup l1 k).or (lookup l2 k) := by
  induction l1 with
  | nil => simp [lookup_nil]
  | cons a l ih =>
    rw [List.cons_append, lookup_cons, lookup_cons, ih]
    by_cases h : a.1 = k <;> simp [h]

theorem lookup_put (l : List (κ × ν)) (k : κ) (v : ν) (k' : κ) :
    lookup (put l k v) k' = if k' = k then some v else lookup l k' := by
  have h := lookup_del l k k'
  unfold del at h
  unfold put
  rw [lookup_append, h, lookup_cons, lookup_nil]
  by_cases h' : k' = k
  · simp [h']
  · have : ¬ k = k' := fun e => h' e.symm
    simp [h', this]

/-- one write to an association list: `some v` = put, `none` = delete -/
def applyW (l : List (κ × ν)) (w : κ × Option ν) : List (κ × ν) :=
  match w.2 with
  | some v => put l w.1 v
  | none => del l w.1

theorem lookup_applyW (l : List (κ × ν)) (w : κ × Option ν) (k : κ) :
    lookup (applyW l w) k = if k = w.1 then w.2 else lookup l k := by
  obtain ⟨wk, wv⟩ := w
  cases wv with
  | none => simp [applyW, lookup_del]
  | some v => simp [applyW, lookup_put]

/-- no write mentions `k`: its binding is unchanged -/
theorem lookup_foldl_applyW_unch (ws : List (κ × Option ν)) (l : List (κ × ν)) (k : κ)
    (h : ∀ w ∈ ws, w.1 ≠ k) : lookup (ws.foldl applyW l) k = lookup l k := by
  induction ws generalizing l with
  | nil => rfl
  | cons w ws ih =>
    rw [List.foldl_cons, ih _ (fun w' hw' => h w' (List.mem_cons_of_mem _ hw')), lookup_applyW]
    have := h w List.mem_cons_self
    have : ¬ k = w.1 := fun e => this e.symm
    simp [this]

/-- every write that mentions `k` writes `v`, and there is one: the binding is `v` -/
theorem lookup_foldl_applyW_const (ws : List (κ × Option ν)) (l : List (κ × ν)) (k : κ)
    (v : Option ν) (hex : (k, v) ∈ ws) (hall : ∀ w ∈ ws, w.1 = k → w.2 = v) :
    lookup (ws.foldl applyW l) k = v := by
  induction ws generalizing l with
  | nil => simp at hex
  | cons w ws ih =>
    rw [List.foldl_cons]
    by_cases hr : ∃ w' ∈ ws, w'.1 = k
    · obtain ⟨w', hw', hk'⟩ := hr
      have hv : w'.2 = v := hall w' (List.mem_cons_of_mem _ hw') hk'
      have : (k, v) ∈ ws := by
        have : w' = (k, v) := Prod.ext hk' hv
        exact this ▸ hw'
      exact ih _ this (fun w'' hw'' => hall w'' (List.mem_cons_of_mem _ hw''))
    · have hr' : ∀ w' ∈ ws, w'.1 ≠ k := fun w' hw' hk' => hr ⟨w', hw', hk'⟩
      rw [lookup_foldl_applyW_unch ws _ k hr', lookup_applyW]
      have hw : w = (k, v) := by
        rcases List.mem_cons.mp hex with e | e
        · exact e.symm
        · exact absurd rfl (hr' _ e)
      simp [hw]

end Assoc

/-! ## lists -/

theorem rev_ind {α} {P : List α → Prop} (h0 : P []) (hs : ∀ l a, P l → P (l ++ [a]))
    (l : List α) : P l := by
  have : ∀ r : List α, P r.reverse := by
    intro r
    induction r with
    | nil => simpa
    | cons a r ih => rw [List.reverse_cons]; exact hs _ _ ih
  simpa using this l.reverse

theorem getElem?_eq_some_iff_split {α} (l : List α) (i : Nat) (x : α) :
    l[i]? = some x ↔ ∃ pre post, l = pre ++ x :: post ∧ pre.length = i := by
  constructor
  · intro h
    induction l generalizing i with
    | nil => simp at h
    | cons a l ih =>
      cases i with
      | zero =>
        simp at h
        exact ⟨[], l, by simp [h], rfl⟩
      | succ i =>
        simp at h
        obtain ⟨pre, post, e, hl⟩ := ih i h
        exact ⟨a :: pre, post, by simp [e], by simp [hl]⟩
  · rintro ⟨pre, post, rfl, rfl⟩
    simp

theorem mem_enum {α} (l : List α) (i : Nat) (x : α) : (i, x) ∈ enum l ↔ l[i]? = some x := by
  unfold enum
  rw [List.mem_iff_getElem?]
  constructor
  · rintro ⟨j, hj⟩
    rw [List.getElem?_zip_eq_some] at hj
    obtain ⟨h1, h2⟩ := hj
    simp only at h1 h2
    have hlt : j < l.length := by
      rcases Nat.lt_or_ge j l.length with h | h
      · exact h
      · rw [List.getElem?_eq_none (by simpa using h)] at h1; simp at h1
    rw [List.getElem?_range hlt] at h1
    have : j = i := by simpa using h1
    exact this ▸ h2
  · intro h
    refine ⟨i, ?_⟩
    rw [List.getElem?_zip_eq_some]
    have hlt : i < l.length := by
      obtain ⟨hh, _⟩ := List.getElem?_eq_some_iff.mp h
      exact hh
    exact ⟨by simp [List.getElem?_range hlt], h⟩

/-! ## operations as writes -/

def cellW : Op → Option (CellKey × Option Nat)
  | .putCell k h => some (k, some h)
  | .delCell k => some (k, none)
  | _ => none

def histW : Op → Option (HistKey × Option Nat)
  | .putHist k h => some (k, some h)
  | .delHist k => some (k, none)
  | _ => none

def txW : Op → Option (Nat × Option TxRec)
  | .putTx h r => some (h, some r)
  | _ => none

theorem foldl_applyOp_cells (ops : List Op) (s : St) :
    (ops.foldl applyOp s).cells = (ops.filterMap cellW).foldl applyW s.cells := by
  induction ops generalizing s with
  | nil => rfl
  | cons op ops ih =>
    rw [List.foldl_cons, ih]
    cases op <;> first | rfl | simp [applyOp, cellW, applyW, List.filterMap_cons]

theorem foldl_applyOp_hist (ops : List Op) (s : St) :
    (ops.foldl applyOp s).hist = (ops.filterMap histW).foldl applyW s.hist := by
  induction ops generalizing s with
  | nil => rfl
  | cons op ops ih =>
    rw [List.foldl_cons, ih]
    cases op <;> first | rfl | simp [applyOp, histW, applyW, List.filterMap_cons]

theorem foldl_applyOp_txs (ops : List Op) (s : St) :
    (ops.foldl applyOp s).txs = (ops.filterMap txW).foldl applyW s.txs := by
  induction ops generalizing s with
  | nil => rfl
  | cons op ops ih =>
    rw [List.foldl_cons, ih]
    cases op <;> first | rfl | simp [applyOp, txW, applyW, List.filterMap_cons]

theorem foldl_applyOp_scripts (ops : List Op) (s : St) (h : ∀ k bn, Op.putScript k bn ∉ ops) :
    (ops.foldl applyOp s).scripts = s.scripts := by
  induction ops generalizing s with
  | nil => rfl
  | cons op ops ih =>
    rw [List.foldl_cons, ih _ (fun k bn hm => h k bn (List.mem_cons_of_mem _ hm))]
    cases op <;> simp [applyOp]
    exact absurd List.mem_cons_self (h _ _)

theorem mem_filterMap_cellW {ops : List Op} {w : CellKey × Option Nat} :
    w ∈ ops.filterMap cellW ↔
      (∃ h, w.2 = some h ∧ Op.putCell w.1 h ∈ ops) ∨ (w.2 = none ∧ Op.delCell w.1 ∈ ops) := by
  rw [List.mem_filterMap]
  constructor
  · rintro ⟨op, hop, e⟩
    cases op <;> simp [cellW] at e
    · subst e; exact Or.inl ⟨_, rfl, hop⟩
    · subst e; exact Or.inr ⟨rfl, hop⟩
  · obtain ⟨k, v⟩ := w
    rintro (⟨h, e, hop⟩ | ⟨e, hop⟩)
    · simp only at e hop; subst e; exact ⟨_, hop, rfl⟩
    · simp only at e hop; subst e; exact ⟨_, hop, rfl⟩

theorem mem_filterMap_histW {ops : List Op} {w : HistKey × Option Nat} :
    w ∈ ops.filterMap histW ↔
      (∃ h, w.2 = some h ∧ Op.putHist w.1 h ∈ ops) ∨ (w.2 = none ∧ Op.delHist w.1 ∈ ops) := by
  rw [List.mem_filterMap]
  constructor
  · rintro ⟨op, hop, e⟩
    cases op <;> simp [histW] at e
    · subst e; exact Or.inl ⟨_, rfl, hop⟩
    · subst e; exact Or.inr ⟨rfl, hop⟩
  · obtain ⟨k, v⟩ := w
    rintro (⟨h, e, hop⟩ | ⟨e, hop⟩)
    · simp only at e hop; subst e; exact ⟨_, hop, rfl⟩
    · simp only at e hop; subst e; exact ⟨_, hop, rfl⟩

theorem mem_filterMap_txW {ops : List Op} {w : Nat × Option TxRec} :
    w ∈ ops.filterMap txW ↔ ∃ r, w.2 = some r ∧ Op.putTx w.1 r ∈ ops := by
  rw [List.mem_filterMap]
  constructor
  · rintro ⟨op, hop, e⟩
    cases op <;> simp [txW] at e
    subst e; exact ⟨_, rfl, hop⟩
  · obtain ⟨k, v⟩ := w
    rintro ⟨h, e, hop⟩
    simp only at e hop; subst e; exact ⟨_, hop, rfl⟩

/-! ### last-writer lemmas per keyspace -/

theorem cells_lookup_unch (ops : List Op) (s : St) (k : CellKey)
    (hp : ∀ h, Op.putCell k h ∉ ops) (hd : Op.delCell k ∉ ops) :
    lookup (ops.foldl applyOp s).cells k = lookup s.cells k := by
  rw [foldl_applyOp_cells]
  apply lookup_foldl_applyW_unch
  intro w hw e
  rcases mem_filterMap_cellW.mp hw with ⟨h, _, hop⟩ | ⟨_, hop⟩
  · exact hp h (e ▸ hop)
  · exact hd (e ▸ hop)

theorem cells_lookup_put (ops : List Op) (s : St) (k : CellKey) (h : Nat)
    (hex : Op.putCell k h ∈ ops) (hp : ∀ h', Op.putCell k h' ∈ ops → h' = h)
    (hd : Op.delCell k ∉ ops) :
    lookup (ops.foldl applyOp s).cells k = some h := by
  rw [foldl_applyOp_cells]
  apply lookup_foldl_applyW_const
  · exact mem_filterMap_cellW.mpr (Or.inl ⟨h, rfl, hex⟩)
  · intro w hw e
    rcases mem_filterMap_cellW.mp hw with ⟨h', e', hop⟩ | ⟨_, hop⟩
    · rw [e', hp h' (e ▸ hop)]
    · exact absurd (e ▸ hop) hd

theorem cells_lookup_del (ops : List Op) (s : St) (k : CellKey)
    (hex : Op.delCell k ∈ ops) (hp : ∀ h', Op.putCell k h' ∉ ops) :
    lookup (ops.foldl applyOp s).cells k = none := by
  rw [foldl_applyOp_cells]
  apply lookup_foldl_applyW_const
  · exact mem_filterMap_cellW.mpr (Or.inr ⟨rfl, hex⟩)
  · intro w hw e
    rcases mem_filterMap_cellW.mp hw with ⟨h', _, hop⟩ | ⟨e', _⟩
    · exact absurd (e ▸ hop) (hp h')
    · exact e'

theorem hist_lookup_unch (ops : List Op) (s : St) (k : HistKey)
    (hp : ∀ h, Op.putHist k h ∉ ops) (hd : Op.delHist k ∉ ops) :
    lookup (ops.foldl applyOp s).hist k = lookup s.hist k := by
  rw [foldl_applyOp_hist]
  apply lookup_foldl_applyW_unch
  intro w hw e
  rcases mem_filterMap_histW.mp hw with ⟨h, _, hop⟩ | ⟨_, hop⟩
  · exact hp h (e ▸ hop)
  · exact hd (e ▸ hop)

theorem hist_lookup_put (ops : List Op) (s : St) (k : HistKey) (h : Nat)
    (hex : Op.putHist k h ∈ ops) (hp : ∀ h', Op.putHist k h' ∈ ops → h' = h)
    (hd : Op.delHist k ∉ ops) :
    lookup (ops.foldl applyOp s).hist k = some h := by
  rw [foldl_applyOp_hist]
  apply lookup_foldl_applyW_const
  · exact mem_filterMap_histW.mpr (Or.inl ⟨h, rfl, hex⟩)
  · intro w hw e
    rcases mem_filterMap_histW.mp hw with ⟨h', e', hop⟩ | ⟨_, hop⟩
    · rw [e', hp h' (e ▸ hop)]
    · exact absurd (e ▸ hop) hd

theorem txs_lookup_unch (ops : List Op) (s : St) (k : Nat)
    (hp : ∀ r, Op.putTx k r ∉ ops) :
    lookup (ops.foldl applyOp s).txs k = lookup s.txs k := by
  rw [foldl_applyOp_txs]
  apply lookup_foldl_applyW_unch
  intro w hw e
  obtain ⟨r, _, hop⟩ := mem_filterMap_txW.mp hw
  exact hp r (e ▸ hop)

theorem txs_lookup_put (ops : List Op) (s : St) (k : Nat) (r : TxRec)
    (hex : Op.putTx k r ∈ ops) (hp : ∀ r', Op.putTx k r' ∈ ops → r' = r) :
    lookup (ops.foldl applyOp s).txs k = some r := by
  rw [foldl_applyOp_txs]
  apply lookup_foldl_applyW_const
  · exact mem_filterMap_txW.mpr ⟨r, rfl, hex⟩
  · intro w hw e
    obtain ⟨r', e', hop⟩ := mem_filterMap_txW.mp hw
    rw [e', hp r' (e ▸ hop)]

/-! ## the batch of `filter_block` -/

/-- script `k` is the lock script (`isType = false`) or the type script of output `o` -/
def Touches (k : SKey) (o : Output) : Prop :=
  k = ⟨o.lock, false⟩ ∨ ∃ t, o.type_ = some t ∧ k = ⟨t, true⟩

theorem registered_iff (s : St) (k : SKey) : registered s k = true ↔ k ∈ s.scripts.map (·.1) := by
  unfold registered
  simp only [List.any_eq_true, decide_eq_true_eq, List.mem_map]

/-- the three writes of a spent cell -/
def IsInOp (k : SKey) (p : TxRec) (bn txi ii : Nat) (tx : Tx) (i : OutPt) (op : Op) : Prop :=
  op = .delCell ⟨k, p.bn, p.txi, i.idx⟩ ∨ op = .putHist ⟨k, bn, txi, ii, false⟩ tx.hash ∨
    op = .putTx tx.hash ⟨bn, txi, tx⟩

/-- the three writes of a created cell -/
def IsOutOp (k : SKey) (bn txi oi : Nat) (tx : Tx) (op : Op) : Prop :=
  op = .putCell ⟨k, bn, txi, oi⟩ tx.hash ∨ op = .putHist ⟨k, bn, txi, oi, true⟩ tx.hash ∨
    op = .putTx tx.hash ⟨bn, txi, tx⟩

theorem mem_inputOps (s : St) (bn txi ii : Nat) (tx : Tx) (i : OutPt) (prev : Option TxRec)
    (op : Op) :
    op ∈ inputOps s bn txi ii tx i prev ↔
      ∃ p o k, prev = some p ∧ p.tx.outputs[i.idx]? = some o ∧ Touches k o ∧
        registered s k = true ∧ IsInOp k p bn txi ii tx i op := by
  unfold inputOps
  cases prev with
  | none => simp
  | some p =>
    simp only
    cases ho : p.tx.outputs[i.idx]? with
    | none =>
      simp only [List.not_mem_nil, false_iff]
      rintro ⟨p', o', k, hp, ho', _⟩
      cases hp
      rw [ho] at ho'
      cases ho'
    | some o =>
      simp only [List.mem_append]
      constructor
      · rintro (h | h)
        · split at h
          · rename_i hr
            refine ⟨p, o, ⟨o.lock, false⟩, rfl, ho, Or.inl rfl, hr, ?_⟩
            simpa [IsInOp] using h
          · simp at h
        · split at h
          · rename_i t ht
            split at h
            · rename_i hr
              refine ⟨p, o, ⟨t, true⟩, rfl, ho, Or.inr ⟨t, ht, rfl⟩, hr, ?_⟩
              simpa [IsInOp] using h
            · simp at h
          · simp at h
      · rintro ⟨p', o', k, hp, ho', ht, hr, hop⟩
        cases hp
        rw [ho] at ho'
        cases ho'
        rcases ht with rfl | ⟨t, ht, rfl⟩
        · left
          rw [if_pos hr]
          simpa [IsInOp] using hop
        · right
          rw [ht]
          simp only
          rw [if_pos hr]
          simpa [IsInOp] using hop

theorem mem_outputOps (s : St) (bn txi oi : Nat) (tx : Tx) (o : Output) (op : Op) :
    op ∈ outputOps s bn txi oi tx o ↔
      ∃ k, Touches k o ∧ registered s k = true ∧ IsOutOp k bn txi oi tx op := by
  unfold outputOps
  simp only [List.mem_append]
  constructor
  · rintro (h | h)
    · split at h
      · rename_i hr
        refine ⟨⟨o.lock, false⟩, Or.inl rfl, hr, ?_⟩
        simpa [IsOutOp] using h
      · simp at h
    · split at h
      · rename_i t ht
        split at h
        · rename_i hr
          refine ⟨⟨t, true⟩, Or.inr ⟨t, ht, rfl⟩, hr, ?_⟩
          simpa [IsOutOp] using h
        · simp at h
      · simp at h
  · rintro ⟨k, ht, hr, hop⟩
    rcases ht with rfl | ⟨t, ht, rfl⟩
    · left
      rw [if_pos hr]
      simpa [IsOutOp] using hop
    · right
      rw [ht]
      simp only
      rw [if_pos hr]
      simpa [IsOutOp] using hop

/-- the creating transaction as `filter_block` finds it: the earlier transactions of this block
first, then the store -/
def prevOf (s : St) (inB : List (Nat × TxRec)) (h : Nat) : Option TxRec :=
  match lookup inB h with
  | some r => some r
  | none => lookup s.txs h

def txIns (s : St) (bn txi : Nat) (inB : List (Nat × TxRec)) (tx : Tx) : List Op :=
  (enum tx.inputs).flatMap (fun p => inputOps s bn txi p.1 tx p.2 (prevOf s inB p.2.tx))

def txOuts (s : St) (bn txi : Nat) (tx : Tx) : List Op :=
  (enum tx.outputs).flatMap (fun p => outputOps s bn txi p.1 tx p.2)

theorem go_nil (s : St) (b : Block) (txi : Nat) (inB : List (Nat × TxRec)) :
    blockOps.go s b txi inB [] = [] := rfl

theorem go_cons (s : St) (b : Block) (txi : Nat) (inB : List (Nat × TxRec)) (tx : Tx)
    (rest : List Tx) :
    blockOps.go s b txi inB (tx :: rest) =
      txIns s b.number txi inB tx ++ txOuts s b.number txi tx ++
        blockOps.go s b (txi + 1) (put inB tx.hash ⟨b.number, txi, tx⟩) rest := rfl

theorem mem_txIns (s : St) (bn txi : Nat) (inB : List (Nat × TxRec)) (tx : Tx) (op : Op) :
    op ∈ txIns s bn txi inB tx ↔
      ∃ ii i p o k, tx.inputs[ii]? = some i ∧ prevOf s inB i.tx = some p ∧
        p.tx.outputs[i.idx]? = some o ∧ Touches k o ∧ registered s k = true ∧
        IsInOp k p bn txi ii tx i op := by
  unfold txIns
  rw [List.mem_flatMap]
  constructor
  · rintro ⟨⟨ii, i⟩, hm, hop⟩
    rw [mem_enum] at hm
    rw [mem_inputOps] at hop
    obtain ⟨p, o, k, h1, h2, h3, h4, h5⟩ := hop
    exact ⟨ii, i, p, o, k, hm, h1, h2, h3, h4, h5⟩
  · rintro ⟨ii, i, p, o, k, hm, h1, h2, h3, h4, h5⟩
    refine ⟨(ii, i), (mem_enum _ _ _).mpr hm, ?_⟩
    rw [mem_inputOps]
    exact ⟨p, o, k, h1, h2, h3, h4, h5⟩

theorem mem_txOuts (s : St) (bn txi : Nat) (tx : Tx) (op : Op) :
    op ∈ txOuts s bn txi tx ↔
      ∃ oi o k, tx.outputs[oi]? = some o ∧ Touches k o ∧ registered s k = true ∧
        IsOutOp k bn txi oi tx op := by
  unfold txOuts
  rw [List.mem_flatMap]
  constructor
  · rintro ⟨⟨oi, o⟩, hm, hop⟩
    rw [mem_enum] at hm
    rw [mem_outputOps] at hop
    obtain ⟨k, h3, h4, h5⟩ := hop
    exact ⟨oi, o, k, hm, h3, h4, h5⟩
  · rintro ⟨oi, o, k, hm, h3, h4, h5⟩
    refine ⟨(oi, o), (mem_enum _ _ _).mpr hm, ?_⟩
    rw [mem_outputOps]
    exact ⟨k, h3, h4, h5⟩

/-- the in-block transaction map after the transactions `l` (first index `txi`) -/
def accB (bn : Nat) : Nat → List (Nat × TxRec) → List Tx → List (Nat × TxRec)
  | _, inB, [] => inB
  | txi, inB, tx :: rest => accB bn (txi + 1) (put inB tx.hash ⟨bn, txi, tx⟩) rest

theorem go_append (s : St) (b : Block) (txi : Nat) (inB : List (Nat × TxRec)) (l1 l2 : List Tx) :
    blockOps.go s b txi inB (l1 ++ l2) =
      blockOps.go s b txi inB l1 ++
        blockOps.go s b (txi + l1.length) (accB b.number txi inB l1) l2 := by
  induction l1 generalizing txi inB with
  | nil => simp [go_nil, accB]
  | cons t l1 ih =>
    rw [List.cons_append, go_cons, go_cons, ih]
    simp only [accB, List.length_cons, List.append_assoc]
    congr 4
    omega

/-- the batch, split at one transaction -/
theorem blockOps_split (s : St) (b : Block) (tpre tpost : List Tx) (tx : Tx)
    (hb : b.txs = tpre ++ tx :: tpost) :
    blockOps s b =
      blockOps.go s b 0 [] tpre ++
        (txIns s b.number tpre.length (accB b.number 0 [] tpre) tx ++
          (txOuts s b.number tpre.length tx ++
            blockOps.go s b (tpre.length + 1)
              (accB b.number 0 [] (tpre ++ [tx])) tpost)) := by
  unfold blockOps
  rw [hb, go_append, go_cons]
  simp only [Nat.zero_add, List.append_assoc]
  congr 3
  have : ∀ (l : List Tx) (txi : Nat) (inB : List (Nat × TxRec)) (t : Tx),
      accB b.number txi inB (l ++ [t]) =
        put (accB b.number txi inB l) t.hash ⟨b.number, txi + l.length, t⟩ := by
    intro l
    induction l with
    | nil => intro txi inB t; simp [accB]
    | cons a l ih =>
      intro txi inB t
      simp only [List.cons_append, accB, ih, List.length_cons]
      have : txi + 1 + l.length = txi + (l.length + 1) := by omega
      rw [this]
  rw [this]
  simp

theorem mem_go (s : St) (b : Block) (txi : Nat) (inB : List (Nat × TxRec)) (txs : List Tx)
    (op : Op) :
    op ∈ blockOps.go s b txi inB txs ↔
      ∃ tpre tx tpost, txs = tpre ++ tx :: tpost ∧
        (op ∈ txIns s b.number (txi + tpre.length) (accB b.number txi inB tpre) tx ∨
         op ∈ txOuts s b.number (txi + tpre.length) tx) := by
  induction txs generalizing txi inB with
  | nil => simp [go_nil]
  | cons t rest ih =>
    rw [go_cons]
    simp only [List.mem_append]
    constructor
    · rintro ((h | h) | h)
      · exact ⟨[], t, rest, rfl, Or.inl (by simpa [accB] using h)⟩
      · exact ⟨[], t, rest, rfl, Or.inr (by simpa using h)⟩
      · obtain ⟨tpre, tx, tpost, e, h'⟩ := (ih _ _).mp h
        refine ⟨t :: tpre, tx, tpost, by simp [e], ?_⟩
        simp only [List.length_cons, accB]
        have : txi + (tpre.length + 1) = txi + 1 + tpre.length := by omega
        rw [this]
        exact h'
    · rintro ⟨tpre, tx, tpost, e, h'⟩
      cases tpre with
      | nil =>
        simp only [List.nil_append, List.cons.injEq] at e
        obtain ⟨rfl, rfl⟩ := e
        simp only [List.length_nil, Nat.add_zero, accB] at h'
        rcases h' with h' | h'
        · exact Or.inl (Or.inl h')
        · exact Or.inl (Or.inr h')
      | cons a tpre =>
        simp only [List.cons_append, List.cons.injEq] at e
        obtain ⟨rfl, rfl⟩ := e
        right
        refine (ih _ _).mpr ⟨tpre, tx, tpost, rfl, ?_⟩
        simp only [List.length_cons, accB] at h'
        have : txi + (tpre.length + 1) = txi + 1 + tpre.length := by omega
        rw [this] at h'
        exact h'

theorem mem_blockOps (s : St) (b : Block) (op : Op) :
    op ∈ blockOps s b ↔
      ∃ tpre tx tpost, b.txs = tpre ++ tx :: tpost ∧
        (op ∈ txIns s b.number tpre.length (accB b.number 0 [] tpre) tx ∨
         op ∈ txOuts s b.number tpre.length tx) := by
  unfold blockOps
  rw [mem_go]
  simp

/-! ### the in-block map -/

theorem lookup_accB_sound (bn : Nat) (l : List Tx) (txi : Nat) (inB : List (Nat × TxRec))
    (h : Nat) (r : TxRec) (hl : lookup (accB bn txi inB l) h = some r) :
    (∃ tpre tx tpost, l = tpre ++ tx :: tpost ∧ tx.hash = h ∧ r = ⟨bn, txi + tpre.length, tx⟩) ∨
      lookup inB h = some r := by
  induction l generalizing txi inB with
  | nil => exact Or.inr hl
  | cons t rest ih =>
    simp only [accB] at hl
    rcases ih _ _ hl with ⟨tpre, tx, tpost, e, hh, hr⟩ | h'
    · left
      refine ⟨t :: tpre, tx, tpost, by simp [e], hh, ?_⟩
      rw [hr]
      simp only [List.length_cons]
      have : txi + 1 + tpre.length = txi + (tpre.length + 1) := by omega
      rw [this]
    · rw [lookup_put] at h'
      by_cases e : h = t.hash
      · rw [if_pos e] at h'
        left
        exact ⟨[], t, rest, rfl, e.symm, by simpa using (Option.some.inj h').symm⟩
      · rw [if_neg e] at h'
        exact Or.inr h'

theorem lookup_accB_notin (bn : Nat) (l : List Tx) (txi : Nat) (inB : List (Nat × TxRec))
    (h : Nat) (hn : h ∉ l.map (·.hash)) :
    lookup (accB bn txi inB l) h = lookup inB h := by
  induction l generalizing txi inB with
  | nil => rfl
  | cons t rest ih =>
    simp only [List.map_cons, List.mem_cons, not_or] at hn
    simp only [accB]
    rw [ih _ _ hn.2, lookup_put, if_neg hn.1]

theorem lookup_accB_complete (bn : Nat) (tpre tpost : List Tx) (tx : Tx) (txi : Nat)
    (inB : List (Nat × TxRec)) (hnd : ((tpre ++ tx :: tpost).map (·.hash)).Nodup) :
    lookup (accB bn txi inB (tpre ++ tx :: tpost)) tx.hash = some ⟨bn, txi + tpre.length, tx⟩ := by
  induction tpre generalizing txi inB with
  | nil =>
    simp only [List.nil_append, List.map_cons, List.nodup_cons] at hnd
    simp only [List.nil_append, accB]
    rw [lookup_accB_notin _ _ _ _ _ hnd.1, lookup_put]
    simp
  | cons a tpre ih =>
    simp only [List.cons_append, List.map_cons, List.nodup_cons] at hnd
    simp only [List.cons_append, accB, List.length_cons]
    rw [ih _ _ hnd.2]
    congr 2
    omega

/-! ### `filterBlock` as a fold -/

theorem filterBlock_eq (s : St) (b : Block) :
    ∃ hdr : List Op, (∀ op ∈ hdr, ∃ bn h, op = Op.putHeader bn h) ∧
      filterBlock s b = (blockOps s b ++ hdr).foldl applyOp s := by
  unfold filterBlock
  by_cases h : (blockOps s b).isEmpty
  · exact ⟨[], by simp, by simp [h]⟩
  · refine ⟨[.putHeader b.number b.hash], ?_, by simp [h]⟩
    intro op hop
    exact ⟨_, _, by simpa using hop⟩

/-! ### the writes of one transaction of the batch -/

/-- `op` is a write of transaction `tx`, which follows the transactions `tpre` in block `b` -/
def TxOp (s : St) (b : Block) (tpre : List Tx) (tx : Tx) (op : Op) : Prop :=
  op ∈ txIns s b.number tpre.length (accB b.number 0 [] tpre) tx ∨
    op ∈ txOuts s b.number tpre.length tx

theorem mem_blockOps' (s : St) (b : Block) (op : Op) :
    op ∈ blockOps s b ↔ ∃ tpre tx tpost, b.txs = tpre ++ tx :: tpost ∧ TxOp s b tpre tx op :=
  mem_blockOps s b op

theorem accB_append (bn : Nat) (l1 l2 : List Tx) (txi : Nat) (inB : List (Nat × TxRec)) :
    accB bn txi inB (l1 ++ l2) = accB bn (txi + l1.length) (accB bn txi inB l1) l2 := by
  induction l1 generalizing txi inB with
  | nil => simp [accB]
  | cons a l1 ih =>
    simp only [List.cons_append, accB, ih, List.length_cons]
    have : txi + 1 + l1.length = txi + (l1.length + 1) := by omega
    rw [this]

/-- the writes of the transactions after `tx` -/
theorem mem_go_post (s : St) (b : Block) (tpre tpost : List Tx) (tx : Tx) (op : Op) :
    op ∈ blockOps.go s b (tpre.length + 1) (accB b.number 0 [] (tpre ++ [tx])) tpost ↔
      ∃ a tx' c, tpost = a ++ tx' :: c ∧ TxOp s b (tpre ++ tx :: a) tx' op := by
  rw [mem_go]
  have hlen : ∀ a : List Tx, tpre.length + 1 + a.length = (tpre ++ tx :: a).length := by
    intro a; simp; omega
  have hacc : ∀ a : List Tx,
      accB b.number (tpre.length + 1) (accB b.number 0 [] (tpre ++ [tx])) a =
        accB b.number 0 [] (tpre ++ tx :: a) := by
    intro a
    have := accB_append b.number (tpre ++ [tx]) a 0 []
    simp only [List.append_assoc, List.singleton_append, Nat.zero_add, List.length_append,
      List.length_cons, List.length_nil] at this
    rw [this]
  constructor
  · rintro ⟨a, tx', c, e, h⟩
    refine ⟨a, tx', c, e, ?_⟩
    unfold TxOp
    rw [← hlen, ← hacc]
    exact h
  · rintro ⟨a, tx', c, e, h⟩
    refine ⟨a, tx', c, e, ?_⟩
    unfold TxOp at h
    rw [← hlen, ← hacc] at h
    exact h

theorem txOp_kinds {s : St} {b : Block} {tpre : List Tx} {tx : Tx} {op : Op}
    (h : TxOp s b tpre tx op) :
    (∃ k h, op = .putCell k h) ∨ (∃ k, op = .delCell k) ∨ (∃ k h, op = .putHist k h) ∨
      (∃ h r, op = .putTx h r) := by
  rcases h with h | h
  · obtain ⟨ii, i, p, o, k, _, _, _, _, _, h | h | h⟩ := (mem_txIns _ _ _ _ _ _).mp h
    · exact Or.inr (Or.inl ⟨_, h⟩)
    · exact Or.inr (Or.inr (Or.inl ⟨_, _, h⟩))
    · exact Or.inr (Or.inr (Or.inr ⟨_, _, h⟩))
  · obtain ⟨oi, o, k, _, _, _, h | h | h⟩ := (mem_txOuts _ _ _ _ _).mp h
    · exact Or.inl ⟨_, _, h⟩
    · exact Or.inr (Or.inr (Or.inl ⟨_, _, h⟩))
    · exact Or.inr (Or.inr (Or.inr ⟨_, _, h⟩))

theorem blockOps_kinds {s : St} {b : Block} {op : Op} (h : op ∈ blockOps s b) :
    (∃ k h, op = .putCell k h) ∨ (∃ k, op = .delCell k) ∨ (∃ k h, op = .putHist k h) ∨
      (∃ h r, op = .putTx h r) := by
  obtain ⟨_, _, _, _, h⟩ := (mem_blockOps' _ _ _).mp h
  exact txOp_kinds h

theorem txOp_putCell (s : St) (b : Block) (tpre : List Tx) (tx : Tx) (ck : CellKey) (h : Nat) :
    TxOp s b tpre tx (.putCell ck h) ↔
      tx.hash = h ∧ ck.bn = b.number ∧ ck.txi = tpre.length ∧
        ∃ o, tx.outputs[ck.oi]? = some o ∧ Touches ck.s o ∧ registered s ck.s = true := by
  unfold TxOp
  rw [mem_txIns, mem_txOuts]
  constructor
  · rintro (⟨ii, i, p, o, k, _, _, _, _, _, h⟩ | ⟨oi, o, k, ho, ht, hr, h⟩)
    · simp [IsInOp] at h
    · simp only [IsOutOp, Op.putCell.injEq, reduceCtorEq, or_false] at h
      obtain ⟨rfl, rfl⟩ := h
      exact ⟨rfl, rfl, rfl, o, ho, ht, hr⟩
  · rintro ⟨rfl, h1, h2, o, ho, ht, hr⟩
    right
    refine ⟨ck.oi, o, ck.s, ho, ht, hr, Or.inl ?_⟩
    cases ck
    simp_all

theorem txOp_delCell (s : St) (b : Block) (tpre : List Tx) (tx : Tx) (ck : CellKey) :
    TxOp s b tpre tx (.delCell ck) ↔
      ∃ (ii : Nat) (i : OutPt) (p : TxRec) (o : Output), tx.inputs[ii]? = some i ∧
        prevOf s (accB b.number 0 [] tpre) i.tx = some p ∧ p.tx.outputs[i.idx]? = some o ∧
        Touches ck.s o ∧ registered s ck.s = true ∧ ck.bn = p.bn ∧ ck.txi = p.txi ∧
        ck.oi = i.idx := by
  unfold TxOp
  rw [mem_txIns, mem_txOuts]
  constructor
  · rintro (⟨ii, i, p, o, k, hi, hp, ho, ht, hr, h⟩ | ⟨oi, o, k, _, _, _, h⟩)
    · simp only [IsInOp, Op.delCell.injEq, reduceCtorEq, or_false] at h
      subst h
      exact ⟨ii, i, p, o, hi, hp, ho, ht, hr, rfl, rfl, rfl⟩
    · simp [IsOutOp] at h
  · rintro ⟨ii, i, p, o, hi, hp, ho, ht, hr, h1, h2, h3⟩
    left
    refine ⟨ii, i, p, o, ck.s, hi, hp, ho, ht, hr, Or.inl ?_⟩
    cases ck
    simp_all

theorem txOp_putHist (s : St) (b : Block) (tpre : List Tx) (tx : Tx) (hk : HistKey) (h : Nat) :
    TxOp s b tpre tx (.putHist hk h) ↔
      tx.hash = h ∧ hk.bn = b.number ∧ hk.txi = tpre.length ∧
        ((hk.isOutput = false ∧ ∃ (i : OutPt) (p : TxRec) (o : Output), tx.inputs[hk.ioi]? = some i ∧
            prevOf s (accB b.number 0 [] tpre) i.tx = some p ∧ p.tx.outputs[i.idx]? = some o ∧
            Touches hk.s o ∧ registered s hk.s = true) ∨
         (hk.isOutput = true ∧ ∃ o, tx.outputs[hk.ioi]? = some o ∧ Touches hk.s o ∧
            registered s hk.s = true)) := by
  unfold TxOp
  rw [mem_txIns, mem_txOuts]
  constructor
  · rintro (⟨ii, i, p, o, k, hi, hp, ho, ht, hr, h⟩ | ⟨oi, o, k, ho, ht, hr, h⟩)
    · simp only [IsInOp, Op.putHist.injEq, reduceCtorEq, false_or, or_false] at h
      obtain ⟨rfl, rfl⟩ := h
      exact ⟨rfl, rfl, rfl, Or.inl ⟨rfl, i, p, o, hi, hp, ho, ht, hr⟩⟩
    · simp only [IsOutOp, Op.putHist.injEq, reduceCtorEq, false_or, or_false] at h
      obtain ⟨rfl, rfl⟩ := h
      exact ⟨rfl, rfl, rfl, Or.inr ⟨rfl, o, ho, ht, hr⟩⟩
  · rintro ⟨rfl, h1, h2, ⟨h3, i, p, o, hi, hp, ho, ht, hr⟩ | ⟨h3, o, ho, ht, hr⟩⟩
    · left
      refine ⟨hk.ioi, i, p, o, hk.s, hi, hp, ho, ht, hr, Or.inr (Or.inl ?_)⟩
      cases hk
      simp_all
    · right
      refine ⟨hk.ioi, o, hk.s, ho, ht, hr, Or.inr (Or.inl ?_)⟩
      cases hk
      simp_all

theorem txOp_putTx (s : St) (b : Block) (tpre : List Tx) (tx : Tx) (h : Nat) (r : TxRec) :
    TxOp s b tpre tx (.putTx h r) → tx.hash = h ∧ r = ⟨b.number, tpre.length, tx⟩ := by
  unfold TxOp
  rw [mem_txIns, mem_txOuts]
  rintro (⟨ii, i, p, o, k, _, _, _, _, _, h⟩ | ⟨oi, o, k, _, _, _, h⟩)
  · simp only [IsInOp, Op.putTx.injEq, reduceCtorEq, false_or] at h
    exact ⟨h.1.symm, h.2⟩
  · simp only [IsOutOp, Op.putTx.injEq, reduceCtorEq, false_or] at h
    exact ⟨h.1.symm, h.2⟩

theorem txOp_putTx_of_output (s : St) (b : Block) (tpre : List Tx) (tx : Tx) (oi : Nat)
    (o : Output) (k : SKey) (ho : tx.outputs[oi]? = some o) (ht : Touches k o)
    (hr : registered s k = true) :
    TxOp s b tpre tx (.putTx tx.hash ⟨b.number, tpre.length, tx⟩) :=
  Or.inr ((mem_txOuts _ _ _ _ _).mpr ⟨oi, o, k, ho, ht, hr, Or.inr (Or.inr rfl)⟩)

/-! ### `filterBlock`, keyspace by keyspace -/

theorem filterBlock_scripts (s : St) (b : Block) : (filterBlock s b).scripts = s.scripts := by
  obtain ⟨hdr, hh, e⟩ := filterBlock_eq s b
  rw [e]
  apply foldl_applyOp_scripts
  intro k bn hm
  rcases List.mem_append.mp hm with hm | hm
  · rcases blockOps_kinds hm with ⟨_, _, h⟩ | ⟨_, h⟩ | ⟨_, _, h⟩ | ⟨_, _, h⟩ <;> cases h
  · obtain ⟨_, _, h⟩ := hh _ hm
    cases h

theorem filterBlock_registered (s : St) (b : Block) (k : SKey) :
    registered (filterBlock s b) k = registered s k := by
  unfold registered
  rw [filterBlock_scripts]

theorem filterBlock_txs_unch (s : St) (b : Block) (h : Nat)
    (hp : ∀ r, Op.putTx h r ∉ blockOps s b) :
    lookup (filterBlock s b).txs h = lookup s.txs h := by
  obtain ⟨hdr, hh, e⟩ := filterBlock_eq s b
  rw [e]
  apply txs_lookup_unch
  intro r hm
  rcases List.mem_append.mp hm with hm | hm
  · exact hp r hm
  · obtain ⟨_, _, h⟩ := hh _ hm
    cases h

theorem filterBlock_txs_put (s : St) (b : Block) (h : Nat) (r : TxRec)
    (hex : Op.putTx h r ∈ blockOps s b) (hp : ∀ r', Op.putTx h r' ∈ blockOps s b → r' = r) :
    lookup (filterBlock s b).txs h = some r := by
  obtain ⟨hdr, hh, e⟩ := filterBlock_eq s b
  rw [e]
  apply txs_lookup_put
  · exact List.mem_append_left _ hex
  · intro r' hm
    rcases List.mem_append.mp hm with hm | hm
    · exact hp r' hm
    · obtain ⟨_, _, h⟩ := hh _ hm
      cases h

theorem filterBlock_hist_unch (s : St) (b : Block) (k : HistKey)
    (hp : ∀ h, Op.putHist k h ∉ blockOps s b) :
    lookup (filterBlock s b).hist k = lookup s.hist k := by
  obtain ⟨hdr, hh, e⟩ := filterBlock_eq s b
  rw [e]
  apply hist_lookup_unch
  · intro r hm
    rcases List.mem_append.mp hm with hm | hm
    · exact hp r hm
    · obtain ⟨_, _, h⟩ := hh _ hm
      cases h
  · intro hm
    rcases List.mem_append.mp hm with hm | hm
    · rcases blockOps_kinds hm with ⟨_, _, h⟩ | ⟨_, h⟩ | ⟨_, _, h⟩ | ⟨_, _, h⟩ <;> cases h
    · obtain ⟨_, _, h⟩ := hh _ hm
      cases h

theorem filterBlock_hist_put (s : St) (b : Block) (k : HistKey) (h : Nat)
    (hex : Op.putHist k h ∈ blockOps s b) (hp : ∀ h', Op.putHist k h' ∈ blockOps s b → h' = h) :
    lookup (filterBlock s b).hist k = some h := by
  obtain ⟨hdr, hh, e⟩ := filterBlock_eq s b
  rw [e]
  apply hist_lookup_put
  · exact List.mem_append_left _ hex
  · intro r' hm
    rcases List.mem_append.mp hm with hm | hm
    · exact hp r' hm
    · obtain ⟨_, _, h⟩ := hh _ hm
      cases h
  · intro hm
    rcases List.mem_append.mp hm with hm | hm
    · rcases blockOps_kinds hm with ⟨_, _, h⟩ | ⟨_, h⟩ | ⟨_, _, h⟩ | ⟨_, _, h⟩ <;> cases h
    · obtain ⟨_, _, h⟩ := hh _ hm
      cases h

theorem not_putCell_hdr {hdr : List Op} (hh : ∀ op ∈ hdr, ∃ bn h, op = Op.putHeader bn h)
    (k : CellKey) (h : Nat) : Op.putCell k h ∉ hdr := by
  intro hm
  obtain ⟨_, _, e⟩ := hh _ hm
  cases e

theorem not_delCell_hdr {hdr : List Op} (hh : ∀ op ∈ hdr, ∃ bn h, op = Op.putHeader bn h)
    (k : CellKey) : Op.delCell k ∉ hdr := by
  intro hm
  obtain ⟨_, _, e⟩ := hh _ hm
  cases e

/-- no cell is created under `k`, one is deleted: gone -/
theorem filterBlock_cells_noput_del (s : St) (b : Block) (k : CellKey)
    (hp : ∀ h, Op.putCell k h ∉ blockOps s b) (hd : Op.delCell k ∈ blockOps s b) :
    lookup (filterBlock s b).cells k = none := by
  obtain ⟨hdr, hh, e⟩ := filterBlock_eq s b
  rw [e]
  apply cells_lookup_del
  · exact List.mem_append_left _ hd
  · intro h hm
    rcases List.mem_append.mp hm with hm | hm
    · exact hp h hm
    · exact not_putCell_hdr hh _ _ hm

/-- no write mentions `k`: unchanged -/
theorem filterBlock_cells_unch (s : St) (b : Block) (k : CellKey)
    (hp : ∀ h, Op.putCell k h ∉ blockOps s b) (hd : Op.delCell k ∉ blockOps s b) :
    lookup (filterBlock s b).cells k = lookup s.cells k := by
  obtain ⟨hdr, hh, e⟩ := filterBlock_eq s b
  rw [e]
  apply cells_lookup_unch
  · intro h hm
    rcases List.mem_append.mp hm with hm | hm
    · exact hp h hm
    · exact not_putCell_hdr hh _ _ hm
  · intro hm
    rcases List.mem_append.mp hm with hm | hm
    · exact hd hm
    · exact not_delCell_hdr hh _ hm

theorem putCell_txOuts {s : St} {bn txi : Nat} {tx : Tx} {k : CellKey} {h : Nat}
    (hm : Op.putCell k h ∈ txOuts s bn txi tx) : h = tx.hash := by
  obtain ⟨oi, o, k', _, _, _, hop⟩ := (mem_txOuts _ _ _ _ _).mp hm
  simp only [IsOutOp, Op.putCell.injEq, reduceCtorEq, or_false] at hop
  exact hop.2

theorem not_delCell_txOuts (s : St) (bn txi : Nat) (tx : Tx) (k : CellKey) :
    Op.delCell k ∉ txOuts s bn txi tx := by
  intro hm
  obtain ⟨oi, o, k', _, _, _, hop⟩ := (mem_txOuts _ _ _ _ _).mp hm
  simp [IsOutOp] at hop

/-- a cell created by transaction `tx` of the block: it is in the index afterwards iff no later
transaction of the block deletes it -/
theorem filterBlock_cells_created (s : St) (b : Block) (tpre tpost : List Tx) (tx : Tx)
    (hb : b.txs = tpre ++ tx :: tpost) (k : CellKey)
    (hput : Op.putCell k tx.hash ∈ txOuts s b.number tpre.length tx)
    (hnoput : ∀ h', Op.putCell k h' ∉
      blockOps.go s b (tpre.length + 1) (accB b.number 0 [] (tpre ++ [tx])) tpost) :
    (Op.delCell k ∈ blockOps.go s b (tpre.length + 1) (accB b.number 0 [] (tpre ++ [tx])) tpost →
      lookup (filterBlock s b).cells k = none) ∧
    (Op.delCell k ∉ blockOps.go s b (tpre.length + 1) (accB b.number 0 [] (tpre ++ [tx])) tpost →
      lookup (filterBlock s b).cells k = some tx.hash) := by
  obtain ⟨hdr, hh, e⟩ := filterBlock_eq s b
  rw [e, blockOps_split s b tpre tpost tx hb]
  generalize blockOps.go s b (tpre.length + 1) (accB b.number 0 [] (tpre ++ [tx])) tpost = P
    at hnoput ⊢
  generalize blockOps.go s b 0 [] tpre = A
  generalize txIns s b.number tpre.length (accB b.number 0 [] tpre) tx = I
  have hre : A ++ (I ++ (txOuts s b.number tpre.length tx ++ P)) ++ hdr =
      (A ++ I) ++ (txOuts s b.number tpre.length tx ++ (P ++ hdr)) := by
    simp only [List.append_assoc]
  rw [hre, List.foldl_append, List.foldl_append]
  generalize List.foldl applyOp s (A ++ I) = s1
  have h2 : lookup (List.foldl applyOp s1 (txOuts s b.number tpre.length tx)).cells k =
      some tx.hash :=
    cells_lookup_put _ _ _ _ hput (fun h' hm => putCell_txOuts hm) (not_delCell_txOuts _ _ _ _ _)
  have hnp : ∀ h', Op.putCell k h' ∉ P ++ hdr := by
    intro h' hm
    rcases List.mem_append.mp hm with hm | hm
    · exact hnoput h' hm
    · exact not_putCell_hdr hh _ _ hm
  constructor
  · intro hd
    exact cells_lookup_del _ _ _ (List.mem_append_left _ hd) hnp
  · intro hd
    rw [cells_lookup_unch _ _ _ hnp, h2]
    intro hm
    rcases List.mem_append.mp hm with hm | hm
    · exact hd hm
    · exact not_delCell_hdr hh _ hm

end Index

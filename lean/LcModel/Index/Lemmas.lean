import LcModel.Index.Model
/-! helper lemmas for the Index layer -/
namespace Index
end Index

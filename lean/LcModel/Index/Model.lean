import LcModel.Prelude
/-!
# Index layer — the script / cell / transaction index
Model of `Storage::{filter_block, rollback_to_block, add_fetched_tx, add_fetched_header,
update_block_number, get_transaction_with_header}` (`src/storage.rs`) over structured keys
(the byte encodings and their order are the `Kv` layer's business).

Scripts, hashes are natural-number ids.  Reads during `filter_block` / `rollback_to_block` see the
store *before* the operation (the writes go to a `WriteBatch` committed at the end); writes are
applied in issue order.
-/
namespace Index

structure OutPt where
  tx : Nat
  idx : Nat
  deriving Repr, DecidableEq

structure Output where
  lock : Nat
  type_ : Option Nat
  capacity : Nat
  deriving Repr, DecidableEq

structure Tx where
  hash : Nat
  inputs : List OutPt
  outputs : List Output
  deriving Repr, DecidableEq

structure Block where
  number : Nat
  hash : Nat
  txs : List Tx
  deriving Repr, DecidableEq

/-- a registered script: id and whether it is matched as lock (false) or type (true) script -/
structure SKey where
  script : Nat
  isType : Bool
  deriving Repr, DecidableEq

structure CellKey where
  s : SKey
  bn : Nat
  txi : Nat
  oi : Nat
  deriving Repr, DecidableEq

structure HistKey where
  s : SKey
  bn : Nat
  txi : Nat
  ioi : Nat
  isOutput : Bool
  deriving Repr, DecidableEq

/-- `TxHash` value: block number, tx index (`u32::MAX` for fetched transactions), transaction -/
structure TxRec where
  bn : Nat
  txi : Nat
  tx : Tx
  deriving Repr, DecidableEq

def U32_MAX_IDX : Nat := 4294967295

structure St where
  scripts : List (SKey × Nat)          -- FILTER_SCRIPTS: script ↦ block number
  txs : List (Nat × TxRec)             -- TxHash keyspace
  cells : List (CellKey × Nat)         -- Cell{Lock,Type}Script ↦ tx hash
  hist : List (HistKey × Nat)          -- Tx{Lock,Type}Script ↦ tx hash
  numToHash : List (Nat × Nat)         -- BlockNumber ↦ block hash
  hdrs : List Nat                      -- BlockHash keyspace (hashes with a stored header)
  deriving Repr, DecidableEq

/-! association-list primitives (last write wins; `erase` removes every binding) -/
def lookup {κ ν} [DecidableEq κ] (l : List (κ × ν)) (k : κ) : Option ν := (l.find? (·.1 = k)).map (·.2)
def put {κ ν} [DecidableEq κ] (l : List (κ × ν)) (k : κ) (v : ν) : List (κ × ν) :=
  (l.filter (·.1 ≠ k)) ++ [(k, v)]
def del {κ ν} [DecidableEq κ] (l : List (κ × ν)) (k : κ) : List (κ × ν) := l.filter (·.1 ≠ k)

inductive Op where
  | putCell (k : CellKey) (h : Nat) | delCell (k : CellKey)
  | putHist (k : HistKey) (h : Nat) | delHist (k : HistKey)
  | putTx (h : Nat) (r : TxRec)
  | putHeader (bn hash : Nat)
  | putScript (k : SKey) (bn : Nat)
  deriving Repr, DecidableEq

def applyOp (s : St) : Op → St
  | .putCell k h => { s with cells := put s.cells k h }
  | .delCell k => { s with cells := del s.cells k }
  | .putHist k h => { s with hist := put s.hist k h }
  | .delHist k => { s with hist := del s.hist k }
  | .putTx h r => { s with txs := put s.txs h r }
  | .putHeader bn hash => { s with numToHash := put s.numToHash bn hash,
                                   hdrs := if s.hdrs.contains hash then s.hdrs else s.hdrs ++ [hash] }
  | .putScript k bn => { s with scripts := put s.scripts k bn }

def registered (s : St) (k : SKey) : Bool := s.scripts.any (·.1 = k)

/-- the writes of one input of transaction `tx` (index `txi`, input index `ii`) in block `bn`;
`prev` = the creating transaction as found in the store or earlier in this block -/
def inputOps (s : St) (bn txi ii : Nat) (tx : Tx) (i : OutPt) (prev : Option TxRec) : List Op :=
  match prev with
  | none => []
  | some p =>
    match p.tx.outputs[i.idx]? with
    | none => []
    | some o =>
      let lockK : SKey := ⟨o.lock, false⟩
      let a := if registered s lockK then
          [Op.delCell ⟨lockK, p.bn, p.txi, i.idx⟩, .putHist ⟨lockK, bn, txi, ii, false⟩ tx.hash,
           .putTx tx.hash ⟨bn, txi, tx⟩]
        else []
      let b := match o.type_ with
        | some t =>
          let tk : SKey := ⟨t, true⟩
          if registered s tk then
            [Op.delCell ⟨tk, p.bn, p.txi, i.idx⟩, .putHist ⟨tk, bn, txi, ii, false⟩ tx.hash,
             .putTx tx.hash ⟨bn, txi, tx⟩]
          else []
        | none => []
      a ++ b

def outputOps (s : St) (bn txi oi : Nat) (tx : Tx) (o : Output) : List Op :=
  let lockK : SKey := ⟨o.lock, false⟩
  let a := if registered s lockK then
      [Op.putCell ⟨lockK, bn, txi, oi⟩ tx.hash, .putHist ⟨lockK, bn, txi, oi, true⟩ tx.hash,
       .putTx tx.hash ⟨bn, txi, tx⟩]
    else []
  let b := match o.type_ with
    | some t =>
      let tk : SKey := ⟨t, true⟩
      if registered s tk then
        [Op.putCell ⟨tk, bn, txi, oi⟩ tx.hash, .putHist ⟨tk, bn, txi, oi, true⟩ tx.hash,
         .putTx tx.hash ⟨bn, txi, tx⟩]
      else []
    | none => []
  a ++ b

def enum {α} (l : List α) : List (Nat × α) := (List.range l.length).zip l

/-- the batch of `filter_block`: transactions in order; `inBlock` = earlier transactions of
this block (`txs` map of the implementation); a previous transaction is looked up in `inBlock`
first, then in the store (the position of a transaction of this block is the one in this block,
whatever record a fetch left in the store) -/
def blockOps (s : St) (b : Block) : List Op :=
  let rec go (txi : Nat) (inBlock : List (Nat × TxRec)) : List Tx → List Op
    | [] => []
    | tx :: rest =>
      let ins := (enum tx.inputs).flatMap (fun (ii, i) =>
        let prev := match lookup inBlock i.tx with
          | some r => some r
          | none => lookup s.txs i.tx
        inputOps s b.number txi ii tx i prev)
      let outs := (enum tx.outputs).flatMap (fun (oi, o) => outputOps s b.number txi oi tx o)
      ins ++ outs ++ go (txi + 1) (put inBlock tx.hash ⟨b.number, txi, tx⟩) rest
  go 0 [] b.txs

/-- `filter_block` -/
def filterBlock (s : St) (b : Block) : St :=
  let ops := blockOps s b
  let ops := if ops.isEmpty then ops else ops ++ [.putHeader b.number b.hash]
  ops.foldl applyOp s

/-- `add_fetched_tx`: header mappings and the transaction with `tx_index = u32::MAX`; a
transaction already stored with its real index (by `filter_block`) is kept -/
def addFetchedTx (s : St) (tx : Tx) (bn blockHash : Nat) : St :=
  let s1 := applyOp s (.putHeader bn blockHash)
  let isIndexed : Bool := match lookup s.txs tx.hash with
    | some r => decide (r.txi ≠ U32_MAX_IDX)
    | none => false
  if isIndexed then s1 else applyOp s1 (.putTx tx.hash ⟨bn, U32_MAX_IDX, tx⟩)

def addFetchedHeader (s : St) (bn blockHash : Nat) : St := applyOp s (.putHeader bn blockHash)

/-- `update_block_number`: raise every lower script number -/
def updateBlockNumber (s : St) (n : Nat) : St :=
  { s with scripts := s.scripts.map (fun e => if e.2 < n then (e.1, n) else e) }

/-- the batch of `rollback_to_block` for one script: its history entries at or above
`toNumber`, scanned in reverse key order: a cell restored by an input entry of a later block is
deleted again when the output entry of its (also rolled back) creating block is reached -/
def histKeyLt (a b : HistKey) : Bool :=
  a.bn < b.bn || (a.bn = b.bn && (a.txi < b.txi || (a.txi = b.txi &&
    (a.ioi < b.ioi || (a.ioi = b.ioi && (!a.isOutput && b.isOutput))))))

/-- descending key order (the reverse iterator of the implementation) -/
def sortHistDesc (l : List (HistKey × Nat)) : List (HistKey × Nat) :=
  let rec ins (x : HistKey × Nat) : List (HistKey × Nat) → List (HistKey × Nat)
    | [] => [x]
    | y :: ys => if histKeyLt y.1 x.1 then x :: y :: ys else y :: ins x ys
  l.foldr ins []

def rollbackScriptOps (s : St) (k : SKey) (toNumber : Nat) : List Op :=
  let entries := sortHistDesc (s.hist.filter (fun e => e.1.s = k && toNumber ≤ e.1.bn))
  entries.flatMap (fun (hk, txh) =>
    if hk.isOutput then [Op.delCell ⟨k, hk.bn, hk.txi, hk.ioi⟩, .delHist hk]
    else
      let restore := match lookup s.txs txh with
        | none => []       -- `expect("stored transaction history")`: see `rollbackPanics`
        | some r =>
          match r.tx.inputs[hk.ioi]? with
          | none => []
          | some i =>
            match lookup s.txs i.tx with
            | some p => [Op.putCell ⟨k, p.bn, p.txi, i.idx⟩ i.tx]
            | none => []
      restore ++ [.delHist hk])

/-- `rollback_to_block` (index part; `MIN_FILTERED_NUMBER` belongs to the `Sync` layer) -/
def rollbackToBlock (s : St) (toNumber : Nat) : St :=
  let affected := s.scripts.filter (fun e => toNumber ≤ e.2)
  let ops := affected.flatMap (fun e => rollbackScriptOps s e.1 toNumber ++ [.putScript e.1 toNumber])
  ops.foldl applyOp s

/-- `get_transaction_with_header`: the transaction and the hash of the block stored at its number
(`none` when unknown; the implementation `expect`s the mappings) -/
def getTransactionWithHeader (s : St) (h : Nat) : Option (Tx × Option Nat) :=
  (lookup s.txs h).map (fun r => (r.tx, lookup s.numToHash r.bn))

/-! ### what the RPCs return for a script (the `Kv` layer orders and pages these) -/

def cellsOf (s : St) (k : SKey) : List (CellKey × Nat) := s.cells.filter (·.1.s = k)
def histOf (s : St) (k : SKey) : List (HistKey × Nat) := s.hist.filter (·.1.s = k)

/-! ### driver -/

def parseOutputs : List Nat → List Output
  | lock :: ty :: cap :: rest => ⟨lock, if ty = 0 then none else some ty, cap⟩ :: parseOutputs rest
  | _ => []

def parseOutPts : List Nat → List OutPt
  | t :: i :: rest => ⟨t, i⟩ :: parseOutPts rest
  | _ => []

def groups (sep : String) (ts : List String) : List (List String) :=
  ts.foldr (fun t acc => if t = sep then [] :: acc else match acc with
    | g :: gs => (t :: g) :: gs
    | [] => [[t]]) [[]]

/-- `hash ; in-tx in-idx … ; lock type cap …` -/
def parseTx (ts : List String) : Option Tx :=
  match groups ";" ts with
  | [[h], ins, outs] => do
    let h ← h.toNat?; let ins ← natsOf ins; let outs ← natsOf outs
    pure ⟨h, parseOutPts ins, parseOutputs outs⟩
  | _ => none

def sortNatPairs (l : List (List Nat)) : List (List Nat) :=
  let rec ins (x : List Nat) : List (List Nat) → List (List Nat)
    | [] => [x]
    | y :: ys => if x < y then x :: y :: ys else y :: ins x ys
  l.foldr ins []

def b2n (b : Bool) : Nat := if b then 1 else 0

/-- canonical dump: all keyspaces as sorted numeric rows -/
def dump (s : St) : String :=
  let cells := sortNatPairs (s.cells.map (fun (k, h) => [b2n k.s.isType, k.s.script, k.bn, k.txi, k.oi, h]))
  let hist := sortNatPairs (s.hist.map (fun (k, h) => [b2n k.s.isType, k.s.script, k.bn, k.txi, k.ioi, b2n k.isOutput, h]))
  let txs := sortNatPairs (s.txs.map (fun (h, r) => [h, r.bn, r.txi]))
  let scripts := sortNatPairs (s.scripts.map (fun (k, n) => [b2n k.isType, k.script, n]))
  let nums := sortNatPairs (s.numToHash.map (fun (n, h) => [n, h]))
  s!"cells {cells} hist {hist} txs {txs} scripts {scripts} nums {nums}"

/-- ops:
 `reset`
 `script isType id bn`            register (put)
 `block number hash | tx | tx …`  filter_block
 `fetched bn blockHash | tx`      add_fetched_tx
 `header bn blockHash`            add_fetched_header
 `updnum n`                       update_block_number
 `rollback n`
 `dump` -/
def stepLine (s : St) (line : String) : St × String :=
  let gs := groups "|" (tokens line)
  match gs with
  | ["reset"] :: _ => (⟨[], [], [], [], [], []⟩, "ok")
  | ["script", t, id, bn] :: _ =>
    (match t.toNat?, id.toNat?, bn.toNat? with
     | some t, some id, some bn => (applyOp s (.putScript ⟨id, t = 1⟩ bn), "ok")
     | _, _, _ => (s, "bad-op"))
  | ["block", n, h] :: txs =>
    (match n.toNat?, h.toNat?, txs.mapM parseTx with
     | some n, some h, some txs => (filterBlock s ⟨n, h, txs⟩, "ok")
     | _, _, _ => (s, "bad-op"))
  | ["fetched", bn, bh] :: [tx] =>
    (match bn.toNat?, bh.toNat?, parseTx tx with
     | some bn, some bh, some tx => (addFetchedTx s tx bn bh, "ok")
     | _, _, _ => (s, "bad-op"))
  | ["header", bn, bh] :: _ =>
    (match bn.toNat?, bh.toNat? with
     | some bn, some bh => (addFetchedHeader s bn bh, "ok")
     | _, _ => (s, "bad-op"))
  | ["updnum", n] :: _ =>
    (match n.toNat? with | some n => (updateBlockNumber s n, "ok") | none => (s, "bad-op"))
  | ["rollback", n] :: _ =>
    (match n.toNat? with | some n => (rollbackToBlock s n, "ok") | none => (s, "bad-op"))
  | ["dump"] :: _ => (s, dump s)
  | _ => (s, "bad-op")

end Index

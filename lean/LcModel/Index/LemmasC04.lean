import LcModel.Props.C03
/-! # Index layer — lemmas for C04

The first part repeats (publicly) the chain vocabulary and the transaction-keyspace invariant
that `LcModel/Props/C03.lean` keeps private. -/
namespace Index
open C03

/-! ## chain vocabulary (as in C03) -/

/-- `tx` is the `txi`-th transaction of the block numbered `bn` -/
def TxAt (chain : List Block) (bn txi : Nat) (tx : Tx) : Prop :=
  ∃ b ∈ chain, b.number = bn ∧ b.txs[txi]? = some tx

theorem touches_iff (k : SKey) (o : Output) : touches k o = true ↔ Touches k o := by
  obtain ⟨sc, ty⟩ := k
  cases ty <;> simp [touches, Touches, eq_comm]

theorem txAt_append (l1 l2 : List Block) (bn txi : Nat) (tx : Tx) :
    TxAt (l1 ++ l2) bn txi tx ↔ TxAt l1 bn txi tx ∨ TxAt l2 bn txi tx := by
  unfold TxAt
  simp only [List.mem_append]
  constructor
  · rintro ⟨b, hb | hb, h⟩
    · exact Or.inl ⟨b, hb, h⟩
    · exact Or.inr ⟨b, hb, h⟩
  · rintro (⟨b, hb, h⟩ | ⟨b, hb, h⟩)
    · exact ⟨b, Or.inl hb, h⟩
    · exact ⟨b, Or.inr hb, h⟩

theorem txAt_singleton (b : Block) (bn txi : Nat) (tx : Tx) :
    TxAt [b] bn txi tx ↔ b.number = bn ∧ b.txs[txi]? = some tx := by
  simp [TxAt]

theorem mem_createdBy (chain : List Block) (op : OutPt) (bn txi : Nat) (o : Output) :
    (op, (bn, txi, o)) ∈ createdBy chain ↔
      ∃ tx, TxAt chain bn txi tx ∧ tx.hash = op.tx ∧ tx.outputs[op.idx]? = some o := by
  unfold createdBy TxAt
  simp only [List.mem_flatMap, List.mem_map]
  constructor
  · rintro ⟨b, hb, ⟨txi', tx⟩, htx, ⟨oi, o'⟩, ho, e⟩
    rw [mem_enum] at htx ho
    simp only [Prod.mk.injEq] at e
    obtain ⟨rfl, rfl, rfl, rfl⟩ := e
    exact ⟨tx, ⟨b, hb, rfl, htx⟩, rfl, ho⟩
  · rintro ⟨tx, ⟨b, hb, rfl, htx⟩, hh, ho⟩
    refine ⟨b, hb, (txi, tx), (mem_enum _ _ _).mpr htx, (op.idx, o), (mem_enum _ _ _).mpr ho, ?_⟩
    cases op
    simp_all

theorem mem_spentBy (chain : List Block) (op : OutPt) :
    op ∈ spentBy chain ↔ ∃ b ∈ chain, ∃ tx ∈ b.txs, op ∈ tx.inputs := by
  simp [spentBy]

theorem spentBy_append (l1 l2 : List Block) :
    spentBy (l1 ++ l2) = spentBy l1 ++ spentBy l2 := by
  simp [spentBy]

theorem createdBy_append (l1 l2 : List Block) :
    createdBy (l1 ++ l2) = createdBy l1 ++ createdBy l2 := by
  simp [createdBy]

theorem mem_liveCells (chain : List Block) (k : SKey) (ck : CellKey) (h : Nat) :
    (ck, h) ∈ liveCells chain k ↔
      ck.s = k ∧ ∃ tx o, TxAt chain ck.bn ck.txi tx ∧ tx.hash = h ∧
        tx.outputs[ck.oi]? = some o ∧ Touches k o ∧ (⟨h, ck.oi⟩ : OutPt) ∉ spentBy chain := by
  unfold liveCells
  rw [List.mem_filterMap]
  constructor
  · rintro ⟨⟨op, bn, txi, o⟩, hm, e⟩
    simp only at e
    split at e
    · rename_i hc
      simp only [Bool.and_eq_true, Bool.not_eq_eq_eq_not, Bool.not_true,
        List.contains_eq_mem, decide_eq_false_iff_not] at hc
      simp only [Option.some.injEq, Prod.mk.injEq] at e
      obtain ⟨rfl, rfl⟩ := e
      obtain ⟨tx, hat, hh, ho⟩ := (mem_createdBy _ _ _ _ _).mp hm
      refine ⟨rfl, tx, o, hat, hh, ho, (touches_iff _ _).mp hc.1, ?_⟩
      cases op
      exact hc.2
    · cases e
  · rintro ⟨rfl, tx, o, hat, hh, ho, ht, hns⟩
    obtain ⟨k, bn, txi, oi⟩ := ck
    refine ⟨(⟨h, oi⟩, bn, txi, o), (mem_createdBy _ _ _ _ _).mpr ⟨tx, hat, hh, ho⟩, ?_⟩
    simp only at ht hns ⊢
    rw [if_pos]
    simp only [Bool.and_eq_true, Bool.not_eq_eq_eq_not, Bool.not_true,
        List.contains_eq_mem, decide_eq_false_iff_not]
    exact ⟨(touches_iff _ _).mpr ht, hns⟩

/-! ### consequences of well-formedness -/

theorem pairwise_lt_inj {α} (f : α → Nat) (l : List α)
    (hp : (l.map f).Pairwise (· < ·)) {a b : α} (ha : a ∈ l) (hb : b ∈ l) (e : f a = f b) :
    a = b := by
  induction l with
  | nil => cases ha
  | cons c l ih =>
    rw [List.map_cons, List.pairwise_cons] at hp
    rcases List.mem_cons.mp ha with rfl | ha' <;> rcases List.mem_cons.mp hb with rfl | hb'
    · rfl
    · have := hp.1 (f b) (List.mem_map_of_mem hb'); omega
    · have := hp.1 (f a) (List.mem_map_of_mem ha'); omega
    · exact ih hp.2 ha' hb'

theorem wf_prefix {l1 l2 : List Block} (hw : WellFormed (l1 ++ l2)) : WellFormed l1 where
  numbers := by
    have := hw.numbers
    rw [List.map_append, List.pairwise_append] at this
    exact this.1
  hashes := by
    have := hw.hashes
    rw [List.flatMap_append, List.nodup_append] at this
    exact this.1
  noDoubleSpend := by
    have := hw.noDoubleSpend
    rw [spentBy_append, List.nodup_append] at this
    exact this.1
  inputsEarlier := by
    intro pre b post hc tpre tx tpost hb i hi hex
    refine hw.inputsEarlier pre b (post ++ l2) (by rw [hc]; simp) tpre tx tpost hb i hi ?_
    obtain ⟨t, ht, e⟩ := hex
    exact ⟨t, by rw [List.flatMap_append]; exact List.mem_append_left _ ht, e⟩

theorem txAt_fun {chain : List Block} (hw : WellFormed chain) {bn txi : Nat} {tx tx' : Tx}
    (h : TxAt chain bn txi tx) (h' : TxAt chain bn txi tx') : tx = tx' := by
  obtain ⟨b, hb, hn, ht⟩ := h
  obtain ⟨b', hb', hn', ht'⟩ := h'
  have : b = b' := pairwise_lt_inj (·.number) chain hw.numbers hb hb' (hn.trans hn'.symm)
  subst this
  rw [ht] at ht'
  exact Option.some.inj ht'

theorem hash_inj (chain : List Block)
    (hnd : (chain.flatMap (fun b => b.txs.map (·.hash))).Nodup) {b1 b2 : Block}
    (h1 : b1 ∈ chain) (h2 : b2 ∈ chain) {i1 i2 : Nat} {t1 t2 : Tx}
    (e1 : b1.txs[i1]? = some t1) (e2 : b2.txs[i2]? = some t2) (e : t1.hash = t2.hash) :
    b1 = b2 ∧ i1 = i2 := by
  induction chain with
  | nil => cases h1
  | cons c rest ih =>
    rw [List.flatMap_cons, List.nodup_append] at hnd
    obtain ⟨ndc, ndr, disj⟩ := hnd
    have inC : ∀ {b : Block} {i : Nat} {t : Tx}, b.txs[i]? = some t →
        t.hash ∈ b.txs.map (·.hash) := fun h => List.mem_map_of_mem (List.mem_of_getElem? h)
    have inR : ∀ {b : Block} {i : Nat} {t : Tx}, b ∈ rest → b.txs[i]? = some t →
        t.hash ∈ rest.flatMap (fun b => b.txs.map (·.hash)) :=
      fun hb h => List.mem_flatMap.mpr ⟨_, hb, inC h⟩
    rcases List.mem_cons.mp h1 with rfl | h1' <;> rcases List.mem_cons.mp h2 with rfl | h2'
    · refine ⟨rfl, ?_⟩
      have hlt := (List.getElem?_eq_some_iff.mp e1).1
      refine (List.getElem?_inj (by rw [List.length_map]; exact hlt) ndc).mp ?_
      rw [List.getElem?_map, List.getElem?_map, e1, e2]
      simp [e]
    · exact absurd e (disj _ (inC e1) _ (inR h2' e2))
    · exact absurd e.symm (disj _ (inC e2) _ (inR h1' e1))
    · exact ih ndr h1' h2'

theorem txAt_hash_inj {chain : List Block} (hw : WellFormed chain) {bn txi bn' txi' : Nat}
    {tx tx' : Tx} (h : TxAt chain bn txi tx) (h' : TxAt chain bn' txi' tx')
    (e : tx.hash = tx'.hash) : bn = bn' ∧ txi = txi' ∧ tx = tx' := by
  obtain ⟨b, hb, hn, ht⟩ := h
  obtain ⟨b', hb', hn', ht'⟩ := h'
  obtain ⟨rfl, rfl⟩ := hash_inj chain hw.hashes hb hb' ht ht' e
  rw [ht] at ht'
  exact ⟨hn.symm.trans hn', rfl, Option.some.inj ht'⟩

theorem txAt_lt {pre : List Block} {b : Block} (hw : WellFormed (pre ++ [b]))
    {bn txi : Nat} {tx : Tx} (h : TxAt pre bn txi tx) : bn < b.number := by
  obtain ⟨b', hb', hn, _⟩ := h
  have := hw.numbers
  rw [List.map_append, List.pairwise_append] at this
  have := this.2.2 _ (List.mem_map_of_mem hb') b.number (by simp)
  omega

/-- an input that refers to a transaction of the chain refers to an existing output of a
transaction in an earlier block or earlier in the same block -/
theorem input_earlier {chain pre post : List Block} {b : Block} (hw : WellFormed chain)
    (hc : chain = pre ++ [b] ++ post) {tpre tpost : List Tx} {tx : Tx}
    (hb : b.txs = tpre ++ tx :: tpost) {i : OutPt} (hi : i ∈ tx.inputs)
    {bn' txi' : Nat} {t' : Tx} (hat : TxAt chain bn' txi' t') (hh : t'.hash = i.tx) :
    (TxAt pre bn' txi' t' ∨ (bn' = b.number ∧ tpre[txi']? = some t')) ∧
      ∃ o, t'.outputs[i.idx]? = some o := by
  have hmem : t' ∈ chain.flatMap (·.txs) := by
    obtain ⟨b', hb', _, ht'⟩ := hat
    exact List.mem_flatMap.mpr ⟨b', hb', List.mem_of_getElem? ht'⟩
  obtain ⟨⟨op, bn, txi, o⟩, he, rfl⟩ :=
    hw.inputsEarlier pre b post hc tpre tx tpost (by simp [hb]) i hi ⟨t', hmem, hh⟩
  obtain ⟨t'', hat'', hh'', ho''⟩ := (mem_createdBy _ _ _ _ _).mp he
  simp only at hh hh'' ho''
  -- `t''` sits at the same place in the full chain
  have hfull : TxAt chain bn txi t'' := by
    rw [hc, txAt_append, txAt_append]
    rcases (txAt_append _ _ _ _ _).mp hat'' with h | h
    · exact Or.inl (Or.inl h)
    · rw [txAt_singleton] at h
      simp only at h
      refine Or.inl (Or.inr ((txAt_singleton _ _ _ _).mpr ⟨h.1, ?_⟩))
      rw [hb, List.getElem?_append_left (List.getElem?_eq_some_iff.mp h.2).1]
      exact h.2
  obtain ⟨rfl, rfl, rfl⟩ := txAt_hash_inj hw hat hfull (hh.trans hh''.symm)
  refine ⟨?_, o, ho''⟩
  rcases (txAt_append _ _ _ _ _).mp hat'' with h | h
  · exact Or.inl h
  · rw [txAt_singleton] at h
    exact Or.inr ⟨h.1.symm, h.2⟩

/-! ### the transaction keyspace -/

/-- what `filter_block` maintains about stored transactions: a stored transaction is a transaction
of the chain, stored with its true position; every transaction with an output of a registered
script is stored -/
structure TxInv (scripts : List (SKey × Nat)) (chain : List Block) (s : St) : Prop where
  scripts : s.scripts = scripts
  sound : ∀ h r, lookup s.txs h = some r → r.tx.hash = h ∧ TxAt chain r.bn r.txi r.tx
  complete : ∀ (bn txi : Nat) (tx : Tx) (oi : Nat) (o : Output) (k : SKey),
    TxAt chain bn txi tx → tx.outputs[oi]? = some o → Touches k o →
    registered s k = true → lookup s.txs tx.hash = some ⟨bn, txi, tx⟩

theorem txAt_of_split (pre : List Block) {b : Block} {tpre tpost : List Tx} {tx : Tx}
    (hb : b.txs = tpre ++ tx :: tpost) : TxAt (pre ++ [b]) b.number tpre.length tx := by
  rw [txAt_append, txAt_singleton]
  right
  exact ⟨rfl, by rw [hb]; simp⟩

theorem putTx_blockOps {s : St} {b : Block} {h : Nat} {r : TxRec}
    (hm : Op.putTx h r ∈ blockOps s b) (pre : List Block) :
    r.tx.hash = h ∧ r.bn = b.number ∧ TxAt (pre ++ [b]) r.bn r.txi r.tx := by
  obtain ⟨tpre, tx, tpost, hb, hop⟩ := (mem_blockOps' _ _ _).mp hm
  obtain ⟨rfl, rfl⟩ := txOp_putTx _ _ _ _ _ _ hop
  exact ⟨rfl, rfl, txAt_of_split pre hb⟩

theorem putTx_unique {pre : List Block} {b : Block} {s : St} {h : Nat} {r r' : TxRec}
    (hw : WellFormed (pre ++ [b])) (hm : Op.putTx h r ∈ blockOps s b)
    (hm' : Op.putTx h r' ∈ blockOps s b) : r' = r := by
  obtain ⟨h1, _, h3⟩ := putTx_blockOps hm pre
  obtain ⟨h1', _, h3'⟩ := putTx_blockOps hm' pre
  obtain ⟨e1, e2, e3⟩ := txAt_hash_inj hw h3' h3 (h1'.trans h1.symm)
  cases r; cases r'; simp_all

theorem txInv_step {scripts : List (SKey × Nat)} {pre : List Block} {b : Block} {s : St}
    (hw : WellFormed (pre ++ [b])) (inv : TxInv scripts pre s) :
    TxInv scripts (pre ++ [b]) (filterBlock s b) where
  scripts := by rw [filterBlock_scripts]; exact inv.scripts
  sound := by
    intro h r hl
    by_cases hex : ∃ r', Op.putTx h r' ∈ blockOps s b
    · obtain ⟨r', hm⟩ := hex
      have := filterBlock_txs_put s b h r' hm (fun r'' hm'' => putTx_unique hw hm hm'')
      rw [this] at hl
      cases hl
      obtain ⟨h1, _, h3⟩ := putTx_blockOps hm pre
      exact ⟨h1, h3⟩
    · have hno : ∀ r', Op.putTx h r' ∉ blockOps s b := fun r' hm => hex ⟨r', hm⟩
      rw [filterBlock_txs_unch s b h hno] at hl
      obtain ⟨h1, h2⟩ := inv.sound h r hl
      exact ⟨h1, (txAt_append _ _ _ _ _).mpr (Or.inl h2)⟩
  complete := by
    intro bn txi tx oi o k hat ho ht hr
    rw [filterBlock_registered] at hr
    rcases (txAt_append _ _ _ _ _).mp hat with h | h
    · have hno : ∀ r', Op.putTx tx.hash r' ∉ blockOps s b := by
        intro r' hm
        obtain ⟨h1, h2, h3⟩ := putTx_blockOps hm pre
        obtain ⟨e1, _, _⟩ := txAt_hash_inj hw h3 hat h1
        have := txAt_lt hw h
        omega
      rw [filterBlock_txs_unch s b _ hno]
      exact inv.complete bn txi tx oi o k h ho ht hr
    · rw [txAt_singleton] at h
      obtain ⟨rfl, hi⟩ := h
      obtain ⟨tpre, tpost, hb, rfl⟩ := (getElem?_eq_some_iff_split _ _ _).mp hi
      have hm : Op.putTx tx.hash ⟨b.number, tpre.length, tx⟩ ∈ blockOps s b :=
        (mem_blockOps' _ _ _).mpr
          ⟨tpre, tx, tpost, hb, txOp_putTx_of_output s b tpre tx oi o k ho ht hr⟩
      exact filterBlock_txs_put s b _ _ hm (fun r' hm' => putTx_unique hw hm hm')

theorem txInv_fold (scripts : List (SKey × Nat)) (chain : List Block)
    (hw : WellFormed chain) :
    TxInv scripts chain (chain.foldl filterBlock (emptyIndex scripts)) := by
  induction chain using rev_ind with
  | h0 =>
    refine ⟨rfl, ?_, ?_⟩
    · intro h r hl
      simp [emptyIndex, lookup] at hl
    · intro bn txi tx oi o k hat
      obtain ⟨b, hb, _⟩ := hat
      cases hb
  | hs pre b ih =>
    rw [List.foldl_append]
    exact txInv_step hw (ih (wf_prefix hw))

theorem block_hashes_nodup {pre : List Block} {b : Block} (hw : WellFormed (pre ++ [b])) :
    (b.txs.map (·.hash)).Nodup := by
  have := hw.hashes
  rw [List.flatMap_append, List.nodup_append] at this
  simpa using this.2.1

/-- the creating transaction found by `filter_block` is a transaction of the chain so far -/
theorem prev_sound {scripts : List (SKey × Nat)} {pre : List Block} {b : Block} {s : St}
    (inv : TxInv scripts pre s) (tpre : List Tx) {h : Nat} {p : TxRec}
    (hp : prevOf s (accB b.number 0 [] tpre) h = some p) :
    p.tx.hash = h ∧
      (TxAt pre p.bn p.txi p.tx ∨ (p.bn = b.number ∧ tpre[p.txi]? = some p.tx)) := by
  unfold prevOf at hp
  cases hl : lookup (accB b.number 0 [] tpre) h with
  | some r =>
    rw [hl] at hp
    cases hp
    rcases lookup_accB_sound _ _ _ _ _ _ hl with ⟨a, t, c, e, hh, rfl⟩ | h'
    · refine ⟨hh, Or.inr ⟨rfl, ?_⟩⟩
      rw [e]
      simp
    · simp [lookup] at h'
  | none =>
    rw [hl] at hp
    simp only at hp
    obtain ⟨h1, h2⟩ := inv.sound h _ hp
    exact ⟨h1, Or.inl h2⟩

/-- …and every chain transaction that matters is found, with its true position -/
theorem prev_complete {scripts : List (SKey × Nat)} {pre : List Block} {b : Block} {s : St}
    (hw : WellFormed (pre ++ [b])) (inv : TxInv scripts pre s) {tpre tpost : List Tx} {tx : Tx}
    (hb : b.txs = tpre ++ tx :: tpost) {bn' txi' : Nat} {t' : Tx}
    (h : (TxAt pre bn' txi' t' ∧ ∃ (oi : Nat) (o : Output) (k : SKey),
            t'.outputs[oi]? = some o ∧ Touches k o ∧
            registered s k = true) ∨ (bn' = b.number ∧ tpre[txi']? = some t')) :
    prevOf s (accB b.number 0 [] tpre) t'.hash = some ⟨bn', txi', t'⟩ := by
  unfold prevOf
  rcases h with ⟨hat, oi, o, k, ho, ht, hr⟩ | ⟨rfl, hi⟩
  · have hnone : lookup (accB b.number 0 [] tpre) t'.hash = none := by
      rw [lookup_accB_notin]
      · rfl
      · intro hm
        obtain ⟨t'', ht'', hh''⟩ := List.mem_map.mp hm
        obtain ⟨j, hj⟩ := List.mem_iff_getElem?.mp ht''
        have hat'' : TxAt (pre ++ [b]) b.number j t'' := by
          rw [txAt_append, txAt_singleton]
          right
          refine ⟨rfl, ?_⟩
          rw [hb, List.getElem?_append_left (List.getElem?_eq_some_iff.mp hj).1]
          exact hj
        obtain ⟨e1, _, _⟩ :=
          txAt_hash_inj hw ((txAt_append _ _ _ _ _).mpr (Or.inl hat)) hat'' hh''.symm
        have := txAt_lt hw hat
        omega
    rw [hnone]
    exact inv.complete bn' txi' t' oi o k hat ho ht hr
  · obtain ⟨a, c, e, rfl⟩ := (getElem?_eq_some_iff_split _ _ _).mp hi
    have hnd : ((a ++ t' :: c).map (·.hash)).Nodup := by
      have := block_hashes_nodup hw
      rw [hb, e, List.map_append, List.nodup_append] at this
      exact this.1
    rw [e, lookup_accB_complete _ _ _ _ _ _ hnd]
    simp

theorem registered_of_mem {scripts : List (SKey × Nat)} {s : St} (hs : s.scripts = scripts)
    {k : SKey} (hk : k ∈ scripts.map (·.1)) : registered s k = true := by
  rw [registered_iff, hs]
  exact hk

theorem putHist_bn {s : St} {b : Block} {hk : HistKey} {h : Nat}
    (hm : Op.putHist hk h ∈ blockOps s b) : hk.bn = b.number := by
  obtain ⟨tpre, tx, tpost, _, hop⟩ := (mem_blockOps' _ _ _).mp hm
  exact ((txOp_putHist _ _ _ _ _ _).mp hop).2.1

/-- later blocks do not touch the history entries of block number `hk.bn` -/
theorem hist_preserved (hk : HistKey) (post : List Block) (s : St)
    (hn : ∀ b' ∈ post, b'.number ≠ hk.bn) :
    lookup (post.foldl filterBlock s).hist hk = lookup s.hist hk := by
  induction post generalizing s with
  | nil => rfl
  | cons b' post ih =>
    rw [List.foldl_cons, ih _ (fun b'' hb'' => hn b'' (List.mem_cons_of_mem _ hb''))]
    apply filterBlock_hist_unch
    intro h hm
    exact hn b' List.mem_cons_self (putHist_bn hm).symm

/-- a transaction that spends an output of a chain transaction comes later on the chain -/
theorem spent_later {chain : List Block} (hw : WellFormed chain) {bn txi bn' txi' : Nat}
    {tx tx' : Tx} {i : OutPt} (hat : TxAt chain bn txi tx) (hat' : TxAt chain bn' txi' tx')
    (hi : i ∈ tx'.inputs) (hh : tx.hash = i.tx) : bn < bn' ∨ (bn = bn' ∧ txi < txi') := by
  obtain ⟨b', hb', hn', ht'⟩ := hat'
  obtain ⟨pre', post', hc⟩ := List.append_of_mem hb'
  obtain ⟨tpre', tpost', hbt, hl⟩ := (getElem?_eq_some_iff_split _ _ _).mp ht'
  have hc' : chain = pre' ++ [b'] ++ post' := by simp [hc]
  obtain ⟨hpos, _⟩ := input_earlier hw hc' hbt hi hat hh
  rcases hpos with h | ⟨h1, h2⟩
  · left
    have hw' : WellFormed (pre' ++ [b']) := wf_prefix (hc' ▸ hw)
    have := txAt_lt hw' h
    omega
  · right
    have := (List.getElem?_eq_some_iff.mp h2).1
    omega

/-- `liveCells`, unfolded -/
def Live (chain : List Block) (k : SKey) (ck : CellKey) (h : Nat) : Prop :=
  ∃ tx o, TxAt chain ck.bn ck.txi tx ∧ tx.hash = h ∧ tx.outputs[ck.oi]? = some o ∧
    Touches k o ∧ (⟨h, ck.oi⟩ : OutPt) ∉ spentBy chain


/-! ## generic facts about association lists and batches -/

theorem mem_of_lookup {κ ν} [DecidableEq κ] {l : List (κ × ν)} {k : κ} {v : ν}
    (h : lookup l k = some v) : (k, v) ∈ l := by
  unfold lookup at h
  obtain ⟨a, ha, hv⟩ := Option.map_eq_some_iff.mp h
  have h1 := List.find?_some ha
  have h2 := List.mem_of_find?_eq_some ha
  simp only [decide_eq_true_eq] at h1
  obtain ⟨a1, a2⟩ := a
  simp only at h1 hv
  subst h1 hv
  exact h2

/-- the batches never invent a history entry -/
theorem mem_hist_foldl (ops : List Op) (s : St) (hk : HistKey) (h : Nat)
    (hm : (hk, h) ∈ (ops.foldl applyOp s).hist) : Op.putHist hk h ∈ ops ∨ (hk, h) ∈ s.hist := by
  induction ops generalizing s with
  | nil => exact Or.inr hm
  | cons op ops ih =>
    rw [List.foldl_cons] at hm
    rcases ih _ hm with h' | h'
    · exact Or.inl (List.mem_cons_of_mem _ h')
    · cases op with
      | putHist k v =>
        simp only [applyOp, put, List.mem_append, List.mem_filter, List.mem_singleton,
          Prod.mk.injEq] at h'
        rcases h' with h' | ⟨rfl, rfl⟩
        · exact Or.inr h'.1
        · exact Or.inl List.mem_cons_self
      | delHist k =>
        simp only [applyOp, del, List.mem_filter] at h'
        exact Or.inr h'.1
      | _ => exact Or.inr h'

/-- the batches never remove a stored transaction -/
theorem txs_isSome_foldl (ops : List Op) (s : St) (h : Nat)
    (hx : (∃ r, lookup s.txs h = some r) ∨ (∃ r, Op.putTx h r ∈ ops)) :
    ∃ r, lookup (ops.foldl applyOp s).txs h = some r := by
  induction ops generalizing s with
  | nil =>
    rcases hx with hx | ⟨r, hr⟩
    · exact hx
    · cases hr
  | cons op ops ih =>
    rw [List.foldl_cons]
    apply ih
    rcases hx with ⟨r, hr⟩ | ⟨r, hr⟩
    · left
      cases op with
      | putTx h' r' =>
        simp only [applyOp, lookup_put]
        by_cases e : h = h'
        · exact ⟨r', by simp [e]⟩
        · exact ⟨r, by simp [e, hr]⟩
      | _ => exact ⟨r, hr⟩
    · rcases List.mem_cons.mp hr with e | hr
      · left
        subst e
        exact ⟨r, by simp [applyOp, lookup_put]⟩
      · exact Or.inr ⟨r, hr⟩

theorem hist_lookup_del (ops : List Op) (s : St) (k : HistKey)
    (hex : Op.delHist k ∈ ops) (hp : ∀ h', Op.putHist k h' ∉ ops) :
    lookup (ops.foldl applyOp s).hist k = none := by
  rw [foldl_applyOp_hist]
  apply lookup_foldl_applyW_const
  · exact mem_filterMap_histW.mpr (Or.inr ⟨rfl, hex⟩)
  · intro w hw e
    rcases mem_filterMap_histW.mp hw with ⟨h', _, hop⟩ | ⟨e', _⟩
    · exact absurd (e ▸ hop) (hp h')
    · exact e'

theorem lookup_foldl_applyW_congr {κ ν : Type} [DecidableEq κ] (ws : List (κ × Option ν))
    (l l' : List (κ × ν)) (k : κ) (h : lookup l k = lookup l' k) :
    lookup (ws.foldl applyW l) k = lookup (ws.foldl applyW l') k := by
  induction ws generalizing l l' with
  | nil => exact h
  | cons w ws ih =>
    rw [List.foldl_cons, List.foldl_cons]
    apply ih
    rw [lookup_applyW, lookup_applyW, h]

/-- only the middle part of a batch mentions the cell key -/
theorem cells_lookup_mid (X Y Z : List Op) (s : St) (ck : CellKey)
    (hX : ∀ op ∈ X, (∀ h, op ≠ .putCell ck h) ∧ op ≠ .delCell ck)
    (hZ : ∀ op ∈ Z, (∀ h, op ≠ .putCell ck h) ∧ op ≠ .delCell ck) :
    lookup ((X ++ Y ++ Z).foldl applyOp s).cells ck = lookup (Y.foldl applyOp s).cells ck := by
  rw [List.foldl_append, List.foldl_append]
  rw [cells_lookup_unch Z _ ck (fun h hm => (hZ _ hm).1 h rfl) (fun hm => (hZ _ hm).2 rfl)]
  rw [foldl_applyOp_cells Y, foldl_applyOp_cells Y]
  apply lookup_foldl_applyW_congr
  exact cells_lookup_unch X _ ck (fun h hm => (hX _ hm).1 h rfl) (fun hm => (hX _ hm).2 rfl)

/-- no put: an absent cell stays absent -/
theorem cells_lookup_noput_none (ops : List Op) (s : St) (ck : CellKey)
    (hp : ∀ h, Op.putCell ck h ∉ ops) (h0 : lookup s.cells ck = none) :
    lookup (ops.foldl applyOp s).cells ck = none := by
  by_cases hd : Op.delCell ck ∈ ops
  · exact cells_lookup_del ops s ck hd hp
  · rw [cells_lookup_unch ops s ck hp hd, h0]

/-! ## the reverse iterator -/

theorem histKeyLt_asymm (a b : HistKey) (h : histKeyLt a b = true) : ¬ histKeyLt b a = true := by
  obtain ⟨_, a1, a2, a3, a4⟩ := a
  obtain ⟨_, b1, b2, b3, b4⟩ := b
  cases a4 <;> cases b4 <;> simp [histKeyLt] at h ⊢ <;> omega

theorem histKeyLt_trans (a b c : HistKey) (h1 : histKeyLt a b = true) (h2 : histKeyLt b c = true) :
    histKeyLt a c = true := by
  obtain ⟨_, a1, a2, a3, a4⟩ := a
  obtain ⟨_, b1, b2, b3, b4⟩ := b
  obtain ⟨_, c1, c2, c3, c4⟩ := c
  cases a4 <;> cases b4 <;> cases c4 <;> simp [histKeyLt] at h1 h2 ⊢ <;> omega

theorem mem_sortHistDesc_ins (x y : HistKey × Nat) (l : List (HistKey × Nat)) :
    y ∈ sortHistDesc.ins x l ↔ y = x ∨ y ∈ l := by
  induction l with
  | nil => simp [sortHistDesc.ins]
  | cons z l ih =>
    unfold sortHistDesc.ins
    split
    · simp
    · simp only [List.mem_cons, ih]
      constructor
      · rintro (h | h | h)
        · exact Or.inr (Or.inl h)
        · exact Or.inl h
        · exact Or.inr (Or.inr h)
      · rintro (h | h | h)
        · exact Or.inr (Or.inl h)
        · exact Or.inl h
        · exact Or.inr (Or.inr h)

theorem mem_sortHistDesc (l : List (HistKey × Nat)) (x : HistKey × Nat) :
    x ∈ sortHistDesc l ↔ x ∈ l := by
  unfold sortHistDesc
  induction l with
  | nil => simp
  | cons a l ih =>
    rw [List.foldr_cons, mem_sortHistDesc_ins, ih, List.mem_cons]

theorem sortHistDesc_ins_sorted (x : HistKey × Nat) (l : List (HistKey × Nat))
    (hl : l.Pairwise (fun a b => ¬ histKeyLt a.1 b.1 = true)) :
    (sortHistDesc.ins x l).Pairwise (fun a b => ¬ histKeyLt a.1 b.1 = true) := by
  induction l with
  | nil => simp [sortHistDesc.ins]
  | cons y ys ih =>
    rw [List.pairwise_cons] at hl
    unfold sortHistDesc.ins
    split
    · rename_i hyx
      rw [List.pairwise_cons]
      refine ⟨?_, List.pairwise_cons.mpr hl⟩
      intro z hz
      rcases List.mem_cons.mp hz with rfl | hz
      · exact histKeyLt_asymm _ _ hyx
      · intro hxz
        exact hl.1 z hz (histKeyLt_trans _ _ _ hyx hxz)
    · rename_i hyx
      rw [List.pairwise_cons]
      refine ⟨?_, ih hl.2⟩
      intro z hz
      rcases (mem_sortHistDesc_ins _ _ _).mp hz with rfl | hz
      · exact hyx
      · exact hl.1 z hz

theorem sortHistDesc_sorted (l : List (HistKey × Nat)) :
    (sortHistDesc l).Pairwise (fun a b => ¬ histKeyLt a.1 b.1 = true) := by
  unfold sortHistDesc
  induction l with
  | nil => simp
  | cons a l ih =>
    rw [List.foldr_cons]
    exact sortHistDesc_ins_sorted a _ ih

/-- an entry of the descending list splits it; everything behind it is not above it -/
theorem sortHistDesc_split (l : List (HistKey × Nat)) (y : HistKey × Nat) (hy : y ∈ l) :
    ∃ A B, sortHistDesc l = A ++ y :: B ∧ ∀ x ∈ B, ¬ histKeyLt y.1 x.1 = true := by
  obtain ⟨A, B, e⟩ := List.append_of_mem ((mem_sortHistDesc l y).mpr hy)
  refine ⟨A, B, e, ?_⟩
  have := sortHistDesc_sorted l
  rw [e, List.pairwise_append] at this
  exact (List.pairwise_cons.mp this.2.1).1


/-! ## the batch of `rollback_to_block` -/

/-- the writes of one history entry -/
def entryOps (s : St) (k : SKey) (e : HistKey × Nat) : List Op :=
  if e.1.isOutput then [Op.delCell ⟨k, e.1.bn, e.1.txi, e.1.ioi⟩, .delHist e.1]
  else
    (match lookup s.txs e.2 with
      | none => []
      | some r =>
        match r.tx.inputs[e.1.ioi]? with
        | none => []
        | some i =>
          match lookup s.txs i.tx with
          | some p => [Op.putCell ⟨k, p.bn, p.txi, i.idx⟩ i.tx]
          | none => []) ++ [.delHist e.1]

/-- the history entries `rollback_to_block` visits for script `k` -/
def rbEntries (s : St) (k : SKey) (n : Nat) : List (HistKey × Nat) :=
  s.hist.filter (fun e => e.1.s = k && n ≤ e.1.bn)

theorem rollbackScriptOps_eq (s : St) (k : SKey) (n : Nat) :
    rollbackScriptOps s k n = (sortHistDesc (rbEntries s k n)).flatMap (entryOps s k) := by
  unfold rollbackScriptOps rbEntries
  simp only
  congr 1

theorem mem_rbEntries (s : St) (k : SKey) (n : Nat) (e : HistKey × Nat) :
    e ∈ rbEntries s k n ↔ e ∈ s.hist ∧ e.1.s = k ∧ n ≤ e.1.bn := by
  unfold rbEntries
  simp [List.mem_filter]

theorem mem_entryOps_putCell (s : St) (k : SKey) (e : HistKey × Nat) (ck : CellKey) (h : Nat) :
    Op.putCell ck h ∈ entryOps s k e ↔
      e.1.isOutput = false ∧ ∃ r i p, lookup s.txs e.2 = some r ∧ r.tx.inputs[e.1.ioi]? = some i ∧
        lookup s.txs i.tx = some p ∧ ck = ⟨k, p.bn, p.txi, i.idx⟩ ∧ h = i.tx := by
  unfold entryOps
  cases ho : e.1.isOutput
  · simp only [Bool.false_eq_true, ↓reduceIte, List.mem_append, List.mem_singleton, reduceCtorEq,
      or_false, true_and]
    cases h1 : lookup s.txs e.2 with
    | none =>
      simp only [List.not_mem_nil, false_iff]
      rintro ⟨r', i', p', hr, _⟩
      cases hr
    | some r =>
      simp only
      cases h2 : r.tx.inputs[e.1.ioi]? with
      | none =>
        simp only [List.not_mem_nil, false_iff]
        rintro ⟨r', i', p', hr, hi, _⟩
        cases hr
        rw [h2] at hi
        cases hi
      | some i =>
        simp only
        cases h3 : lookup s.txs i.tx with
        | none =>
          simp only [List.not_mem_nil, false_iff]
          rintro ⟨r', i', p', hr, hi, hp, _⟩
          cases hr
          rw [h2] at hi
          cases hi
          rw [h3] at hp
          cases hp
        | some p =>
          simp only [List.mem_singleton, Op.putCell.injEq]
          constructor
          · rintro ⟨rfl, rfl⟩
            exact ⟨r, i, p, rfl, h2, h3, rfl, rfl⟩
          · rintro ⟨r', i', p', hr, hi, hp, rfl, rfl⟩
            cases hr
            rw [h2] at hi
            cases hi
            rw [h3] at hp
            cases hp
            exact ⟨rfl, rfl⟩
  · simp

theorem mem_entryOps_delCell (s : St) (k : SKey) (e : HistKey × Nat) (ck : CellKey) :
    Op.delCell ck ∈ entryOps s k e ↔ e.1.isOutput = true ∧ ck = ⟨k, e.1.bn, e.1.txi, e.1.ioi⟩ := by
  unfold entryOps
  cases ho : e.1.isOutput
  · simp only [Bool.false_eq_true, ↓reduceIte, List.mem_append, List.mem_singleton, reduceCtorEq,
      or_false, false_and, iff_false]
    repeat' split
    all_goals simp
  · simp

theorem entryOps_kinds {s : St} {k : SKey} {e : HistKey × Nat} {op : Op}
    (h : op ∈ entryOps s k e) :
    (∃ ck h, op = .putCell ck h ∧ ck.s = k) ∨ (∃ ck, op = .delCell ck ∧ ck.s = k) ∨
      op = .delHist e.1 := by
  unfold entryOps at h
  cases ho : e.1.isOutput
  · simp only [ho, Bool.false_eq_true, ↓reduceIte, List.mem_append, List.mem_singleton] at h
    rcases h with h | h
    · left
      repeat' split at h
      all_goals simp at h
      exact ⟨_, _, h, rfl⟩
    · exact Or.inr (Or.inr h)
  · simp only [ho, ↓reduceIte, List.mem_cons, List.not_mem_nil, or_false] at h
    rcases h with h | h
    · exact Or.inr (Or.inl ⟨_, h, rfl⟩)
    · exact Or.inr (Or.inr h)

theorem mem_rollbackScriptOps (s : St) (k : SKey) (n : Nat) (op : Op) :
    op ∈ rollbackScriptOps s k n ↔ ∃ e ∈ s.hist, e.1.s = k ∧ n ≤ e.1.bn ∧ op ∈ entryOps s k e := by
  rw [rollbackScriptOps_eq, List.mem_flatMap]
  constructor
  · rintro ⟨e, he, hop⟩
    rw [mem_sortHistDesc, mem_rbEntries] at he
    exact ⟨e, he.1, he.2.1, he.2.2, hop⟩
  · rintro ⟨e, h1, h2, h3, hop⟩
    exact ⟨e, (mem_sortHistDesc _ _).mpr ((mem_rbEntries _ _ _ _).mpr ⟨h1, h2, h3⟩), hop⟩

/-- the whole batch -/
def rollbackOps (s : St) (n : Nat) : List Op :=
  (s.scripts.filter (fun e => n ≤ e.2)).flatMap
    (fun e => rollbackScriptOps s e.1 n ++ [.putScript e.1 n])

theorem rollbackToBlock_eq (s : St) (n : Nat) :
    rollbackToBlock s n = (rollbackOps s n).foldl applyOp s := rfl

theorem mem_rollbackOps (s : St) (n : Nat) (op : Op) :
    op ∈ rollbackOps s n ↔ ∃ e ∈ s.scripts, n ≤ e.2 ∧
      (op ∈ rollbackScriptOps s e.1 n ∨ op = .putScript e.1 n) := by
  unfold rollbackOps
  simp only [List.mem_flatMap, List.mem_filter, decide_eq_true_eq, List.mem_append,
    List.mem_singleton]
  constructor
  · rintro ⟨e, ⟨h1, h2⟩, h3⟩
    exact ⟨e, h1, h2, h3⟩
  · rintro ⟨e, h1, h2, h3⟩
    exact ⟨e, ⟨h1, h2⟩, h3⟩

/-- the history after the rollback: the entries at or above `n` of every processed script are
gone, every other entry is untouched, nothing is added -/
theorem rollback_hist (s : St) (n : Nat) (hk : HistKey) :
    lookup (rollbackToBlock s n).hist hk =
      if n ≤ hk.bn ∧ ∃ e ∈ s.scripts, n ≤ e.2 ∧ e.1 = hk.s then none else lookup s.hist hk := by
  rw [rollbackToBlock_eq]
  have hnoput : ∀ h', Op.putHist hk h' ∉ rollbackOps s n := by
    intro h' hm
    obtain ⟨e, _, _, hm | hm⟩ := (mem_rollbackOps _ _ _).mp hm
    · obtain ⟨x, _, _, _, hop⟩ := (mem_rollbackScriptOps _ _ _ _).mp hm
      rcases entryOps_kinds hop with ⟨_, _, h, _⟩ | ⟨_, h, _⟩ | h <;> cases h
    · cases hm
  have hdel : Op.delHist hk ∈ rollbackOps s n ↔
      ∃ e ∈ s.scripts, n ≤ e.2 ∧ ∃ x ∈ s.hist, x.1 = hk ∧ hk.s = e.1 ∧ n ≤ hk.bn := by
    rw [mem_rollbackOps]
    constructor
    · rintro ⟨e, h1, h2, hm | hm⟩
      · obtain ⟨x, hx, hs, hn, hop⟩ := (mem_rollbackScriptOps _ _ _ _).mp hm
        rcases entryOps_kinds hop with ⟨_, _, h, _⟩ | ⟨_, h, _⟩ | h
        · cases h
        · cases h
        · simp only [Op.delHist.injEq] at h
          subst h
          exact ⟨e, h1, h2, x, hx, rfl, hs, hn⟩
      · cases hm
    · rintro ⟨e, h1, h2, x, hx, rfl, hs, hn⟩
      refine ⟨e, h1, h2, Or.inl ((mem_rollbackScriptOps _ _ _ _).mpr ⟨x, hx, hs, hn, ?_⟩)⟩
      unfold entryOps
      split <;> simp
  split
  · rename_i hc
    obtain ⟨hn, e, he, hne, hes⟩ := hc
    cases hl : lookup s.hist hk with
    | none =>
      by_cases hd : Op.delHist hk ∈ rollbackOps s n
      · exact hist_lookup_del _ _ _ hd hnoput
      · rw [hist_lookup_unch _ _ _ hnoput hd, hl]
    | some h =>
      apply hist_lookup_del _ _ _ _ hnoput
      exact hdel.mpr ⟨e, he, hne, (hk, h), mem_of_lookup hl, rfl, hes.symm, hn⟩
  · rename_i hc
    apply hist_lookup_unch _ _ _ hnoput
    intro hd
    obtain ⟨e, he, hne, x, _, _, hs, hn⟩ := hdel.mp hd
    exact hc ⟨hn, e, he, hne, hs.symm⟩

theorem foldl_filterBlock_scripts (chain : List Block) (s : St) :
    (chain.foldl filterBlock s).scripts = s.scripts := by
  induction chain generalizing s with
  | nil => rfl
  | cons b chain ih => rw [List.foldl_cons, ih, filterBlock_scripts]

/-- **C04 (history)** -/
theorem rollback_restores_history_aux (scripts : List (SKey × Nat)) (pre post : List Block) (n : Nat)
    (hpre : ∀ b ∈ pre, b.number < n) (hpost : ∀ b ∈ post, n ≤ b.number)
    (hn : ∀ e ∈ scripts, n ≤ e.2)
    (k : SKey) (hk : k ∈ scripts.map (·.1)) (hkey : HistKey) (hck : hkey.s = k) :
    lookup (rollbackToBlock ((pre ++ post).foldl filterBlock (emptyIndex scripts)) n).hist hkey =
      lookup (pre.foldl filterBlock (emptyIndex scripts)).hist hkey := by
  rw [rollback_hist, foldl_filterBlock_scripts]
  obtain ⟨e, he, hek⟩ := List.mem_map.mp hk
  split
  · rename_i hc
    rw [hist_preserved hkey pre _ (fun b hb e => by have := hpre b hb; omega)]
    rfl
  · rename_i hc
    have hlt : hkey.bn < n := by
      rcases Nat.lt_or_ge hkey.bn n with h | h
      · exact h
      · exact absurd ⟨h, e, he, hn e he, hek.trans hck.symm⟩ hc
    rw [List.foldl_append]
    exact hist_preserved hkey post _ (fun b hb e => by have := hpost b hb; omega)


/-! ## what the history of an indexed chain says -/

/-- every history entry's transaction is stored; an input entry records an input of the chain
that spends an output of the chain touching the script -/
structure HInv (chain : List Block) (s : St) : Prop where
  stored : ∀ hk h, (hk, h) ∈ s.hist → ∃ r, lookup s.txs h = some r
  inSound : ∀ hk h, (hk, h) ∈ s.hist → hk.isOutput = false →
    ∃ (tx : Tx) (i : OutPt) (bn' txi' : Nat) (t' : Tx) (o : Output),
      TxAt chain hk.bn hk.txi tx ∧ tx.hash = h ∧
      tx.inputs[hk.ioi]? = some i ∧ TxAt chain bn' txi' t' ∧ t'.hash = i.tx ∧
      t'.outputs[i.idx]? = some o ∧ Touches hk.s o

theorem txOp_putHist_putTx {s : St} {b : Block} {tpre : List Tx} {tx : Tx} {hk : HistKey} {h : Nat}
    (hop : TxOp s b tpre tx (.putHist hk h)) :
    TxOp s b tpre tx (.putTx h ⟨b.number, tpre.length, tx⟩) := by
  unfold TxOp at hop ⊢
  rw [mem_txIns, mem_txOuts] at hop ⊢
  rcases hop with ⟨ii, i, p, o, k, hi, hp, ho, ht, hr, hop⟩ | ⟨oi, o, k, ho, ht, hr, hop⟩
  · left
    simp only [IsInOp, Op.putHist.injEq, reduceCtorEq, false_or, or_false] at hop
    obtain ⟨_, rfl⟩ := hop
    exact ⟨ii, i, p, o, k, hi, hp, ho, ht, hr, Or.inr (Or.inr rfl)⟩
  · right
    simp only [IsOutOp, Op.putHist.injEq, reduceCtorEq, false_or, or_false] at hop
    obtain ⟨_, rfl⟩ := hop
    exact ⟨oi, o, k, ho, ht, hr, Or.inr (Or.inr rfl)⟩

theorem hInv_step {scripts : List (SKey × Nat)} {pre : List Block} {b : Block} {s : St}
    (inv : TxInv scripts pre s) (hinv : HInv pre s) : HInv (pre ++ [b]) (filterBlock s b) := by
  obtain ⟨hdr, hh, e⟩ := filterBlock_eq s b
  have hsplit : ∀ hk h, (hk, h) ∈ (filterBlock s b).hist →
      Op.putHist hk h ∈ blockOps s b ∨ (hk, h) ∈ s.hist := by
    intro hk h hm
    rw [e] at hm
    rcases mem_hist_foldl _ _ _ _ hm with hm | hm
    · rcases List.mem_append.mp hm with hm | hm
      · exact Or.inl hm
      · obtain ⟨_, _, h'⟩ := hh _ hm
        cases h'
    · exact Or.inr hm
  constructor
  · intro hk h hm
    rw [e]
    apply txs_isSome_foldl
    rcases hsplit hk h hm with hm | hm
    · right
      obtain ⟨tpre, tx, tpost, hb, hop⟩ := (mem_blockOps' _ _ _).mp hm
      exact ⟨_, List.mem_append_left _
        ((mem_blockOps' _ _ _).mpr ⟨tpre, tx, tpost, hb, txOp_putHist_putTx hop⟩)⟩
    · exact Or.inl (hinv.stored hk h hm)
  · intro hk h hm hio
    rcases hsplit hk h hm with hm | hm
    · obtain ⟨tpre, tx, tpost, hb, hop⟩ := (mem_blockOps' _ _ _).mp hm
      obtain ⟨hh', h1, h2, ⟨_, i, p, o, hi, hp, ho, ht, hr⟩ | ⟨h3, _⟩⟩ :=
        (txOp_putHist _ _ _ _ _ _).mp hop
      · obtain ⟨hph, hpos⟩ := prev_sound inv tpre hp
        refine ⟨tx, i, p.bn, p.txi, p.tx, o, ?_, hh', hi, ?_, hph, ho, ht⟩
        · rw [h1, h2]
          exact txAt_of_split pre hb
        · rcases hpos with hpos | ⟨hbn, hidx⟩
          · exact (txAt_append _ _ _ _ _).mpr (Or.inl hpos)
          · refine (txAt_append _ _ _ _ _).mpr
              (Or.inr ((txAt_singleton _ _ _ _).mpr ⟨hbn.symm, ?_⟩))
            rw [hb, List.getElem?_append_left (List.getElem?_eq_some_iff.mp hidx).1]
            exact hidx
      · rw [hio] at h3
        cases h3
    · obtain ⟨tx, i, bn', txi', t', o, h1, h2, h3, h4, h5, h6, h7⟩ := hinv.inSound hk h hm hio
      exact ⟨tx, i, bn', txi', t', o, (txAt_append _ _ _ _ _).mpr (Or.inl h1), h2, h3,
        (txAt_append _ _ _ _ _).mpr (Or.inl h4), h5, h6, h7⟩

theorem hInv_fold (scripts : List (SKey × Nat)) (chain : List Block) (hw : WellFormed chain) :
    HInv chain (chain.foldl filterBlock (emptyIndex scripts)) := by
  induction chain using rev_ind with
  | h0 =>
    constructor
    · intro hk h hm
      simp [emptyIndex] at hm
    · intro hk h hm
      simp [emptyIndex] at hm
  | hs pre b ih =>
    rw [List.foldl_append]
    exact hInv_step (txInv_fold scripts pre (wf_prefix hw)) (ih (wf_prefix hw))

/-- what a restoring write of the rollback means on the chain -/
theorem put_sem {scripts : List (SKey × Nat)} {chain : List Block} {S : St}
    (hw : WellFormed chain) (inv : TxInv scripts chain S) (hinv : HInv chain S) {k : SKey}
    {e : HistKey × Nat} (he : e ∈ S.hist) (hek : e.1.s = k) {ck : CellKey} {h : Nat}
    (hop : Op.putCell ck h ∈ entryOps S k e) :
    ∃ (tx t' : Tx) (o : Output), TxAt chain e.1.bn e.1.txi tx ∧ (⟨h, ck.oi⟩ : OutPt) ∈ tx.inputs ∧
      TxAt chain ck.bn ck.txi t' ∧ t'.hash = h ∧ t'.outputs[ck.oi]? = some o ∧ Touches k o ∧
      ck.s = k := by
  obtain ⟨hio, r, i, p, hr, hi, hp, rfl, rfl⟩ := (mem_entryOps_putCell _ _ _ _ _).mp hop
  obtain ⟨hk, txh⟩ := e
  simp only at hio hr hi hek ⊢
  obtain ⟨tx, i0, bn', txi', t', o, h1, h2, h3, h4, h5, h6, h7⟩ := hinv.inSound hk txh he hio
  obtain ⟨hr1, hr2⟩ := inv.sound _ _ hr
  obtain ⟨_, _, e3⟩ := txAt_hash_inj hw hr2 h1 (hr1.trans h2.symm)
  rw [e3, h3] at hi
  cases hi
  obtain ⟨hp1, hp2⟩ := inv.sound _ _ hp
  obtain ⟨e1, e2, e3'⟩ := txAt_hash_inj hw hp2 h4 (hp1.trans h5.symm)
  refine ⟨tx, t', o, h1, ?_, ?_, h5, h6, hek ▸ h7, trivial⟩
  · exact List.mem_of_getElem? h3
  · rw [e1, e2]
    exact h4

/-- every spend at or above `n` of a cell of a registered script has its restoring write -/
theorem put_complete {scripts : List (SKey × Nat)} {chain : List Block} {S : St}
    (hw : WellFormed chain) (inv : TxInv scripts chain S) (hinv : HInv chain S) {k : SKey}
    (hreg : registered S k = true) {n bn txi ii : Nat} {tx : Tx} {i : OutPt} {bn' txi' : Nat}
    {t' : Tx} {o : Output} (hat : TxAt chain bn txi tx) (hn : n ≤ bn)
    (hi : tx.inputs[ii]? = some i) (hat' : TxAt chain bn' txi' t') (hh : t'.hash = i.tx)
    (ho : t'.outputs[i.idx]? = some o) (ht : Touches k o)
    (hl : lookup S.hist ⟨k, bn, txi, ii, false⟩ = some tx.hash) :
    Op.putCell ⟨k, bn', txi', i.idx⟩ i.tx ∈ rollbackScriptOps S k n := by
  have hm := mem_of_lookup hl
  rw [mem_rollbackScriptOps]
  refine ⟨_, hm, rfl, hn, ?_⟩
  rw [mem_entryOps_putCell]
  obtain ⟨r, hr⟩ := hinv.stored _ _ hm
  obtain ⟨hr1, hr2⟩ := inv.sound _ _ hr
  obtain ⟨_, _, e3⟩ := txAt_hash_inj hw hr2 hat hr1
  have hp := inv.complete bn' txi' t' i.idx o k hat' ho ht hreg
  rw [hh] at hp
  exact ⟨rfl, r, i, _, hr, by rw [e3]; exact hi, hp, rfl, rfl⟩

theorem cells_live (scripts : List (SKey × Nat)) (chain : List Block)
    (hw : WellFormed chain) (hs : (scripts.map (·.1)).Nodup) (k : SKey) (hk : k ∈ scripts.map (·.1))
    (ck : CellKey) (h : Nat) (hck : ck.s = k) :
    lookup (chain.foldl filterBlock (emptyIndex scripts)).cells ck = some h ↔ Live chain k ck h := by
  have := cells_equal_chain scripts chain hw hs k hk ck h
  rw [mem_liveCells] at this
  unfold Live
  constructor
  · intro hl
    exact (this.mp ⟨hck, hl⟩).2
  · intro hl
    exact (this.mpr ⟨hck, hl⟩).2


/-! ## the cells after the rollback -/

/-- the writes for script `k`, applied to the indexed chain, restore the cells of `pre` -/
theorem rollbackScript_cells (scripts : List (SKey × Nat)) (pre post : List Block) (n : Nat)
    (hw : WellFormed (pre ++ post))
    (hpre : ∀ b ∈ pre, b.number < n) (hpost : ∀ b ∈ post, n ≤ b.number)
    (hs : (scripts.map (·.1)).Nodup)
    (k : SKey) (hk : k ∈ scripts.map (·.1)) (ck : CellKey) (hck : ck.s = k) :
    lookup ((rollbackScriptOps ((pre ++ post).foldl filterBlock (emptyIndex scripts)) k n).foldl
        applyOp ((pre ++ post).foldl filterBlock (emptyIndex scripts))).cells ck =
      lookup (pre.foldl filterBlock (emptyIndex scripts)).cells ck := by
  subst hck
  have hwp : WellFormed pre := wf_prefix hw
  have inv := txInv_fold scripts (pre ++ post) hw
  have hinv := hInv_fold scripts (pre ++ post) hw
  have cellsS : ∀ h, lookup ((pre ++ post).foldl filterBlock (emptyIndex scripts)).cells ck = some h ↔
      Live (pre ++ post) ck.s ck h := fun h => cells_live scripts _ hw hs ck.s hk ck h rfl
  have cellsS0 : ∀ h, lookup (pre.foldl filterBlock (emptyIndex scripts)).cells ck = some h ↔
      Live pre ck.s ck h := fun h => cells_live scripts _ hwp hs ck.s hk ck h rfl
  have histOut := outputs_recorded scripts (pre ++ post) hw ck.s hk
  have histIn := inputs_recorded scripts (pre ++ post) hw ck.s hk
  have hreg := registered_of_mem inv.scripts hk
  generalize (pre ++ post).foldl filterBlock (emptyIndex scripts) = S
    at inv hinv cellsS histOut histIn hreg ⊢
  generalize pre.foldl filterBlock (emptyIndex scripts) = S0 at cellsS0 ⊢
  have hpreAt : ∀ bn txi tx, TxAt (pre ++ post) bn txi tx → bn < n → TxAt pre bn txi tx := by
    intro bn txi tx hat hlt
    rcases (txAt_append _ _ _ _ _).mp hat with h | ⟨b, hb, hbn, _⟩
    · exact h
    · have := hpost b hb
      omega
  have hpostAt : ∀ bn txi tx, TxAt (pre ++ post) bn txi tx → n ≤ bn → TxAt post bn txi tx := by
    intro bn txi tx hat hge
    rcases (txAt_append _ _ _ _ _).mp hat with ⟨b, hb, hbn, _⟩ | h
    · have := hpre b hb
      omega
    · exact h
  have hpreLt : ∀ bn txi tx, TxAt pre bn txi tx → bn < n := by
    rintro bn txi tx ⟨b, hb, hbn, _⟩
    have := hpre b hb
    omega
  rcases Nat.lt_or_ge ck.bn n with hlt | hge
  · -- a cell key of `pre`
    have hnodel : Op.delCell ck ∉ rollbackScriptOps S ck.s n := by
      intro hm
      obtain ⟨e, _, _, hne, hop⟩ := (mem_rollbackScriptOps _ _ _ _).mp hm
      obtain ⟨_, hc⟩ := (mem_entryOps_delCell _ _ _ _).mp hop
      rw [hc] at hlt
      simp only at hlt
      omega
    by_cases hput : ∃ h, Op.putCell ck h ∈ rollbackScriptOps S ck.s n
    · -- spent by `post`: restored
      obtain ⟨h, hm⟩ := hput
      obtain ⟨e, he, hek, hne, hop⟩ := (mem_rollbackScriptOps _ _ _ _).mp hm
      obtain ⟨tx, t', o, hat, hin, hat', hh, ho, ht, _⟩ := put_sem hw inv hinv he hek hop
      have huniq : ∀ h', Op.putCell ck h' ∈ rollbackScriptOps S ck.s n → h' = h := by
        intro h' hm'
        obtain ⟨e', he', hek', _, hop'⟩ := (mem_rollbackScriptOps _ _ _ _).mp hm'
        obtain ⟨_, t'', _, _, _, hat'', hh'', _⟩ := put_sem hw inv hinv he' hek' hop'
        have := txAt_fun hw hat' hat''
        subst this
        exact hh''.symm.trans hh
      rw [cells_lookup_put _ _ _ h hm huniq hnodel]
      symm
      rw [cellsS0]
      refine ⟨t', o, hpreAt _ _ _ hat' hlt, hh, ho, ht, ?_⟩
      intro hsp
      have hsp2 : (⟨h, ck.oi⟩ : OutPt) ∈ spentBy post := by
        obtain ⟨b, hb, hbn, hti⟩ := hpostAt _ _ _ hat hne
        exact (mem_spentBy _ _).mpr ⟨b, hb, tx, List.mem_of_getElem? hti, hin⟩
      have := hw.noDoubleSpend
      rw [spentBy_append, List.nodup_append] at this
      exact this.2.2 _ hsp _ hsp2 rfl
    · -- not spent by `post`: untouched
      have hnoput : ∀ h, Op.putCell ck h ∉ rollbackScriptOps S ck.s n := fun h hm => hput ⟨h, hm⟩
      rw [cells_lookup_unch _ _ _ hnoput hnodel]
      apply Option.ext
      intro h
      rw [cellsS, cellsS0]
      constructor
      · rintro ⟨tx, o, hat, hh, ho, ht, hns⟩
        refine ⟨tx, o, hpreAt _ _ _ hat hlt, hh, ho, ht, ?_⟩
        intro hsp
        apply hns
        rw [spentBy_append]
        exact List.mem_append_left _ hsp
      · rintro ⟨t', o, hat', hh, ho, ht, hns⟩
        have hatc : TxAt (pre ++ post) ck.bn ck.txi t' := (txAt_append _ _ _ _ _).mpr (Or.inl hat')
        refine ⟨t', o, hatc, hh, ho, ht, ?_⟩
        rw [spentBy_append, List.mem_append, not_or]
        refine ⟨hns, ?_⟩
        intro hsp
        obtain ⟨b, hb, tx, htx, hin⟩ := (mem_spentBy _ _).mp hsp
        obtain ⟨p1, p2, hp⟩ := List.append_of_mem hb
        obtain ⟨tpre, tpost, hbt⟩ := List.append_of_mem htx
        obtain ⟨ipre, ipost, hit⟩ := List.append_of_mem hin
        have hl := histIn (pre ++ p1) p2 b (by rw [hp]; simp) tpre tpost tx (by rw [hbt]; simp)
          ipre ipost _ (by rw [hit]; simp)
          (⟨h, ck.oi⟩, (ck.bn, ck.txi, o)) ((mem_createdBy _ _ _ _ _).mpr ⟨t', hatc, hh, ho⟩) rfl
          ((touches_iff _ _).mpr ht)
        have hatx : TxAt (pre ++ post) b.number tpre.length tx :=
          ⟨b, List.mem_append_right _ hb, rfl, by rw [hbt]; simp⟩
        have := put_complete hw inv hinv hreg (n := n) (i := ⟨h, ck.oi⟩) hatx (hpost b hb)
          (by rw [hit]; simp) hatc hh ho ht hl
        exact hnoput h this
  · -- a cell key of `post`
    have hrhs : lookup S0.cells ck = none := by
      cases hl : lookup S0.cells ck with
      | none => rfl
      | some h =>
        obtain ⟨tx, o, hat, _⟩ := (cellsS0 h).mp hl
        have := hpreLt _ _ _ hat
        omega
    rw [hrhs]
    by_cases hout : ∃ t' o, TxAt (pre ++ post) ck.bn ck.txi t' ∧ t'.outputs[ck.oi]? = some o ∧
        Touches ck.s o
    · -- created by `post`: its output entry is reached after every input entry restoring it
      obtain ⟨t', o, hat', ho, ht⟩ := hout
      have hl : lookup S.hist ⟨ck.s, ck.bn, ck.txi, ck.oi, true⟩ = some t'.hash :=
        (histOut _ _ _ _).mpr
          ⟨o, (mem_createdBy _ _ _ _ _).mpr ⟨t', hat', rfl, ho⟩, (touches_iff _ _).mpr ht⟩
      have hy : ((⟨ck.s, ck.bn, ck.txi, ck.oi, true⟩ : HistKey), t'.hash) ∈ rbEntries S ck.s n :=
        (mem_rbEntries _ _ _ _).mpr ⟨mem_of_lookup hl, rfl, hge⟩
      obtain ⟨A, B, hAB, hB⟩ := sortHistDesc_split _ _ hy
      rw [rollbackScriptOps_eq, hAB, List.flatMap_append, List.flatMap_cons, List.foldl_append]
      apply cells_lookup_del
      · apply List.mem_append_left
        rw [mem_entryOps_delCell]
        exact ⟨rfl, rfl⟩
      · intro h' hm
        rcases List.mem_append.mp hm with hm | hm
        · have := ((mem_entryOps_putCell _ _ _ _ _).mp hm).1
          cases this
        · obtain ⟨x, hx, hop⟩ := List.mem_flatMap.mp hm
          have hxs : x ∈ sortHistDesc (rbEntries S ck.s n) := by
            rw [hAB]
            simp [hx]
          obtain ⟨hxh, hxk, hxn⟩ := (mem_rbEntries _ _ _ _).mp ((mem_sortHistDesc _ _).mp hxs)
          obtain ⟨tx, t'', o'', hat, hin, hat'', hh'', _⟩ := put_sem hw inv hinv hxh hxk hop
          have hlater := spent_later hw hat'' hat hin hh''
          apply hB x hx
          simp only [histKeyLt, Bool.or_eq_true, Bool.and_eq_true, decide_eq_true_eq]
          rcases hlater with h | ⟨h1, h2⟩
          · exact Or.inl h
          · exact Or.inr ⟨h1, Or.inl h2⟩
    · -- no such cell
      have hnoput : ∀ h, Op.putCell ck h ∉ rollbackScriptOps S ck.s n := by
        intro h hm
        obtain ⟨e, he, hek, _, hop⟩ := (mem_rollbackScriptOps _ _ _ _).mp hm
        obtain ⟨_, t', o, _, _, hat', _, ho, ht, _⟩ := put_sem hw inv hinv he hek hop
        exact hout ⟨t', o, hat', ho, ht⟩
      apply cells_lookup_noput_none _ _ _ hnoput
      cases hl : lookup S.cells ck with
      | none => rfl
      | some h =>
        obtain ⟨tx, o, hat, _, ho, ht, _⟩ := (cellsS h).mp hl
        exact absurd ⟨tx, o, hat, ho, ht⟩ hout

/-- the writes for another script do not mention the cell keys of script `ck.s` -/
theorem other_script_ops (S : St) (n : Nat) (ck : CellKey) (k' : SKey) (hne : k' ≠ ck.s) :
    ∀ op ∈ rollbackScriptOps S k' n ++ [.putScript k' n],
      (∀ h, op ≠ .putCell ck h) ∧ op ≠ .delCell ck := by
  intro op hm
  rcases List.mem_append.mp hm with hm | hm
  · obtain ⟨e, _, _, _, hop⟩ := (mem_rollbackScriptOps _ _ _ _).mp hm
    rcases entryOps_kinds hop with ⟨ck', h', rfl, hs⟩ | ⟨ck', rfl, hs⟩ | rfl
    · refine ⟨?_, by simp⟩
      intro h e
      simp only [Op.putCell.injEq] at e
      exact hne (hs.symm.trans (by rw [e.1]))
    · refine ⟨by simp, ?_⟩
      intro e
      simp only [Op.delCell.injEq] at e
      exact hne (hs.symm.trans (by rw [e]))
    · simp
  · simp only [List.mem_singleton] at hm
    subst hm
    simp

/-- **C04 (cells)** -/
theorem rollback_restores_cells_aux (scripts : List (SKey × Nat)) (pre post : List Block) (n : Nat)
    (hw : WellFormed (pre ++ post))
    (hpre : ∀ b ∈ pre, b.number < n) (hpost : ∀ b ∈ post, n ≤ b.number)
    (hn : ∀ e ∈ scripts, n ≤ e.2) (hs : (scripts.map (·.1)).Nodup)
    (k : SKey) (hk : k ∈ scripts.map (·.1)) (ck : CellKey) (hck : ck.s = k) :
    lookup (rollbackToBlock ((pre ++ post).foldl filterBlock (emptyIndex scripts)) n).cells ck =
      lookup (pre.foldl filterBlock (emptyIndex scripts)).cells ck := by
  have key := rollbackScript_cells scripts pre post n hw hpre hpost hs k hk ck hck
  have hsc : ((pre ++ post).foldl filterBlock (emptyIndex scripts)).scripts = scripts :=
    foldl_filterBlock_scripts _ _
  rw [rollbackToBlock_eq]
  unfold rollbackOps
  rw [hsc]
  generalize (pre ++ post).foldl filterBlock (emptyIndex scripts) = S at key ⊢
  generalize pre.foldl filterBlock (emptyIndex scripts) = S0 at key ⊢
  have hfil : scripts.filter (fun e => decide (n ≤ e.2)) = scripts :=
    List.filter_eq_self.mpr (fun e he => by simpa using hn e he)
  rw [hfil]
  obtain ⟨e, he, hek⟩ := List.mem_map.mp hk
  obtain ⟨s1, s2, hsp⟩ := List.append_of_mem he
  subst hck
  have hnd := hs
  rw [hsp, List.map_append, List.map_cons, List.nodup_append, List.nodup_cons] at hnd
  obtain ⟨_, ⟨hn2, _⟩, hn1⟩ := hnd
  rw [hsp, List.flatMap_append, List.flatMap_cons]
  have hre : ∀ X Y P Z : List Op, X ++ ((Y ++ P) ++ Z) = X ++ Y ++ (P ++ Z) := by
    intro X Y P Z
    simp
  rw [hre, hek, cells_lookup_mid _ _ _ _ _ ?_ ?_]
  · exact key
  · intro op hm
    obtain ⟨e', he', hop⟩ := List.mem_flatMap.mp hm
    refine other_script_ops S n ck e'.1 ?_ op hop
    intro heq
    exact hn1 e'.1 (List.mem_map_of_mem he') e.1 List.mem_cons_self (heq.trans hek.symm)
  · intro op hm
    rcases List.mem_append.mp hm with hm | hm
    · simp only [List.mem_singleton] at hm
      subst hm
      simp
    · obtain ⟨e', he', hop⟩ := List.mem_flatMap.mp hm
      refine other_script_ops S n ck e'.1 ?_ op hop
      intro heq
      exact hn2 (by rw [hek, ← heq]; exact List.mem_map_of_mem he')

end Index

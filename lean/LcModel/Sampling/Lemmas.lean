import LcModel.Sampling.Model
/-! helper lemmas for the Sampling layer -/
namespace Sampling

theorem multiply_pos (u num : Nat) : 1 ≤ multiply u num := by
  unfold multiply; simp only; split <;> omega

/-- with a numerator `≤ SCALE` (a ratio `≤ 1`) and a non-empty range, `multiply` stays within
the range -/
theorem multiply_le (u num : Nat) (hu : 1 ≤ u) (hnum : num ≤ SCALE) : multiply u num ≤ u := by
  unfold multiply
  simp only
  have h1 : u * num / SCALE ≤ u := by
    apply Nat.div_le_of_le_mul
    rw [Nat.mul_comm SCALE u]
    exact Nat.mul_le_mul_left u hnum
  have h2 : (u * num / SCALE) % 2^256 ≤ u * num / SCALE := Nat.mod_le _ _
  split <;> omega

/-! ### `insertSorted` / `sortDedup` -/

def Sorted : List Nat → Prop
  | a :: b :: rest => a < b ∧ Sorted (b :: rest)
  | _ => True

theorem sorted_tail {a : Nat} {l : List Nat} (h : Sorted (a :: l)) : Sorted l := by
  cases l with
  | nil => trivial
  | cons b rest => exact h.2

theorem mem_insertSorted (x y : Nat) (l : List Nat) :
    y ∈ insertSorted x l ↔ y = x ∨ y ∈ l := by
  induction l with
  | nil => simp [insertSorted]
  | cons a rest ih =>
    unfold insertSorted
    split
    · simp
    · split
      · rename_i h1 h2; subst h2; simp
      · simp [ih]; constructor <;> (intro h; rcases h with h | h | h <;> simp [h])

theorem head_insertSorted (x : Nat) (l : List Nat) (lo : Nat)
    (hx : lo < x) (hl : ∀ y ∈ l, lo < y) : ∀ y ∈ insertSorted x l, lo < y := by
  intro y hy
  rcases (mem_insertSorted x y l).1 hy with h | h
  · omega
  · exact hl y h

theorem sorted_cons_of_lt (a : Nat) (l : List Nat) (hs : Sorted l) (h : ∀ y ∈ l, a < y) :
    Sorted (a :: l) := by
  cases l with
  | nil => trivial
  | cons b rest => exact ⟨h b (by simp), hs⟩

theorem lt_of_sorted_cons {a : Nat} {l : List Nat} (hs : Sorted (a :: l)) : ∀ y ∈ l, a < y := by
  induction l generalizing a with
  | nil => intro y hy; cases hy
  | cons b rest ih =>
    intro y hy
    rcases List.mem_cons.1 hy with h | h
    · subst h; exact hs.1
    · have := ih hs.2 y h; have := hs.1; omega

theorem sorted_insertSorted (x : Nat) (l : List Nat) (hs : Sorted l) :
    Sorted (insertSorted x l) := by
  induction l with
  | nil => simp [insertSorted, Sorted]
  | cons a rest ih =>
    unfold insertSorted
    split
    · rename_i h; exact ⟨h, hs⟩
    · split
      · exact hs
      · rename_i h1 h2
        have hlt : a < x := by omega
        apply sorted_cons_of_lt
        · exact ih (sorted_tail hs)
        · exact head_insertSorted x rest a hlt (lt_of_sorted_cons hs)

theorem sorted_sortDedup (xs : List Nat) : Sorted (sortDedup xs) := by
  induction xs with
  | nil => simp [sortDedup, Sorted]
  | cons x rest ih => exact sorted_insertSorted x _ ih

theorem mem_sortDedup (xs : List Nat) (y : Nat) : y ∈ sortDedup xs ↔ y ∈ xs := by
  induction xs with
  | nil => simp [sortDedup]
  | cons x rest ih =>
    show y ∈ insertSorted x (sortDedup rest) ↔ _
    rw [mem_insertSorted, ih]; simp

theorem length_insertSorted_le (x : Nat) (l : List Nat) :
    (insertSorted x l).length ≤ l.length + 1 ∧ 1 ≤ (insertSorted x l).length := by
  induction l with
  | nil => simp [insertSorted]
  | cons a rest ih =>
    unfold insertSorted
    split
    · simp
    · split
      · simp
      · simp; omega

theorem length_sortDedup_le (xs : List Nat) : (sortDedup xs).length ≤ xs.length := by
  induction xs with
  | nil => simp [sortDedup]
  | cons x rest ih =>
    show (insertSorted x (sortDedup rest)).length ≤ _
    have := (length_insertSorted_le x (sortDedup rest)).1
    simp; omega

theorem sortDedup_ne_nil (xs : List Nat) (h : xs ≠ []) : sortDedup xs ≠ [] := by
  cases xs with
  | nil => exact absurd rfl h
  | cons x rest =>
    show insertSorted x (sortDedup rest) ≠ []
    have := (length_insertSorted_le x (sortDedup rest)).2
    intro hc; rw [hc] at this; simp at this

/-! ### `randomSample` / `drawAll` -/

theorem randomSample_spec (start range boundary num d : Nat)
    (h : randomSample start range boundary num = .ok d) :
    (d = start + multiply range num ∧ d < boundary) ∨
    (d = boundary - 1 ∧ 1 ≤ boundary ∧ boundary ≤ start + multiply range num) := by
  unfold randomSample at h
  simp only [M.bind_eq_ok, addU256_eq_ok] at h
  obtain ⟨s, ⟨_, rfl⟩, h⟩ := h
  split at h
  · simp only [subU256_eq_ok] at h
    right; omega
  · simp only [M.pure_eq_ok] at h
    left; omega

theorem drawAll_spec (start range boundary : Nat) :
    ∀ (nums ds : List Nat), drawAll start range boundary nums = .ok ds →
      ds.length = nums.length ∧
      ∀ d ∈ ds, ∃ num ∈ nums, randomSample start range boundary num = .ok d := by
  intro nums
  induction nums with
  | nil =>
    intro ds h
    simp [drawAll] at h
    subst h; simp
  | cons n rest ih =>
    intro ds h
    simp only [drawAll, M.bind_eq_ok, M.pure_eq_ok] at h
    obtain ⟨d, hd, ds', hds', rfl⟩ := h
    obtain ⟨hl, hm⟩ := ih ds' hds'
    refine ⟨by simp [hl], ?_⟩
    intro x hx
    rcases List.mem_cons.1 hx with hx | hx
    · subst hx; exact ⟨n, by simp, hd⟩
    · obtain ⟨num, hnum, hr⟩ := hm x hx
      exact ⟨num, by simp [hnum], hr⟩

/-- `drawAll` cannot fail when every draw stays in range -/
theorem drawAll_ok (start range boundary : Nat) (hb : 1 ≤ boundary)
    (hfit : ∀ num, num ≤ SCALE → start + multiply range num ≤ U256_MAX) :
    ∀ (nums : List Nat), (∀ n ∈ nums, n ≤ SCALE) →
      ∃ ds, drawAll start range boundary nums = .ok ds := by
  intro nums
  induction nums with
  | nil => intro _; exact ⟨[], rfl⟩
  | cons n rest ih =>
    intro hn
    obtain ⟨ds, hds⟩ := ih (fun x hx => hn x (by simp [hx]))
    have hfn := hfit n (hn n (by simp))
    have : ∃ d, randomSample start range boundary n = .ok d := by
      unfold randomSample
      simp only [M.bind_eq_ok, addU256_eq_ok]
      by_cases hc : boundary ≤ start + multiply range n
      · exact ⟨boundary - 1, _, ⟨hfn, rfl⟩, by simp [hc, subU256_eq_ok]; omega⟩
      · exact ⟨start + multiply range n, _, ⟨hfn, rfl⟩, by simp [hc]⟩
    obtain ⟨d, hd⟩ := this
    exact ⟨d :: ds, by simp [drawAll, hd, hds, bind, Except.bind, pure, Except.pure]⟩

end Sampling

namespace Sampling

theorem findRebase_spec (sn ln lastN : Nat) :
    ∀ (hs : List Nat) (i j num : Nat),
      findRebase hs sn ln lastN i = .ok (some (j, num)) → num < sn ∧ ln ≤ num + lastN := by
  intro hs
  induction hs with
  | nil => intro i j num h; simp [findRebase] at h
  | cons a rest ih =>
    intro i j num h
    unfold findRebase at h
    split at h
    · simp only [M.bind_eq_ok, addU64_eq_ok] at h
      obtain ⟨lim, ⟨_, rfl⟩, h⟩ := h
      split at h
      · simp only [M.pure_eq_ok, Option.some.injEq, Prod.mk.injEq] at h
        obtain ⟨_, rfl⟩ := h
        omega
      · exact ih _ _ _ h
    · exact ih _ _ _ h

theorem findRebase_ok (sn ln lastN : Nat) :
    ∀ (hs : List Nat) (i : Nat), (∀ num ∈ hs, num + lastN ≤ U64_MAX) →
      ∃ r, findRebase hs sn ln lastN i = .ok r := by
  intro hs
  induction hs with
  | nil => intro i _; exact ⟨none, rfl⟩
  | cons a rest ih =>
    intro i hh
    have ha := hh a (by simp)
    have hrest : ∀ num ∈ rest, num + lastN ≤ U64_MAX := fun n hn => hh n (by simp [hn])
    unfold findRebase
    split
    · by_cases hc : ln ≤ a + lastN
      · exact ⟨some (i, a), by simp [addU64, ha, hc, bind, Except.bind, pure, Except.pure]⟩
      · obtain ⟨r, hr⟩ := ih (i + 1) hrest
        exact ⟨r, by simp [addU64, ha, hc, bind, Except.bind, hr]⟩
    · exact ih (i + 1) hrest

end Sampling

import LcModel.Prelude
/-!
# Sampling layer — model of `src/protocols/light_client/sampling.rs` (integer part) and of
`LightClientProtocol::build_prove_request_content(_from_genesis)` (`light_client/mod.rs`).

The three `f64`-derived quantities are *inputs* of the model (DESIGN.md C15): the `u32`
numerator of `1 - delta` (`nb`), the numerators of the random draws (`draws`), and the
estimated requirement `m` of `estimate_samples_count`.
-/
namespace Sampling

def SCALE : Nat := 1000000000

/-- `multiply(uint, ratio)` with `numerator = (ratio * 1e9) as u32` given: computed in U512,
narrowed to U256 (low 256 bits), and clamped up to 1. -/
def multiply (u num : Nat) : Nat :=
  let n := (u * num / SCALE) % 2^256
  if n = 0 then 1 else n

/-- `FlyClientPDF::random_sample` for one draw with numerator `num` -/
def randomSample (start range boundary num : Nat) : M Nat := do
  let s ← addU256 40 start (multiply range num)
  if boundary ≤ s then subU256 41 boundary 1 else pure s

/-- insertion into a strictly increasing list (the `HashSet` + `sort` of `sample_blocks`) -/
def insertSorted (x : Nat) : List Nat → List Nat
  | [] => [x]
  | y :: ys => if x < y then x :: y :: ys else if x = y then y :: ys else y :: insertSorted x ys

def sortDedup (xs : List Nat) : List Nat := xs.foldr insertSorted []

def drawAll (start range boundary : Nat) : List Nat → M (List Nat)
  | [] => pure []
  | n :: ns => do
    let d ← randomSample start range boundary n
    let ds ← drawAll start range boundary ns
    pure (d :: ds)

/-- `sample_blocks` after the float part: (boundary, sorted distinct difficulties) -/
def sampleBlocks (startTd lastTd nb : Nat) (draws : List Nat) : M (Nat × List Nat) := do
  let range ← subU256 42 lastTd startTd
  let boundary ← addU256 43 startTd (multiply range nb)
  let ds ← drawAll startTd range boundary draws
  pure (boundary, sortDedup ds)

/-- `estimate_samples_count` as a function of the float-computed requirement `m` -/
def estimateSamplesCount (blocksCount lastN m : Nat) : Nat :=
  if blocksCount ≤ lastN then 0
  else if m ≤ lastN then 1
  else if blocksCount < m then blocksCount - lastN
  else m - lastN

/-- which block the request starts from -/
inductive StartSel where
  | own            -- the peer's proven header, or the stored tip when the peer has none
  | stored (i : Nat) -- the i-th stored last-N header (rebase)
  deriving Repr, DecidableEq

structure Request where
  sel : StartSel
  startNumber : Nat
  boundary : Nat
  difficulties : List Nat
  deriving Repr, DecidableEq

/-- first stored last-N header (index, number) usable as a rebased start -/
def findRebase (lastNHeaders : List Nat) (startNumber lastNumber lastN : Nat) (i : Nat := 0) :
    M (Option (Nat × Nat)) :=
  match lastNHeaders with
  | [] => pure none
  | num :: rest =>
    if num < startNumber then do
      let lim ← addU64 44 num lastN
      if lastNumber ≤ lim then pure (some (i, num))
      else findRebase rest startNumber lastNumber lastN (i + 1)
    else findRebase rest startNumber lastNumber lastN (i + 1)

/-- `build_prove_request_content`: `start` is the (number, total difficulty) of the peer's
proven header or else of the stored tip; `lastNHeaders` the stored last-N header numbers in
stored order. -/
def buildRequest (lastN : Nat) (startNumber startTd lastNumber lastTd : Nat)
    (lastNHeaders : List Nat) (nb : Nat) (draws : List Nat) : M (Option Request) :=
  if lastTd < startTd || lastNumber ≤ startNumber then pure none
  else if lastNumber - startNumber ≤ lastN then do
    match ← findRebase lastNHeaders startNumber lastNumber lastN with
    | some (i, num) => pure (some ⟨.stored i, num, startTd, []⟩)
    | none => pure (some ⟨.own, startNumber, startTd, []⟩)
  else if startTd = lastTd then pure none
  else do
    let (boundary, ds) ← sampleBlocks startTd lastTd nb draws
    pure (some ⟨.own, startNumber, boundary, ds⟩)

/-- `build_prove_request_content_from_genesis` (start = genesis, number 0, difficulty 0) -/
def buildRequestFromGenesis (lastN lastNumber lastTd nb : Nat) (draws : List Nat) :
    M (Option Request) :=
  if lastNumber ≤ 0 then pure none
  else if lastNumber - 0 ≤ lastN then pure (some ⟨.own, 0, 0, []⟩)
  else if lastTd = 0 then pure none
  else do
    let (boundary, ds) ← sampleBlocks 0 lastTd nb draws
    pure (some ⟨.own, 0, boundary, ds⟩)

/-! ### validating the implementation's random choice (choice-as-input) -/

/-- is `d` a value `random_sample` can return for some numerator `≤ SCALE`?  The candidates
are the numerators around `(d - start) * SCALE / range`; `boundary - 1` is reached by every
draw at or above the boundary. -/
def isPossibleSample (start range boundary d : Nat) : Bool :=
  let viaNum (num : Nat) : Bool :=
    match randomSample start range boundary num with
    | .ok v => v = d
    | .error _ => false
  let base := if range = 0 then 0 else (d - start) * SCALE / range
  viaNum 0 || viaNum base || viaNum (base + 1) || viaNum (base + 2) || viaNum (base - 1) || viaNum SCALE

def strictlyIncreasing : List Nat → Bool
  | a :: b :: rest => a < b && strictlyIncreasing (b :: rest)
  | _ => true

/-- the implementation's sampled difficulties are an allowed outcome of `sample_blocks` with
`count` draws -/
def samplesAllowed (startTd lastTd nb count : Nat) (ds : List Nat) : Bool :=
  match sampleBlocks startTd lastTd nb [] with
  | .error _ => false
  | .ok (boundary, _) =>
    strictlyIncreasing ds && ds.all (isPossibleSample startTd (lastTd - startTd) boundary)
      && ds.length ≤ count && (count = 0 || ds.length ≥ 1)

/-! ### driver -/

def showSel : StartSel → String
  | .own => "own" | .stored i => s!"stored {i}"

def showReq : Option Request → String
  | none => "none"
  | some r => s!"req {showSel r.sel} {r.startNumber} {r.boundary} {r.difficulties.length}"

def splitAt (sep : String) (ts : List String) : List String × List String :=
  match ts.span (· ≠ sep) with
  | (a, _ :: b) => (a, b)
  | (a, []) => (a, [])

/-- ops:
  `mul u num`
  `esc blocksCount lastN m`
  `req lastN startNumber startTd lastNumber lastTd nb count | lastNHeaders… | implDifficulties…`
     answers the deterministic part of the request and whether the implementation's sampled
     difficulties are allowed
  `gen lastN lastNumber lastTd nb count | implDifficulties…`
  `draw startTd lastTd nb | nums…`  (fully deterministic `sample_blocks`) -/
def step (line : String) : String :=
  match tokens line with
  | ["mul", u, n] => match u.toNat?, n.toNat? with
      | some u, some n => toString (multiply u n)
      | _, _ => "bad-op"
  | ["esc", b, l, m] => match b.toNat?, l.toNat?, m.toNat? with
      | some b, some l, some m => toString (estimateSamplesCount b l m)
      | _, _, _ => "bad-op"
  | "req" :: rest =>
    let (a, r1) := splitAt "|" rest
    let (hs, ds) := splitAt "|" r1
    match natsOf a, natsOf hs, natsOf ds with
    | some [lastN, sn, std, ln, ltd, nb, count], some hs, some ds =>
      (match buildRequest lastN sn std ln ltd hs nb [] with
       | .error p => showPanic p
       | .ok none => "none"
       | .ok (some r) =>
         if r.difficulties.isEmpty && ln - sn ≤ lastN then
           s!"{showReq (some r)} {showBool ds.isEmpty}"
         else
           s!"req {showSel r.sel} {r.startNumber} {r.boundary} {ds.length} {showBool (samplesAllowed std ltd nb count ds)}")
    | _, _, _ => "bad-op"
  | "gen" :: rest =>
    let (a, ds) := splitAt "|" rest
    match natsOf a, natsOf ds with
    | some [lastN, ln, ltd, nb, count], some ds =>
      (match buildRequestFromGenesis lastN ln ltd nb [] with
       | .error p => showPanic p
       | .ok none => "none"
       | .ok (some r) =>
         if ln ≤ lastN then s!"{showReq (some r)} {showBool ds.isEmpty}"
         else s!"req {showSel r.sel} {r.startNumber} {r.boundary} {ds.length} {showBool (samplesAllowed 0 ltd nb count ds)}")
    | _, _ => "bad-op"
  | "draw" :: rest =>
    let (a, ns) := splitAt "|" rest
    match natsOf a, natsOf ns with
    | some [std, ltd, nb], some ns =>
      (match sampleBlocks std ltd nb ns with
       | .error p => showPanic p
       | .ok (b, ds) => s!"{b} {ds}")
    | _, _ => "bad-op"
  | _ => "bad-op"

end Sampling

import LcModel.Index.Lemmas
/-!
# C03 — the script index equals the chain

Subject: `Index.filterBlock`, `Index.rollbackToBlock`, `Index.addFetchedTx` (model of
`Storage::{filter_block, rollback_to_block, add_fetched_tx}`), tied to the code by `./check C03`.
The specification is a ground-truth indexer written directly over the block list.

The main theorems come in two forms: over *histories* (`Event`, `runEvents`,
`WellFormedHistory`), where results of fetches (`add_fetched_tx`, `add_fetched_header`) arrive at
any point between the filtered blocks — `cells_equal_chain_with_fetches`,
`outputs_recorded_with_fetches`, `inputs_recorded_with_fetches` — and, as corollaries, over plain
block lists (`cells_equal_chain`, `outputs_recorded`, `inputs_recorded`).  `filter_block` looks the
creating transaction of an input up among the earlier transactions of the block first and in the
store second; `witness_fetched_before_filtered` shows what the opposite order (the pinned tree's)
did to a transaction fetched before its block was filtered.
-/
namespace C03
open Index

/-! ## ground truth -/

/-- every output a block list creates: out point ↦ (block number, tx index, output) -/
def createdBy (chain : List Block) : List (OutPt × (Nat × Nat × Output)) :=
  chain.flatMap (fun b => (enum b.txs).flatMap (fun (txi, tx) =>
    (enum tx.outputs).map (fun (oi, o) => (⟨tx.hash, oi⟩, (b.number, txi, o)))))

/-- every out point a block list consumes -/
def spentBy (chain : List Block) : List OutPt :=
  chain.flatMap (fun b => b.txs.flatMap (·.inputs))

def touches (k : SKey) (o : Output) : Bool :=
  if k.isType then o.type_ = some k.script else o.lock = k.script

/-- the cells of script `k` that are live at the end of the chain, as index keys -/
def liveCells (chain : List Block) (k : SKey) : List (CellKey × Nat) :=
  (createdBy chain).filterMap (fun (op, (bn, txi, o)) =>
    if touches k o && !(spentBy chain).contains op then some (⟨k, bn, txi, op.idx⟩, op.tx) else none)

/-- the chain is well formed: block numbers strictly increase, transaction hashes are pairwise
distinct, no out point is spent twice, and an input that refers to a transaction of the chain
refers to an existing output of an *earlier* transaction (earlier block, or earlier in the same
block) -/
structure WellFormed (chain : List Block) : Prop where
  numbers : (chain.map (·.number)).Pairwise (· < ·)
  hashes : (chain.flatMap (fun b => b.txs.map (·.hash))).Nodup
  noDoubleSpend : (spentBy chain).Nodup
  inputsEarlier : ∀ pre b post, chain = pre ++ [b] ++ post →
    ∀ tpre tx tpost, b.txs = tpre ++ [tx] ++ tpost → ∀ i ∈ tx.inputs,
      (∃ t ∈ chain.flatMap (·.txs), t.hash = i.tx) →
      ∃ e ∈ createdBy (pre ++ [{ b with txs := tpre }]), e.1 = i

/-- an empty index with the given registered scripts -/
def emptyIndex (scripts : List (SKey × Nat)) : St := ⟨scripts, [], [], [], [], []⟩

/-! ## histories with fetch results -/

/-- one step of a history of the store: a block handed to `filter_block`, or the result of a
fetch (`add_fetched_tx`, `add_fetched_header`) arriving at that point -/
inductive Event where
  | block (b : Block)
  | fetchedTx (tx : Tx) (bn bh : Nat)
  | fetchedHeader (bn bh : Nat)
  deriving Repr, DecidableEq

def stepEvent (s : St) : Event → St
  | .block b => filterBlock s b
  | .fetchedTx tx bn bh => addFetchedTx s tx bn bh
  | .fetchedHeader bn bh => addFetchedHeader s bn bh

def runEvents (s : St) (es : List Event) : St := es.foldl stepEvent s

def Event.block? : Event → Option Block
  | .block b => some b
  | _ => none

/-- the blocks of a history, in order -/
def blocksOf (es : List Event) : List Block := es.filterMap Event.block?

/-- the blocks of the history, in order, form a well-formed chain, and every fetched transaction
is a transaction of that chain — of a block filtered before *or after* the fetch — stored under
the number of its block (the header hash that comes with it is arbitrary) -/
structure WellFormedHistory (es : List Event) : Prop where
  chain : WellFormed (blocksOf es)
  fetched : ∀ tx bn bh, Event.fetchedTx tx bn bh ∈ es →
    ∃ b ∈ blocksOf es, b.number = bn ∧ tx ∈ b.txs

/-! ## proof infrastructure -/

/-- `tx` is the `txi`-th transaction of the block numbered `bn` -/
private def TxAt (chain : List Block) (bn txi : Nat) (tx : Tx) : Prop :=
  ∃ b ∈ chain, b.number = bn ∧ b.txs[txi]? = some tx

private theorem touches_iff (k : SKey) (o : Output) : touches k o = true ↔ Touches k o := by
  obtain ⟨sc, ty⟩ := k
  cases ty <;> simp [touches, Touches, eq_comm]

private theorem txAt_append (l1 l2 : List Block) (bn txi : Nat) (tx : Tx) :
    TxAt (l1 ++ l2) bn txi tx ↔ TxAt l1 bn txi tx ∨ TxAt l2 bn txi tx := by
  unfold TxAt
  simp only [List.mem_append]
  constructor
  · rintro ⟨b, hb | hb, h⟩
    · exact Or.inl ⟨b, hb, h⟩
    · exact Or.inr ⟨b, hb, h⟩
  · rintro (⟨b, hb, h⟩ | ⟨b, hb, h⟩)
    · exact ⟨b, Or.inl hb, h⟩
    · exact ⟨b, Or.inr hb, h⟩

private theorem txAt_singleton (b : Block) (bn txi : Nat) (tx : Tx) :
    TxAt [b] bn txi tx ↔ b.number = bn ∧ b.txs[txi]? = some tx := by
  simp [TxAt]

private theorem mem_createdBy (chain : List Block) (op : OutPt) (bn txi : Nat) (o : Output) :
    (op, (bn, txi, o)) ∈ createdBy chain ↔
      ∃ tx, TxAt chain bn txi tx ∧ tx.hash = op.tx ∧ tx.outputs[op.idx]? = some o := by
  unfold createdBy TxAt
  simp only [List.mem_flatMap, List.mem_map]
  constructor
  · rintro ⟨b, hb, ⟨txi', tx⟩, htx, ⟨oi, o'⟩, ho, e⟩
    rw [mem_enum] at htx ho
    simp only [Prod.mk.injEq] at e
    obtain ⟨rfl, rfl, rfl, rfl⟩ := e
    exact ⟨tx, ⟨b, hb, rfl, htx⟩, rfl, ho⟩
  · rintro ⟨tx, ⟨b, hb, rfl, htx⟩, hh, ho⟩
    refine ⟨b, hb, (txi, tx), (mem_enum _ _ _).mpr htx, (op.idx, o), (mem_enum _ _ _).mpr ho, ?_⟩
    cases op
    simp_all

private theorem mem_spentBy (chain : List Block) (op : OutPt) :
    op ∈ spentBy chain ↔ ∃ b ∈ chain, ∃ tx ∈ b.txs, op ∈ tx.inputs := by
  simp [spentBy]

private theorem spentBy_append (l1 l2 : List Block) :
    spentBy (l1 ++ l2) = spentBy l1 ++ spentBy l2 := by
  simp [spentBy]

private theorem createdBy_append (l1 l2 : List Block) :
    createdBy (l1 ++ l2) = createdBy l1 ++ createdBy l2 := by
  simp [createdBy]

private theorem mem_liveCells (chain : List Block) (k : SKey) (ck : CellKey) (h : Nat) :
    (ck, h) ∈ liveCells chain k ↔
      ck.s = k ∧ ∃ tx o, TxAt chain ck.bn ck.txi tx ∧ tx.hash = h ∧
        tx.outputs[ck.oi]? = some o ∧ Touches k o ∧ (⟨h, ck.oi⟩ : OutPt) ∉ spentBy chain := by
  unfold liveCells
  rw [List.mem_filterMap]
  constructor
  · rintro ⟨⟨op, bn, txi, o⟩, hm, e⟩
    simp only at e
    split at e
    · rename_i hc
      simp only [Bool.and_eq_true, Bool.not_eq_eq_eq_not, Bool.not_true,
        List.contains_eq_mem, decide_eq_false_iff_not] at hc
      simp only [Option.some.injEq, Prod.mk.injEq] at e
      obtain ⟨rfl, rfl⟩ := e
      obtain ⟨tx, hat, hh, ho⟩ := (mem_createdBy _ _ _ _ _).mp hm
      refine ⟨rfl, tx, o, hat, hh, ho, (touches_iff _ _).mp hc.1, ?_⟩
      cases op
      exact hc.2
    · cases e
  · rintro ⟨rfl, tx, o, hat, hh, ho, ht, hns⟩
    obtain ⟨k, bn, txi, oi⟩ := ck
    refine ⟨(⟨h, oi⟩, bn, txi, o), (mem_createdBy _ _ _ _ _).mpr ⟨tx, hat, hh, ho⟩, ?_⟩
    simp only at ht hns ⊢
    rw [if_pos]
    simp only [Bool.and_eq_true, Bool.not_eq_eq_eq_not, Bool.not_true,
        List.contains_eq_mem, decide_eq_false_iff_not]
    exact ⟨(touches_iff _ _).mpr ht, hns⟩

/-! ### consequences of well-formedness -/

private theorem pairwise_lt_inj {α} (f : α → Nat) (l : List α)
    (hp : (l.map f).Pairwise (· < ·)) {a b : α} (ha : a ∈ l) (hb : b ∈ l) (e : f a = f b) :
    a = b := by
  induction l with
  | nil => cases ha
  | cons c l ih =>
    rw [List.map_cons, List.pairwise_cons] at hp
    rcases List.mem_cons.mp ha with rfl | ha' <;> rcases List.mem_cons.mp hb with rfl | hb'
    · rfl
    · have := hp.1 (f b) (List.mem_map_of_mem hb'); omega
    · have := hp.1 (f a) (List.mem_map_of_mem ha'); omega
    · exact ih hp.2 ha' hb'

private theorem wf_prefix {l1 l2 : List Block} (hw : WellFormed (l1 ++ l2)) : WellFormed l1 where
  numbers := by
    have := hw.numbers
    rw [List.map_append, List.pairwise_append] at this
    exact this.1
  hashes := by
    have := hw.hashes
    rw [List.flatMap_append, List.nodup_append] at this
    exact this.1
  noDoubleSpend := by
    have := hw.noDoubleSpend
    rw [spentBy_append, List.nodup_append] at this
    exact this.1
  inputsEarlier := by
    intro pre b post hc tpre tx tpost hb i hi hex
    refine hw.inputsEarlier pre b (post ++ l2) (by rw [hc]; simp) tpre tx tpost hb i hi ?_
    obtain ⟨t, ht, e⟩ := hex
    exact ⟨t, by rw [List.flatMap_append]; exact List.mem_append_left _ ht, e⟩

private theorem txAt_fun {chain : List Block} (hw : WellFormed chain) {bn txi : Nat} {tx tx' : Tx}
    (h : TxAt chain bn txi tx) (h' : TxAt chain bn txi tx') : tx = tx' := by
  obtain ⟨b, hb, hn, ht⟩ := h
  obtain ⟨b', hb', hn', ht'⟩ := h'
  have : b = b' := pairwise_lt_inj (·.number) chain hw.numbers hb hb' (hn.trans hn'.symm)
  subst this
  rw [ht] at ht'
  exact Option.some.inj ht'

private theorem hash_inj (chain : List Block)
    (hnd : (chain.flatMap (fun b => b.txs.map (·.hash))).Nodup) {b1 b2 : Block}
    (h1 : b1 ∈ chain) (h2 : b2 ∈ chain) {i1 i2 : Nat} {t1 t2 : Tx}
    (e1 : b1.txs[i1]? = some t1) (e2 : b2.txs[i2]? = some t2) (e : t1.hash = t2.hash) :
    b1 = b2 ∧ i1 = i2 := by
  induction chain with
  | nil => cases h1
  | cons c rest ih =>
    rw [List.flatMap_cons, List.nodup_append] at hnd
    obtain ⟨ndc, ndr, disj⟩ := hnd
    have inC : ∀ {b : Block} {i : Nat} {t : Tx}, b.txs[i]? = some t →
        t.hash ∈ b.txs.map (·.hash) := fun h => List.mem_map_of_mem (List.mem_of_getElem? h)
    have inR : ∀ {b : Block} {i : Nat} {t : Tx}, b ∈ rest → b.txs[i]? = some t →
        t.hash ∈ rest.flatMap (fun b => b.txs.map (·.hash)) :=
      fun hb h => List.mem_flatMap.mpr ⟨_, hb, inC h⟩
    rcases List.mem_cons.mp h1 with rfl | h1' <;> rcases List.mem_cons.mp h2 with rfl | h2'
    · refine ⟨rfl, ?_⟩
      have hlt := (List.getElem?_eq_some_iff.mp e1).1
      refine (List.getElem?_inj (by rw [List.length_map]; exact hlt) ndc).mp ?_
      rw [List.getElem?_map, List.getElem?_map, e1, e2]
      simp [e]
    · exact absurd e (disj _ (inC e1) _ (inR h2' e2))
    · exact absurd e.symm (disj _ (inC e2) _ (inR h1' e1))
    · exact ih ndr h1' h2'

private theorem txAt_hash_inj {chain : List Block} (hw : WellFormed chain) {bn txi bn' txi' : Nat}
    {tx tx' : Tx} (h : TxAt chain bn txi tx) (h' : TxAt chain bn' txi' tx')
    (e : tx.hash = tx'.hash) : bn = bn' ∧ txi = txi' ∧ tx = tx' := by
  obtain ⟨b, hb, hn, ht⟩ := h
  obtain ⟨b', hb', hn', ht'⟩ := h'
  obtain ⟨rfl, rfl⟩ := hash_inj chain hw.hashes hb hb' ht ht' e
  rw [ht] at ht'
  exact ⟨hn.symm.trans hn', rfl, Option.some.inj ht'⟩

private theorem txAt_lt {pre : List Block} {b : Block} (hw : WellFormed (pre ++ [b]))
    {bn txi : Nat} {tx : Tx} (h : TxAt pre bn txi tx) : bn < b.number := by
  obtain ⟨b', hb', hn, _⟩ := h
  have := hw.numbers
  rw [List.map_append, List.pairwise_append] at this
  have := this.2.2 _ (List.mem_map_of_mem hb') b.number (by simp)
  omega

/-- an input that refers to a transaction of the chain refers to an existing output of a
transaction in an earlier block or earlier in the same block -/
private theorem input_earlier {chain pre post : List Block} {b : Block} (hw : WellFormed chain)
    (hc : chain = pre ++ [b] ++ post) {tpre tpost : List Tx} {tx : Tx}
    (hb : b.txs = tpre ++ tx :: tpost) {i : OutPt} (hi : i ∈ tx.inputs)
    {bn' txi' : Nat} {t' : Tx} (hat : TxAt chain bn' txi' t') (hh : t'.hash = i.tx) :
    (TxAt pre bn' txi' t' ∨ (bn' = b.number ∧ tpre[txi']? = some t')) ∧
      ∃ o, t'.outputs[i.idx]? = some o := by
  have hmem : t' ∈ chain.flatMap (·.txs) := by
    obtain ⟨b', hb', _, ht'⟩ := hat
    exact List.mem_flatMap.mpr ⟨b', hb', List.mem_of_getElem? ht'⟩
  obtain ⟨⟨op, bn, txi, o⟩, he, rfl⟩ :=
    hw.inputsEarlier pre b post hc tpre tx tpost (by simp [hb]) i hi ⟨t', hmem, hh⟩
  obtain ⟨t'', hat'', hh'', ho''⟩ := (mem_createdBy _ _ _ _ _).mp he
  simp only at hh hh'' ho''
  -- `t''` sits at the same place in the full chain
  have hfull : TxAt chain bn txi t'' := by
    rw [hc, txAt_append, txAt_append]
    rcases (txAt_append _ _ _ _ _).mp hat'' with h | h
    · exact Or.inl (Or.inl h)
    · rw [txAt_singleton] at h
      simp only at h
      refine Or.inl (Or.inr ((txAt_singleton _ _ _ _).mpr ⟨h.1, ?_⟩))
      rw [hb, List.getElem?_append_left (List.getElem?_eq_some_iff.mp h.2).1]
      exact h.2
  obtain ⟨rfl, rfl, rfl⟩ := txAt_hash_inj hw hat hfull (hh.trans hh''.symm)
  refine ⟨?_, o, ho''⟩
  rcases (txAt_append _ _ _ _ _).mp hat'' with h | h
  · exact Or.inl h
  · rw [txAt_singleton] at h
    exact Or.inr ⟨h.1.symm, h.2⟩

/-! ### histories -/

private theorem blocksOf_append (l1 l2 : List Event) :
    blocksOf (l1 ++ l2) = blocksOf l1 ++ blocksOf l2 := by
  simp [blocksOf]

private theorem blocksOf_map_block (chain : List Block) : blocksOf (chain.map .block) = chain := by
  induction chain with
  | nil => rfl
  | cons b chain ih =>
    unfold blocksOf at ih ⊢
    rw [List.map_cons, List.filterMap_cons]
    simp only [Event.block?]
    rw [ih]

private theorem runEvents_append (s : St) (l1 l2 : List Event) :
    runEvents s (l1 ++ l2) = runEvents (runEvents s l1) l2 := by
  simp [runEvents]

private theorem runEvents_map_block (s : St) (chain : List Block) :
    runEvents s (chain.map .block) = chain.foldl filterBlock s := by
  unfold runEvents
  rw [List.foldl_map]
  rfl

private theorem wfh_of_chain {chain : List Block} (hw : WellFormed chain) :
    WellFormedHistory (chain.map .block) where
  chain := by rw [blocksOf_map_block]; exact hw
  fetched := by
    intro tx bn bh hm
    obtain ⟨b, _, e⟩ := List.mem_map.mp hm
    cases e

private theorem txAt_mono {pre rest : List Block} {bn txi : Nat} {tx : Tx}
    (h : TxAt pre bn txi tx) : TxAt (pre ++ rest) bn txi tx :=
  (txAt_append _ _ _ _ _).mpr (Or.inl h)

/-- the transaction keyspace after `add_fetched_tx` -/
private theorem addFetchedTx_txs (s : St) (tx : Tx) (bn bh h : Nat) :
    lookup (addFetchedTx s tx bn bh).txs h =
      if h = tx.hash ∧ (∀ r, lookup s.txs tx.hash = some r → r.txi = U32_MAX_IDX) then
        some ⟨bn, U32_MAX_IDX, tx⟩
      else lookup s.txs h := by
  unfold addFetchedTx
  cases hl : lookup s.txs tx.hash with
  | none =>
    simp only [Bool.false_eq_true, ↓reduceIte, applyOp, lookup_put]
    simp
  | some r0 =>
    by_cases hr : r0.txi = U32_MAX_IDX
    · simp only [hr, ne_eq, not_true_eq_false, decide_false, Bool.false_eq_true, ↓reduceIte,
        applyOp, lookup_put]
      simp [hr]
    · simp only [ne_eq, hr, not_false_eq_true, decide_true, ↓reduceIte, applyOp]
      simp [hr]

private theorem addFetchedTx_cells (s : St) (tx : Tx) (bn bh : Nat) :
    (addFetchedTx s tx bn bh).cells = s.cells := by
  unfold addFetchedTx
  dsimp only
  split <;> (try split) <;> rfl

private theorem addFetchedTx_hist (s : St) (tx : Tx) (bn bh : Nat) :
    (addFetchedTx s tx bn bh).hist = s.hist := by
  unfold addFetchedTx
  dsimp only
  split <;> (try split) <;> rfl

private theorem addFetchedTx_scripts (s : St) (tx : Tx) (bn bh : Nat) :
    (addFetchedTx s tx bn bh).scripts = s.scripts := by
  unfold addFetchedTx
  dsimp only
  split <;> (try split) <;> rfl

/-! ### the transaction keyspace -/

/-- what `filter_block` and `add_fetched_tx` maintain about stored transactions (`pre` = the
blocks filtered so far, `full` = all blocks of the history): a stored record holds a transaction
of the chain under its hash and block number, with its true position if its block has been
filtered and it matched, or with `u32::MAX` (a fetched copy, possibly of a transaction whose
block comes later); every transaction of a filtered block with an output of a registered script
is stored with its true position -/
private structure TxInv (scripts : List (SKey × Nat)) (full pre : List Block) (s : St) : Prop where
  scripts : s.scripts = scripts
  sound : ∀ h r, lookup s.txs h = some r → r.tx.hash = h ∧
    (TxAt pre r.bn r.txi r.tx ∨ (r.txi = U32_MAX_IDX ∧ ∃ txi, TxAt full r.bn txi r.tx))
  complete : ∀ (bn txi : Nat) (tx : Tx) (oi : Nat) (o : Output) (k : SKey),
    TxAt pre bn txi tx → tx.outputs[oi]? = some o → Touches k o →
    registered s k = true → lookup s.txs tx.hash = some ⟨bn, txi, tx⟩

private theorem txAt_of_split (pre : List Block) {b : Block} {tpre tpost : List Tx} {tx : Tx}
    (hb : b.txs = tpre ++ tx :: tpost) : TxAt (pre ++ [b]) b.number tpre.length tx := by
  rw [txAt_append, txAt_singleton]
  right
  exact ⟨rfl, by rw [hb]; simp⟩

private theorem putTx_blockOps {s : St} {b : Block} {h : Nat} {r : TxRec}
    (hm : Op.putTx h r ∈ blockOps s b) (pre : List Block) :
    r.tx.hash = h ∧ r.bn = b.number ∧ TxAt (pre ++ [b]) r.bn r.txi r.tx := by
  obtain ⟨tpre, tx, tpost, hb, hop⟩ := (mem_blockOps' _ _ _).mp hm
  obtain ⟨rfl, rfl⟩ := txOp_putTx _ _ _ _ _ _ hop
  exact ⟨rfl, rfl, txAt_of_split pre hb⟩

private theorem putTx_unique {pre : List Block} {b : Block} {s : St} {h : Nat} {r r' : TxRec}
    (hw : WellFormed (pre ++ [b])) (hm : Op.putTx h r ∈ blockOps s b)
    (hm' : Op.putTx h r' ∈ blockOps s b) : r' = r := by
  obtain ⟨h1, _, h3⟩ := putTx_blockOps hm pre
  obtain ⟨h1', _, h3'⟩ := putTx_blockOps hm' pre
  obtain ⟨e1, e2, e3⟩ := txAt_hash_inj hw h3' h3 (h1'.trans h1.symm)
  cases r; cases r'; simp_all

private theorem txInv_step {scripts : List (SKey × Nat)} {full pre : List Block} {b : Block}
    {s : St} (hw : WellFormed (pre ++ [b])) (inv : TxInv scripts full pre s) :
    TxInv scripts full (pre ++ [b]) (filterBlock s b) where
  scripts := by rw [filterBlock_scripts]; exact inv.scripts
  sound := by
    intro h r hl
    by_cases hex : ∃ r', Op.putTx h r' ∈ blockOps s b
    · obtain ⟨r', hm⟩ := hex
      have := filterBlock_txs_put s b h r' hm (fun r'' hm'' => putTx_unique hw hm hm'')
      rw [this] at hl
      cases hl
      obtain ⟨h1, _, h3⟩ := putTx_blockOps hm pre
      exact ⟨h1, Or.inl h3⟩
    · have hno : ∀ r', Op.putTx h r' ∉ blockOps s b := fun r' hm => hex ⟨r', hm⟩
      rw [filterBlock_txs_unch s b h hno] at hl
      obtain ⟨h1, h2⟩ := inv.sound h r hl
      exact ⟨h1, h2.imp txAt_mono id⟩
  complete := by
    intro bn txi tx oi o k hat ho ht hr
    rw [filterBlock_registered] at hr
    rcases (txAt_append _ _ _ _ _).mp hat with h | h
    · have hno : ∀ r', Op.putTx tx.hash r' ∉ blockOps s b := by
        intro r' hm
        obtain ⟨h1, h2, h3⟩ := putTx_blockOps hm pre
        obtain ⟨e1, _, _⟩ := txAt_hash_inj hw h3 hat h1
        have := txAt_lt hw h
        omega
      rw [filterBlock_txs_unch s b _ hno]
      exact inv.complete bn txi tx oi o k h ho ht hr
    · rw [txAt_singleton] at h
      obtain ⟨rfl, hi⟩ := h
      obtain ⟨tpre, tpost, hb, rfl⟩ := (getElem?_eq_some_iff_split _ _ _).mp hi
      have hm : Op.putTx tx.hash ⟨b.number, tpre.length, tx⟩ ∈ blockOps s b :=
        (mem_blockOps' _ _ _).mpr
          ⟨tpre, tx, tpost, hb, txOp_putTx_of_output s b tpre tx oi o k ho ht hr⟩
      exact filterBlock_txs_put s b _ _ hm (fun r' hm' => putTx_unique hw hm hm')

/-- a fetched copy of a chain transaction keeps the invariant: it never replaces a record with a
true position (other than by an equal record) -/
private theorem txInv_fetchedTx {scripts : List (SKey × Nat)} {full pre rest : List Block}
    {s : St} (hwf : WellFormed full) (hc : full = pre ++ rest) (inv : TxInv scripts full pre s)
    {tx : Tx} {bn txi : Nat} (bh : Nat) (hat : TxAt full bn txi tx) :
    TxInv scripts full pre (addFetchedTx s tx bn bh) where
  scripts := by rw [addFetchedTx_scripts]; exact inv.scripts
  sound := by
    intro h r hl
    rw [addFetchedTx_txs] at hl
    split at hl
    · rename_i hc'
      cases hl
      exact ⟨hc'.1.symm, Or.inr ⟨rfl, txi, hat⟩⟩
    · exact inv.sound h r hl
  complete := by
    intro bn' txi' tx' oi o k hat' ho ht hr
    have hr' : registered s k = true := by
      unfold registered at hr ⊢
      rw [addFetchedTx_scripts] at hr
      exact hr
    have hl := inv.complete bn' txi' tx' oi o k hat' ho ht hr'
    rw [addFetchedTx_txs]
    split
    · rename_i hc'
      have hu : txi' = U32_MAX_IDX := by
        have := hc'.2 ⟨bn', txi', tx'⟩ (hc'.1 ▸ hl)
        exact this
      have hfull : TxAt full bn' txi' tx' := hc ▸ txAt_mono hat'
      obtain ⟨e1, _, e3⟩ := txAt_hash_inj hwf hfull hat hc'.1
      rw [e1, e3, hu]
    · exact hl

private theorem txInv_fetchedHeader {scripts : List (SKey × Nat)} {full pre : List Block}
    {s : St} (inv : TxInv scripts full pre s) (bn bh : Nat) :
    TxInv scripts full pre (addFetchedHeader s bn bh) :=
  ⟨inv.scripts, inv.sound, inv.complete⟩

private theorem txAt_of_mem {chain : List Block} {b : Block} {tx : Tx} (hb : b ∈ chain)
    (ht : tx ∈ b.txs) : ∃ txi, TxAt chain b.number txi tx := by
  obtain ⟨txi, hi⟩ := List.mem_iff_getElem?.mp ht
  exact ⟨txi, b, hb, rfl, hi⟩

/-- the invariant holds after every prefix of a well-formed history -/
private theorem txInv_events (scripts : List (SKey × Nat)) (es : List Event)
    (hw : WellFormedHistory es) (es1 es2 : List Event) (he : es = es1 ++ es2) :
    TxInv scripts (blocksOf es) (blocksOf es1) (runEvents (emptyIndex scripts) es1) := by
  induction es1 using rev_ind generalizing es2 with
  | h0 =>
    refine ⟨rfl, ?_, ?_⟩
    · intro h r hl
      simp [runEvents, emptyIndex, lookup] at hl
    · intro bn txi tx oi o k hat
      obtain ⟨b, hb, _⟩ := hat
      cases hb
  | hs es1 e ih =>
    have ih := ih (e :: es2) (by rw [he]; simp)
    have hfull : blocksOf es = blocksOf (es1 ++ [e]) ++ blocksOf es2 := by
      rw [he, blocksOf_append]
    rw [runEvents_append]
    cases e with
    | block b =>
      have hb : blocksOf (es1 ++ [Event.block b]) = blocksOf es1 ++ [b] := by
        rw [blocksOf_append]; rfl
      rw [hb] at hfull ⊢
      exact txInv_step (wf_prefix (hfull ▸ hw.chain)) ih
    | fetchedTx tx bn bh =>
      have hb : blocksOf (es1 ++ [Event.fetchedTx tx bn bh]) = blocksOf es1 := by
        rw [blocksOf_append]; simp [blocksOf, Event.block?]
      rw [hb] at hfull ⊢
      obtain ⟨b, hbm, rfl, htx⟩ := hw.fetched tx bn bh (by rw [he]; simp)
      obtain ⟨txi, hat⟩ := txAt_of_mem hbm htx
      exact txInv_fetchedTx hw.chain hfull ih bh hat
    | fetchedHeader bn bh =>
      have hb : blocksOf (es1 ++ [Event.fetchedHeader bn bh]) = blocksOf es1 := by
        rw [blocksOf_append]; simp [blocksOf, Event.block?]
      rw [hb]
      exact txInv_fetchedHeader ih bn bh

private theorem block_hashes_nodup {pre : List Block} {b : Block} (hw : WellFormed (pre ++ [b])) :
    (b.txs.map (·.hash)).Nodup := by
  have := hw.hashes
  rw [List.flatMap_append, List.nodup_append] at this
  simpa using this.2.1

/-- the creating transaction found by `filter_block`, when one of its outputs touches a registered
script, is a transaction of the chain so far with its true position — also when a fetched copy
of it was in the store before this block was filtered (then the in-block map answers, or the
record was rewritten when its block was filtered) -/
private theorem prev_sound {scripts : List (SKey × Nat)} {full pre post : List Block} {b : Block}
    {s : St} (hwf : WellFormed full) (hc : full = pre ++ [b] ++ post)
    (inv : TxInv scripts full pre s) {tpre tpost : List Tx} {tx : Tx}
    (hb : b.txs = tpre ++ tx :: tpost) {i : OutPt} (hi : i ∈ tx.inputs) {p : TxRec}
    (hp : prevOf s (accB b.number 0 [] tpre) i.tx = some p)
    {oi : Nat} {o : Output} {k : SKey} (ho : p.tx.outputs[oi]? = some o) (ht : Touches k o)
    (hr : registered s k = true) :
    p.tx.hash = i.tx ∧
      (TxAt pre p.bn p.txi p.tx ∨ (p.bn = b.number ∧ tpre[p.txi]? = some p.tx)) := by
  have hw : WellFormed (pre ++ [b]) := wf_prefix (hc ▸ hwf)
  unfold prevOf at hp
  cases hl : lookup (accB b.number 0 [] tpre) i.tx with
  | some r =>
    rw [hl] at hp
    cases hp
    rcases lookup_accB_sound _ _ _ _ _ _ hl with ⟨a, t, c, e, hh, rfl⟩ | h'
    · refine ⟨hh, Or.inr ⟨rfl, ?_⟩⟩
      rw [e]
      simp
    · simp [lookup] at h'
  | none =>
    rw [hl] at hp
    simp only at hp
    obtain ⟨h1, h2⟩ := inv.sound _ _ hp
    refine ⟨h1, ?_⟩
    rcases h2 with h2 | ⟨_, txi', hat⟩
    · exact Or.inl h2
    · obtain ⟨hpos, _⟩ := input_earlier hwf hc hb hi hat h1
      rcases hpos with hpos | ⟨_, hidx⟩
      · have hcm := inv.complete _ _ _ _ _ _ hpos ho ht hr
        rw [h1, hp] at hcm
        have e : p.txi = txi' := congrArg TxRec.txi (Option.some.inj hcm)
        rw [e]
        exact Or.inl hpos
      · exfalso
        obtain ⟨a, c, e, rfl⟩ := (getElem?_eq_some_iff_split _ _ _).mp hidx
        have hnd : ((a ++ p.tx :: c).map (·.hash)).Nodup := by
          have := block_hashes_nodup hw
          rw [hb, e, List.map_append, List.nodup_append] at this
          exact this.1
        have hfound := lookup_accB_complete b.number a c p.tx 0 [] hnd
        rw [← e, h1, hl] at hfound
        cases hfound

/-- …and every chain transaction that matters is found, with its true position -/
private theorem prev_complete {scripts : List (SKey × Nat)} {full pre : List Block} {b : Block}
    {s : St} (hw : WellFormed (pre ++ [b])) (inv : TxInv scripts full pre s)
    {tpre tpost : List Tx} {tx : Tx}
    (hb : b.txs = tpre ++ tx :: tpost) {bn' txi' : Nat} {t' : Tx}
    (h : (TxAt pre bn' txi' t' ∧ ∃ (oi : Nat) (o : Output) (k : SKey),
            t'.outputs[oi]? = some o ∧ Touches k o ∧
            registered s k = true) ∨ (bn' = b.number ∧ tpre[txi']? = some t')) :
    prevOf s (accB b.number 0 [] tpre) t'.hash = some ⟨bn', txi', t'⟩ := by
  unfold prevOf
  rcases h with ⟨hat, oi, o, k, ho, ht, hr⟩ | ⟨rfl, hi⟩
  · have hnone : lookup (accB b.number 0 [] tpre) t'.hash = none := by
      rw [lookup_accB_notin]
      · rfl
      · intro hm
        obtain ⟨t'', ht'', hh''⟩ := List.mem_map.mp hm
        obtain ⟨j, hj⟩ := List.mem_iff_getElem?.mp ht''
        have hat'' : TxAt (pre ++ [b]) b.number j t'' := by
          rw [txAt_append, txAt_singleton]
          right
          refine ⟨rfl, ?_⟩
          rw [hb, List.getElem?_append_left (List.getElem?_eq_some_iff.mp hj).1]
          exact hj
        obtain ⟨e1, _, _⟩ :=
          txAt_hash_inj hw ((txAt_append _ _ _ _ _).mpr (Or.inl hat)) hat'' hh''.symm
        have := txAt_lt hw hat
        omega
    rw [hnone]
    exact inv.complete bn' txi' t' oi o k hat ho ht hr
  · obtain ⟨a, c, e, rfl⟩ := (getElem?_eq_some_iff_split _ _ _).mp hi
    have hnd : ((a ++ t' :: c).map (·.hash)).Nodup := by
      have := block_hashes_nodup hw
      rw [hb, e, List.map_append, List.nodup_append] at this
      exact this.1
    rw [e, lookup_accB_complete _ _ _ _ _ _ hnd]
    simp

/-! ### the history keyspace -/

private theorem putHist_out_blockOps (s : St) (b : Block) (k : SKey) (bn txi oi h : Nat) :
    Op.putHist ⟨k, bn, txi, oi, true⟩ h ∈ blockOps s b ↔
      bn = b.number ∧ ∃ tx o, b.txs[txi]? = some tx ∧ tx.hash = h ∧ tx.outputs[oi]? = some o ∧
        Touches k o ∧ registered s k = true := by
  rw [mem_blockOps']
  constructor
  · rintro ⟨tpre, tx, tpost, hb, hop⟩
    rw [txOp_putHist] at hop
    obtain ⟨hh, h1, h2, ⟨h3, _⟩ | ⟨_, o, ho, ht, hr⟩⟩ := hop
    · cases h3
    · simp only at h1 h2 ho ht hr
      refine ⟨h1, tx, o, ?_, hh, ho, ht, hr⟩
      rw [hb, h2]
      simp
  · rintro ⟨rfl, tx, o, hi, hh, ho, ht, hr⟩
    obtain ⟨tpre, tpost, hb, rfl⟩ := (getElem?_eq_some_iff_split _ _ _).mp hi
    refine ⟨tpre, tx, tpost, hb, ?_⟩
    rw [txOp_putHist]
    exact ⟨hh, rfl, rfl, Or.inr ⟨rfl, o, ho, ht, hr⟩⟩

private theorem registered_of_mem {scripts : List (SKey × Nat)} {s : St} (hs : s.scripts = scripts)
    {k : SKey} (hk : k ∈ scripts.map (·.1)) : registered s k = true := by
  rw [registered_iff, hs]
  exact hk

private theorem blocksOf_snoc_block (es1 : List Event) (b : Block) :
    blocksOf (es1 ++ [Event.block b]) = blocksOf es1 ++ [b] := by
  rw [blocksOf_append]; rfl

private theorem blocksOf_snoc_fetchedTx (es1 : List Event) (tx : Tx) (bn bh : Nat) :
    blocksOf (es1 ++ [Event.fetchedTx tx bn bh]) = blocksOf es1 := by
  rw [blocksOf_append]; simp [blocksOf, Event.block?]

private theorem blocksOf_snoc_fetchedHeader (es1 : List Event) (bn bh : Nat) :
    blocksOf (es1 ++ [Event.fetchedHeader bn bh]) = blocksOf es1 := by
  rw [blocksOf_append]; simp [blocksOf, Event.block?]

private theorem hist_step {scripts : List (SKey × Nat)} {full pre : List Block} {b : Block}
    {s : St} {k : SKey} (hw : WellFormed (pre ++ [b])) (inv : TxInv scripts full pre s)
    (hreg : registered s k = true)
    (ih : ∀ bn txi oi h, lookup s.hist ⟨k, bn, txi, oi, true⟩ = some h ↔
      ∃ o tx, TxAt pre bn txi tx ∧ tx.hash = h ∧ tx.outputs[oi]? = some o ∧ Touches k o)
    (bn txi oi h : Nat) :
    lookup (filterBlock s b).hist ⟨k, bn, txi, oi, true⟩ = some h ↔
      ∃ o tx, TxAt (pre ++ [b]) bn txi tx ∧ tx.hash = h ∧ tx.outputs[oi]? = some o ∧
        Touches k o := by
  have _ := inv
  by_cases hex : ∃ h', Op.putHist ⟨k, bn, txi, oi, true⟩ h' ∈ blockOps s b
  · obtain ⟨h', hm⟩ := hex
    obtain ⟨rfl, tx, o, hi, hh, ho, ht, hr⟩ := (putHist_out_blockOps _ _ _ _ _ _ _).mp hm
    have hat : TxAt (pre ++ [b]) b.number txi tx :=
      (txAt_append _ _ _ _ _).mpr (Or.inr ((txAt_singleton _ _ _ _).mpr ⟨rfl, hi⟩))
    have huniq : ∀ h'', Op.putHist ⟨k, b.number, txi, oi, true⟩ h'' ∈ blockOps s b → h'' = h' := by
      intro h'' hm''
      obtain ⟨_, tx'', o'', hi'', hh'', _⟩ := (putHist_out_blockOps _ _ _ _ _ _ _).mp hm''
      rw [hi] at hi''
      cases hi''
      exact hh''.symm.trans hh
    rw [filterBlock_hist_put s b _ h' hm huniq]
    constructor
    · intro e
      cases e
      exact ⟨o, tx, hat, hh, ho, ht⟩
    · rintro ⟨o', tx', hat', hh', _⟩
      have := txAt_fun hw hat hat'
      subst this
      rw [← hh, ← hh']
  · have hno : ∀ h', Op.putHist ⟨k, bn, txi, oi, true⟩ h' ∉ blockOps s b :=
      fun h' hm => hex ⟨h', hm⟩
    rw [filterBlock_hist_unch s b _ hno, ih]
    constructor
    · rintro ⟨o, tx, hat, rest⟩
      exact ⟨o, tx, (txAt_append _ _ _ _ _).mpr (Or.inl hat), rest⟩
    · rintro ⟨o, tx, hat, hh, ho, ht⟩
      rcases (txAt_append _ _ _ _ _).mp hat with hat' | hat'
      · exact ⟨o, tx, hat', hh, ho, ht⟩
      · exfalso
        rw [txAt_singleton] at hat'
        exact hno h ((putHist_out_blockOps _ _ _ _ _ _ _).mpr
          ⟨hat'.1.symm, tx, o, hat'.2, hh, ho, ht, hreg⟩)

private theorem outputs_recorded_aux (scripts : List (SKey × Nat)) (k : SKey)
    (hk : k ∈ scripts.map (·.1)) (es : List Event) (hw : WellFormedHistory es) :
    ∀ es1 es2 : List Event, es = es1 ++ es2 → ∀ bn txi oi h : Nat,
    (lookup (runEvents (emptyIndex scripts) es1).hist ⟨k, bn, txi, oi, true⟩ = some h ↔
      ∃ o tx, TxAt (blocksOf es1) bn txi tx ∧ tx.hash = h ∧ tx.outputs[oi]? = some o ∧
        Touches k o) := by
  intro es1
  induction es1 using rev_ind with
  | h0 =>
    intro es2 he bn txi oi h
    simp only [runEvents, List.foldl_nil, emptyIndex, lookup_nil, reduceCtorEq, false_iff]
    rintro ⟨o, tx, ⟨b, hb, _⟩, _⟩
    cases hb
  | hs es1 e ih =>
    intro es2 he bn txi oi h
    have he' : es = es1 ++ e :: es2 := by rw [he]; simp
    have ih := ih (e :: es2) he'
    have inv := txInv_events scripts es hw es1 (e :: es2) he'
    have hreg := registered_of_mem inv.scripts hk
    have hfull : blocksOf es = blocksOf (es1 ++ [e]) ++ blocksOf es2 := by
      rw [he, blocksOf_append]
    rw [runEvents_append]
    generalize runEvents (emptyIndex scripts) es1 = s at ih inv hreg
    cases e with
    | block b =>
      rw [blocksOf_snoc_block] at hfull ⊢
      exact hist_step (wf_prefix (hfull ▸ hw.chain)) inv hreg ih bn txi oi h
    | fetchedTx tx bn' bh =>
      rw [blocksOf_snoc_fetchedTx]
      change lookup (addFetchedTx s tx bn' bh).hist _ = _ ↔ _
      rw [addFetchedTx_hist]
      exact ih bn txi oi h
    | fetchedHeader bn' bh =>
      rw [blocksOf_snoc_fetchedHeader]
      exact ih bn txi oi h

private theorem putHist_bn {s : St} {b : Block} {hk : HistKey} {h : Nat}
    (hm : Op.putHist hk h ∈ blockOps s b) : hk.bn = b.number := by
  obtain ⟨tpre, tx, tpost, _, hop⟩ := (mem_blockOps' _ _ _).mp hm
  exact ((txOp_putHist _ _ _ _ _ _).mp hop).2.1

/-- later blocks and fetches do not touch the history entries of block number `hk.bn` -/
private theorem hist_preserved (hk : HistKey) (post : List Event) (s : St)
    (hn : ∀ b' ∈ blocksOf post, b'.number ≠ hk.bn) :
    lookup (runEvents s post).hist hk = lookup s.hist hk := by
  induction post generalizing s with
  | nil => rfl
  | cons e post ih =>
    have happ : blocksOf (e :: post) = blocksOf [e] ++ blocksOf post := blocksOf_append [e] post
    have hn' : ∀ b' ∈ blocksOf post, b'.number ≠ hk.bn := fun b' hb' =>
      hn b' (by rw [happ]; exact List.mem_append_right _ hb')
    change lookup (runEvents (stepEvent s e) post).hist hk = _
    rw [ih _ hn']
    cases e with
    | block b =>
      apply filterBlock_hist_unch
      intro h hm
      exact hn b (by rw [happ]; exact List.mem_append_left _ (by simp [blocksOf, Event.block?]))
        (putHist_bn hm).symm
    | fetchedTx tx bn bh =>
      change lookup (addFetchedTx s tx bn bh).hist hk = _
      rw [addFetchedTx_hist]
    | fetchedHeader bn bh => rfl

/-! ### the cell keyspace -/

private theorem putCell_blockOps (s : St) (b : Block) (ck : CellKey) (h : Nat) :
    Op.putCell ck h ∈ blockOps s b ↔
      ck.bn = b.number ∧ ∃ tx o, b.txs[ck.txi]? = some tx ∧ tx.hash = h ∧
        tx.outputs[ck.oi]? = some o ∧ Touches ck.s o ∧ registered s ck.s = true := by
  rw [mem_blockOps']
  constructor
  · rintro ⟨tpre, tx, tpost, hb, hop⟩
    obtain ⟨hh, h1, h2, o, ho, ht, hr⟩ := (txOp_putCell _ _ _ _ _ _).mp hop
    refine ⟨h1, tx, o, ?_, hh, ho, ht, hr⟩
    rw [hb, h2]
    simp
  · rintro ⟨h1, tx, o, hi, hh, ho, ht, hr⟩
    obtain ⟨tpre, tpost, hb, hl⟩ := (getElem?_eq_some_iff_split _ _ _).mp hi
    exact ⟨tpre, tx, tpost, hb, (txOp_putCell _ _ _ _ _ _).mpr ⟨hh, h1, hl.symm, o, ho, ht, hr⟩⟩

/-- a cell created in an earlier block is deleted by block `b` iff `b` spends its out point -/
private theorem delCell_old {scripts : List (SKey × Nat)} {full pre post : List Block} {b : Block}
    {s : St} (hwf : WellFormed full) (hc : full = pre ++ [b] ++ post)
    (inv : TxInv scripts full pre s) {ck : CellKey} {tx0 : Tx}
    {o : Output} (hat : TxAt pre ck.bn ck.txi tx0) (ho : tx0.outputs[ck.oi]? = some o)
    (ht : Touches ck.s o) (hr : registered s ck.s = true) :
    Op.delCell ck ∈ blockOps s b ↔ ∃ tx ∈ b.txs, (⟨tx0.hash, ck.oi⟩ : OutPt) ∈ tx.inputs := by
  have hw : WellFormed (pre ++ [b]) := wf_prefix (hc ▸ hwf)
  rw [mem_blockOps']
  constructor
  · rintro ⟨tpre, tx, tpost, hb, hop⟩
    obtain ⟨ii, i, p, o', hi, hp, ho', ht', hr', h1, h2, h3⟩ := (txOp_delCell _ _ _ _ _).mp hop
    obtain ⟨hh, hpos⟩ := prev_sound hwf hc inv hb (List.mem_of_getElem? hi) hp ho' ht' hr'
    refine ⟨tx, by rw [hb]; simp, ?_⟩
    rcases hpos with hpos | ⟨hbn, _⟩
    · rw [← h1, ← h2] at hpos
      have e := txAt_fun (wf_prefix hw) hat hpos
      have hi' := List.mem_of_getElem? hi
      have : i = ⟨tx0.hash, ck.oi⟩ := by
        cases i
        simp_all
      rw [← this]
      exact hi'
    · have := txAt_lt hw hat
      omega
  · rintro ⟨tx, htx, hin⟩
    obtain ⟨tpre, tpost, hb⟩ := List.append_of_mem htx
    obtain ⟨ii, hi⟩ := List.mem_iff_getElem?.mp hin
    have hprev := prev_complete hw inv hb (Or.inl ⟨hat, ck.oi, o, ck.s, ho, ht, hr⟩)
    exact ⟨tpre, tx, tpost, hb,
      (txOp_delCell _ _ _ _ _).mpr ⟨ii, _, _, o, hi, hprev, ho, ht, hr, rfl, rfl, rfl⟩⟩

/-- a transaction that spends an output of a chain transaction comes later on the chain -/
private theorem spent_later {chain : List Block} (hw : WellFormed chain) {bn txi bn' txi' : Nat}
    {tx tx' : Tx} {i : OutPt} (hat : TxAt chain bn txi tx) (hat' : TxAt chain bn' txi' tx')
    (hi : i ∈ tx'.inputs) (hh : tx.hash = i.tx) : bn < bn' ∨ (bn = bn' ∧ txi < txi') := by
  obtain ⟨b', hb', hn', ht'⟩ := hat'
  obtain ⟨pre', post', hc⟩ := List.append_of_mem hb'
  obtain ⟨tpre', tpost', hbt, hl⟩ := (getElem?_eq_some_iff_split _ _ _).mp ht'
  have hc' : chain = pre' ++ [b'] ++ post' := by simp [hc]
  obtain ⟨hpos, _⟩ := input_earlier hw hc' hbt hi hat hh
  rcases hpos with h | ⟨h1, h2⟩
  · left
    have hw' : WellFormed (pre' ++ [b']) := wf_prefix (hc' ▸ hw)
    have := txAt_lt hw' h
    omega
  · right
    have := (List.getElem?_eq_some_iff.mp h2).1
    omega

/-- a cell created by transaction `tx` of block `b` is deleted by the rest of the batch iff a
later transaction of `b` spends its out point — whatever record a fetch left in the store under
`tx.hash`, because the in-block map is asked first -/
private theorem delCell_post {scripts : List (SKey × Nat)} {full pre post : List Block} {b : Block}
    {s : St} (hwf : WellFormed full) (hc : full = pre ++ [b] ++ post)
    (inv : TxInv scripts full pre s) {tpre tpost : List Tx} {tx : Tx}
    (hb : b.txs = tpre ++ tx :: tpost) {ck : CellKey} {o : Output}
    (h1 : ck.bn = b.number) (h2 : ck.txi = tpre.length) (ho : tx.outputs[ck.oi]? = some o)
    (ht : Touches ck.s o) (hr : registered s ck.s = true) :
    Op.delCell ck ∈ blockOps.go s b (tpre.length + 1) (accB b.number 0 [] (tpre ++ [tx])) tpost ↔
      ∃ tx' ∈ tpost, (⟨tx.hash, ck.oi⟩ : OutPt) ∈ tx'.inputs := by
  have hw : WellFormed (pre ++ [b]) := wf_prefix (hc ▸ hwf)
  rw [mem_go_post]
  constructor
  · rintro ⟨a, tx', c, e, hop⟩
    obtain ⟨ii, i, p, o', hi, hp, ho', ht', hr', e1, e2, e3⟩ := (txOp_delCell _ _ _ _ _).mp hop
    have hb2 : b.txs = (tpre ++ tx :: a) ++ tx' :: c := by rw [hb, e]; simp
    obtain ⟨hh, hpos⟩ := prev_sound hwf hc inv hb2 (List.mem_of_getElem? hi) hp ho' ht' hr'
    refine ⟨tx', by rw [e]; simp, ?_⟩
    rcases hpos with hpos | ⟨_, hidx⟩
    · have := txAt_lt hw hpos
      omega
    · rw [← e2, h2] at hidx
      simp only [List.getElem?_append_right (Nat.le_refl _), Nat.sub_self,
        List.getElem?_cons_zero, Option.some.injEq] at hidx
      have : i = ⟨tx.hash, ck.oi⟩ := by
        cases i
        simp_all
      rw [← this]
      exact List.mem_of_getElem? hi
  · rintro ⟨tx', htx', hin⟩
    obtain ⟨a, c, e⟩ := List.append_of_mem htx'
    obtain ⟨ii, hi⟩ := List.mem_iff_getElem?.mp hin
    have hb2 : b.txs = (tpre ++ tx :: a) ++ tx' :: c := by rw [hb, e]; simp
    have hprev := prev_complete hw inv hb2 (bn' := b.number) (txi' := tpre.length) (t' := tx)
      (Or.inr ⟨rfl, by simp⟩)
    exact ⟨a, tx', c, e,
      (txOp_delCell _ _ _ _ _).mpr ⟨ii, _, _, o, hi, hprev, ho, ht, hr, h1, h2, rfl⟩⟩

private theorem spent_iff_post {pre : List Block} {b : Block} (hw : WellFormed (pre ++ [b]))
    {tpre tpost : List Tx} {tx : Tx} (hb : b.txs = tpre ++ tx :: tpost) (oi : Nat) :
    (⟨tx.hash, oi⟩ : OutPt) ∈ spentBy (pre ++ [b]) ↔
      ∃ tx' ∈ tpost, (⟨tx.hash, oi⟩ : OutPt) ∈ tx'.inputs := by
  rw [mem_spentBy]
  constructor
  · rintro ⟨b', hb', tx', htx', hin⟩
    obtain ⟨txi', hi'⟩ := List.mem_iff_getElem?.mp htx'
    have hat' : TxAt (pre ++ [b]) b'.number txi' tx' := ⟨b', hb', rfl, hi'⟩
    have hlater := spent_later hw (txAt_of_split pre hb) hat' hin rfl
    rcases List.mem_append.mp hb' with hp | hp
    · have : b'.number < b.number := txAt_lt hw ⟨b', hp, rfl, hi'⟩
      omega
    · have : b' = b := by simpa using hp
      subst this
      have hlt : tpre.length < txi' := by omega
      refine ⟨tx', ?_, hin⟩
      rw [hb, List.getElem?_append_right (by omega)] at hi'
      obtain ⟨j, hj⟩ : ∃ j, txi' - tpre.length = j + 1 := ⟨txi' - tpre.length - 1, by omega⟩
      rw [hj, List.getElem?_cons_succ] at hi'
      exact List.mem_of_getElem? hi'
  · rintro ⟨tx', htx', hin⟩
    exact ⟨b, by simp, tx', by rw [hb]; simp [htx'], hin⟩

/-- `liveCells`, unfolded -/
private def Live (chain : List Block) (k : SKey) (ck : CellKey) (h : Nat) : Prop :=
  ∃ tx o, TxAt chain ck.bn ck.txi tx ∧ tx.hash = h ∧ tx.outputs[ck.oi]? = some o ∧
    Touches k o ∧ (⟨h, ck.oi⟩ : OutPt) ∉ spentBy chain

private theorem cells_step {scripts : List (SKey × Nat)} {full pre post : List Block} {b : Block}
    {s : St} {k : SKey} (hwf : WellFormed full) (hc : full = pre ++ [b] ++ post)
    (inv : TxInv scripts full pre s)
    (hreg : registered s k = true)
    (ih : ∀ ck h, ck.s = k → (lookup s.cells ck = some h ↔ Live pre k ck h))
    (ck : CellKey) (h : Nat) (hck : ck.s = k) :
    lookup (filterBlock s b).cells ck = some h ↔ Live (pre ++ [b]) k ck h := by
  have hw : WellFormed (pre ++ [b]) := wf_prefix (hc ▸ hwf)
  subst hck
  by_cases hbn : ck.bn = b.number
  · -- a key of this block
    have hinit : lookup s.cells ck = none := by
      cases hl : lookup s.cells ck with
      | none => rfl
      | some h' =>
        obtain ⟨tx, o, hat, _⟩ := (ih ck h' rfl).mp hl
        have := txAt_lt hw hat
        omega
    by_cases hput : ∃ h', Op.putCell ck h' ∈ blockOps s b
    · obtain ⟨h', hm⟩ := hput
      obtain ⟨_, tx, o, hi, hh, ho, ht, hr⟩ := (putCell_blockOps _ _ _ _).mp hm
      obtain ⟨tpre, tpost, hb, hl⟩ := (getElem?_eq_some_iff_split _ _ _).mp hi
      have hput' : Op.putCell ck tx.hash ∈ txOuts s b.number tpre.length tx := by
        refine (mem_txOuts _ _ _ _ _).mpr ⟨ck.oi, o, ck.s, ho, ht, hr, Or.inl ?_⟩
        cases ck
        simp_all
      have hnoput : ∀ h'', Op.putCell ck h'' ∉
          blockOps.go s b (tpre.length + 1) (accB b.number 0 [] (tpre ++ [tx])) tpost := by
        intro h'' hm''
        obtain ⟨a, tx', c, _, hop⟩ := (mem_go_post _ _ _ _ _ _).mp hm''
        obtain ⟨_, _, h2, _⟩ := (txOp_putCell _ _ _ _ _ _).mp hop
        simp only [List.length_append, List.length_cons] at h2
        omega
      obtain ⟨hspent, hlive⟩ := filterBlock_cells_created s b tpre tpost tx hb ck hput' hnoput
      rw [delCell_post hwf hc inv hb hbn hl.symm ho ht hr] at hspent hlive
      have hat : TxAt (pre ++ [b]) ck.bn ck.txi tx := by
        rw [hbn, ← hl]
        exact txAt_of_split pre hb
      by_cases hsp : ∃ tx' ∈ tpost, (⟨tx.hash, ck.oi⟩ : OutPt) ∈ tx'.inputs
      · rw [hspent hsp]
        constructor
        · intro e
          cases e
        · rintro ⟨tx2, o2, hat2, hh2, _, _, hns⟩
          have := txAt_fun hw hat hat2
          subst this
          subst hh2
          exact absurd ((spent_iff_post hw hb ck.oi).mpr hsp) hns
      · rw [hlive hsp]
        constructor
        · intro e
          cases e
          exact ⟨tx, o, hat, rfl, ho, ht, fun hs => hsp ((spent_iff_post hw hb ck.oi).mp hs)⟩
        · rintro ⟨tx2, o2, hat2, hh2, _⟩
          have := txAt_fun hw hat hat2
          subst this
          rw [hh2]
    · have hno : ∀ h', Op.putCell ck h' ∉ blockOps s b := fun h' hm => hput ⟨h', hm⟩
      have hnone : lookup (filterBlock s b).cells ck = none := by
        by_cases hd : Op.delCell ck ∈ blockOps s b
        · exact filterBlock_cells_noput_del s b ck hno hd
        · rw [filterBlock_cells_unch s b ck hno hd, hinit]
      rw [hnone]
      constructor
      · intro e
        cases e
      · rintro ⟨tx, o, hat, hh, ho, ht, _⟩
        exfalso
        rcases (txAt_append _ _ _ _ _).mp hat with hat' | hat'
        · have := txAt_lt hw hat'
          omega
        · rw [txAt_singleton] at hat'
          exact hno h ((putCell_blockOps _ _ _ _).mpr ⟨hbn, tx, o, hat'.2, hh, ho, ht, hreg⟩)
  · -- a key of an earlier block
    have hno : ∀ h', Op.putCell ck h' ∉ blockOps s b := by
      intro h' hm
      exact hbn ((putCell_blockOps _ _ _ _).mp hm).1
    have key : Live (pre ++ [b]) ck.s ck h ↔
        Live pre ck.s ck h ∧ Op.delCell ck ∉ blockOps s b := by
      constructor
      · rintro ⟨tx, o, hat, hh, ho, ht, hns⟩
        subst hh
        rw [spentBy_append, List.mem_append, not_or] at hns
        have hat' : TxAt pre ck.bn ck.txi tx := by
          rcases (txAt_append _ _ _ _ _).mp hat with h' | h'
          · exact h'
          · rw [txAt_singleton] at h'
            exact absurd h'.1.symm hbn
        refine ⟨⟨tx, o, hat', rfl, ho, ht, hns.1⟩, ?_⟩
        intro hd
        obtain ⟨tx', htx', hin⟩ := (delCell_old hwf hc inv hat' ho ht hreg).mp hd
        apply hns.2
        rw [mem_spentBy]
        exact ⟨b, by simp, tx', htx', hin⟩
      · rintro ⟨⟨tx, o, hat, hh, ho, ht, hns⟩, hd⟩
        subst hh
        refine ⟨tx, o, (txAt_append _ _ _ _ _).mpr (Or.inl hat), rfl, ho, ht, ?_⟩
        rw [spentBy_append, List.mem_append, not_or]
        refine ⟨hns, ?_⟩
        intro hs
        rw [mem_spentBy] at hs
        obtain ⟨b', hb', tx', htx', hin⟩ := hs
        have : b' = b := by simpa using hb'
        subst this
        exact hd ((delCell_old hwf hc inv hat ho ht hreg).mpr ⟨tx', htx', hin⟩)
    rw [key]
    by_cases hd : Op.delCell ck ∈ blockOps s b
    · rw [filterBlock_cells_noput_del s b ck hno hd]
      constructor
      · intro e
        cases e
      · rintro ⟨_, hnd⟩
        exact absurd hd hnd
    · rw [filterBlock_cells_unch s b ck hno hd, ih ck h rfl]
      exact ⟨fun hl => ⟨hl, hd⟩, fun hl => hl.1⟩

/-! ## the index equals the chain -/

private theorem cells_events (scripts : List (SKey × Nat)) (k : SKey)
    (hk : k ∈ scripts.map (·.1)) (es : List Event) (hw : WellFormedHistory es) :
    ∀ es1 es2 : List Event, es = es1 ++ es2 → ∀ ck h, ck.s = k →
      (lookup (runEvents (emptyIndex scripts) es1).cells ck = some h ↔
        Live (blocksOf es1) k ck h) := by
  intro es1
  induction es1 using rev_ind with
  | h0 =>
    intro _ _ ck h _
    simp only [runEvents, List.foldl_nil, emptyIndex, lookup_nil, reduceCtorEq, false_iff]
    rintro ⟨tx, o, ⟨b, hb, _⟩, _⟩
    cases hb
  | hs es1 e ih =>
    intro es2 he ck h hck
    have he' : es = es1 ++ e :: es2 := by rw [he]; simp
    have ih := ih (e :: es2) he'
    have inv := txInv_events scripts es hw es1 (e :: es2) he'
    have hreg := registered_of_mem inv.scripts hk
    have hfull : blocksOf es = blocksOf (es1 ++ [e]) ++ blocksOf es2 := by
      rw [he, blocksOf_append]
    rw [runEvents_append]
    generalize runEvents (emptyIndex scripts) es1 = s at ih inv hreg
    cases e with
    | block b =>
      rw [blocksOf_snoc_block] at hfull ⊢
      exact cells_step hw.chain hfull inv hreg ih ck h hck
    | fetchedTx tx bn' bh =>
      rw [blocksOf_snoc_fetchedTx]
      change lookup (addFetchedTx s tx bn' bh).cells _ = _ ↔ _
      rw [addFetchedTx_cells]
      exact ih ck h hck
    | fetchedHeader bn' bh =>
      rw [blocksOf_snoc_fetchedHeader]
      exact ih ck h hck

/-- **C03 (live cells, histories with fetches).**  Start from an empty index with any set of
registered scripts and run a well-formed history: blocks of a well-formed chain handed to
`filter_block` in order, with results of `fetch_transaction` / `fetch_header` (`add_fetched_tx`,
`add_fetched_header`) arriving at any point — in particular a transaction fetched *before* its
block is filtered.  For every registered script the live-cell keyspace holds exactly the cells
that are live on the chain — right out point, creating block and position — no spent or phantom
cell, none missing. -/
theorem cells_equal_chain_with_fetches (scripts : List (SKey × Nat)) (es : List Event)
    (hw : WellFormedHistory es) (k : SKey) (hk : k ∈ scripts.map (·.1))
    (ck : CellKey) (h : Nat) :
    (ck.s = k ∧ lookup (runEvents (emptyIndex scripts) es).cells ck = some h) ↔
      (ck, h) ∈ liveCells (blocksOf es) k := by
  have aux := cells_events scripts k hk es hw es [] (by simp) ck h
  rw [mem_liveCells]
  constructor
  · rintro ⟨hck, hl⟩
    exact ⟨hck, (aux hck).mp hl⟩
  · rintro ⟨hck, hl⟩
    exact ⟨hck, (aux hck).mpr hl⟩

/-- **C03 (activity, histories with fetches).**  Every output of the chain that touches a
registered script has its history entry, and every history entry of kind output is such an
output — whatever fetch results arrived in between. -/
theorem outputs_recorded_with_fetches (scripts : List (SKey × Nat)) (es : List Event)
    (hw : WellFormedHistory es) (k : SKey) (hk : k ∈ scripts.map (·.1))
    (bn txi oi h : Nat) :
    lookup (runEvents (emptyIndex scripts) es).hist ⟨k, bn, txi, oi, true⟩ = some h ↔
      ∃ o, (⟨h, oi⟩, (bn, txi, o)) ∈ createdBy (blocksOf es) ∧ touches k o = true := by
  rw [outputs_recorded_aux scripts k hk es hw es [] (by simp)]
  constructor
  · rintro ⟨o, tx, hat, hh, ho, ht⟩
    exact ⟨o, (mem_createdBy _ _ _ _ _).mpr ⟨tx, hat, hh, ho⟩, (touches_iff _ _).mpr ht⟩
  · rintro ⟨o, hm, ht⟩
    obtain ⟨tx, hat, hh, ho⟩ := (mem_createdBy _ _ _ _ _).mp hm
    exact ⟨o, tx, hat, hh, ho, (touches_iff _ _).mp ht⟩

/-- **C03 (inputs recorded, histories with fetches).**  Every input of the chain that spends an
output created on the chain and touching a registered script has its history entry under the
spending position — also when the creating transaction was fetched before its block was
filtered. -/
theorem inputs_recorded_with_fetches (scripts : List (SKey × Nat)) (es : List Event)
    (hw : WellFormedHistory es) (k : SKey) (hk : k ∈ scripts.map (·.1))
    (epre epost : List Event) (b : Block) (hc : es = epre ++ [Event.block b] ++ epost)
    (tpre tpost : List Tx) (tx : Tx) (hb : b.txs = tpre ++ [tx] ++ tpost)
    (ipre ipost : List OutPt) (i : OutPt) (hi : tx.inputs = ipre ++ [i] ++ ipost)
    (e : OutPt × (Nat × Nat × Output)) (he : e ∈ createdBy (blocksOf es)) (hei : e.1 = i)
    (ht : touches k e.2.2.2 = true) :
    lookup (runEvents (emptyIndex scripts) es).hist
      ⟨k, b.number, tpre.length, ipre.length, false⟩ = some tx.hash := by
  have hb' : b.txs = tpre ++ tx :: tpost := by simp [hb]
  have hi' : tx.inputs[ipre.length]? = some i := by simp [hi]
  have hfull : blocksOf es = blocksOf epre ++ [b] ++ blocksOf epost := by
    rw [hc, blocksOf_append, blocksOf_snoc_block]
  have hwf : WellFormed (blocksOf epre ++ [b] ++ blocksOf epost) := hfull ▸ hw.chain
  have hw' : WellFormed (blocksOf epre ++ [b]) := wf_prefix hwf
  have inv := txInv_events scripts es hw epre (Event.block b :: epost) (by rw [hc]; simp)
  have hreg := registered_of_mem inv.scripts hk
  -- later blocks and fetches keep the entry
  rw [hc, runEvents_append, runEvents_append]
  have hpost : ∀ b' ∈ blocksOf epost, b'.number ≠
      (⟨k, b.number, tpre.length, ipre.length, false⟩ : HistKey).bn := by
    intro b' hb'' e
    have := hwf.numbers
    rw [List.map_append, List.pairwise_append] at this
    have := this.2.2 b.number (by simp) b'.number (List.mem_map_of_mem hb'')
    simp only at e
    omega
  rw [hist_preserved _ _ _ hpost]
  change lookup (filterBlock (runEvents (emptyIndex scripts) epre) b).hist _ = _
  generalize runEvents (emptyIndex scripts) epre = s at inv hreg
  -- the creating transaction is found
  obtain ⟨op, bn', txi', o⟩ := e
  simp only at hei ht
  subst hei
  rw [hfull] at he
  obtain ⟨t', hat, hh, ho⟩ := (mem_createdBy _ _ _ _ _).mp he
  obtain ⟨hpos, _⟩ := input_earlier hwf rfl hb' (List.mem_of_getElem? hi') hat hh
  have ht' := (touches_iff _ _).mp ht
  have hprev : prevOf s (accB b.number 0 [] tpre) op.tx = some ⟨bn', txi', t'⟩ := by
    rw [← hh]
    apply prev_complete hw' inv hb'
    rcases hpos with h | h
    · exact Or.inl ⟨h, op.idx, o, k, ho, ht', hreg⟩
    · exact Or.inr h
  have hm : Op.putHist ⟨k, b.number, tpre.length, ipre.length, false⟩ tx.hash ∈ blockOps s b := by
    refine (mem_blockOps' _ _ _).mpr ⟨tpre, tx, tpost, hb', ?_⟩
    rw [txOp_putHist]
    exact ⟨rfl, rfl, rfl, Or.inl ⟨rfl, op, _, o, hi', hprev, ho, ht', hreg⟩⟩
  apply filterBlock_hist_put s b _ _ hm
  intro h' hm'
  obtain ⟨tpre2, tx2, tpost2, hb2, hop⟩ := (mem_blockOps' _ _ _).mp hm'
  obtain ⟨hh2, _, hlen, _⟩ := (txOp_putHist _ _ _ _ _ _).mp hop
  simp only at hlen
  rw [hb'] at hb2
  obtain ⟨_, e2⟩ := List.append_inj hb2 hlen
  cases e2
  exact hh2.symm

/-! ### histories without fetches (the statements of the first round) -/

/-- **C03 (live cells).**  Index every block of a well-formed chain in order, starting from an
empty index with any set of registered scripts: for every registered script the live-cell
keyspace holds exactly the cells that are live on the chain — right out point, creating block
and position — no spent or phantom cell, none missing. -/
theorem cells_equal_chain (scripts : List (SKey × Nat)) (chain : List Block)
    (hw : WellFormed chain) (hs : (scripts.map (·.1)).Nodup) (k : SKey) (hk : k ∈ scripts.map (·.1))
    (ck : CellKey) (h : Nat) :
    (ck.s = k ∧ lookup (chain.foldl filterBlock (emptyIndex scripts)).cells ck = some h) ↔
      (ck, h) ∈ liveCells chain k := by
  have _ := hs  -- not needed: duplicate registrations are harmless
  have := cells_equal_chain_with_fetches scripts (chain.map .block) (wfh_of_chain hw) k hk ck h
  rw [runEvents_map_block, blocksOf_map_block] at this
  exact this

/-- **C03 (activity).**  Every output of the chain that touches a registered script has its
history entry, and every history entry of kind output is such an output. -/
theorem outputs_recorded (scripts : List (SKey × Nat)) (chain : List Block)
    (hw : WellFormed chain) (k : SKey) (hk : k ∈ scripts.map (·.1))
    (bn txi oi h : Nat) :
    lookup (chain.foldl filterBlock (emptyIndex scripts)).hist ⟨k, bn, txi, oi, true⟩ = some h ↔
      ∃ o, (⟨h, oi⟩, (bn, txi, o)) ∈ createdBy chain ∧ touches k o = true := by
  have := outputs_recorded_with_fetches scripts (chain.map .block) (wfh_of_chain hw) k hk
    bn txi oi h
  rw [runEvents_map_block, blocksOf_map_block] at this
  exact this

/-- **C03 (inputs recorded).**  Every input of the chain that spends an output created on the
chain and touching a registered script has its history entry under the spending position. -/
theorem inputs_recorded (scripts : List (SKey × Nat)) (chain : List Block)
    (hw : WellFormed chain) (k : SKey) (hk : k ∈ scripts.map (·.1))
    (pre post : List Block) (b : Block) (hc : chain = pre ++ [b] ++ post)
    (tpre tpost : List Tx) (tx : Tx) (hb : b.txs = tpre ++ [tx] ++ tpost)
    (ipre ipost : List OutPt) (i : OutPt) (hi : tx.inputs = ipre ++ [i] ++ ipost)
    (e : OutPt × (Nat × Nat × Output)) (he : e ∈ createdBy chain) (hei : e.1 = i)
    (ht : touches k e.2.2.2 = true) :
    lookup (chain.foldl filterBlock (emptyIndex scripts)).hist
      ⟨k, b.number, tpre.length, ipre.length, false⟩ = some tx.hash := by
  have := inputs_recorded_with_fetches scripts (chain.map .block) (wfh_of_chain hw) k hk
    (pre.map .block) (post.map .block) b (by rw [hc]; simp) tpre tpost tx hb ipre ipost i hi e
    (by rw [blocksOf_map_block]; exact he) hei ht
  rw [runEvents_map_block] at this
  exact this

/-- **C03 (a fetched transaction does not disturb the index).**  `add_fetched_tx` never changes
the cell or history keyspaces, and keeps the stored position of a transaction that
`filter_block` indexed. -/
theorem fetched_tx_keeps_index (s : St) (tx : Tx) (bn bh : Nat) :
    (addFetchedTx s tx bn bh).cells = s.cells ∧ (addFetchedTx s tx bn bh).hist = s.hist ∧
    (addFetchedTx s tx bn bh).scripts = s.scripts ∧
    (∀ r, lookup s.txs tx.hash = some r → r.txi ≠ U32_MAX_IDX →
        lookup (addFetchedTx s tx bn bh).txs tx.hash = some r) ∧
    (∀ h, h ≠ tx.hash → lookup (addFetchedTx s tx bn bh).txs h = lookup s.txs h) := by
  unfold addFetchedTx
  cases hl : lookup s.txs tx.hash with
  | none =>
    simp only [Bool.false_eq_true, ↓reduceIte, applyOp]
    refine ⟨trivial, trivial, trivial, ?_, ?_⟩
    · intro r hr; cases hr
    · intro h hh; rw [lookup_put, if_neg hh]
  | some r0 =>
    by_cases hr : r0.txi = U32_MAX_IDX
    · simp only [hr, ne_eq, not_true_eq_false, decide_false, Bool.false_eq_true, ↓reduceIte,
        applyOp]
      refine ⟨trivial, trivial, trivial, ?_, ?_⟩
      · intro r hr' hne; cases hr'; exact absurd hr hne
      · intro h hh; rw [lookup_put, if_neg hh]
    · simp only [ne_eq, hr, not_false_eq_true, decide_true, ↓reduceIte, applyOp]
      refine ⟨trivial, trivial, trivial, ?_, ?_⟩
      · intro r hr' _; exact hl ▸ hr'
      · intro h _; trivial

/-- Witness kept from the pinned tree: overwriting an indexed transaction by a fetched copy made a
later spend delete the wrong cell key.  With the fix the spent cell disappears. -/
theorem witness_fetched_then_spent :
    let k : SKey := ⟨7, false⟩
    let t1 : Tx := ⟨1, [], [⟨7, none, 100⟩]⟩
    let t2 : Tx := ⟨2, [⟨1, 0⟩], [⟨9, none, 100⟩]⟩
    let s0 := emptyIndex [(k, 0)]
    let s1 := filterBlock s0 ⟨1, 11, [⟨0, [], []⟩, t1]⟩
    let s2 := addFetchedTx s1 t1 1 11
    let s3 := filterBlock s2 ⟨2, 12, [t2]⟩
    s1.cells.length = 1 ∧ s3.cells = [] := by
  constructor <;> rfl

/-- non-vacuity: a same-block spend chain and a typed cell -/
example :
    let k : SKey := ⟨7, false⟩
    let t1 : Tx := ⟨1, [], [⟨7, none, 100⟩, ⟨7, some 3, 50⟩]⟩
    let t2 : Tx := ⟨2, [⟨1, 0⟩], [⟨7, none, 90⟩]⟩
    ((filterBlock (emptyIndex [(k, 0)]) ⟨1, 11, [t1, t2]⟩).cells.map (·.1)) =
      [⟨k, 1, 0, 1⟩, ⟨k, 1, 1, 0⟩] := by
  rfl

/-! ## the look-up order of the pinned tree (negative witness) -/

/-- **the pinned tree's behaviour, kept only for the witness below**: the batch of `filter_block`
with the creating transaction of an input looked up in the store FIRST and among the earlier
transactions of this block second (`Index.blockOps` asks the in-block map first) -/
def blockOpsStoreFirst (s : St) (b : Block) : List Op :=
  let rec go (txi : Nat) (inBlock : List (Nat × TxRec)) : List Tx → List Op
    | [] => []
    | tx :: rest =>
      let ins := (enum tx.inputs).flatMap (fun (ii, i) =>
        let prev := match lookup s.txs i.tx with
          | some r => some r
          | none => lookup inBlock i.tx
        inputOps s b.number txi ii tx i prev)
      let outs := (enum tx.outputs).flatMap (fun (oi, o) => outputOps s b.number txi oi tx o)
      ins ++ outs ++ go (txi + 1) (put inBlock tx.hash ⟨b.number, txi, tx⟩) rest
  go 0 [] b.txs

/-- `filter_block` of the pinned tree (store-first look-up) -/
def filterBlockStoreFirst (s : St) (b : Block) : St :=
  let ops := blockOpsStoreFirst s b
  let ops := if ops.isEmpty then ops else ops ++ [.putHeader b.number b.hash]
  ops.foldl applyOp s

/-- Witness kept from the pinned tree: transaction `t1` is fetched (stored with index `u32::MAX`)
*before* its block is filtered; `t2`, in the same block, spends its output 0.  On the chain no
cell of the script is live.  With the store-first look-up the spend found the fetched record,
deleted the cell key `(1, u32::MAX, 0)` that does not exist and left the phantom live cell
`(1, 0, 0)`; with the in-block map asked first the cell disappears.  Without the fetch both
orders agree. -/
theorem witness_fetched_before_filtered :
    let k : SKey := ⟨7, false⟩
    let t1 : Tx := ⟨1, [], [⟨7, none, 100⟩]⟩
    let t2 : Tx := ⟨2, [⟨1, 0⟩], [⟨9, none, 100⟩]⟩
    let b : Block := ⟨1, 11, [t1, t2]⟩
    let s0 := emptyIndex [(k, 0)]
    let s1 := addFetchedTx s0 t1 1 11
    liveCells [b] k = [] ∧
    (filterBlockStoreFirst s1 b).cells = [(⟨k, 1, 0, 0⟩, 1)] ∧
    (filterBlock s1 b).cells = [] ∧
    (filterBlockStoreFirst s0 b).cells = [] := by
  refine ⟨?_, ?_, ?_, ?_⟩ <;> rfl

/-! ## non-vacuity -/

/-- executable form of `WellFormed.inputsEarlier` -/
private def inputsEarlierB (chain : List Block) : Bool :=
  (enum chain).all fun (bi, b) =>
    (enum b.txs).all fun (ti, tx) =>
      tx.inputs.all fun i =>
        !((chain.flatMap (·.txs)).any (fun t => t.hash = i.tx)) ||
          (createdBy (chain.take bi ++ [{ b with txs := b.txs.take ti }])).any (fun e => e.1 = i)

private theorem inputsEarlier_of_check {chain : List Block} (h : inputsEarlierB chain = true) :
    ∀ pre b post, chain = pre ++ [b] ++ post →
    ∀ tpre tx tpost, b.txs = tpre ++ [tx] ++ tpost → ∀ i ∈ tx.inputs,
      (∃ t ∈ chain.flatMap (·.txs), t.hash = i.tx) →
      ∃ e ∈ createdBy (pre ++ [{ b with txs := tpre }]), e.1 = i := by
  intro pre b post hc tpre tx tpost hb i hi hex
  unfold inputsEarlierB at h
  rw [List.all_eq_true] at h
  have h1 := h (pre.length, b) ((mem_enum _ _ _).mpr (by rw [hc]; simp))
  simp only at h1
  rw [List.all_eq_true] at h1
  have h2 := h1 (tpre.length, tx) ((mem_enum _ _ _).mpr (by rw [hb]; simp))
  simp only at h2
  rw [List.all_eq_true] at h2
  have h3 := h2 i hi
  have e1 : chain.take pre.length = pre := by rw [hc]; simp
  have e2 : b.txs.take tpre.length = tpre := by rw [hb]; simp
  rw [e1, e2, Bool.or_eq_true] at h3
  rcases h3 with h3 | h3
  · exfalso
    obtain ⟨t, ht, e⟩ := hex
    have : (chain.flatMap (·.txs)).any (fun t => decide (t.hash = i.tx)) = true :=
      List.any_eq_true.mpr ⟨t, ht, by simpa using e⟩
    rw [this] at h3
    cases h3
  · obtain ⟨e, he, hei⟩ := List.any_eq_true.mp h3
    exact ⟨e, he, by simpa using hei⟩

/-- executable form of `WellFormedHistory` -/
private def wfhB (es : List Event) : Bool :=
  let chain := blocksOf es
  decide ((chain.map (·.number)).Pairwise (· < ·)) &&
  decide ((chain.flatMap (fun b => b.txs.map (·.hash))).Nodup) &&
  decide ((spentBy chain).Nodup) &&
  inputsEarlierB chain &&
  es.all fun e => match e with
    | .fetchedTx tx bn _ => chain.any (fun b => decide (b.number = bn) && b.txs.contains tx)
    | _ => true

private theorem wfh_of_check {es : List Event} (h : wfhB es = true) : WellFormedHistory es := by
  unfold wfhB at h
  simp only [Bool.and_eq_true, decide_eq_true_eq] at h
  obtain ⟨⟨⟨⟨h1, h2⟩, h3⟩, h4⟩, h5⟩ := h
  refine ⟨⟨h1, h2, h3, inputsEarlier_of_check h4⟩, ?_⟩
  intro tx bn bh hm
  have := List.all_eq_true.mp h5 _ hm
  simp only at this
  obtain ⟨b, hb, hc⟩ := List.any_eq_true.mp this
  simp only [Bool.and_eq_true, decide_eq_true_eq, List.contains_eq_mem] at hc
  exact ⟨b, hb, hc.1, hc.2⟩

/-- a history for the examples: `t1` is fetched before its block is filtered (with a header hash
that is not its block's) and again afterwards; `t2` spends output 0 of `t1` in the same block;
`t3`, in the next block, spends output 0 of `t2`, which was fetched in between; `t4` touches no
registered script and is fetched before its block -/
private def exHistory : List Event :=
  let t1 : Tx := ⟨1, [], [⟨7, none, 100⟩, ⟨7, some 3, 50⟩]⟩
  let t2 : Tx := ⟨2, [⟨1, 0⟩], [⟨7, none, 90⟩]⟩
  let t3 : Tx := ⟨3, [⟨2, 0⟩, ⟨40, 1⟩], [⟨8, some 3, 80⟩]⟩
  let t4 : Tx := ⟨4, [], [⟨9, none, 5⟩]⟩
  [.fetchedTx t1 1 99, .fetchedHeader 1 99, .fetchedTx t4 2 12, .block ⟨1, 11, [t1, t2]⟩,
   .fetchedTx t2 1 11, .fetchedTx t1 1 11, .block ⟨2, 12, [t4, t3]⟩, .fetchedTx t3 2 12]

/-- non-vacuity of the hypotheses of `cells_equal_chain_with_fetches`: a well-formed history with
a fetch before the block and a same-block spender -/
example : WellFormedHistory exHistory := wfh_of_check (by decide)

/-- …on which the index holds exactly the live cells: output 1 of `t1` under both its lock script
and (for the script registered as type script) its type script, and the output of `t3` -/
example :
    (runEvents (emptyIndex [(⟨7, false⟩, 0), (⟨3, true⟩, 0)]) exHistory).cells.map (·.1) =
      [⟨⟨7, false⟩, 1, 0, 1⟩, ⟨⟨3, true⟩, 1, 0, 1⟩, ⟨⟨3, true⟩, 2, 1, 0⟩] ∧
    liveCells (blocksOf exHistory) ⟨7, false⟩ = [(⟨⟨7, false⟩, 1, 0, 1⟩, 1)] ∧
    liveCells (blocksOf exHistory) ⟨3, true⟩ =
      [(⟨⟨3, true⟩, 1, 0, 1⟩, 1), (⟨⟨3, true⟩, 2, 1, 0⟩, 3)] := by
  refine ⟨?_, ?_, ?_⟩ <;> rfl

/-- …and the pinned tree's order leaves phantom cells on it (output 0 of `t1`, spent by `t2`) -/
example :
    ((exHistory.foldl (fun s e => match e with
        | .block b => filterBlockStoreFirst s b
        | e => stepEvent s e) (emptyIndex [(⟨7, false⟩, 0)])).cells.map (·.1)).contains
      ⟨⟨7, false⟩, 1, 0, 0⟩ = true := by
  rfl

/-- the hypothesis is needed: a "fetched" transaction that is not the chain's transaction of that
hash (here: a different output list under hash 1) is outside `WellFormedHistory` -/
example : ¬ WellFormedHistory
    [.fetchedTx ⟨1, [], []⟩ 1 11, .block ⟨1, 11, [⟨1, [], [⟨7, none, 100⟩]⟩]⟩] := by
  intro h
  obtain ⟨b, hb, _, ht⟩ := h.fetched _ _ _ List.mem_cons_self
  simp [blocksOf, Event.block?] at hb
  subst hb
  simp at ht

end C03

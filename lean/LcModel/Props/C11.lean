import LcModel.Prove.LemmasC1112
/-!
# C11 — the per-peer sync state machine follows its diagram for every event order

Subject: the `Prove` layer's event handlers `onConnect`, `onLastState`, `onProof`, `onTick`,
`onDisconnect` (model of `LightClientProtocol::{connected, received, notify, disconnected}` for
the last-state / last-state-proof messages and the refresh timer), tied to the code by
`./check C11`.  Verification verdicts are inputs, so the theorems hold for solicited,
unsolicited, stale, duplicated, valid and invalid messages alike.
-/
namespace C11
open Prove

/-- **C11 (diagram, last state).**  Handling a `SendLastState` moves every peer along a path of
documented edges (the sender may take two: `st2 → st3 → st4`); other peers do not move. -/
theorem diagram_last_state (s : St) (p : Nat) (h : VH) (now b : Nat) (ds : List Nat) (out : Out)
    (hr : onLastState s p h now b ds = .ok out) :
    ∀ q a, getPeer s q = some a →
      ∃ a', getPeer out.st q = some a' ∧ Path (kind a) (kind a') ∧ (q ≠ p → a' = a) := by
  show Moves p s out.st
  cases onLastState_ok hr with
  | same h1 => rw [h1]; exact Moves.refl _ _
  | moved pst pst1 prev hp _ h1 h2 =>
    rw [h2]; exact Moves.setPeer_edge hp (PeerState.receiveLastState_ok h1).1
  | child pst pst1 pst2 prev ps newTd hp _ h1 _ _ _ _ _ h2 h3 =>
    rw [h3]
    have m1 : Moves p s (setPeer s p pst1) :=
      Moves.setPeer_edge hp (PeerState.receiveLastState_ok h1).1
    refine m1.trans ?_
    have hp1 : getPeer (setPeer s p pst1) p = some pst1 := getPeer_setPeer_self_b pst1 hp
    split
    · exact (Moves.of_peers_eq rfl).trans
        (Moves.setPeer_edge (s := storeLastState (setPeer s p pst1) _ _ _) hp1
          (PeerState.receiveLastStateProof_ok h2).1)
    · exact Moves.setPeer_edge hp1 (PeerState.receiveLastStateProof_ok h2).1
  | first pst pst1 hp _ h1 h2 =>
    have m1 : Moves p s (setPeer s p pst1) :=
      Moves.setPeer_edge hp (PeerState.receiveLastState_ok h1).1
    rcases h2 with h2 | ⟨sent, h2⟩
    · rw [h2]; exact m1
    · exact m1.trans (getLastStateProof_moves h2).2.2

/-- **C11 (diagram, proof).** -/
theorem diagram_proof (s : St) (p : Nat) (m : ProofMsg) (now b bG : Nat) (ds dsG : List Nat)
    (out : Out) (hr : onProof s p m now b ds bG dsG = .ok out) :
    ∀ q a, getPeer s q = some a →
      ∃ a', getPeer out.st q = some a' ∧ Path (kind a) (kind a') ∧ (q ≠ p → a' = a) := by
  show Moves p s out.st
  cases onProof_ok hr with
  | same h1 => rw [h1]; exact Moves.refl _ _
  | relay pst pst1 req hp _ _ h1 h2 =>
    have m1 : Moves p s (setPeer s p pst1) :=
      Moves.setPeer_edge hp (PeerState.receiveLastState_ok h1).1
    rcases h2 with h2 | ⟨sent, h2⟩
    · rw [h2]; exact m1
    · exact m1.trans (getLastStateProof_moves h2).2.2
  | rerequest pst pst' req r hp _ _ h1 h2 =>
    rw [h2]; exact Moves.setPeer_edge hp (PeerState.requestLastStateProof_ok h1).1
  | commit pst req nps hp _ _ _ h1 =>
    obtain ⟨newTd, s0, pst', _, hpe, _, hrec, hs1⟩ := commitProveState_true hp h1
    rw [hs1]
    exact (Moves.of_peers_eq hpe).trans
      (Moves.setPeer_edge ((getPeer_congr_b hpe p).trans hp) (PeerState.receiveLastStateProof_ok hrec).1)

/-- **C11 (diagram, refresh tick).**  The timer only sends requests: `st1 → st2`, `st5 → st6`,
`st3 → st4`, `st5 → st7`, or the copy shortcut. -/
theorem diagram_tick (s : St) (now : Nat) (si : SampleInputs) (out : TickOut)
    (hr : onTick s now si = .ok out) :
    ∀ q a, getPeer s q = some a →
      ∃ a', getPeer out.st q = some a' ∧ Path (kind a) (kind a') :=
  (onTick_ok hr).2.2

/-- **C11 (a proof is accepted only for the outstanding request).**  The proved state of the
sender changes on a `SendLastStateProof` only if a proof request is outstanding, and then either
the response is for that very last state or the new proved state is a copy of one some peer
already holds.

`hnd` (peer ids are distinct — an invariant of every reachable state: `onConnect` inserts with
`insertPeer`, which drops an older entry of the same id) is needed for the last disjunct:
`findProved` scans *all* entries of the peer list whereas `trustedOf`/`getPeer` read the first
entry of an id, see `witness_duplicate_ids` below.  Without `hnd` the copied proved state is the
one of some *entry* of the peer list: `proof_needs_request_partial`. -/
theorem proof_needs_request (s : St) (p : Nat) (m : ProofMsg) (now b bG : Nat) (ds dsG : List Nat)
    (out : Out) (hnd : (s.peers.map (·.1)).Nodup)
    (hr : onProof s p m now b ds bG dsG = .ok out)
    (hchg : trustedOf out.st p ≠ trustedOf s p) :
    ∃ pst req, getPeer s p = some pst ∧ pst.proveRequest? = some req ∧
      (req.last.vid = m.last.vid ∨ ∃ q, trustedOf s q = trustedOf out.st p) := by
  cases onProof_ok hr with
  | same h1 => rw [h1] at hchg; exact absurd rfl hchg
  | relay pst pst1 req hp hreq _ h1 h2 =>
    refine ⟨pst, req, hp, hreq, .inr ?_⟩
    have hs1 : trustedOf (setPeer s p pst1) p = trustedOf s p := by
      rw [trustedOf_setPeer_self_b pst1 hp, (PeerState.receiveLastState_ok h1).2.1]
      simp [trustedOf, hp]
    rcases h2 with h2 | ⟨sent, h2⟩
    · rw [h2] at hchg; exact absurd hs1 hchg
    · rcases getLastStateProof_trusted h2 with h3 | ⟨e, he, ps, hps, h3⟩
      · exact absurd (h3.trans hs1) hchg
      · obtain ⟨e0, he0, rfl⟩ := List.mem_map.1 he
        by_cases hid : e0.1 = p
        · refine ⟨p, ?_⟩
          simp only [hid, if_true] at hps
          rw [h3, ← hs1, trustedOf_setPeer_self_b pst1 hp, hps]
        · refine ⟨e0.1, ?_⟩
          simp only [hid, if_false] at hps
          rw [h3, ← hps]
          simp [trustedOf, getPeer_of_mem_nodup_b hnd he0]
  | rerequest pst pst' req r hp _ _ h1 h2 =>
    exfalso; apply hchg
    rw [h2, trustedOf_setPeer_self_b pst' hp, (PeerState.requestLastStateProof_ok h1).2]
    simp [trustedOf, hp]
  | commit pst req nps hp hreq hvid _ _ => exact ⟨pst, req, hp, hreq, .inl hvid⟩

/-- `proof_needs_request` without the distinct-ids hypothesis: the copied proved state is held by
some entry of the peer list. -/
theorem proof_needs_request_partial (s : St) (p : Nat) (m : ProofMsg) (now b bG : Nat)
    (ds dsG : List Nat) (out : Out) (hr : onProof s p m now b ds bG dsG = .ok out)
    (hchg : trustedOf out.st p ≠ trustedOf s p) :
    ∃ pst req, getPeer s p = some pst ∧ pst.proveRequest? = some req ∧
      (req.last.vid = m.last.vid ∨ ∃ e ∈ s.peers, e.2.proveState? = trustedOf out.st p) := by
  cases onProof_ok hr with
  | same h1 => rw [h1] at hchg; exact absurd rfl hchg
  | relay pst pst1 req hp hreq _ h1 h2 =>
    refine ⟨pst, req, hp, hreq, .inr ?_⟩
    have hs1 : trustedOf (setPeer s p pst1) p = trustedOf s p := by
      rw [trustedOf_setPeer_self_b pst1 hp, (PeerState.receiveLastState_ok h1).2.1]
      simp [trustedOf, hp]
    rcases h2 with h2 | ⟨sent, h2⟩
    · rw [h2] at hchg; exact absurd hs1 hchg
    · rcases getLastStateProof_trusted h2 with h3 | ⟨e, he, ps, hps, h3⟩
      · exact absurd (h3.trans hs1) hchg
      · obtain ⟨e0, he0, rfl⟩ := List.mem_map.1 he
        by_cases hid : e0.1 = p
        · refine ⟨(p, pst), getPeer_mem_b hp, ?_⟩
          simp only [hid, if_true] at hps
          rw [h3, ← hps, (PeerState.receiveLastState_ok h1).2.1]
        · refine ⟨e0, he0, ?_⟩
          simp only [hid, if_false] at hps
          rw [h3, ← hps]
  | rerequest pst pst' req r hp _ _ h1 h2 =>
    exfalso; apply hchg
    rw [h2, trustedOf_setPeer_self_b pst' hp, (PeerState.requestLastStateProof_ok h1).2]
    simp [trustedOf, hp]
  | commit pst req nps hp hreq hvid _ _ => exact ⟨pst, req, hp, hreq, .inl hvid⟩

/-- Why `proof_needs_request` assumes distinct peer ids: in a (malformed) peer list with two
entries of id 1, `findProved` copies the proved state of the *second* entry to peer 2, while
`trustedOf · 1` reads the first entry; the request of peer 2 was for another header
(`vid` 1 ≠ 2), and afterwards no `trustedOf s q` equals the new proved state of peer 2. -/
theorem witness_duplicate_ids :
    let hA : VH := ⟨1, 1, 10, 0, 900, 9, ⟨0, 10, 1000⟩, 0x20028f5c, true, true, true⟩
    let hB : VH := ⟨2, 2, 11, 1, 1000, 10, ⟨0, 11, 1000⟩, 0x20028f5c, true, true, true⟩
    let psB : ProveState := ⟨hB, [], []⟩
    let req : ProveRequest := ⟨hA, ⟨1, 0, 0, 100, 0, []⟩, false, false⟩
    let s : St := ⟨100, 60000, 8000, 2,
      [(1, .initialized), (1, .ready ⟨hB, 0⟩ psB), (2, .requestFirstLastStateProof ⟨hA, 0⟩ req 0)],
      ⟨1000, hA, []⟩, []⟩
    let m : ProofMsg := ⟨hB, [], true, true⟩
    ∃ out, onProof s 2 m 5 0 [] 0 [] = .ok out ∧
      trustedOf out.st 2 = some psB ∧ trustedOf s 2 = none ∧
      getPeer s 2 = some (.requestFirstLastStateProof ⟨hA, 0⟩ req 0) ∧ req.last.vid ≠ m.last.vid ∧
      ∀ q, trustedOf s q ≠ trustedOf out.st 2 := by
  intro hA hB psB req s m
  have hev : onProof s 2 m 5 0 [] 0 [] = .ok ⟨setPeer s 2 (.ready ⟨hB, 5⟩ psB), .ok, []⟩ := by
    simp only [hA, hB, psB, req, s, m]
    rfl
  refine ⟨_, hev, rfl, rfl, rfl, by decide, ?_⟩
  intro q
  have hq : trustedOf s q = none := by
    by_cases h1 : q = 1
    · subst h1; rfl
    · by_cases h2 : q = 2
      · subst h2; rfl
      · have h1' : ¬ 1 = q := fun h => h1 h.symm
        have h2' : ¬ 2 = q := fun h => h2 h.symm
        simp [trustedOf, getPeer, s, h1', h2']
  rw [hq]
  show none ≠ some psB
  simp

/-- **C11 (a last-state update never discards a proof).**  After a `SendLastState` that is not
answered with a ban, a peer that had a proved state still has one: the same, or its child (the
announced header extends the proved one), or a copy of another peer's proved state. -/
theorem last_state_keeps_proof (s : St) (p : Nat) (h : VH) (now b : Nat) (ds : List Nat) (out : Out)
    (hr : onLastState s p h now b ds = .ok out) (ps : ProveState)
    (hps : trustedOf s p = some ps) (hok : ∀ c, out.outcome ≠ .ban c) :
    trustedOf out.st p = some ps ∨
    trustedOf out.st p = some (newChild ps h s.lastNBlocks) := by
  have _ := hok
  have hps' := hps
  unfold trustedOf at hps'
  cases onLastState_ok hr with
  | same h1 => rw [h1]; exact .inl hps
  | moved pst pst1 prev hp _ h1 h2 =>
    left
    rw [h2, trustedOf_setPeer_self_b pst1 hp, (PeerState.receiveLastState_ok h1).2.1]
    simpa [hp] using hps'
  | child pst pst1 pst2 prev ps' newTd hp _ h1 h4 _ _ _ _ h2 h3 =>
    right
    have hp1 : getPeer (setPeer s p pst1) p = some pst1 := getPeer_setPeer_self_b pst1 hp
    have : ps' = ps := by simpa [hp, h4] using hps'
    subst this
    rw [h3]
    split
    · rw [trustedOf_setPeer_self_b (s := storeLastState (setPeer s p pst1) _ _ _) pst2 hp1]
      exact (PeerState.receiveLastStateProof_ok h2).2
    · rw [trustedOf_setPeer_self_b pst2 hp1]
      exact (PeerState.receiveLastStateProof_ok h2).2
  | first pst pst1 hp hn h1 h2 =>
    exfalso
    simp [hp] at hps'
    obtain ⟨ls, hls⟩ := PeerState.lastState_of_proveState hps'
    simp [hn] at hls

/-- **C11 (timeouts).**  A refresh tick asks to disconnect exactly the peers with a request older
than the message timeout or a last state unchanged for longer than the message timeout. -/
theorem timeout_exact (s : St) (now : Nat) (si : SampleInputs) (out : TickOut)
    (hr : onTick s now si = .ok out) (p : Nat) :
    p ∈ out.disconnect ↔
      ∃ pst, (p, pst) ∈ s.peers ∧
        ((∃ w, pst.whenSent? = some w ∧ w + s.timeout < now) ∨
         (∃ ls, pst.lastState? = some ls ∧ ls.updateTs + s.timeout < now)) := by
  rw [(onTick_ok hr).1]
  simp only [List.mem_map, List.mem_filter]
  constructor
  · rintro ⟨⟨q, pst⟩, ⟨hm, ht⟩, rfl⟩
    refine ⟨pst, hm, ?_⟩
    simp only [timedOut, Bool.or_eq_true] at ht
    rcases ht with ht | ht
    · left
      cases hw : pst.whenSent? with
      | none => simp [hw] at ht
      | some w => exact ⟨w, rfl, by simpa [hw] using ht⟩
    · right
      cases hl : pst.lastState? with
      | none => simp [hl] at ht
      | some ls => exact ⟨ls, rfl, by simpa [hl] using ht⟩
  · rintro ⟨pst, hm, hc⟩
    refine ⟨(p, pst), ⟨hm, ?_⟩, rfl⟩
    simp only [timedOut, Bool.or_eq_true]
    rcases hc with ⟨w, hw, hlt⟩ | ⟨ls, hl, hlt⟩
    · left; simp [hw, hlt]
    · right; simp [hl, hlt]

/-- **C11 (a disconnected peer leaves no state behind).**  Nothing mentions the peer afterwards;
other peers and the store are untouched. -/
theorem disconnect_clean (s : St) (p : Nat) :
    getPeer (onDisconnect s p) p = none ∧
    (∀ q, q ≠ p → getPeer (onDisconnect s p) q = getPeer s q) ∧
    (onDisconnect s p).stored = s.stored := by
  refine ⟨?_, ?_, rfl⟩
  · simp [getPeer, onDisconnect, List.find?_filter]
  · intro q hq
    unfold getPeer onDisconnect
    simp only [List.find?_filter]
    congr 1; congr 1; funext a
    by_cases h : a.1 = q
    · simp [h, hq]
    · simp [h]

/-- **C11 (connect).**  A connecting peer starts in `st2` with a `GetLastState` sent. -/
theorem connect_starts (s : St) (p : Nat) (now : Nat) :
    getPeer (onConnect s p now).1 p = some (.requestFirstLastState now) ∧
    (onConnect s p now).2 = [.getLastState p] := by
  refine ⟨?_, rfl⟩
  show getPeer (setPeer _ p (.requestFirstLastState now)) p = _
  rw [getPeer_setPeer]
  simp [getPeer, insertPeer, List.find?_append, List.find?_filter]

end C11

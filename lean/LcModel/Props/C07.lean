import LcModel.Quorum.Lemmas
/-!
# C07 — check points are finalized only by quorum agreement and never change afterwards

Subject: `Quorum.finalize` / `Quorum.addCheckPoints` (model of `finalize_check_points` and
`CheckPoints::add_check_points`), tied to the code by the operation-sequence correspondence of
`./check C07`.  `choices` (the tie-break between two values that both reach the maximum count —
HashMap iteration order in the implementation) is universally quantified.
-/
namespace C07
open Quorum

/-- peer vector `p` reports value `v` for check point index `i` -/
def Reports (p : PeerCp) (i v : Nat) : Prop :=
  p.start ≤ i ∧ p.cps[i - p.start]? = some v

/-- the quorum: half of the outbound-peer capacity, rounded up -/
def quorumSize (s : St) : Nat := (s.maxOutbound + 1) / 2

/-- the proven peers of a state -/
def provenPeers (s : St) : List (Nat × PeerCp) := s.peers.filter (·.2.proved)

/-! ## immutability -/


/-- events of a check point history -/
inductive Ev where
  | connect (pid : Nat) (proved : Bool) (start cp : Nat)
  | disconnect (pid : Nat)
  | prove (pid : Nat) (proved : Bool)
  | addCps (pid lastProved startNumber : Nat) (cps : List Nat)
  | finalize (choices : List Nat)

/-- one event; a failing `add_check_points` or an aborting `finalize` leaves the state alone -/
def applyEv (s : St) : Ev → St
  | .connect pid proved start cp =>
    { s with peers := s.peers.filter (·.1 ≠ pid) ++ [(pid, ⟨proved, start, [cp]⟩)] }
  | .disconnect pid => { s with peers := s.peers.filter (·.1 ≠ pid) }
  | .prove pid proved => { s with peers := updatePeer s.peers pid (fun p => { p with proved := proved }) }
  | .addCps pid lastProved startNumber cps =>
    match s.peers.find? (·.1 = pid) with
    | none => s
    | some (_, p) =>
      match addCheckPoints s.interval p lastProved startNumber cps with
      | .ok (p', _) => { s with peers := updatePeer s.peers pid (fun _ => p') }
      | .error _ => s
  | .finalize choices =>
    match Quorum.finalize s choices with
    | .ok out => out.st
    | .error _ => s


/-! ## quorum -/



/-! ## fewer deviating peers than the quorum are harmless -/

/-- the vectors that survive the cleaning step, rebased to start at the final index -/
def keptVectors (s : St) : List (Nat × List Nat) :=
  (provenPeers s).filterMap (fun e =>
    match clean s.maxCp (s.final.getLast?.getD 0) e.2 with
    | .keep cps _ => some (e.1, cps)
    | _ => none)


/-! ## `add_check_points` accepts only aligned, contiguous, anchored batches -/


/-! ## non-vacuity -/

/-- three proven peers, quorum 2 (`max_outbound = 3`): two agree on `7, 8`, one deviates at the
first new index and is out-voted; the final index advances by 2 -/
example :
    (finalize ⟨3, 8, [5], [(1, ⟨true, 0, [5, 7, 8]⟩), (2, ⟨true, 0, [5, 9, 9, 9]⟩),
                          (3, ⟨true, 0, [5, 7, 8, 6]⟩)]⟩ []).map (·.st.final)
      = .ok [5, 7, 8] := by rfl

/-- a peer contradicting the final check point is banned and does not count -/
example :
    (finalize ⟨2, 8, [5], [(1, ⟨true, 0, [4, 7]⟩), (2, ⟨true, 0, [5, 7]⟩)]⟩ []).map
      (fun o => (o.st.final, o.banned)) = .ok ([5, 7], [1]) := by rfl

/-- below the quorum nothing is finalized -/
example :
    (finalize ⟨4, 8, [5], [(1, ⟨true, 0, [5, 7]⟩), (2, ⟨false, 0, [5, 7]⟩)]⟩ []).map (·.st.final)
      = .ok [5] := by rfl

end C07

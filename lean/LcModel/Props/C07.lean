import LcModel.Quorum.Lemmas
/-!
# C07 — check points are finalized only by quorum agreement and never change afterwards

Subject: `Quorum.finalize` / `Quorum.addCheckPoints` (model of `finalize_check_points` and
`CheckPoints::add_check_points`), tied to the code by the operation-sequence correspondence of
`./check C07`.  `choices` (the tie-break between two values that both reach the maximum count —
HashMap iteration order in the implementation) is universally quantified.
-/
namespace C07
open Quorum

/-- peer vector `p` reports value `v` for check point index `i` -/
def Reports (p : PeerCp) (i v : Nat) : Prop :=
  p.start ≤ i ∧ p.cps[i - p.start]? = some v

/-- the quorum: half of the outbound-peer capacity, rounded up -/
def quorumSize (s : St) : Nat := (s.maxOutbound + 1) / 2

/-- the proven peers of a state -/
def provenPeers (s : St) : List (Nat × PeerCp) := s.peers.filter (·.2.proved)

/-! ## immutability -/

/-- **C07 (never rewritten, index never decreases).**  Whatever the peers report and however
ties are broken, the stored check points after `finalize` extend the stored check points before
it: every final value stays what it was and the final index does not decrease. -/
theorem immutable (s : St) (choices : List Nat) (out : FinOut)
    (h : finalize s choices = .ok out) :
    s.final <+: out.st.final := by
  obtain ⟨-, h⟩ := finalize_ok h
  rcases h with ⟨-, hf, -⟩ | ⟨-, -, ⟨-, hf⟩ | ⟨-, rest, acc, -, ⟨-, hf⟩ | ⟨index, cp, pid, cps, tl, -, -, hf⟩⟩⟩
  · rw [hf]; exact List.prefix_refl _
  · rw [hf]; exact List.prefix_refl _
  · rw [hf]; exact List.prefix_refl _
  · rw [hf]; exact List.prefix_append _ _

/-- events of a check point history -/
inductive Ev where
  | connect (pid : Nat) (proved : Bool) (start cp : Nat)
  | disconnect (pid : Nat)
  | prove (pid : Nat) (proved : Bool)
  | addCps (pid lastProved startNumber : Nat) (cps : List Nat)
  | finalize (choices : List Nat)

/-- one event; a failing `add_check_points` or an aborting `finalize` leaves the state alone -/
def applyEv (s : St) : Ev → St
  | .connect pid proved start cp =>
    { s with peers := s.peers.filter (·.1 ≠ pid) ++ [(pid, ⟨proved, start, [cp]⟩)] }
  | .disconnect pid => { s with peers := s.peers.filter (·.1 ≠ pid) }
  | .prove pid proved => { s with peers := updatePeer s.peers pid (fun p => { p with proved := proved }) }
  | .addCps pid lastProved startNumber cps =>
    match s.peers.find? (·.1 = pid) with
    | none => s
    | some (_, p) =>
      match addCheckPoints s.interval p lastProved startNumber cps with
      | .ok (p', _) => { s with peers := updatePeer s.peers pid (fun _ => p') }
      | .error _ => s
  | .finalize choices =>
    match Quorum.finalize s choices with
    | .ok out => out.st
    | .error _ => s

theorem applyEv_final (s : St) (ev : Ev) : s.final <+: (applyEv s ev).final := by
  cases ev with
  | connect pid proved start cp => exact List.prefix_refl _
  | disconnect pid => exact List.prefix_refl _
  | prove pid proved => exact List.prefix_refl _
  | addCps pid lastProved startNumber cps =>
    simp only [applyEv]
    split
    · exact List.prefix_refl _
    · split <;> exact List.prefix_refl _
  | finalize choices =>
    simp only [applyEv]
    split
    · rename_i out h; exact immutable s choices out h
    · exact List.prefix_refl _

/-- **C07 (immutability along every history).**  For every sequence of connects, disconnects,
prove-state changes, check point messages and refresh ticks, in any order, the final check points
only ever grow by appending. -/
theorem immutable_history (s : St) (evs : List Ev) :
    s.final <+: (evs.foldl applyEv s).final := by
  induction evs generalizing s with
  | nil => exact List.prefix_refl _
  | cons ev evs ih =>
    rw [List.foldl_cons]
    exact (applyEv_final s ev).trans (ih _)

/-! ## quorum -/

theorem getLast?_eq_getElem?_maxCp {s : St} (hne : s.final ≠ []) :
    s.final[s.maxCp]? = some (s.final.getLast?.getD 0) ∧ s.maxCp + 1 = s.final.length := by
  unfold St.maxCp
  have : 0 < s.final.length := List.length_pos_iff.2 hne
  rw [List.getLast?_eq_getElem?]
  refine ⟨?_, by omega⟩
  rw [List.getElem?_eq_getElem (by omega)]; rfl

/-- **C07 (finalized only by quorum).**  Every check point index `i` that `finalize` newly makes
final is backed by a set `S` of distinct, currently proven peers, at least half of the
outbound-peer capacity (rounded up) in number, each of which reports the stored value for `i` and
for every check point since the previously final one (inclusive). -/
theorem quorum (s : St) (choices : List Nat) (out : FinOut)
    (hne : s.final ≠ [])
    (h : finalize s choices = .ok out) :
    ∀ i, s.maxCp < i → i ≤ out.st.maxCp →
      ∃ S : List (Nat × PeerCp), S.Sublist (provenPeers s) ∧ quorumSize s ≤ S.length ∧
        ∀ e ∈ S, ∀ j, s.maxCp ≤ j → j ≤ i →
          ∃ v, out.st.final[j]? = some v ∧ Reports e.2 j v := by
  intro i hi1 hi2
  obtain ⟨hreq, h⟩ := finalize_ok h
  obtain ⟨hlast, hlen⟩ := getLast?_eq_getElem?_maxCp hne
  have hsame : out.st.final = s.final → False := by
    intro hf; unfold St.maxCp at hi1 hi2; rw [hf] at hi2; omega
  rcases h with ⟨-, hf, -⟩ | ⟨-, -, ⟨-, hf⟩ | ⟨-, rest, acc, hag, ⟨-, hf⟩ | ⟨index, cp, pid, cps, tl, hacc, hrest, hf⟩⟩⟩
  · exact (hsame hf).elim
  · exact (hsame hf).elim
  · exact (hsame hf).elim
  · subst hacc
    obtain ⟨idx', hsub, -, hsome⟩ := agree_inv1 hreq _ _ _ _ _ _ _
      (show Inv1 (req s) (kept s) 1 (kept s) none from ⟨List.Sublist.refl _, fun _ => rfl, by simp⟩) hag
    obtain ⟨-, hlenr, hagree⟩ := hsome index cp rfl
    rw [kept_eq] at hsub
    obtain ⟨S, hS, hSlen, hSsrc⟩ := sublist_filterMap_source hsub
    refine ⟨S, hS, by show req s ≤ S.length; omega, ?_⟩
    intro e he j hj1 hj2
    obtain ⟨x, hx, hkeep⟩ := hSsrc e he
    obtain ⟨-, hstart, hx2, hx0⟩ := keepOf_some hkeep
    have hhead : (pid, cps) ∈ rest := by rw [hrest]; simp
    have hout : out.st.maxCp + 1 = s.final.length + min index (cps.length - 1) := by
      unfold St.maxCp; rw [hf]; simp; omega
    by_cases hj : j = s.maxCp
    · subst hj
      refine ⟨s.final.getLast?.getD 0, ?_, hstart, hx0⟩
      rw [hf, List.getElem?_append_left (by omega)]
      exact hlast
    · obtain ⟨hk, hkeq⟩ := hagree x hx (pid, cps) hhead (j - s.maxCp) (by omega) (by omega)
      refine ⟨x.2[j - s.maxCp], ?_, by omega, ?_⟩
      · rw [hf, List.getElem?_append_right (by omega), List.getElem?_take_of_lt (by omega),
          List.getElem?_drop, ← List.getElem?_eq_getElem hk, hkeq]
        congr 1; omega
      · rw [← List.getElem?_eq_getElem hk, hx2, List.getElem?_drop]
        congr 1; omega

/-- **C07 (a peer contradicting a final value is banned).**  If enough proven peers are present
for `finalize` to run, every proven peer whose vector starts after the final index, or reports a
different value for the final index, is in the ban output; and nobody else is. -/
theorem contradiction_banned (s : St) (choices : List Nat) (out : FinOut)
    (hne : s.final ≠ [])
    (h : finalize s choices = .ok out)
    (henough : quorumSize s ≤ (provenPeers s).length) :
    ∀ pid, pid ∈ out.banned ↔
      ∃ e ∈ provenPeers s, e.1 = pid ∧
        (s.maxCp < e.2.start ∨
          (s.maxCp - e.2.start < e.2.cps.length ∧
            e.2.cps[s.maxCp - e.2.start]? ≠ s.final.getLast?)) := by
  intro pid
  obtain ⟨-, h⟩ := finalize_ok h
  have hlast : s.final.getLast? = some (s.final.getLast?.getD 0) := by
    cases hl : s.final.getLast? with
    | none => simp at hl; exact absurd hl hne
    | some v => rfl
  rcases h with ⟨hlt, -, -⟩ | ⟨-, hb, -⟩
  · exact absurd henough (Nat.not_le_of_lt hlt)
  · rw [hb, bannedOf, hlast]
    simp only [List.mem_map, List.mem_filter, decide_eq_true_eq, clean_skipBan]
    constructor
    · rintro ⟨e, ⟨he, hc⟩, rfl⟩
      exact ⟨e, he, rfl, hc⟩
    · rintro ⟨e, he, rfl, hc⟩
      exact ⟨e, ⟨he, hc⟩, rfl⟩

/-! ## fewer deviating peers than the quorum are harmless -/

/-- the vectors that survive the cleaning step, rebased to start at the final index -/
def keptVectors (s : St) : List (Nat × List Nat) :=
  (provenPeers s).filterMap (fun e =>
    match clean s.maxCp (s.final.getLast?.getD 0) e.2 with
    | .keep cps _ => some (e.1, cps)
    | _ => none)

/-- **C07 (minority harmless).**  Let `A` be at least a quorum of the surviving vectors that
agree with each other on their first `L ≥ 2` positions (position 0 is the current final check
point), and let all other surviving vectors together number fewer than the quorum — whatever
they report, of whatever length.  Then `finalize` advances the final index by at least `L - 1`
and the new final values are exactly `A`'s: the others can neither finalize a different value nor
block the agreement. -/
theorem minority_harmless (s : St) (choices : List Nat) (out : FinOut)
    (A : List (Nat × List Nat)) (L : Nat) (ref : List Nat)
    (hq : 1 ≤ quorumSize s)
    (hA : A.Sublist (keptVectors s)) (hAq : quorumSize s ≤ A.length)
    (hothers : (keptVectors s).length - A.length < quorumSize s)
    (hL : 2 ≤ L) (href : ref.length = L)
    (hagree : ∀ a ∈ A, a.2.take L = ref)
    (h : finalize s choices = .ok out) :
    s.final ++ (ref.drop 1) <+: out.st.final := by
  have _ := hq  -- implied by `h`
  have hkv : keptVectors s = kept s := rfl
  have hqs : quorumSize s = req s := rfl
  rw [hkv] at hA hothers
  rw [hqs] at hAq hothers
  have hAlen := hA.length_le
  have hkp : (kept s).length ≤ (proven s).length := List.length_filterMap_le _ _
  obtain ⟨hreq, h⟩ := finalize_ok h
  rcases h with ⟨hlt, -, -⟩ | ⟨-, -, ⟨hlt, -⟩ | ⟨hge, rest, acc, hag, hres⟩⟩
  · omega
  · omega
  · have hlm : L ≤ lengthMax s := by
      unfold lengthMax
      refine nthLength_ge hreq hA hothers hge ?_
      intro a ha
      have := congrArg List.length (hagree a ha)
      rw [List.length_take, href] at this
      omega
    have hinit : Inv2 (req s) A L ref 1 (kept s) none :=
      ⟨hge, fun d _ k hk1 hk2 _ => by omega, fun _ => ⟨hA, hothers⟩, fun _ => rfl,
        fun i cp hc => by cases hc⟩
    obtain ⟨i, cp, hacc, hi, hne, hcols⟩ :=
      agree_inv2 hreq hAq hL href hagree _ _ _ _ _ _ _ hinit (by omega) hag
    rcases hres with ⟨hnone, -⟩ | ⟨index, cp', pid, cps, tl, hacc', hrest, hf⟩
    · rw [hacc] at hnone; cases hnone
    · rw [hacc] at hacc'
      simp only [Option.some.injEq, Prod.mk.injEq] at hacc'
      obtain ⟨rfl, rfl⟩ := hacc'
      rw [hf, List.prefix_append_right_inj]
      refine prefix_of_agree href hi ?_
      intro k hk1 hk2
      exact hcols (pid, cps) (by rw [hrest]; simp) k hk1 hk2

/-! ## `add_check_points` accepts only aligned, contiguous, anchored batches -/

/-- **C07 (check point batches).**  An accepted batch starts at a multiple of the interval, at
exactly the number of the peer's last check point, repeats that check point as its first
element and has at least two elements; the peer's vector is only ever extended (never emptied,
never rewritten), by elements of the batch in order. -/
theorem add_checked (interval : Nat) (p p' : PeerCp) (lastProved startNumber : Nat)
    (cps : List Nat) (next : Option Nat)
    (h : addCheckPoints interval p lastProved startNumber cps = .ok (p', next)) :
    startNumber % interval = 0 ∧ startNumber = lastNumber interval p ∧
    p.cps.getLast? = cps.head? ∧ 2 ≤ cps.length ∧
    p'.start = p.start ∧ p'.proved = p.proved ∧
    ∃ k, k ≤ cps.length - 1 ∧ p'.cps = p.cps ++ (cps.drop 1).take k := by
  unfold addCheckPoints at h
  cases cps with
  | nil => simp at h
  | cons first tl =>
    simp only at h
    split at h
    · cases h
    split at h
    · cases h
    split at h
    · cases h
    split at h
    · cases h
    rename_i h1 h2 h3 h4
    simp only [Except.ok.injEq, Prod.mk.injEq] at h
    obtain ⟨hp, -⟩ := h
    simp only [ne_eq, Decidable.not_not] at h1 h2 h3
    refine ⟨h1, h2, by simpa using h3, by omega, ?_⟩
    subst hp
    split
    · refine ⟨rfl, rfl, tl.length, by simp, by simp⟩
    · split
      · refine ⟨rfl, rfl, tl.length - 1, by simp, by simp⟩
      · refine ⟨rfl, rfl, 0, by simp, by simp⟩

/-! ## non-vacuity -/

/-- three proven peers, quorum 2 (`max_outbound = 3`): two agree on `7, 8`, one deviates at the
first new index and is out-voted; the final index advances by 2 -/
example :
    (finalize ⟨3, 8, [5], [(1, ⟨true, 0, [5, 7, 8]⟩), (2, ⟨true, 0, [5, 9, 9, 9]⟩),
                          (3, ⟨true, 0, [5, 7, 8, 6]⟩)]⟩ []).map (·.st.final)
      = .ok [5, 7, 8] := by rfl

/-- a peer contradicting the final check point is banned and does not count -/
example :
    (finalize ⟨2, 8, [5], [(1, ⟨true, 0, [4, 7]⟩), (2, ⟨true, 0, [5, 7]⟩)]⟩ []).map
      (fun o => (o.st.final, o.banned)) = .ok ([5, 7], [1]) := by rfl

/-- below the quorum nothing is finalized -/
example :
    (finalize ⟨4, 8, [5], [(1, ⟨true, 0, [5, 7]⟩), (2, ⟨false, 0, [5, 7]⟩)]⟩ []).map (·.st.final)
      = .ok [5] := by rfl

end C07

import LcModel.Prove.LemmasC01
import LcModel.Mmr.Witness
/-!
# C01 — the trusted chain state changes only on a fully verified last-state proof

Subject: `Prove.onProof` (model of `SendLastStateProofProcess::execute`), `Prove.checkMatched`
(`check_if_response_is_matched`), tied to the code by `./check C01`.  `powValid`, the chain-root
commitment and the MMR verdict are inputs of the model (`VH.pow`, `VH.root`, `ProofMsg.mmrOk`;
assumption `MmrSound`, DESIGN.md section 3).
-/
namespace C01
open Prove Difficulty

/-- **C01 (shape of an accepted response).**  If `check_if_response_is_matched` accepts with
counts `(r, sc, ln)`, then: the headers are strictly increasing in number and split into
`r` reorg + `sc` sampled + `ln` last-N headers; the reorg section lies below the requested start,
ends at `start - 1` and has `lastN` entries or begins at block 1; the last-N section is not empty
when there are blocks since the start block (`start < last`), and a non-empty last-N section ends
at the parent of the last header; without samples it begins at the requested start, or — more
than `lastN` blocks are missing and the server found every requested difficulty inside the last-N
section — it has at least `lastN` entries, no block before it reaches the difficulty boundary
(the parent total difficulty of its first header lies below the boundary), the first requested
difficulty (hence, the difficulties being increasing, every one: see `samples_sound_no_sampled`)
lies above the parent total difficulty of its first header, and when it has more than `lastN`
entries its first header reaches the boundary: such a section is either exactly `lastN` long, or
longer and then it begins exactly at the first block that reaches the boundary (the honest answer
when more than `lastN` blocks follow that block; `check_if_response_is_matched` insisted on
exactly `lastN` entries before its repair and answered 400, see
`C05.answer_without_samples_long_section_accepted_shape`); with samples no block before it
reaches the difficulty boundary.

The non-emptiness conjunct is the repair of `check_if_response_is_matched` (witness
`witness_last_n_must_not_be_empty`): the pinned tree accepted a response made of a reorg section
only.  The request builder never sends a request with `start ≥ last`, so for the client's own
requests the last-N section of an accepted response is never empty; the case `start = last`,
where the empty section is still accepted (second non-vacuity example below), exists only in the
repository's unit tests. -/
theorem shape_sound (lastN : Nat) (c : ReqContent) (headers : List VH) (last : VH) (r sc ln : Nat)
    (h : checkMatched lastN c headers last = .ok (.ok (r, sc, ln))) :
    headers.length = r + sc + ln ∧
    StrictlyIncreasing (headers.map (·.number)) ∧
    (∀ x ∈ headers.take r, x.number < c.startNumber) ∧
    (r ≠ 0 → (r = lastN ∨ (headers.head?.map (·.number)) = some 1) ∧
             (headers[r - 1]?.map (·.number)) = some (c.startNumber - 1)) ∧
    (c.startNumber < last.number → 0 < ln) ∧
    (0 < ln → (headers.getLast?.map (fun l => l.number + 1)) = some last.number) ∧
    (sc = 0 → 0 < ln → (headers[r]?.map (·.number)) = some c.startNumber ∨
      (lastN < last.number - c.startNumber ∧ lastN ≤ ln ∧
        ∃ f, headers[r]? = some f ∧ f.ptd < c.boundary ∧ (∀ d ∈ c.difficulties.head?, f.ptd < d) ∧
          (lastN < ln → ∃ ftd, f.td = .ok ftd ∧ c.boundary ≤ ftd))) ∧
    (sc ≠ 0 → ∃ f, headers[r + sc]? = some f ∧ f.ptd < c.boundary) := by
  obtain ⟨hsorted, hr, hreorg, hmid⟩ := checkMatched_inv h
  obtain ⟨hshape, hbound, htail⟩ := cmMid_inv hmid
  obtain ⟨-, -, -, hlast, hstart, -⟩ := cmTail_inv htail
  have hrle : r ≤ headers.length := by rw [hr]; exact length_takeWhile_le' ..
  have hlen := cmShape_sum hshape hrle
  refine ⟨hlen, sorted_increasing _ hsorted, ?_, hreorg, cmTail_nonempty htail, hlast, ?_, ?_⟩
  · intro x hx
    rw [hr, take_length_takeWhile] at hx
    simpa using of_mem_takeWhile _ _ _ hx
  · intro hsc hln
    rcases hstart hsc hln with h0 | ⟨f, hf, hns⟩
    · exact .inl h0
    · obtain ⟨h1, h2, h3, h4⟩ := checkNoSampled_eq_none.1 hns
      refine .inr ⟨h1, h2, f, hf, h3, h4, fun hlong => ?_⟩
      subst hsc
      obtain ⟨f', ftd, hf', hftd, hb⟩ := cmShape_long_no_sampled hshape hlong
      rw [hf] at hf'
      cases hf'
      exact ⟨ftd, hftd, hb⟩
  · intro hsc
    obtain ⟨f, hf, hlt⟩ := hbound hsc
    have : headers.length - ln = r + sc := by omega
    rw [this] at hf
    exact ⟨f, hf, hlt⟩

/-- **C01 (every sampled header is a requested sample, every requested sample is answered).**
With strictly increasing requested difficulties: each sampled header's difficulty interval
`(parent total difficulty, total difficulty]` contains a requested difficulty, and every requested
difficulty below the total difficulty of the first last-N header lies in the interval of some
sampled header or above the parent total difficulty of the first last-N header (i.e. inside the
fully checked last-N section) — no requested sample is skipped. -/
theorem samples_sound (lastN : Nat) (c : ReqContent) (headers : List VH) (last : VH) (r sc ln : Nat)
    (hsorted : StrictlyIncreasing c.difficulties) (hsc : sc ≠ 0)
    (h : checkMatched lastN c headers last = .ok (.ok (r, sc, ln))) :
    ∃ f ftd, headers[r + sc]? = some f ∧ f.td = .ok ftd ∧
      (∀ x ∈ (headers.drop r).take sc, ∃ xtd, x.td = .ok xtd ∧
          ∃ d ∈ c.difficulties, x.ptd < d ∧ d ≤ xtd) ∧
      (∀ d ∈ c.difficulties, d < ftd →
          (∃ x ∈ (headers.drop r).take sc, ∃ xtd, x.td = .ok xtd ∧ x.ptd < d ∧ d ≤ xtd) ∨
          f.ptd < d) := by
  obtain ⟨-, -, -, hmid⟩ := checkMatched_inv h
  obtain ⟨-, -, htail⟩ := cmMid_inv hmid
  obtain ⟨-, -, -, -, -, hsamp⟩ := cmTail_inv htail
  obtain ⟨f, ftd, rem, hf, hftd, hloop, hnext⟩ := hsamp hsc
  have hpw : c.difficulties.Pairwise (· < ·) := (strictlyIncreasing_iff_pairwise _).1 hsorted
  have hsub : (c.difficulties.takeWhile (· < ftd)).Sublist c.difficulties := List.takeWhile_sublist _
  have hpw' : (c.difficulties.takeWhile (· < ftd)).Pairwise (· < ·) := hpw.sublist hsub
  obtain ⟨h1, pre, hpre, h2⟩ := matchLoop_spec _ _ _ hloop hpw'
  refine ⟨f, ftd, hf, hftd, ?_, ?_⟩
  · intro x hx
    obtain ⟨xtd, hxtd, d, hd, hlt⟩ := h1 x hx
    exact ⟨xtd, hxtd, d, hsub.subset hd, hlt⟩
  · intro d hd hlt
    have hmem := mem_takeWhile_lt_of_pairwise ftd _ hpw d hd hlt
    rw [hpre] at hmem hpw'
    rcases List.mem_append.1 hmem with hd' | hd'
    · exact .inl (h2 d hd')
    · right
      have hprem := (List.pairwise_append.1 hpw').2.1
      cases rem with
      | nil => simp at hd'
      | cons next tl =>
        have hn := hnext next tl rfl
        rcases List.mem_cons.1 hd' with rfl | hd'
        · exact hn
        · exact Nat.lt_trans hn ((List.pairwise_cons.1 hprem).1 d hd')

/-- **C01 (no requested sample is skipped when no header is sampled).**  An accepted response
without sampled headers whose last-N section does not begin at the requested start (the shape the
server produces when it drops every requested difficulty, see `shape_sound`): with strictly
increasing requested difficulties, **no** requested difficulty lies at or below the parent total
difficulty of the first last-N header — every one falls inside the fully checked last-N section,
none had to be answered by a sampled header. -/
theorem samples_sound_no_sampled (lastN : Nat) (c : ReqContent) (headers : List VH) (last : VH)
    (r ln : Nat) (hsorted : StrictlyIncreasing c.difficulties) (hln : 0 < ln)
    (hstart : (headers[r]?.map (·.number)) ≠ some c.startNumber)
    (h : checkMatched lastN c headers last = .ok (.ok (r, 0, ln))) :
    ∃ f, headers[r]? = some f ∧ f.ptd < c.boundary ∧ ∀ d ∈ c.difficulties, f.ptd < d := by
  obtain ⟨-, -, -, -, -, -, hshape, -⟩ := shape_sound lastN c headers last r 0 ln h
  rcases hshape rfl hln with h0 | ⟨-, -, f, hf, hb, hd, -⟩
  · exact absurd h0 hstart
  · refine ⟨f, hf, hb, ?_⟩
    have hpw : c.difficulties.Pairwise (· < ·) := (strictlyIncreasing_iff_pairwise _).1 hsorted
    cases hc : c.difficulties with
    | nil => simp
    | cons d0 t =>
      rw [hc] at hd hpw
      have h0 : f.ptd < d0 := hd d0 (by simp)
      intro d hd'
      rcases List.mem_cons.1 hd' with rfl | hd'
      · exact h0
      · exact Nat.lt_trans h0 ((List.pairwise_cons.1 hpw).1 d hd')

/-- **C01 (only a verified proof changes the trusted state).**  If handling a
`SendLastStateProof` changes the trusted state (any peer's proved state or the stored tip), then
a proof request is outstanding for this peer and either
* the response answers it — same verifiable last header — every returned header is PoW-valid and
  commits to its parent chain root, the last header commits to its chain root, the MMR proof
  binds the headers to that root, the sections have the requested shape, both checked sections
  are parent-linked; or
* the response announces another last header with an empty proof, and the peer merely receives a
  copy of a proved state that another peer already holds (nothing new becomes trusted, the store
  is untouched).

Peer ids are unique (`hnd`; the peer list is kept ascending by id): `setPeer` rewrites every entry
with the given id, see `only_verified_needs_nodup`. -/
theorem only_verified (s : St) (p : Nat) (m : ProofMsg) (now b bG : Nat) (ds dsG : List Nat)
    (out : Out) (hnd : (s.peers.map (·.1)).Nodup) (h : onProof s p m now b ds bG dsG = .ok out)
    (hchg : Trusted out.st ≠ Trusted s) :
    ∃ pst req, getPeer s p = some pst ∧ pst.proveRequest? = some req ∧
      ((req.last.vid = m.last.vid ∧
          (∀ x ∈ m.headers, x.pow = true ∧ x.root = true) ∧ m.last.root = true ∧ m.mmrOk = true ∧
          ∃ r sc ln, checkMatched s.lastNBlocks req.content m.headers m.last = .ok (.ok (r, sc, ln)) ∧
            Linked (m.headers.take r) ∧ Linked (m.headers.drop (r + sc)) ∧
            trustedOf out.st p = some ⟨req.last, m.headers.take r,
              (trustedOf out.st p).map (·.lastHeaders) |>.getD []⟩) ∨
       (req.last.vid ≠ m.last.vid ∧ m.proofEmpty = true ∧ out.st.stored = s.stored ∧
          ∃ q ps, trustedOf s q = some ps ∧ ps.last.vid = m.last.vid ∧
            trustedOf out.st p = some ps)) := by
  cases hp : getPeer s p with
  | none =>
    unfold onProof at h
    simp only [hp, M.pure_eq_ok] at h
    subst h; exact absurd rfl hchg
  | some pst =>
    cases hr : pst.proveRequest? with
    | none =>
      unfold onProof at h
      simp only [hp, hr, M.pure_eq_ok] at h
      subst h; exact absurd rfl hchg
    | some req =>
      refine ⟨pst, req, rfl, hr, ?_⟩
      rcases onProof_inv h hp hr with h' | ⟨rq, pst', hrq, hst, _⟩ | ⟨hne, hpe, pst1, hrcv, h'⟩ |
        ⟨heq, hall, hroot, hmmr, r, sc, ln, lh, hcm, hl1, hl2, hcommit, _⟩
      · rw [h'] at hchg; exact absurd rfl hchg
      · exfalso; apply hchg; rw [hst]
        exact Trusted_setPeer hnd hp (PeerState.requestLastStateProof_proveState hrq)
      · -- another last header, empty proof
        right
        have hps1 : pst1.proveState? = pst.proveState? := PeerState.receiveLastState_proveState hrcv
        have hT1 : Trusted (setPeer s p pst1) = Trusted s := Trusted_setPeer hnd hp hps1
        have hp1 : getPeer (setPeer s p pst1) p = some pst1 := getPeer_setPeer_self pst1 hp
        have hnd1 : ((setPeer s p pst1).peers.map (·.1)).Nodup := by rw [setPeer_ids]; exact hnd
        obtain ⟨sent, hg, _⟩ := h'
        · obtain ⟨pst1', hp1', hcase⟩ := getLastStateProof_inv hg
          rw [hp1] at hp1'
          simp only [Option.some.injEq] at hp1'
          subst hp1'
          rcases hcase with hs2 | ⟨rq, pst2, hrq, hs2⟩ | ⟨ls, ps, pst2, hls, hfp, hrc, hs2⟩
          · rw [hs2, hT1] at hchg; exact absurd rfl hchg
          · exfalso; apply hchg; rw [hs2, ← hT1]
            exact Trusted_setPeer hnd1 hp1 (PeerState.requestLastStateProof_proveState hrq)
          · have hlsn : ls = ⟨m.last, now⟩ := by
              have := PeerState.receiveLastState_lastState hrcv
              rw [hls] at this; exact Option.some.inj this
            subst hlsn
            obtain ⟨e, he, hpse, hvid⟩ := findProved_some hfp
            refine ⟨hne, hpe, by rw [hs2]; rfl, ?_⟩
            have hout : trustedOf out.st p = some ps := by
              rw [hs2, trustedOf_setPeer_self pst2 hp1]
              exact PeerState.receiveLastStateProof_proveState hrc
            -- the peer holding `ps` in `s1` holds it in `s` as well
            have hq := getPeer_of_mem_nodup hnd1 he
            by_cases hep : e.1 = p
            · rw [hep, hp1] at hq
              simp only [Option.some.injEq] at hq
              refine ⟨p, ps, ?_, hvid, hout⟩
              simp only [trustedOf, hp, Option.bind_some]
              rw [← hps1, hq, hpse]
            · refine ⟨e.1, ps, ?_, hvid, hout⟩
              have hmem : e ∈ s.peers := by
                simp only [setPeer, List.mem_map] at he
                obtain ⟨a, ha, hae⟩ := he
                by_cases hap : a.1 = p
                · simp only [hap, if_true] at hae; subst hae; exact absurd rfl hep
                · simp only [hap, if_false] at hae; subst hae; exact ha
              simp only [trustedOf, getPeer_of_mem_nodup hnd hmem, Option.bind_some, hpse]
      · left
        refine ⟨heq, hall, hroot, hmmr, r, sc, ln, hcm, hl1, hl2, ?_⟩
        have hto : trustedOf out.st p = some ⟨req.last, m.headers.take r, lh⟩ := by
          rcases commitProveState_inv hcommit with ⟨hf, -⟩ | ⟨-, s0, hs0, hcase⟩
          · cases hf
          · rcases hcase with ⟨hnone, -⟩ | ⟨pst0, pst', hp0, hrc, hs1⟩
            · rw [hp] at hnone; cases hnone
            · rw [hp] at hp0
              simp only [Option.some.injEq] at hp0
              subst hp0
              have hp0' : getPeer s0 p = some pst := by rw [getPeer_congr hs0, hp]
              rw [hs1, trustedOf_setPeer_self pst' hp0']
              exact PeerState.receiveLastStateProof_proveState hrc
        rw [hto]; rfl

/-- The uniqueness of peer ids in `only_verified` is needed: with a duplicated id, `setPeer`
(here: storing the announced last state) rewrites the second entry as well, which loses that
entry's proved state although nothing was verified — the trusted view changes and peer `0` has no
proved state afterwards. -/
theorem only_verified_needs_nodup :
    let v0 : VH := ⟨0, 0, 0, 0, 0, 0, ⟨0, 0, 0⟩, 0, true, true, true⟩
    let v1 : VH := ⟨1, 1, 0, 0, 0, 0, ⟨0, 0, 0⟩, 0, true, true, true⟩
    let req : ProveRequest := ⟨v0, ⟨0, 0, 0, 0, 0, []⟩, false, false⟩
    let s : St := ⟨100, 60000, 8000, 2,
      [(0, .requestFirstLastStateProof ⟨v0, 0⟩ req 0), (0, .ready ⟨v0, 0⟩ ⟨v0, [], []⟩)],
      ⟨0, v0, []⟩, []⟩
    ∃ out, onProof s 0 ⟨v1, [], true, true⟩ 0 0 [] 0 [] = .ok out ∧
      Trusted out.st ≠ Trusted s ∧ trustedOf out.st 0 = none :=
  ⟨_, rfl, by decide, by decide⟩

/-- **C01 (a rejected response leaves the trusted state untouched).** -/
theorem reject_unchanged (s : St) (p : Nat) (m : ProofMsg) (now b bG : Nat) (ds dsG : List Nat)
    (out : Out) (c : Nat) (h : onProof s p m now b ds bG dsG = .ok out)
    (hban : out.outcome = .ban c) :
    Trusted out.st = Trusted s := by
  cases hp : getPeer s p with
  | none =>
    unfold onProof at h
    simp only [hp, M.pure_eq_ok] at h
    subst h; rfl
  | some pst =>
    cases hr : pst.proveRequest? with
    | none =>
      unfold onProof at h
      simp only [hp, hr, M.pure_eq_ok] at h
      subst h; rfl
    | some req =>
      rcases onProof_inv h hp hr with h' | ⟨_, _, _, _, ho⟩ | ⟨_, _, pst1, hrcv, h'⟩ | ⟨_, _, _, _, _, _, _, _, _, _, _, _, ho⟩
      · rw [h']
      · rw [ho] at hban; cases hban
      · obtain ⟨_, _, ho⟩ := h'
        rw [ho] at hban; cases hban
      · rw [ho] at hban; cases hban

/-- **C01 (no request, no effect).**  Without an outstanding proof request the message changes
nothing at all. -/
theorem unsolicited_noop (s : St) (p : Nat) (m : ProofMsg) (now b bG : Nat) (ds dsG : List Nat)
    (pst : PeerState) (hp : getPeer s p = some pst) (hr : pst.proveRequest? = none) :
    onProof s p m now b ds bG dsG = .ok ⟨s, .ok, []⟩ := by
  unfold onProof
  simp only [hp, hr]
  rfl

/-- Witness kept from the pinned tree (defect fixed in `check_if_response_is_matched`): three
sampled headers followed by a last-N section `[20,21]` for last header 40 — the section does not
end at block 39 — is now rejected as malformed. -/
theorem witness_last_n_must_reach_tip :
    let hd (n ptd : Nat) : VH := ⟨n, n, n, n - 1, ptd, n - 1, ⟨0, n, 1000⟩, 0x20028f5c, true, true, true⟩
    checkMatched 2 ⟨40, 0, 0, 2, 2000, [150, 450]⟩
      [hd 1 100, hd 4 400, hd 20 2000, hd 21 2100] (hd 40 4000) = .ok (.error 400) := by
  rfl

/-- Witness kept from the pinned tree (defect fixed in `check_if_response_is_matched`): a
response whose headers are **all** below the requested start number 38 — a reorg section of
exactly `lastN = 2` genuine headers `[36, 37]` ending at `start - 1`, no sampled and no last-N
header — for last header 40, i.e. with the blocks 38 and 39 since the start block missing, is now
rejected as malformed.

Behaviour of the pinned tree (not of this model): every later check was guarded by
`if last_n_count > 0 {…}`, the response passed with `.ok (.ok (2, 0, 0))`, and the prove state
was committed with a last-N window shifted down to `[36, 37]`. -/
theorem witness_last_n_must_not_be_empty :
    let hd (n ptd : Nat) : VH := ⟨n, n, n, n - 1, ptd, n - 1, ⟨0, n, 1000⟩, 0x20028f5c, true, true, true⟩
    checkMatched 2 ⟨40, 0, 38, 2, 3850, [150, 450]⟩
      [hd 36 3600, hd 37 3700] (hd 40 4000) = .ok (.error 400) := by
  rfl

/-- non-vacuity of the corner `start = last` left open by `shape_sound` (only the repository's
unit tests send such a request): start number 40 = last number 40, reorg section `[38, 39]`, no
other header — still accepted, with counts `(2, 0, 0)` -/
example :
    let hd (n ptd : Nat) : VH := ⟨n, n, n, n - 1, ptd, n - 1, ⟨0, n, 1000⟩, 0x20028f5c, true, true, true⟩
    checkMatched 2 ⟨40, 0, 40, 2, 3850, [150, 450]⟩
      [hd 38 3800, hd 39 3900] (hd 40 4000) = .ok (.ok (2, 0, 0)) := by
  rfl

/-- non-vacuity: the honest shape (samples 1 and 4, last-N `[38, 39]` with the boundary inside
block 38) is accepted with counts `(0, 2, 2)` -/
example :
    let hd (n ptd : Nat) : VH := ⟨n, n, n, n - 1, ptd, n - 1, ⟨0, n, 1000⟩, 0x20028f5c, true, true, true⟩
    checkMatched 2 ⟨40, 0, 0, 2, 3850, [150, 450]⟩
      [hd 1 100, hd 4 400, hd 38 3800, hd 39 3900] (hd 40 4000) = .ok (.ok (0, 2, 2)) := by
  rfl

/-- non-vacuity of the shape without sampled headers (`shape_sound`, `samples_sound_no_sampled`):
start 37, last header 40, last-N `[38, 39]` — three blocks are missing, more than `lastN = 2` —,
boundary and the requested difficulty inside block 38: accepted with counts `(0, 0, 2)`; a
requested difficulty that block 37 reaches already (3700) is a skipped sample: 451 -/
example :
    let hd (n ptd : Nat) : VH := ⟨n, n, n, n - 1, ptd, n - 1, ⟨0, n, 1000⟩, 0x20028f5c, true, true, true⟩
    checkMatched 2 ⟨40, 0, 37, 2, 3750, [3720]⟩
      [hd 38 3700, hd 39 3800] (hd 40 3900) = .ok (.ok (0, 0, 2)) ∧
    checkMatched 2 ⟨40, 0, 37, 2, 3750, [3700, 3720]⟩
      [hd 38 3700, hd 39 3800] (hd 40 3900) = .ok (.error 451) :=
  ⟨by rfl, by rfl⟩

/-- non-vacuity of the no-sample shape with a last-N section **longer** than `lastN`
(`shape_sound`): start 35, last header 40, boundary and the requested difficulty inside block 37,
last-N `[37, 38, 39]` — three blocks, more than `lastN = 2`, follow the parent of the block that
reaches the boundary: accepted with counts `(0, 0, 3)`; the same section without block 37 (its
first header's parent reaches the boundary) is malformed: 400 -/
example :
    let hd (n ptd : Nat) : VH := ⟨n, n, n, n - 1, ptd, n - 1, ⟨0, n, 1000⟩, 0x20028f5c, true, true, true⟩
    checkMatched 2 ⟨40, 0, 35, 2, 3650, [3620]⟩
      [hd 37 3600, hd 38 3700, hd 39 3800] (hd 40 3900) = .ok (.ok (0, 0, 3)) ∧
    checkMatched 2 ⟨40, 0, 34, 2, 3650, [3620]⟩
      [hd 38 3700, hd 39 3800] (hd 40 3900) = .ok (.error 400) :=
  ⟨by rfl, by rfl⟩

/-! ## what the MMR verdict means (`verify_mmr_proof`, `MerkleProof::verify`, `MergeHeaderDigest`)

The handler theorems above take the verdict of `verify_mmr_proof` as an input.  The `Mmr` layer
models that function together with the library code it calls (`calculate_root`,
`calculate_peak_root`, `calculate_peaks_hashes`, the bagging, `MergeHeaderDigest::merge`,
`HeaderView::digest`, the position arithmetic) over blake2b as a free term algebra, and is tied
to the code by the function-level differential `lcverif MMR` (part of `./check C01`). -/

/-- **the MMR verdict binds the headers to the chain.**  If the parent chain root of the last
header is the honest root of a chain, then every header of a list that `verify_mmr_proof` accepts
is a header of that chain: the chain has, at the header's number, a header with its hash.  For all
chains, proofs, header lists (any order, duplicates, any length), and without any assumption on
the proof items, which the peer chooses freely. -/
theorem mmr_binds_headers (hdrAt : Nat → Option Mmr.Hdr) (valid : Bool) (lastNumber : Nat)
    (root : Mmr.Digest) (proof : List Mmr.Digest) (headers : List Mmr.Hdr)
    (hroot : Mmr.Honest hdrAt root)
    (h : Mmr.verifyMmrProof valid lastNumber root proof headers = .ok true) :
    ∀ hd ∈ headers, ∃ c, hdrAt hd.number = some c ∧ c.hash = hd.hash :=
  Mmr.verifyMmrProof_sound hdrAt valid lastNumber root proof headers hroot h

/-- what `calculate_root` binds, whatever the root is: every leaf that survives the library's
sort + dedup went into the calculated root through `merge`s -/
theorem mmr_root_contains_leaves (leaves : List (Nat × Mmr.Digest)) (size : Nat)
    (proof : List Mmr.Digest) (r : Mmr.Digest)
    (h : Mmr.calculateRoot leaves size proof = .ok r) :
    ∀ l ∈ Mmr.dedupByPos (Mmr.sortByPos leaves), Mmr.Sub l.2 r :=
  Mmr.calculateRoot_sub leaves size proof r h

/-- distinct block numbers have distinct MMR positions (so the only leaves the library's dedup
can drop are headers with the NUMBER of a verified one, which `noTwins` compares by hash) -/
theorem mmr_positions_injective {i j : Nat} (hi : i + 2 < 2 ^ 64) (hj : j + 2 < 2 ^ 64)
    (h : Mmr.leafIndexToPos i = Mmr.leafIndexToPos j) : i = j :=
  Mmr.leafIndexToPos_injective hi hj h


end C01

import LcModel.Pool.Lemmas
/-!
# C18 — send_transaction admits only verifiable transactions; pool bound; relay once per peer

Subject: `Pool.sendTransaction`, `Pool.push`, `Pool.getTransaction`, `Pool.step` (model of
`send_transaction` / `verify_tx` / `resolve_tx`, `PendingTxs` and the announce logic of
`RelayProtocol`), tied to the code by `./check C18`.  The verdicts of ckb-verification and CKB-VM
are inputs (`Verdicts`), universally quantified.
-/
namespace C18
open Pool

/-! ## admission -/

/-- **C18 (admission is sound).**  `send_transaction` succeeds with cycles `c` only if the
transaction passes the structural checks, its inputs are pairwise distinct, every input and every
(expanded) cell dep resolves to a cell the client knows — in the store, or an output of a pending
transaction — the since/maturity and capacity checks pass at the current tip, and the scripts
pass consuming exactly `c` cycles. -/
theorem admit_sound (s s' : St) (hash outputs : Nat) (inputs deps : List OutPointRef)
    (v : Verdicts) (c : Nat)
    (h : sendTransaction s hash outputs inputs deps v = (s', .ok c)) :
    v.nonContextual = true ∧ inputs.Nodup ∧
    (∀ o ∈ inputs ++ deps, cellKnown s o = true) ∧
    v.timeRelative = true ∧ v.capacity = true ∧ v.script = some c ∧
    s' = push s hash c outputs := by
  unfold sendTransaction at h
  split at h
  · rename_i c' hv
    simp only [Prod.mk.injEq, Except.ok.injEq] at h
    obtain ⟨h1, h2⟩ := h
    subst h1 h2
    rw [verifyTx_eq_ok] at hv
    obtain ⟨a, b, c, d, e, f⟩ := hv
    exact ⟨a, b, c, d, e, f, rfl⟩
  · simp at h

/-- **C18 (a rejected transaction is never stored).**  Whatever the reason, a failing
`send_transaction` leaves pool, store and relay state exactly as they were. -/
theorem reject_unchanged (s s' : St) (hash outputs : Nat) (inputs deps : List OutPointRef)
    (v : Verdicts) (r : Reject)
    (h : sendTransaction s hash outputs inputs deps v = (s', .error r)) :
    s' = s := by
  unfold sendTransaction at h
  split at h
  · simp at h
  · simp only [Prod.mk.injEq] at h
    exact h.1.symm

/-- **C18 (completeness of admission).**  Conversely every transaction meeting those conditions
is admitted. -/
theorem admit_complete (s : St) (hash outputs : Nat) (inputs deps : List OutPointRef)
    (v : Verdicts) (c : Nat)
    (h1 : v.nonContextual = true) (h2 : inputs.Nodup)
    (h3 : ∀ o ∈ inputs ++ deps, cellKnown s o = true)
    (h4 : v.timeRelative = true) (h5 : v.capacity = true) (h6 : v.script = some c) :
    sendTransaction s hash outputs inputs deps v = (push s hash c outputs, .ok c) := by
  have hv : verifyTx s inputs deps v = .ok c := (verifyTx_eq_ok s inputs deps v c).2 ⟨h1, h2, h3, h4, h5, h6⟩
  simp [sendTransaction, hv]

/-! ## the pool -/

/-- pool invariant: within the limit, one entry per hash -/
def PoolInv (s : St) : Prop :=
  s.pool.length ≤ s.limit ∧ (s.pool.map (·.hash)).Nodup

/-- **C18 (pool bound).**  Starting from an empty pool, after any history of submissions,
connects, disconnects, relay ticks and commits the pool holds at most `limit` entries and at most
one entry per hash. -/
theorem pool_bound (limit : Nat) (evs : List Ev) :
    PoolInv (evs.foldl (fun s ev => (step s ev).1) ⟨limit, [], [], []⟩) := by
  have key : ∀ (evs : List Ev) (s : St), PoolInv s →
      PoolInv (evs.foldl (fun s ev => (step s ev).1) s) := by
    intro evs
    induction evs with
    | nil => intro s h; exact h
    | cons ev rest ih =>
      intro s h
      rw [List.foldl_cons]
      exact ih _ (step_poolInv s ev h)
  exact key evs _ ⟨Nat.zero_le _, List.nodup_nil⟩

/-- **C18 (oldest evicted first).**  Admitting a new hash into a full pool evicts exactly the
least recently inserted entry. -/
theorem evicts_oldest (s : St) (hash cycles outputs : Nat)
    (hfull : s.pool.length = s.limit) (hpos : 1 ≤ s.limit)
    (hnew : ∀ e ∈ s.pool, e.hash ≠ hash) :
    (push s hash cycles outputs).pool = s.pool.drop 1 ++ [⟨hash, cycles, outputs, []⟩] := by
  have hf : s.pool.filter (·.hash ≠ hash) = s.pool := by
    rw [List.filter_eq_self]
    intro e he
    simpa using hnew e he
  have hn : s.pool.find? (·.hash = hash) = none := find?_hash_eq_none.2 hnew
  have hp : pushed s hash cycles outputs = s.pool ++ [⟨hash, cycles, outputs, []⟩] := by
    unfold pushed
    rw [hf, hn]
    rfl
  rw [push_pool, hp, if_pos (by simp only [List.length_append, List.length_cons, List.length_nil]; omega)]
  exact List.drop_append_of_le_length (by omega)

/-- **C18 (pending status).**  `get_transaction` reports a hash as pending, with the recorded
cycles, iff it is in the pool and not in the store. -/
theorem pending_status (s : St) (hash c : Nat) (hinv : PoolInv s) :
    getTransaction s hash = .pending c ↔
      ((∀ t ∈ s.stored, t.1 ≠ hash) ∧ ∃ e ∈ s.pool, e.hash = hash ∧ e.cycles = c) := by
  unfold getTransaction getPending
  constructor
  · intro h
    split at h
    · simp at h
    · rename_i hst
      refine ⟨?_, ?_⟩
      · simp only [List.any_eq_true, decide_eq_true_eq, not_exists, not_and] at hst
        exact hst
      split at h
      · rename_i e he
        simp only [TxStatus.pending.injEq] at h
        have h1 := List.mem_of_find?_eq_some he
        have h2 := List.find?_some he
        simp only [decide_eq_true_eq] at h2
        exact ⟨e, h1, h2, h⟩
      · simp at h
  · rintro ⟨hst, e, he, hh, hc⟩
    have hst' : ¬ (s.stored.any (·.1 = hash) = true) := by
      simp only [List.any_eq_true, decide_eq_true_eq, not_exists, not_and]
      exact hst
    rw [if_neg hst']
    subst hh
    rw [find?_hash_of_mem hinv.2 he]
    simp only [hc]

/-! ## relay announcements -/

/-- all announcements `(hash, peer)` of a history, in order -/
def announcements : St → List Ev → List (Nat × Nat)
  | _, [] => []
  | s, ev :: rest =>
    let (s', anns) := step s ev
    (anns.flatMap (fun a => a.2.map (fun h => (h, a.1)))) ++ announcements s' rest

/-- no submission of the history evicts an entry: the pool has room for every admitted hash -/
def NoEviction : St → List Ev → Prop
  | _, [] => True
  | s, ev :: rest =>
    (match ev with
     | .submit hash _ _ _ _ => (s.pool.filter (·.hash ≠ hash)).length < s.limit
     | _ => True) ∧ NoEviction (step s ev).1 rest

/-- **C18 (each pending hash is announced to a peer at most once).**  For every history of
submissions (including re-submissions of pending transactions), connects, disconnects, ticks and
commits during which no pool entry is evicted, no pair (hash, peer) occurs twice among the
announcements.  (With evictions the statement holds per residency of the hash in the pool only:
see `witness_second_residency_reannounced`, a recorded known finding.) -/
theorem announce_once (limit : Nat) (evs : List Ev)
    (hne : NoEviction ⟨limit, [], [], []⟩ evs) :
    (announcements ⟨limit, [], [], []⟩ evs).Nodup := by
  have key : ∀ (evs : List Ev) (s : St) (log : List (Nat × Nat)),
      Consistent log s → NoEviction s evs → (log ++ announcements s evs).Nodup := by
    intro evs
    induction evs with
    | nil => intro s log hc _; simpa [announcements] using hc.nodup
    | cons ev rest ih =>
      intro s log hc hne
      have hann : announcements s (ev :: rest) =
          flat (step s ev).2 ++ announcements (step s ev).1 rest := rfl
      have hne1 : NoEvict1 s ev := by
        cases ev <;> first | exact hne.1 | trivial
      rw [hann, ← List.append_assoc]
      exact ih _ _ (step_consistent log s ev hc hne1) hne.2
  have := key evs ⟨limit, [], [], []⟩ [] ⟨List.nodup_nil, by intro hp h; simp at h, List.nodup_nil⟩ hne
  simpa using this

/-- **C18 (only pool members are announced).**  Every announced hash is in the pool at the time
of the announcement — in particular a rejected transaction is never relayed. -/
theorem announced_in_pool (s : St) (ev : Ev) (peer : Nat) (hs : List Nat)
    (h : (peer, hs) ∈ (step s ev).2) :
    ∀ x ∈ hs, ∃ e ∈ s.pool, e.hash = x := by
  intro x hx
  have := step_anns_subset s ev (peer, hs) h x hx
  simpa using this

/-- Known finding as a theorem about the model: with pool limit 1, hash 1 is announced to peer 7,
evicted by hash 2, submitted again and announced to peer 7 a second time. -/
theorem witness_second_residency_reannounced :
    let v : Verdicts := ⟨true, true, true, some 5⟩
    announcements ⟨1, [], [], []⟩
      [.submit 1 1 [] [] v, .connect 7 true, .submit 2 1 [] [] v, .submit 1 1 [] [] v, .tick]
      = [(1, 7), (1, 7)] := by
  rfl

/-- non-vacuity of `announce_once`: a history with a re-submission and two peers -/
example :
    let v : Verdicts := ⟨true, true, true, some 5⟩
    announcements ⟨4, [], [], []⟩
      [.submit 1 1 [] [] v, .connect 7 true, .submit 1 1 [] [] v, .submit 2 1 [⟨1, 0⟩] [] v,
       .connect 8 true, .tick]
      = [(1, 7), (1, 8), (2, 8), (2, 7)] := by
  rfl

end C18

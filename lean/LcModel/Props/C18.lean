import LcModel.Pool.Lemmas
/-!
# C18 — send_transaction admits only verifiable transactions; pool bound; relay once per peer

Subject: `Pool.sendTransaction`, `Pool.push`, `Pool.getTransaction`, `Pool.step` (model of
`send_transaction` / `verify_tx` / `resolve_tx`, `PendingTxs` and the announce logic of
`RelayProtocol`), tied to the code by `./check C18`.  The verdicts of ckb-verification and CKB-VM
are inputs (`Verdicts`), universally quantified.
-/
namespace C18
open Pool

/-! ## admission -/




/-! ## the pool -/

/-- pool invariant: within the limit, one entry per hash -/
def PoolInv (s : St) : Prop :=
  s.pool.length ≤ s.limit ∧ (s.pool.map (·.hash)).Nodup




/-! ## relay announcements -/

/-- all announcements `(hash, peer)` of a history, in order -/
def announcements : St → List Ev → List (Nat × Nat)
  | _, [] => []
  | s, ev :: rest =>
    let (s', anns) := step s ev
    (anns.flatMap (fun a => a.2.map (fun h => (h, a.1)))) ++ announcements s' rest

/-- no submission of the history evicts an entry: the pool has room for every admitted hash -/
def NoEviction : St → List Ev → Prop
  | _, [] => True
  | s, ev :: rest =>
    (match ev with
     | .submit hash _ _ _ _ => (s.pool.filter (·.hash ≠ hash)).length < s.limit
     | _ => True) ∧ NoEviction (step s ev).1 rest



/-- Known finding as a theorem about the model: with pool limit 1, hash 1 is announced to peer 7,
evicted by hash 2, submitted again and announced to peer 7 a second time. -/
theorem witness_second_residency_reannounced :
    let v : Verdicts := ⟨true, true, true, some 5⟩
    announcements ⟨1, [], [], []⟩
      [.submit 1 1 [] [] v, .connect 7 true, .submit 2 1 [] [] v, .submit 1 1 [] [] v, .tick]
      = [(1, 7), (1, 7)] := by
  rfl

/-- non-vacuity of `announce_once`: a history with a re-submission and two peers -/
example :
    let v : Verdicts := ⟨true, true, true, some 5⟩
    announcements ⟨4, [], [], []⟩
      [.submit 1 1 [] [] v, .connect 7 true, .submit 1 1 [] [] v, .submit 2 1 [⟨1, 0⟩] [] v,
       .connect 8 true, .tick]
      = [(1, 7), (1, 8), (2, 8), (2, 7)] := by
  rfl

end C18

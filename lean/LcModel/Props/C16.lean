import LcModel.Proofs.LemmasC16Status
import LcModel.Proofs.LemmasC16Served
import LcModel.Proofs.LemmasC16Tx
/-!
# C16 — fetch statuses and `get_transaction` (transaction, block) answers are truthful

Subject: `Proofs.step` / `Proofs.run` (model of the RPCs `fetch_header`, `fetch_transaction`,
`get_transaction`, of the FETCH and REFRESH timers, of `Peers::remove_peer`, and of the two proof
handlers as far as the fetch bookkeeping is concerned), tied to the code by `./check C16` (every
RPC call, timer tick, proof delivery and disconnect of the histories is run through both).

The status of a hash is what the RPC would answer (`hStatus`, `tStatus`).  The theorems about one
step hold from an ARBITRARY state; the invariants are proved by induction over event histories.
-/
namespace C16
open Proofs

/-! ## what the RPCs answer -/

/-- `fetch_header` answers the status of the hash -/
theorem fetch_header_answers (s : St) (h now : Nat) :
    match hStatus s h with
    | .fetched => (rpcFetchHeader s h now).2 = .fetched
    | .absent => (rpcFetchHeader s h now).2 = .added now
    | .added => ∃ ts, (rpcFetchHeader s h now).2 = .added ts
    | .fetching => ∃ f, f > 0 ∧ (rpcFetchHeader s h now).2 = .fetching f
    | .notFound => (rpcFetchHeader s h now).2 = .notFound := by
  unfold hStatus statusOf rpcFetchHeader fetchRead
  cases hh : (s.hdr h).isSome with
  | true => simp
  | false =>
    cases hf : s.fh h with
    | none => simp
    | some fi =>
      by_cases hm : fi.missing = true
      · simp [hm]
      · by_cases hs : fi.firstSent > 0
        · simp [hm, hs]
        · simp [hm, hs]

/-- **C16 (retry).**  The call that answers `not_found` re-adds the hash: it is sendable again,
and the next call answers `added`. -/
theorem not_found_is_retried (s s1 : St) (h now now' : Nat)
    (hr : rpcFetchHeader s h now = (s1, .notFound)) :
    s1.fh h = some (newAdd now) ∧ sendable s1.fh h = true ∧ hStatus s1 h = .added ∧
    (rpcFetchHeader s1 h now').2 = .added now := by
  unfold rpcFetchHeader at hr
  split at hr
  · simp at hr
  · rename_i hh
    simp only [Prod.mk.injEq] at hr
    obtain ⟨hs1, hst⟩ := hr
    unfold fetchRead at hs1 hst
    cases hf : s.fh h with
    | none => rw [hf] at hst; simp at hst
    | some fi =>
      rw [hf] at hst hs1
      simp only [] at hst hs1
      by_cases hm : fi.missing = true
      · simp only [hm, if_true] at hs1
        subst hs1
        have hh' : (s.hdr h).isSome = false := by simpa using hh
        refine ⟨by simp [upd], by simp [sendable, upd, newAdd], ?_, ?_⟩
        · simp [hStatus, statusOf, hh', upd, newAdd]
        · simp [rpcFetchHeader, hh', fetchRead, upd, newAdd]
      · have hm' : fi.missing = false := by simpa using hm
        simp only [hm'] at hst
        by_cases hfs : fi.firstSent > 0 <;> simp [hfs] at hst

theorem not_found_is_retried_tx (s s1 : St) (t now now' : Nat) (pending : Bool) (a : TxAns)
    (hr : rpcFetchTx s t now pending = .ok (s1, .notFound, a)) :
    s1.ft t = some (newAdd now) ∧ sendable s1.ft t = true ∧ tStatus s1 t = .added ∧
    ∃ s2, rpcFetchTx s1 t now' pending = .ok (s2, .added now, .unknown) := by
  rcases st_rpcFetchTx s t now pending _ hr with ⟨_, h2, _⟩ | ⟨htx, hg, h1⟩
  · simp at h2
  · simp only [Prod.mk.injEq] at h1
    obtain ⟨hs1, hst, ha⟩ := h1
    unfold fetchRead at hs1 hst
    cases hf : s.ft t with
    | none => rw [hf] at hst; simp at hst
    | some fi =>
      rw [hf] at hst hs1
      simp only [] at hst hs1
      by_cases hm : fi.missing = true
      · simp only [hm, if_true] at hs1
        have e1 : s1.ft = upd s.ft t (some (newAdd now)) := by rw [hs1]
        have e2 : s1.txr = s.txr := by rw [hs1]
        have e3 : rpcGetTx s1 t pending = .ok .unknown := by rw [hs1]; exact hg
        refine ⟨by simp [e1, upd], by simp [sendable, e1, upd, newAdd], ?_, ?_⟩
        · simp [tStatus, statusOf, e2, htx, e1, upd, newAdd]
        · refine ⟨{ s1 with ft := (fetchRead s1.ft t now').1 }, ?_⟩
          unfold rpcFetchTx
          rw [e3]
          simp [fetchRead, e1, upd, newAdd]
      · have hm' : fi.missing = false := by simpa using hm
        simp only [hm'] at hst
        by_cases hfs : fi.firstSent > 0 <;> simp [hfs] at hst

/-- a call for an unknown hash adds it; a call in any other status changes nothing -/
theorem fetch_header_effect (s : St) (h now : Nat) :
    (hStatus s h = .absent ∨ hStatus s h = .notFound →
      (rpcFetchHeader s h now).1.fh h = some (newAdd now)) ∧
    (hStatus s h ≠ .absent → hStatus s h ≠ .notFound → (rpcFetchHeader s h now).1.fh = s.fh) := by
  unfold hStatus statusOf rpcFetchHeader fetchRead
  cases hh : (s.hdr h).isSome with
  | true => simp
  | false =>
    cases hf : s.fh h with
    | none => simp [upd]
    | some fi =>
      by_cases hm : fi.missing = true
      · simp [hm, upd]
      · by_cases hs : fi.firstSent > 0
        · simp [hm, hs]
        · simp [hm, hs]

/-! ## the status automaton -/

/-- the documented automaton: `added → fetching → fetched | not_found`, `not_found → added` on the
next call; a hash can also reach `fetched` from any status when its record enters the store by
another path (the header of a fetched transaction's block, a block indexed by the filter sync) -/
inductive Edge : Status → Status → Prop
  | stay (a : Status) : Edge a a
  | add : Edge .absent .added
  | send : Edge .added .fetching
  | missing : Edge .fetching .notFound
  | retry : Edge .notFound .added
  | stored (a : Status) : Edge a .fetched

/-- the one exclusion: an accepted proof reports `k` missing although the entry of `k` was
re-added after the request went out (`first_sent = 0`): the status jumps `added → not_found` -/
def StaleH (s : St) (e : Ev) (k : Nat) : Prop :=
  ∃ p m fi, e = .blocksProof p m ∧ k ∈ m.missing ∧ s.fh k = some fi ∧ fi.firstSent = 0 ∧ fi.missing = false
def StaleT (s : St) (e : Ev) (k : Nat) : Prop :=
  ∃ p m fi, e = .txsProof p m ∧ k ∈ m.missing ∧ s.ft k = some fi ∧ fi.firstSent = 0 ∧ fi.missing = false

/-- **C16 (automaton), with the exact exclusion.**  Every event moves the status of every header
hash along an edge of the automaton, unless it is a stale "missing" report. -/
theorem status_lts_partial (cfg : Cfg) (s s' : St) (e : Ev) (o : Out)
    (h : step cfg s e = .ok (s', o)) (k : Nat) (hx : ¬ StaleH s e k) :
    Edge (hStatus s k) (hStatus s' k) := by
  have conv : ∀ {a b}, st_Edge a b → Edge a b := by
    intro a b h; cases h <;> constructor
  by_cases hb : ∃ p m, e = .blocksProof p m
  · obtain ⟨p, m, rfl⟩ := hb
    simp only [step, Except.ok.injEq, Prod.mk.injEq] at h
    obtain ⟨rfl, rfl⟩ := h
    obtain ⟨_, _, _, h4⟩ := st_onBlocksProof_cases cfg s p m _ rfl
    rcases h4 with ⟨h4, _⟩ | ⟨_, req, s2, _, _, _, _, hq, e1, e2, _, _⟩
    · exact conv (st_edge_of_Qk (st_QH_W h4 k))
    · unfold hStatus
      rw [e1, e2, st_markMissing_eq]
      refine conv (st_edge_markMissing (hq.hk k) _ ?_)
      intro hc ⟨fi, hf, hfs, hmi⟩
      exact hx ⟨p, m, fi, rfl, by simpa using hc, hf, hfs, hmi⟩
  · by_cases hf : ∃ a now, e = .fetchHeader a now
    · obtain ⟨a, now, rfl⟩ := hf
      simp only [step, Except.ok.injEq, Prod.mk.injEq] at h
      obtain ⟨rfl, rfl⟩ := h
      unfold rpcFetchHeader
      split
      · exact .stay _
      · exact conv (st_edge_fetchRead (s.hdr k).isSome s.fh a now k)
    · exact conv (st_edge_of_Qk ((st_step_frame cfg s s' e o h).1
        (fun p m he => hb ⟨p, m, he⟩) (fun a b he => hf ⟨a, b, he⟩) k))

theorem status_lts_partial_tx (cfg : Cfg) (s s' : St) (e : Ev) (o : Out)
    (h : step cfg s e = .ok (s', o)) (k : Nat) (hx : ¬ StaleT s e k) :
    Edge (tStatus s k) (tStatus s' k) := by
  have conv : ∀ {a b}, st_Edge a b → Edge a b := by
    intro a b h; cases h <;> constructor
  by_cases hb : ∃ p m, e = .txsProof p m
  · obtain ⟨p, m, rfl⟩ := hb
    simp only [step, Except.ok.injEq, Prod.mk.injEq] at h
    obtain ⟨rfl, rfl⟩ := h
    obtain ⟨_, _, _, h4⟩ := st_onTxsProof_cases cfg s p m _ rfl
    rcases h4 with ⟨_, h4⟩ | ⟨_, req, s2, _, _, _, _, hq, e1, e2, _, _⟩
    · exact conv (st_edge_of_Qk (st_QT_W h4 k))
    · unfold tStatus
      rw [e1, e2, st_markMissing_eq]
      refine conv (st_edge_markMissing (hq.tk k) _ ?_)
      intro hc ⟨fi, hf, hfs, hmi⟩
      exact hx ⟨p, m, fi, rfl, by simpa using hc, hf, hfs, hmi⟩
  · by_cases hf : ∃ a now pe, e = .fetchTx a now pe
    · obtain ⟨a, now, pe, rfl⟩ := hf
      simp only [step] at h
      cases hr : rpcFetchTx s a now pe with
      | error x => rw [hr] at h; simp at h
      | ok r =>
        rw [hr] at h
        simp only [Except.ok.injEq, Prod.mk.injEq] at h
        obtain ⟨rfl, rfl⟩ := h
        rcases st_rpcFetchTx s a now pe r hr with ⟨h1, _⟩ | ⟨_, _, h1⟩
        · rw [h1]; exact .stay _
        · rw [h1]
          exact conv (st_edge_fetchRead (s.txr k).isSome s.ft a now k)
    · exact conv (st_edge_of_Qk ((st_step_frame cfg s s' e o h).2.1
        (fun p m he => hb ⟨p, m, he⟩) (fun a b c he => hf ⟨a, b, c, he⟩) k))

/-- a stale report is the only way off the automaton, and it only takes `added → not_found` -/
theorem status_lts_stale (cfg : Cfg) (s s' : St) (e : Ev) (o : Out)
    (h : step cfg s e = .ok (s', o)) (k : Nat) (hx : StaleH s e k) :
    hStatus s k = .fetched ∨ (hStatus s k = .added ∧ (hStatus s' k = .notFound ∨ hStatus s' k = .added ∨ hStatus s' k = .fetched)) := by
  obtain ⟨p, m, fi, rfl, hk, hf, hfs, hmi⟩ := hx
  simp only [step, Except.ok.injEq, Prod.mk.injEq] at h
  obtain ⟨rfl, rfl⟩ := h
  obtain ⟨_, _, _, h4⟩ := st_onBlocksProof_cases cfg s p m _ rfl
  rcases h4 with ⟨h4, _⟩ | ⟨_, req, s2, _, _, _, _, hq, e1, e2, _, _⟩
  · exact st_stale_markMissing (h4 k) false fi hf hfs hmi
  · unfold hStatus
    rw [e1, e2, st_markMissing_eq]
    exact st_stale_markMissing (hq.hk k) _ fi hf hfs hmi

/-- **the automaton is NOT satisfied for every interleaving**: between the REFRESH timer that
marks the fetches of a timed-out peer and the `disconnected` callback that removes the peer, the
hash is sent to a second peer; the second peer reports it missing, the user retries, and the late
answer of the first peer takes the fresh entry from `added` straight to `not_found`. -/
theorem status_lts_witness :
    let m : BMsg := ⟨9, true, [], [5], false, 200, true, true, true, true⟩
    let evs : List Ev := [.connect 1, .connect 2, .fetchHeader 5 100, .fetchTick 200 9 [1, 2] [5] [],
      .refreshTick 70000 [1, 2] [1], .fetchTick 70001 9 [1, 2] [5] [], .blocksProof 2 m,
      .fetchHeader 5 70002]
    ∃ s os, run pinned St.empty evs = .ok (s, os) ∧ hStatus s 5 = .added ∧
      hStatus (onBlocksProof pinned s 1 m).1 5 = .notFound := by
  intro m evs
  refine ⟨_, _, rfl, ?_, ?_⟩ <;> decide

/-- **C16 (not_found only after a report).**  A header hash becomes `not_found` only by a
`SendBlocksProof` of a peer with an outstanding request for the requested last state whose
headers and missing hashes are exactly the requested ones, which lists the hash as missing and
is accepted (if it carries headers: PoW, extra hash and MMR verdicts are true). -/
theorem not_found_needs_report (cfg : Cfg) (s s' : St) (e : Ev) (o : Out)
    (h : step cfg s e = .ok (s', o)) (k : Nat)
    (h0 : hStatus s k ≠ .notFound) (h1 : hStatus s' k = .notFound) :
    ∃ p m req, e = .blocksProof p m ∧ o = .code OK ∧ slotB s p = some req ∧
      m.lastHash = req.lastHash ∧
      checkHashes req.hashes (m.headers.map (·.hash)) m.missing = true ∧ k ∈ m.missing ∧
      (m.headers ≠ [] → AcceptedB req m) := by
  by_cases hb : ∃ p m, e = .blocksProof p m
  · obtain ⟨p, m, rfl⟩ := hb
    simp only [step, Except.ok.injEq, Prod.mk.injEq] at h
    obtain ⟨rfl, rfl⟩ := h
    obtain ⟨_, _, _, h4⟩ := st_onBlocksProof_cases cfg s p m _ rfl
    rcases h4 with ⟨h4, _⟩ | ⟨hc, req, s2, hs, hl, hch, hacc, hq, e1, e2, _, _⟩
    · exact absurd (st_nf_of_Qk (st_QH_W h4 k) h1) h0
    · unfold hStatus at h1
      rw [e1, e2, st_markMissing_eq] at h1
      have hc' := st_nf_markMissing (hq.hk k) _ h1 h0
      exact ⟨p, m, req, rfl, by rw [hc], hs, hl, hch, by simpa using hc', hacc⟩
  · by_cases hf : ∃ a now, e = .fetchHeader a now
    · obtain ⟨a, now, rfl⟩ := hf
      simp only [step, Except.ok.injEq, Prod.mk.injEq] at h
      obtain ⟨rfl, rfl⟩ := h
      unfold rpcFetchHeader at h1
      split at h1
      · exact absurd h1 h0
      · exact absurd (st_nf_fetchRead (s.hdr k).isSome s.fh a now k h1) h0
    · exact absurd (st_nf_of_Qk ((st_step_frame cfg s s' e o h).1
        (fun p m he => hb ⟨p, m, he⟩) (fun a b he => hf ⟨a, b, he⟩) k) h1) h0

theorem not_found_needs_report_tx (cfg : Cfg) (s s' : St) (e : Ev) (o : Out)
    (h : step cfg s e = .ok (s', o)) (k : Nat)
    (h0 : tStatus s k ≠ .notFound) (h1 : tStatus s' k = .notFound) :
    ∃ p m req, e = .txsProof p m ∧ o = .code OK ∧ slotT s p = some req ∧
      m.lastHash = req.lastHash ∧
      checkHashes req.hashes (m.blocks.flatMap (·.txs)) m.missing = true ∧ k ∈ m.missing ∧
      (m.blocks ≠ [] → AcceptedT req m) := by
  by_cases hb : ∃ p m, e = .txsProof p m
  · obtain ⟨p, m, rfl⟩ := hb
    simp only [step, Except.ok.injEq, Prod.mk.injEq] at h
    obtain ⟨rfl, rfl⟩ := h
    obtain ⟨_, _, _, h4⟩ := st_onTxsProof_cases cfg s p m _ rfl
    rcases h4 with ⟨_, h4⟩ | ⟨hc, req, s2, hs, hl, hch, hacc, hq, e1, e2, _, _⟩
    · exact absurd (st_nf_of_Qk (st_QT_W h4 k) h1) h0
    · unfold tStatus at h1
      rw [e1, e2, st_markMissing_eq] at h1
      have hc' := st_nf_markMissing (hq.tk k) _ h1 h0
      exact ⟨p, m, req, rfl, by rw [hc], hs, hl, hch, by simpa using hc', hacc⟩
  · by_cases hf : ∃ a now pe, e = .fetchTx a now pe
    · obtain ⟨a, now, pe, rfl⟩ := hf
      simp only [step] at h
      cases hr : rpcFetchTx s a now pe with
      | error x => rw [hr] at h; simp at h
      | ok r =>
        rw [hr] at h
        simp only [Except.ok.injEq, Prod.mk.injEq] at h
        obtain ⟨rfl, rfl⟩ := h
        rcases st_rpcFetchTx s a now pe r hr with ⟨e1, _⟩ | ⟨_, _, e1⟩
        · rw [e1] at h1; exact absurd h1 h0
        · rw [e1] at h1
          exact absurd (st_nf_fetchRead (s.txr k).isSome s.ft a now k h1) h0
    · exact absurd (st_nf_of_Qk ((st_step_frame cfg s s' e o h).2.1
        (fun p m he => hb ⟨p, m, he⟩) (fun a b c he => hf ⟨a, b, c, he⟩) k) h1) h0

/-- along a history: a hash that is `not_found` at the end was reported missing on the way -/
theorem not_found_history (cfg : Cfg) (s s' : St) (evs : List Ev) (os : List Out)
    (h : run cfg s evs = .ok (s', os)) (k : Nat)
    (h0 : hStatus s k ≠ .notFound) (h1 : hStatus s' k = .notFound) :
    ∃ p m, Ev.blocksProof p m ∈ evs ∧ k ∈ m.missing := by
  induction evs generalizing s os with
  | nil =>
    simp only [run, Except.ok.injEq, Prod.mk.injEq] at h
    obtain ⟨rfl, _⟩ := h
    exact absurd h1 h0
  | cons e es ih =>
    simp only [run] at h
    cases hs : step cfg s e with
    | error x => rw [hs] at h; simp at h
    | ok r =>
      obtain ⟨s1, o⟩ := r
      rw [hs] at h
      simp only [] at h
      cases hr : run cfg s1 es with
      | error x => rw [hr] at h; simp at h
      | ok r2 =>
        obtain ⟨s2, os2⟩ := r2
        rw [hr] at h
        simp only [Except.ok.injEq, Prod.mk.injEq] at h
        obtain ⟨rfl, _⟩ := h
        by_cases hn : hStatus s1 k = .notFound
        · obtain ⟨p, m, req, rfl, _, _, _, _, hk, _⟩ :=
            not_found_needs_report cfg s s1 e o hs k h0 hn
          exact ⟨p, m, List.mem_cons_self, hk⟩
        · obtain ⟨p, m, hm, hk⟩ := ih s1 os2 hr hn
          exact ⟨p, m, List.mem_cons_of_mem _ hm, hk⟩

/-- **the reporting peer is a proven peer**: a fetch request (not `should_get_blocks`) is put
into a slot only by the FETCH timer, only for a peer of `get_best_proved_peers(tip)`, for the
stored tip as last state, and only with hashes that are sendable -/
theorem fetch_request_only_to_best (cfg : Cfg) (s s' : St) (e : Ev) (o : Out)
    (h : step cfg s e = .ok (s', o)) (p : Nat) (r : BReq)
    (h1 : s'.breq p = some r) (h0 : s.breq p ≠ some r) :
    (∃ now tip best ch ct, e = .fetchTick now tip best ch ct ∧ p ∈ best ∧ s.conn p = true ∧
        s.breq p = none ∧ r.getBlocks = false ∧ r.lastHash = tip ∧ r.whenSent = now ∧
        ∀ k ∈ r.hashes, sendable s.fh k = true ∧ k ∈ ch) ∨
    (∃ tip now hs, e = .envProveReq p tip now hs ∧ r.getBlocks = true ∧ s.breq p = none) := by
  by_cases hb : ∃ a b c d f, e = .fetchTick a b c d f
  · obtain ⟨now, tip, best, ch, ct, rfl⟩ := hb
    left
    simp only [step, Except.ok.injEq, Prod.mk.injEq] at h
    obtain ⟨rfl, rfl⟩ := h
    unfold fetchTick at h1
    simp only [] at h1
    obtain ⟨a1, a2, a3, a4, a5, a6, a7⟩ :=
      st_sendH now tip best (chunk cfg.blocksLimit (toFetch s.fh ch)) s
    generalize (sendH now tip best s (chunk cfg.blocksLimit (toFetch s.fh ch))).1 = s1 at *
    obtain ⟨b1, b2, b3, b4, b5, b6, b7⟩ :=
      st_sendT now tip best (chunk cfg.txsLimit (toFetch s1.ft ct)) s1
    rw [b2] at h1
    rcases a7 p with h | ⟨hp, hc, hn, c, hcm, hbr⟩
    · rw [h] at h1; exact absurd h1 h0
    · rw [hbr] at h1
      simp only [Option.some.injEq] at h1
      subst h1
      refine ⟨now, tip, best, ch, ct, rfl, hp, hc, hn, rfl, rfl, rfl, fun k hk => ?_⟩
      exact st_toFetch_mem _ _ _ (st_chunk_mem _ _ _ hcm k hk)
  · by_cases he : ∃ a b c d, e = .envProveReq a b c d
    · obtain ⟨p', tip, now, hs, rfl⟩ := he
      simp only [step] at h
      split at h
      · rename_i hc
        simp only [Except.ok.injEq, Prod.mk.injEq] at h
        obtain ⟨rfl, rfl⟩ := h
        by_cases hp : p = p'
        · subst hp
          simp [upd] at h1
          subst h1
          simp at hc
          exact Or.inr ⟨tip, now, hs, rfl, rfl, hc.2⟩
        · simp [upd, hp] at h1
          exact absurd h1 h0
      · simp only [Except.ok.injEq, Prod.mk.injEq] at h
        obtain ⟨rfl, rfl⟩ := h
        exact absurd h1 h0
    · rcases (st_step_frame cfg s s' e o h).2.2.1
        (fun a b c d f he' => hb ⟨a, b, c, d, f, he'⟩) (fun a b c d he' => he ⟨a, b, c, d, he'⟩) p
        with h2 | h2
      · rw [h2] at h1; exact absurd h1 h0
      · rw [h2] at h1; simp at h1

theorem fetch_request_only_to_best_tx (cfg : Cfg) (s s' : St) (e : Ev) (o : Out)
    (h : step cfg s e = .ok (s', o)) (p : Nat) (r : TReq)
    (h1 : s'.treq p = some r) (h0 : s.treq p ≠ some r) :
    ∃ now tip best ch ct, e = .fetchTick now tip best ch ct ∧ p ∈ best ∧ s.conn p = true ∧
      s.treq p = none ∧ r.lastHash = tip ∧ r.whenSent = now ∧ ∀ k ∈ r.hashes, k ∈ ct := by
  by_cases hb : ∃ a b c d f, e = .fetchTick a b c d f
  · obtain ⟨now, tip, best, ch, ct, rfl⟩ := hb
    simp only [step, Except.ok.injEq, Prod.mk.injEq] at h
    obtain ⟨rfl, rfl⟩ := h
    unfold fetchTick at h1
    simp only [] at h1
    obtain ⟨a1, a2, a3, a4, a5, a6, a7⟩ :=
      st_sendH now tip best (chunk cfg.blocksLimit (toFetch s.fh ch)) s
    generalize (sendH now tip best s (chunk cfg.blocksLimit (toFetch s.fh ch))).1 = s1 at *
    obtain ⟨b1, b2, b3, b4, b5, b6, b7⟩ :=
      st_sendT now tip best (chunk cfg.txsLimit (toFetch s1.ft ct)) s1
    rcases b7 p with h | ⟨hp, hc, hn, c, hcm, hbr⟩
    · rw [h, a2] at h1; exact absurd h1 h0
    · rw [hbr] at h1
      simp only [Option.some.injEq] at h1
      subst h1
      rw [a1] at hc
      rw [a2] at hn
      refine ⟨now, tip, best, ch, ct, rfl, hp, hc, hn, rfl, rfl, fun k hk => ?_⟩
      exact (st_toFetch_mem _ _ _ (st_chunk_mem _ _ _ hcm k hk)).2
  · rcases (st_step_frame cfg s s' e o h).2.2.2
      (fun a b c d f he' => hb ⟨a, b, c, d, f, he'⟩) p with h2 | h2
    · rw [h2] at h1; exact absurd h1 h0
    · rw [h2] at h1; simp at h1

/-! ## a request is never lost -/

/-- **C16 (never lost), for the exact exclusion "no proof is rejected while its slot is
occupied".**  Along every history of the PINNED code in which session ids are not reused and no
answer to an outstanding request is rejected, every fetch stays accounted for. -/
theorem never_lost_partial (cfg : Cfg) (s s' : St) (evs : List Ev) (os : List Out)
    (hs : Served s) (ha : Along cfg (fun s e => FreshConnect s e ∧ NoReject cfg s e) s evs)
    (h : run cfg s evs = .ok (s', os)) : Served s' :=
  sv_run _ (fun _ _ hp => ⟨hp.1, .inl hp.2⟩) evs s s' os hs ha h

/-- **C16 (never lost), repaired variant**: with `markOnReject` no exclusion is left (session ids
are not reused; `process_last_state` never answers `RequireRecheck`). -/
theorem never_lost_repaired (cfg : Cfg) (hc : cfg.markOnReject = true) (s s' : St) (evs : List Ev)
    (os : List Out) (hs : Served s)
    (ha : Along cfg (fun s e => FreshConnect s e ∧ LsCodeWf e) s evs)
    (h : run cfg s evs = .ok (s', os)) : Served s' :=
  sv_run _ (fun _ _ hp => ⟨hp.1, .inr ⟨hc, hp.2⟩⟩) evs s s' os hs ha h

theorem served_empty : Served St.empty := by
  constructor <;> intro k fi hk <;> simp [St.empty] at hk

/-- **never lost is NOT satisfied by the pinned code**: the proof handler clears the request slot
of a rejected answer without marking its fetches; after the ban and the disconnect the fetch of
hash 5 is in flight (`first_sent > 0`, no time-out, not missing) with no peer left: it is never
sent again and `fetch_header` answers `fetching` forever. -/
theorem lost_witness :
    let bad : BMsg := ⟨9, false, [⟨6, 60, none⟩], [], false, 200, true, true, true, true⟩
    let evs : List Ev := [.connect 1, .fetchHeader 5 100, .fetchTick 200 9 [1] [5] [],
      .blocksProof 1 bad, .disconnect 1]
    ∃ s os, run pinned St.empty evs = .ok (s, os) ∧
      s.fh 5 = some ⟨100, 200, false, false⟩ ∧ sendable s.fh 5 = false ∧ (∀ p, slotB s p = none) ∧
      ¬ Served s := by
  intro bad evs
  have hslot : ∀ p, slotB (disconnect (onBlocksProof pinned (fetchTick pinned
      (rpcFetchHeader (connect St.empty 1) 5 100).1 200 9 [1] [5] []).1 1 bad).1 1) p = none := by
    intro p
    rw [sv_disconnect_slotB]
    split
    · rfl
    · rename_i hp
      have hc : (onBlocksProof pinned (fetchTick pinned
          (rpcFetchHeader (connect St.empty 1) 5 100).1 200 9 [1] [5] []).1 1 bad).1.conn p
          = (if p = 1 then true else false) := rfl
      unfold slotB
      rw [hc]
      simp [hp]
  refine ⟨_, _, rfl, ?_, ?_, hslot, ?_⟩
  · decide
  · decide
  · intro h
    rcases h.1 5 ⟨100, 200, false, false⟩ (by decide) with h1 | h1 | h1 | ⟨q, r, h1, _⟩
    · cases h1
    · cases h1
    · cases h1
    · rw [hslot q] at h1; cases h1

/-- the same history in the repaired variant: the fetch is sendable again -/
theorem lost_witness_repaired :
    let bad : BMsg := ⟨9, false, [⟨6, 60, none⟩], [], false, 200, true, true, true, true⟩
    let evs : List Ev := [.connect 1, .fetchHeader 5 100, .fetchTick 200 9 [1] [5] [],
      .blocksProof 1 bad, .disconnect 1]
    ∃ s os, run repaired St.empty evs = .ok (s, os) ∧ sendable s.fh 5 = true := by
  intro bad evs
  refine ⟨_, _, rfl, ?_⟩
  decide

/-- **C16 (time-out / disconnect).**  When the serving peer is removed, every fetch of its
requests that is still open is sendable again -/
theorem disconnect_makes_sendable (s : St) (p : Nat) (r : BReq) (k : Nat)
    (hs : slotB s p = some r) (hk : k ∈ r.hashes) (hf : ((disconnect s p).fh k).isSome = true) :
    sendable (disconnect s p).fh k = true ∧ ∀ q, slotB (disconnect s p) q = if q = p then none else slotB s q := by
  refine ⟨?_, fun q => sv_disconnect_slotB s p q⟩
  apply sv_sendable_to s.fh _ k _ hf
  rw [sv_disconnect_fh, sv_mk_fh, hs]
  simp only
  rw [sv_markTimeout_eq]
  simp [hk]

theorem disconnect_makes_sendable_tx (s : St) (p : Nat) (r : TReq) (k : Nat)
    (hs : slotT s p = some r) (hk : k ∈ r.hashes) (hf : ((disconnect s p).ft k).isSome = true) :
    sendable (disconnect s p).ft k = true := by
  apply sv_sendable_to s.ft _ k _ hf
  rw [sv_disconnect_ft, sv_mk_ft, hs]
  simp only
  rw [sv_markTimeout_eq]
  simp [hk]

/-- the REFRESH timer: exactly the connected peers with an over-age request or state are handed
to `disconnect`, and their open fetches are sendable again at once -/
theorem refresh_marks (cfg : Cfg) (s : St) (now : Nat) (cands stateTO : List Nat) (p : Nat) :
    (p ∈ (refreshTick cfg s now cands stateTO).2 ↔
      p ∈ cands ∧ s.conn p = true ∧ (p ∈ stateTO ∨ reqTimedOut cfg s now p = true)) ∧
    (p ∈ (refreshTick cfg s now cands stateTO).2 → ∀ r k, slotB s p = some r → k ∈ r.hashes →
      ((refreshTick cfg s now cands stateTO).1.fh k).isSome = true →
      sendable (refreshTick cfg s now cands stateTO).1.fh k = true) := by
  constructor
  · simp [refreshTick, List.mem_filter, List.mem_eraseDups]
  · intro hp r k hr hk hsome
    rw [sv_refreshTick_eq] at *
    exact sv_sendable_to s.fh _ k (sv_foldMk_marks _ s p k r hp hr hk) hsome

/-- **a sendable fetch is sent** by the next FETCH timer that finds a free best peer (one chunk) -/
theorem sendable_is_sent (cfg : Cfg) (s : St) (now tip : Nat) (best candsH candsT : List Nat)
    (k p : Nat) (hk : sendable s.fh k = true) (hc : k ∈ candsH)
    (hp : findIdleB s best = some p)
    (hl : (toFetch s.fh candsH).length ≤ max cfg.blocksLimit 1) :
    ∃ r, slotB (fetchTick cfg s now tip best candsH candsT).1 p = some r ∧ k ∈ r.hashes ∧
      r.lastHash = tip ∧ r.getBlocks = false := by
  have hkl : k ∈ toFetch s.fh candsH := by
    simp [toFetch, List.mem_filter, List.mem_eraseDups, hc, hk]
  have hne : toFetch s.fh candsH ≠ [] := by
    intro e; rw [e] at hkl; cases hkl
  have hi := sv_findIdleB hp
  unfold fetchTick
  simp only
  rw [sv_chunk_single _ _ hne hl]
  simp only [sendH, hp]
  generalize toFetch s.fh candsH = l at *
  have h2 := sv_sendT now tip best (chunk cfg.txsLimit (toFetch
    ({ s with breq := upd s.breq p (some ⟨tip, l, false, now⟩), fh := idle s.fh l now } : St).ft candsT))
    { s with breq := upd s.breq p (some ⟨tip, l, false, now⟩), fh := idle s.fh l now }
  refine ⟨⟨tip, l, false, now⟩, ?_, hkl, rfl, rfl⟩
  rw [sv_slotB_congr h2.2.1 h2.2.2.1]
  simp [slotB, upd, hi.1]

/-! ## (transaction, block) answers -/

/-- **C16 (committed answers), for the exact exclusion "one block per height, bodies committed
by their headers".**  If every header the events carry is THE block of its height (`blockAt`:
no fork ever reaches the store) and the verdicts are truthful w.r.t. `commits`, then along every
history `get_transaction` never aborts and a `committed` answer names a stored header whose
transactions root commits to the transaction. -/
theorem committed_truthful_partial (w : World) (cfg : Cfg) (s s' : St) (evs : List Ev)
    (os : List Out) (hi : TxInv w s) (ht : ∀ e ∈ evs, EvTruth w cfg e)
    (h : run cfg s evs = .ok (s', os)) : TxInv w s' := by
  exact tx_run_inv w cfg evs s s' os hi ht h

theorem txInv_empty (w : World) : TxInv w St.empty := by
  refine ⟨?_, ?_, ?_⟩ <;> intros <;> simp_all [St.empty]

theorem committed_answer_truthful (w : World) (s : St) (hi : TxInv w s) (t : Nat) (pending : Bool) :
    ∃ a, rpcGetTx s t pending = .ok a ∧
      ∀ b, a = .committed b → (s.hdr b).isSome = true ∧ w.commits b t = true := by
  exact tx_getTx_answer w s hi t pending

/-- **committed answers are NOT truthful after a fork switch** (known finding): transaction 33
is fetched in block 5 at height 50; the chain reorganises; the header of block 6 - the new block
at height 50, which does not contain 33 - is fetched; `get_transaction(33)` now answers
`committed` in block 6.  Every verdict in this history is truthful. -/
theorem committed_wrong_block_witness :
    let tm : TMsg := ⟨9, false, [⟨⟨5, 50, none⟩, [33], true⟩], [], false, 200, true, true, true, true⟩
    let bm : BMsg := ⟨10, false, [⟨6, 50, none⟩], [], false, 200, true, true, true, true⟩
    let evs : List Ev := [.connect 1, .fetchTx 33 100 false, .fetchTick 200 9 [1] [] [33],
      .txsProof 1 tm, .getTx 33 false, .reorg, .fetchHeader 6 300, .fetchTick 400 10 [1] [6] [],
      .blocksProof 1 bm, .getTx 33 false]
    ∀ cfg, cfg = pinned ∨ cfg = repaired → ∃ s os, run cfg St.empty evs = .ok (s, os) ∧
      os[4]? = some (.tx (.committed 5)) ∧ os[9]? = some (.tx (.committed 6)) := by
  intro tm bm evs cfg hc
  rcases hc with rfl | rfl
  · exact ⟨_, _, rfl, by decide, by decide⟩
  · exact ⟨_, _, rfl, by decide, by decide⟩

/-- a reorganisation leaves the transaction, number and header records of the abandoned blocks
in the store: `get_transaction` keeps answering `committed` in the abandoned block -/
theorem reorg_keeps_tx_records (cfg : Cfg) (s s' : St) (o : Out) (h : step cfg s .reorg = .ok (s', o)) :
    s'.txr = s.txr ∧ s'.num = s.num ∧ s'.hdr = s.hdr ∧ ∀ t p, rpcGetTx s' t p = rpcGetTx s t p := by
  simp only [step, Except.ok.injEq, Prod.mk.injEq] at h
  obtain ⟨h1, _⟩ := h
  subst h1
  exact ⟨rfl, rfl, rfl, fun _ _ => rfl⟩

/-! ## non-vacuity -/

/-- the whole life cycle: added, fetching, not_found (honest report), retried, fetched -/
example :
    let miss : BMsg := ⟨9, true, [], [5], false, 200, true, true, true, true⟩
    let hit : BMsg := ⟨9, false, [⟨5, 50, none⟩], [], false, 200, true, true, true, true⟩
    let evs : List Ev := [.connect 1, .fetchHeader 5 100, .fetchHeader 5 101,
      .fetchTick 200 9 [1] [5] [], .fetchHeader 5 201, .blocksProof 1 miss, .fetchHeader 5 300,
      .fetchHeader 5 301, .fetchTick 400 9 [1] [5] [], .blocksProof 1 hit, .fetchHeader 5 500]
    ∃ s, run pinned St.empty evs = .ok (s, [.none, .status (.added 100) .unknown,
      .status (.added 100) .unknown, .sent [(1, [5])] [], .status (.fetching 200) .unknown, .code 200,
      .status .notFound .unknown, .status (.added 300) .unknown, .sent [(1, [5])] [], .code 200,
      .status .fetched .unknown]) := by
  intro miss hit evs
  exact ⟨_, rfl⟩

end C16

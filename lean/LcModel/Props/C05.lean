import LcModel.Prove.LemmasC05
import LcModel.Prove.LemmasC05Sampled
/-!
# C05 — honest peers are never rejected and the client converges to the heaviest tip

Completeness theorems about the `Prove` layer (`Prove.onLastState`, `Prove.onProof`: the models of
`SendLastStateProcess::execute` / `SendLastStateProofProcess::execute`, tied to the code by the
differential harness): answers an honest server gives are accepted, the peer's proved state and the
stored tip move to the announced header.  Section 4 is the honest answer without sampled headers
(banned before 1d2c7d1, accepted now; the old rule is kept as `oldCheckMatched`), including the
answer whose last-N section is longer than `last_n_blocks` (still banned after 1d2c7d1, accepted
now: `answer_without_samples_long_section_accepted_shape`).  Section 6 is the TAU check of an
answer whose first sampled header is the genesis header (failed before c30d699: a second round
trip; checked from the next header now, `Prove.tauStartIdx`).  Section 5
keeps, as closed statements about the model, the honest exchanges the code rejects (found by the
harness, reproduced by the model).

Helper lemmas live in `LcModel/Prove/LemmasC05.lean`.
-/
namespace C05
open Prove Difficulty

/-! ## 1. the child of the proved header is accepted without a proof -/

/-- **C05 (child announcement).**  Peer `p` holds a proved state `ps` (states `Ready`,
`RequestNewLastState`, `RequestNewLastStateProof`) and its previous last state is `prev`.  It
announces a different header `h` with the verdicts of an honest header, which is the child of the
proved header `ps.last` (`isParentOf`: number + 1, epoch successor, parent hash — see
`Prove.isParentOf_eq_true`), commits to the proved header as its parent chain root
(`h.ptd` = total difficulty of `ps.last`, `h.pend` = its number) and is heavier than `prev`.
Then `SendLastState` is answered with 200, nothing is sent, the peer is `Ready` with last state `h`
and the child prove state for `h`, no other peer changes, and the store holds `h` with its total
difficulty and the child's last-N headers iff that total difficulty is greater than the stored
one. -/
theorem child_announcement_accepted (s : St) (p : Nat) (pst : PeerState) (prev : LastState)
    (ps : ProveState) (h : VH) (now b : Nat) (ds : List Nat) (prevTd : Nat)
    (hp : getPeer s p = some pst) (hps : pst.proveState? = some ps)
    (hprev : pst.lastState? = some prev) (hnew : prev.h.vid ≠ h.vid)
    (hpow : h.pow = true) (hroot : h.root = true) (hrecent : h.recent = true)
    (htd : h.tdOk = true)
    (hpar : isParentOf ps.last h = .ok true)
    (hptd : ps.last.td = .ok h.ptd) (hpend : h.pend = ps.last.number)
    (hprevTd : prev.h.td = .ok prevTd)
    (hheavier : prevTd < h.ptd + compactToDifficulty h.compact) :
    let td := h.ptd + compactToDifficulty h.compact
    let child := newChild ps h s.lastNBlocks
    ∃ out, onLastState s p h now b ds = .ok out ∧ out.outcome = .ok ∧ out.sent = [] ∧
      getPeer out.st p = some (.ready ⟨h, now⟩ child) ∧
      (∀ q, q ≠ p → getPeer out.st q = getPeer s q) ∧
      (s.stored.td < td →
        out.st.stored = ⟨td, h, child.lastHeaders.map (fun x => (x.number, x.hid))⟩) ∧
      (¬ s.stored.td < td → out.st.stored = s.stored) := by
  intro td child
  obtain ⟨pst1, -, hr⟩ := onLastState_child (now := now) (b := b) (ds := ds) hp hps hprev hnew htd
    hpow hroot hrecent hprevTd hheavier hptd hpend hpar
  refine ⟨_, hr, rfl, rfl, ?_, ?_, ?_, ?_⟩
  · have hp1 : getPeer (setPeer s p pst1) p = some pst1 := getPeer_setPeer_self pst1 hp
    by_cases hlt : s.stored.td < td
    · simp only [td] at hlt
      simp only [if_pos hlt]
      exact getPeer_setPeer_self _ ((getPeer_congr rfl p).trans hp1)
    · simp only [td] at hlt
      simp only [if_neg hlt]
      exact getPeer_setPeer_self _ hp1
  · intro q hq
    simp only []
    rw [getPeer_setPeer_ne _ _ hq]
    split
    · exact (getPeer_congr rfl q).trans (getPeer_setPeer_ne _ _ hq)
    · exact getPeer_setPeer_ne _ _ hq
  · intro hlt
    simp only [td] at hlt
    simp only [if_pos hlt]
    rfl
  · intro hlt
    simp only [td] at hlt
    simp only [if_neg hlt]
    rfl

/-- the child prove state: the new header on top, the proved header appended to the last-N
headers (the oldest one dropped when the window is full), the reorg headers kept -/
theorem child_prove_state (ps : ProveState) (h : VH) (lastN : Nat) :
    (newChild ps h lastN).last = h ∧ (newChild ps h lastN).reorgLast = ps.reorgLast ∧
    (newChild ps h lastN).lastHeaders =
      (if lastN ≤ ps.lastHeaders.length then ps.lastHeaders.drop 1 else ps.lastHeaders) ++ [ps.last] :=
  ⟨rfl, rfl, rfl⟩

/-! ## 2. an honest announcement is never banned -/

/-- **C05 (announcements).**  An announcement with the verdicts of an honest header (`pow`,
`root`, `recent`, total difficulty fits) from a connected peer is answered with 200 — in every
state of the peer and of the store.  (`Initialized` is the state of a peer that was never asked
for its last state; `onConnect` leaves it at once, see `connected_peer_is_not_initialized`, and no
transition returns to it.) -/
theorem announcement_never_banned (s : St) (p : Nat) (pst : PeerState) (h : VH) (now b : Nat)
    (ds : List Nat) (out : Out) (hp : getPeer s p = some pst) (hconn : pst ≠ .initialized)
    (hpow : h.pow = true) (hroot : h.root = true) (hrecent : h.recent = true)
    (htd : h.tdOk = true) (hr : onLastState s p h now b ds = .ok out) :
    out.outcome = .ok :=
  onLastState_honest_ok hp hconn htd hpow hroot hrecent hr

/-- … and under the invariant of C10 the handler does return: the announcement is answered, and
the answer is 200 -/
theorem announcement_answered_ok {B : Nat} (s : St) (hw : WfSt B s)
    (hB : B + s.lastNBlocks ≤ U64_MAX) (p : Nat) (pst : PeerState) (h : VH) (now b : Nat)
    (ds : List Nat) (hp : getPeer s p = some pst) (hconn : pst ≠ .initialized)
    (hpow : h.pow = true) (hroot : h.root = true) (hrecent : h.recent = true)
    (htd : h.tdOk = true) :
    ∃ out, onLastState s p h now b ds = .ok out ∧ out.outcome = .ok := by
  obtain ⟨out, hr, -⟩ := onLastState_tot hw hB p h now b ds
  exact ⟨out, hr, onLastState_honest_ok hp hconn htd hpow hroot hrecent hr⟩

/-- the statement without `pst ≠ .initialized` is false: the state machine has no transition for a
last state in `Initialized` (413 `IncorrectLastState`) -/
theorem announcement_in_initialized_is_banned (s : St) (p : Nat) (h : VH) (now b : Nat)
    (ds : List Nat) (hp : getPeer s p = some .initialized)
    (hpow : h.pow = true) (hroot : h.root = true) (hrecent : h.recent = true)
    (htd : h.tdOk = true) :
    onLastState s p h now b ds = .ok ⟨s, .ban 413, []⟩ := by
  unfold onLastState
  simp [hp, checkVerifiable_honest htd hpow hroot, hrecent, PeerState.lastState?,
    PeerState.receiveLastState]

/-- a peer is in `RequestFirstLastState` as soon as it is connected -/
theorem connected_peer_is_not_initialized (s : St) (p now : Nat) :
    getPeer (onConnect s p now).1 p = some (.requestFirstLastState now) := by
  have h0 : getPeer { s with peers := insertPeer s.peers p .initialized } p = some .initialized := by
    unfold getPeer insertPeer
    have hnone : (s.peers.filter (·.1 < p)).find? (·.1 = p) = none := by
      rw [List.find?_eq_none]
      intro e he
      have := (List.mem_filter.1 he).2
      simp only [decide_eq_true_eq] at this ⊢
      omega
    simp [List.find?_append, hnone]
  unfold onConnect
  simp only [PeerState.requestLastState]
  exact getPeer_setPeer_self _ h0

/-! ## 3. the honest answer to a request without sampling is accepted -/

/-- the honest `SendLastStateProof` answer `m` to the request `req` in the no-sampling case
(`last.number - start_number ≤ last_n_blocks`): the last header is the requested one, no reorg
headers, the headers are the blocks `start_number … last.number - 1` in order — the first one has
the start number and each is the parent of the next, the last one the parent of `m.last` — with
honest verdicts; the chain root of the last header ends at its parent, which is provable
(`≤ u64::MAX / 4`), and the MMR proof verifies.

Not needed by the model (covered by the MMR verdict in the code): `ptd` of each header = total
difficulty of its predecessor.  Not needed in this case (`sampled_count = 0`): the verdicts of
`verify_tau` / `verify_total_difficulty` and the requested difficulties. -/
structure HonestShortAnswer (s : St) (req : ProveRequest) (m : ProofMsg) : Prop where
  last : m.last = req.last
  gap : req.last.number - req.content.startNumber ≤ s.lastNBlocks
  first : m.headers.head?.map (·.number) = some req.content.startNumber
  linked : Linked (m.headers ++ [m.last])
  verdicts : ∀ x ∈ m.headers, x.tdOk = true ∧ x.pow = true ∧ x.root = true
  lastTd : m.last.tdOk = true
  lastRoot : m.last.root = true
  pend : m.last.pend + 1 = m.last.number
  provable : m.last.pend ≤ U64_MAX / 4
  mmr : m.mmrOk = true

/-- the proved state committed for such an answer: no reorg headers; the new last-N headers are
the newest `last_n_blocks - k` of the peer's previous ones followed by the `k` headers of the
answer -/
def shortGapState (s : St) (pst : PeerState) (req : ProveRequest) (m : ProofMsg) : ProveState :=
  ⟨req.last, [], keptOld s.lastNBlocks pst m.headers.length ++ m.headers⟩

section shortGap
variable {s : St} {p : Nat} {pst : PeerState} {req : ProveRequest} {m : ProofMsg}

theorem HonestShortAnswer.length_le (ha : HonestShortAnswer s req m) :
    m.headers.length ≤ s.lastNBlocks := by
  have := Linked.number_last ha.first ha.linked
  have := ha.gap
  rw [← ha.last] at this
  omega

theorem HonestShortAnswer.ne_nil (ha : HonestShortAnswer s req m) : m.headers ≠ [] := by
  intro h
  have := ha.first
  rw [h] at this
  cases this

/-- every check passes; what is left is the commit of `shortGapState` -/
theorem short_gap_reaches_commit (now b : Nat) (ds : List Nat) (bG : Nat) (dsG : List Nat)
    (hp : getPeer s p = some pst) (hreq : pst.proveRequest? = some req)
    (ha : HonestShortAnswer s req m) :
    onProof s p m now b ds bG dsG =
        proofFinish s p pst req m now b ds bG dsG 0 0 m.headers.length false ∧
      assembleLastHeaders s.lastNBlocks pst m.headers 0 0 m.headers.length =
        .ok (some (shortGapState s pst req m).lastHeaders) :=
  ⟨onProof_short_gap_eq hp hreq (by rw [ha.last]) ha.ne_nil ha.length_le ha.first ha.linked
      ha.verdicts ha.lastTd ha.lastRoot ha.pend ha.provable ha.mmr,
    assembleLastHeaders_short_gap ha.length_le⟩

/-- **C05 (proof, no sampling — commit).**  Unless `commit_prove_state` detects a long fork (the
new tip is heavier than the stored one and `forkOf` finds no remembered header on the new chain),
the honest answer is accepted with 200: the peer becomes `Ready` with the proved state for the
requested header, no other peer changes, and the store holds the requested header with its total
difficulty and the new last-N headers iff it is heavier than the stored tip. -/
theorem short_gap_proof_commits (now b : Nat) (ds : List Nat) (bG : Nat) (dsG : List Nat)
    (hp : getPeer s p = some pst) (hreq : pst.proveRequest? = some req)
    (hlf : req.longFork = false) (ha : HonestShortAnswer s req m)
    (hnl : ¬ (s.stored.td < req.last.ptd + compactToDifficulty req.last.compact ∧
      forkOf s (shortGapState s pst req m) = some none)) :
    let td := req.last.ptd + compactToDifficulty req.last.compact
    let nps := shortGapState s pst req m
    ∃ out ls, onProof s p m now b ds bG dsG = .ok out ∧ out.outcome = .ok ∧ out.sent = [] ∧
      pst.lastState? = some ls ∧ getPeer out.st p = some (.ready ls nps) ∧
      (∀ q, q ≠ p → getPeer out.st q = getPeer s q) ∧
      (s.stored.td < td →
        out.st.stored = ⟨td, req.last, nps.lastHeaders.map (fun x => (x.number, x.hid))⟩) ∧
      (¬ s.stored.td < td → out.st.stored = s.stored) := by
  intro td nps
  obtain ⟨heq, hasm⟩ := short_gap_reaches_commit now b ds bG dsG hp hreq ha
  obtain ⟨ls, hls⟩ := PeerState.lastState_of_proveRequest hreq
  have hrtd : req.last.tdOk = true := ha.last ▸ ha.lastTd
  have htd : nps.last.td = .ok td := (td_of_tdOk hrtd).1
  obtain ⟨s1, hc, h1, h2, h3, h4⟩ := commitProveState_committed (nps := nps) hp hreq hls htd hnl
  refine ⟨⟨s1, .ok, []⟩, ls, ?_, rfl, rfl, hls, h1, h2, h3, h4⟩
  rw [heq]
  exact proofFinish_committed hlf hasm (by simpa [nps, shortGapState] using hc)

/-- **C05 (proof, no sampling — long fork).**  When `commit_prove_state` detects a long fork the
answer is not banned either: nothing is adopted (store and proved state of the peer unchanged) and
the proof is requested again from genesis (201 `RequireRecheck`; 200 when no request can be
built). -/
theorem short_gap_long_fork_rechecks (now b : Nat) (ds : List Nat) (bG : Nat) (dsG : List Nat)
    (hp : getPeer s p = some pst) (hreq : pst.proveRequest? = some req)
    (hlf : req.longFork = false) (ha : HonestShortAnswer s req m)
    (hlt : s.stored.td < req.last.ptd + compactToDifficulty req.last.compact)
    (hfork : forkOf s (shortGapState s pst req m) = some none) :
    ∃ out, onProof s p m now b ds bG dsG = .ok out ∧
      (out.outcome = .ok ∨ out.outcome = .recheck) ∧ out.st.stored = s.stored ∧
      trustedOf out.st p = pst.proveState? := by
  obtain ⟨heq, hasm⟩ := short_gap_reaches_commit now b ds bG dsG hp hreq ha
  have hrtd : req.last.tdOk = true := ha.last ▸ ha.lastTd
  have hc := commitProveState_long_fork (p := p) (nps := shortGapState s pst req m)
    (td_of_tdOk hrtd).1 hlt hfork
  obtain ⟨out, hout, hcase⟩ := proofFinish_long_fork (now := now) (b := b) (ds := ds) (bG := bG)
    (dsG := dsG) hlf hasm hreq hrtd (by simpa [shortGapState] using hc)
  rw [← heq] at hout
  refine ⟨out, hout, ?_⟩
  rcases hcase with ⟨h1, h2, -⟩ | ⟨c, pst', hrq, h1, h2, -⟩
  · rw [h1]
    exact ⟨.inl h2, rfl, by simp [trustedOf, hp]⟩
  · rw [h1]
    refine ⟨.inr h2, rfl, ?_⟩
    rw [trustedOf_setPeer_self pst' hp]
    exact PeerState.requestLastStateProof_proveState hrq

/-- **C05 (proof, no sampling).**  The honest answer to an outstanding request without sampling is
never banned: `onProof` returns, with 200 (committed) or 201 (long-fork recheck). -/
theorem short_gap_proof_accepted (s : St) (p : Nat) (pst : PeerState) (req : ProveRequest)
    (m : ProofMsg) (now b : Nat) (ds : List Nat) (bG : Nat) (dsG : List Nat)
    (hp : getPeer s p = some pst) (hreq : pst.proveRequest? = some req)
    (hlf : req.longFork = false) (ha : HonestShortAnswer s req m) :
    ∃ out, onProof s p m now b ds bG dsG = .ok out ∧
      (out.outcome = .ok ∨ out.outcome = .recheck) := by
  by_cases hnl : s.stored.td < req.last.ptd + compactToDifficulty req.last.compact ∧
      forkOf s (shortGapState s pst req m) = some none
  · obtain ⟨out, h1, h2, -⟩ :=
      short_gap_long_fork_rechecks now b ds bG dsG hp hreq hlf ha hnl.1 hnl.2
    exact ⟨out, h1, h2⟩
  · obtain ⟨out, -, h1, h2, -⟩ := short_gap_proof_commits now b ds bG dsG hp hreq hlf ha hnl
    exact ⟨out, h1, .inl h2⟩

/-- the premise `req.longFork = false` is needed: the honest answer to the from-genesis request
made after a long fork ends in the documented deliberate abort (`panic!("long fork detected")`) -/
theorem long_fork_answer_aborts (now b : Nat) (ds : List Nat) (bG : Nat) (dsG : List Nat)
    (hp : getPeer s p = some pst) (hreq : pst.proveRequest? = some req)
    (hlf : req.longFork = true) (ha : HonestShortAnswer s req m) :
    onProof s p m now b ds bG dsG = .error (.deliberate 70) := by
  obtain ⟨heq, hasm⟩ := short_gap_reaches_commit now b ds bG dsG hp hreq ha
  rw [heq]
  unfold proofFinish
  simp [hasm, hlf, bind, Except.bind]

end shortGap

/-! ## non-vacuity: a test chain -/

/-- block `number` of a test chain: block difficulty 8 (compact target `0x20200000`), so the
total difficulty of block `n` is `8 * n`; one epoch of 2000 blocks; `hid` tells branches apart -/
def blk (hid number parent : Nat) : VH :=
  ⟨hid, hid, number, parent, 8 * (number - 1), number - 1, ⟨0, number, 2000⟩, 0x20200000,
    true, true, true⟩

/-- the proved state of a peer at block 10 (after 8, 9) -/
def ps10 : ProveState := ⟨blk 100 10 90, [], [blk 80 8 70, blk 90 9 80]⟩

/-- `last_n_blocks = 3`; peer 1 is `Ready` at block 10, the store holds block 10 -/
def exSt : St :=
  { initSt with lastNBlocks := 3, peers := [(1, .ready ⟨blk 100 10 90, 5⟩ ps10)],
                stored := ⟨80, blk 100 10 90, [(8, 80), (9, 90)]⟩ }

/-- `child_announcement_accepted` applies: peer 1 announces block 11; the store moves to it -/
example : ∃ out, onLastState exSt 1 (blk 110 11 100) 7 0 [] = .ok out ∧ out.outcome = .ok ∧
    getPeer out.st 1 = some (.ready ⟨blk 110 11 100, 7⟩
      ⟨blk 110 11 100, [], [blk 80 8 70, blk 90 9 80, blk 100 10 90]⟩) ∧
    out.st.stored = ⟨88, blk 110 11 100, [(8, 80), (9, 90), (10, 100)]⟩ := by
  obtain ⟨out, h1, h2, -, h3, -, h4, -⟩ := child_announcement_accepted exSt 1 _ ⟨blk 100 10 90, 5⟩
    ps10 (blk 110 11 100) 7 0 [] 80 rfl rfl rfl (by decide) rfl rfl rfl rfl rfl rfl rfl rfl
    (by decide)
  exact ⟨out, h1, h2, by rw [h3]; rfl, by rw [h4 (by decide)]; rfl⟩

/-- `announcement_never_banned` applies (here: an announcement that is not a child, block 12) -/
example : ∃ out, onLastState exSt 1 (blk 120 12 110) 7 0 [] = .ok out ∧ out.outcome = .ok :=
  ⟨_, rfl, announcement_never_banned exSt 1 _ (blk 120 12 110) 7 0 [] _ rfl (by decide) rfl rfl rfl
    rfl rfl⟩

/-- the invariant of C10 holds for the example state -/
theorem exSt_wf : WfSt 100 exSt where
  lastN := by decide
  peers := by
    intro e he
    simp only [exSt, List.mem_singleton] at he
    subst he
    exact ⟨fun ls h => (by cases h; rfl), fun r h => (by cases h),
      fun ps h => (by cases h; exact ⟨rfl, by decide, by decide⟩)⟩
  storedTd := by decide
  storedLastN := by decide

/-- `announcement_answered_ok` applies -/
example : ∃ out, onLastState exSt 1 (blk 120 12 110) 7 0 [] = .ok out ∧ out.outcome = .ok :=
  announcement_answered_ok exSt exSt_wf (by decide) 1 _ (blk 120 12 110) 7 0 [] rfl (by decide)
    rfl rfl rfl rfl

/-- `announcement_in_initialized_is_banned` applies -/
example : onLastState { exSt with peers := [(1, .initialized)] } 1 (blk 120 12 110) 7 0 [] =
    .ok ⟨{ exSt with peers := [(1, .initialized)] }, .ban 413, []⟩ :=
  announcement_in_initialized_is_banned _ 1 (blk 120 12 110) 7 0 [] rfl rfl rfl rfl rfl

/-- the request the client builds for block 13 announced by peer 1 (gap 3 = `last_n_blocks`:
no sampling; the boundary field carries the start total difficulty) -/
def req13 : ProveRequest := ⟨blk 130 13 120, ⟨130, 100, 10, 3, 80, []⟩, false, false⟩

def exSt13 : St :=
  { exSt with peers := [(1, .requestNewLastStateProof ⟨blk 130 13 120, 6⟩ ps10 req13 6)] }

/-- the honest answer: blocks 10, 11, 12 -/
def msg13 : ProofMsg := ⟨blk 130 13 120, [blk 100 10 90, blk 110 11 100, blk 120 12 110], false, true⟩

/-- `exSt13` is the state the client itself reaches: peer 1 announces block 13 (not a child of
block 10, so no fast path), the refresh timer builds `req13` -/
example : getLastStateProof
    { exSt with peers := [(1, .ready ⟨blk 130 13 120, 6⟩ ps10)] } 1 6 0 [] =
    .ok (.ok (exSt13, [.getLastStateProof 1 req13.content])) := by rfl

theorem msg13_honest : HonestShortAnswer exSt13 req13 msg13 where
  last := rfl
  gap := by decide
  first := rfl
  linked := ⟨rfl, rfl, rfl, trivial⟩
  verdicts := by decide
  lastTd := rfl
  lastRoot := rfl
  pend := rfl
  provable := by decide
  mmr := rfl

/-- `short_gap_proof_accepted` / `short_gap_proof_commits` apply: the store moves to block 13 -/
example : ∃ out, onProof exSt13 1 msg13 9 0 [] 0 [] = .ok out ∧ out.outcome = .ok ∧
    getPeer out.st 1 = some (.ready ⟨blk 130 13 120, 6⟩
      ⟨blk 130 13 120, [], [blk 100 10 90, blk 110 11 100, blk 120 12 110]⟩) ∧
    out.st.stored = ⟨104, blk 130 13 120, [(10, 100), (11, 110), (12, 120)]⟩ := by
  obtain ⟨out, ls, h1, h2, -, h3, h4, -, h5, -⟩ := short_gap_proof_commits (s := exSt13) (p := 1)
    9 0 [] 0 [] rfl rfl rfl msg13_honest (by decide)
  cases h3
  exact ⟨out, h1, h2, h4, h5 (by decide)⟩

example : ∃ out, onProof exSt13 1 msg13 9 0 [] 0 [] = .ok out ∧
    (out.outcome = .ok ∨ out.outcome = .recheck) :=
  short_gap_proof_accepted exSt13 1 _ req13 msg13 9 0 [] 0 [] rfl rfl rfl msg13_honest

/-- `long_fork_answer_aborts` applies: the same answer to the same request flagged `long_fork` -/
example : onProof
    { exSt with peers := [(1, .requestNewLastStateProof ⟨blk 130 13 120, 6⟩ ps10
      { req13 with longFork := true } 6)] } 1 msg13 9 0 [] 0 [] = .error (.deliberate 70) :=
  long_fork_answer_aborts (req := { req13 with longFork := true }) 9 0 [] 0 [] rfl rfl rfl
    ⟨msg13_honest.last, msg13_honest.gap, msg13_honest.first, msg13_honest.linked,
      msg13_honest.verdicts, msg13_honest.lastTd, msg13_honest.lastRoot, msg13_honest.pend,
      msg13_honest.provable, msg13_honest.mmr⟩

/-- the store is on another branch since block 8 (tip `101` at block 10 after `81`, `91`):
nothing of it is on the peer's chain -/
def exSt13fork : St := { exSt13 with stored := ⟨80, blk 101 10 91, [(8, 81), (9, 91)]⟩ }

/-- `short_gap_long_fork_rechecks` applies -/
example : ∃ out, onProof exSt13fork 1 msg13 9 0 [] 0 [] = .ok out ∧
    (out.outcome = .ok ∨ out.outcome = .recheck) ∧ out.st.stored = exSt13fork.stored :=
  let ⟨out, h1, h2, h3, _⟩ := short_gap_long_fork_rechecks (s := exSt13fork) (p := 1) (m := msg13)
    9 0 [] 0 [] rfl rfl rfl
    ⟨msg13_honest.last, msg13_honest.gap, msg13_honest.first, msg13_honest.linked,
      msg13_honest.verdicts, msg13_honest.lastTd, msg13_honest.lastRoot, msg13_honest.pend,
      msg13_honest.provable, msg13_honest.mmr⟩ (by decide) (by decide)
  ⟨out, h1, h2, h3⟩

/-! ## 4. the honest answer without sampled headers is accepted (repaired by 1d2c7d1) -/

/-- the server rule of the RFC for a request in the sampling branch, over a chain given by its
total difficulties `td`: `(sampled block numbers, last-N block numbers)`.  The boundary block is
the first block whose total difficulty reaches the boundary, moved down so that at least
`last_n_blocks` blocks follow; requested difficulties above the total difficulty of the block
before the boundary block are dropped; every remaining difficulty selects the first block that
reaches it. -/
def rfcAnswer (td : Nat → Nat) (start last lastN boundary : Nat) (ds : List Nat) :
    List Nat × List Nat :=
  let first := ((List.range' start (last - start)).find? (fun n => boundary ≤ td n)).getD last
  let bb := if last - first < lastN then last - lastN else first
  let ds' := ds.takeWhile (· ≤ td (bb - 1))
  let sampled := (ds'.filterMap
    (fun d => (List.range' start (bb - start)).find? (fun n => d ≤ td n))).eraseDups
  (sampled, List.range' bb (last - bb))

/-- `last_n_blocks = 1`; peer 1 has announced block 57, the store holds block 55 -/
def zsSt0 : St :=
  { initSt with lastNBlocks := 1, peers := [(1, .onlyHasLastState ⟨blk 57 57 56, 0⟩)],
                stored := ⟨440, blk 55 55 54, [(54, 54)]⟩ }

/-- gap 2 = `last_n_blocks + 1`: sampling branch; boundary 446 and one sampled difficulty 444,
both in `(440, 448]` = (total difficulty of block 55, of block 56] -/
def zsContent : ReqContent := ⟨57, 55, 55, 1, 446, [444]⟩

def zsSt : St :=
  { zsSt0 with peers := [(1, .requestFirstLastStateProof ⟨blk 57 57 56, 0⟩
      ⟨blk 57 57 56, zsContent, false, false⟩ 0)] }

/-- the state after the exchange: peer 1 is `Ready` with the proved state for block 57 (last-N
headers: block 56), the store holds block 57 -/
def zsDone : St :=
  { zsSt0 with peers := [(1, .ready ⟨blk 57 57 56, 0⟩ ⟨blk 57 57 56, [], [blk 56 56 55]⟩)],
               stored := ⟨456, blk 57 57 56, [(56, 56)]⟩ }

/-- **an honest answer without sampled headers is accepted.**  The client (store at block 55,
`last_n_blocks = 1`) asks peer 1 for the proof of block 57 with one sampled difficulty that only
block 56 reaches.  By the server rule block 56 is the boundary block and the last-N section, and
the difficulty — above the total difficulty of block 55 — is dropped: the honest answer is the
single header 56.  The handler counts no sampled header; the last-N section does not start at the
start block 55, but more than last-N blocks are missing, the section is complete, block 55 does
not reach the boundary and the requested difficulty lies inside block 56: shape `(0, 0, 1)`, the
proof is committed.  (Before 1d2c7d1 this was defect (a): 400 `MalformedProtocolMessage`, see
`old_rule_bans_zero_samples`.) -/
theorem zero_samples_answer_is_accepted :
    getLastStateProof zsSt0 1 0 446 [444] = .ok (.ok (zsSt, [.getLastStateProof 1 zsContent])) ∧
    rfcAnswer (fun n => 8 * n) 55 57 1 446 [444] = ([], [56]) ∧
    checkMatched 1 zsContent [blk 56 56 55] (blk 57 57 56) = .ok (.ok (0, 0, 1)) ∧
    onProof zsSt 1 ⟨blk 57 57 56, [blk 56 56 55], false, true⟩ 0 0 [] 0 [] =
      .ok ⟨zsDone, .ok, []⟩ :=
  ⟨by rfl, by decide, by rfl, by rfl⟩

/-- **the accepted shape without sampled headers, in general.**  In the sampling branch (more
than `last_n_blocks` blocks are missing: `lastN < last - start`; the start block itself is never
part of the answer there: `start_number <` first last-N header) an answer that consists of reorg
headers `rs` (below the start, ending at `start - 1`, `lastN` of them or beginning at block 1 —
none when the request starts from the peer's own proved state) followed by exactly `last_n_blocks`
headers — sorted, ending at the parent of the last header — passes `check_if_response_is_matched`
with the shape `(reorg, 0, lastN)`, provided that the block before the first of them does not
reach the difficulty boundary and the first requested difficulty (if any; they are increasing)
lies above that block's total difficulty, i.e. the server was right to sample nothing. -/
theorem answer_without_samples_accepted_shape (lastN : Nat) (c : ReqContent) (rs : List VH) (a : VH)
    (t : List VH) (l g : VH) (hsorted : checkMatched.sorted (rs ++ a :: t) = true)
    (hrs : ∀ x ∈ rs, x.number < c.startNumber)
    (hreorg : rs ≠ [] → (rs.length = lastN ∨ rs.head?.map (·.number) = some 1) ∧
      rs.getLast?.map (·.number) = some (c.startNumber - 1))
    (hstart : c.startNumber < a.number) (hgap : lastN < l.number - c.startNumber)
    (hlen : (a :: t).length = lastN)
    (hg : (a :: t).getLast? = some g) (hgl : g.number + 1 = l.number) (hl : l.number ≤ U64_MAX)
    (hb : a.ptd < c.boundary) (hd : ∀ d ∈ c.difficulties.head?, a.ptd < d) :
    checkMatched lastN c (rs ++ a :: t) l = .ok (.ok (rs.length, 0, lastN)) :=
  checkMatched_no_sampled hsorted hrs hreorg hstart hlen hg hgl hl
    (checkNoSampled_eq_none.2 ⟨hgap, Nat.le_refl _, hb, hd⟩)

/-- the witness of `zero_samples_answer_is_accepted` is an instance (no reorg headers) -/
example : checkMatched 1 zsContent [blk 56 56 55] (blk 57 57 56) = .ok (.ok (0, 0, 1)) :=
  answer_without_samples_accepted_shape 1 zsContent [] _ [] _ (blk 56 56 55) rfl (by simp)
    (fun h => absurd rfl h) (by decide) (by decide) rfl rfl rfl (by decide) (by decide) (by decide)

/-- the premises about the requested difficulties and the boundary are needed: the same answer to
a request whose first difficulty (440) is reached by block 55 already skips a sample — 451
`InvalidSamples` —, and with a boundary (440) that block 55 reaches it is malformed — 400 -/
example : checkMatched 1 { zsContent with difficulties := [440, 444] } [blk 56 56 55] (blk 57 57 56)
      = .ok (.error 451) ∧
    checkMatched 1 { zsContent with boundary := 440 } [blk 56 56 55] (blk 57 57 56)
      = .ok (.error 400) :=
  ⟨by rfl, by rfl⟩

/-! ### the last-N section is longer than `last_n_blocks` -/

/-- **the accepted shape without sampled headers when more than `last_n_blocks` blocks follow the
boundary block.**  In the sampling branch (`lastN < last - start`, `start_number <` first last-N
header) the server's last-N section begins at the block `a` that reaches the difficulty boundary
(its parent does not: `a.ptd < boundary ≤` total difficulty of `a`); when more than
`last_n_blocks` blocks follow `a`, the section `a :: t` — sorted, ending at the parent of the last
header — is **longer** than `last_n_blocks`, and when every requested difficulty lies inside block
`a` or later (the first one, they are increasing, lies above `a.ptd`) nothing is sampled.  Such
an answer — after reorg headers `rs` (below the start, ending at `start - 1`, `lastN` of them or
beginning at block 1, none of them reaching the boundary; none at all when the request starts from
the peer's own proved state) — passes `check_if_response_is_matched` with the shape
`(reorg, 0, |a :: t|)`.  Nothing has to be assumed about the total difficulties of the later
headers `t`: the handler counts the headers below the boundary front to back and stops at `a`.

Before the repair of `check_if_response_is_matched` that followed 1d2c7d1 the branch without
sampled headers insisted on **exactly** `last_n_blocks` last-N headers (`last_n_count !=
last_n_blocks` → 400 `MalformedProtocolMessage`): this honest answer got the peer banned, see the
closed instance `long_section_answer_is_accepted`. -/
theorem answer_without_samples_long_section_accepted_shape (lastN : Nat) (c : ReqContent)
    (rs : List VH) (a : VH) (t : List VH) (l g : VH) (atd : Nat)
    (hsorted : checkMatched.sorted (rs ++ a :: t) = true)
    (hrs : ∀ x ∈ rs, x.number < c.startNumber)
    (hreorg : rs ≠ [] → (rs.length = lastN ∨ rs.head?.map (·.number) = some 1) ∧
      rs.getLast?.map (·.number) = some (c.startNumber - 1))
    (hrtd : ∀ x ∈ rs, ∃ xtd, x.td = .ok xtd ∧ xtd < c.boundary)
    (hstart : c.startNumber < a.number) (hgap : lastN < l.number - c.startNumber)
    (hlen : lastN < (a :: t).length)
    (hg : (a :: t).getLast? = some g) (hgl : g.number + 1 = l.number) (hl : l.number ≤ U64_MAX)
    (hb : a.ptd < c.boundary) (hatd : a.td = .ok atd) (hab : c.boundary ≤ atd)
    (hd : ∀ d ∈ c.difficulties.head?, a.ptd < d) :
    checkMatched lastN c (rs ++ a :: t) l = .ok (.ok (rs.length, 0, (a :: t).length)) :=
  checkMatched_no_sampled_long hsorted hrs hreorg hrtd hatd hab hstart hlen hg hgl hl
    (checkNoSampled_eq_none.2 ⟨hgap, Nat.le_of_lt hlen, hb, hd⟩)

/-- `last_n_blocks = 2`, start block 93, last block 98; the boundary 750 and the one requested
difficulty 748 both lie in `(744, 752]` = (total difficulty of block 93, of block 94] -/
def lsContent : ReqContent := ⟨98, 93, 93, 2, 750, [748]⟩

/-- the branch `!has_all_blocks` without sampled headers as it was in the pinned tree plus
1d2c7d1, before the repair: the last-N section had to have **exactly** `last_n_blocks` entries -/
def checkNoSampled_1d2c7d1 (lastN : Nat) (c : ReqContent) (f : VH) (lastNumber lastNCount : Nat) :
    Option Nat :=
  if ¬ lastN < lastNumber - c.startNumber then some 400
  else if lastNCount ≠ lastN || c.boundary ≤ f.ptd then some 400
  else match c.difficulties with
    | d :: _ => if d ≤ f.ptd then some 451 else none
    | [] => none

/-- **an honest answer without sampled headers whose last-N section is longer than
`last_n_blocks` is accepted.**  `last_n_blocks = 2`; the client asks for the proof of block 98
from start block 93 with the boundary and the one requested difficulty inside block 94.  By the
server rule block 94 is the boundary block — four blocks, more than `last_n_blocks`, follow its
parent —, the last-N section is `[94, 98)` and the difficulty, above the total difficulty of block
93, is dropped: the honest answer is the four headers 94..97.  The handler counts no header below
the boundary, a last-N section of 4 > 2 headers and no sampled header; the section does not start
at the start block 93, but more than last-N blocks are missing, the section is complete, block 93
does not reach the boundary and the requested difficulty lies inside block 94: shape `(0, 0, 4)`.

The code of the pinned tree plus 1d2c7d1 answered 400 `MalformedProtocolMessage` here
(`last_n_count != last_n_blocks`: 4 ≠ 2 — third conjunct, on the arguments `checkMatched` passes)
and banned the honest peer. -/
theorem long_section_answer_is_accepted :
    rfcAnswer (fun n => 8 * n) 93 98 2 750 [748] = ([], [94, 95, 96, 97]) ∧
    checkMatched 2 lsContent [blk 94 94 93, blk 95 95 94, blk 96 96 95, blk 97 97 96]
      (blk 98 98 97) = .ok (.ok (0, 0, 4)) ∧
    (checkNoSampled_1d2c7d1 2 lsContent (blk 94 94 93) 98 4 = some 400 ∧
      checkNoSampled 2 lsContent (blk 94 94 93) 98 4 = none) :=
  ⟨by decide, by rfl, by decide, by decide⟩

/-- the witness of `long_section_answer_is_accepted` is an instance (no reorg headers) -/
example : checkMatched 2 lsContent [blk 94 94 93, blk 95 95 94, blk 96 96 95, blk 97 97 96]
    (blk 98 98 97) = .ok (.ok (0, 0, 4)) :=
  answer_without_samples_long_section_accepted_shape 2 lsContent [] _ _ _ (blk 97 97 96) 752 rfl
    (by simp) (fun h => absurd rfl h) (by simp) (by decide) (by decide) (by decide) rfl rfl
    (by decide) (by decide) rfl (by decide) (by decide)

/-- the premises are needed: the same answer to a request whose first difficulty (744) is reached
by block 93 already skips a sample — 451 `InvalidSamples` —; with a boundary (744) that block 93
reaches it is malformed — 400 —; and so is the section without its first header (the server left
out block 94, the first block that reaches the boundary) — 400.  With a boundary (760) that block
94 does not reach, block 94 is not a last-N header but a sampled one (it answers the requested
difficulty 748): shape `(0, 1, 3)` -/
example :
    checkMatched 2 { lsContent with difficulties := [744, 748] }
      [blk 94 94 93, blk 95 95 94, blk 96 96 95, blk 97 97 96] (blk 98 98 97) = .ok (.error 451) ∧
    checkMatched 2 { lsContent with boundary := 744 }
      [blk 94 94 93, blk 95 95 94, blk 96 96 95, blk 97 97 96] (blk 98 98 97) = .ok (.error 400) ∧
    checkMatched 2 lsContent [blk 95 95 94, blk 96 96 95, blk 97 97 96] (blk 98 98 97)
      = .ok (.error 400) ∧
    checkMatched 2 { lsContent with boundary := 760 }
      [blk 94 94 93, blk 95 95 94, blk 96 96 95, blk 97 97 96] (blk 98 98 97) = .ok (.ok (0, 1, 3)) :=
  ⟨by rfl, by rfl, by rfl, by rfl⟩

/-! ### the rule before 1d2c7d1 -/

/-- `check_if_response_is_matched` before 1d2c7d1, from the check of the end of the last-N section
on: without sampled headers the last-N section had to be **all** blocks `[start, last)` -/
def oldCmTail (c : ReqContent) (headers : List VH) (last : VH) (reorg sampled lastNCount : Nat) :
    M (Except Nat (Nat × Nat × Nat)) := do
  if 0 < lastNCount && (headers.getLast?.map (fun l => decide (l.number + 1 = last.number))) ≠ some true then
    return .error 400
  if sampled = 0 then
    if 0 < lastNCount then
      match headers[reorg]?, headers.getLast? with
      | some f, some l =>
        let l1 ← addU64 65 l.number 1
        if f.number ≠ c.startNumber || l1 ≠ last.number then return .error 400
      | _, _ => .error (.index 66)
    return .ok (reorg, sampled, lastNCount)
  else
    match headers[reorg + sampled]? with
    | none => .error (.index 67)
    | some firstLastN =>
      let firstLastNTd ← firstLastN.td
      let diffs := c.difficulties.takeWhile (· < firstLastNTd)
      match ← checkMatched.matchLoop ((headers.drop reorg).take sampled) diffs with
      | none => return .error 451
      | some remaining =>
        match remaining with
        | [] => return .ok (reorg, sampled, lastNCount)
        | next :: _ =>
          if next ≤ firstLastN.ptd then return .error 451
          else return .ok (reorg, sampled, lastNCount)

/-- the old rule after the reorg-section checks (`Prove.cmMid` with `oldCmTail`) -/
def oldCmMid (lastN : Nat) (c : ReqContent) (headers : List VH) (last : VH) (reorg : Nat) :
    M (Except Nat (Nat × Nat × Nat)) := do
  let total := headers.length
  let shape ← cmShape lastN c headers reorg
  match shape with
  | .error c => return .error c
  | .ok (sampled, lastNCount) =>
  if sampled ≠ 0 then
    match headers[total - lastNCount]? with
    | none => .error (.index 72)
    | some f => if c.boundary ≤ f.ptd then return .error 400
  oldCmTail c headers last reorg sampled lastNCount

/-- `check_if_response_is_matched` before 1d2c7d1 (the text of `Prove.checkMatched`, cut into the
blocks of `Prove.checkMatched_eq`, with `oldCmTail`) -/
def oldCheckMatched (lastN : Nat) (c : ReqContent) (headers : List VH) (last : VH) :
    M (Except Nat (Nat × Nat × Nat)) := do
  if headers.isEmpty then return .error 400
  if !checkMatched.sorted headers then return .error 400
  let reorg := (headers.takeWhile (fun h => h.number < c.startNumber)).length
  if reorg ≠ 0 then
    if reorg ≠ lastN then
      if (headers.head?.map (·.number)) ≠ some 1 then return .error 452
    match headers[reorg - 1]? with
    | none => .error (.index 63)
    | some lr =>
      if lr.number ≠ c.startNumber - 1 then return .error 452
  oldCmMid lastN c headers last reorg

/-- **defect (a) of the rule before 1d2c7d1**: on the exchange of `zero_samples_answer_is_accepted`
the old rule insists that the last-N section starts at the start block 55 ("there should be all
blocks … since no sampled blocks"): 400 `MalformedProtocolMessage`, the honest peer was banned;
the repaired rule accepts -/
theorem old_rule_bans_zero_samples :
    oldCheckMatched 1 zsContent [blk 56 56 55] (blk 57 57 56) = .ok (.error 400) ∧
    checkMatched 1 zsContent [blk 56 56 55] (blk 57 57 56) = .ok (.ok (0, 0, 1)) :=
  ⟨by rfl, by rfl⟩

/-- defect (a) in general: in the sampling branch (`start_number < ` first header: the start
block itself is never part of the answer there) the old rule rejected **every** answer without
sampled headers — at most `last_n_blocks` headers, sorted, ending at the parent of the last
header — with 400, whatever was requested -/
theorem old_rule_bans_answer_without_samples (lastN : Nat) (c : ReqContent) (a : VH) (t : List VH)
    (l g : VH) (hsorted : checkMatched.sorted (a :: t) = true)
    (hstart : c.startNumber < a.number) (hlen : (a :: t).length ≤ lastN)
    (hg : (a :: t).getLast? = some g) (hgl : g.number + 1 = l.number)
    (hl : l.number ≤ U64_MAX) :
    oldCheckMatched lastN c (a :: t) l = .ok (.error 400) := by
  have hmid : oldCmMid lastN c (a :: t) l 0 = .ok (.error 400) := by
    unfold oldCmMid cmShape
    have : ¬ (a :: t).length - 0 > lastN := by omega
    simp only [this, if_false]
    unfold oldCmTail
    have hne : a.number ≠ c.startNumber := by omega
    simp [hg, hgl, addU64, hl, hne]
    rfl
  have hnlt : ¬ a.number < c.startNumber := by omega
  unfold oldCheckMatched
  simp [hsorted, hnlt]
  exact hmid

/-! ## 5. honest exchanges the code rejects (found by the differential harness) -/

/-- the store is on branch B: tip 528 (`5281`) after 525, 526 (common with C) and 527 (`5271`) -/
def lagSt : St :=
  { initSt with lastNBlocks := 3, peers := [(2, .initialized)],
                stored := ⟨8 * 528, blk 5281 528 5271, [(525, 5250), (526, 5260), (527, 5271)]⟩ }

/-- what a peer whose previous proved state is on an older branch proves for tip 533 of branch C
(C = B up to block 526): reorg headers 522..524 before its own previous start (on C, hence common
with B), last headers 530..532 of C -/
def lagNps : ProveState :=
  ⟨blk 5332 533 5322, [blk 5220 522 5210, blk 5230 523 5220, blk 5240 524 5230],
    [blk 5302 530 5292, blk 5312 531 5302, blk 5322 532 5312]⟩

/-- **defect (b): a lagging peer's proof of a heavier tip is taken for a long fork.**  The
remembered numbers are 525..528; neither the reorg headers (522..524) nor the new last headers
(530..533) overlap them, so `forkOf` finds no common block although block 526 (remembered, hash
`5260`) is on both chains: `commit_prove_state` reports a long fork, nothing is adopted and the
proof is asked for again from genesis (whose honest answer is the deliberate abort, see
`long_fork_answer_aborts`). -/
theorem lagging_peer_abandoned_tip_is_long_fork :
    forkOf lagSt lagNps = some none ∧ remembered lagSt 526 = some 5260 ∧
    commitProveState lagSt 2 lagNps = .ok (.ok (lagSt, false)) :=
  ⟨by decide, by decide, by rfl⟩

/-- `MESSAGE_TIMEOUT` 60 s, refresh period 8 s; peer 1 is `Ready` at block 10 since time 1000 -/
def quietSt (pst : PeerState) : St := { exSt with peers := [(1, pst)] }

/-- **(c): an honest peer on a quiet chain is disconnected.**  The refresh timer (time 10000) asks
peer 1 — `Ready`, proved, tip announced at time 1000 — for its last state.  The peer answers at
once with its tip, which has not changed: 200, but the state stays `RequestNewLastState` with the
old timestamps ("Do NOT update the timestamp for same last state, so it could be banned after
timeout check").  No further request is made for it, and once the announcement is older than
`MESSAGE_TIMEOUT` the peer is in the timeout list although every request was answered correctly
and in time. -/
theorem quiet_chain_peer_is_disconnected :
    let ls : LastState := ⟨blk 100 10 90, 1000⟩
    let asked := quietSt (.requestNewLastState ls ps10 10000)
    (onTick (quietSt (.ready ls ps10)) 10000 []).map (fun o => (o.st, o.disconnect, o.sent)) =
      .ok (asked, [], [.getLastState 1]) ∧
    onLastState asked 1 (blk 100 10 90) 10010 0 [] = .ok ⟨asked, .ok, []⟩ ∧
    (onTick asked 20000 []).map (fun o => (o.st, o.disconnect, o.sent)) = .ok (asked, [], []) ∧
    (onTick asked 61001 []).map (·.disconnect) = .ok [1] :=
  ⟨by rfl, by rfl, by rfl, by rfl⟩

/-! ## 6. TAU is not checked from the genesis header (repaired by c30d699) -/

/-- **why TAU must not be checked from the genesis header.**  `verify_tau` compares the epoch
difficulties `block difficulty × epoch length` of its two headers.  The epoch field of the genesis
header is `⟨0, 0, 0⟩` — length 0 —, so the epoch difficulty computed from it is 0 and no number of
`× tau` steps reaches the epoch difficulty of a header in a later epoch: the check fails whatever
the chain is (here: constant difficulty 8, compact target `0x20200000`, epochs of 1000 blocks,
`tau = 2`, end header in epoch 3), while from block 1 — epoch `⟨0, 1, 1000⟩`, the true length —
it passes.  The handler (`Prove.tauStartIdx`) therefore starts from the header after the genesis
header when there is one before the end header (`tauStartIdx_genesis`), and from the first header
after the reorg section in every other case (`tauStartIdx_of_ne_zero`, `tauStartIdx_of_not_lt`). -/
theorem witness_tau_not_from_genesis :
    verifyTau ⟨0, 0, 0⟩ 0x20200000 ⟨3, 0, 1000⟩ 0x20200000 2 = .fail ∧
    verifyTau ⟨0, 1, 1000⟩ 0x20200000 ⟨3, 0, 1000⟩ 0x20200000 2 = .pass ∧
    (∀ (g h1 : VH) (rest : List VH) (k : Nat), g.number = 0 → 1 ≤ k →
      tauStartIdx (g :: h1 :: rest) 0 k = 1) ∧
    (∀ (headers : List VH) (reorg endIdx : Nat) (h : VH), headers[reorg]? = some h →
      h.number ≠ 0 → tauStartIdx headers reorg endIdx = reorg) :=
  ⟨by decide, by decide, fun g h1 rest _ h0 hk => tauStartIdx_genesis_cons g (h1 :: rest) h0 hk,
    fun _ _ endIdx _ hh h0 => tauStartIdx_of_ne_zero endIdx hh h0⟩

/-- from the genesis header the check fails for **every** later end header with a non-zero epoch
difficulty that passes the overflow guards — not only on the witness chain -/
theorem tau_from_zero_length_epoch_fails (se ee : Epoch) (sc ec tau : Nat) (hlen : se.length = 0)
    (hne : se.number ≠ ee.number) (hpos : 0 < compactToDifficulty ec * ee.length) :
    verifyTau se sc ee ec tau ≠ .pass := by
  have hmul : ∀ n, mulIter tau n 0 = 0 := by
    intro n
    induction n with
    | zero => rfl
    | succ n ih => simpa [mulIter, satMulU256] using ih
  unfold verifyTau
  rw [if_neg hne, hlen]
  simp only [Nat.mul_zero]
  split
  · exact fun h => by cases h
  · have hnew : Trend.new 0 (compactToDifficulty ec * ee.length) =
        .increased 0 (compactToDifficulty ec * ee.length) := by
      unfold Trend.new
      rw [if_neg (by omega), if_pos hpos]
    simp only [hnew, Trend.checkTau, hmul]
    have : ¬ compactToDifficulty ec * ee.length ≤ 0 := by omega
    simp [this]

/-- block `n` of a test chain from genesis: block difficulty 8, total difficulty `8 * (n + 1)`;
the epoch is given (the genesis header: `⟨0, 0, 0⟩`; epochs of 2 blocks after it) -/
def gblk (n : Nat) (e : Epoch) : VH :=
  ⟨n, n, n, n - 1, 8 * n, n - 1, e, 0x20200000, true, true, true⟩

/-- a request from genesis for block 7 (`last_n_blocks = 1`, boundary 50: block 6; sampled
difficulties 5 and 30: blocks 0 and 3) -/
def gContent : ReqContent := ⟨7, 0, 0, 1, 50, [5, 30]⟩

def gSt : St :=
  { initSt with lastNBlocks := 1, peers := [(1, .requestFirstLastStateProof
      ⟨gblk 7 ⟨3, 1, 2⟩, 0⟩ ⟨gblk 7 ⟨3, 1, 2⟩, gContent, false, false⟩ 0)] }

/-- the answer: the genesis header and block 3 (epoch 1) sampled, block 6 (epoch 3) last-N -/
def gMsg : ProofMsg :=
  ⟨gblk 7 ⟨3, 1, 2⟩, [gblk 0 ⟨0, 0, 0⟩, gblk 3 ⟨1, 1, 2⟩, gblk 6 ⟨3, 0, 2⟩], false, true⟩

/-- **an answer whose first sampled header is the genesis header is accepted at once.**  Shape
`(0, 2, 1)`; TAU is checked from index `tauStartIdx … = 1` (block 3) to index 2 (block 6) and
passes, the proof is committed with 200.  From index 0, the genesis header, the check fails: before
c30d699 the handler answered 201 `RequireRecheck` and asked for the same proof again (with
`skip_check_tau`). -/
theorem answer_sampling_genesis_is_accepted :
    checkMatched 1 gContent gMsg.headers gMsg.last = .ok (.ok (0, 2, 1)) ∧
    tauStartIdx gMsg.headers 0 2 = 1 ∧
    verifyTau ⟨0, 0, 0⟩ 0x20200000 ⟨3, 0, 2⟩ 0x20200000 gSt.tau = .fail ∧
    verifyTau ⟨1, 1, 2⟩ 0x20200000 ⟨3, 0, 2⟩ 0x20200000 gSt.tau = .pass ∧
    ∃ out, onProof gSt 1 gMsg 0 0 [] 0 [] = .ok out ∧ out.outcome = .ok ∧ out.sent = [] ∧
      getPeer out.st 1 = some (.ready ⟨gblk 7 ⟨3, 1, 2⟩, 0⟩
        ⟨gblk 7 ⟨3, 1, 2⟩, [], [gblk 6 ⟨3, 0, 2⟩]⟩) ∧
      out.st.stored = ⟨64, gblk 7 ⟨3, 1, 2⟩, [(6, 6)]⟩ :=
  ⟨by rfl, by rfl, by decide, by decide, _, by rfl, rfl, rfl, by rfl, by rfl⟩

/-! ## 7. the honest answer WITH sampled headers passes the shape check, in general -/

/-- **the matching loop consumes the honest samples.**  Over any chain with total difficulties
`td` whose block `n` (`1 ≤ n < hi`) has the header `hdr n`: for requested difficulties `ds` above
the start block's total difficulty that blocks before `hi` reach, followed by difficulties `extra`
that no block before `hi` reaches, the loop of `check_if_response_is_matched`, run on the headers
of the blocks the server selects (`Prove.sel`: every difficulty selects the first block that
reaches it), accepts every one of them and leaves exactly `extra`. -/
theorem matching_loop_consumes_honest_samples (td : Nat → Nat) (hdr : Nat → VH) (lo hi : Nat)
    (hhdr : ∀ n, 1 ≤ n → n < hi → IsBlock td (hdr n) ∧ (hdr n).number = n)
    (ds extra : List Nat)
    (hds : ∀ d ∈ ds, td lo < d ∧ ∃ m, lo ≤ m ∧ m < hi ∧ d ≤ td m)
    (hex : ∀ e ∈ extra, ∀ m, m < hi → td m < e) :
    checkMatched.matchLoop ((sel td lo hi ds).map hdr) (ds ++ extra) = .ok (some extra) :=
  matchLoop_honest td hdr lo hi hhdr ds.length ds extra (Nat.le_refl _) hds hex

/-- **C05 (proof, sampling branch — the shape check).**  Over any chain with strictly increasing
total difficulties, for any request (increasing difficulties above the start block's total
difficulty, at least one of them reached before the boundary block `bb`) the honest answer -
the reorg headers the request demands, the headers of the blocks the server's rule selects, the
blocks `bb .. last - 1` (the block before `bb` does not reach the boundary; at least `lastN` blocks,
more only when `bb` is the first block that reaches the boundary) - passes
`check_if_response_is_matched` with the server's own split `(reorg, sampled, last-N)`: an honest
peer is not banned by the shape check, whatever the chain, the request and the client's samples.
(Together with `answer_without_samples_accepted_shape` and
`answer_without_samples_long_section_accepted_shape` this covers every honest answer in the
sampling branch; the checks after the shape check are `C14.complete*` for the difficulties and
the verdict inputs.) -/
theorem sampled_answer_accepted_shape (td : Nat → Nat) (hstrict : ∀ m n, m < n → td m < td n)
    (hdr : Nat → VH) (lastN : Nat) (c : ReqContent) (last bb : Nat) (rs : List VH)
    (hhdr : ∀ n, 1 ≤ n → n ≤ last → IsBlock td (hdr n) ∧ (hdr n).number = n)
    (hlo : c.startNumber < bb) (hbl : bb < last)
    (hpw : c.difficulties.Pairwise (· < ·))
    (hgt : ∀ d ∈ c.difficulties, td c.startNumber < d)
    (hsome : c.difficulties.takeWhile (fun d => decide (d ≤ td (bb - 1))) ≠ [])
    (hb1 : td (bb - 1) < c.boundary)
    (hlen : lastN ≤ last - bb) (hlong : lastN < last - bb → c.boundary ≤ td bb)
    (hrsorted : checkMatched.sorted rs = true)
    (hrs : ∀ x ∈ rs, x.number < c.startNumber)
    (hreorg : rs ≠ [] → (rs.length = lastN ∨ rs.head?.map (·.number) = some 1) ∧
      rs.getLast?.map (·.number) = some (c.startNumber - 1))
    (hrtd : ∀ x ∈ rs, ∃ xtd, x.td = .ok xtd ∧ xtd < c.boundary) :
    checkMatched lastN c
      (rs ++ (sel td c.startNumber bb
          (c.difficulties.takeWhile (fun d => decide (d ≤ td (bb - 1))))).map hdr
        ++ (List.range' bb (last - bb)).map hdr) (hdr last) =
      .ok (.ok (rs.length,
        (sel td c.startNumber bb
          (c.difficulties.takeWhile (fun d => decide (d ≤ td (bb - 1))))).length,
        last - bb)) :=
  checkMatched_honest_sampled td hstrict hdr lastN c last bb rs hhdr hlo hbl hpw hgt hsome hb1 hlen
    hlong hrsorted hrs hreorg hrtd

/-- the test chain of this file: block `n` has the total difficulty `8 * n` -/
def tblk (n : Nat) : VH := blk n n (n - 1)

theorem tblk_is_block (n : Nat) (h : 1 ≤ n) (hn : n ≤ 1000) :
    IsBlock (fun n => 8 * n) (tblk n) ∧ (tblk n).number = n := by
  refine ⟨⟨rfl, ?_⟩, rfl⟩
  show addU256 60 (8 * (n - 1)) (Difficulty.compactToDifficulty 0x20200000) = .ok (8 * n)
  have hc : Difficulty.compactToDifficulty 0x20200000 = 8 := by decide
  rw [hc, addU256_eq_ok]
  have : (1000 : Nat) * 8 ≤ U256_MAX := by decide
  omega

/-- the premises of `sampled_answer_accepted_shape` are satisfiable: `last_n_blocks = 3`, start
block 10, last block 40, boundary 245 (block 31 is the first to reach it: `bb = 31`), requested
difficulties 100, 101, 150, 246 (blocks 13, 13 again, 19; 246 lies inside block 31): the answer
is the blocks 13, 19 and 31 .. 39, shape `(0, 2, 9)` -/
example : checkMatched 3 ⟨40, 10, 10, 3, 245, [100, 101, 150, 246]⟩
    ([] ++ [tblk 13, tblk 19] ++ (List.range' 31 9).map tblk) (tblk 40) = .ok (.ok (0, 2, 9)) := by
  have h := sampled_answer_accepted_shape (fun n => 8 * n) (by intro m n h; omega) tblk 3
    ⟨40, 10, 10, 3, 245, [100, 101, 150, 246]⟩ 40 31 []
    (fun n h1 h2 => tblk_is_block n h1 (by omega)) (by decide) (by decide) (by decide) (by decide)
    (by decide) (by decide) (by decide) (by decide) (by rfl) (by simp) (by simp) (by simp)
  have hsel : sel (fun n => 8 * n) 10 31
      (([100, 101, 150, 246] : List Nat).takeWhile (fun d => decide (d ≤ 8 * (31 - 1)))) = [13, 19] := by
    have : ([100, 101, 150, 246] : List Nat).takeWhile (fun d => decide (d ≤ 8 * (31 - 1)))
        = [100, 101, 150] := by decide
    rw [this]
    rw [sel]
    have f1 : firstReach (fun n => 8 * n) 10 31 100 = 13 := by decide
    rw [f1]
    have d1 : ([101, 150] : List Nat).dropWhile (fun x => decide (x ≤ 8 * 13)) = [150] := by decide
    rw [d1, sel]
    have f2 : firstReach (fun n => 8 * n) 10 31 150 = 19 := by decide
    rw [f2]
    have d2 : ([] : List Nat).dropWhile (fun x => decide (x ≤ 8 * 19)) = [] := by rfl
    rw [d2, sel]
  simp only at h
  rw [hsel] at h
  exact h

end C05

import LcModel.Sync.Conc
/-!
# C17 — concurrent RPC calls and protocol handlers behave like some serial order

Subject: the thread machine `Sync.stepL` over the write-level model of the store
(`Sync.opWrites` / `Sync.forkWrites`: `set_scripts`, a batch of block filters, the completion of
a matched-blocks record, the fork rollback), each operation bracketed by the one lock
(`Peers::matched_blocks()`'s write guard in the code).  Tied to the code by `./check C17`: the
serial outcomes of the real operations against this model (`lcmodel sync`), every pair of real
operations on two OS threads with the first paused at every one of its store writes (outcome =
one of the two serial outcomes; the second thread performs no store write while the first is
paused inside its operation), readers at every pause point, and randomized three-thread runs.

PARTIAL: the theorems are about the interleaving semantics of the model.  Real thread
schedules, the memory model of the machine, the fairness of `std::sync::RwLock` and the reads an
operation does in front of its lock acquisition are exercised by the check, not modelled.
-/
namespace C17
open Sync

/-! ## (1) serialisability -/

/-- **C17, outcome**: every complete execution of any number of threads, under any scheduler,
ends in the store that the same operations produce when they run one after another in some order
that keeps every thread's own order -/
theorem serializable {c0 c : Cfg} (hinit : initial c0) (hrun : Reach stepL c0 c) (hfin : final c) :
    ∃ order, Interleaving order (todos c0) ∧ c.store = runSerial c0.store order := by
  have hinv := serInv_reach hinit hrun
  unfold SerInv at hinv
  rw [hfin.1] at hinv
  rcases hinv with ⟨done, hcons, hstore⟩
  refine ⟨done, ⟨todos c, hcons, ?_⟩, hstore⟩
  intro l hl
  unfold todos at hl
  rcases List.mem_map.1 hl with ⟨t, ht, rfl⟩
  exact (hfin.2 t ht).1

/-- what "an interleaving that keeps every thread's own order" means: the serial order uses every
operation of every thread exactly once, and the operations of each thread appear in it in the
thread's order -/
theorem serial_order_is_faithful {order : List COp} {ls : List (List COp)}
    (h : Interleaving order ls) :
    order.Perm ls.flatten ∧ ∀ (j : Nat) (l : List COp), ls[j]? = some l → l.Sublist order :=
  ⟨h.perm, fun _ _ hj => h.sublist hj⟩

/-- the interleavings of two one-element lists -/
theorem perm_pair {order : List COp} {a b : COp} (hperm : order.Perm [a, b]) :
    order = [a, b] ∨ order = [b, a] := by
  have hlen := hperm.length_eq
  match order, hperm, hlen with
  | [x, y], hperm, _ =>
    have hx : x ∈ [a, b] := hperm.subset (by simp)
    simp at hx
    rcases hx with rfl | rfl
    · have hy : [y].Perm [b] := (List.perm_cons _).1 hperm
      have : y = b := by
        have := hy.subset (List.mem_singleton.2 rfl)
        simpa using this
      subst this
      exact Or.inl rfl
    · have hy : [y].Perm [a] := (List.perm_cons _).1 (hperm.trans (List.Perm.swap _ _ _))
      have : y = a := by
        have := hy.subset (List.mem_singleton.2 rfl)
        simpa using this
      subst this
      exact Or.inr rfl

/-- two threads, one operation each (what the check runs): the outcome is one of the two serial
outcomes -/
theorem pair_serializable {p : P} {a b : COp} {c : Cfg}
    (hrun : Reach stepL ⟨p, none, [⟨[a], none⟩, ⟨[b], none⟩]⟩ c) (hfin : final c) :
    c.store = runOp (runOp p a) b ∨ c.store = runOp (runOp p b) a := by
  have hinit : initial ⟨p, none, [⟨[a], none⟩, ⟨[b], none⟩]⟩ := by
    refine ⟨rfl, ?_⟩
    intro t ht
    simp at ht
    rcases ht with rfl | rfl <;> rfl
  rcases serializable hinit hrun hfin with ⟨order, hint, hstore⟩
  have hperm : order.Perm [a, b] := by
    have := hint.perm
    simpa [todos] using this
  rcases perm_pair hperm with rfl | rfl
  · exact Or.inl hstore
  · exact Or.inr hstore

/-! ## (3) readers -/

/-- **C17, readers**: whatever step of an execution a reader takes its snapshot of the store at,
it sees a serial execution of the operations started so far (`done`, in the order the lock was
taken — an interleaving of prefixes of the threads' lists), followed by a prefix of the writes of
at most one more operation (`cur`), computed from that serial state -/
theorem reader_sees_prefix {c0 c : Cfg} (hinit : initial c0) (hrun : Reach stepL c0 c) :
    ∃ (done : List COp) (cur : Option COp) (k : Nat),
      Consumes (done ++ cur.toList) (todos c0) (todos c) ∧
      c.store = applyWs (runSerial c0.store done)
        (((cur.map (cWrites (runSerial c0.store done))).getD []).take k) := by
  have hinv := serInv_reach hinit hrun
  unfold SerInv at hinv
  cases hl : c.lock with
  | none =>
    rw [hl] at hinv
    rcases hinv with ⟨done, hcons, hstore⟩
    exact ⟨done, none, 0, by simpa using hcons, by simpa [applyWs] using hstore⟩
  | some i =>
    rw [hl] at hinv
    rcases hinv with ⟨done, o, pre, ws, t, hcons, _, _, hw, hstore⟩
    refine ⟨done, some o, pre.length, by simpa using hcons, ?_⟩
    simp only [Option.map_some, Option.getD_some, hw, List.take_left']
    exact hstore

/-- a reader that looks while the lock is free sees exactly a serial state -/
theorem reader_between_operations {c0 c : Cfg} (hinit : initial c0) (hrun : Reach stepL c0 c)
    (hfree : c.lock = none) :
    ∃ done, Consumes done (todos c0) (todos c) ∧ c.store = runSerial c0.store done := by
  have hinv := serInv_reach hinit hrun
  unfold SerInv at hinv
  rw [hfree] at hinv
  exact hinv

/-! ## (4) no deadlock -/

/-- **C17, progress**: with the single lock every reachable configuration that is not final has
a step (the holder of the lock can always go on; a free lock can always be taken) … -/
theorem no_deadlock {c0 c : Cfg} (hinit : initial c0) (hrun : Reach stepL c0 c) (hnf : ¬ final c) :
    ∃ i c', stepL c i = some c' :=
  wf_progress (wf_reach hinit hrun) hnf

/-- … every step consumes work (operations left, then writes left of the current operation), so
no execution goes on for ever … -/
theorem every_step_consumes_work {c c' : Cfg} {i : Nat} (hs : stepL c i = some c') :
    Prod.Lex (· < ·) (· < ·) (work c') (work c) :=
  work_decreases hs

/-- … and from every reachable configuration all operations can complete -/
theorem all_operations_complete {c0 c : Cfg} (hinit : initial c0) (hrun : Reach stepL c0 c) :
    ∃ c', Reach stepL c c' ∧ final c' :=
  can_complete c (wf_reach hinit hrun)

/-- a thread that asks for the lock while another holds it does not move (what the check counts
as `blocked-by-lock`), whatever it wants to do -/
theorem blocked_while_held {c : Cfg} {i j : Nat} {t : Thread} (hl : c.lock = some j) (_hij : i ≠ j)
    (ht : c.threads[i]? = some t) (hidle : t.cur = none) : stepL c i = none := by
  unfold stepL
  rw [ht]
  simp only [hidle, hl]
  cases t.todo <;> rfl

/-! ## (2) the lock is needed -/

/-- script 1 is registered from 0, blocks 1..10 are filtered, block 5 waits in a record -/
def raceStore : P := ⟨[(1, 0)], 10, [⟨1, 10, [5]⟩], []⟩
/-- the completion of the record -/
def opBlocks : COp := .op .blocks
/-- `set_scripts partial [(script 2, from 3)]` -/
def opSetPartial : COp := .op (.set .part [(2, 3)])
def raceStart : Cfg := ⟨raceStore, none, [⟨[opBlocks], none⟩, ⟨[opSetPartial], none⟩]⟩
/-- `SendBlock` starts and indexes block 5; `set_scripts` runs completely; `SendBlock` goes on
with the writes it had decided on: it raises the number of every script below 10 to 10 —
including the new script 2 — and deletes the record -/
def raceSchedule : List Nat := [0, 0, 1, 1, 1, 0, 0, 0]
def raceEnd : P := ⟨[(1, 10), (2, 10)], 0, [], [(1, 5)]⟩

/-- **without the lock a store is reachable that no serial order produces**: `set_scripts
partial` racing the completion of a matched-blocks record -/
theorem lock_needed :
    ∃ c, runSched stepU raceStart raceSchedule = some c ∧ final c ∧ c.store = raceEnd ∧
      raceEnd ≠ runSerial raceStore [opBlocks, opSetPartial] ∧
      raceEnd ≠ runSerial raceStore [opSetPartial, opBlocks] := by
  refine ⟨⟨raceEnd, none, [⟨[], none⟩, ⟨[], none⟩]⟩, rfl, ⟨rfl, ?_⟩, rfl, by decide, by decide⟩
  intro t ht
  simp at ht
  subst ht
  exact ⟨rfl, rfl⟩

/-- … whatever interleaving of the two threads' operations is taken as the serial order -/
theorem lock_needed_every_order (order : List COp) (h : Interleaving order (todos raceStart)) :
    raceEnd ≠ runSerial raceStore order := by
  have hperm : order.Perm [opBlocks, opSetPartial] := by
    have := h.perm
    simpa [todos, raceStart] using this
  rcases perm_pair hperm with rfl | rfl <;> decide

/-- the two serial outcomes of that pair, for comparison -/
example : runSerial raceStore [opBlocks, opSetPartial] = ⟨[(1, 10), (2, 3)], 3, [], [(1, 5)]⟩ := by
  decide
example : runSerial raceStore [opSetPartial, opBlocks] = ⟨[(1, 0), (2, 3)], 0, [], []⟩ := by
  decide

/-- the racy store is not just different: it has lost activity for good.  Script 2 was registered
from block 3 and is reported as filtered up to block 10, but block 5 (which touches it) has not
been indexed for it and is not pending — the invariant of C08 / C09 is broken -/
theorem race_loses_activity :
    let touches : Nat → Nat → Bool := fun s b => (s == 1 || s == 2) && b == 5
    ¬ Inv touches ⟨raceEnd, fun s => if s = 2 then 3 else 0⟩ := by
  intro touches h
  have hs := h.safe (2, 10) (by decide) 5 (by decide) (by decide) (by decide)
  exact absurd hs (by decide)

/-- a second witness: `set_scripts partial` racing a batch of block filters (blocks 11..15, no
match).  The batch raises the numbers of all scripts to 15, the new script included, and moves
the filter progress to 15 over the rewind of `set_scripts` -/
def race2Store : P := ⟨[(1, 10)], 10, [], []⟩
def opFilters : COp := .op (.filters 11 5 [] true)
def race2Start : Cfg := ⟨race2Store, none, [⟨[opFilters], none⟩, ⟨[opSetPartial], none⟩]⟩
def race2End : P := ⟨[(1, 15), (2, 15)], 15, [], []⟩

theorem lock_needed_filters :
    ∃ c, runSched stepU race2Start [0, 1, 1, 1, 0, 0, 0] = some c ∧ final c ∧ c.store = race2End ∧
      race2End ≠ runSerial race2Store [opFilters, opSetPartial] ∧
      race2End ≠ runSerial race2Store [opSetPartial, opFilters] := by
  refine ⟨⟨race2End, none, [⟨[], none⟩, ⟨[], none⟩]⟩, rfl, ⟨rfl, ?_⟩, rfl, by decide, by decide⟩
  intro t ht
  simp at ht
  subst ht
  exact ⟨rfl, rfl⟩

/-! ## non-vacuity -/

/-- the same two threads **with** the lock, the scheduler trying the same order: after thread 0
has taken the lock thread 1 cannot start … -/
example : ∃ c, runSched stepL raceStart [0, 0] = some c ∧ stepL c 1 = none ∧ c.lock = some 0 := by
  exact ⟨_, rfl, by decide, rfl⟩

/-- … and the complete execution (thread 0, then thread 1) ends in a serial outcome; the premises
of `serializable` hold for it -/
example : ∃ c, Reach stepL raceStart c ∧ initial raceStart ∧ final c ∧
    c.store = runSerial raceStore [opBlocks, opSetPartial] := by
  refine ⟨⟨runSerial raceStore [opBlocks, opSetPartial], none, [⟨[], none⟩, ⟨[], none⟩]⟩,
    reach_of_runSched [0, 0, 0, 0, 0, 1, 1, 1] _ _ rfl, ⟨rfl, ?_⟩, ⟨rfl, ?_⟩, rfl⟩
  · intro t ht
    simp [raceStart] at ht
    rcases ht with rfl | rfl <;> rfl
  · intro t ht
    simp at ht
    subst ht
    exact ⟨rfl, rfl⟩

/-- the other order is reachable too (thread 1 first): both serial outcomes occur, and they
differ — the pair is not trivially commutative -/
example : ∃ c, Reach stepL raceStart c ∧ final c ∧
    c.store = runSerial raceStore [opSetPartial, opBlocks] ∧
    runSerial raceStore [opSetPartial, opBlocks] ≠ runSerial raceStore [opBlocks, opSetPartial] := by
  refine ⟨⟨runSerial raceStore [opSetPartial, opBlocks], none, [⟨[], none⟩, ⟨[], none⟩]⟩,
    reach_of_runSched [1, 1, 1, 0, 0] _ _ rfl, ⟨rfl, ?_⟩, rfl, by decide⟩
  intro t ht
  simp at ht
  subst ht
  exact ⟨rfl, rfl⟩

/-- a reader in the middle of the record completion (after the first of its three writes): it
sees block 5 indexed, the record still there — a proper prefix, as in `reader_sees_prefix` -/
example : ∃ c, runSched stepL raceStart [0, 0] = some c ∧
    c.store = applyWs raceStore ((cWrites raceStore opBlocks).take 1) ∧
    (cWrites raceStore opBlocks).length = 3 ∧ c.store.records ≠ [] ∧ (1, 5) ∈ c.store.indexed := by
  exact ⟨_, rfl, by decide, by decide, by decide, by decide⟩

/-- fork rollback racing a filter batch, with the lock: three threads, the fork in the middle -/
example : (runSched stepL
      ⟨raceStore, none, [⟨[opBlocks], none⟩, ⟨[.fork 3], none⟩, ⟨[opSetPartial], none⟩]⟩
      [1, 1, 1, 2, 2, 2, 0, 0]).map (·.store) =
    some (runSerial raceStore [.fork 3, opSetPartial, opBlocks]) := by
  decide

end C17

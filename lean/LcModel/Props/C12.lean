import LcModel.Prove.LemmasC1112
/-!
# C12 — the stored tip only moves to heavier proven headers with truthful difficulty

Subject: the writes to `Prove.St.stored` (model of `Storage::update_last_state` as called by
`update_prove_state_to_child` and `commit_prove_state`), tied to the code by `./check C12`.
-/
namespace C12
open Prove Difficulty

/-- **C12 (heavier only, last state).**  A `SendLastState` changes the stored tip only to a
strictly greater total difficulty, and then the stored tip is the announced header, which is now
this peer's proved header; the stored total difficulty is the total difficulty committed by the
header's own parent chain root plus its block difficulty, *and that chain root is the proved
parent's*: same total difficulty, end number = the parent's number, and the header is the
parent's child. -/
theorem last_state_store (s : St) (p : Nat) (h : VH) (now b : Nat) (ds : List Nat) (out : Out)
    (hr : onLastState s p h now b ds = .ok out) (hchg : out.st.stored ≠ s.stored) :
    s.stored.td < out.st.stored.td ∧ out.st.stored.tip = h ∧
    h.td = .ok out.st.stored.td ∧
    ∃ ps, trustedOf s p = some ps ∧ ps.last.td = .ok h.ptd ∧ h.pend = ps.last.number ∧
      isParentOf ps.last h = .ok true ∧
      trustedOf out.st p = some (newChild ps h s.lastNBlocks) ∧
      out.st.stored.lastN = (newChild ps h s.lastNBlocks).lastHeaders.map (fun x => (x.number, x.hid)) := by
  cases onLastState_ok hr with
  | same h1 => rw [h1] at hchg; exact absurd rfl hchg
  | moved pst pst1 prev hp _ h1 h2 => rw [h2] at hchg; exact absurd rfl hchg
  | child pst pst1 pst2 prev ps newTd hp _ h1 h4 h5 h6 h7 h8 h2 h3 =>
    have hp1 : getPeer (setPeer s p pst1) p = some pst1 := getPeer_setPeer_self_b pst1 hp
    by_cases hlt : s.stored.td < newTd
    · rw [if_pos hlt] at h3
      have htr : trustedOf out.st p = some (newChild ps h s.lastNBlocks) := by
        rw [h3, trustedOf_setPeer_self_b (s := storeLastState (setPeer s p pst1) _ _ _) pst2 hp1]
        exact (PeerState.receiveLastStateProof_ok h2).2
      have hst : out.st.stored = ⟨newTd, h,
          (newChild ps h s.lastNBlocks).lastHeaders.map (fun x => (x.number, x.hid))⟩ := by
        rw [h3]; rfl
      refine ⟨by rw [hst]; exact hlt, by rw [hst], by rw [hst]; exact h5, ps, ?_, h6, h7, h8, htr,
        by rw [hst]⟩
      simp [trustedOf, hp, h4]
    · rw [if_neg hlt] at h3
      rw [h3] at hchg; exact absurd rfl hchg
  | first pst pst1 hp _ h1 h2 =>
    rcases h2 with h2 | ⟨sent, h2⟩
    · rw [h2] at hchg; exact absurd rfl hchg
    · rw [(getLastStateProof_moves h2).1] at hchg; exact absurd rfl hchg

/-- **C12 (heavier only, proof).**  A `SendLastStateProof` changes the stored tip only to a
strictly greater total difficulty; the new tip is the last header of the request it answers,
which becomes the sender's proved header; the stored difficulty is the one committed by that
header; the stored last-N headers are the proved state's. -/
theorem proof_store (s : St) (p : Nat) (m : ProofMsg) (now b bG : Nat) (ds dsG : List Nat)
    (out : Out) (hr : onProof s p m now b ds bG dsG = .ok out) (hchg : out.st.stored ≠ s.stored) :
    s.stored.td < out.st.stored.td ∧
    ∃ pst req ps, getPeer s p = some pst ∧ pst.proveRequest? = some req ∧
      req.last.vid = m.last.vid ∧ out.st.stored.tip = req.last ∧
      req.last.td = .ok out.st.stored.td ∧
      trustedOf out.st p = some ps ∧ ps.last = req.last ∧
      out.st.stored.lastN = ps.lastHeaders.map (fun x => (x.number, x.hid)) := by
  cases onProof_ok hr with
  | same h1 => rw [h1] at hchg; exact absurd rfl hchg
  | relay pst pst1 req hp _ _ h1 h2 =>
    rcases h2 with h2 | ⟨sent, h2⟩
    · rw [h2] at hchg; exact absurd rfl hchg
    · rw [(getLastStateProof_moves h2).1] at hchg; exact absurd rfl hchg
  | rerequest pst pst' req r hp _ _ h1 h2 => rw [h2] at hchg; exact absurd rfl hchg
  | commit pst req nps hp hreq hvid hlast h1 =>
    obtain ⟨newTd, s0, pst', hTd, hpe, hst, hrec, hs1⟩ := commitProveState_true hp h1
    have hst' : out.st.stored = s0.stored := by rw [hs1]; rfl
    rcases hst with hst | ⟨hlt, hst⟩
    · rw [hst', hst] at hchg; exact absurd rfl hchg
    · rw [hst'] ; rw [hst]
      refine ⟨hlt, pst, req, nps, hp, hreq, hvid, hlast, hlast ▸ hTd, ?_, hlast, rfl⟩
      rw [hs1, trustedOf_setPeer_self_b pst' ((getPeer_congr_b hpe p).trans hp)]
      exact (PeerState.receiveLastStateProof_ok hrec).2

/-- **C12 (nothing else writes the tip).** -/
theorem other_events_keep_store (s : St) (p now : Nat) (si : SampleInputs) (t : TickOut)
    (ht : onTick s now si = .ok t) :
    t.st.stored = s.stored ∧ (onConnect s p now).1.stored = s.stored ∧
    (onDisconnect s p).stored = s.stored :=
  ⟨(onTick_ok ht).2.1, rfl, rfl⟩

/-- events of a light-client history -/
inductive Ev where
  | connect (p now : Nat)
  | disconnect (p : Nat)
  | lastState (p : Nat) (h : VH) (now b : Nat) (ds : List Nat)
  | proof (p : Nat) (m : ProofMsg) (now b bG : Nat) (ds dsG : List Nat)
  | tick (now : Nat) (si : SampleInputs)

/-- one event; an aborting handler ends the process, modelled as no change -/
def applyEv (s : St) : Ev → St
  | .connect p now => (onConnect s p now).1
  | .disconnect p => onDisconnect s p
  | .lastState p h now b ds => match onLastState s p h now b ds with | .ok o => o.st | .error _ => s
  | .proof p m now b bG ds dsG => match onProof s p m now b ds bG dsG with | .ok o => o.st | .error _ => s
  | .tick now si => match onTick s now si with | .ok o => o.st | .error _ => s

private theorem applyEv_step (s : St) (ev : Ev) :
    (applyEv s ev).stored = s.stored ∨ s.stored.td < (applyEv s ev).stored.td := by
  cases ev with
  | connect p now => exact .inl rfl
  | disconnect p => exact .inl rfl
  | lastState p h now b ds =>
    cases ho : onLastState s p h now b ds with
    | error e => simp [applyEv, ho]
    | ok o =>
      simp only [applyEv, ho]
      by_cases hc : o.st.stored = s.stored
      · exact .inl hc
      · exact .inr (last_state_store s p h now b ds o ho hc).1
  | proof p m now b bG ds dsG =>
    cases ho : onProof s p m now b ds bG dsG with
    | error e => simp [applyEv, ho]
    | ok o =>
      simp only [applyEv, ho]
      by_cases hc : o.st.stored = s.stored
      · exact .inl hc
      · exact .inr (proof_store s p m now b bG ds dsG o ho hc).1
  | tick now si =>
    cases ho : onTick s now si with
    | error e => simp [applyEv, ho]
    | ok o =>
      simp only [applyEv, ho]
      exact .inl (other_events_keep_store s 0 now si o ho).1

/-- **C12 (monotone along every history).**  For every sequence of connects, disconnects,
announcements, proofs and ticks from any peers in any order, the stored total difficulty never
decreases, and the stored tip is unchanged unless it strictly increased. -/
theorem monotone_history (s : St) (evs : List Ev) :
    s.stored.td ≤ (evs.foldl applyEv s).stored.td ∧
    ((evs.foldl applyEv s).stored.td = s.stored.td → (evs.foldl applyEv s).stored = s.stored) := by
  induction evs generalizing s with
  | nil => exact ⟨Nat.le_refl _, fun _ => rfl⟩
  | cons ev evs ih =>
    simp only [List.foldl_cons]
    obtain ⟨h1, h2⟩ := ih (applyEv s ev)
    rcases applyEv_step s ev with he | hlt
    · rw [he] at h1 h2
      exact ⟨h1, h2⟩
    · exact ⟨by omega, fun heq => by omega⟩

/-- **C12 (restart).**  The three stored values are all a restart reads; re-creating the
protocol state from them (no peers) reproduces tip, difficulty and last-N. -/
theorem restart_reproduces (s : St) :
    ({ s with peers := [] } : St).stored = s.stored := by
  rfl

/-- Witness kept from the pinned tree: a child whose parent chain root claims total difficulty
`2^200` is no longer adopted (its root does not match the proved parent's). -/
theorem witness_forged_child_not_adopted :
    let parent : VH := ⟨1, 1, 10, 0, 900, 9, ⟨0, 10, 1000⟩, 0x20028f5c, true, true, true⟩
    let child : VH := ⟨2, 2, 11, 1, 2^200, 10, ⟨0, 11, 1000⟩, 0x20028f5c, true, true, true⟩
    let s : St := ⟨100, 60000, 8000, 2, [(7, .ready ⟨parent, 0⟩ ⟨parent, [], []⟩)], ⟨1000, parent, []⟩, []⟩
    (onLastState s 7 child 5 0 []).map (·.st.stored.td) = .ok 1000 := by
  rfl

/-- non-vacuity: the honest child (root = proved parent's) is adopted -/
example :
    let parent : VH := ⟨1, 1, 10, 0, 900, 9, ⟨0, 10, 1000⟩, 0x20028f5c, true, true, true⟩
    let child : VH := ⟨2, 2, 11, 1, 1000, 10, ⟨0, 11, 1000⟩, 0x20028f5c, true, true, true⟩
    let s : St := ⟨100, 60000, 8000, 2, [(7, .ready ⟨parent, 0⟩ ⟨parent, [], []⟩)], ⟨1000, parent, []⟩, []⟩
    (onLastState s 7 child 5 0 []).map (·.st.stored.td) = .ok 1100 := by
  rfl

/-! ## the remembered headers stay the ancestors of the tip on the child path -/

private theorem linked_tail {x : VH} {xs : List VH} (h : Linked (x :: xs)) : Linked xs := by
  cases xs with
  | nil => trivial
  | cons y ys => exact h.2

private theorem linked_snoc : ∀ (l : List VH) (a c : VH), Linked (l ++ [a]) → isParentOf a c = .ok true →
    Linked (l ++ [a] ++ [c])
  | [], a, c, _, hp => ⟨hp, trivial⟩
  | [x], a, c, hl, hp => ⟨hl.1, hp, trivial⟩
  | x :: y :: rest, a, c, hl, hp => ⟨hl.1, linked_snoc (y :: rest) a c hl.2 hp⟩

/-- **C12 (ancestors, child path).**  If the headers a peer's proved state remembers are
parent-linked up to its proved header, and the announced header is the child of the proved header
(what the fast path checks), then the headers remembered by the new proved state - which are
the ones `last_state_store` says are written to the store - are parent-linked up to the new tip and
end with its parent: the stored last-N headers are ancestors of the stored tip, whatever tip and
headers ANOTHER peer had put into the store before (they are overwritten, not extended). -/
theorem child_keeps_remembered_linked (ps : ProveState) (h : VH) (n : Nat)
    (hl : Linked (ps.lastHeaders ++ [ps.last])) (hp : isParentOf ps.last h = .ok true) :
    Linked ((newChild ps h n).lastHeaders ++ [h]) ∧
    (newChild ps h n).lastHeaders.getLast? = some ps.last := by
  unfold newChild
  simp only
  constructor
  · split
    · cases hlh : ps.lastHeaders with
      | nil => exact ⟨hp, trivial⟩
      | cons x xs =>
        rw [hlh] at hl
        simp only [List.drop_succ_cons, List.drop_zero]
        exact linked_snoc xs ps.last h (linked_tail hl) hp
    · exact linked_snoc ps.lastHeaders ps.last h hl hp
  · simp

end C12


import LcModel.Kv.Lemmas
/-!
# C13 — cell and transaction queries are exact views of the index

Subject: `Kv.getCells`, `Kv.getTxs`, `Kv.getTxsGrouped`, `Kv.getCellsCapacity` (model of the RPC
implementations in `src/service.rs` over an ordered byte-keyed store), tied to the code by
`./check C13`.  The store is any list of entries whose keys are strictly increasing byte strings.
-/
namespace C13
open Kv

/-- keys in strictly increasing (RocksDB) order -/
def StrictSorted (keys : List Bytes) : Prop := keys.Pairwise (fun a b => bytesLt a b = true)

/-- all bytes are bytes -/
def WellFormed (keys : List Bytes) : Prop := ∀ k ∈ keys, ∀ b ∈ k, b < 256

/-- the key-length hypothesis of the descending start key (`prefix ++ 0xff × (65535 - args_len)`):
no matching key is longer than the start key -/
def FitsDescStart (keys : List Bytes) (pre : Bytes) (argsLen : Nat) : Prop :=
  ∀ k ∈ keys, startsWith pre k = true → k.length ≤ pre.length + (MAX_PREFIX_SEARCH_SIZE - argsLen)

/-- the entries a cell query is about, in key order -/
def matchingCells (store : List CellEntry) (pre : Bytes) (f : CellFilter) (fot : Bool) :
    List CellEntry :=
  store.filter (fun e => startsWith pre e.key && longEnough pre CELL_KEY_SUFFIX_LEN e.key &&
    cellPasses f fot e)

/-- following `last_cursor` page by page until an empty page (`fuel` bounds the number of pages) -/
def walkCells (store : List CellEntry) (pre : Bytes) (argsLen : Nat) (order : Order) (limit : Nat)
    (f : CellFilter) (fot : Bool) : Nat → Option Bytes → List CellEntry
  | 0, _ => []
  | fuel+1, after =>
    let p := getCells store pre argsLen order limit after f fot
    if p.objects.isEmpty then [] else p.objects ++ walkCells store pre argsLen order limit f fot fuel (some p.lastCursor)

/-! ### bridging the statements to the generic paging lemmas of `Kv.Lemmas` -/

private theorem sortedBy_of_strictSorted {α} {key : α → Bytes} {store : List α}
    (hs : StrictSorted (store.map key)) : SortedBy key store := by
  unfold StrictSorted at hs
  rw [List.pairwise_map] at hs
  exact hs

private theorem fit_of_hyps {α} {key : α → Bytes} {store : List α} {pre : Bytes} {argsLen : Nat}
    (hw : WellFormed (store.map key)) (hd : FitsDescStart (store.map key) pre argsLen) :
    ∀ x ∈ store, startsWith pre (key x) = true →
      bytesLt (pre ++ List.replicate (MAX_PREFIX_SEARCH_SIZE - argsLen) 255) (key x) = false := by
  intro x hx hq
  have hm : key x ∈ store.map key := List.mem_map_of_mem hx
  exact descStart_not_lt hq (hd _ hm hq) (hw _ hm)

private theorem getCells_eq (store : List CellEntry) (pre : Bytes) (argsLen : Nat) (order : Order)
    (limit : Nat) (after : Option Bytes) (f : CellFilter) (fot : Bool) :
    getCells store pre argsLen order limit after f fot =
      ⟨pageObjs (·.key) store pre argsLen order limit after
          (fun e => longEnough pre CELL_KEY_SUFFIX_LEN e.key && cellPasses f fot e),
        ((pageObjs (·.key) store pre argsLen order limit after
          (fun e => longEnough pre CELL_KEY_SUFFIX_LEN e.key && cellPasses f fot e)).getLast?.map
            (·.key)).getD []⟩ := by
  cases order <;> cases after <;> rfl

private theorem getTxs_eq (store : List TxEntry) (allKeys : List Bytes) (pre : Bytes)
    (argsLen : Nat) (order : Order) (limit : Nat) (after : Option Bytes) (f : TxFilter) :
    getTxs store allKeys pre argsLen order limit after f =
      ⟨pageObjs (·.key) store pre argsLen order limit after
          (fun e => longEnough pre TX_KEY_SUFFIX_LEN e.key && txPasses allKeys f e),
        ((pageObjs (·.key) store pre argsLen order limit after
          (fun e => longEnough pre TX_KEY_SUFFIX_LEN e.key && txPasses allKeys f e)).getLast?.map
            (·.key)).getD []⟩ := by
  cases order <;> cases after <;> rfl

private theorem walkCells_eq (store : List CellEntry) (pre : Bytes) (argsLen : Nat) (order : Order)
    (limit : Nat) (f : CellFilter) (fot : Bool) (fuel : Nat) (after : Option Bytes) :
    walkCells store pre argsLen order limit f fot fuel after =
      walk (·.key) store pre argsLen order limit
        (fun e => longEnough pre CELL_KEY_SUFFIX_LEN e.key && cellPasses f fot e) fuel after := by
  induction fuel generalizing after with
  | zero => rfl
  | succ fuel ih =>
    unfold walkCells walk
    simp only [getCells_eq, ih]

private theorem matchingCells_eq (store : List CellEntry) (pre : Bytes) (f : CellFilter)
    (fot : Bool) :
    matchingCells store pre f fot =
      store.filter (fun e => (longEnough pre CELL_KEY_SUFFIX_LEN e.key && cellPasses f fot e) &&
        startsWith pre e.key) := by
  unfold matchingCells
  apply List.filter_congr
  intro x _
  cases startsWith pre x.key <;> simp

private theorem walkCells_asc (store : List CellEntry) (pre : Bytes) (argsLen : Nat) (limit : Nat)
    (f : CellFilter) (fot : Bool) (fuel : Nat) (hs : StrictSorted (store.map (·.key)))
    (hl : 1 ≤ limit) (hfuel : store.length + 1 ≤ fuel) :
    walkCells store pre argsLen .asc limit f fot fuel none = matchingCells store pre f fot := by
  rw [walkCells_eq, matchingCells_eq]
  exact walk_asc (sortedBy_of_strictSorted hs) hl hfuel

/-- **C13 (pages partition the matching cells).**  For every store, search prefix, order, page
size `≥ 1` and filter: following `last_cursor` until an empty page yields every matching entry
exactly once, in key order (ascending) or reverse key order (descending). -/
theorem cells_pages_partition (store : List CellEntry) (pre : Bytes) (argsLen : Nat)
    (order : Order) (limit : Nat) (f : CellFilter) (fot : Bool) (fuel : Nat)
    (hs : StrictSorted (store.map (·.key))) (hw : WellFormed (store.map (·.key)))
    (hpre : ∀ b ∈ pre, b < 256)
    (hd : FitsDescStart (store.map (·.key)) pre argsLen)
    (hl : 1 ≤ limit) (hfuel : store.length + 1 ≤ fuel) :
    walkCells store pre argsLen order limit f fot fuel none =
      (match order with
       | .asc => matchingCells store pre f fot
       | .desc => (matchingCells store pre f fot).reverse) := by
  cases order with
  | asc => exact walkCells_asc store pre argsLen limit f fot fuel hs hl hfuel
  | desc =>
    show walkCells store pre argsLen .desc limit f fot fuel none = _
    rw [walkCells_eq, matchingCells_eq]
    exact walk_desc (sortedBy_of_strictSorted hs) hl hfuel (fit_of_hyps hw hd)

/-- **C13 (descending is the reverse of ascending).** -/
theorem cells_desc_is_reverse (store : List CellEntry) (pre : Bytes) (argsLen : Nat)
    (limit limit' : Nat) (f : CellFilter) (fot : Bool) (fuel fuel' : Nat)
    (hs : StrictSorted (store.map (·.key))) (hw : WellFormed (store.map (·.key)))
    (hpre : ∀ b ∈ pre, b < 256)
    (hd : FitsDescStart (store.map (·.key)) pre argsLen)
    (hl : 1 ≤ limit) (hl' : 1 ≤ limit')
    (hfuel : store.length + 1 ≤ fuel) (hfuel' : store.length + 1 ≤ fuel') :
    walkCells store pre argsLen .desc limit f fot fuel none =
      (walkCells store pre argsLen .asc limit' f fot fuel' none).reverse := by
  rw [cells_pages_partition store pre argsLen .desc limit f fot fuel hs hw hpre hd hl hfuel,
    cells_pages_partition store pre argsLen .asc limit' f fot fuel' hs hw hpre hd hl' hfuel']

/-- **C13 (capacity).**  `get_cells_capacity` is the capacity sum of exactly the cells that
`get_cells` returns for the same key (over all pages, any page size). -/
theorem capacity_eq_sum (store : List CellEntry) (pre : Bytes) (argsLen : Nat) (limit : Nat)
    (f : CellFilter) (fot : Bool) (fuel : Nat)
    (hs : StrictSorted (store.map (·.key))) (hw : WellFormed (store.map (·.key)))
    (hpre : ∀ b ∈ pre, b < 256)
    (hl : 1 ≤ limit) (hfuel : store.length + 1 ≤ fuel) :
    getCellsCapacity store pre argsLen f fot =
      ((walkCells store pre argsLen .asc limit f fot fuel none).map (·.capacity)).sum := by
  rw [walkCells_asc store pre argsLen limit f fot fuel hs hl hfuel, matchingCells_eq]
  show (((scan (·.key) store pre pre .asc 0).filter _).map (·.capacity)).sum = _
  rw [scan_asc_none (sortedBy_of_strictSorted hs), List.filter_filter]

/-- the same for `get_transactions` (ungrouped) -/
def matchingTxs (store : List TxEntry) (allKeys : List Bytes) (pre : Bytes) (f : TxFilter) :
    List TxEntry :=
  store.filter (fun e => startsWith pre e.key && longEnough pre TX_KEY_SUFFIX_LEN e.key &&
    txPasses allKeys f e)

def walkTxs (store : List TxEntry) (allKeys : List Bytes) (pre : Bytes) (argsLen : Nat)
    (order : Order) (limit : Nat) (f : TxFilter) : Nat → Option Bytes → List TxEntry
  | 0, _ => []
  | fuel+1, after =>
    let p := getTxs store allKeys pre argsLen order limit after f
    if p.objects.isEmpty then [] else p.objects ++ walkTxs store allKeys pre argsLen order limit f fuel (some p.lastCursor)

private theorem walkTxs_eq (store : List TxEntry) (allKeys : List Bytes) (pre : Bytes)
    (argsLen : Nat) (order : Order) (limit : Nat) (f : TxFilter) (fuel : Nat)
    (after : Option Bytes) :
    walkTxs store allKeys pre argsLen order limit f fuel after =
      walk (·.key) store pre argsLen order limit
        (fun e => longEnough pre TX_KEY_SUFFIX_LEN e.key && txPasses allKeys f e) fuel after := by
  induction fuel generalizing after with
  | zero => rfl
  | succ fuel ih =>
    unfold walkTxs walk
    simp only [getTxs_eq, ih]

private theorem matchingTxs_eq (store : List TxEntry) (allKeys : List Bytes) (pre : Bytes)
    (f : TxFilter) :
    matchingTxs store allKeys pre f =
      store.filter (fun e => (longEnough pre TX_KEY_SUFFIX_LEN e.key && txPasses allKeys f e) &&
        startsWith pre e.key) := by
  unfold matchingTxs
  apply List.filter_congr
  intro x _
  cases startsWith pre x.key <;> simp

/-- **C13 (pages partition the matching history entries).** -/
theorem txs_pages_partition (store : List TxEntry) (allKeys : List Bytes) (pre : Bytes)
    (argsLen : Nat) (order : Order) (limit : Nat) (f : TxFilter) (fuel : Nat)
    (hs : StrictSorted (store.map (·.key))) (hw : WellFormed (store.map (·.key)))
    (hpre : ∀ b ∈ pre, b < 256)
    (hd : FitsDescStart (store.map (·.key)) pre argsLen)
    (hl : 1 ≤ limit) (hfuel : store.length + 1 ≤ fuel) :
    walkTxs store allKeys pre argsLen order limit f fuel none =
      (match order with
       | .asc => matchingTxs store allKeys pre f
       | .desc => (matchingTxs store allKeys pre f).reverse) := by
  rw [walkTxs_eq, matchingTxs_eq]
  cases order with
  | asc => exact walk_asc (sortedBy_of_strictSorted hs) hl hfuel
  | desc => exact walk_desc (sortedBy_of_strictSorted hs) hl hfuel (fit_of_hyps hw hd)

/-- **C13 (grouped = ungrouped grouped by transaction, one page).**  Flattening the groups of a
grouped page gives a prefix of the matching entries of the scan, every group is non-empty and
holds entries of one transaction, adjacent groups belong to different transactions, and there
are at most `limit` groups. -/
theorem grouped_page (store : List TxEntry) (allKeys : List Bytes) (pre : Bytes) (argsLen : Nat)
    (order : Order) (limit : Nat) (after : Option Bytes) (f : TxFilter) (hl : 1 ≤ limit) :
    let p := getTxsGrouped store allKeys pre argsLen order limit after f
    let (from_, skip) := queryStart pre argsLen order after
    let scanned := (scan (·.key) store pre from_ order skip).filter
      (fun e => longEnough pre TX_KEY_SUFFIX_LEN e.key && txPasses allKeys f e)
    p.objects.flatten <+: scanned ∧
    p.objects.length ≤ limit ∧
    (∀ g ∈ p.objects, g ≠ [] ∧ ∀ a ∈ g, ∀ b ∈ g, a.txHash = b.txHash) ∧
    (p.objects.length < limit → p.objects.flatten = scanned) := by
  intro p
  have hp : p = getTxsGrouped store allKeys pre argsLen order limit after f := rfl
  clear_value p
  unfold getTxsGrouped at hp
  generalize queryStart pre argsLen order after = qs at hp ⊢
  obtain ⟨from_, skip⟩ := qs
  simp only at hp ⊢
  have inv := groupLoop_inv allKeys f pre limit (scan (·.key) store pre from_ order skip) [] []
    (Nat.zero_le _) (by intro g hg; simp at hg)
  generalize groupLoop allKeys f pre limit (scan (·.key) store pre from_ order skip) [] [] = r
    at hp inv
  obtain ⟨out, last⟩ := r
  simp only at hp inv
  obtain ⟨h1, h2, X, h3, h4, h5⟩ := inv
  subst hp
  have hflat : ((out.map List.reverse).reverse).flatten = X := by
    have : flat out = X := by rw [h3]; simp [flat]
    exact this
  simp only
  refine ⟨by rw [hflat]; exact h4, by simpa using h1, ?_, ?_⟩
  · intro g hg
    have hg' : g.reverse ∈ out := by
      simp only [List.mem_reverse, List.mem_map] at hg
      obtain ⟨a, ha, rfl⟩ := hg
      simpa using ha
    obtain ⟨hne, hsame⟩ := h2 _ hg'
    refine ⟨by simpa using hne, ?_⟩
    intro a ha b hb
    exact hsame a (by simpa using ha) b (by simpa using hb)
  · intro hlt
    rw [hflat]
    exact h5 (by simpa using hlt)

/-- **C13 (the search prefix is matched against the script, not against the key).**  For a key
of the stored shape `[keyspace] ++ script ++ suffix` (suffix of the fixed length) an entry is
selected by a search for `want` iff the *script* starts with `want`. -/
theorem prefix_exact (ks : Nat) (script want suffix : Bytes) (n : Nat) (hn : suffix.length = n) :
    (startsWith ([ks] ++ want) ([ks] ++ script ++ suffix) = true ∧
      longEnough ([ks] ++ want) n ([ks] ++ script ++ suffix) = true) ↔
    startsWith want script = true := by
  have hlen : longEnough ([ks] ++ want) n ([ks] ++ script ++ suffix) = true ↔
      want.length ≤ script.length := by
    simp only [longEnough, List.length_append, List.length_cons, List.length_nil, hn,
      decide_eq_true_eq]
    omega
  have hsw : startsWith ([ks] ++ want) ([ks] ++ script ++ suffix) =
      startsWith want (script ++ suffix) := by
    simp [startsWith]
  rw [hlen, hsw]
  constructor
  · rintro ⟨h1, h2⟩
    rwa [startsWith_append_right suffix h2] at h1
  · intro h
    have h2 := startsWith_length h
    exact ⟨by rwa [startsWith_append_right suffix h2], h2⟩

/-- Without the length test the statement fails (the defect fixed in `service.rs`): the key of
script `a1` in block 2 starts with the prefix of script `a1 00`. -/
theorem witness_ambiguous_key_without_length_test :
    startsWith [32, 0xa1, 0x00] ([32, 0xa1] ++ [0,0,0,0,0,0,0,2, 0,0,0,0, 0,0,0,0]) = true ∧
    startsWith [0xa1, 0x00] [0xa1] = false := by
  constructor <;> rfl

/-! ## non-vacuity -/

private def c (k : Bytes) (cap : Nat) : CellEntry := ⟨k, [], [], none, 0, cap⟩

/-- three cells under prefix `[32, 1]`, page size 2: the walk returns all three, once -/
example :
    (walkCells [c [32, 1, 0,0,0,0,0,0,0,1, 0,0,0,0, 0,0,0,0] 5, c [32, 1, 0,0,0,0,0,0,0,1, 0,0,0,0, 0,0,0,1] 6,
                c [32, 1, 0,0,0,0,0,0,0,2, 0,0,0,0, 0,0,0,0] 7, c [32, 2, 0,0,0,0,0,0,0,1, 0,0,0,0, 0,0,0,0] 8]
      [32, 1] 0 .asc 2 {} false 5 none).map (·.capacity) = [5, 6, 7] := by rfl

end C13

import LcModel.Kv.Lemmas
/-!
# C13 — cell and transaction queries are exact views of the index

Subject: `Kv.getCells`, `Kv.getTxs`, `Kv.getTxsGrouped`, `Kv.getCellsCapacity` (model of the RPC
implementations in `src/service.rs` over an ordered byte-keyed store), tied to the code by
`./check C13`.  The store is any list of entries whose keys are strictly increasing byte strings.
-/
namespace C13
open Kv

/-- keys in strictly increasing (RocksDB) order -/
def StrictSorted (keys : List Bytes) : Prop := keys.Pairwise (fun a b => bytesLt a b = true)

/-- all bytes are bytes -/
def WellFormed (keys : List Bytes) : Prop := ∀ k ∈ keys, ∀ b ∈ k, b < 256

/-- the key-length hypothesis of the descending start key (`prefix ++ 0xff × (65535 - args_len)`):
no matching key is longer than the start key -/
def FitsDescStart (keys : List Bytes) (pre : Bytes) (argsLen : Nat) : Prop :=
  ∀ k ∈ keys, startsWith pre k = true → k.length ≤ pre.length + (MAX_PREFIX_SEARCH_SIZE - argsLen)

/-- the entries a cell query is about, in key order -/
def matchingCells (store : List CellEntry) (pre : Bytes) (f : CellFilter) (fot : Bool) :
    List CellEntry :=
  store.filter (fun e => startsWith pre e.key && longEnough pre CELL_KEY_SUFFIX_LEN e.key &&
    cellPasses f fot e)

/-- following `last_cursor` page by page until an empty page (`fuel` bounds the number of pages) -/
def walkCells (store : List CellEntry) (pre : Bytes) (argsLen : Nat) (order : Order) (limit : Nat)
    (f : CellFilter) (fot : Bool) : Nat → Option Bytes → List CellEntry
  | 0, _ => []
  | fuel+1, after =>
    let p := getCells store pre argsLen order limit after f fot
    if p.objects.isEmpty then [] else p.objects ++ walkCells store pre argsLen order limit f fot fuel (some p.lastCursor)




/-- the same for `get_transactions` (ungrouped) -/
def matchingTxs (store : List TxEntry) (allKeys : List Bytes) (pre : Bytes) (f : TxFilter) :
    List TxEntry :=
  store.filter (fun e => startsWith pre e.key && longEnough pre TX_KEY_SUFFIX_LEN e.key &&
    txPasses allKeys f e)

def walkTxs (store : List TxEntry) (allKeys : List Bytes) (pre : Bytes) (argsLen : Nat)
    (order : Order) (limit : Nat) (f : TxFilter) : Nat → Option Bytes → List TxEntry
  | 0, _ => []
  | fuel+1, after =>
    let p := getTxs store allKeys pre argsLen order limit after f
    if p.objects.isEmpty then [] else p.objects ++ walkTxs store allKeys pre argsLen order limit f fuel (some p.lastCursor)




/-- Without the length test the statement fails (the defect fixed in `service.rs`): the key of
script `a1` in block 2 starts with the prefix of script `a1 00`. -/
theorem witness_ambiguous_key_without_length_test :
    startsWith [32, 0xa1, 0x00] ([32, 0xa1] ++ [0,0,0,0,0,0,0,2, 0,0,0,0, 0,0,0,0]) = true ∧
    startsWith [0xa1, 0x00] [0xa1] = false := by
  constructor <;> rfl

/-! ## non-vacuity -/

private def c (k : Bytes) (cap : Nat) : CellEntry := ⟨k, [], [], none, 0, cap⟩

/-- three cells under prefix `[32, 1]`, page size 2: the walk returns all three, once -/
example :
    (walkCells [c [32, 1, 0,0,0,0,0,0,0,1, 0,0,0,0, 0,0,0,0] 5, c [32, 1, 0,0,0,0,0,0,0,1, 0,0,0,0, 0,0,0,1] 6,
                c [32, 1, 0,0,0,0,0,0,0,2, 0,0,0,0, 0,0,0,0] 7, c [32, 2, 0,0,0,0,0,0,0,1, 0,0,0,0, 0,0,0,0] 8]
      [32, 1] 0 .asc 2 {} false 5 none).map (·.capacity) = [5, 6, 7] := by rfl

end C13
